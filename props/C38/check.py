"""C38 -- material-property call contracts (status, bounds, errno): generic interface, C interface (_checkBounds and, as an
observation, its main function) and c++ interface (static checkBounds and operator()).
Engine H + G: Gallina contract model (coq/C38Model.v) with theorems over the (extended) reals; tie = random material
properties printed to .mfront, compiled through the `generic`, `c` and `c++` interfaces of the mfront built from the working
tree, called on argument vectors on and around every bound (NaN included), all policies, caller errno in {0, EDOM, ERANGE, 42},
injected law outcomes (value, errno left, exception), wrong argument counts, DSL options (parameters with a parameters file
-> status -6, static parameters, initialisation from file disabled, disabled runtime checks, default policy / runtime
modification of the policy for the c++ interface); compared with the extracted model and with an independent Python statement
of the documented contract (docs/web/generic-material-property-interface.md, OutputStatus.h, docs/web/material-properties.md)."""
import math, os, sys
from concurrent.futures import ThreadPoolExecutor
from vlib import guarded_main, REPO_BUILD
sys.path.insert(0, os.path.dirname(os.path.abspath(__file__)))
from mplib import mfront_exe, key, fmt, mfront_bounds, outside, grid

MODEL = ["C38Model.v"]
EXTRACT = """From C38 Require Import C38Model.
Require Import ExtrOcamlBasic.
From Coq Require Import ZArith.
Extraction "c38_model.ml" generic_opt c_checkBounds_opt c_main cxx_checkBounds cxx_call cxx_policy Z.ltb.
"""
EDOM, ERANGE = 33, 34
ERRNOS = [0, EDOM, ERANGE, 42]
BV = ["-273.15", "-0.5", "0", "0.000123456789", "0.25", "1", "1.23456789", "1.5", "2.5", "100", "293.15", "1234567.5"]
QT_TYPES = ["temperature", "stress", "real", "strain", "length"]
POLS = ["None", "Warning", "Strict"]
K_F11 = "generic:errno-not-restored:strict-branch-of-upper-bound-only-variable"
K_PREC_G = "generic:bounds-emitted-with-6-significant-digits"
K_PREC_C = "c:bounds-emitted-with-6-significant-digits"
K_PREC_X = "cxx:bounds-emitted-with-6-significant-digits"
K_RET = "generic:status-3-and-4-return-the-computed-value-documented-nan"
NOOPT = dict(nparams=0, static=False, from_file=None, nochecks=False, dflt=None, rtmod=None)


# ----------------------------------------------------------------------------- programs
def rand_pair(rng):
    """(physical bounds, bounds), the latter contained in the former (mfront refuses otherwise)"""
    a, b, c_, d = sorted(rng.sample(BV, 4), key=float)
    pk = rng.choice("LUB")
    bk = {"L": rng.choice("LB"), "U": rng.choice("UB"), "B": "B"}[pk]
    if pk == "U" and float(b) <= 0:
        bk = "U"   # front-end quirk: unset physical lower bound defaults to numeric_limits<long double>::min()
    return (pk, a, d), (bk, b, c_)


def rand_var(rng):
    ph, b = rand_pair(rng)
    r = rng.random()
    if r < 0.35:
        ph = None
        b = (rng.choice("LUB"), b[1], b[2])
    elif r < 0.5:
        b = None
    elif r < 0.58:
        ph = b = None
    return dict(bounds=b, phys=ph)


GOOD_LINES = [("# a comment", "H"), ("", "B"), ("p0 2.5", "A11"), ("   ", "B"), ("#p0 x y z", "H"), ("p0 1e-3", "A11")]
GOOD_LINES2 = [("SecondParameter 0.125", "A11"), ("p1 3", "A11")]
BAD_LINES = {"name": ("q0 1.5", "A01"), "value": ("p0 1.5x", "A10"), "tokens": ("p0 1.5 extra", "T"), "one": ("p0", "T"),
             "both": ("q0 abc", "A00")}


def make_pfile(rng, kind, nparams):
    """lines of <law>-parameters.txt with the class the generated handler gives each of them (independent reading of
    mfront/src/MaterialPropertyParametersHandler.cxx: tokens split on blanks; no token -> skipped; first token beginning
    with '#' -> skipped; other than 2 tokens -> error; second token not entirely a number -> error; first token not a
    parameter name or external name -> error)"""
    pool = GOOD_LINES + (GOOD_LINES2 if nparams > 1 else [])
    lines = [rng.choice(pool) for _ in range(rng.choice([1, 2, 4]))]
    if kind != "valid":
        lines.insert(rng.randrange(len(lines) + 1), BAD_LINES[kind])
    return lines


ARCHETYPES = [
    # upper-bound-only input (F11 witness), lower-bound-only input, two-sided; output without bounds
    dict(inputs=[dict(bounds=("U", "0", "1.5"), phys=None)], output=dict(bounds=None, phys=None)),
    dict(inputs=[dict(bounds=("L", "1", "0"), phys=None), dict(bounds=("B", "-0.5", "2.5"), phys=("L", "-273.15", "0"))],
         output=dict(bounds=("B", "0", "100"), phys=("L", "0", "0"))),
    # bounds with more than 6 significant digits
    dict(inputs=[dict(bounds=("B", "1.23456789", "1234567.5"), phys=("L", "0.000123456789", "0")),
                 dict(bounds=None, phys=("U", "0", "293.15"))],
         output=dict(bounds=("B", "0.000123456789", "1.23456789"), phys=None)),
    dict(inputs=[], output=dict(bounds=("B", "0", "100"), phys=("L", "-273.15", "0"))),
    # inputs WITHOUT @Bounds before inputs WITH @Bounds: the rank reported is the argument position
    dict(inputs=[dict(bounds=None, phys=("U", "0", "293.15")), dict(bounds=None, phys=None), dict(bounds=("B", "0.25", "2.5"), phys=None),
                 dict(bounds=("U", "0", "100"), phys=None)], output=dict(bounds=("L", "-0.5", "0"), phys=None)),
    # parameters and a parameters file with an invalid line: status -6
    dict(inputs=[dict(bounds=("B", "0", "1.5"), phys=("L", "-0.5", "0"))], output=dict(bounds=("U", "0", "100"), phys=None),
         opts=dict(NOOPT, nparams=2), pfile="bad", light=True),
    # parameters and a well-formed parameters file (comments, blank lines, external name)
    dict(inputs=[dict(bounds=("B", "0", "1.5"), phys=("L", "-0.5", "0")), dict(bounds=("L", "1", "0"), phys=None)],
         output=dict(bounds=("U", "0", "100"), phys=None), opts=dict(NOOPT, nparams=2), pfile="valid"),
    # static parameters: the (invalid) file is not read; c++: default policy Strict that the environment cannot change
    dict(inputs=[dict(bounds=("B", "0", "1.5"), phys=("L", "-0.5", "0"))], output=dict(bounds=("U", "0", "100"), phys=None),
         opts=dict(NOOPT, nparams=1, static=True, dflt="Strict", rtmod=False), pfile="bad", light=True),
    # runtime checks disabled
    dict(inputs=[dict(bounds=("B", "0", "1.5"), phys=("L", "-0.5", "0")), dict(bounds=("U", "0", "2.5"), phys=None)],
         output=dict(bounds=("B", "0", "100"), phys=("L", "0", "0")), opts=dict(NOOPT, nochecks=True), light=True),
    # initialisation from file disabled: the (invalid) file is not read; c++: default policy Warning
    dict(inputs=[dict(bounds=("L", "0.25", "0"), phys=None)], output=dict(bounds=None, phys=("B", "-273.15", "293.15")),
         opts=dict(NOOPT, nparams=1, from_file=False, dflt="Warning"), pfile="bad", light=True),
]


def rand_opts(rng):
    o = dict(NOOPT)
    pf = None
    if rng.random() < 0.35:
        o["nparams"] = rng.choice([1, 2])
        r = rng.random()
        if r < 0.2:
            o["static"] = True
        elif r < 0.35:
            o["from_file"] = rng.choice([False, True])
        pf = rng.choice([None, "valid", "valid", "bad", "bad"])
    if rng.random() < 0.08:
        o["nochecks"] = True
    if rng.random() < 0.3:
        o["dflt"] = rng.choice(POLS)
    if rng.random() < 0.2:
        o["rtmod"] = rng.choice([False, True])
    return o, pf


def gen_program(rng, idx):
    if idx < len(ARCHETYPES):
        p = dict(ARCHETYPES[idx])
    else:
        n = rng.choice([1, 1, 2, 2, 3, 4])
        o, pf = rand_opts(rng)
        p = dict(inputs=[rand_var(rng) for _ in range(n)], output=rand_var(rng), opts=o, pfile=pf)
    p = dict(p, name="C38P%d" % idx, useqt=(idx % 3 == 2))
    p.setdefault("opts", dict(NOOPT))
    p.setdefault("light", False)
    pf = p.get("pfile")
    if pf == "bad":
        pf = rng.choice(sorted(BAD_LINES))
    p["pfile"] = make_pfile(rng, pf, p["opts"]["nparams"]) if pf else None
    p["inputs"] = [dict(v, name="x%d" % j, ty=(QT_TYPES[(idx + j) % len(QT_TYPES)] if p["useqt"] else "real")) for j, v in enumerate(p["inputs"])]
    p["output"] = dict(p["output"], name="y", ty=("stress" if p["useqt"] else "real"))
    return p


def mfront_text(p, suffix=""):
    """the same declaration is printed three times: law <name> for the generic interface, <name>c for the C interface,
    <name>x for the c++ interface (the interfaces export the same symbol names, so they cannot be linked into one driver
    under one name)"""
    o = p["opts"]
    ds = []
    if o["static"]:
        ds.append("parameters_as_static_variables: true")
    if o["from_file"] is not None:
        ds.append("parameters_initialization_from_file: %s" % ("true" if o["from_file"] else "false"))
    if o["nochecks"]:
        ds.append("disable_runtime_checks: true")
    if o["dflt"]:
        ds.append('default_out_of_bounds_policy: "%s"' % o["dflt"])
    if o["rtmod"] is not None:
        ds.append("out_of_bounds_policy_runtime_modification: %s" % ("true" if o["rtmod"] else "false"))
    t = "@DSL MaterialProperty%s;\n@Law %s;\n" % (("{" + ", ".join(ds) + "}") if ds else "", p["name"] + suffix)
    if p["useqt"]:
        t += "@UseQt true;\n"
    t += "@Includes{\n#include <stdexcept>\nextern \"C\" { extern double c38_value; extern int c38_errno; extern int c38_throw; }\n}\n"
    t += "@Output %s y;\n" % p["output"]["ty"]
    for v in p["inputs"]:
        t += "@Input %s %s;\n" % (v["ty"], v["name"])
    for j in range(o["nparams"]):
        t += "@Parameter real p%d = %s;\n" % (j, ["1.5", "0.25"][j])
    if o["nparams"] > 1:
        t += "p1.setEntryName(\"SecondParameter\");\n"
    for v in p["inputs"] + [p["output"]]:
        if v["phys"]:
            t += "@PhysicalBounds %s in %s;\n" % (v["name"], mfront_bounds(v["phys"]))
        if v["bounds"]:
            t += "@Bounds %s in %s;\n" % (v["name"], mfront_bounds(v["bounds"]))
    use = "".join("  static_cast<void>(%s);\n" % n for n in [v["name"] for v in p["inputs"]] + ["p%d" % j for j in range(o["nparams"])])
    t += ("@Function{\n%s  y = decltype(y)(c38_value);\n  if(c38_errno != 0){ errno = c38_errno; }\n"
          "  if(c38_throw == 1){ throw std::runtime_error(\"boom\"); }\n  if(c38_throw == 2){ throw 3; }\n}\n" % use)
    return t


def has_cb(p):
    return any(v["bounds"] or v["phys"] for v in p["inputs"])


def driver_text(dirname, progs):
    tpl = open(os.path.join(dirname, "driver_template.cxx")).read()
    inc, reg = [], []
    for i, p in enumerate(progs):
        n = len(p["inputs"])
        al = ",".join("a[%d]" % j for j in range(n))
        inc.append('#include "%s-generic.hxx"\n#include "%sc.hxx"\n#include "%sx-cxx.hxx"' % (p["name"], p["name"], p["name"]))
        if has_cb(p):
            reg.append("static int cb_%d(const double* a){ return %sc_checkBounds(%s); }" % (i, p["name"], al))
            reg.append("static void xk_%d(const double* a){ mfront::%sx::checkBounds(%s); }" % (i, p["name"], al))
        reg.append("static double cm_%d(const double* a){ static_cast<void>(a); return %sc(%s); }" % (i, p["name"], al))
        reg.append("static double xf_%d(const double* a){ static_cast<void>(a); const mfront::%sx f; return f(%s); }" % (i, p["name"], al))
    reg.append("static const Entry registry[] = {%s};" % ", ".join(
        "{%s, %s, cm_%d, xf_%d, %s, %d}" % (p["name"], "cb_%d" % i if has_cb(p) else "nullptr", i, i, "xk_%d" % i if has_cb(p) else "nullptr",
                                             len(p["inputs"])) for i, p in enumerate(progs)))
    return tpl.replace("//@INCLUDES@", "\n".join(inc)).replace("//@REGISTRY@", "\n".join(reg))


# ----------------------------------------------------------------------------- cases
def inside_value(v, rng=None):
    bs = [b for b in (v["bounds"], v["phys"]) if b]
    cands = [0.5, 1.25, 2.0, 50.0, 0.125, 0.0, -0.25, -1.0, 150.0, 1000.0, -300.0, 2000000.0, 1.3, 0.0002]
    ok = [x for x in cands if not any(outside(b, x) for b in bs)]
    return ok[0] if ok else 0.5


def program_cases(c, pi, p):
    rng = c.rng
    n = len(p["inputs"])
    light = p["light"]
    polopts = p["opts"]["dflt"] is not None or p["opts"]["rtmod"] is not None
    base = [inside_value(v) for v in p["inputs"]]
    yin = inside_value(p["output"])
    vecs = [list(base)]
    for j, v in enumerate(p["inputs"]):
        pts = set()
        for b in (v["bounds"], v["phys"]):
            if b:
                g = grid(b)
                pts |= set(g[::3] if light else g)
        pts |= {math.inf, -math.inf, math.nan}
        for x in sorted(pts, key=lambda z: (math.isnan(z), z)):
            w = list(base)
            w[j] = x
            vecs.append(w)
    for _ in range((c.pick(10, 60) if n > 1 else 0) if not light else (3 if n > 1 else 0)):
        w = list(base)
        for j in rng.sample(range(n), rng.choice([2, min(n, 3)])):
            bs = [b for b in (p["inputs"][j]["bounds"], p["inputs"][j]["phys"]) if b]
            if bs:
                w[j] = rng.choice(grid(rng.choice(bs)))
        vecs.append(w)
    outcomes = [("R", yin, 0)]
    ypts = set()
    for b in (p["output"]["bounds"], p["output"]["phys"]):
        if b:
            ypts |= set(grid(b))
    outs_full = [("R", y, 0) for y in sorted(ypts)] + [("R", yin, EDOM), ("R", yin, ERANGE), ("R", math.inf, ERANGE), ("R", -math.inf, 0),
                                                       ("R", math.nan, EDOM), ("R", math.nan, 0), ("T", 1, 0), ("T", 2, 0)]
    if ypts:
        outs_full += [("R", max(ypts), EDOM), ("R", min(ypts), ERANGE)]
    cases = []
    k = 0

    def envpol(pol):
        # c++ interface: same policy as the generic call (NONE <-> unset alternately), except when the declaration sets a
        # default policy or forbids its modification: then the variable cycles independently
        if polopts:
            return [-1, 0, 1, 2][k % 4]
        return pol if pol else (-1 if k % 2 == 0 else 0)
    for vi, w in enumerate(vecs):
        full = vi == 0 or (vi % 7 == 3 and not light)
        for pol in (0, 1, 2):
            for oc in (outcomes + outs_full) if full else outcomes + [outs_full[(vi + pol) % len(outs_full)]]:
                for e0 in (ERRNOS if (full and oc in outcomes) or (vi + pol) % 5 == 0 else [ERRNOS[(vi + pol + k) % 4]]):
                    cases.append(dict(id="%d_%d" % (pi, k), prog=pi, pol=pol, nargs=n, e0=e0, oc=oc, args=w, envpol=envpol(pol)))
                    k += 1
    for d in (-1, 1, 3):
        if n + d >= 0:
            for pol in (0, 1, 2):
                for e0 in ERRNOS:
                    cases.append(dict(id="%d_%d" % (pi, k), prog=pi, pol=pol, nargs=n + d, e0=e0, oc=outcomes[0], args=list(base) + [0.5] * max(0, d),
                                      envpol=envpol(pol)))
                    k += 1
    return cases


def case_line(cs):
    kind, val, es = cs["oc"]
    return "%s %d %d %d %d %s %d %d %d %d %s" % (cs["id"], cs["prog"], cs["pol"], cs["nargs"], cs["e0"], fmt(val) if kind == "R" else "0",
                                                es if kind == "R" else 0, val if kind == "T" else 0, cs["envpol"], len(cs["args"]),
                                                " ".join(fmt(a) for a in cs["args"]))


# ----------------------------------------------------------------------------- model protocol
def tok_bounds(b, rnd):
    if not b:
        return "-"
    f = (lambda s: float("%.6g" % float(s))) if rnd else float
    return {"L": "L %s" % key(f(b[1])), "U": "U %s" % key(f(b[2])), "B": "B %s %s" % (key(f(b[1])), key(f(b[2])))}[b[0]]


def decl_lines(p, rnd, rnd_x):
    vs = p["inputs"] + [p["output"]]
    o = p["opts"]
    body = lambda r: "%d %s" % (len(p["inputs"]), " ".join("%s %s" % (tok_bounds(v["bounds"], r), tok_bounds(v["phys"], r)) for v in vs))
    return ["D " + body(rnd), "E " + body(rnd_x),
            "O %d %d %d %d" % (o["nparams"] > 0, o["static"], o["from_file"] is not False, o["nochecks"]),
            "F -" if p["pfile"] is None else "F %d %s" % (len(p["pfile"]), " ".join(cl for _, cl in p["pfile"]))]


def dflt_pol(p):
    return POLS.index(p["opts"]["dflt"] or "None")


def model_lines(p, cs, variant):
    kind, val, es = cs["oc"]
    oc = "R %s %d" % (key(val), es) if kind == "R" else "T"
    n = len(p["inputs"])
    av = "%d %s" % (len(cs["args"]), " ".join(key(a) for a in cs["args"]))
    xa = cs["args"][:n]
    xv = "%d %s" % (len(xa), " ".join(key(a) for a in xa))
    px = "%d %d %s" % (dflt_pol(p), p["opts"]["rtmod"] is not False, "-" if cs["envpol"] < 0 else "%d" % cs["envpol"])
    return ["G %s %d %d %d %s %s" % (variant, cs["pol"], cs["nargs"], cs["e0"], oc, av), "C " + av, "M " + oc, "K %s %s" % (px, xv),
            "X %s %s %s" % (px, oc, xv)]


# ----------------------------------------------------------------------------- independent statement of the contract
def handler_ok_spec(p):
    """-6: "the parameters' file is invalid": the file is read only if the property has parameters which are not static
    variables and initialisation from file is allowed; every line must be blank, a comment or `<parameter> <number>`"""
    o = p["opts"]
    reads = o["nparams"] > 0 and not o["static"] and o["from_file"] is not False
    return (not reads) or p["pfile"] is None or all(cl in ("B", "H", "A11") for _, cl in p["pfile"])


def rbf(rnd):
    return lambda b: (b[0], float("%.6g" % float(b[1])), float("%.6g" % float(b[2]))) if (b and rnd) else b


def spec(p, cs, rnd=False):
    """documented contract -> dict(status, bs (allowed set | None), ret ('nan' | 'value' | None = unconstrained), cen,
    errno (expected errno after the call | None = unconstrained))"""
    rb = rbf(rnd)
    n = len(p["inputs"])
    kind, val, es = cs["oc"]
    e0 = cs["e0"]
    if p["opts"]["nochecks"]:
        # "interfaces may disable as many runtime checks as possible": no bounds, no argument count, no errno bookkeeping
        if kind == "T":
            return dict(status=-2, bs={0}, ret="nan", cen=0, errno=None)
        return dict(status=0, bs={0}, ret="value", cen=0, errno=(e0 if es == 0 else None))
    if cs["nargs"] != n:
        return dict(status=-5, bs={0}, ret="nan", cen=0, errno=e0)
    if not handler_ok_spec(p):
        return dict(status=-6, bs={0}, ret="nan", cen=0, errno=e0)
    a = cs["args"]
    pv = [j + 1 for j, v in enumerate(p["inputs"]) if outside(rb(v["phys"]), a[j])]
    if pv:
        return dict(status=-1, bs={-pv[0]}, ret="nan", cen=0, errno=e0)       # physical bounds first, whatever the policy
    bv = [j + 1 for j, v in enumerate(p["inputs"]) if outside(rb(v["bounds"]), a[j])]
    if cs["pol"] == 2 and bv:
        return dict(status=-1, bs={-bv[0]}, ret="nan", cen=0, errno=e0)
    warn = set(bv) if cs["pol"] == 1 else set()
    if kind == "T":
        return dict(status=-2, bs=None, ret="nan", cen=0, errno=e0)
    if outside(rb(p["output"]["phys"]), val):
        return dict(status=-1, bs={-(n + 1)}, ret="nan", cen=0, errno=e0)
    if outside(rb(p["output"]["bounds"]), val):
        if cs["pol"] == 2:
            return dict(status=-1, bs={-(n + 1)}, ret="nan", cen=0, errno=e0)
        if cs["pol"] == 1:
            warn = {n + 1}
    # "All negative values indicates that the result is not usable. For a material property, the returned is `nan`."
    if not math.isfinite(val):
        return dict(status=-4, bs=None, ret="nan", cen=es, errno=e0)
    if es != 0:
        return dict(status=-3, bs=None, ret="nan", cen=es, errno=e0)
    if warn:
        return dict(status=1, bs=({max(warn)} if (n + 1) in warn else warn), ret="value", cen=0, errno=e0)
    return dict(status=0, bs={0}, ret="value", cen=0, errno=e0)


def spec_cb(p, cs, rnd=False):
    rb = rbf(rnd)
    if p["opts"]["nochecks"]:
        return 0
    a = cs["args"]
    pv = [j + 1 for j, v in enumerate(p["inputs"]) if outside(rb(v["phys"]), a[j])]
    if pv:
        return -pv[0]
    bv = [j + 1 for j, v in enumerate(p["inputs"]) if outside(rb(v["bounds"]), a[j])]
    return bv[0] if bv else 0


def cxx_policy(p, cs):
    """docs/web/material-properties.md: the policy is the default one (None unless default_out_of_bounds_policy says otherwise);
    it can be changed at run time through the environment unless out_of_bounds_policy_runtime_modification is false"""
    if p["opts"]["rtmod"] is False or cs["envpol"] < 0:
        return dflt_pol(p)
    return cs["envpol"]


def spec_cxx(p, cs, call, rnd=False):
    """c++ interface, docs/web/material-properties.md: a violation of the physical bounds is always an error; None: nothing
    is done; Warning: the user is informed, the computation is performed; Strict: the computation is stopped, an error is
    reported (for this interface: std::range_error / message on std::cerr).  -> (kind, rank, physical, value, warned)"""
    rb = rbf(rnd)
    n = len(p["inputs"])
    a = cs["args"][:n]
    pol = cxx_policy(p, cs)
    kind, val, es = cs["oc"]
    if p["opts"]["nochecks"]:
        if call and kind == "T":
            return ("L", 0, 0, None, [])
        return ("V", 0, 0, val if call else None, [])
    pv = [j + 1 for j, v in enumerate(p["inputs"]) if outside(rb(v["phys"]), a[j])]
    if pv:
        return ("G", pv[0], 1, None, [])
    bv = [j + 1 for j, v in enumerate(p["inputs"]) if outside(rb(v["bounds"]), a[j])]
    if bv and pol == 2:
        return ("G", bv[0], 0, None, [])
    w = list(bv) if pol == 1 else []
    if not call:
        return ("V", 0, 0, None, w)
    if kind == "T":
        return ("L", 0, 0, None, w)
    if n > 0 and (es != 0 or not math.isfinite(val)):       # errno is only looked at when the property has inputs
        return ("R", 0, 0, None, w)
    if outside(rb(p["output"]["phys"]), val):
        return ("G", n + 1, 1, None, w)
    if outside(rb(p["output"]["bounds"]), val):
        if pol == 2:
            return ("G", n + 1, 0, None, w)
        if pol == 1:
            w = w + [n + 1]
    return ("V", 0, 0, val, w)


def same_float(a, b):
    return (math.isnan(a) and math.isnan(b)) or a == b


def meets_cxx(sp, o):
    """o = (kind, rank, phys, ret|None, warned)"""
    bad = []
    if o[0] != sp[0]:
        bad.append("outcome %s (documented %s)" % (o[0], sp[0]))
    elif o[0] == "G" and (o[1], o[2]) != (sp[1], sp[2]):
        bad.append("std::range_error names variable of rank %d, physical=%d (documented rank %d, physical=%d)" % (o[1], o[2], sp[1], sp[2]))
    elif o[0] == "V" and sp[3] is not None and not same_float(o[3], sp[3]):
        bad.append("returned %r (law value %r)" % (o[3], sp[3]))
    if o[0] == sp[0] and o[0] in "VLR" and list(o[4]) != list(sp[4]):
        bad.append("variables reported on std::cerr %s (documented %s)" % (list(o[4]), list(sp[4])))
    return bad


def meets(sp, obs, cs):
    """obs = (status, bs, cen, ret, errno_after); returns list of violated clauses"""
    bad = []
    st, bs, cen, ret, ea = obs
    if st != sp["status"]:
        bad.append("status %d (documented %d)" % (st, sp["status"]))
    if sp["bs"] is not None and bs not in sp["bs"]:
        bad.append("bounds_status %d (documented %s)" % (bs, sorted(sp["bs"])))
    if st == -3 and cen != sp["cen"]:
        bad.append("c_error_number %d (documented %d)" % (cen, sp["cen"]))
    if sp["ret"] == "nan" and not (isinstance(ret, float) and math.isnan(ret)):
        bad.append("returned %r (documented nan)" % ret)
    if sp["ret"] == "value" and not same_float(ret, cs["oc"][1]):
        bad.append("returned %r (law value %r)" % (ret, cs["oc"][1]))
    if sp["errno"] is not None and ea != sp["errno"]:
        bad.append("errno after the call %d (before %d)" % (ea, cs["e0"]))
    return bad


def is_ret_nan(b):
    return b.startswith("returned") and b.endswith("(documented nan)")


def pfloat(s):
    return float.fromhex(s) if s not in ("nan", "inf", "-inf") else float(s)


def ranks(s):
    return [] if s == "." else [int(x) for x in s.split(",")]


def parse_obs(t):
    """see the header of driver_template.cxx"""
    o = dict(g=(int(t[2]), int(t[3]), int(t[4]), pfloat(t[5]), int(t[6])), msg=int(t[7]), cb=None, cm=None, k=None, x=None)
    if t[9] != "-":
        o["cb"] = (int(t[9]), int(t[10]))
    if t[12] != "-":
        o["cm"] = (pfloat(t[12]), int(t[13]))
    if t[15] != "-":
        o["k"] = (t[15], int(t[16]), int(t[17]), None, ranks(t[18]))
    if t[20] != "-":
        o["x"] = (t[20], int(t[21]), int(t[22]), pfloat(t[23]) if t[20] == "V" else None, ranks(t[25]), int(t[24]))
    return o


_groups = {}


def report(c, group, key_, what, rep, limit=3):
    for k in c.known:
        if k.get("key") == key_:
            return c.report(key_, what, rep, True)
    n = _groups.get(group, 0)
    _groups[group] = n + 1
    if n < limit:
        return c.report(key_, what, rep, True)


def describe(p, cs):
    kind, val, es = cs["oc"]
    pf = "" if p["pfile"] is None else "\nfile %s-parameters.txt in the current directory:\n%s" % (p["name"], "\n".join("  |%s" % l for l, _ in p["pfile"]))
    return ("material property\n%s%s\ncalled with args %s, nargs %d, policy %s (c++: OUT_OF_BOUNDS_POLICY %s), caller errno %d, law outcome %s" % (
        mfront_text(p), pf, cs["args"], cs["nargs"], ["NONE", "WARNING", "STRICT"][cs["pol"]],
        ["unset", "NONE", "WARNING", "STRICT"][cs["envpol"] + 1], cs["e0"],
        ("value %r, errno left %d" % (val, es)) if kind == "R" else ("throws " + ("std::runtime_error" if val == 1 else "int"))))


def nan_ranks(p, cs):
    return [j + 1 for j, a in enumerate(cs["args"][:len(p["inputs"])]) if math.isnan(a)]


# ----------------------------------------------------------------------------- main
def run_mfront(c, mfront, gdir, p):
    """the three interfaces of one declaration, in a directory of its own (several declarations are treated in parallel)"""
    d = os.path.join(gdir, p["name"])
    os.makedirs(d, exist_ok=True)
    for suffix, itf in (("", "generic"), ("c", "c"), ("x", "c++")):
        f = p["name"] + suffix + ".mfront"
        open(os.path.join(d, f), "w").write(mfront_text(p, suffix))
        rc, out, err = c.run([mfront, "--interface=" + itf, f], cwd=d, timeout=120)
        if rc != 0:
            return (itf, out + err)
    return None


def main(c):
    c.repo_build(["mfront"])
    mfront = mfront_exe(c, REPO_BUILD)
    nprog = c.pick(14, 40)
    progs = [gen_program(c.rng, i) for i in range(nprog)]
    gdir = os.path.join(c.work, "gen")
    rdir = os.path.join(c.work, "run")
    os.makedirs(gdir, exist_ok=True)
    os.makedirs(rdir, exist_ok=True)
    with ThreadPoolExecutor(max_workers=4) as ex:
        fails = list(ex.map(lambda p: run_mfront(c, mfront, gdir, p), progs))
    for p, f in zip(progs, fails):
        if f:
            c.report("mfront:" + p["name"], "mfront (--interface=%s) rejects a generated material property: %s" % (f[0], f[1][-500:]),
                     {"mfront": mfront_text(p), "output": f[1][-2000:]}, True)
            p["failed"] = True
    progs = [p for p in progs if not p.get("failed")]
    c.log("mfront ran on %d material properties (generic, c, c++ interfaces)" % len(progs))
    for p in progs:
        if p["pfile"] is not None:
            open(os.path.join(rdir, p["name"] + "-parameters.txt"), "w").write("".join(l + "\n" for l, _ in p["pfile"]))
    drv = os.path.join(gdir, "driver.cxx")
    open(drv, "w").write(driver_text(c.dir, progs))
    srcs = [drv] + [os.path.join(gdir, p["name"], "src", p["name"] + s) for p in progs for s in ("-generic.cxx", "c.cxx", "x-cxx.cxx")]
    exe = c.cxx("driver", srcs, [], flags=["-I" + os.path.join(gdir, p["name"], "include") for p in progs], opt="-O0")
    c.log("generated sources compiled")
    cases = []
    for pi, p in enumerate(progs):
        cases += program_cases(c, pi, p)
    rc, out, err = c.run([exe], input="".join(case_line(cs) + "\n" for cs in cases), cwd=rdir)
    if rc != 0:
        c.report("driver", "driver failed (rc %d): %s" % (rc, err[-400:]), {"stderr": err[-2000:]}, False)
        return
    obs = {}
    for l in out.splitlines():
        t = l.split()
        obs[t[0]] = parse_obs(t)
    c.log("driver ran %d cases" % len(cases))

    # which variants of the known defects does the tree exhibit?  (witness inputs; everything else is compared)
    f11_cases, prec_cases, ret_cases, precx_cases = [], [], [], []
    for cs in cases:
        p = progs[cs["prog"]]
        if cs["id"] not in obs:
            continue
        ob = obs[cs["id"]]
        o = ob["g"]
        sp = spec(p, cs)
        bad = meets(sp, o, cs)
        if bad and not [b for b in meets(spec(p, cs, rnd=True), o, cs) if not is_ret_nan(b)]:
            if [b for b in bad if not is_ret_nan(b)]:
                prec_cases.append(cs)
        elif bad and all(b.startswith("errno after") for b in bad) and cs["pol"] == 2:
            f11_cases.append(cs)
        if bad and sp["status"] in (-3, -4) and o[0] == sp["status"] and any(is_ret_nan(b) for b in bad):
            ret_cases.append(cs)
        for which, call in (("k", False), ("x", True)):
            if ob[which] is not None and meets_cxx(spec_cxx(p, cs, call), ob[which]) and not meets_cxx(spec_cxx(p, cs, call, rnd=True), ob[which]):
                precx_cases.append(cs)
                break
    variant = "A" if f11_cases else ("F" if ret_cases else "D")
    rnd, rnd_x = bool(prec_cases), bool(precx_cases)
    f11_ids = {cs["id"] for cs in f11_cases}
    prec_ids = {cs["id"] for cs in prec_cases}
    ret_ids = {cs["id"] for cs in ret_cases}
    precx_ids = {cs["id"] for cs in precx_cases}
    ml = c.ocaml_extract("c38", MODEL, EXTRACT, "model_driver.ml")
    lines = []
    for pi, p in enumerate(progs):
        lines += decl_lines(p, rnd, rnd_x)
        for cs in cases:
            if cs["prog"] == pi:
                lines += model_lines(p, cs, variant)
    rc, mo, me = c.run([ml], input="\n".join(lines) + "\n")
    mo = mo.split("\n")[:-1]
    if rc != 0 or len(mo) != 5 * len(cases):
        c.report("model-eval", "the extracted Gallina model could not be run: " + me[-400:], {"stderr": me[-2000:]}, False)
        return
    c.log("model evaluated (variant %s, bounds %s; c++: bounds %s)" % (variant, "rounded to 6 digits as emitted" if rnd else "as declared",
                                                                        "rounded to 6 digits as emitted" if rnd_x else "as declared"))
    order = [cs for pi in range(len(progs)) for cs in cases if cs["prog"] == pi]
    stats = dict(nan=0, nan_rejected=0, cxx=0, xcalls=0, cmain=0, cmain_errno=0, cxx_errno={}, minus6=0, nochecks=0, options=0)
    for i, cs in enumerate(order):
        p = progs[cs["prog"]]
        n = len(p["inputs"])
        if cs["id"] not in obs:
            report(c, "noout", "noout:" + cs["id"], "no output of the driver for " + describe(p, cs), {}, 1)
            continue
        ob = obs[cs["id"]]
        o, cb = ob["g"], ob["cb"]
        t = mo[5 * i].split()
        m = (int(t[0]), int(t[1]), int(t[2]), t[3], int(t[4]))
        mcb = int(mo[5 * i + 1])
        mcm = mo[5 * i + 2].strip()
        tk = mo[5 * i + 3].split()
        mk = (tk[0], int(tk[1]), int(tk[2]), None, ranks(tk[3]))
        tx = mo[5 * i + 4].split()
        mx = (tx[0], int(tx[1]), int(tx[2]), tx[3], ranks(tx[4]))
        kind, val, es = cs["oc"]
        sp = spec(p, cs)
        nontriv = sp["status"] != 0 or any(a in [float(b[q]) for v in p["inputs"] for b in (v["bounds"], v["phys"]) if b for q in (1, 2)] for a in cs["args"])
        c.count(1, (p["name"], cs["pol"], cs["envpol"], cs["nargs"], cs["e0"], str(cs["oc"]), tuple(fmt(a) for a in cs["args"])), nontriv)
        stats["minus6"] += sp["status"] == -6
        stats["nochecks"] += p["opts"]["nochecks"]
        stats["options"] += p["opts"] != NOOPT
        if i % 1499 == 0:
            c.sample({"program": p["name"], "inputs": [(v["bounds"], v["phys"]) for v in p["inputs"]], "output": (p["output"]["bounds"], p["output"]["phys"]),
                      "options": {k_: v_ for k_, v_ in p["opts"].items() if v_ != NOOPT[k_]}, "parameters_file": p["pfile"],
                      "args": [fmt(a) for a in cs["args"]], "policy": cs["pol"], "OUT_OF_BOUNDS_POLICY": cs["envpol"], "caller_errno": cs["e0"],
                      "law_outcome": [kind, fmt(val) if kind == "R" else val, es],
                      "generic(status,bounds_status,c_error_number,ret,errno_after)": [o[0], o[1], o[2], fmt(o[3]), o[4]], "c_checkBounds": cb,
                      "cxx_checkBounds(kind,rank,physical,-,warned)": ob["k"], "cxx_call(kind,rank,physical,ret,warned,errno)": str(ob["x"])})
        rep = {"mfront_file": mfront_text(p), "parameters_file": None if p["pfile"] is None else [l for l, _ in p["pfile"]],
               "args": [fmt(a) for a in cs["args"]], "args_decimal": cs["args"], "nargs": cs["nargs"], "policy": cs["pol"],
               "OUT_OF_BOUNDS_POLICY(-1 unset,0 NONE,1 WARNING,2 STRICT)": cs["envpol"],
               "caller_errno": cs["e0"], "law_outcome": [kind, fmt(val) if kind == "R" else val, es],
               "observed": {"status": o[0], "bounds_status": o[1], "c_error_number": o[2], "returned": fmt(o[3]), "errno_after": o[4], "checkBounds": cb,
                            "c_main": None if ob["cm"] is None else [fmt(ob["cm"][0]), ob["cm"][1]], "cxx_checkBounds": ob["k"], "cxx_call": str(ob["x"])},
               "model": {"generic": mo[5 * i], "checkBounds": mcb, "c_main": mcm, "cxx_checkBounds": mo[5 * i + 3], "cxx_call": mo[5 * i + 4]},
               "how": "props/C38/driver_template.cxx (case line format in its header); run in a directory holding the parameters file"}
        nr = nan_ranks(p, cs)
        ckey = "%s:%s:%d:%d:%d:%d:%s" % (p["name"], ",".join(fmt(a) for a in cs["args"]), cs["pol"], cs["envpol"], cs["nargs"], cs["e0"], cs["oc"])
        # (1) the documented contract, generic interface
        bad = meets(sp, o, cs)
        as_inside = True
        if nr:
            # NaN arguments: the documentation says nothing.  Accepted: NaN treated as inside every bound (the emitted
            # comparisons are false) or the NaN argument rejected as out of bounds (-1, +-its rank, nan, errno restored)
            stats["nan"] += 1
            if bad and o[0] == -1 and abs(o[1]) in nr and math.isnan(o[3]) and o[4] == cs["e0"]:
                bad, as_inside = [], False
                stats["nan_rejected"] += 1
        bad_other = [b for b in bad if not (cs["id"] in ret_ids and is_ret_nan(b))]
        if cs["id"] in ret_ids:
            report(c, "ret", K_RET, "the computed value is returned with status %d although every negative status is documented to return nan: %s\nobserved: %s" % (
                o[0], describe(p, cs), "; ".join(b for b in bad if is_ret_nan(b))), rep, 1)
        if bad_other:
            if cs["id"] in prec_ids:
                report(c, "precG", K_PREC_G, "bounds are emitted with 6 significant digits in the test (declared %s): %s\nobserved: %s" % (
                    [(v["bounds"], v["phys"]) for v in p["inputs"] + [p["output"]]], describe(p, cs), "; ".join(bad_other)), rep, 1)
            elif cs["id"] in f11_ids:
                report(c, "f11", K_F11, "errno is not restored: %s\nobserved: %s" % (describe(p, cs), "; ".join(bad_other)), rep, 1)
            else:
                report(c, "contract", "generic:" + ckey, "documented contract violated: %s\nobserved: %s" % (describe(p, cs), "; ".join(bad_other)), rep)
        # (2) C interface _checkBounds
        if cb is not None:
            scb = spec_cb(p, cs)
            if cb[0] != scb and nr and abs(cb[0]) in nr:
                pass            # NaN argument rejected: accepted (see above)
            elif cb[0] != scb:
                if cb[0] == spec_cb(p, cs, rnd=True):
                    report(c, "precC", K_PREC_C, "C interface: bounds are emitted with 6 significant digits: %s_checkBounds(%s) = %d, documented %d\n%s" % (
                        p["name"], cs["args"], cb[0], scb, mfront_text(p)), rep, 1)
                else:
                    report(c, "cb", "c:%s:%s" % (p["name"], ",".join(fmt(a) for a in cs["args"])),
                           "%s_checkBounds(%s) = %d, documented %d (physical bounds first, -rank / +rank / 0)\n%s" % (p["name"], cs["args"], cb[0], scb, mfront_text(p)), rep)
            elif cb[0] != mcb:
                report(c, "cbmodel", "cmodel:%s:%s" % (p["name"], ",".join(fmt(a) for a in cs["args"])),
                       "%s_checkBounds(%s) = %d differs from the Gallina model (%d)" % (p["name"], cs["args"], cb[0], mcb), rep)
        elif has_cb(p) and cs["nargs"] == n:
            report(c, "cbmissing", "c:nocheckbounds:" + p["name"], "no _checkBounds function called for " + p["name"], rep, 1)
        # (3) correspondence with the Gallina model (all fields), generic interface
        same = (o[0], o[1], o[2], o[4]) == (m[0], m[1], m[2], m[4]) and m[3] == key(o[3])
        if not bad and as_inside and not same:
            report(c, "model", "model:" + ckey, "the generated code behaves differently from the Gallina model: %s\nobserved %s, model %s" % (
                describe(p, cs), rep["observed"], mo[5 * i]), rep)
        elif bad and not bad_other and cs["id"] in ret_ids and not same:
            report(c, "model", "model-variant:%s" % cs["id"], "the model variant describing the known defect does not reproduce the observation: %s observed %s model %s" % (
                describe(p, cs), rep["observed"], mo[5 * i]), rep)
        elif bad_other and (cs["id"] in prec_ids or cs["id"] in f11_ids) and not same:
            report(c, "model", "model-variant:%s" % cs["id"], "the model variant describing the known defect does not reproduce the observation: %s observed %s model %s" % (
                describe(p, cs), rep["observed"], mo[5 * i]), rep)
        # (4) c++ interface: static checkBounds and operator()
        for which, call, mm in (("k", False, mk), ("x", True, mx)):
            ox = ob[which]
            if ox is None:
                if cs["nargs"] == n and (call or has_cb(p)):
                    report(c, "xmissing", "cxx:missing:" + p["name"], "c++ interface: %s not called for %s" % ("operator()" if call else "checkBounds", p["name"]), rep, 1)
                continue
            stats["cxx"] += 1
            stats["xcalls"] += call
            what = "operator()" if call else "checkBounds"
            badx = meets_cxx(spec_cxx(p, cs, call), ox)
            inside_x = True
            if nr and badx and ox[0] == "G" and ox[1] in nr:
                badx, inside_x = [], False
            if badx:
                if cs["id"] in precx_ids and not meets_cxx(spec_cxx(p, cs, call, rnd=True), ox):
                    report(c, "precX", K_PREC_X, "c++ interface: bounds are emitted with 6 significant digits in the tests of %s (declared %s): %s\nobserved: %s" % (
                        what, [(v["bounds"], v["phys"]) for v in p["inputs"] + [p["output"]]], describe(p, cs), "; ".join(badx)), rep, 1)
                else:
                    report(c, "cxx", "cxx:%s:%s" % (what, ckey), "c++ interface, %s: documented behaviour violated: %s\nobserved: %s" % (what, describe(p, cs), "; ".join(badx)), rep)
            if inside_x and (not badx or cs["id"] in precx_ids):
                mret_ok = True
                if call and ox[0] == "V":
                    mret_ok = mm[3] == key(ox[3])
                # (the model carries the variables reported on std::cerr only when a value comes back)
                if (ox[0], ox[1], ox[2]) != (mm[0], mm[1], mm[2]) or (ox[0] == "V" and list(ox[4]) != list(mm[4])) or not mret_ok:
                    report(c, "xmodel", "cxxmodel:%s:%s" % (what, ckey), "c++ interface, %s behaves differently from the Gallina model: %s\nobserved %s, model %s" % (
                        what, describe(p, cs), ox, mo[5 * i + (4 if call else 3)]), rep)
            if call and ox[5] != cs["e0"]:
                stats["cxx_errno"][ox[0]] = stats["cxx_errno"].get(ox[0], 0) + 1
        # (5) C interface main function: outside the statement (observation); compared with the model of the emitted code
        if ob["cm"] is not None:
            stats["cmain"] += 1
            if mcm != key(ob["cm"][0]):
                report(c, "cmain", "cmain:" + ckey, "C interface: the main function returns %r, the Gallina model of the emitted code %s: %s" % (
                    ob["cm"][0], mcm, describe(p, cs)), rep)
            stats["cmain_errno"] += ob["cm"][1] != cs["e0"]
    c.log("comparison done")
    if stats["nan"]:
        c.notes.append("%d cases with a NaN argument: the documentation does not say what a NaN argument is; accepted: treated as inside every bound "
                       "(what the emitted comparisons do: %d cases) or rejected as out of bounds with its rank (%d cases)" % (
                           stats["nan"], stats["nan"] - stats["nan_rejected"], stats["nan_rejected"]))
    c.notes.append("observation outside the statement: the C interface's main function left errno different from its value before the call in %d of %d calls "
                   "(early returns on an output physical bound or an exception; no errno handling without inputs)" % (stats["cmain_errno"], stats["cmain"]))
    c.notes.append("observation outside the statement: the c++ functor left errno different from its value before the call in %s of %d calls (by outcome: L = exception of "
                   "the law, V/G/R only for properties without inputs or with runtime checks disabled)" % (dict(stats["cxx_errno"]), stats["xcalls"]))
    c.notes.append("%d cases on declarations with DSL options, %d with status -6 documented, %d with runtime checks disabled" % (stats["options"], stats["minus6"], stats["nochecks"]))
    for g, n_ in _groups.items():
        if n_ > 3:
            c.notes.append("%d failing cases in group %s; replay files written for the first ones only" % (n_, g))
    # proofs: the theorems about errno / the value returned with a negative status are the positive ones unless the defect is
    # observed (then the refutation is checked)
    props = ["Properties_C38_finding.v" if variant == "A" else "Properties_C38.v",
             "Properties_C38_ret_finding.v" if ret_cases else "Properties_C38_ret.v"]
    c.notes.append("theorem files used: %s; model variant %s; bounds %s; c++ bounds %s" % (
        props, variant, "rounded to 6 significant digits (as emitted today)" if rnd else "as declared",
        "rounded to 6 significant digits (as emitted today)" if rnd_x else "as declared"))
    res = c.coq(["C38Model.v", "C38Spec.v", "C38Proofs.v", "Properties_C38_common.v"] + props, timeout=600)
    if not res.ok:
        c.coq_failures(res)
    c.coverage["rule"] = ("%d material properties (10 archetypes + random: 0..4 inputs, lower / upper / two-sided bounds and physical bounds on inputs and output, "
                          "inputs without bounds before inputs with bounds, bounds with up to 10 significant digits, @UseQt for one in three; DSL options: parameters "
                          "with a parameters file (valid / unknown name / bad number / wrong token count), parameters_as_static_variables, "
                          "parameters_initialization_from_file, disable_runtime_checks, default_out_of_bounds_policy, out_of_bounds_policy_runtime_modification) x "
                          "argument vectors {each input on each bound, +-1 ulp, +-2e-6 relative, +-1/8, mid, +-inf, NaN; random multi-violations} x policies "
                          "{NONE, WARNING, STRICT} (c++: OUT_OF_BOUNDS_POLICY unset / NONE / WARNING / STRICT) x caller errno {0, EDOM, ERANGE, 42} x law outcome "
                          "{value on/around the output bounds, errno left EDOM/ERANGE, +-inf, NaN, std::exception, non-std exception} x nargs {n, n-1, n+1, n+3}; "
                          "generic interface, C interface _checkBounds and main function, c++ interface checkBounds and operator() on the same vectors; "
                          "non-trivial = status != 0 documented or an argument exactly on a bound" % len(progs))
    c.coverage["programs"] = len(progs)
    c.coverage["cxx_calls"] = stats["cxx"]
    c.trusted("props/C38/driver_template.cxx + generated registry (calls the emitted functions, reads errno right after the call, captures std::cerr, reads "
              "the variable named in the what() of std::range_error)",
              "Python printers: declaration -> .mfront text and -> protocol lines of the extracted model; doubles -> order-preserving integer keys; "
              "lines of the parameters file -> class (blank / comment / name-number / other)",
              "the law outcome is injected through globals read by the generated @Function body (value, errno, exception)",
              "execution of the extracted model through props/C38/model_driver.ml (parsing/printing only)")


guarded_main("C38", main)

"""C38 -- material-property call contracts (status, bounds, errno): generic interface and C interface _checkBounds.
Engine H + G: Gallina contract model (coq/C38Model.v) with theorems over the (extended) reals; tie = random material
properties printed to .mfront, compiled through the `generic` and `c` interfaces of the mfront built from the working
tree, called on argument vectors on and around every bound, all policies, caller errno in {0, EDOM, ERANGE, 42}, injected
law outcomes (value, errno left, exception), wrong argument counts; compared with the extracted model and with an
independent Python statement of the documented contract (docs/web/generic-material-property-interface.md)."""
import math, os, sys
from concurrent.futures import ThreadPoolExecutor
from vlib import guarded_main, REPO_BUILD
sys.path.insert(0, os.path.dirname(os.path.abspath(__file__)))
from mplib import MFrontSemaphore, mfront_exe, key, fmt, mfront_bounds, outside, grid

MODEL = ["C38Model.v"]
EXTRACT = """From C38 Require Import C38Model.
Require Import ExtrOcamlBasic.
From Coq Require Import ZArith.
Extraction "c38_model.ml" generic c_checkBounds Z.ltb.
"""
EDOM, ERANGE = 33, 34
ERRNOS = [0, EDOM, ERANGE, 42]
BV = ["-273.15", "-0.5", "0", "0.000123456789", "0.25", "1", "1.23456789", "1.5", "2.5", "100", "293.15", "1234567.5"]
QT_TYPES = ["temperature", "stress", "real", "strain", "length"]
K_F11 = "generic:errno-not-restored:strict-branch-of-upper-bound-only-variable"
K_PREC_G = "generic:bounds-emitted-with-6-significant-digits"
K_PREC_C = "c:bounds-emitted-with-6-significant-digits"


# ----------------------------------------------------------------------------- programs
def rand_pair(rng):
    """(physical bounds, bounds), the latter contained in the former (mfront refuses otherwise)"""
    a, b, c_, d = sorted(rng.sample(BV, 4), key=float)
    pk = rng.choice("LUB")
    bk = {"L": rng.choice("LB"), "U": rng.choice("UB"), "B": "B"}[pk]
    if pk == "U" and float(b) <= 0:
        bk = "U"   # front-end quirk: unset physical lower bound defaults to numeric_limits<long double>::min()
    return (pk, a, d), (bk, b, c_)


def rand_var(rng):
    ph, b = rand_pair(rng)
    r = rng.random()
    if r < 0.35:
        ph = None
        b = (rng.choice("LUB"), b[1], b[2])
    elif r < 0.5:
        b = None
    elif r < 0.58:
        ph = b = None
    return dict(bounds=b, phys=ph)


ARCHETYPES = [
    # upper-bound-only input (F11 witness), lower-bound-only input, two-sided; output without bounds
    dict(inputs=[dict(bounds=("U", "0", "1.5"), phys=None)], output=dict(bounds=None, phys=None)),
    dict(inputs=[dict(bounds=("L", "1", "0"), phys=None), dict(bounds=("B", "-0.5", "2.5"), phys=("L", "-273.15", "0"))],
         output=dict(bounds=("B", "0", "100"), phys=("L", "0", "0"))),
    # bounds with more than 6 significant digits
    dict(inputs=[dict(bounds=("B", "1.23456789", "1234567.5"), phys=("L", "0.000123456789", "0")),
                 dict(bounds=None, phys=("U", "0", "293.15"))],
         output=dict(bounds=("B", "0.000123456789", "1.23456789"), phys=None)),
    dict(inputs=[], output=dict(bounds=("B", "0", "100"), phys=("L", "-273.15", "0"))),
]


def gen_program(rng, idx):
    if idx < len(ARCHETYPES):
        p = dict(ARCHETYPES[idx])
    else:
        n = rng.choice([1, 1, 2, 2, 3, 4])
        p = dict(inputs=[rand_var(rng) for _ in range(n)], output=rand_var(rng))
    p = dict(p, name="C38P%d" % idx, useqt=(idx % 3 == 2))
    p["inputs"] = [dict(v, name="x%d" % j, ty=(QT_TYPES[(idx + j) % len(QT_TYPES)] if p["useqt"] else "real")) for j, v in enumerate(p["inputs"])]
    p["output"] = dict(p["output"], name="y", ty=("stress" if p["useqt"] else "real"))
    return p


def mfront_text(p, suffix=""):
    """the same declaration is printed twice: law <name> for the generic interface, <name>c for the C interface (both
    interfaces export the same symbol names, so they cannot be linked into one driver under one name)"""
    t = "@DSL MaterialProperty;\n@Law %s;\n" % (p["name"] + suffix)
    if p["useqt"]:
        t += "@UseQt true;\n"
    t += "@Includes{\n#include <stdexcept>\nextern \"C\" { extern double c38_value; extern int c38_errno; extern int c38_throw; }\n}\n"
    t += "@Output %s y;\n" % p["output"]["ty"]
    for v in p["inputs"]:
        t += "@Input %s %s;\n" % (v["ty"], v["name"])
    for v in p["inputs"] + [p["output"]]:
        if v["phys"]:
            t += "@PhysicalBounds %s in %s;\n" % (v["name"], mfront_bounds(v["phys"]))
        if v["bounds"]:
            t += "@Bounds %s in %s;\n" % (v["name"], mfront_bounds(v["bounds"]))
    use = "".join("  static_cast<void>(%s);\n" % v["name"] for v in p["inputs"])
    t += ("@Function{\n%s  y = decltype(y)(c38_value);\n  if(c38_errno != 0){ errno = c38_errno; }\n"
          "  if(c38_throw == 1){ throw std::runtime_error(\"boom\"); }\n  if(c38_throw == 2){ throw 3; }\n}\n" % use)
    return t


def has_cb(p):
    return any(v["bounds"] or v["phys"] for v in p["inputs"])


def driver_text(dirname, progs):
    tpl = open(os.path.join(dirname, "driver_template.cxx")).read()
    inc, reg = [], []
    for i, p in enumerate(progs):
        inc.append('#include "%s-generic.hxx"\n#include "%sc.hxx"' % (p["name"], p["name"]))
        if has_cb(p):
            n = len(p["inputs"])
            reg.append("static int cb_%d(const double* a){ return %sc_checkBounds(%s); }" % (i, p["name"], ",".join("a[%d]" % j for j in range(n))))
    reg.append("static const Entry registry[] = {%s};" % ", ".join(
        "{%s, %s, %d}" % (p["name"], "cb_%d" % i if has_cb(p) else "nullptr", len(p["inputs"])) for i, p in enumerate(progs)))
    return tpl.replace("//@INCLUDES@", "\n".join(inc)).replace("//@REGISTRY@", "\n".join(reg))


# ----------------------------------------------------------------------------- cases
def inside_value(v, rng=None):
    bs = [b for b in (v["bounds"], v["phys"]) if b]
    cands = [0.5, 1.25, 2.0, 50.0, 0.125, 0.0, -0.25, -1.0, 150.0, 1000.0, -300.0, 2000000.0, 1.3, 0.0002]
    ok = [x for x in cands if not any(outside(b, x) for b in bs)]
    return ok[0] if ok else 0.5


def program_cases(c, pi, p):
    rng = c.rng
    n = len(p["inputs"])
    base = [inside_value(v) for v in p["inputs"]]
    yin = inside_value(p["output"])
    vecs = [list(base)]
    for j, v in enumerate(p["inputs"]):
        pts = set()
        for b in (v["bounds"], v["phys"]):
            if b:
                pts |= set(grid(b))
        pts |= {math.inf, -math.inf, math.nan}
        for x in sorted(pts, key=lambda z: (math.isnan(z), z)):
            w = list(base)
            w[j] = x
            vecs.append(w)
    for _ in range(c.pick(10, 60) if n > 1 else 0):
        w = list(base)
        for j in rng.sample(range(n), rng.choice([2, min(n, 3)])):
            bs = [b for b in (p["inputs"][j]["bounds"], p["inputs"][j]["phys"]) if b]
            if bs:
                w[j] = rng.choice(grid(rng.choice(bs)))
        vecs.append(w)
    outcomes = [("R", yin, 0)]
    ypts = set()
    for b in (p["output"]["bounds"], p["output"]["phys"]):
        if b:
            ypts |= set(grid(b))
    outs_full = [("R", y, 0) for y in sorted(ypts)] + [("R", yin, EDOM), ("R", yin, ERANGE), ("R", math.inf, ERANGE), ("R", -math.inf, 0),
                                                       ("R", math.nan, EDOM), ("R", math.nan, 0), ("T", 1, 0), ("T", 2, 0)]
    if ypts:
        outs_full += [("R", max(ypts), EDOM), ("R", min(ypts), ERANGE)]
    cases = []
    k = 0
    for vi, w in enumerate(vecs):
        full = vi == 0 or vi % 7 == 3
        for pol in (0, 1, 2):
            for oc in (outcomes + outs_full) if full else outcomes + [outs_full[(vi + pol) % len(outs_full)]]:
                for e0 in (ERRNOS if (full and oc in outcomes) or (vi + pol) % 5 == 0 else [ERRNOS[(vi + pol + k) % 4]]):
                    cases.append(dict(id="%d_%d" % (pi, k), prog=pi, pol=pol, nargs=n, e0=e0, oc=oc, args=w))
                    k += 1
    for d in (-1, 1, 3):
        if n + d >= 0:
            for pol in (0, 1, 2):
                for e0 in ERRNOS:
                    cases.append(dict(id="%d_%d" % (pi, k), prog=pi, pol=pol, nargs=n + d, e0=e0, oc=outcomes[0], args=list(base) + [0.5] * max(0, d)))
                    k += 1
    return cases


def case_line(cs):
    kind, val, es = cs["oc"]
    return "%s %d %d %d %d %s %d %d %d %s" % (cs["id"], cs["prog"], cs["pol"], cs["nargs"], cs["e0"], fmt(val) if kind == "R" else "0",
                                             es if kind == "R" else 0, val if kind == "T" else 0, len(cs["args"]), " ".join(fmt(a) for a in cs["args"]))


# ----------------------------------------------------------------------------- model protocol
def tok_bounds(b, rnd):
    if not b:
        return "-"
    f = (lambda s: float("%.6g" % float(s))) if rnd else float
    return {"L": "L %s" % key(f(b[1])), "U": "U %s" % key(f(b[2])), "B": "B %s %s" % (key(f(b[1])), key(f(b[2])))}[b[0]]


def decl_line(p, rnd):
    vs = p["inputs"] + [p["output"]]
    return "D %d %s" % (len(p["inputs"]), " ".join("%s %s" % (tok_bounds(v["bounds"], rnd), tok_bounds(v["phys"], rnd)) for v in vs))


def model_lines(cs, variant):
    kind, val, es = cs["oc"]
    oc = "R %s %d" % (key(val), es) if kind == "R" else "T"
    g = "G %s %d %d %d %s %d %s" % (variant, cs["pol"], cs["nargs"], cs["e0"], oc, len(cs["args"]), " ".join(key(a) for a in cs["args"]))
    return [g, "C %d %s" % (len(cs["args"]), " ".join(key(a) for a in cs["args"]))]


# ----------------------------------------------------------------------------- independent statement of the contract
def spec(p, cs, rnd=False):
    """documented contract -> dict(status, bs_allowed (set), ret ('nan' | 'value' | None = unconstrained), cen)"""
    def rb(b):
        return (b[0], float("%.6g" % float(b[1])), float("%.6g" % float(b[2]))) if (b and rnd) else b
    n = len(p["inputs"])
    if cs["nargs"] != n:
        return dict(status=-5, bs={0}, ret="nan", cen=0)
    a = cs["args"]
    pv = [j + 1 for j, v in enumerate(p["inputs"]) if outside(rb(v["phys"]), a[j])]
    if pv:
        return dict(status=-1, bs={-pv[0]}, ret="nan", cen=0)       # physical bounds first, whatever the policy
    bv = [j + 1 for j, v in enumerate(p["inputs"]) if outside(rb(v["bounds"]), a[j])]
    if cs["pol"] == 2 and bv:
        return dict(status=-1, bs={-bv[0]}, ret="nan", cen=0)
    warn = set(bv) if cs["pol"] == 1 else set()
    kind, val, es = cs["oc"]
    if kind == "T":
        return dict(status=-2, bs=None, ret="nan", cen=0)
    if outside(rb(p["output"]["phys"]), val):
        return dict(status=-1, bs={-(n + 1)}, ret="nan", cen=0)
    if outside(rb(p["output"]["bounds"]), val):
        if cs["pol"] == 2:
            return dict(status=-1, bs={-(n + 1)}, ret="nan", cen=0)
        if cs["pol"] == 1:
            warn = {n + 1}
    if not math.isfinite(val):
        return dict(status=-4, bs=None, ret=None, cen=es)
    if es != 0:
        return dict(status=-3, bs=None, ret=None, cen=es)
    if warn:
        return dict(status=1, bs=({max(warn)} if (n + 1) in warn else warn), ret="value", cen=0)
    return dict(status=0, bs={0}, ret="value", cen=0)


def spec_cb(p, cs, rnd=False):
    def rb(b):
        return (b[0], float("%.6g" % float(b[1])), float("%.6g" % float(b[2]))) if (b and rnd) else b
    a = cs["args"]
    pv = [j + 1 for j, v in enumerate(p["inputs"]) if outside(rb(v["phys"]), a[j])]
    if pv:
        return -pv[0]
    bv = [j + 1 for j, v in enumerate(p["inputs"]) if outside(rb(v["bounds"]), a[j])]
    return bv[0] if bv else 0


def meets(sp, obs, cs):
    """obs = (status, bs, cen, ret, errno_after); returns list of violated clauses"""
    bad = []
    st, bs, cen, ret, ea = obs
    if st != sp["status"]:
        bad.append("status %d (documented %d)" % (st, sp["status"]))
    if sp["bs"] is not None and bs not in sp["bs"]:
        bad.append("bounds_status %d (documented %s)" % (bs, sorted(sp["bs"])))
    if st == -3 and cen != sp["cen"]:
        bad.append("c_error_number %d (documented %d)" % (cen, sp["cen"]))
    if sp["ret"] == "nan" and not (isinstance(ret, float) and math.isnan(ret)):
        bad.append("returned %r (documented nan)" % ret)
    if sp["ret"] == "value" and ret != cs["oc"][1]:
        bad.append("returned %r (law value %r)" % (ret, cs["oc"][1]))
    if ea != cs["e0"]:
        bad.append("errno after the call %d (before %d)" % (ea, cs["e0"]))
    return bad


def pfloat(s):
    return float.fromhex(s) if s not in ("nan", "inf", "-inf") else float(s)


_groups = {}


def report(c, group, key_, what, rep, limit=3):
    for k in c.known:
        if k.get("key") == key_:
            return c.report(key_, what, rep, True)
    n = _groups.get(group, 0)
    _groups[group] = n + 1
    if n < limit:
        return c.report(key_, what, rep, True)


def describe(p, cs):
    kind, val, es = cs["oc"]
    return ("material property\n%s\ngeneric interface called with args %s, nargs %d, policy %s, caller errno %d, law outcome %s" % (
        mfront_text(p), cs["args"], cs["nargs"], ["NONE", "WARNING", "STRICT"][cs["pol"]], cs["e0"],
        ("value %r, errno left %d" % (val, es)) if kind == "R" else ("throws " + ("std::runtime_error" if val == 1 else "int"))))


# ----------------------------------------------------------------------------- main
def main(c):
    c.repo_build(["mfront"])
    mfront = mfront_exe(c, REPO_BUILD)
    nprog = c.pick(10, 40)
    progs = [gen_program(c.rng, i) for i in range(nprog)]
    gdir = os.path.join(c.work, "gen")
    os.makedirs(gdir, exist_ok=True)
    with MFrontSemaphore() as sem:
        for p in progs:
            open(os.path.join(gdir, p["name"] + ".mfront"), "w").write(mfront_text(p))
            open(os.path.join(gdir, p["name"] + "c.mfront"), "w").write(mfront_text(p, "c"))
            rc, out, err = c.run([mfront, "--interface=generic", p["name"] + ".mfront"], cwd=gdir, timeout=120)
            sem.runs += 1
            if rc == 0:
                rc, out, err = c.run([mfront, "--interface=c", p["name"] + "c.mfront"], cwd=gdir, timeout=120)
                sem.runs += 1
            if rc != 0:
                c.report("mfront:" + p["name"], "mfront rejects a generated material property: " + (out + err)[-500:],
                         {"mfront": mfront_text(p), "output": (out + err)[-2000:]}, True)
                p["failed"] = True
    progs = [p for p in progs if not p.get("failed")]
    c.log("mfront ran on %d material properties" % len(progs))
    drv = os.path.join(gdir, "driver.cxx")
    open(drv, "w").write(driver_text(c.dir, progs))
    srcs = [drv] + [os.path.join(gdir, "src", p["name"] + s) for p in progs for s in ("-generic.cxx", "c.cxx")]
    exe = c.cxx("driver", srcs, [], flags=["-I" + os.path.join(gdir, "include")])
    c.log("generated sources compiled")
    cases = []
    for pi, p in enumerate(progs):
        cases += program_cases(c, pi, p)
    rc, out, err = c.run([exe], input="".join(case_line(cs) + "\n" for cs in cases))
    if rc != 0:
        c.report("driver", "driver failed (rc %d): %s" % (rc, err[-400:]), {"stderr": err[-2000:]}, False)
        return
    obs = {}
    for l in out.splitlines():
        t = l.split()
        obs[t[0]] = ((int(t[2]), int(t[3]), int(t[4]), pfloat(t[5]), int(t[6])), int(t[7]), None if t[9] == "-" else (int(t[9]), int(t[10])))
    c.log("driver ran %d cases" % len(cases))

    # which variant of the two known defects does the tree exhibit?  (witness inputs; everything else is compared)
    def nan_in(cs):
        return any(math.isnan(a) for a in cs["args"][:len(progs[cs["prog"]]["inputs"])])
    f11_cases, prec_cases = [], []
    for cs in cases:
        p = progs[cs["prog"]]
        if nan_in(cs) or cs["id"] not in obs:
            continue
        o = obs[cs["id"]][0]
        bad = meets(spec(p, cs), o, cs)
        if bad and not meets(spec(p, cs, rnd=True), o, cs) :
            prec_cases.append(cs)
        elif bad and all(b.startswith("errno after") for b in bad) and cs["pol"] == 2:
            f11_cases.append(cs)
    variant = "A" if f11_cases else "F"
    rnd = bool(prec_cases)
    f11_ids = {cs["id"] for cs in f11_cases}
    prec_ids = {cs["id"] for cs in prec_cases}
    ml = c.ocaml_extract("c38", MODEL, EXTRACT, "model_driver.ml")
    lines = []
    for pi, p in enumerate(progs):
        lines.append(decl_line(p, rnd))
        for cs in cases:
            if cs["prog"] == pi:
                lines += model_lines(cs, variant)
    rc, mo, me = c.run([ml], input="\n".join(lines) + "\n")
    mo = mo.split("\n")[:-1]
    if rc != 0 or len(mo) != 2 * len(cases):
        c.report("model-eval", "the extracted Gallina model could not be run: " + me[-400:], {"stderr": me[-2000:]}, False)
        return
    c.log("model evaluated (variant %s, bounds %s)" % (variant, "rounded to 6 digits as emitted" if rnd else "as declared"))
    order = [cs for pi in range(len(progs)) for cs in cases if cs["prog"] == pi]
    nanskip = 0
    for i, cs in enumerate(order):
        p = progs[cs["prog"]]
        if cs["id"] not in obs:
            report(c, "noout", "noout:" + cs["id"], "no output of the driver for " + describe(p, cs), {}, 1)
            continue
        o, msg, cb = obs[cs["id"]]
        t = mo[2 * i].split()
        m = (int(t[0]), int(t[1]), int(t[2]), t[3], int(t[4]))
        mcb = int(mo[2 * i + 1])
        kind, val, es = cs["oc"]
        sp = spec(p, cs)
        nontriv = sp["status"] != 0 or any(a in [float(b[q]) for v in p["inputs"] for b in (v["bounds"], v["phys"]) if b for q in (1, 2)] for a in cs["args"])
        c.count(1, (p["name"], cs["pol"], cs["nargs"], cs["e0"], str(cs["oc"]), tuple(fmt(a) for a in cs["args"])), nontriv)
        if i % 1499 == 0:
            c.sample({"program": p["name"], "inputs": [(v["bounds"], v["phys"]) for v in p["inputs"]], "output": (p["output"]["bounds"], p["output"]["phys"]),
                      "args": [fmt(a) for a in cs["args"]], "policy": cs["pol"], "caller_errno": cs["e0"], "law_outcome": [kind, fmt(val) if kind == "R" else val, es],
                      "observed(status,bounds_status,c_error_number,ret,errno_after)": [o[0], o[1], o[2], fmt(o[3]), o[4]], "checkBounds": cb})
        rep = {"mfront_file": mfront_text(p), "args": [fmt(a) for a in cs["args"]], "args_decimal": cs["args"], "nargs": cs["nargs"], "policy": cs["pol"],
               "caller_errno": cs["e0"], "law_outcome": [kind, fmt(val) if kind == "R" else val, es],
               "observed": {"status": o[0], "bounds_status": o[1], "c_error_number": o[2], "returned": fmt(o[3]), "errno_after": o[4], "checkBounds": cb},
               "model": {"generic": mo[2 * i], "checkBounds": mcb}, "how": "props/C38/driver_template.cxx (case line format in its header)"}
        if nan_in(cs):
            nanskip += 1
            continue
        # (1) the documented contract
        bad = meets(sp, o, cs)
        if bad:
            if cs["id"] in prec_ids:
                report(c, "precG", K_PREC_G, "bounds are emitted with 6 significant digits in the test (declared %s): %s\nobserved: %s" % (
                    [(v["bounds"], v["phys"]) for v in p["inputs"] + [p["output"]]], describe(p, cs), "; ".join(bad)), rep, 1)
            elif cs["id"] in f11_ids:
                report(c, "f11", K_F11, "errno is not restored: %s\nobserved: %s" % (describe(p, cs), "; ".join(bad)), rep, 1)
            else:
                report(c, "contract", "generic:%s:%s:%d:%d:%d:%s" % (p["name"], ",".join(fmt(a) for a in cs["args"]), cs["pol"], cs["nargs"], cs["e0"], cs["oc"]),
                       "documented contract violated: %s\nobserved: %s" % (describe(p, cs), "; ".join(bad)), rep)
        # (2) C interface _checkBounds
        if cb is not None:
            scb = spec_cb(p, cs)
            if cb[0] != scb:
                if cb[0] == spec_cb(p, cs, rnd=True):
                    report(c, "precC", K_PREC_C, "C interface: bounds are emitted with 6 significant digits: %s_checkBounds(%s) = %d, documented %d\n%s" % (
                        p["name"], cs["args"], cb[0], scb, mfront_text(p)), rep, 1)
                else:
                    report(c, "cb", "c:%s:%s" % (p["name"], ",".join(fmt(a) for a in cs["args"])),
                           "%s_checkBounds(%s) = %d, documented %d (physical bounds first, -rank / +rank / 0)\n%s" % (p["name"], cs["args"], cb[0], scb, mfront_text(p)), rep)
            elif cb[0] != mcb:
                report(c, "cbmodel", "cmodel:%s:%s" % (p["name"], ",".join(fmt(a) for a in cs["args"])),
                       "%s_checkBounds(%s) = %d differs from the Gallina model (%d)" % (p["name"], cs["args"], cb[0], mcb), rep)
        elif has_cb(p) and cs["nargs"] == len(p["inputs"]):
            report(c, "cbmissing", "c:nocheckbounds:" + p["name"], "no _checkBounds function called for " + p["name"], rep, 1)
        # (3) correspondence with the Gallina model (all fields)
        mret = m[3]
        same_ret = (mret == key(o[3]))
        if not bad and ((o[0], o[1], o[2], o[4]) != (m[0], m[1], m[2], m[4]) or not same_ret):
            report(c, "model", "model:%s:%s:%d:%d:%d:%s" % (p["name"], ",".join(fmt(a) for a in cs["args"]), cs["pol"], cs["nargs"], cs["e0"], cs["oc"]),
                   "the generated code behaves differently from the Gallina model: %s\nobserved %s, model %s" % (describe(p, cs), rep["observed"], mo[2 * i]), rep)
        elif bad and (cs["id"] in prec_ids or cs["id"] in f11_ids) and ((o[0], o[1], o[2], o[4]) != (m[0], m[1], m[2], m[4]) or not same_ret):
            report(c, "model", "model-variant:%s" % cs["id"], "the model variant describing the known defect does not reproduce the observation: %s observed %s model %s" % (
                describe(p, cs), rep["observed"], mo[2 * i]), rep)
    c.log("comparison done")
    if nanskip:
        c.notes.append("%d cases with a NaN argument are outside the statement (comparisons are false: NaN passes every bound): not compared" % nanskip)
    for g, n in _groups.items():
        if n > 3:
            c.notes.append("%d failing cases in group %s; replay files written for the first ones only" % (n, g))
    # proofs: the theorem about errno is the positive one unless the defect is observed (then the refutation is checked)
    props = "Properties_C38_finding.v" if variant == "A" else "Properties_C38.v"
    c.notes.append("errno theorem file used: %s; model run with bounds %s" % (props, "rounded to 6 significant digits (as emitted today)" if rnd else "as declared"))
    res = c.coq(["C38Model.v", "C38Spec.v", "C38Proofs.v", "Properties_C38_common.v", props], timeout=600)
    if not res.ok:
        c.coq_failures(res)
    c.coverage["rule"] = ("%d material properties (4 archetypes + random: 0..4 inputs, lower / upper / two-sided bounds and physical bounds on inputs and output, "
                          "bounds with up to 10 significant digits, @UseQt for one in three) x argument vectors {each input on each bound, +-1 ulp, +-2e-6 relative, +-1/8, mid, "
                          "+-inf, NaN; random multi-violations} x policies {NONE, WARNING, STRICT} x caller errno {0, EDOM, ERANGE, 42} x law outcome {value on/around the output "
                          "bounds, errno left EDOM/ERANGE, +-inf, NaN, std::exception, non-std exception} x nargs {n, n-1, n+1, n+3}; C interface _checkBounds on the same vectors; "
                          "non-trivial = status != 0 documented or an argument exactly on a bound" % len(progs))
    c.coverage["programs"] = len(progs)
    c.trusted("props/C38/driver_template.cxx + generated registry (calls the emitted functions, reads errno right after the call)",
              "Python printers: declaration -> .mfront text and -> protocol lines of the extracted model; doubles -> order-preserving integer keys",
              "the law outcome is injected through globals read by the generated @Function body (value, errno, exception)",
              "execution of the extracted model through props/C38/model_driver.ml (parsing/printing only)")


guarded_main("C38", main)

(* C38: line-protocol driver around the extracted Gallina contract model (parsing and printing only).
   D n {bounds phys}*n bounds phys        declaration: inputs then output; bounds := - | L lb | U ub | B lb ub
   G variant pol nargs e0 (R value errno | T) nvals v1..vn   -> "status bounds_status c_error_number ret errno_after"
   C nvals v1..vn                                             -> value of <name>_checkBounds
   doubles: nan | inf | -inf | order-preserving 64-bit integer key *)
open C38_model

let rec pos_of_int64 n =
  if Int64.equal n 1L then XH
  else if Int64.equal (Int64.logand n 1L) 1L then XI (pos_of_int64 (Int64.shift_right_logical n 1))
  else XO (pos_of_int64 (Int64.shift_right_logical n 1))
let z_of_int64 n = if Int64.equal n 0L then Z0 else if Int64.compare n 0L > 0 then Zpos (pos_of_int64 n) else Zneg (pos_of_int64 (Int64.neg n))
let rec int64_of_pos = function XH -> 1L | XO p -> Int64.mul 2L (int64_of_pos p) | XI p -> Int64.add (Int64.mul 2L (int64_of_pos p)) 1L
let int64_of_z = function Z0 -> 0L | Zpos p -> int64_of_pos p | Zneg p -> Int64.neg (int64_of_pos p)
let rec nat_of_int n = if n <= 0 then O else S (nat_of_int (n - 1))

let ext_of s = match s with "nan" -> NaN | "inf" -> PInf | "-inf" -> MInf | _ -> Fin (z_of_int64 (Int64.of_string s))
let string_of_ext = function NaN -> "nan" | PInf -> "inf" | MInf -> "-inf" | Fin z -> Int64.to_string (int64_of_z z)
let key s = z_of_int64 (Int64.of_string s)

let toks = ref []
let next () = match !toks with t :: r -> toks := r; t | [] -> failwith "eol"
let opt_bounds () = match next () with
  | "-" -> None
  | "L" -> let lb = key (next ()) in Some (Lower lb)
  | "U" -> let ub = key (next ()) in Some (Upper ub)
  | "B" -> let lb = key (next ()) in let ub = key (next ()) in Some (Both (lb, ub))
  | _ -> failwith "bounds"
let var () = let b = opt_bounds () in let p = opt_bounds () in { v_bounds = b; v_phys = p }
let rec values n = if n = 0 then [] else let v = ext_of (next ()) in v :: values (n - 1)
let pol_of = function "0" -> PNone | "1" -> PWarning | "2" -> PStrict | _ -> failwith "policy"
let zs z = Int64.to_string (int64_of_z z)

let () =
  let d = ref { inputs = []; output = { v_bounds = None; v_phys = None } } in
  try
    while true do
      let line = input_line stdin in
      toks := List.filter (fun s -> s <> "") (String.split_on_char ' ' line);
      if !toks <> [] then
        (match next () with
         | "D" ->
           let n = int_of_string (next ()) in
           let rec go k = if k = 0 then [] else let v = var () in v :: go (k - 1) in
           let ins = go n in
           let out = var () in
           d := { inputs = ins; output = out }
         | "G" ->
           let vr = (match next () with "F" -> Fixed | _ -> AsFound) in
           let p = pol_of (next ()) in
           let nargs = nat_of_int (int_of_string (next ())) in
           let e0 = key (next ()) in
           let body = (match next () with
               | "R" -> let v = ext_of (next ()) in let el = key (next ()) in Returns (v, el)
               | _ -> Throws) in
           let n = int_of_string (next ()) in
           let args = values n in
           let r = generic Z.ltb vr !d args nargs p e0 body in
           print_endline (String.concat " " [zs r.status; zs r.bounds_status; zs r.c_error_number; string_of_ext r.ret; zs r.errno_after])
         | "C" ->
           let n = int_of_string (next ()) in
           let args = values n in
           print_endline (zs (c_checkBounds Z.ltb !d args))
         | _ -> failwith "command")
    done
  with End_of_file -> ()

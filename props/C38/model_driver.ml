(* C38: line-protocol driver around the extracted Gallina contract model (parsing and printing only).
   D n {bounds phys}*n bounds phys        declaration: inputs then output; bounds := - | L lb | U ub | B lb ub
   E n {bounds phys}*n bounds phys        the same for the c++ interface (may carry differently rounded bounds)
   O params static from_file nochecks     DSL options (0 / 1 each)
   F - | F k c1..ck                       parameters file: absent, or the classes of its lines: B blank, H comment,
                                          T wrong token count, A<known><convertible> (A11, A01, A10, A00)
   G variant pol nargs e0 (R value errno | T) nvals v1..vn   -> "status bounds_status c_error_number ret errno_after"
   C nvals v1..vn                                             -> value of <name>_checkBounds
   M (R value errno | T)                                      -> value returned by the C interface's main function
   K dflt rtmod env nvals v1..vn                              -> c++ checkBounds: "kind rank physical warned"
   X dflt rtmod env (R value errno | T) nvals v1..vn          -> c++ operator(): "kind rank physical ret warned"
      dflt: default policy 0/1/2, rtmod 0/1, env: - (unset) | 0 | 1 | 2; kind V | G | R | L; warned: ranks or `.`
   variant: A as found (F11), F fixed, D documented (nan for every negative status)
   doubles: nan | inf | -inf | order-preserving 64-bit integer key *)
open C38_model

let rec pos_of_int64 n =
  if Int64.equal n 1L then XH
  else if Int64.equal (Int64.logand n 1L) 1L then XI (pos_of_int64 (Int64.shift_right_logical n 1))
  else XO (pos_of_int64 (Int64.shift_right_logical n 1))
let z_of_int64 n = if Int64.equal n 0L then Z0 else if Int64.compare n 0L > 0 then Zpos (pos_of_int64 n) else Zneg (pos_of_int64 (Int64.neg n))
let rec int64_of_pos = function XH -> 1L | XO p -> Int64.mul 2L (int64_of_pos p) | XI p -> Int64.add (Int64.mul 2L (int64_of_pos p)) 1L
let int64_of_z = function Z0 -> 0L | Zpos p -> int64_of_pos p | Zneg p -> Int64.neg (int64_of_pos p)
let rec nat_of_int n = if n <= 0 then O else S (nat_of_int (n - 1))

let ext_of s = match s with "nan" -> NaN | "inf" -> PInf | "-inf" -> MInf | _ -> Fin (z_of_int64 (Int64.of_string s))
let string_of_ext = function NaN -> "nan" | PInf -> "inf" | MInf -> "-inf" | Fin z -> Int64.to_string (int64_of_z z)
let key s = z_of_int64 (Int64.of_string s)

let toks = ref []
let next () = match !toks with t :: r -> toks := r; t | [] -> failwith "eol"
let opt_bounds () = match next () with
  | "-" -> None
  | "L" -> let lb = key (next ()) in Some (Lower lb)
  | "U" -> let ub = key (next ()) in Some (Upper ub)
  | "B" -> let lb = key (next ()) in let ub = key (next ()) in Some (Both (lb, ub))
  | _ -> failwith "bounds"
let var () = let b = opt_bounds () in let p = opt_bounds () in { v_bounds = b; v_phys = p }
let rec values n = if n = 0 then [] else let v = ext_of (next ()) in v :: values (n - 1)
let pol_of = function "0" -> PNone | "1" -> PWarning | "2" -> PStrict | _ -> failwith "policy"
let zs z = Int64.to_string (int64_of_z z)
let rec int_of_nat = function O -> 0 | S n -> 1 + int_of_nat n
let bool_of s = (s = "1")
let ranks = function [] -> "." | l -> String.concat "," (List.map (fun n -> string_of_int (int_of_nat n)) l)
let body () = match next () with
  | "R" -> let v = ext_of (next ()) in let el = key (next ()) in Returns (v, el)
  | _ -> Throws
let pline_of = function
  | "B" -> PBlank | "H" -> PComment | "T" -> PTokens
  | "A11" -> PAssign (true, true) | "A10" -> PAssign (true, false) | "A01" -> PAssign (false, true) | "A00" -> PAssign (false, false)
  | _ -> failwith "pline"
let cxx_pol () =
  let dflt = pol_of (next ()) in
  let rtmod = bool_of (next ()) in
  let env = (match next () with "-" -> None | s -> Some (pol_of s)) in
  cxx_policy dflt rtmod env

let () =
  let d = ref { inputs = []; output = { v_bounds = None; v_phys = None } } in
  let dx = ref !d in
  let o = ref { o_params = false; o_static = false; o_from_file = true; o_nochecks = false } in
  let pf = ref None in
  let decl () =
    let n = int_of_string (next ()) in
    let rec go k = if k = 0 then [] else let v = var () in v :: go (k - 1) in
    let ins = go n in
    let out = var () in
    { inputs = ins; output = out } in
  try
    while true do
      let line = input_line stdin in
      toks := List.filter (fun s -> s <> "") (String.split_on_char ' ' line);
      if !toks <> [] then
        (match next () with
         | "D" -> d := decl ()
         | "E" -> dx := decl ()
         | "O" ->
           let a = bool_of (next ()) in let b = bool_of (next ()) in let c = bool_of (next ()) in let e = bool_of (next ()) in
           o := { o_params = a; o_static = b; o_from_file = c; o_nochecks = e }
         | "F" ->
           (match next () with
            | "-" -> pf := None
            | k -> let rec go k = if k = 0 then [] else let l = pline_of (next ()) in l :: go (k - 1) in
              pf := Some (go (int_of_string k)))
         | "G" ->
           let vr = (match next () with "F" -> Fixed | "D" -> Documented | _ -> AsFound) in
           let p = pol_of (next ()) in
           let nargs = nat_of_int (int_of_string (next ())) in
           let e0 = key (next ()) in
           let b = body () in
           let n = int_of_string (next ()) in
           let args = values n in
           let r = generic_opt Z.ltb vr !o !pf !d args nargs p e0 b in
           print_endline (String.concat " " [zs r.status; zs r.bounds_status; zs r.c_error_number; string_of_ext r.ret; zs r.errno_after])
         | "C" ->
           let n = int_of_string (next ()) in
           let args = values n in
           print_endline (zs (c_checkBounds_opt Z.ltb !o.o_nochecks !d args))
         | "M" ->
           let b = body () in
           print_endline (string_of_ext (c_main Z.ltb !o.o_nochecks !d b))
         | "K" ->
           let p = cxx_pol () in
           let n = int_of_string (next ()) in
           let args = values n in
           (match cxx_checkBounds Z.ltb !o.o_nochecks !dx args p with
            | CbThrow (i, ph) -> Printf.printf "G %d %d .\n" (int_of_nat i) (if ph then 1 else 0)
            | CbPass w -> Printf.printf "V 0 0 %s\n" (ranks w))
         | "X" ->
           let p = cxx_pol () in
           let b = body () in
           let n = int_of_string (next ()) in
           let args = values n in
           (match cxx_call Z.ltb !o.o_nochecks !dx args p b with
            | XRange (i, ph) -> Printf.printf "G %d %d - .\n" (int_of_nat i) (if ph then 1 else 0)
            | XRuntime -> print_endline "R 0 0 - ."
            | XLaw -> print_endline "L 0 0 - ."
            | XValue (v, w) -> Printf.printf "V 0 0 %s %s\n" (string_of_ext v) (ranks w))
         | _ -> failwith "command")
    done
  with End_of_file -> ()

"""Helpers shared by the material-property checks (C38, C37, C45): mfront semaphore bookkeeping, running the mfront
built from the working tree, order-preserving keys of doubles, bounds syntax."""
import ctypes, math, os, struct


class MFrontSemaphore:
    """every mfront run leaves /dev/shm/sem.mfront-<uid> incremented by one (defect handled under C46): record it, and
    take our own increments back afterwards (sem_trywait: never blocks, never goes below what others hold)"""

    def __init__(self):
        self.libc = ctypes.CDLL("libc.so.6", use_errno=True)
        self.libc.sem_open.restype = ctypes.c_void_p
        self.libc.sem_open.argtypes = [ctypes.c_char_p, ctypes.c_int]
        self.libc.sem_getvalue.argtypes = [ctypes.c_void_p, ctypes.POINTER(ctypes.c_int)]
        self.libc.sem_trywait.argtypes = [ctypes.c_void_p]
        self.libc.sem_close.argtypes = [ctypes.c_void_p]
        self.name = ("/mfront-%d" % os.geteuid()).encode()
        self.runs = 0

    def _value(self):
        s = self.libc.sem_open(self.name, 0)
        if not s:
            return None, None
        v = ctypes.c_int(0)
        self.libc.sem_getvalue(s, ctypes.byref(v))
        return s, v.value

    def __enter__(self):
        s, self.before = self._value()
        if s:
            self.libc.sem_close(s)
        return self

    def __exit__(self, *a):
        s, v = self._value()
        if not s:
            return
        base = self.before if self.before is not None else 1
        for _ in range(min(self.runs, max(0, v - base))):
            self.libc.sem_trywait(s)
        v2 = ctypes.c_int(0)
        self.libc.sem_getvalue(s, ctypes.byref(v2))
        self.libc.sem_close(s)
        if self.before is None and v2.value == 1:
            self.libc.sem_unlink(self.name)


def mfront_exe(c, repo_build):
    """path of the mfront built from the working tree (VERIF_MFRONT: stand-in used only for mutation experiments)"""
    exe = os.path.join(repo_build, "mfront", "src", "mfront")
    if os.environ.get("VERIF_MFRONT"):
        exe = os.environ["VERIF_MFRONT"]
        c.notes.append("VERIF_MFRONT override in use: " + exe)
    return exe


def key(v):
    """order-preserving integer key of a double (nan / inf / -inf as words): a < b as doubles <=> key a < key b"""
    if math.isnan(v):
        return "nan"
    if math.isinf(v):
        return "inf" if v > 0 else "-inf"
    bits = struct.unpack("<q", struct.pack("<d", abs(v)))[0]
    return "%d" % (bits if v > 0 else -bits)


def fmt(v):
    if math.isnan(v):
        return "nan"
    if math.isinf(v):
        return "inf" if v > 0 else "-inf"
    return v.hex()


def mfront_bounds(b):
    kind, lb, ub = b
    return {"L": "[%s:*[" % lb, "U": "]*:%s]" % ub, "B": "[%s:%s]" % (lb, ub)}[kind]


def outside(b, v):
    """documented predicate, bounds inclusive, b = (kind, lb, ub) with decimal strings or floats"""
    if b is None or math.isnan(v):
        return False
    kind, lb, ub = b[0], float(b[1]), float(b[2])
    return (kind in "LB" and v < lb) or (kind in "UB" and v > ub)


def grid(b):
    """values on and around the bounds"""
    kind, lb, ub = b[0], float(b[1]), float(b[2])
    pts = set()
    for x in ([lb] if kind in "LB" else []) + ([ub] if kind in "UB" else []):
        pts |= {x, math.nextafter(x, -math.inf), math.nextafter(x, math.inf), x - abs(x) * 2e-6 - 1e-9, x + abs(x) * 2e-6 + 1e-9,
                x - 0.125, x + 0.125}
    if kind == "B":
        pts.add((lb + ub) / 2)
    return sorted(pts)

(* C25 -- property theorems, part 2: Voigt stiffness, spherical Eshelby / Hill / localisation tensors, dilute and Mori-Tanaka schemes
   for spheres (statements only; proofs in C25Schemes.v).  Moduli k, m > 0; E = Efrom k m, nu = nufrom k m. *)
From Coq Require Import Reals List Lra.
From C25 Require Import C25Spec C25General C25_gen C25Schemes.
Import ListNotations.
Local Open Scope R_scope.

(* computeVoigtStiffness on two isotropic phases 3 K_i J + 2 mu_i K is the isotropic tensor of the arithmetic means (3D and plane strain) *)
Theorem C25_voigt_stiffness_3D : forall f0 f1 K0 K1 m0 m1,
  voigt3_2 f0 f1 K0 K1 m0 m1 = iso6 (voigt [(f0, K0); (f1, K1)]) (voigt [(f0, m0); (f1, m1)]).
Proof. exact voigt3_2_spec. Qed.
Print Assumptions C25_voigt_stiffness_3D.
Theorem C25_voigt_stiffness_2D : forall f0 f1 K0 K1 m0 m1,
  voigt2_2 f0 f1 K0 K1 m0 m1 = iso4 (voigt [(f0, K0); (f1, K1)]) (voigt [(f0, m0); (f1, m1)]).
Proof. exact voigt2_2_spec. Qed.
Print Assumptions C25_voigt_stiffness_2D.
(* computeSphereEshelbyTensor = alpha J + beta K *)
Theorem C25_sphere_eshelby_tensor : forall k0 m0 ki mi, 0 < k0 -> 0 < m0 ->
  slice 0 36 (sphere_tensors (Efrom k0 m0) (nufrom k0 m0) (Efrom ki mi) (nufrom ki mi)) = lin2 (alphaS k0 m0) J6 (betaS k0 m0) K6.
Proof. exact sphere_eshelby. Qed.
Print Assumptions C25_sphere_eshelby_tensor.
(* computeSphereHillPolarisationTensor = alpha/(3k) J + beta/(2m) K, and P : C0 = S *)
Theorem C25_sphere_hill_tensor : forall k0 m0 ki mi, 0 < k0 -> 0 < m0 ->
  let T := sphere_tensors (Efrom k0 m0) (nufrom k0 m0) (Efrom ki mi) (nufrom ki mi) in
  slice 36 36 T = lin2 (alphaS k0 m0 / (3 * k0)) J6 (betaS k0 m0 / (2 * m0)) K6 /\ mmul 6 (slice 36 36 T) (iso6 k0 m0) = slice 0 36 T.
Proof. intros k0 m0 ki mi H0 H1. exact (conj (sphere_hill k0 m0 ki mi H0 H1) (sphere_hill_is_S_C0inv k0 m0 ki mi H0 H1)). Qed.
Print Assumptions C25_sphere_hill_tensor.
(* computeSphereLocalisationTensor A = locK J + locM K satisfies its defining identity A : (I + P : (Ci - C0)) = I *)
Theorem C25_sphere_localisation_tensor : forall k0 m0 ki mi, 0 < k0 -> 0 < m0 -> 0 < ki -> 0 < mi ->
  let T := sphere_tensors (Efrom k0 m0) (nufrom k0 m0) (Efrom ki mi) (nufrom ki mi) in
  slice 72 36 T = lin2 (locK k0 m0 ki) J6 (locM k0 m0 mi) K6 /\
  mmul 6 (slice 72 36 T) (map (fun p => fst p + snd p) (combine I6 (mmul 6 (slice 36 36 T) (lin2 (3 * (ki - k0)) J6 (2 * (mi - m0)) K6)))) = I6.
Proof.
  intros k0 m0 ki mi H0 H1 H2 H3.
  exact (conj (sphere_localisation k0 m0 ki mi H0 H1 H2 H3) (sphere_localisation_defining_identity k0 m0 ki mi H0 H1 H2 H3)).
Qed.
Print Assumptions C25_sphere_localisation_tensor.
(* zero inclusion fraction: the dilute and Mori-Tanaka estimates for spheres return the matrix *)
Theorem C25_sphere_schemes_zero_fraction : forall k0 m0 ki mi, 0 < k0 -> 0 < m0 -> 0 < ki -> 0 < mi ->
  sphere_enu (Efrom k0 m0) (nufrom k0 m0) 0 (Efrom ki mi) (nufrom ki mi) = Some [Efrom k0 m0; nufrom k0 m0; Efrom k0 m0; nufrom k0 m0].
Proof. exact sphere_enu_zero. Qed.
Print Assumptions C25_sphere_schemes_zero_fraction.
(* computeSphereMoriTanakaScheme, 0 < f = a/(a+b) < 1: bulk and shear moduli are Phi at the z of the matrix *)
Theorem C25_sphere_mori_tanaka_is_Phi : forall k0 m0 ki mi, 0 < k0 -> 0 < m0 -> 0 < ki -> 0 < mi -> forall a b, 0 < a -> 0 < b ->
  let f := a / (a + b) in
  exists x y, sphere_enu (Efrom k0 m0) (nufrom k0 m0) f (Efrom ki mi) (nufrom ki mi) =
    Some [x; y; Efrom (mtK k0 m0 f ki) (mtM k0 m0 f mi); nufrom (mtK k0 m0 f ki) (mtM k0 m0 f mi)].
Proof. exact sphere_enu_mt_ab. Qed.
Print Assumptions C25_sphere_mori_tanaka_is_Phi.
(* ... which are the lower (upper) Hashin-Shtrikman bounds of the specification when the matrix is the softest (stiffest) phase *)
Theorem C25_mori_tanaka_is_hs_lower_when_matrix_softest : forall k0 m0 ki mi f, 0 < k0 -> 0 < m0 -> k0 <= ki -> m0 <= mi ->
  exists ku mu, hs_spec kstar3 H3 [(1 - f, k0, m0); (f, ki, mi)] = [mtK k0 m0 f ki; mtM k0 m0 f mi; ku; mu].
Proof. exact mt_is_hs_lower. Qed.
Print Assumptions C25_mori_tanaka_is_hs_lower_when_matrix_softest.
Theorem C25_mori_tanaka_is_hs_upper_when_matrix_stiffest : forall k0 m0 ki mi f, 0 < ki -> 0 < mi -> ki <= k0 -> mi <= m0 ->
  exists kl ml, hs_spec kstar3 H3 [(1 - f, k0, m0); (f, ki, mi)] = [kl; ml; mtK k0 m0 f ki; mtM k0 m0 f mi].
Proof. exact mt_is_hs_upper. Qed.
Print Assumptions C25_mori_tanaka_is_hs_upper_when_matrix_stiffest.

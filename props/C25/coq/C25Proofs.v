(* C25 -- hand-proved lemmas on Phi for two phases, and the tie with the decision tree traced from /repo (C25_gen.v). *)
From Coq Require Import Reals List Lra Psatz.
From C25 Require Import C25Spec C25_gen.
Import ListNotations.
Local Open Scope R_scope.

Section Phi.
  Variables f0 f1 x0 x1 : R.
  Hypothesis Hf0 : 0 < f0. Hypothesis Hf1 : 0 < f1. Hypothesis Hf : f0 + f1 = 1.
  Hypothesis Hx0 : 0 < x0. Hypothesis Hx1 : 0 < x1.
  Lemma Phi2_closed z : 0 <= z -> Phi2 f0 f1 x0 x1 z = (x0 * x1 + z * (f0 * x0 + f1 * x1)) / (z + f0 * x1 + f1 * x0).
  Proof.
    intro Hz. unfold Phi2. replace f1 with (1 - f0) by lra.
    assert (0 < f0 * x1) by nra. assert (0 < (1 - f0) * x0) by nra.
    field. repeat split; try nra.
  Qed.
  Lemma Phi2_mono z1 z2 : 0 <= z1 -> z1 <= z2 -> Phi2 f0 f1 x0 x1 z1 <= Phi2 f0 f1 x0 x1 z2.
  Proof.
    intros H1 H2. rewrite !Phi2_closed by lra.
    assert (0 < f0 * x1) by (apply Rmult_lt_0_compat; lra). assert (0 < f1 * x0) by (apply Rmult_lt_0_compat; lra).
    assert (Hb : 0 < f0 * x1 + f1 * x0) by lra.
    apply Rminus_le.
    replace ((x0 * x1 + z1 * (f0 * x0 + f1 * x1)) / (z1 + f0 * x1 + f1 * x0) - (x0 * x1 + z2 * (f0 * x0 + f1 * x1)) / (z2 + f0 * x1 + f1 * x0))
      with (- ((z2 - z1) * (f0 * f1 * ((x0 - x1) * (x0 - x1))) / ((z1 + f0 * x1 + f1 * x0) * (z2 + f0 * x1 + f1 * x0)))).
    - assert (0 <= (z2 - z1) * (f0 * f1 * ((x0 - x1) * (x0 - x1)))) by (apply Rmult_le_pos; [lra | apply Rmult_le_pos; [apply Rmult_le_pos; lra | apply Rle_0_sqr || nra]]).
      assert (0 < (z1 + f0 * x1 + f1 * x0) * (z2 + f0 * x1 + f1 * x0)) by (apply Rmult_lt_0_compat; lra).
      assert (0 <= (z2 - z1) * (f0 * f1 * ((x0 - x1) * (x0 - x1))) / ((z1 + f0 * x1 + f1 * x0) * (z2 + f0 * x1 + f1 * x0))).
      { apply Rmult_le_pos; [assumption | left; now apply Rinv_0_lt_compat]. }
      lra.
    - replace f1 with (1 - f0) in * by lra. field. split; lra.
  Qed.
  Lemma Phi2_reuss : Phi2 f0 f1 x0 x1 0 = reuss2 f0 f1 x0 x1.
  Proof. unfold Phi2, reuss2. rewrite !Rplus_0_l. ring. Qed.
  Lemma Phi2_voigt z : 0 <= z -> Phi2 f0 f1 x0 x1 z <= voigt2 f0 f1 x0 x1.
  Proof.
    intro Hz. rewrite Phi2_closed by lra. unfold voigt2.
    assert (0 < f0 * x1) by (apply Rmult_lt_0_compat; lra). assert (0 < f1 * x0) by (apply Rmult_lt_0_compat; lra).
    assert (Hb : 0 < z + f0 * x1 + f1 * x0) by lra.
    apply Rmult_le_reg_r with (z + f0 * x1 + f1 * x0); [lra|].
    unfold Rdiv. rewrite Rmult_assoc, Rinv_l by lra. rewrite Rmult_1_r.
    replace f1 with (1 - f0) in * by lra.
    assert (0 <= f0 * (1 - f0) * ((x0 - x1) * (x0 - x1))) by (apply Rmult_le_pos; [apply Rmult_le_pos; lra | apply Rle_0_sqr]).
    nra.
  Qed.
  (* Reuss <= Phi z1 <= Phi z2 <= Voigt *)
  Lemma Phi2_chain z1 z2 : 0 <= z1 -> z1 <= z2 ->
    reuss2 f0 f1 x0 x1 <= Phi2 f0 f1 x0 x1 z1 /\ Phi2 f0 f1 x0 x1 z1 <= Phi2 f0 f1 x0 x1 z2 /\ Phi2 f0 f1 x0 x1 z2 <= voigt2 f0 f1 x0 x1.
  Proof.
    intros H1 H2. split; [|split].
    - rewrite <- Phi2_reuss. apply Phi2_mono; lra.
    - now apply Phi2_mono.
    - apply Phi2_voigt; lra.
  Qed.
End Phi.

(* ---- the traced code computes Phi at the documented K*, for every outcome of the comparisons *)
Ltac leaf_eq :=
  unfold Phi2;
  first [ reflexivity
        | match goal with m0 : R, m1 : R |- _ => (replace m1 with m0 by lra; reflexivity) end
        | match goal with m0 : R, m1 : R |- _ => (replace m0 with m1 by lra; reflexivity) end
        | (field; repeat split; nra) ].
Lemma hs_bulk_two_phases (d43 : R) (hs : R -> R -> R -> R -> R -> R -> option (list R)) f0 f1 K0 K1 m0 m1 :
  admissible f0 f1 K0 K1 m0 m1 -> 0 < d43 ->
  (exists ml mu, hs f0 f1 K0 K1 m0 m1 = Some [Phi2 f0 f1 K0 K1 (d43 * Rmin m0 m1); ml; Phi2 f0 f1 K0 K1 (d43 * Rmax m0 m1); mu]) ->
  exists kl ml ku mu, hs f0 f1 K0 K1 m0 m1 = Some [kl; ml; ku; mu] /\
    reuss2 f0 f1 K0 K1 <= kl /\ kl <= ku /\ ku <= voigt2 f0 f1 K0 K1.
Proof.
  intros (Hf0 & Hf1 & Hf & HK0 & HK1 & Hm0 & Hm1) Hd [ml [mu E]].
  do 4 eexists. split; [exact E|].
  apply Phi2_chain; try assumption.
  - apply Rmult_le_pos; [lra|]. unfold Rmin; destruct (Rle_dec m0 m1); lra.
  - apply Rmult_le_compat_l; [lra|]. unfold Rmin, Rmax; destruct (Rle_dec m0 m1); lra.
Qed.
Lemma hs3_2_is_Phi f0 f1 K0 K1 m0 m1 : admissible f0 f1 K0 K1 m0 m1 ->
  exists ml mu, hs3_2 f0 f1 K0 K1 m0 m1 = Some [Phi2 f0 f1 K0 K1 (4 / 3 * Rmin m0 m1); ml; Phi2 f0 f1 K0 K1 (4 / 3 * Rmax m0 m1); mu].
Proof.
  intros (Hf0 & Hf1 & Hf & HK0 & HK1 & Hm0 & Hm1).
  unfold hs3_2; cbv zeta; unfold Rmin, Rmax; destruct (Rle_dec m0 m1); repeat destruct (Rlt_dec _ _); try lra;
    do 2 eexists; apply f_equal; (apply f_equal2; [leaf_eq|]); (apply f_equal2; [reflexivity|]); (apply f_equal2; [leaf_eq|]); reflexivity.
Qed.
Lemma hs2_2_is_Phi f0 f1 K0 K1 m0 m1 : admissible f0 f1 K0 K1 m0 m1 ->
  exists ml mu, hs2_2 f0 f1 K0 K1 m0 m1 = Some [Phi2 f0 f1 K0 K1 (1 * Rmin m0 m1); ml; Phi2 f0 f1 K0 K1 (1 * Rmax m0 m1); mu].
Proof.
  intros (Hf0 & Hf1 & Hf & HK0 & HK1 & Hm0 & Hm1).
  unfold hs2_2; cbv zeta; unfold Rmin, Rmax; destruct (Rle_dec m0 m1); repeat destruct (Rlt_dec _ _); try lra;
    do 2 eexists; apply f_equal; (apply f_equal2; [rewrite ?Rmult_1_l; leaf_eq|]); (apply f_equal2; [reflexivity|]);
    (apply f_equal2; [rewrite ?Rmult_1_l; leaf_eq|]); reflexivity.
Qed.

(* C25 -- any number of phases: Phi(z) = (sum f_i/(z+x_i))^-1 - z is non-decreasing on z >= 0, is the harmonic mean at 0 and is
   bounded by the arithmetic mean.  Everything follows from one weighted Cauchy-Schwarz inequality proved by induction on the list:
   (sum f_i)^2 <= (sum f_i q_i) (sum f_i / q_i).  Independent of the traced code. *)
From Coq Require Import Reals List Lra Psatz.
From C25 Require Import C25Spec.
Import ListNotations.
Local Open Scope R_scope.

Lemma sumg_ext (P : R * R -> Prop) g h l : Forall P l -> (forall f x, P (f, x) -> g f x = h f x) -> sumg g l = sumg h l.
Proof.
  intros Hl E. induction Hl as [|[f x] t Hp Ht IH]; simpl; [reflexivity|]. rewrite IH, (E f x Hp). reflexivity.
Qed.
Lemma sumg_plus g h l : sumg (fun f x => g f x + h f x) l = sumg g l + sumg h l.
Proof. induction l as [|[f x] t IH]; simpl; [ring|]. rewrite IH. ring. Qed.
Lemma sumg_scal c g l : sumg (fun f x => c * g f x) l = c * sumg g l.
Proof. induction l as [|[f x] t IH]; simpl; [ring|]. rewrite IH. ring. Qed.
Lemma sumg_nonneg (P : R * R -> Prop) g l : Forall P l -> (forall f x, P (f, x) -> 0 <= g f x) -> 0 <= sumg g l.
Proof.
  intros Hl E. induction Hl as [|[f x] t Hp Ht IH]; simpl; [lra|]. specialize (E f x Hp). lra.
Qed.
Lemma sumg_pos (P : R * R -> Prop) g l : l <> [] -> Forall P l -> (forall f x, P (f, x) -> 0 < g f x) -> 0 < sumg g l.
Proof.
  intros Hn Hl E. destruct Hl as [|[f x] t Hp Ht]; [congruence|]. simpl.
  assert (0 <= sumg g t) by (apply (sumg_nonneg P); [assumption | intros; left; now apply E]).
  specialize (E f x Hp). lra.
Qed.

(* weighted Cauchy-Schwarz *)
Lemma cauchy_schwarz (q : R -> R) l : Forall (fun p => 0 <= fst p /\ 0 < q (snd p)) l ->
  sumf l * sumf l <= sumg (fun f x => f * q x) l * sumg (fun f x => f / q x) l.
Proof.
  intro Hl. unfold sumf.
  assert (G : 0 <= sumg (fun f _ => f) l /\ 0 <= sumg (fun f x => f * q x) l /\ 0 <= sumg (fun f x => f / q x) l /\
              sumg (fun f _ => f) l * sumg (fun f _ => f) l <= sumg (fun f x => f * q x) l * sumg (fun f x => f / q x) l).
  { induction Hl as [|[f x] t [Hf Hq] Ht IH]; simpl in *; [lra|].
    destruct IH as (F0 & A0 & B0 & IH).
    set (F := sumg (fun f _ => f) t) in *. set (A := sumg (fun f x => f * q x) t) in *. set (B := sumg (fun f x => f / q x) t) in *.
    assert (Hiq : 0 < / q x) by now apply Rinv_0_lt_compat.
    assert (Hfq : 0 <= f * q x) by (apply Rmult_le_pos; lra).
    assert (Hfiq : 0 <= f / q x) by (apply Rmult_le_pos; lra).
    repeat split; try lra.
    (* 2 F <= q B + A / q *)
    set (u := q x * B). set (v := A * / q x).
    assert (Hu : 0 <= u) by (apply Rmult_le_pos; lra). assert (Hv : 0 <= v) by (apply Rmult_le_pos; lra).
    assert (Huv : u * v = A * B) by (unfold u, v; field; lra).
    assert (H2 : 2 * F <= u + v).
    { destruct (Rle_lt_dec (2 * F) (u + v)) as [|Hlt]; [assumption|]. exfalso.
      assert ((u + v) * (u + v) < 2 * F * (2 * F)) by (apply Rmult_le_0_lt_compat; lra).
      assert (0 <= (u - v) * (u - v)) by apply Rle_0_sqr || nra. nra. }
    replace ((f * q x + A) * (f / q x + B)) with (f * f + f * (u + v) + A * B) by (unfold u, v; field; lra).
    assert (f * (2 * F) <= f * (u + v)) by (apply Rmult_le_compat_l; lra). nra. }
  tauto.
Qed.

Section General.
  Variable l : list (R * R).
  Hypothesis Hl : adm l.
  Let Hpos : Forall (fun p => 0 < fst p /\ 0 < snd p) l := proj1 Hl.
  Let Hsum : sumf l = 1 := proj2 Hl.
  Lemma adm_nonempty : l <> [].
  Proof. intro E. subst l. unfold sumf in Hsum; simpl in Hsum. lra. Qed.
  Lemma sumq_pos z : 0 <= z -> 0 < sumq l z.
  Proof.
    intro Hz. unfold sumq. apply (sumg_pos (fun p => 0 < fst p /\ 0 < snd p)); [apply adm_nonempty | exact Hpos|].
    intros f x [Hf Hx]; simpl in *. apply Rdiv_lt_0_compat; lra.
  Qed.
  Lemma Phi_reuss : Phi l 0 = reuss l.
  Proof.
    unfold Phi, reuss, sumq. rewrite Rminus_0_r. f_equal.
    apply (sumg_ext (fun _ => True)); [apply Forall_forall; trivial|]. intros f x _. now rewrite Rplus_0_l.
  Qed.
  (* (z + voigt) * S(z) >= 1 *)
  Lemma Phi_voigt z : 0 <= z -> Phi l z <= voigt l.
  Proof.
    intro Hz. pose proof (sumq_pos z Hz) as HS.
    assert (CS := cauchy_schwarz (fun x => z + x) l). rewrite Hsum in CS.
    assert (HA : sumg (fun f x => f * (z + x)) l = z + voigt l).
    { rewrite (sumg_ext (fun _ => True) _ (fun f x => z * f + f * x)); [|apply Forall_forall; trivial | intros; cbv beta; ring].
      rewrite sumg_plus, sumg_scal. fold (sumf l). rewrite Hsum. unfold voigt. rewrite Rmult_1_r. reflexivity. }
    rewrite HA in CS. fold (sumq l z) in CS.
    assert (CS' : 1 * 1 <= (z + voigt l) * sumq l z).
    { apply CS. eapply Forall_impl; [|exact Hpos]. intros [f x] [Hf Hx]; simpl in *. split; lra. }
    unfold Phi. assert (1 / sumq l z <= z + voigt l); [|lra].
    apply Rmult_le_reg_r with (sumq l z); [assumption|]. unfold Rdiv. rewrite Rmult_assoc, Rinv_l by lra. lra.
  Qed.
  (* S(z1) - S(z2) >= (z2 - z1) S(z1) S(z2) *)
  Lemma Phi_mono z1 z2 : 0 <= z1 -> z1 <= z2 -> Phi l z1 <= Phi l z2.
  Proof.
    intros H1 H2. pose proof (sumq_pos z1 H1) as HS1. pose proof (sumq_pos z2 ltac:(lra)) as HS2.
    set (dz := z2 - z1). assert (Hd : 0 <= dz) by (unfold dz; lra).
    assert (CS := cauchy_schwarz (fun x => (z2 + x) / (z1 + x)) l). rewrite Hsum in CS.
    assert (Htrue : Forall (fun p : R * R => 0 < snd p) l) by (eapply Forall_impl; [|exact Hpos]; intros [f x] [? ?]; assumption).
    assert (HA : sumg (fun f x => f * ((z2 + x) / (z1 + x))) l = 1 + dz * sumq l z1).
    { rewrite (sumg_ext (fun p => 0 < snd p) _ (fun f x => f + dz * (f / (z1 + x)))); [|exact Htrue | intros f x Hx; simpl in Hx; unfold dz; field; lra].
      rewrite sumg_plus, sumg_scal. fold (sumf l). rewrite Hsum. reflexivity. }
    assert (HB : sumg (fun f x => f / ((z2 + x) / (z1 + x))) l = 1 - dz * sumq l z2).
    { rewrite (sumg_ext (fun p => 0 < snd p) _ (fun f x => f + (- dz) * (f / (z2 + x)))); [|exact Htrue | intros f x Hx; simpl in Hx; unfold dz; field; split; lra].
      rewrite sumg_plus, sumg_scal. fold (sumf l). rewrite Hsum. unfold sumq. ring. }
    rewrite HA, HB in CS.
    assert (CS' : 1 * 1 <= (1 + dz * sumq l z1) * (1 - dz * sumq l z2)).
    { apply CS. eapply Forall_impl; [|exact Hpos]. intros [f x] [Hf Hx]; simpl in *. split; [lra|]. apply Rdiv_lt_0_compat; lra. }
    (* dz (S1 - S2 - dz S1 S2) >= 0 *)
    set (S1 := sumq l z1) in *. set (S2 := sumq l z2) in *.
    unfold Phi. fold S1 S2.
    assert (Hk : dz * (S1 - S2 - dz * S1 * S2) >= 0) by nra.
    assert (Hgoal : dz * S1 * S2 <= S1 - S2).
    { destruct (Req_dec dz 0) as [E|NE].
      - (* z1 = z2 : the two sums coincide *) assert (z1 = z2) by (unfold dz in E; lra). subst z2. unfold S1, S2. rewrite E. lra.
      - assert (0 < dz) by lra. nra. }
    (* 1/S2 - 1/S1 >= dz *)
    assert (Hinv : 1 / S1 + dz <= 1 / S2).
    { apply Rmult_le_reg_r with (S1 * S2); [apply Rmult_lt_0_compat; lra|].
      replace ((1 / S1 + dz) * (S1 * S2)) with (S2 + dz * S1 * S2) by (field; lra).
      replace (1 / S2 * (S1 * S2)) with S1 by (field; lra). lra. }
    unfold dz in Hinv. lra.
  Qed.
  Theorem Phi_chain z1 z2 : 0 <= z1 -> z1 <= z2 -> reuss l <= Phi l z1 /\ Phi l z1 <= Phi l z2 /\ Phi l z2 <= voigt l.
  Proof.
    intros H1 H2. split; [|split].
    - rewrite <- Phi_reuss. apply Phi_mono; lra.
    - now apply Phi_mono.
    - apply Phi_voigt; lra.
  Qed.
End General.

(* ---- min / max of a non-empty list *)
Lemma lmin_le_lmax l : l <> [] -> lmin l <= lmax l.
Proof.
  induction l as [|x [|y t] IH]; intro Hn; [congruence | simpl; lra |].
  specialize (IH ltac:(discriminate)). change (lmin (x :: y :: t)) with (Rmin x (lmin (y :: t))). change (lmax (x :: y :: t)) with (Rmax x (lmax (y :: t))).
  pose proof (Rmin_l x (lmin (y :: t))). pose proof (Rmax_l x (lmax (y :: t))). lra.
Qed.
Lemma lmin_pos l : l <> [] -> Forall (fun x => 0 < x) l -> 0 < lmin l.
Proof.
  induction l as [|x [|y t] IH]; intros Hn Hp; [congruence | inversion Hp; simpl; assumption |].
  inversion Hp as [|? ? Hx Ht]; subst. specialize (IH ltac:(discriminate) Ht).
  change (lmin (x :: y :: t)) with (Rmin x (lmin (y :: t))). unfold Rmin. destruct (Rle_dec _ _); lra.
Qed.
Lemma lmin_in l x : In x l -> lmin l <= x.
Proof.
  induction l as [|y [|w t] IH]; intro Hi; [inversion Hi | destruct Hi as [->|[]]; simpl; lra |].
  change (lmin (y :: w :: t)) with (Rmin y (lmin (w :: t))).
  destruct Hi as [->|Hi]; [apply Rmin_l|]. specialize (IH Hi). pose proof (Rmin_r y (lmin (w :: t))). lra.
Qed.
Lemma lmax_in l x : In x l -> x <= lmax l.
Proof.
  induction l as [|y [|w t] IH]; intro Hi; [inversion Hi | destruct Hi as [->|[]]; simpl; lra |].
  change (lmax (y :: w :: t)) with (Rmax y (lmax (w :: t))).
  destruct Hi as [->|Hi]; [apply Rmax_l|]. specialize (IH Hi). pose proof (Rmax_r y (lmax (w :: t))). lra.
Qed.
Lemma lmin_is l x : In x l -> (forall y, In y l -> x <= y) -> lmin l = x.
Proof.
  intros Hi Hall. apply Rle_antisym; [now apply lmin_in|].
  assert (G : forall l', l' <> [] -> (forall y, In y l' -> x <= y) -> x <= lmin l').
  { induction l' as [|y [|w t] IH]; intros Hn Ha; [congruence | simpl; apply Ha; now left |].
    change (lmin (y :: w :: t)) with (Rmin y (lmin (w :: t))). apply Rmin_glb; [apply Ha; now left|].
    apply IH; [discriminate|]. intros; apply Ha; now right. }
  apply G; [|assumption]. intro E; subst; inversion Hi.
Qed.
Lemma lmax_is l x : In x l -> (forall y, In y l -> y <= x) -> lmax l = x.
Proof.
  intros Hi Hall. apply Rle_antisym; [|now apply lmax_in].
  assert (G : forall l', l' <> [] -> (forall y, In y l' -> y <= x) -> lmax l' <= x).
  { induction l' as [|y [|w t] IH]; intros Hn Ha; [congruence | simpl; apply Ha; now left |].
    change (lmax (y :: w :: t)) with (Rmax y (lmax (w :: t))). apply Rmax_lub; [apply Ha; now left|].
    apply IH; [discriminate|]. intros; apply Ha; now right. }
  apply G; [|assumption]. intro E; subst; inversion Hi.
Qed.

Lemma lmin2_0 a b : a <= b -> lmin [a; b] = a. Proof. intro. simpl. unfold Rmin. destruct (Rle_dec a b); lra. Qed.
Lemma lmin2_1 a b : b <= a -> lmin [a; b] = b. Proof. intro. simpl. unfold Rmin. destruct (Rle_dec a b); lra. Qed.
Lemma lmax2_0 a b : b <= a -> lmax [a; b] = a. Proof. intro. simpl. unfold Rmax. destruct (Rle_dec a b); lra. Qed.
Lemma lmax2_1 a b : a <= b -> lmax [a; b] = b. Proof. intro. simpl. unfold Rmax. destruct (Rle_dec a b); lra. Qed.
Lemma lmin3_0 a b c : a <= b -> a <= c -> lmin [a; b; c] = a.
Proof. intros. apply lmin_is; [now left|]. intros y [<-|[<-|[<-|[]]]]; lra. Qed.
Lemma lmin3_1 a b c : b <= a -> b <= c -> lmin [a; b; c] = b.
Proof. intros. apply lmin_is; [right; now left|]. intros y [<-|[<-|[<-|[]]]]; lra. Qed.
Lemma lmin3_2 a b c : c <= a -> c <= b -> lmin [a; b; c] = c.
Proof. intros. apply lmin_is; [right; right; now left|]. intros y [<-|[<-|[<-|[]]]]; lra. Qed.
Lemma lmax3_0 a b c : b <= a -> c <= a -> lmax [a; b; c] = a.
Proof. intros. apply lmax_is; [now left|]. intros y [<-|[<-|[<-|[]]]]; lra. Qed.
Lemma lmax3_1 a b c : a <= b -> c <= b -> lmax [a; b; c] = b.
Proof. intros. apply lmax_is; [right; now left|]. intros y [<-|[<-|[<-|[]]]]; lra. Qed.
Lemma lmax3_2 a b c : a <= c -> b <= c -> lmax [a; b; c] = c.
Proof. intros. apply lmax_is; [right; right; now left|]. intros y [<-|[<-|[<-|[]]]]; lra. Qed.


(* ---- the auxiliary moduli are positive *)
Lemma H3_pos K mu : 0 < K -> 0 < mu -> 0 < H3 K mu.
Proof. intros. unfold H3. apply Rdiv_lt_0_compat; [apply Rmult_lt_0_compat|]; lra. Qed.
Lemma H2_pos K mu : 0 < K -> 0 < mu -> 0 < H2 K mu.
Proof. intros. unfold H2. apply Rdiv_lt_0_compat; [apply Rmult_lt_0_compat|]; lra. Qed.
(* H3 grows with both moduli: the softest (stiffest) phase of a well-ordered composite has the smallest (largest) H *)
Lemma H3_mono K K' mu mu' : 0 < K -> 0 < mu -> K <= K' -> mu <= mu' -> H3 K mu <= H3 K' mu'.
Proof.
  intros HK Hm HKK Hmm. unfold H3.
  apply Rmult_le_reg_r with ((K + 2 * mu) * (K' + 2 * mu')); [apply Rmult_lt_0_compat; lra|].
  replace (mu * (3 * K / 2 + 4 * mu / 3) / (K + 2 * mu) * ((K + 2 * mu) * (K' + 2 * mu'))) with (mu * (3 * K / 2 + 4 * mu / 3) * (K' + 2 * mu')) by (field; lra).
  replace (mu' * (3 * K' / 2 + 4 * mu' / 3) / (K' + 2 * mu') * ((K + 2 * mu) * (K' + 2 * mu'))) with (mu' * (3 * K' / 2 + 4 * mu' / 3) * (K + 2 * mu)) by (field; lra).
  (* difference = positive combination of (K'-K) and (mu'-mu) *)
  set (a := K' - K). set (b := mu' - mu). assert (0 <= a) by (unfold a; lra). assert (0 <= b) by (unfold b; lra).
  replace K' with (K + a) by (unfold a; ring). replace mu' with (mu + b) by (unfold b; ring).
  assert (0 <= a * b) by now apply Rmult_le_pos. assert (0 <= a * mu) by (apply Rmult_le_pos; lra). assert (0 <= b * mu) by (apply Rmult_le_pos; lra).
  assert (0 <= a * K) by (apply Rmult_le_pos; lra). assert (0 <= b * K) by (apply Rmult_le_pos; lra). assert (0 <= b * b) by (apply Rle_0_sqr || nra).
  assert (0 <= a * mu * mu) by (apply Rmult_le_pos; lra). assert (0 <= b * K * K) by (apply Rmult_le_pos; lra).
  assert (0 <= b * mu * mu) by (apply Rmult_le_pos; lra). assert (0 <= b * K * mu) by (apply Rmult_le_pos; lra).
  assert (0 <= a * b * mu) by (apply Rmult_le_pos; lra). assert (0 <= a * b * K) by (apply Rmult_le_pos; lra).
  assert (0 <= b * b * K) by (apply Rmult_le_pos; lra). assert (0 <= b * b * mu) by (apply Rmult_le_pos; lra).
  assert (0 <= a * b * b) by (apply Rmult_le_pos; lra). assert (0 <= a * K * mu) by (apply Rmult_le_pos; lra).
  nra.
Qed.

(* ---- Hashin-Shtrikman bounds as specified: ordered for any number of phases, bulk and shear *)
Lemma adm3_fK ph : adm3 ph -> adm (fK ph).
Proof.
  intros [Hp Hs]. split; [|exact Hs]. unfold fK. apply Forall_map. eapply Forall_impl; [|exact Hp]. intros [[f K] m] (? & ? & ?); simpl in *. split; assumption.
Qed.
Lemma sumf_fM ph : sumf (fM ph) = sumf (fK ph).
Proof. unfold sumf, fM, fK. induction ph as [|[[f K] m] t IH]; simpl; [reflexivity|]. unfold sumg in *; simpl. rewrite IH. reflexivity. Qed.
Lemma adm3_fM ph : adm3 ph -> adm (fM ph).
Proof.
  intros [Hp Hs]. split; [|rewrite sumf_fM; exact Hs]. unfold fM. apply Forall_map. eapply Forall_impl; [|exact Hp]. intros [[f K] m] (? & ? & ?); simpl in *. split; assumption.
Qed.
Lemma adm3_nonempty ph : adm3 ph -> ph <> [].
Proof. intros [_ Hs] E. subst. unfold sumf, sumg in Hs; simpl in Hs. lra. Qed.
Theorem hs_spec_ordered kstar H ph : (forall x, 0 < x -> 0 <= kstar x) -> (forall x y, x <= y -> kstar x <= kstar y) ->
  (forall K mu, 0 < K -> 0 < mu -> 0 < H K mu) -> adm3 ph ->
  match hs_spec kstar H ph with
  | [kl; ml; ku; mu] => reuss (fK ph) <= kl /\ kl <= ku /\ ku <= voigt (fK ph) /\ reuss (fM ph) <= ml /\ ml <= mu /\ mu <= voigt (fM ph)
  | _ => False
  end.
Proof.
  intros Hk Hkm HH Ha. unfold hs_spec.
  pose proof (adm3_nonempty ph Ha) as Hn.
  assert (Hmn : mus ph <> []) by (unfold mus; destruct ph; [congruence | discriminate]).
  assert (HHn : Hs H ph <> []) by (unfold Hs; destruct ph; [congruence | discriminate]).
  assert (Hmp : Forall (fun x => 0 < x) (mus ph)).
  { unfold mus. apply Forall_map. eapply Forall_impl; [|exact (proj1 Ha)]. intros [[f K] m] (? & ? & ?); simpl in *; assumption. }
  assert (HHp : Forall (fun x => 0 < x) (Hs H ph)).
  { unfold Hs. apply Forall_map. eapply Forall_impl; [|exact (proj1 Ha)]. intros [[f K] m] (? & ? & ?); simpl in *. now apply HH. }
  pose proof (lmin_pos _ Hmn Hmp). pose proof (lmin_le_lmax _ Hmn). pose proof (lmin_pos _ HHn HHp). pose proof (lmin_le_lmax _ HHn).
  destruct (Phi_chain (fK ph) (adm3_fK ph Ha) (kstar (lmin (mus ph))) (kstar (lmax (mus ph)))) as (? & ? & ?);
    [now apply Hk | now apply Hkm |].
  destruct (Phi_chain (fM ph) (adm3_fM ph Ha) (lmin (Hs H ph)) (lmax (Hs H ph))) as (? & ? & ?); [lra | lra |].
  repeat split; assumption.
Qed.
Lemma kstar3_pos x : 0 < x -> 0 <= kstar3 x. Proof. unfold kstar3; lra. Qed.
Lemma kstar3_mono x y : x <= y -> kstar3 x <= kstar3 y. Proof. unfold kstar3; lra. Qed.
Lemma kstar2_pos x : 0 < x -> 0 <= kstar2 x. Proof. unfold kstar2; lra. Qed.
Lemma kstar2_mono x y : x <= y -> kstar2 x <= kstar2 y. Proof. unfold kstar2; lra. Qed.

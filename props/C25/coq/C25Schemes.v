(* C25 -- Voigt stiffness, closed-form dilute and Mori-Tanaka schemes for spheres, spherical Eshelby, Hill and localisation tensors,
   all traced from /repo (C25_gen.v), against the closed forms of the specification.  Every equality of rational functions is proved
   by `field`; the non-vanishing of each denominator is proved by expanding it into a polynomial whose coefficients have one sign in
   positive variables (moduli k, m > 0; the volume fraction is f = a/(a+b) with a, b > 0). *)
From Coq Require Import Reals List Lra.
From C25 Require Import C25Spec C25General C25_gen.
Import ListNotations.
Local Open Scope R_scope.

Ltac pos := repeat first [ assumption | apply Rplus_lt_0_compat | apply Rmult_lt_0_compat | apply Rdiv_lt_0_compat | apply Rinv_0_lt_compat | apply pow_lt | lra ].
Ltac nz1 :=
  match goal with
  | |- ?P <> 0 =>
      first [ solve [apply Rgt_not_eq; apply Rlt_gt; pos]
            | solve [apply Rgt_not_eq; apply Rlt_gt; ring_simplify P; pos]
            | solve [apply Rlt_not_eq; apply Ropp_lt_cancel; rewrite Ropp_0; ring_simplify (- P); pos] ]
  end.
Ltac nzs := repeat split; nz1.
Ltac entry := first [ reflexivity | timeout 10 ring | timeout 300 (field; nzs) ].
Ltac list_eq := repeat (apply f_equal2; [entry | ]); reflexivity.

(* ---- algebra of isotropic tensors a J + b K (6x6): products *)
Lemma iso_mul a b c d : mmul 6 (lin2 a J6 b K6) (lin2 c J6 d K6) = lin2 (a * c) J6 (b * d) K6.
Proof.
  cbv [mmul mget lin2 K6 J6 I6 flat_map map combine seq fold_right nth app Nat.mul Nat.add fst snd]. list_eq.
Qed.
Lemma iso_id : I6 = lin2 1 J6 1 K6.
Proof. unfold lin2, K6, J6, I6; simpl. list_eq. Qed.
Lemma iso_add a b c d : map (fun p => fst p + snd p) (combine (lin2 a J6 b K6) (lin2 c J6 d K6)) = lin2 (a + c) J6 (b + d) K6.
Proof. unfold lin2, K6, J6, I6; simpl. list_eq. Qed.

Section VoigtStiffness.
  Variables f0 f1 K0 K1 m0 m1 : R.
  Let lK := [(f0, K0); (f1, K1)]. Let lM := [(f0, m0); (f1, m1)].
  Lemma voigt3_2_spec : voigt3_2 f0 f1 K0 K1 m0 m1 = iso6 (voigt lK) (voigt lM).
  Proof. unfold voigt3_2, iso6, K6, lin2, J6, I6, voigt, sumg, lK, lM; cbv zeta; simpl. list_eq. Qed.
  Lemma voigt2_2_spec : voigt2_2 f0 f1 K0 K1 m0 m1 = iso4 (voigt lK) (voigt lM).
  Proof. unfold voigt2_2, iso4, lin2, J4, I4, voigt, sumg, lK, lM; cbv zeta; simpl. list_eq. Qed.
End VoigtStiffness.

Section Spheres.
  Variables k0 m0 ki mi : R.
  Hypothesis Hk0 : 0 < k0. Hypothesis Hm0 : 0 < m0. Hypothesis Hki : 0 < ki. Hypothesis Hmi : 0 < mi.
  Let E0 := Efrom k0 m0. Let nu0 := nufrom k0 m0. Let Ei := Efrom ki mi. Let nui := nufrom ki mi.
  (* Eshelby tensor, Hill tensor P = S : C0^-1, strain localisation tensor of a sphere *)
  Lemma sphere_eshelby : slice 0 36 (sphere_tensors E0 nu0 Ei nui) = lin2 (alphaS k0 m0) J6 (betaS k0 m0) K6.
  Proof. unfold sphere_tensors, slice, K6, lin2, J6, I6, alphaS, betaS, E0, nu0, Ei, nui, Efrom, nufrom; cbv zeta; simpl. list_eq. Qed.
  Lemma sphere_hill : slice 36 36 (sphere_tensors E0 nu0 Ei nui) = lin2 (alphaS k0 m0 / (3 * k0)) J6 (betaS k0 m0 / (2 * m0)) K6.
  Proof. unfold sphere_tensors, slice, K6, lin2, J6, I6, alphaS, betaS, E0, nu0, Ei, nui, Efrom, nufrom; cbv zeta; simpl. list_eq. Qed.
  Lemma sphere_localisation : slice 72 36 (sphere_tensors E0 nu0 Ei nui) = lin2 (locK k0 m0 ki) J6 (locM k0 m0 mi) K6.
  Proof. unfold sphere_tensors, slice, K6, lin2, J6, I6, locK, locM, H3, E0, nu0, Ei, nui, Efrom, nufrom; cbv zeta; simpl. list_eq. Qed.
  (* S = P : C0 and A : (I + P : (Ci - C0)) = I with the traced S, P, A and the stiffnesses 3 k J + 2 m K *)
  Lemma sphere_hill_is_S_C0inv : mmul 6 (slice 36 36 (sphere_tensors E0 nu0 Ei nui)) (iso6 k0 m0) = slice 0 36 (sphere_tensors E0 nu0 Ei nui).
  Proof. rewrite sphere_hill, sphere_eshelby. unfold iso6. rewrite iso_mul. f_equal; field; lra. Qed.
  Lemma sphere_localisation_defining_identity :
    mmul 6 (slice 72 36 (sphere_tensors E0 nu0 Ei nui))
      (map (fun p => fst p + snd p) (combine I6 (mmul 6 (slice 36 36 (sphere_tensors E0 nu0 Ei nui)) (lin2 (3 * (ki - k0)) J6 (2 * (mi - m0)) K6)))) = I6.
  Proof.
    rewrite sphere_hill, sphere_localisation, iso_mul, iso_id, iso_add, iso_mul.
    assert (0 < 3 * k0 + 4 * m0) by lra. assert (0 < H3 k0 m0) by (apply H3_pos; assumption).
    f_equal.
    - unfold locK, alphaS. field. split; lra.
    - unfold locM, betaS, H3. field. repeat split; nz1.
  Qed.
End Spheres.

Section SphereSchemes.
  Variables k0 m0 ki mi : R.
  Hypothesis Hk0 : 0 < k0. Hypothesis Hm0 : 0 < m0. Hypothesis Hki : 0 < ki. Hypothesis Hmi : 0 < mi.
  Let E0 := Efrom k0 m0. Let nu0 := nufrom k0 m0. Let Ei := Efrom ki mi. Let nui := nufrom ki mi.
  (* zero inclusion fraction: both estimates return the matrix *)
  Lemma sphere_enu_zero : sphere_enu E0 nu0 0 Ei nui = Some [E0; nu0; E0; nu0].
  Proof.
    unfold sphere_enu; cbv zeta. destruct (Rlt_dec _ _); [lra|]. destruct (Rlt_dec _ _); [lra|]. apply f_equal.
    unfold E0, nu0, Ei, nui, Efrom, nufrom. list_eq.
  Qed.
  (* 0 < f < 1 written a/(a+b): Mori-Tanaka = Phi at the z of the matrix, for the bulk and the shear modulus *)
  Variables a b : R.
  Hypothesis Ha : 0 < a. Hypothesis Hb : 0 < b.
  Let f := a / (a + b).
  Lemma f_in : 0 < f < 1.
  Proof. unfold f. split; [apply Rdiv_lt_0_compat; lra|]. apply Rmult_lt_reg_r with (a + b); [lra|]. unfold Rdiv; rewrite Rmult_assoc, Rinv_l by lra; lra. Qed.
  Lemma sphere_enu_mt_ab : exists x y, sphere_enu E0 nu0 f Ei nui =
    Some [x; y; Efrom (mtK k0 m0 f ki) (mtM k0 m0 f mi); nufrom (mtK k0 m0 f ki) (mtM k0 m0 f mi)].
  Proof.
    destruct f_in. unfold sphere_enu; cbv zeta. destruct (Rlt_dec _ _); [lra|]. destruct (Rlt_dec _ _); [lra|]. do 2 eexists. apply f_equal.
    apply f_equal2; [reflexivity|]. apply f_equal2; [reflexivity|].
    unfold E0, nu0, Ei, nui, Efrom, nufrom, mtK, mtM, Phi, sumq, sumg, H3; simpl. unfold f. list_eq.
  Qed.
End SphereSchemes.

(* Mori-Tanaka with the softest (stiffest) phase as matrix is the lower (upper) Hashin-Shtrikman bound as specified, two phases *)
Section MoriTanakaHashinShtrikman.
  Variables k0 m0 ki mi f : R.
  Hypothesis Hk0 : 0 < k0. Hypothesis Hm0 : 0 < m0. Hypothesis Hki : 0 < ki. Hypothesis Hmi : 0 < mi.
  Let ph := [(1 - f, k0, m0); (f, ki, mi)].
  Lemma mt_is_hs_lower : k0 <= ki -> m0 <= mi ->
    exists ku mu, hs_spec kstar3 H3 ph = [mtK k0 m0 f ki; mtM k0 m0 f mi; ku; mu].
  Proof.
    intros HK HM. unfold hs_spec, ph, mtK, mtM, kstar3, fK, fM, mus, Hs. cbn [map fst snd].
    rewrite (lmin2_0 m0 mi HM), (lmin2_0 (H3 k0 m0) (H3 ki mi)) by (apply H3_mono; assumption). do 2 eexists. reflexivity.
  Qed.
  Lemma mt_is_hs_upper : ki <= k0 -> mi <= m0 ->
    exists kl ml, hs_spec kstar3 H3 ph = [kl; ml; mtK k0 m0 f ki; mtM k0 m0 f mi].
  Proof.
    intros HK HM. unfold hs_spec, ph, mtK, mtM, kstar3, fK, fM, mus, Hs. cbn [map fst snd].
    rewrite (lmax2_0 m0 mi HM), (lmax2_0 (H3 k0 m0) (H3 ki mi)) by (apply H3_mono; assumption). do 2 eexists. reflexivity.
  Qed.
End MoriTanakaHashinShtrikman.

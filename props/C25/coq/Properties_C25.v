(* C25 -- property theorems, part 1: ordering of the bounds (statements only; proofs in C25General.v, C25Hs.v, C25Proofs.v). *)
From Coq Require Import Reals List Lra.
From C25 Require Import C25Spec C25General C25_gen C25Hs C25Proofs.
Import ListNotations.
Local Open Scope R_scope.

(* ---- any number of phases (hand-proved, lists): Reuss = Phi(0) <= Phi(z1) <= Phi(z2) <= Voigt for 0 <= z1 <= z2 *)
Theorem C25_Phi_ordered_any_number_of_phases : forall l, adm l -> forall z1 z2, 0 <= z1 -> z1 <= z2 ->
  reuss l <= Phi l z1 /\ Phi l z1 <= Phi l z2 /\ Phi l z2 <= voigt l.
Proof. exact Phi_chain. Qed.
Print Assumptions C25_Phi_ordered_any_number_of_phases.
Theorem C25_Phi_at_zero_is_the_harmonic_mean : forall l, Phi l 0 = reuss l.
Proof. exact Phi_reuss. Qed.
Print Assumptions C25_Phi_at_zero_is_the_harmonic_mean.
(* the specified Hashin-Shtrikman bounds (true min / max of mu_i and of H_i) are ordered for bulk AND shear moduli, any number of phases *)
Theorem C25_hs_bounds_ordered_any_number_of_phases_3D : forall ph, adm3 ph ->
  match hs_spec kstar3 H3 ph with
  | [kl; ml; ku; mu] => reuss (fK ph) <= kl /\ kl <= ku /\ ku <= voigt (fK ph) /\ reuss (fM ph) <= ml /\ ml <= mu /\ mu <= voigt (fM ph)
  | _ => False
  end.
Proof. exact (fun ph => hs_spec_ordered kstar3 H3 ph kstar3_pos kstar3_mono H3_pos). Qed.
Print Assumptions C25_hs_bounds_ordered_any_number_of_phases_3D.
Theorem C25_hs_bounds_ordered_any_number_of_phases_2D : forall ph, adm3 ph ->
  match hs_spec kstar2 H2 ph with
  | [kl; ml; ku; mu] => reuss (fK ph) <= kl /\ kl <= ku /\ ku <= voigt (fK ph) /\ reuss (fM ph) <= ml /\ ml <= mu /\ mu <= voigt (fM ph)
  | _ => False
  end.
Proof. exact (fun ph => hs_spec_ordered kstar2 H2 ph kstar2_pos kstar2_mono H2_pos). Qed.
Print Assumptions C25_hs_bounds_ordered_any_number_of_phases_2D.

(* ---- the traced computeIsotropicHashinShtrikmanBounds<d> returns the specified bounds on EVERY leaf of its decision tree (all
   orderings and ties of the mu_i and of the H_i, well-ordered or not): bulk and shear, 2 and 3 phases, d = 3 and d = 2 *)
Theorem C25_hs_code_is_spec_3D_two_phases : forall f0 f1 K0 K1 m0 m1, adm3 [(f0, K0, m0); (f1, K1, m1)] ->
  hs3_2 f0 f1 K0 K1 m0 m1 = Some (hs_spec kstar3 H3 [(f0, K0, m0); (f1, K1, m1)]).
Proof. exact hs3_2_spec. Qed.
Print Assumptions C25_hs_code_is_spec_3D_two_phases.
Theorem C25_hs_code_is_spec_2D_two_phases : forall f0 f1 K0 K1 m0 m1, adm3 [(f0, K0, m0); (f1, K1, m1)] ->
  hs2_2 f0 f1 K0 K1 m0 m1 = Some (hs_spec kstar2 H2 [(f0, K0, m0); (f1, K1, m1)]).
Proof. exact hs2_2_spec. Qed.
Print Assumptions C25_hs_code_is_spec_2D_two_phases.
Theorem C25_hs_code_is_spec_3D_three_phases : forall f0 f1 f2 K0 K1 K2 m0 m1 m2, adm3 [(f0, K0, m0); (f1, K1, m1); (f2, K2, m2)] ->
  hs3_3 f0 f1 f2 K0 K1 K2 m0 m1 m2 = Some (hs_spec kstar3 H3 [(f0, K0, m0); (f1, K1, m1); (f2, K2, m2)]).
Proof. exact hs3_3_spec. Qed.
Print Assumptions C25_hs_code_is_spec_3D_three_phases.
Theorem C25_hs_code_is_spec_2D_three_phases : forall f0 f1 f2 K0 K1 K2 m0 m1 m2, adm3 [(f0, K0, m0); (f1, K1, m1); (f2, K2, m2)] ->
  hs2_3 f0 f1 f2 K0 K1 K2 m0 m1 m2 = Some (hs_spec kstar2 H2 [(f0, K0, m0); (f1, K1, m1); (f2, K2, m2)]).
Proof. exact hs2_3_spec. Qed.
Print Assumptions C25_hs_code_is_spec_2D_three_phases.

(* ---- first round (kept): two phases, bulk bounds *)
Theorem C25_Phi_ordered_two_phases : forall f0 f1 x0 x1, 0 < f0 -> 0 < f1 -> f0 + f1 = 1 -> 0 < x0 -> 0 < x1 ->
  forall z1 z2, 0 <= z1 -> z1 <= z2 ->
  reuss2 f0 f1 x0 x1 <= Phi2 f0 f1 x0 x1 z1 /\ Phi2 f0 f1 x0 x1 z1 <= Phi2 f0 f1 x0 x1 z2 /\ Phi2 f0 f1 x0 x1 z2 <= voigt2 f0 f1 x0 x1.
Proof. exact Phi2_chain. Qed.
Print Assumptions C25_Phi_ordered_two_phases.
Theorem C25_hs_bulk_3D_two_phases : forall f0 f1 K0 K1 m0 m1, admissible f0 f1 K0 K1 m0 m1 ->
  (exists ml mu, hs3_2 f0 f1 K0 K1 m0 m1 = Some [Phi2 f0 f1 K0 K1 (4 / 3 * Rmin m0 m1); ml; Phi2 f0 f1 K0 K1 (4 / 3 * Rmax m0 m1); mu]) /\
  (exists kl ml ku mu, hs3_2 f0 f1 K0 K1 m0 m1 = Some [kl; ml; ku; mu] /\
     reuss2 f0 f1 K0 K1 <= kl /\ kl <= ku /\ ku <= voigt2 f0 f1 K0 K1).
Proof.
  intros f0 f1 K0 K1 m0 m1 H.
  exact (conj (hs3_2_is_Phi _ _ _ _ _ _ H) (hs_bulk_two_phases (4 / 3) hs3_2 _ _ _ _ _ _ H ltac:(lra) (hs3_2_is_Phi _ _ _ _ _ _ H))).
Qed.
Print Assumptions C25_hs_bulk_3D_two_phases.
Theorem C25_hs_bulk_2D_two_phases : forall f0 f1 K0 K1 m0 m1, admissible f0 f1 K0 K1 m0 m1 ->
  exists kl ml ku mu, hs2_2 f0 f1 K0 K1 m0 m1 = Some [kl; ml; ku; mu] /\
     reuss2 f0 f1 K0 K1 <= kl /\ kl <= ku /\ ku <= voigt2 f0 f1 K0 K1.
Proof.
  intros f0 f1 K0 K1 m0 m1 H.
  exact (hs_bulk_two_phases 1 hs2_2 _ _ _ _ _ _ H ltac:(lra) (hs2_2_is_Phi _ _ _ _ _ _ H)).
Qed.
Print Assumptions C25_hs_bulk_2D_two_phases.

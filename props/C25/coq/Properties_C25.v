(* C25 -- property theorems (statements only; proofs in C25Proofs.v). *)
From Coq Require Import Reals List Lra.
From C25 Require Import C25Spec C25_gen C25Proofs.
Import ListNotations.
Local Open Scope R_scope.

(* hand-proved, two phases: Reuss = Phi(0) <= Phi(z1) <= Phi(z2) <= Voigt for 0 <= z1 <= z2 *)
Theorem C25_Phi_ordered_two_phases : forall f0 f1 x0 x1, 0 < f0 -> 0 < f1 -> f0 + f1 = 1 -> 0 < x0 -> 0 < x1 ->
  forall z1 z2, 0 <= z1 -> z1 <= z2 ->
  reuss2 f0 f1 x0 x1 <= Phi2 f0 f1 x0 x1 z1 /\ Phi2 f0 f1 x0 x1 z1 <= Phi2 f0 f1 x0 x1 z2 /\ Phi2 f0 f1 x0 x1 z2 <= voigt2 f0 f1 x0 x1.
Proof. exact Phi2_chain. Qed.
Print Assumptions C25_Phi_ordered_two_phases.

(* computeIsotropicHashinShtrikmanBounds<3>, two phases, every outcome of max/min_element: the bulk bounds are Phi at 4/3 mu_min,
   4/3 mu_max, and Reuss <= K_HS- <= K_HS+ <= Voigt *)
Theorem C25_hs_bulk_3D_two_phases : forall f0 f1 K0 K1 m0 m1, admissible f0 f1 K0 K1 m0 m1 ->
  (exists ml mu, hs3_2 f0 f1 K0 K1 m0 m1 = Some [Phi2 f0 f1 K0 K1 (4 / 3 * Rmin m0 m1); ml; Phi2 f0 f1 K0 K1 (4 / 3 * Rmax m0 m1); mu]) /\
  (exists kl ml ku mu, hs3_2 f0 f1 K0 K1 m0 m1 = Some [kl; ml; ku; mu] /\
     reuss2 f0 f1 K0 K1 <= kl /\ kl <= ku /\ ku <= voigt2 f0 f1 K0 K1).
Proof.
  intros f0 f1 K0 K1 m0 m1 H.
  exact (conj (hs3_2_is_Phi _ _ _ _ _ _ H) (hs_bulk_two_phases (4 / 3) hs3_2 _ _ _ _ _ _ H ltac:(lra) (hs3_2_is_Phi _ _ _ _ _ _ H))).
Qed.
Print Assumptions C25_hs_bulk_3D_two_phases.
(* same in plane strain (d = 2): K* = mu_min / mu_max *)
Theorem C25_hs_bulk_2D_two_phases : forall f0 f1 K0 K1 m0 m1, admissible f0 f1 K0 K1 m0 m1 ->
  exists kl ml ku mu, hs2_2 f0 f1 K0 K1 m0 m1 = Some [kl; ml; ku; mu] /\
     reuss2 f0 f1 K0 K1 <= kl /\ kl <= ku /\ ku <= voigt2 f0 f1 K0 K1.
Proof.
  intros f0 f1 K0 K1 m0 m1 H.
  exact (hs_bulk_two_phases 1 hs2_2 _ _ _ _ _ _ H ltac:(lra) (hs2_2_is_Phi _ _ _ _ _ _ H)).
Qed.
Print Assumptions C25_hs_bulk_2D_two_phases.

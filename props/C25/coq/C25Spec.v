(* C25 -- specification: Hashin-Shtrikman bounds of isotropic phases, written from the literature independently of the code.
   Phi f x z = (sum_i f_i / (z + x_i))^-1 - z;  K_HS-/+ = Phi f K (2(d-1)/d mu_min/max),  mu_HS-/+ = Phi f mu (H_min/max),
   H_i = mu_i (d K_i / 2 + (d+1)(d-2) mu_i / d) / (K_i + 2 mu_i);  Reuss = Phi f x 0 (harmonic mean), Voigt = arithmetic mean. *)
From Coq Require Import Reals List.
Import ListNotations.
Local Open Scope R_scope.
Definition Phi2 (f0 f1 x0 x1 z : R) : R := 1 / (f0 / (z + x0) + f1 / (z + x1)) - z.
Definition reuss2 (f0 f1 x0 x1 : R) : R := 1 / (f0 / x0 + f1 / x1).
Definition voigt2 (f0 f1 x0 x1 : R) : R := f0 * x0 + f1 * x1.
Definition H3 (K mu : R) : R := mu * (3 * K / 2 + 4 * mu / 3) / (K + 2 * mu).
Definition H2 (K mu : R) : R := mu * K / (K + 2 * mu).
Definition admissible (f0 f1 K0 K1 m0 m1 : R) : Prop :=
  0 < f0 /\ 0 < f1 /\ f0 + f1 = 1 /\ 0 < K0 /\ 0 < K1 /\ 0 < m0 /\ 0 < m1.

(* ---- any number of phases: a microstructure is a list of (volume fraction, modulus) *)
Definition sumg (g : R -> R -> R) (l : list (R * R)) : R := fold_right (fun p a => g (fst p) (snd p) + a) 0 l.
Definition sumf (l : list (R * R)) : R := sumg (fun f _ => f) l.
Definition sumq (l : list (R * R)) (z : R) : R := sumg (fun f x => f / (z + x)) l.
Definition Phi (l : list (R * R)) (z : R) : R := 1 / sumq l z - z.
Definition reuss (l : list (R * R)) : R := 1 / sumg (fun f x => f / x) l.
Definition voigt (l : list (R * R)) : R := sumg (fun f x => f * x) l.
Definition adm (l : list (R * R)) : Prop := Forall (fun p => 0 < fst p /\ 0 < snd p) l /\ sumf l = 1.
(* smallest / largest element of a non-empty list *)
Fixpoint lmin (l : list R) : R := match l with [] => 0 | [x] => x | x :: t => Rmin x (lmin t) end.
Fixpoint lmax (l : list R) : R := match l with [] => 0 | [x] => x | x :: t => Rmax x (lmax t) end.
(* phases (f, K, mu); kstar mu = 2 (d-1)/d mu : 4/3 mu in 3D, mu in plane strain *)
Definition kstar3 (mu : R) : R := 4 / 3 * mu.
Definition kstar2 (mu : R) : R := mu.
Definition fK (ph : list (R * R * R)) := map (fun p => (fst (fst p), snd (fst p))) ph.
Definition fM (ph : list (R * R * R)) := map (fun p => (fst (fst p), snd p)) ph.
Definition mus (ph : list (R * R * R)) := map (fun p => snd p) ph.
Definition Hs (H : R -> R -> R) (ph : list (R * R * R)) := map (fun p => H (snd (fst p)) (snd p)) ph.
Definition adm3 (ph : list (R * R * R)) : Prop :=
  Forall (fun p => 0 < fst (fst p) /\ 0 < snd (fst p) /\ 0 < snd p) ph /\ sumf (fK ph) = 1.
(* [K_HS-; mu_HS-; K_HS+; mu_HS+] *)
Definition hs_spec (kstar : R -> R) (H : R -> R -> R) (ph : list (R * R * R)) : list R :=
  [Phi (fK ph) (kstar (lmin (mus ph))); Phi (fM ph) (lmin (Hs H ph)); Phi (fK ph) (kstar (lmax (mus ph))); Phi (fM ph) (lmax (Hs H ph))].

(* ---- isotropic fourth-order tensors in the 6x6 (3D) and 4x4 (plane strain) notations of the library, row major *)
Definition J6 : list R := [1/3;1/3;1/3;0;0;0; 1/3;1/3;1/3;0;0;0; 1/3;1/3;1/3;0;0;0; 0;0;0;0;0;0; 0;0;0;0;0;0; 0;0;0;0;0;0].
Definition I6 : list R := [1;0;0;0;0;0; 0;1;0;0;0;0; 0;0;1;0;0;0; 0;0;0;1;0;0; 0;0;0;0;1;0; 0;0;0;0;0;1].
Definition lin2 (a : R) (u : list R) (b : R) (v : list R) : list R := map (fun p => a * fst p + b * snd p) (combine u v).
Definition K6 : list R := lin2 1 I6 (-1) J6.
(* 3 k J + 2 mu K *)
Definition iso6 (k mu : R) : list R := lin2 (3 * k) J6 (2 * mu) K6.
Definition J4 : list R := [1/3;1/3;1/3;0; 1/3;1/3;1/3;0; 1/3;1/3;1/3;0; 0;0;0;0].
Definition I4 : list R := [1;0;0;0; 0;1;0;0; 0;0;1;0; 0;0;0;1].
Definition iso4 (k mu : R) : list R := lin2 (3 * k) J4 (2 * mu) (lin2 1 I4 (-1) J4).
(* product of two n x n matrices stored row major *)
Definition mget (n : nat) (a : list R) (i j : nat) : R := nth (i * n + j) a 0.
Definition mmul (n : nat) (a b : list R) : list R :=
  flat_map (fun i => map (fun j => fold_right (fun k s => mget n a i k * mget n b k j + s) 0 (seq 0 n)) (seq 0 n)) (seq 0 n).
(* sections of a long output list *)
Definition slice (o n : nat) (l : list R) : list R := firstn n (skipn o l).
(* Young modulus and Poisson ratio of an isotropic material of bulk modulus K and shear modulus G *)
Definition Efrom (K G : R) : R := 9 * K * G / (3 * K + G).
Definition nufrom (K G : R) : R := (3 * K - 2 * G) / (2 * (3 * K + G)).
(* Mori-Tanaka / Hashin-Shtrikman moduli of a two-phase composite with matrix 0 (fractions 1-f, f): Phi at the z of the matrix *)
Definition mtK (k0 m0 f ki : R) : R := Phi [(1 - f, k0); (f, ki)] (4 / 3 * m0).
Definition mtM (k0 m0 f mi : R) : R := Phi [(1 - f, m0); (f, mi)] (H3 k0 m0).
(* dilute estimate for spheres: first order in f with the strain localisation of a single sphere in the matrix *)
Definition locK (k0 m0 ki : R) : R := (k0 + 4 / 3 * m0) / (ki + 4 / 3 * m0).
Definition locM (k0 m0 mi : R) : R := (m0 + H3 k0 m0) / (mi + H3 k0 m0).
Definition dilK (k0 m0 f ki : R) : R := k0 + f * (ki - k0) * locK k0 m0 ki.
Definition dilM (k0 m0 f mi : R) : R := m0 + f * (mi - m0) * locM k0 m0 mi.
(* spherical Eshelby tensor alpha J + beta K of a matrix (k, m): alpha = 3k/(3k+4m), beta = 6(k+2m)/(5(3k+4m)) *)
Definition alphaS (k m : R) : R := 3 * k / (3 * k + 4 * m).
Definition betaS (k m : R) : R := 6 * (k + 2 * m) / (5 * (3 * k + 4 * m)).

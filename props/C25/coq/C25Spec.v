(* C25 -- specification: Hashin-Shtrikman bounds of isotropic phases, written from the literature independently of the code.
   Phi f x z = (sum_i f_i / (z + x_i))^-1 - z;  K_HS-/+ = Phi f K (2(d-1)/d mu_min/max),  mu_HS-/+ = Phi f mu (H_min/max),
   H_i = mu_i (d K_i / 2 + (d+1)(d-2) mu_i / d) / (K_i + 2 mu_i);  Reuss = Phi f x 0 (harmonic mean), Voigt = arithmetic mean. *)
From Coq Require Import Reals List.
Import ListNotations.
Local Open Scope R_scope.
Definition Phi2 (f0 f1 x0 x1 z : R) : R := 1 / (f0 / (z + x0) + f1 / (z + x1)) - z.
Definition reuss2 (f0 f1 x0 x1 : R) : R := 1 / (f0 / x0 + f1 / x1).
Definition voigt2 (f0 f1 x0 x1 : R) : R := f0 * x0 + f1 * x1.
Definition H3 (K mu : R) : R := mu * (3 * K / 2 + 4 * mu / 3) / (K + 2 * mu).
Definition H2 (K mu : R) : R := mu * K / (K + 2 * mu).
Definition admissible (f0 f1 K0 K1 m0 m1 : R) : Prop :=
  0 < f0 /\ 0 < f1 /\ f0 + f1 = 1 /\ 0 < K0 /\ 0 < K1 /\ 0 < m0 /\ 0 < m1.

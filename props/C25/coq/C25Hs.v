(* C25 -- the decision trees of computeIsotropicHashinShtrikmanBounds<d> traced from /repo (2 and 3 phases, d = 2, 3) return, on every
   leaf (all orderings and ties of the shear moduli and of the auxiliary moduli H_i), the specified bounds: Phi at 2(d-1)/d min/max mu
   for the bulk modulus and Phi at the true min/max of H_i for the shear modulus.  The script does not depend on the shape of the
   traced expressions: lets become variables with equations, the variables that are the H_i are found by trying, each comparison is
   split, and on each leaf the min/max of the specification is resolved by trying the candidates. *)
From Coq Require Import Reals List Lra.
From C25 Require Import C25Spec C25General C25_gen.
Import ListNotations.
Local Open Scope R_scope.

Lemma let_intro (A B : Type) (e : A) (b : A -> B) (r : B) : (forall x, x = e -> b x = r) -> (let x := e in b x) = r.
Proof. intro H. cbv zeta. now apply H. Qed.
Local Arguments lmin : simpl never.
Local Arguments lmax : simpl never.
Ltac pull_lets := repeat match goal with |- (let x := ?e in @?b x) = ?r => apply (let_intro _ _ e b r); let v := fresh "v" in let Ev := fresh "Ev" in intros v Ev end.
Ltac pos := repeat first [ assumption | apply Rplus_lt_0_compat | apply Rmult_lt_0_compat | apply Rdiv_lt_0_compat | apply Rinv_0_lt_compat | lra ].
(* a traced let-bound variable equal to the auxiliary modulus h (a local definition) is replaced by it *)
Ltac link h :=
  match goal with
  | E : ?x = _ |- _ => is_var x;
      let Hl := fresh "Hl" in assert (Hl : x = h) by (rewrite E; unfold h, H3, H2; first [reflexivity | (field; lra)]); clear E; subst x
  end.
Ltac rw_minmax :=
  repeat first
    [ rewrite lmin2_0 by lra | rewrite lmin2_1 by lra | rewrite lmax2_0 by lra | rewrite lmax2_1 by lra ].
(* equality of one bound with Phi at a candidate z: same expression up to the association of the sum, or as rational functions *)
Ltac close_phi :=
  first [ reflexivity
        | solve [ apply (f_equal2 Rminus); [apply (f_equal2 Rdiv); [reflexivity | ring] | reflexivity] ]
        | solve [ field; repeat split; apply Rgt_not_eq; apply Rlt_gt; pos ] ].
Ltac cand2 :=
  first [ solve [rewrite lmin2_0 by lra; close_phi] | solve [rewrite lmin2_1 by lra; close_phi]
        | solve [rewrite lmax2_0 by lra; close_phi] | solve [rewrite lmax2_1 by lra; close_phi] ].
Ltac cand3 :=
  first [ solve [rewrite lmin3_0 by lra; close_phi] | solve [rewrite lmin3_1 by lra; close_phi] | solve [rewrite lmin3_2 by lra; close_phi]
        | solve [rewrite lmax3_0 by lra; close_phi] | solve [rewrite lmax3_1 by lra; close_phi] | solve [rewrite lmax3_2 by lra; close_phi] ].
Ltac split_tree := repeat match goal with |- context [Rlt_dec ?a ?b] => destruct (Rlt_dec a b) end.
Ltac leaf cand := try (exfalso; lra); apply f_equal; repeat (apply f_equal2; [cand | ]); reflexivity.

Section TwoPhases.
  Variables f0 f1 K0 K1 m0 m1 : R.
  Hypothesis Ha : adm3 [(f0, K0, m0); (f1, K1, m1)].
  Lemma two_pos : 0 < f0 /\ 0 < f1 /\ 0 < K0 /\ 0 < K1 /\ 0 < m0 /\ 0 < m1.
  Proof. destruct Ha as [Hp _]. inversion Hp as [|? ? (? & ? & ?) Hp']; subst. inversion Hp' as [|? ? (? & ? & ?) _]; subst. simpl in *. tauto. Qed.
  Lemma hs3_2_spec : hs3_2 f0 f1 K0 K1 m0 m1 = Some (hs_spec kstar3 H3 [(f0, K0, m0); (f1, K1, m1)]).
  Proof.
    destruct two_pos as (Hf0 & Hf1 & HK0 & HK1 & Hm0 & Hm1).
    cbv beta delta [hs3_2]. pull_lets.
    unfold hs_spec, fK, fM, mus, Hs, Phi, sumq, sumg, kstar3; simpl.
    set (h0 := H3 K0 m0). set (h1 := H3 K1 m1).
    assert (Hh0 : 0 < h0) by (apply H3_pos; assumption). assert (Hh1 : 0 < h1) by (apply H3_pos; assumption).
    link h0. link h1. subst.
    split_tree; leaf cand2.
  Qed.
  Lemma hs2_2_spec : hs2_2 f0 f1 K0 K1 m0 m1 = Some (hs_spec kstar2 H2 [(f0, K0, m0); (f1, K1, m1)]).
  Proof.
    destruct two_pos as (Hf0 & Hf1 & HK0 & HK1 & Hm0 & Hm1).
    cbv beta delta [hs2_2]. pull_lets.
    unfold hs_spec, fK, fM, mus, Hs, Phi, sumq, sumg, kstar2; simpl.
    set (h0 := H2 K0 m0). set (h1 := H2 K1 m1).
    assert (Hh0 : 0 < h0) by (apply H2_pos; assumption). assert (Hh1 : 0 < h1) by (apply H2_pos; assumption).
    link h0. link h1. subst.
    split_tree; leaf cand2.
  Qed.
End TwoPhases.

Section ThreePhases.
  Variables f0 f1 f2 K0 K1 K2 m0 m1 m2 : R.
  Hypothesis Ha : adm3 [(f0, K0, m0); (f1, K1, m1); (f2, K2, m2)].
  Lemma three_pos : 0 < f0 /\ 0 < f1 /\ 0 < f2 /\ 0 < K0 /\ 0 < K1 /\ 0 < K2 /\ 0 < m0 /\ 0 < m1 /\ 0 < m2.
  Proof.
    destruct Ha as [Hp _]. inversion Hp as [|? ? (? & ? & ?) Hp']; subst. inversion Hp' as [|? ? (? & ? & ?) Hp'']; subst.
    inversion Hp'' as [|? ? (? & ? & ?) _]; subst. simpl in *. tauto.
  Qed.
  Lemma hs3_3_spec : hs3_3 f0 f1 f2 K0 K1 K2 m0 m1 m2 = Some (hs_spec kstar3 H3 [(f0, K0, m0); (f1, K1, m1); (f2, K2, m2)]).
  Proof.
    destruct three_pos as (Hf0 & Hf1 & Hf2 & HK0 & HK1 & HK2 & Hm0 & Hm1 & Hm2).
    cbv beta delta [hs3_3]. pull_lets.
    unfold hs_spec, fK, fM, mus, Hs, Phi, sumq, sumg, kstar3; simpl.
    set (h0 := H3 K0 m0). set (h1 := H3 K1 m1). set (h2 := H3 K2 m2).
    assert (Hh0 : 0 < h0) by (apply H3_pos; assumption). assert (Hh1 : 0 < h1) by (apply H3_pos; assumption).
    assert (Hh2 : 0 < h2) by (apply H3_pos; assumption).
    link h0. link h1. link h2. subst.
    split_tree; leaf cand3.
  Qed.
  Lemma hs2_3_spec : hs2_3 f0 f1 f2 K0 K1 K2 m0 m1 m2 = Some (hs_spec kstar2 H2 [(f0, K0, m0); (f1, K1, m1); (f2, K2, m2)]).
  Proof.
    destruct three_pos as (Hf0 & Hf1 & Hf2 & HK0 & HK1 & HK2 & Hm0 & Hm1 & Hm2).
    cbv beta delta [hs2_3]. pull_lets.
    unfold hs_spec, fK, fM, mus, Hs, Phi, sumq, sumg, kstar2; simpl.
    set (h0 := H2 K0 m0). set (h1 := H2 K1 m1). set (h2 := H2 K2 m2).
    assert (Hh0 : 0 < h0) by (apply H2_pos; assumption). assert (Hh1 : 0 < h1) by (apply H2_pos; assumption).
    assert (Hh2 : 0 < h2) by (apply H2_pos; assumption).
    link h0. link h1. link h2. subst.
    split_tree; leaf cand3.
  Qed.
End ThreePhases.

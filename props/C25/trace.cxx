// C25: tracer (engine S, path enumeration on max_element/min_element) and driver for the isotropic Hashin-Shtrikman bounds.
//   trace gen <out.v> [seed] : decision trees of computeIsotropicHashinShtrikmanBounds<3> and <2> for two phases -> [K_L; mu_L; K_U; mu_U]
//   trace run [seed] [n]     : the real double code on seeded 2..5-phase microstructures (d=2,3)
#include "symtfel.hxx"
#include "TFEL/Material/LinearHomogenizationBounds.hxx"
#include <cstring>
#include <iostream>
using namespace symv;
namespace he = tfel::material::homogenization::elasticity;

template <unsigned short d, typename T>
std::vector<T> hs(std::vector<T> f, std::vector<T> K, std::vector<T> mu) {
  auto r = he::computeIsotropicHashinShtrikmanBounds<d, T>(std::span<T>(f), std::span<T>(K), std::span<T>(mu));
  return {r.first.first, r.first.second, r.second.first, r.second.second};
}
template <unsigned short d>
void gen(Trace& tr, Rng& rng, int& nag, int& nfail) {
  Sym f0 = var("f0"), f1 = var("f1"), K0 = var("K0"), K1 = var("K1"), m0 = var("m0"), m1 = var("m1");
  std::vector<Sym> ps{f0, f1, K0, K1, m0, m1};
  const std::string nm = "hs" + std::to_string(d) + "_2";
  auto leaves = tr.def_paths(nm, ps, [&] { return hs<d, Sym>({f0, f1}, {K0, K1}, {m0, m1}); });
  for (int k = 0; k < 40; ++k) {
    const double a = rng.range(0.05, 0.95);
    double v[6] = {a, 1 - a, rng.range(1., 100.), rng.range(1., 100.), rng.range(1., 60.), rng.range(1., 60.)};
    if (k % 5 == 0) v[5] = v[4];  // tie on the shear moduli
    Env env{{"f0", v[0]}, {"f1", v[1]}, {"K0", v[2]}, {"K1", v[3]}, {"m0", v[4]}, {"m1", v[5]}};
    std::vector<long double> r;
    auto dv = hs<d, double>({v[0], v[1]}, {v[2], v[3]}, {v[4], v[5]});
    bool ok = eval_leaves(leaves, env, r) && r.size() == dv.size();
    for (size_t i = 0; ok && i < dv.size(); ++i) ok = close(r[i], dv[i], 0, 1e-10L);
    std::printf("%s %s case %d\n", ok ? "AGREE" : "AGREE-FAIL", nm.c_str(), k);
    ok ? ++nag : ++nfail;
  }
}
template <unsigned short d>
void run(Rng& rng, int n) {
  for (int k = 0; k < n; ++k) {
    const int N = 2 + k % 4;
    std::vector<double> f(N), K(N), mu(N);
    double s = 0;
    for (int i = 0; i < N; ++i) s += (f[i] = rng.range(0.05, 1.));
    for (int i = 0; i < N; ++i) {
      f[i] /= s;
      K[i] = std::exp(rng.range(std::log(0.5), std::log(500.)));
      mu[i] = std::exp(rng.range(std::log(0.5), std::log(300.)));
    }
    if (k % 7 == 0) mu[1] = mu[0];
    if (k % 11 == 0) K[1] = K[0];
    auto r = hs<d, double>(f, K, mu);
    std::printf("RUN %d %d |", int(d), N);
    for (double x : f) std::printf(" %.17g", x);
    std::printf(" |");
    for (double x : K) std::printf(" %.17g", x);
    std::printf(" |");
    for (double x : mu) std::printf(" %.17g", x);
    std::printf(" | %.17g %.17g %.17g %.17g\n", r[0], r[1], r[2], r[3]);
  }
}
int main(int argc, char** argv) {
  if (argc >= 3 && !std::strcmp(argv[1], "gen")) {
    Trace tr("C25_gen");
    Rng rng(argc >= 4 ? std::strtoull(argv[3], nullptr, 10) : 1);
    int nag = 0, nfail = 0;
    gen<3>(tr, rng, nag, nfail);
    gen<2>(tr, rng, nag, nfail);
    tr.write(argv[2]);
    std::printf("SUMMARY agree=%d fail=%d\n", nag, nfail);
    return 0;
  }
  if (argc >= 2 && !std::strcmp(argv[1], "run")) {
    Rng rng(argc >= 3 ? std::strtoull(argv[2], nullptr, 10) : 1);
    const int n = argc >= 4 ? std::atoi(argv[3]) : 50;
    run<3>(rng, n);
    run<2>(rng, n);
    return 0;
  }
  return 2;
}

// C25: tracer (engine S, path enumeration) and driver for the homogenisation bounds and schemes of /repo.
//   trace gen <out.v> [seed] : Coq definitions regenerated from the C++ (hs<d>_<N>, voigt<d>_2, sphere_enu, sphere_tensors) + AGREE lines
//   trace run [seed] [n]     : the real double code on the corpus and on seeded microstructures; judged by check.py
#include "symtfel.hxx"
#include "TFEL/Material/LinearHomogenizationBounds.hxx"
#include "TFEL/Material/LinearHomogenizationSchemes.hxx"
#include "TFEL/Material/IsotropicEshelbyTensor.hxx"
#include "TFEL/Material/LocalisationTensor.hxx"
#include "TFEL/Material/MicrostructureLinearHomogenization.hxx"
#include <cstring>
#include <iostream>
using namespace symv;
namespace he = tfel::material::homogenization::elasticity;
namespace tmat = tfel::material;
using tfel::math::st2tost2;

// the repo's reportContractViolation prints and aborts; here a violated contract is an exception (a `None` leaf of the trees)
namespace tfel {
  void reportContractViolation(const char* const msg) { throw std::runtime_error(std::string("contract violation: ") + msg); }
}  // namespace tfel

template <unsigned short d, typename T>
std::vector<T> flat(const st2tost2<d, T>& C) {
  constexpr unsigned short n = tfel::math::StensorDimeToSize<d>::value;
  std::vector<T> r;
  for (unsigned short i = 0; i < n; ++i)
    for (unsigned short j = 0; j < n; ++j) r.push_back(C(i, j));
  return r;
}
template <typename T>
void append(std::vector<T>& a, const std::vector<T>& b) { a.insert(a.end(), b.begin(), b.end()); }

// ---- Hashin-Shtrikman bounds: x = f[N] K[N] mu[N] -> [K_L; mu_L; K_U; mu_U]
template <unsigned short d, typename T>
std::vector<T> hs(std::vector<T> f, std::vector<T> K, std::vector<T> mu) {
  auto r = he::computeIsotropicHashinShtrikmanBounds<d, T>(std::span<T>(f), std::span<T>(K), std::span<T>(mu));
  return {r.first.first, r.first.second, r.second.first, r.second.second};
}
template <unsigned short d, int N, typename T>
std::vector<T> hsx(const std::vector<T>& x) {
  return hs<d, T>(std::vector<T>(x.begin(), x.begin() + N), std::vector<T>(x.begin() + N, x.begin() + 2 * N),
                  std::vector<T>(x.begin() + 2 * N, x.begin() + 3 * N));
}
// ---- isotropic stiffness of a phase 3 K J + 2 mu K (J, K: the library's projectors, 6x6 in 3D and 4x4 in plane strain)
template <unsigned short d, typename T>
st2tost2<d, T> isoC(const T& K, const T& mu) {
  const st2tost2<d, T> C = 3 * K * st2tost2<d, T>::J() + 2 * mu * st2tost2<d, T>::K();
  return C;
}
// f[N] K[N] mu[N] -> Voigt (n*n) (++ Reuss (n*n) when asked: needs the LU inversion, double only)
template <unsigned short d, typename T>
std::vector<T> voigt_reuss(const std::vector<T>& x, int N, bool with_reuss) {
  std::vector<T> f(x.begin(), x.begin() + N);
  std::vector<st2tost2<d, T>> C;
  for (int i = 0; i < N; ++i) C.push_back(isoC<d, T>(x[N + i], x[2 * N + i]));
  auto r = flat<d, T>(he::computeVoigtStiffness<d, T>(std::span<T>(f), std::span<st2tost2<d, T>>(C)));
  if constexpr (std::is_same_v<T, double>) {
    if (with_reuss) append(r, flat<d, T>(he::computeReussStiffness<d, T>(std::span<T>(f), std::span<st2tost2<d, T>>(C))));
  }
  return r;
}
// x = E0 nu0 f Ei nui -> [E_dilute; nu_dilute; E_MT; nu_MT]   (closed forms for spheres, (young, nu) overloads)
template <typename T>
std::vector<T> sphere_enu(const std::vector<T>& x) {
  const auto a = he::computeSphereDiluteScheme<T>(x[0], x[1], x[2], x[3], x[4]);
  const auto b = he::computeSphereMoriTanakaScheme<T>(x[0], x[1], x[2], x[3], x[4]);
  return {a.young, a.nu, b.young, b.nu};
}
// x = E0 nu0 Ei nui -> Eshelby S (36) ++ Hill P (36) ++ localisation A (36), spheres
template <typename T>
std::vector<T> sphere_tensors(const std::vector<T>& x) {
  auto r = flat<3u, T>(he::computeSphereEshelbyTensor<T>(x[1]));
  append(r, flat<3u, T>(he::computeSphereHillPolarisationTensor<T>(x[0], x[1])));
  append(r, flat<3u, T>(he::computeSphereLocalisationTensor<T>(x[0], x[1], x[2], x[3])));
  return r;
}

// ---------------------------------------------------------------------------------------------------------------- gen
static int g_ok = 0, g_fail = 0;
using DF = std::function<std::vector<double>(const std::vector<double>&)>;
using Gen = std::function<std::vector<double>(Rng&, int)>;
static void agree(const char* name, const std::vector<Leaf>& leaves, const std::vector<Sym>& ps, Rng& rng, int n, const DF& fd, const Gen& gen,
                  long double tol = 1e-10L) {
  for (int it = 0; it < n; ++it) {
    const auto x = gen(rng, it);
    Env env;
    for (size_t k = 0; k < ps.size(); ++k) env[Store::get().nodes[node_of(ps[k])].name] = x[k];
    std::vector<long double> r;
    std::string err;
    bool ok = eval_leaves(leaves, env, r, &err) && err.empty();
    std::vector<double> dv;
    if (ok) {
      dv = fd(x);
      ok = dv.size() == r.size();
    }
    long double sc = 1e-300L;
    for (auto v : r) sc = std::max(sc, std::fabs(v));
    for (size_t i = 0; ok && i < dv.size(); ++i) ok = std::fabs(r[i] - dv[i]) <= tol * sc;
    std::printf("%s %s case %d", ok ? "AGREE" : "AGREE-FAIL", name, it);
    if (!ok)
      for (double v : x) std::printf(" %.17g", v);
    std::printf("\n");
    ok ? ++g_ok : ++g_fail;
  }
}
static std::vector<Leaf> one_leaf(const std::vector<Sym>& out) {
  Leaf L;
  L.out = out;
  return {L};
}
static double lu(Rng& r, double a, double b) { return std::exp(r.range(std::log(a), std::log(b))); }

template <unsigned short d, int N>
void gen_hs(Trace& tr, Rng& rng) {
  std::vector<Sym> ps = vars("f", N);
  append(ps, vars("K", N));
  append(ps, vars("m", N));
  const std::string nm = "hs" + std::to_string(d) + "_" + std::to_string(N);
  auto leaves = tr.def_paths(nm, ps, [&] { return hsx<d, N, Sym>(ps); });
  agree(nm.c_str(), leaves, ps, rng, N == 2 ? 40 : 60, [](const std::vector<double>& x) { return hsx<d, N, double>(x); },
        [](Rng& r, int k) {
          std::vector<double> x(3 * N);
          double s = 0;
          for (int i = 0; i < N; ++i) s += (x[i] = r.range(0.05, 1.));
          for (int i = 0; i < N; ++i) {
            x[i] /= s;
            x[N + i] = lu(r, 0.5, 500.);
            x[2 * N + i] = lu(r, 0.5, 300.);
          }
          if (k % 5 == 0) x[2 * N + 1] = x[2 * N];                                    // tie on the shear moduli
          if (k % 7 == 0) { x[N + 1] = x[N]; x[2 * N + 1] = x[2 * N]; }               // tie on H as well
          if (k % 3 == 1) { x[N] = 50 * x[2 * N]; x[N + 1] = 0.675 * x[2 * N + 1]; }  // non well-ordered, high contrast
          return x;
        });
}
template <unsigned short d>
void gen_voigt(Trace& tr, Rng& rng) {
  std::vector<Sym> ps{var("f0"), var("f1"), var("K0"), var("K1"), var("m0"), var("m1")};
  const std::string nm = "voigt" + std::to_string(d) + "_2";
  const auto out = voigt_reuss<d, Sym>(ps, 2, false);
  tr.def(nm, ps, out);
  agree(nm.c_str(), one_leaf(out), ps, rng, 20, [](const std::vector<double>& x) { return voigt_reuss<d, double>(x, 2, false); },
        [](Rng& r, int) {
          const double a = r.range(0.05, 0.95);
          return std::vector<double>{a, 1 - a, lu(r, 0.5, 500.), lu(r, 0.5, 500.), lu(r, 0.5, 300.), lu(r, 0.5, 300.)};
        });
}

// ---------------------------------------------------------------------------------------------------------------- run
static void pv(const std::vector<double>& v) {
  for (double x : v) std::printf(" %.17g", x);
}
template <unsigned short d>
void run_hs_case(const std::vector<double>& f, const std::vector<double>& K, const std::vector<double>& mu, const char* tag) {
  const auto r = hs<d, double>(f, K, mu);
  std::printf("HS %d %d %s |", int(d), int(f.size()), tag);
  pv(f);
  std::printf(" |");
  pv(K);
  std::printf(" |");
  pv(mu);
  std::printf(" |");
  pv(r);
  std::printf("\n");
  std::vector<double> x = f;
  append(x, K);
  append(x, mu);
  std::printf("VR %d %d |", int(d), int(f.size()));
  pv(x);
  std::printf(" |");
  pv(voigt_reuss<d, double>(x, static_cast<int>(f.size()), true));
  std::printf("\n");
}
template <unsigned short d>
void run_hs(Rng& rng, int n) {
  // corpus: non well-ordered, high-contrast microstructures (the phase of smallest shear modulus has the largest auxiliary modulus H)
  run_hs_case<d>({0.5, 0.5}, {50, 0.81}, {1, 1.2}, "corpus");
  run_hs_case<d>({0.3, 0.7}, {0.81, 50}, {1.2, 1}, "corpus");
  run_hs_case<d>({0.2, 0.3, 0.5}, {400, 0.9, 3}, {1, 1.3, 1.1}, "corpus");
  run_hs_case<d>({0.25, 0.25, 0.25, 0.25}, {1000, 1, 30, 0.7}, {1, 1.4, 1.2, 1.5}, "corpus");
  run_hs_case<d>({0.1, 0.2, 0.3, 0.15, 0.25}, {0.6, 900, 2, 70, 0.75}, {2, 1, 1.5, 1.2, 1.9}, "corpus");
  run_hs_case<d>({0.5, 0.5}, {1e4, 1e-2}, {1, 1.01}, "corpus");
  for (int k = 0; k < n; ++k) {
    const int N = 2 + k % 4;
    std::vector<double> f(N), K(N), mu(N);
    double s = 0;
    for (int i = 0; i < N; ++i) s += (f[i] = rng.range(0.05, 1.));
    for (int i = 0; i < N; ++i) {
      f[i] /= s;
      K[i] = lu(rng, 0.5, 500.);
      mu[i] = lu(rng, 0.5, 300.);
    }
    if (k % 7 == 0) mu[1] = mu[0];
    if (k % 11 == 0) K[1] = K[0];
    if (k % 3 == 1)  // anti-ordered: the larger the shear modulus, the (much) smaller the bulk modulus
      for (int i = 0; i < N; ++i) K[i] = (i % 2 ? 0.675 : 50.) * mu[i] * rng.range(0.9, 1.1);
    run_hs_case<d>(f, K, mu, "seeded");
  }
}
static std::vector<double> micro_run(he::ParticulateMicrostructure<3u, double>& micro, int kind) {
  const auto h = kind == 0   ? he::computeDilute<3u, double>(micro)
                 : kind == 1 ? he::computeMoriTanaka<3u, double>(micro)
                             : he::computeSelfConsistent<3u, double>(micro, 1e-13, true);
  auto r = flat<3u, double>(h.homogenized_stiffness);
  for (const auto& A : h.mean_strain_localisation_tensors) append(r, flat<3u, double>(A));
  return r;
}
static void run_schemes(Rng& rng, int n) {
  using KG = tmat::KGModuli<double>;
  for (int k = 0; k < n; ++k) {
    double k0 = lu(rng, 0.5, 500.), m0 = lu(rng, 0.5, 300.), ki = lu(rng, 0.5, 500.), mi = lu(rng, 0.5, 300.), f = rng.range(0.01, 0.6);
    if (k % 4 == 0) f = 0;
    if (k % 8 == 1) { ki = k0 * rng.range(1.5, 50.); mi = m0 * rng.range(1.5, 50.); }  // matrix softest
    if (k % 8 == 2) { ki = k0 / rng.range(1.5, 50.); mi = m0 / rng.range(1.5, 50.); }  // matrix stiffest
    const std::vector<double> x{k0, m0, f, ki, mi};
    const auto a = he::computeSphereDiluteScheme<double>(KG(k0, m0), f, KG(ki, mi));
    const auto b = he::computeSphereMoriTanakaScheme<double>(KG(k0, m0), f, KG(ki, mi));
    std::printf("SPH |");
    pv(x);
    std::printf(" | %.17g %.17g %.17g %.17g\n", a.kappa, a.mu, b.kappa, b.mu);
    const auto E0 = KG(k0, m0).ToYoungNu(), Ei = KG(ki, mi).ToYoungNu();
    const auto A = he::computeSphereLocalisationTensor<double>(E0.young, E0.nu, Ei.young, Ei.nu);
    std::printf("TEN |");
    pv(x);
    std::printf(" |");
    pv(flat<3u, double>(he::computeDiluteScheme<double>(E0.young, E0.nu, f, Ei.young, Ei.nu, A)));
    std::printf(" |");
    pv(flat<3u, double>(he::computeMoriTanakaScheme<double>(E0.young, E0.nu, f, Ei.young, Ei.nu, A)));
    std::printf("\n");
    for (int kind = 0; kind < 3; ++kind) {
      he::ParticulateMicrostructure<3u, double> micro(KG(k0, m0));
      he::Sphere<double> sph;
      he::SphereDistribution<double> dist(sph, f, KG(ki, mi));
      if (!micro.addInclusionPhase(dist)) continue;
      std::printf("MIC %d sphere |", kind);
      pv(x);
      std::printf(" |");
      pv(micro_run(micro, kind));
      std::printf("\n");
    }
    // spheroidal / ellipsoidal inclusions: execution only
    const double e = (k % 2 ? lu(rng, 1.2, 20.) : 1 / lu(rng, 1.2, 20.));
    for (int kind = 0; kind < 3; ++kind) {
      he::ParticulateMicrostructure<3u, double> micro(KG(k0, m0));
      he::Spheroid<double> sphero(e, 1.);
      he::IsotropicDistribution<double> dist(sphero, f, KG(ki, mi));
      if (!micro.addInclusionPhase(dist)) continue;
      std::printf("MIC %d spheroid_iso |", kind);
      pv(x);
      std::printf(" %.17g |", e);
      pv(micro_run(micro, kind));
      std::printf("\n");
    }
    for (int kind = 0; kind < 2; ++kind) {
      he::ParticulateMicrostructure<3u, double> micro(KG(k0, m0));
      he::Ellipsoid<double> ell(lu(rng, 2., 10.), lu(rng, 1.1, 1.9), 1.);
      const double th = rng.range(0., 3.);
      tfel::math::tvector<3u, double> na{std::cos(th), std::sin(th), 0.}, nb{-std::sin(th), std::cos(th), 0.};
      he::OrientedDistribution<double> dist(ell, f, KG(ki, mi), na, nb);
      if (!micro.addInclusionPhase(dist)) continue;
      std::printf("MIC %d ellipsoid_oriented |", kind);
      pv(x);
      std::printf(" %.17g |", th);
      pv(micro_run(micro, kind));
      std::printf("\n");
    }
    // Eshelby tensors: sphere, spheroid, ellipsoid (nu of the matrix)
    const double nu = E0.nu;
    std::printf("ESH sphere | %.17g 1 1 1 |", nu);
    pv(flat<3u, double>(he::computeSphereEshelbyTensor<double>(nu)));
    std::printf("\n");
    std::printf("ESH spheroid | %.17g %.17g 1 1 |", nu, e);
    pv(flat<3u, double>(he::computeAxisymmetricalEshelbyTensor<double>(nu, e)));
    std::printf("\n");
    const double aa = lu(rng, 2., 10.), bb = lu(rng, 1.1, 1.9);
    std::printf("ESH ellipsoid | %.17g %.17g %.17g 1 |", nu, aa, bb);
    pv(flat<3u, double>(he::computeEshelbyTensor<double>(nu, aa, bb, 1.)));
    std::printf("\n");
    // continuity with the sphere just outside the switching tolerance
    std::printf("ESH nearsphere | %.17g %.17g 1 1 |", nu, 1.001);
    pv(flat<3u, double>(he::computeAxisymmetricalEshelbyTensor<double>(nu, 1.001)));
    std::printf("\n");
  }
}
int main(int argc, char** argv) {
  if (argc >= 3 && !std::strcmp(argv[1], "gen")) {
    Trace tr("C25_gen");
    Rng rng(argc >= 4 ? std::strtoull(argv[3], nullptr, 10) : 1);
    gen_hs<3, 2>(tr, rng);
    gen_hs<2, 2>(tr, rng);
    gen_hs<3, 3>(tr, rng);
    gen_hs<2, 3>(tr, rng);
    gen_voigt<3>(tr, rng);
    gen_voigt<2>(tr, rng);
    {
      std::vector<Sym> ps{var("E0"), var("nu0"), var("f"), var("Ei"), var("nui")};
      auto l = tr.def_paths("sphere_enu", ps, [&] { return sphere_enu<Sym>(ps); });
      agree("sphere_enu", l, ps, rng, 40, [](const std::vector<double>& x) { return sphere_enu<double>(x); }, [](Rng& r, int k) {
        std::vector<double> x{lu(r, 0.5, 500.), r.range(-0.5, 0.49), r.range(0., 1.), lu(r, 0.5, 500.), r.range(-0.5, 0.49)};
        if (k % 6 == 0) x[2] = 0;
        if (k % 6 == 1) x[2] = 1;
        return x;
      });
      std::vector<Sym> p4{var("E0"), var("nu0"), var("Ei"), var("nui")};
      const auto out = sphere_tensors<Sym>(p4);
      tr.def("sphere_tensors", p4, out);
      agree("sphere_tensors", one_leaf(out), p4, rng, 30, [](const std::vector<double>& x) { return sphere_tensors<double>(x); },
            [](Rng& r, int) { return std::vector<double>{lu(r, 0.5, 500.), r.range(-0.5, 0.49), lu(r, 0.5, 500.), r.range(-0.5, 0.49)}; });
    }
    tr.write(argv[2]);
    std::printf("SUMMARY agree=%d fail=%d\n", g_ok, g_fail);
    return 0;
  }
  if (argc >= 2 && !std::strcmp(argv[1], "run")) {
    Rng rng(argc >= 3 ? std::strtoull(argv[2], nullptr, 10) : 1);
    const int n = argc >= 4 ? std::atoi(argv[3]) : 50;
    run_hs<3>(rng, n);
    run_hs<2>(rng, n);
    run_schemes(rng, std::max(8, n / 5));
    return 0;
  }
  return 2;
}

"""C25 -- homogenisation bounds are ordered (PARTIAL).
Engine S with path enumeration: the complete decision trees of computeIsotropicHashinShtrikmanBounds<3> and <2> for two phases are
regenerated from /repo; Coq proves the bulk bounds are Phi(K*) at the documented K* and Reuss <= HS- <= HS+ <= Voigt (hand-proved
two-phase lemma on Phi).  Shear bounds, 3..5 phases: ordering checked BY EXECUTION of the real code against means computed in Python."""
import os
from vlib import guarded_main

SUPPORT = ["src/Exception/ContractViolation.cxx", "src/Exception/TFELException.cxx"]


def main(c):
    exe = c.cxx("trace", ["trace.cxx"], SUPPORT)
    gen = os.path.join(c.work, "coq", "C25_gen.v")
    os.makedirs(os.path.dirname(gen), exist_ok=True)
    rc, out, err = c.run([exe, "gen", gen, str(c.seed)])
    if rc != 0:
        c.report("trace", "tracer failed: " + err[-500:], {"stderr": err[-3000:]}, False)
        return
    nag = 0
    for l in out.splitlines():
        if l.startswith("AGREE"):
            nag += 1
            c.count(1, ("agree", l))
            if l.startswith("AGREE-FAIL"):
                c.report("agree:" + l.split()[1], "traced decision tree and double instantiation disagree: " + l, {"line": l, "seed": c.seed}, True)
    c.trusted("engine S tracer (path oracle on std::max_element/min_element, printer), g++ template instantiation with Sym",
              "agreement tree vs double on %d seeded two-phase cases (ties on the shear moduli included)" % nag)
    res = c.coq([gen, "C25Spec.v", "C25Proofs.v", "Properties_C25.v"], timeout=600)
    n = c.pick(200, 3000)
    rc, out, err = c.run([exe, "run", str(c.seed), str(n)])
    if rc != 0:
        c.report("run", "driver failed: " + err[-500:], {"stderr": err[-3000:]}, False)
        return
    k = 0
    for l in out.splitlines():
        if not l.startswith("RUN"):
            continue
        p = [x.split() for x in l.split("|")]
        d, N = int(p[0][1]), int(p[0][2])
        f, K, mu = [float(x) for x in p[1]], [float(x) for x in p[2]], [float(x) for x in p[3]]
        KL, mL, KU, mU = [float(x) for x in p[4]]
        k += 1
        c.count(1, (d, N, tuple(K), tuple(mu)), N > 2)
        if k % 61 == 1:
            c.sample({"d": d, "phases": N, "f": f, "K": K, "mu": mu, "HS": [KL, mL, KU, mU]})
        for (name, x, lo, up) in (("bulk", K, KL, KU), ("shear", mu, mL, mU)):
            reuss = 1.0 / sum(fi / xi for fi, xi in zip(f, x))
            voigt = sum(fi * xi for fi, xi in zip(f, x))
            tol = 1e-10 * voigt
            if not (reuss <= lo + tol and lo <= up + tol and up <= voigt + tol):
                c.report("order:%s:d%d:N%d:%s" % (name, d, N, ",".join("%.6g" % v for v in f + K + mu)),
                         "%s moduli not ordered: Reuss %.17g, HS- %.17g, HS+ %.17g, Voigt %.17g (d=%d, f=%s, K=%s, mu=%s)" % (name, reuss, lo, up, voigt, d, f, K, mu),
                         {"d": d, "f": f, "K": K, "mu": mu, "observed": [KL, mL, KU, mU]}, True)
    c.coverage["rule"] = "Coq: all admissible two-phase data (bulk bounds, d=2,3); execution: %d seeded 2..5-phase microstructures x d=2,3, bulk and shear" % n
    c.coverage["traces_validated_against_impl"] = nag
    if not res.ok:
        if any(v[3] for v in c.violations):
            c.notes.append("proof obligations failed: %s; concrete failing inputs reported above" % [f[2] for f in res.failed])
        else:
            c.coq_failures(res, None)


guarded_main("C25", main)

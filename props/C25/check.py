"""C25 -- homogenisation bounds are ordered, schemes consistent.
Engine S with path enumeration + hand lemmas on lists.  Regenerated from /repo on every run: the complete decision trees of
computeIsotropicHashinShtrikmanBounds<3> and <2> for 2 and 3 phases, computeVoigtStiffness, the closed-form dilute / Mori-Tanaka
schemes for spheres, the spherical Eshelby / Hill / localisation tensors.  Coq: general-N lemma (Phi monotone, harmonic mean at 0, below
the arithmetic mean) => Reuss <= HS- <= HS+ <= Voigt for bulk and shear; every leaf of the traced trees is the specified bound (true
min/max of H_i); Voigt stiffness; Eshelby = alpha J + beta K; P:C0 = S; A:(I+P:dC) = I; zero fraction -> matrix; MT = Phi = HS-/HS+.
Execution of the real double code (judged with exact rational arithmetic for the bounds): corpus of non well-ordered high-contrast
microstructures + seeded ones, Reuss stiffness, tensorial schemes, ParticulateMicrostructure API (dilute, Mori-Tanaka, self-consistent),
sum f_i A_i = I; spheroidal / ellipsoidal shapes: execution only."""
import os, re
from fractions import Fraction as Fr
from concurrent.futures import ThreadPoolExecutor
from vlib import guarded_main

SUPPORT = ["src/Exception/TFELException.cxx", "src/Math/LUException.cxx", "src/Math/MathException.cxx"]


def planned_obligations(c, chains):
    """number of theorems stated in the Properties files of the planned chains (a chain that stops early must still count)"""
    n = 0
    for ch in chains:
        for f in ch:
            if os.path.basename(f).startswith("Properties"):
                n += len(re.findall(r"^\s*(?:Theorem|Lemma|Corollary)\s", open(os.path.join(c.dir, "coq", f)).read(), flags=re.M))
    return n


def Hd(d, K, mu):
    return mu * (Fr(d) * K / 2 + Fr((d + 1) * (d - 2)) * mu / d) / (K + 2 * mu)


def phi(f, x, z):
    return 1 / sum(fi / (z + xi) for fi, xi in zip(f, x)) - z


def hs_exact(d, f, K, mu):
    """independent statement of the bounds: exact rationals, true min / max of the auxiliary moduli"""
    ks = Fr(2 * (d - 1), d)
    Hs = [Hd(d, k, m) for k, m in zip(K, mu)]
    return [phi(f, K, ks * min(mu)), phi(f, mu, min(Hs)), phi(f, K, ks * max(mu)), phi(f, mu, max(Hs))]


def iso(n, k, m):
    """3 k J + 2 m K, n = 6 (3D) or 4 (plane strain), row major"""
    r = [0.0] * (n * n)
    for i in range(3):
        for j in range(3):
            r[i * n + j] = (k - 2 * m / 3) + (2 * m if i == j else 0.0)
    for i in range(3, n):
        r[i * n + i] = 2 * m
    return r


def mdev(a, b):
    sc = max(1e-300, max(abs(x) for x in b))
    return max(abs(x - y) for x, y in zip(a, b)) / sc


def matmul6(a, b):
    return [sum(a[i * 6 + k] * b[k * 6 + j] for k in range(6)) for i in range(6) for j in range(6)]


def H3f(k, m):
    return m * (9 * k + 8 * m) / (6 * (k + 2 * m))


def judge(c, out):
    nhs = nother = 0
    seen_sphere = {}
    for l in out.splitlines():
        p = [x.split() for x in l.split("|")]
        if not p or not p[0]:
            continue
        tag = p[0][0]
        if tag == "HS":
            d, N, origin = int(p[0][1]), int(p[0][2]), p[0][3]
            fD, KD, mD, got = ([float(x) for x in p[i]] for i in (1, 2, 3, 4))
            f, K, mu = [Fr(x) for x in fD], [Fr(x) for x in KD], [Fr(x) for x in mD]
            s = sum(f)
            f = [x / s for x in f]          # the fractions are normalised in double: exact normalisation for the judge
            ex = hs_exact(d, f, K, mu)
            nhs += 1
            c.count(1, ("hs", d, N, tuple(KD), tuple(mD)), N > 2 or origin == "corpus")
            if nhs % 97 == 1 or origin == "corpus" and d == 3 and N == 2:
                c.sample({"d": d, "phases": N, "f": fD, "K": KD, "mu": mD, "HS [K-, mu-, K+, mu+]": got, "origin": origin})
            ident = "d%d:N%d:%s" % (d, N, ",".join("%.6g" % v for v in fD + KD + mD))
            names = ("K_HS-", "mu_HS-", "K_HS+", "mu_HS+")
            for i in range(4):
                x = (K, mu)[i % 2]
                tol = 2e-10 * float(max(x) + abs(ex[i]))
                if abs(got[i] - float(ex[i])) > tol:
                    c.report("hs-formula:%s:%s" % (names[i], ident),
                             "%s returned %.17g, specified bound (exact rational arithmetic, true min/max of H_i) %.17g; d=%d f=%s K=%s mu=%s"
                             % (names[i], got[i], float(ex[i]), d, fD, KD, mD), {"d": d, "f": fD, "K": KD, "mu": mD, "observed": got,
                                                                                  "expected": [float(v) for v in ex]}, True)
            for (nm, x, lo, up) in (("bulk", K, got[0], got[2]), ("shear", mu, got[1], got[3])):
                reuss = float(1 / sum(fi / xi for fi, xi in zip(f, x)))
                voigt = float(sum(fi * xi for fi, xi in zip(f, x)))
                tol = 1e-10 * voigt
                if not (reuss <= lo + tol and lo <= up + tol and up <= voigt + tol):
                    c.report("hs-order:%s:%s" % (nm, ident),
                             "%s moduli not ordered: Reuss %.17g, HS- %.17g, HS+ %.17g, Voigt %.17g (d=%d, f=%s, K=%s, mu=%s)"
                             % (nm, reuss, lo, up, voigt, d, fD, KD, mD), {"d": d, "f": fD, "K": KD, "mu": mD, "observed": got}, True)
            continue
        nother += 1
        if tag == "VR":
            d, N = int(p[0][1]), int(p[0][2])
            x = [float(v) for v in p[1]]
            f, K, mu = x[:N], x[N:2 * N], x[2 * N:]
            n = 6 if d == 3 else 4
            got = [float(v) for v in p[2]]
            exp = iso(n, sum(a * b for a, b in zip(f, K)), sum(a * b for a, b in zip(f, mu))) + \
                iso(n, 1 / sum(a / b for a, b in zip(f, K)), 1 / sum(a / b for a, b in zip(f, mu)))
            c.count(1, ("vr", d, N, tuple(x)))
            if len(got) != len(exp) or mdev(got, exp) > 1e-9:
                c.report("voigt-reuss:d%d:%s" % (d, ",".join("%.6g" % v for v in x)),
                         "computeVoigtStiffness / computeReussStiffness differ from the isotropic tensors of the arithmetic / harmonic means "
                         "(relative deviation %.3g); f, K, mu = %s" % (mdev(got, exp) if len(got) == len(exp) else -1, x), {"d": d, "x": x, "observed": got}, True)
        elif tag in ("SPH", "TEN"):
            k0, m0, f, ki, mi = (float(v) for v in p[1])
            kd = k0 + f * (ki - k0) * (k0 + 4 / 3 * m0) / (ki + 4 / 3 * m0)
            md = m0 + f * (mi - m0) * (m0 + H3f(k0, m0)) / (mi + H3f(k0, m0))
            km = 1 / ((1 - f) / (4 / 3 * m0 + k0) + f / (4 / 3 * m0 + ki)) - 4 / 3 * m0
            mm = 1 / ((1 - f) / (H3f(k0, m0) + m0) + f / (H3f(k0, m0) + mi)) - H3f(k0, m0)
            ident = ",".join("%.6g" % v for v in (k0, m0, f, ki, mi))
            c.count(1, (tag, ident))
            if tag == "SPH":
                got = [float(v) for v in p[2]]
                exp = [kd, md, km, mm]
                seen_sphere[ident] = exp
                tolr = 1e-9 if kd > 0 and md > 0 else None    # the KG -> (E, nu) -> KG conversions need positive moduli
                bad = [i for i in range(4) if (tolr is not None or i >= 2) and abs(got[i] - exp[i]) > 1e-9 * (abs(exp[i]) + k0 + m0)]
                if f == 0 and [got[0], got[1], got[2], got[3]] != [k0, m0, k0, m0] and mdev(got, [k0, m0, k0, m0]) > 1e-13:
                    bad.append(9)
                if bad:
                    c.report("sphere-schemes:" + ident, "computeSphereDiluteScheme / computeSphereMoriTanakaScheme (k0, m0, f, ki, mi = %s) returned %s, "
                             "closed forms (dilute K, mu; Mori-Tanaka = Hashin-Shtrikman K, mu) %s" % (ident, got, exp), {"x": [k0, m0, f, ki, mi], "observed": got}, True)
                # Mori-Tanaka with the softest / stiffest matrix against the exact Hashin-Shtrikman bounds
                if 0 < f < 1 and ((k0 <= ki and m0 <= mi) or (k0 >= ki and m0 >= mi)):
                    ex = hs_exact(3, [1 - Fr(f), Fr(f)], [Fr(k0), Fr(ki)], [Fr(m0), Fr(mi)])
                    ref = ex[0:2] if (k0 <= ki and m0 <= mi) else ex[2:4]
                    if any(abs(got[2 + i] - float(ref[i])) > 1e-9 * float(abs(ref[i]) + k0 + m0) for i in range(2)):
                        c.report("mt-vs-hs:" + ident, "Mori-Tanaka with the %s matrix is not the %s Hashin-Shtrikman bound: %s vs %s"
                                 % (("softest", "lower") if k0 <= ki else ("stiffest", "upper")) + (got[2:], [float(v) for v in ref]),
                                 {"x": [k0, m0, f, ki, mi], "observed": got}, True)
            else:
                dil, mt = [float(v) for v in p[2]], [float(v) for v in p[3]]
                if mdev(dil, iso(6, kd, md)) > 1e-9 or mdev(mt, iso(6, km, mm)) > 1e-9:
                    c.report("tensor-schemes:" + ident, "computeDiluteScheme / computeMoriTanakaScheme with the sphere localisation tensor are not the isotropic "
                             "tensors of the closed-form moduli (deviations %.3g, %.3g)" % (mdev(dil, iso(6, kd, md)), mdev(mt, iso(6, km, mm))),
                             {"x": [k0, m0, f, ki, mi]}, True)
        elif tag == "MIC":
            kind, shape = int(p[0][1]), p[0][2]
            x = [float(v) for v in p[1]]
            k0, m0, f, ki, mi = x[:5]
            v = [float(t) for t in p[2]]
            C, A0, A1 = v[:36], v[36:72], v[72:108]
            ident = "%d:%s:%s" % (kind, shape, ",".join("%.6g" % t for t in x))
            c.count(1, ("mic", ident), shape != "sphere")
            I6 = iso(6, 1 / 3, 1 / 2)
            msgs = []
            if f == 0 and mdev(C, iso(6, k0, m0)) > 1e-11:
                msgs.append("zero inclusion fraction does not give the matrix (deviation %.3g)" % mdev(C, iso(6, k0, m0)))
            if kind in (1, 2):
                s = [(1 - f) * a + f * b for a, b in zip(A0, A1)]
                if mdev(s, I6) > 1e-9:
                    msgs.append("sum f_i A_i deviates from the identity by %.3g" % mdev(s, I6))
            if kind == 0 and mdev(A0, I6) > 1e-14:
                msgs.append("dilute scheme: the matrix localisator is not the identity")
            # homogenised stiffness = sum f_i C_i A_i (all three schemes; the dilute one with A_0 = I - f A_1 in effect: C0 + f (C1 - C0) A1)
            Ci, C0 = iso(6, ki, mi), iso(6, k0, m0)
            if kind == 0:
                exp = [a + f * b for a, b in zip(C0, matmul6([p_ - q_ for p_, q_ in zip(Ci, C0)], A1))]
            else:
                exp = [(1 - f) * a + f * b for a, b in zip(matmul6(C0, A0), matmul6(Ci, A1))]
            if mdev(C, exp) > 1e-9:
                msgs.append("homogenised stiffness is not the average of C_i : A_i (deviation %.3g)" % mdev(C, exp))
            if shape == "sphere":
                kd = k0 + f * (ki - k0) * (k0 + 4 / 3 * m0) / (ki + 4 / 3 * m0)
                md = m0 + f * (mi - m0) * (m0 + H3f(k0, m0)) / (mi + H3f(k0, m0))
                km = 1 / ((1 - f) / (4 / 3 * m0 + k0) + f / (4 / 3 * m0 + ki)) - 4 / 3 * m0
                mm = 1 / ((1 - f) / (H3f(k0, m0) + m0) + f / (H3f(k0, m0) + mi)) - H3f(k0, m0)
                if kind == 0 and mdev(C, iso(6, kd, md)) > 1e-9:
                    msgs.append("computeDilute differs from the closed-form dilute estimate for spheres")
                if kind == 1 and mdev(C, iso(6, km, mm)) > 1e-9:
                    msgs.append("computeMoriTanaka differs from the closed-form Mori-Tanaka estimate for spheres")
                if kind == 2:
                    K, G = (C[0] + 2 * C[1]) / 3, C[21] / 2
                    if mdev(C, iso(6, K, G)) > 1e-9:
                        msgs.append("self-consistent stiffness for spheres is not isotropic")
            if msgs:
                c.report("micro:" + ident, "ParticulateMicrostructure scheme %s with %s inclusions, (k0, m0, f, ki, mi, shape) = %s: %s"
                         % (("computeDilute", "computeMoriTanaka", "computeSelfConsistent")[kind], shape, x, "; ".join(msgs)), {"kind": kind, "shape": shape, "x": x}, True)
        elif tag == "ESH":
            shape = p[0][1]
            nu, a, b, cc = (float(t) for t in p[1])
            S = [float(t) for t in p[2]]
            ident = "%s:%s" % (shape, ",".join("%.6g" % t for t in (nu, a, b, cc)))
            c.count(1, ("esh", ident), shape != "sphere")
            msgs = []
            tr = sum(S[i * 6 + j] for i in range(3) for j in range(3))
            if abs(tr - (1 + nu) / (1 - nu)) > 1e-8 * (1 + abs(tr)):
                msgs.append("sum_kl S_kkll = %.15g, expected (1+nu)/(1-nu) = %.15g (dilatation of a dilating inclusion does not depend on its shape)" % (tr, (1 + nu) / (1 - nu)))
            sph = iso(6, (1 + nu) / (1 - nu) / 9, (4 - 5 * nu) / (1 - nu) / 15)
            if shape == "sphere" and mdev(S, sph) > 1e-12:
                msgs.append("sphere: not alpha J + beta K")
            if shape == "nearsphere" and mdev(S, sph) > 5e-3:
                msgs.append("spheroid of aspect ratio 1.001 is %.3g away from the sphere" % mdev(S, sph))
            if msgs:
                c.report("eshelby:" + ident, "Eshelby tensor (%s, nu=%.17g, semi-axes %s): %s" % (shape, nu, (a, b, cc), "; ".join(msgs)), {"shape": shape, "nu": nu, "axes": [a, b, cc]}, True)
    return nhs, nother


def main(c):
    exe = c.cxx("trace", ["trace.cxx"], SUPPORT)
    gen = os.path.join(c.work, "coq", "C25_gen.v")
    os.makedirs(os.path.dirname(gen), exist_ok=True)
    rc, out, err = c.run([exe, "gen", gen, str(c.seed)])
    if rc != 0:
        c.report("trace", "tracer failed: " + err[-500:], {"stderr": err[-3000:]}, False)
        return
    nag = 0
    for l in out.splitlines():
        if l.startswith("AGREE"):
            nag += 1
            c.count(1, ("agree", l))
            if l.startswith("AGREE-FAIL"):
                c.report("agree:" + "-".join(l.split()[1:4]), "traced definition and double instantiation disagree: " + l, {"line": l, "seed": c.seed}, True)
    c.trusted("engine S tracer (path oracle on std::max_element/min_element and on the contract tests, printer), g++ template instantiation with Sym",
              "agreement traced definition vs double instantiation on %d seeded cases (ties and non well-ordered phases included)" % nag,
              "tracer: tfel::reportContractViolation (print + abort in /repo) is an exception, i.e. a `None` leaf")
    n = c.pick(150, 3000)
    with ThreadPoolExecutor(max_workers=3) as ex:
        frun = ex.submit(c.run, [exe, "run", str(c.seed), str(n)], 1200)
        results = [c.coq([gen, "C25Spec.v", "C25General.v"], timeout=900)]
        if results[0].ok:
            chains = [["C25Hs.v", "C25Proofs.v", "Properties_C25.v"], ["C25Schemes.v", "Properties_C25_schemes.v"]]
            results += [f.result() for f in [ex.submit(c.coq, ch, 1500) for ch in chains]]
        rc, out, err = frun.result()
    if rc != 0:
        c.report("run", "driver failed: " + err[-500:], {"stderr": err[-3000:]}, False)
    else:
        nhs, nother = judge(c, out)
        c.coverage["rule"] = ("Coq: all admissible data (HS trees: 2 and 3 phases, d=2,3, bulk and shear; lemma on lists: any number of phases); execution: "
                              "%d Hashin-Shtrikman cases (corpus of non well-ordered high-contrast microstructures + seeded, 2..5 phases, d=2,3) judged in exact "
                              "rational arithmetic, %d other cases (Voigt/Reuss stiffness, schemes, localisators, Eshelby tensors)" % (nhs, nother))
    c.coverage["traces_validated_against_impl"] = nag
    c.coverage["obligations"] = planned_obligations(c, [["C25Hs.v", "C25Proofs.v", "Properties_C25.v"], ["C25Schemes.v", "Properties_C25_schemes.v"]])
    c.coverage["discharged"] = sum(len(r.discharged) for r in results)
    c.notes.append("execution only (no theorem): Reuss stiffness tensor, tensorial dilute / Mori-Tanaka, ParticulateMicrostructure API (dilute, Mori-Tanaka, "
                   "self-consistent), sum f_i A_i = I, spheroidal and ellipsoidal inclusions and their Eshelby tensors")

    class Res:
        pass
    res = Res()
    res.ok = all(r.ok for r in results)
    res.failed = [f for r in results for f in r.failed]
    res.discharged = [t for r in results for t in r.discharged]
    res.theorems = [t for r in results for t in r.theorems]
    if not res.ok:
        if any(v[3] for v in c.violations):
            c.notes.append("proof obligations failed: %s; concrete failing inputs reported above" % [f[2] for f in res.failed])
        else:
            c.coq_failures(res, None)


guarded_main("C25", main)

(* C30 (second part) -- line-protocol driver around step_fn / init / bad_body / self_wait extracted from C30SigModel.v.
   stdin:  T <name> <dispatch_locked> <shared> <block_P> <block_C> <forgotten: comma separated signals or -> <term_relock>
           PB t blk | PL t | PU t | RB t k sig blk | RL t | RU t h | MB t h | ML t | MU t | DB t k | DE t
           SE t sig | HL t | HS t | HX t h | BL t | BU t | BR t | HR t
           END
   stdout: ACCEPT <name> bad=<none | body:<thread>:<handler>:<why>@<event index> | selfwait:<thread>@<event index>>
           REJECT <name> at=<i> line=<text> why=...
   After every accepted event the state is examined for the threads seen so far: a handler body running for a destroyed
   manager / through a deleted handler object, or a thread waiting for a mutex it owns (first occurrence reported). *)
open C30sig_model

let rec nat_of_int n = if n <= 0 then O else S (nat_of_int (n - 1))
let rec int_of_nat = function O -> 0 | S m -> 1 + int_of_nat m
let n s = nat_of_int (int_of_string s)
let b s = s = "1"

let event_of_line l =
  match String.split_on_char ' ' (String.trim l) with
  | ["PB"; t; k] -> Some (PBegin (n t, b k), int_of_string t)
  | ["PL"; t] -> Some (PLock (n t), int_of_string t)
  | ["PU"; t] -> Some (PUnlock (n t), int_of_string t)
  | ["RB"; t; k; sg; blk] -> Some (RegBegin (n t, n k, n sg, b blk), int_of_string t)
  | ["RL"; t] -> Some (RegLock (n t), int_of_string t)
  | ["RU"; t; h] -> Some (RegUnlock (n t, n h), int_of_string t)
  | ["MB"; t; h] -> Some (RemBegin (n t, n h), int_of_string t)
  | ["ML"; t] -> Some (RemLock (n t), int_of_string t)
  | ["MU"; t] -> Some (RemUnlock (n t), int_of_string t)
  | ["DB"; t; k] -> Some (DtorBegin (n t, n k), int_of_string t)
  | ["DE"; t] -> Some (DtorEnd (n t), int_of_string t)
  | ["SE"; t; sg] -> Some (SigEnter (n t, n sg), int_of_string t)
  | ["HL"; t] -> Some (HLockC (n t), int_of_string t)
  | ["HS"; t] -> Some (HStart (n t), int_of_string t)
  | ["HX"; t; h] -> Some (HExec (n t, n h), int_of_string t)
  | ["BL"; t] -> Some (HBodyLock (n t), int_of_string t)
  | ["BU"; t] -> Some (HBodyUnlock (n t), int_of_string t)
  | ["BR"; t] -> Some (HBodyRelock (n t), int_of_string t)
  | ["HR"; t] -> Some (HReturn (n t), int_of_string t)
  | _ -> None

let () =
  let name = ref "" and proto = ref current and st = ref (Some init) and idx = ref 0 and verdict = ref "" and bad = ref "none" in
  let finish () =
    if !name <> "" then
      (if !verdict = "" then Printf.printf "ACCEPT %s bad=%s\n" !name !bad else Printf.printf "REJECT %s %s\n" !name !verdict) in
  (try
    while true do
      let l = input_line stdin in
      match String.split_on_char ' ' (String.trim l) with
      | ["T"; nm; dl; sh; bp; bc; fg; rl] ->
          name := nm;
          let f = if fg = "-" then [] else List.map n (String.split_on_char ',' fg) in
          proto := { dispatch_locked = b dl; shared_handlers = b sh; block_P = b bp; block_C = b bc; forgotten = f; term_relock = b rl };
          st := Some init; idx := 0; verdict := ""; bad := "none"
      | ["END"] -> finish (); name := ""
      | _ ->
          (if !verdict = "" then
             match !st, (try event_of_line l with _ -> None) with
             | Some s, Some (e, t) ->
                 (match step_fn !proto s e with
                  | Some s1 ->
                      st := Some s1;
                      if !bad = "none" then begin
                        let tn = nat_of_int t in
                        if bad_body s1 tn then
                          (match running_body s1 tn with
                           | Some en ->
                               bad := Printf.sprintf "body:%d:%d:%s%s@%d" t (int_of_nat en.e_id)
                                        (if is_dead en.e_mgr s1.dead then "manager-destroyed" else "")
                                        (if mem en.e_id s1.deleted then "+handler-deleted" else "") !idx
                           | None -> ())
                        else if self_wait s1 tn then bad := Printf.sprintf "selfwait:%d@%d" t !idx
                      end
                  | None -> verdict := Printf.sprintf "at=%d line=%s why=step-not-enabled" !idx (String.trim l))
             | _, None -> verdict := Printf.sprintf "at=%d line=%s why=not-an-event" !idx (String.trim l)
             | None, _ -> ());
          incr idx
    done
  with End_of_file -> ());
  finish ()

"""C30 (second part): translation of the log of props/C30/driver.cxx into events of C30SigModel.v (handler lifetime and
lock discipline of SignalManager / ProcessManager), and the protocols the extracted acceptor is asked about."""
import struct

KINDS = ["EXEC_CALL", "EXEC_RET", "FORK", "WNOHANG_RET", "WAITPID_ENTER", "WAITPID_RET", "PLOCK", "PUNLOCK",
         "PWANT", "CWANT", "CLOCK", "CUNLOCK", "SIG_ENTER", "SIG_RETURN", "REG_CALL", "REG_RET", "REM_CALL", "REM_RET",
         "HEXEC_BEGIN", "HEXEC_END", "HEXEC_DELETED", "HEXEC_DEAD", "HDELETE", "CTOR_BEGIN", "CTOR_END", "DTOR_BEGIN", "DTOR_END",
         "SELFLOCK", "NOTE", "SIG_DEFERRED"]

# protocol flags: (dispatch_locked, shared, block_P, block_C, forgotten, term_relock)
LENIENT = {"bp": 0, "bc": 0, "fg": "7,15", "rl": 1}
STRICT = {"bp": 1, "bc": 1, "fg": "-", "rl": 0}


def proto_line(name, dl, flags):
    return "T %s %d 0 %d %d %s %d" % (name, dl, flags["bp"], flags["bc"], flags["fg"], flags["rl"])


def parse_text(out):
    evs = []
    for l in out.splitlines():
        t = l.split()
        if len(t) == 5 and t[1] in KINDS:
            evs.append((int(t[0]), t[1], int(t[2]), int(t[3]), int(t[4])))
    return evs


def parse_bin(path):
    """the mmap'ed log ($C30_LOG): survives a crash of the driver"""
    evs = []
    try:
        data = open(path, "rb").read()
    except OSError:
        return evs
    if len(data) < 32:
        return evs
    n = struct.unpack_from("q", data, 0)[0]
    for i in range(max(0, min(n, (len(data) - 32) // 32))):
        tid, kind, a, b, c = struct.unpack_from("iiqqq", data, 32 + 32 * i)
        if 0 < kind <= len(KINDS):
            evs.append((tid, KINDS[kind - 1], a, b, c))
    return evs


def translate(evs, dl):
    """-> (lines, positions, stop): model event lines, the log position of each, and why the translation stopped early
    (None | ("deleted"|"dead"|"selflock-P"|"selflock-C"|"exit"|"incomplete", log position, tid, detail))"""
    serial_id = {}
    for (tid, kind, a, b, c) in evs:
        if kind == "REG_RET":
            serial_id[c] = a
    lines, posl = [], []
    pend_reg, pend_rem, hold_p, nested, dispatching = {}, {}, {}, {}, {}
    stop = None

    def emit(pos, s):
        lines.append(s)
        posl.append(pos)

    for pos, (tid, kind, a, b, c) in enumerate(evs):
        if kind == "SELFLOCK":
            stop = ("selflock-P" if a == 0 else "selflock-C", pos, tid, b)
            break
        if nested.get(tid):
            # removeHandler called from a handler (terminateHandler, which then leaves the process): not modelled, skipped
            if kind == "REM_RET":
                nested[tid] = False
            continue
        if kind == "REG_CALL":
            pend_reg[tid] = (a, b, c)
        elif kind == "REG_RET":
            pend_reg.pop(tid, None)
        elif kind == "REM_CALL":
            if b > 0:
                nested[tid] = True
                continue
            pend_rem[tid] = a
        elif kind == "REM_RET":
            pend_rem.pop(tid, None)
        elif kind == "CWANT":
            if a == 0:
                if c == 1 and tid in pend_reg:
                    m, sg, _ = pend_reg[tid]
                    emit(pos, "RB %d %d %d %d" % (tid, m, sg, b))
                elif c == 2 and tid in pend_rem:
                    emit(pos, ("MB %d %d" if b else "MB-signals-not-blocked %d %d") % (tid, pend_rem[tid]))
                else:
                    stop = ("exit", pos, tid, 0)   # SignalManager::eraseHandlers (static destruction)
                    break
        elif kind == "CLOCK":
            if a == 0:
                emit(pos, ("RL %d" if tid in pend_reg else "ML %d") % tid)
            else:
                if dispatching.get(tid):
                    stop = ("exit", pos, tid, 0)   # a handler that leaves the process: eraseHandlers (static destruction)
                    break
                dispatching[tid] = True
                emit(pos, "HL %d" % tid)
                if dl:
                    emit(pos, "HS %d" % tid)
        elif kind == "CUNLOCK":
            if a == 0:
                if tid in pend_reg:
                    ser = pend_reg[tid][2]
                    if ser not in serial_id:
                        stop = ("incomplete", pos, tid, ser)
                        break
                    emit(pos, "RU %d %d" % (tid, serial_id[ser]))
                else:
                    emit(pos, "MU %d" % tid)
            elif not dl:
                emit(pos, "HS %d" % tid)
            else:
                emit(pos, "HR %d" % tid)   # the repaired treatAction releases the mutex when it returns
        elif kind == "PWANT":
            if a == 0:
                emit(pos, "PB %d %d" % (tid, b))
            elif hold_p.get(tid):
                emit(pos, "BR %d" % tid)
        elif kind == "PLOCK":
            if a == 0:
                emit(pos, "PL %d" % tid)
            else:
                hold_p[tid] = True
                emit(pos, "BL %d" % tid)
        elif kind == "PUNLOCK":
            if a == 0:
                emit(pos, "PU %d" % tid)
            else:
                hold_p[tid] = False
                emit(pos, "BU %d" % tid)
        elif kind == "SIG_ENTER":
            emit(pos, "SE %d %d" % (tid, a))
        elif kind == "SIG_RETURN":
            dispatching[tid] = False
            if not dl:
                emit(pos, "HR %d" % tid)
        elif kind in ("HEXEC_BEGIN", "HEXEC_DELETED", "HEXEC_DEAD"):
            if a not in serial_id:
                stop = ("incomplete", pos, tid, a)
                break
            emit(pos, "HX %d %d" % (tid, serial_id[a]))
            if kind != "HEXEC_BEGIN":
                stop = ("deleted" if kind == "HEXEC_DELETED" else "dead", pos, tid, serial_id[a])
                break
        elif kind == "DTOR_BEGIN":
            emit(pos, "DB %d %d" % (tid, a))
        elif kind == "DTOR_END":
            emit(pos, "DE %d" % tid)
        elif kind == "SELFLOCK":
            stop = ("selflock-P" if a == 0 else "selflock-C", pos, tid, b)
            break
    return lines, posl, stop


def show(evs, lo, hi):
    return ["%d: thread %d %s %d %d %d" % (i, e[0], e[1], e[2], e[3], e[4]) for i, e in enumerate(evs) if lo <= i <= hi]


def f19_crash_evidence(evs):
    """for a driver that died: -> text if the log shows a thread inside treatAction, past its copy of the handlers (it has
    released callbacksAccess in the handler and has not returned), and afterwards another thread deleting a handler that was
    registered before that copy (so the dead thread was about to call, or was running, a deleted handler / the body of a
    manager being destroyed); None otherwise"""
    copied = {}      # tid -> position of its CUNLOCK inside the handler (pinned code: the copy is complete)
    registered = {}  # serial -> position of REG_RET
    for pos, (tid, kind, a, b, c) in enumerate(evs):
        if kind == "REG_RET":
            registered[c] = pos
        elif kind == "SIG_ENTER":
            copied.pop(tid, None)
        elif kind == "CUNLOCK" and a > 0:
            copied.setdefault(tid, pos)
        elif kind == "SIG_RETURN":
            copied.pop(tid, None)
        elif kind in ("HDELETE", "DTOR_END"):
            for t, p in copied.items():
                if t != tid and (kind == "DTOR_END" or registered.get(a, len(evs)) < p):
                    return ("thread %d was inside SignalManager::treatAction, calling its copy of the handlers (made at log position %d), when thread %d %s "
                            "(log position %d); thread %d never returned from the handler" % (
                                t, p, tid, "deleted handler (serial %d)" % a if kind == "HDELETE" else "finished the destruction of manager %d" % a, pos, t))
    return None

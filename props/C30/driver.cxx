// C30 -- runs the REAL tfel::system::ProcessManager / SignalManager (compiled from /repo's working tree) on commands whose
// way of ending is known, and records every waitpid / fork they make and every use of the global mutexes
// `processesAccess` and `callbacksAccess`.
//
// No source hook: waitpid, fork, pthread_mutex_lock/unlock are redirected at link time (-Wl,--wrap=...).  The waitpid
// wrapper is also the schedule control: a blocking waitpid (the one of ProcessManager::wait) can be held back until the
// SIGCHLD handler has reaped the child and released its mutex ("handler-first": exactly the interleaving between the
// isRunning test and waitpid), or for a random time.  When the real waitpid fails, POSIX leaves the status word
// unspecified (the code passes an uninitialised int): the wrapper may store a chosen word there ("poison") so that the
// consequence is reproducible; with poison `none` the word is left as the code provided it.
//
// usage: driver --child <ms> <code | -sig>          helper used as the command: sleeps, then exits / kills itself
//        driver  (scenario on stdin)
//   threads N                              N threads, each with its own ProcessManager (all built first, destroyed last)
//   seed S
//   cmd <thread> <code|-sig> <ms> <none|handler-first|random> <none|exit0|exit3|sig9|unknown|stopped>
//   churn K                                (with threads): each command gets a fresh ProcessManager, as tfel-check does
// stdout: log lines "<tid> <KIND> <a> <b> <c>".
#include <atomic>
#include <cerrno>
#include <csignal>
#include <cstdio>
#include <cstdlib>
#include <cstring>
#include <iostream>
#include <memory>
#include <mutex>
#include <sstream>
#include <string>
#include <thread>
#include <vector>
#include <pthread.h>
#include <sys/types.h>
#include <sys/wait.h>
#include <time.h>
#include <unistd.h>
#include <fcntl.h>
#include "TFEL/System/SystemError.hxx"
#include "TFEL/System/ProcessManager.hxx"

extern std::mutex processesAccess;  // src/System/ProcessManager.cxx
extern std::mutex callbacksAccess;  // src/System/SignalManager.cxx

extern "C" {
pid_t __real_waitpid(pid_t, int*, int);
pid_t __real_fork(void);
int __real_pthread_mutex_lock(pthread_mutex_t*);
int __real_pthread_mutex_unlock(pthread_mutex_t*);
}

enum Kind { EXEC_CALL, EXEC_RET, FORK, WNOHANG_RET, WAITPID_ENTER, WAITPID_RET, PLOCK, PUNLOCK };
static const char* const kind_names[] = {"EXEC_CALL", "EXEC_RET", "FORK", "WNOHANG_RET", "WAITPID_ENTER", "WAITPID_RET",
                                         "PLOCK", "PUNLOCK"};
struct Event {
  int tid, kind;
  long a, b, c;
};
static constexpr long LOGMAX = 1L << 20;
static Event* evlog = nullptr;
static std::atomic<long> nlog{0};
static thread_local int me = 0;
static pthread_mutex_t* pmutex = nullptr;
static pthread_mutex_t* cmutex = nullptr;
static long callbacks_delay_us = 0;

// per-thread command being executed (read by the wrappers running in that thread)
struct Cur {
  int delay = 0;   // 0 none, 1 handler-first, 2 random
  int poison = 0;  // 0 none, 1 exit0, 2 exit3, 3 sig9, 4 unknown, 5 stopped
  unsigned long long rng = 88172645463325252ULL;
};
static thread_local Cur cur;
// pids reaped by a SIGCHLD handler whose mutex has been released since
static constexpr int NSLOT = 1 << 16;
static std::atomic<int> handler_reaped[NSLOT];
static std::atomic<int> handler_done[NSLOT];
static thread_local int pending_done_pid = 0;  // handler of this thread reaped that pid and still holds the mutex

static void logev(int kind, long a = 0, long b = 0, long c = 0) {
  const long i = nlog.fetch_add(1);
  if (i < LOGMAX) evlog[i] = Event{me, kind + 1, a, b, c};
}
static void sleep_us(long us) {
  if (us <= 0) return;
  timespec t{us / 1000000, (us % 1000000) * 1000};
  while (nanosleep(&t, &t) == -1 && errno == EINTR) {
  }
}
// code of a status word:  1000+c exited c | 2000+s signaled s | 3000 stopped | 4000 anything else
static long decode(int st) {
  if (WIFEXITED(st)) return 1000 + WEXITSTATUS(st);
  if (WIFSIGNALED(st)) return 2000 + WTERMSIG(st);
  if (WIFSTOPPED(st)) return 3000;
  return 4000;
}

extern "C" {
pid_t __wrap_fork(void) {
  const pid_t p = __real_fork();
  if (p > 0) {
    handler_reaped[p & (NSLOT - 1)].store(0);
    handler_done[p & (NSLOT - 1)].store(0);
    logev(FORK, p);
  }
  return p;
}
pid_t __wrap_waitpid(pid_t pid, int* status, int options) {
  const int saved = errno;
  if (options & WNOHANG) {
    errno = saved;
    const pid_t r = __real_waitpid(pid, status, options);
    const int e = errno;
    logev(WNOHANG_RET, pid, r, (r == pid && status != nullptr) ? decode(*status) : 0);
    if (r == pid && pid > 0) {
      handler_reaped[pid & (NSLOT - 1)].store(1);
      pending_done_pid = pid;
    }
    errno = e;
    return r;
  }
  logev(WAITPID_ENTER, pid);
  if (cur.delay == 1 && pid > 0) {
    // hold this call back until a SIGCHLD handler has reaped the child and released processesAccess (at most 4 s:
    // if that never happens the call simply proceeds; nothing is concluded from the delay itself)
    for (int i = 0; i < 20000 && handler_done[pid & (NSLOT - 1)].load() == 0; ++i) sleep_us(200);
  } else if (cur.delay == 2) {
    cur.rng ^= cur.rng << 13;
    cur.rng ^= cur.rng >> 7;
    cur.rng ^= cur.rng << 17;
    sleep_us(static_cast<long>((cur.rng >> 20) % 3000));
  }
  errno = saved;
  const pid_t r = __real_waitpid(pid, status, options);
  const int e = errno;
  if (r == -1 && status != nullptr) {
    switch (cur.poison) {
      case 1: *status = 0x0000; break;                // "exited with 0"
      case 2: *status = 0x0300; break;                // "exited with 3"
      case 3: *status = 0x0009; break;                // "killed by signal 9"
      case 4: *status = 0x00ff; break;                // neither exited, signaled nor stopped
      case 5: *status = 0x137f; break;                // "stopped"
      default: break;                                 // left as the caller provided it
    }
  }
  // a: pid, b: result (pid | -errno), c: decoded status word the caller will now read
  logev(WAITPID_RET, pid, r == pid ? static_cast<long>(r) : -static_cast<long>(e), status != nullptr ? decode(*status) : 0);
  errno = e;
  return r;
}
int __wrap_pthread_mutex_lock(pthread_mutex_t* m) {
  const int r = __real_pthread_mutex_lock(m);
  if (m == pmutex) logev(PLOCK);
  return r;
}
int __wrap_pthread_mutex_unlock(pthread_mutex_t* m) {
  if (m == pmutex) {
    logev(PUNLOCK);
    const int p = pending_done_pid;
    pending_done_pid = 0;
    const int r = __real_pthread_mutex_unlock(m);
    if (p > 0) handler_done[p & (NSLOT - 1)].store(1);
    return r;
  }
  const int r = __real_pthread_mutex_unlock(m);
  if (m == cmutex && callbacks_delay_us > 0) sleep_us(callbacks_delay_us);
  return r;
}
}

struct CmdSpec {
  int thread;
  int code;  // >= 0 exit code, < 0 signal
  int ms;
  int delay, poison;
};

static std::string self;

// verdict codes: 0 success | 1000+v "exited abnormally with value v" | 2000 "exited du to a signal" | 4000 other
static long run_command(tfel::system::ProcessManager& m, const CmdSpec& c, const long idx) {
  cur.delay = c.delay;
  cur.poison = c.poison;
  cur.rng = 88172645463325252ULL + static_cast<unsigned long long>(idx) * 7919ULL;
  const std::string cmd = self + " --child " + std::to_string(c.ms) + " " + std::to_string(c.code);
  logev(EXEC_CALL, idx, c.code, c.ms);
  long verdict = 0;
  try {
    m.execute(cmd);
  } catch (tfel::system::SystemError& e) {
    const std::string w = e.what();
    const auto p = w.find("exited abnormally with value ");
    if (p != std::string::npos) {
      verdict = 1000 + std::atol(w.c_str() + p + std::strlen("exited abnormally with value "));
    } else if (w.find("exited du to a signal") != std::string::npos) {
      verdict = 2000;
    } else {
      verdict = 4000;
    }
  } catch (std::exception&) {
    verdict = 4000;
  }
  logev(EXEC_RET, idx, verdict);
  cur.delay = 0;
  cur.poison = 0;
  return verdict;
}

// Diagnosis only, never a verdict by itself: the real code can deadlock (the SIGCHLD handler locks processesAccess in a
// thread that already holds it).  If the scenario has not finished after 60 s, ask gdb for the stacks of all threads
// (written to stderr) and leave with status 97.
static void* watchdog(void*) {
  timespec t{60, 0};
  while (nanosleep(&t, &t) == -1 && errno == EINTR) {
  }
  const std::string pid = std::to_string(getpid());
  const pid_t p = __real_fork();
  if (p == 0) {
    dup2(2, 1);
    execlp("gdb", "gdb", "-q", "-batch", "-p", pid.c_str(), "-ex", "thread apply all bt 16", static_cast<char*>(nullptr));
    _exit(127);
  }
  int st = 0;
  if (p > 0) __real_waitpid(p, &st, 0);
  _exit(97);
}

int main(int argc, char** argv) {
  if (argc >= 4 && std::string(argv[1]) == "--child") {
    timespec t{std::atol(argv[2]) / 1000, (std::atol(argv[2]) % 1000) * 1000000};
    nanosleep(&t, nullptr);
    const int code = std::atoi(argv[3]);
    if (code >= 0) _exit(code);
    signal(-code, SIG_DFL);
    raise(-code);
    _exit(99);
  }
  self = argv[0];
  {
    sigset_t all, old;
    sigfillset(&all);
    pthread_sigmask(SIG_BLOCK, &all, &old);  // the watchdog thread takes no signal
    pthread_t th;
    pthread_create(&th, nullptr, watchdog, nullptr);
    pthread_sigmask(SIG_SETMASK, &old, nullptr);
  }
  evlog = static_cast<Event*>(std::calloc(LOGMAX, sizeof(Event)));
  pmutex = processesAccess.native_handle();
  cmutex = callbacksAccess.native_handle();
  int nthreads = 1, churn = 0;
  std::vector<CmdSpec> cmds;
  std::string line;
  while (std::getline(std::cin, line)) {
    std::istringstream is(line);
    std::string w;
    if (!(is >> w)) continue;
    if (w == "threads") is >> nthreads;
    else if (w == "churn") is >> churn;
    else if (w == "callbacks_delay_us") is >> callbacks_delay_us;
    else if (w == "cmd") {
      CmdSpec c;
      std::string d, p;
      is >> c.thread >> c.code >> c.ms >> d >> p;
      c.delay = d == "handler-first" ? 1 : d == "random" ? 2 : 0;
      c.poison = p == "exit0" ? 1 : p == "exit3" ? 2 : p == "sig9" ? 3 : p == "unknown" ? 4 : p == "stopped" ? 5 : 0;
      cmds.push_back(c);
    }
  }
  {
    using tfel::system::ProcessManager;
    std::vector<std::unique_ptr<ProcessManager>> managers;
    if (!churn) {
      for (int i = 0; i != nthreads; ++i) {
        managers.emplace_back(new ProcessManager());
        managers.back()->stopOnSignals(false);
      }
    }
    auto work = [&](const int t) {
      me = t;
      for (size_t i = 0; i != cmds.size(); ++i) {
        if (cmds[i].thread != t) continue;
        if (churn) {
          ProcessManager m;  // as TestLauncher::execute does: one manager per command, destroyed at once
          run_command(m, cmds[i], static_cast<long>(i));
        } else {
          run_command(*managers[static_cast<size_t>(t)], cmds[i], static_cast<long>(i));
        }
      }
    };
    if (nthreads == 1) {
      work(0);
    } else {
      std::vector<std::thread> ths;
      for (int t = 0; t != nthreads; ++t) ths.emplace_back(work, t);
      for (auto& th : ths) th.join();
    }
  }
  const long n = nlog.load();
  for (long i = 0; i < n && i < LOGMAX; ++i) {
    if (evlog[i].kind <= 0) continue;
    std::printf("%d %s %ld %ld %ld\n", evlog[i].tid, kind_names[evlog[i].kind - 1], evlog[i].a, evlog[i].b, evlog[i].c);
  }
  return 0;
}

// C30 -- runs the REAL tfel::system::ProcessManager / SignalManager (compiled from /repo's working tree) on commands whose
// way of ending is known, and records every waitpid / fork they make, every use of the global mutexes
// `processesAccess` (P) and `callbacksAccess` (C), every entry into / return from the signal handler, every
// registration / removal / call / deletion of a SignalHandler and the life of every ProcessManager.
//
// No source hook: waitpid, fork, pthread_mutex_lock/unlock, sigaction and the two member functions
// SignalManager::registerHandler(int,SignalHandler*,struct sigaction&) / SignalManager::removeHandler(size_t) are
// redirected at link time (-Wl,--wrap=...).
//  * The waitpid wrapper is the schedule control of the exit-status scenarios: a blocking waitpid (the one of
//    ProcessManager::wait) can be held back until the SIGCHLD handler has reaped the child and released its mutex
//    ("handler-first"), or for a random time.  When the real waitpid fails, POSIX leaves the status word unspecified: the
//    wrapper may store a chosen word there ("poison"); with poison `none` the word is left as the code provided it.
//  * registerHandler is given a proxy of the handler (it logs the calls and forwards them; when the code deletes it, it
//    deletes the real handler and leaves a tombstone in its storage which only logs): a call of a deleted handler, or
//    of the handler of a destroyed manager, is an event of the log instead of a crash.  C30_NOPROXY=1 disables this (for
//    runs under AddressSanitizer / ThreadSanitizer, which must see the real accesses).
//  * The mutex wrappers know the owner of P and C: a thread that locks a mutex it already holds (the signal handler
//    interrupted the holder) is logged (SELFLOCK) and the process leaves with status 96 instead of hanging.
//
// usage: driver --child <ms> <code | -sig>          helper used as the command: sleeps, then exits / kills itself
//        driver  (scenario on stdin)
//   threads N                              N threads, each with its own ProcessManager (all built first, destroyed last)
//   cmd <thread> <code|-sig> <ms> <none|handler-first|random|interrupted> <none|exit0|exit3|sig9|unknown|stopped>
//   churn K                                (with threads): each command gets a fresh ProcessManager, as tfel-check does
//   storm P | storm C                      every acquisition of P (resp. C) outside a signal handler is followed by a
//                                          SIGCHLD sent to the acquiring thread
//   lifetime N                             N rounds: thread 0 is in treatAction(SIGCHLD) while thread 1 destroys its manager
//   stale                                  a manager (stopOnSignals(true)) is built and destroyed, then SIGTERM is raised
//   terminate                              SIGTERM raised while a manager has a running child
// stdout: log lines "<tid> <KIND> <a> <b> <c>" (also kept in the file $C30_LOG, which survives a crash).
#include <atomic>
#include <cerrno>
#include <csignal>
#include <cstdio>
#include <cstdlib>
#include <cstring>
#include <iostream>
#include <memory>
#include <mutex>
#include <new>
#include <sstream>
#include <string>
#include <thread>
#include <vector>
#include <pthread.h>
#include <sys/mman.h>
#include <sys/prctl.h>
#include <sys/time.h>
#include <sys/types.h>
#include <sys/wait.h>
#include <time.h>
#include <unistd.h>
#include <fcntl.h>
#include "TFEL/System/SystemError.hxx"
#include "TFEL/System/SignalHandler.hxx"
#include "TFEL/System/ProcessManager.hxx"

// the two global mutexes of src/System/ProcessManager.cxx and src/System/SignalManager.cxx (std::mutex or
// std::recursive_mutex: in both cases the object starts with the pthread_mutex_t)
extern pthread_mutex_t c30_processesAccess __asm__("processesAccess");
extern pthread_mutex_t c30_callbacksAccess __asm__("callbacksAccess");

#define REGISTER_HANDLER _ZN4tfel6system13SignalManager15registerHandlerEiPNS0_13SignalHandlerER9sigaction
#define REMOVE_HANDLER _ZN4tfel6system13SignalManager13removeHandlerEm
#define WRAP_(x) __wrap_##x
#define REAL_(x) __real_##x
#define WRAP(x) WRAP_(x)
#define REAL(x) REAL_(x)

extern "C" {
pid_t __real_waitpid(pid_t, int*, int);
pid_t __real_fork(void);
int __real_pthread_mutex_lock(pthread_mutex_t*);
int __real_pthread_mutex_unlock(pthread_mutex_t*);
int __real_sigaction(int, const struct sigaction*, struct sigaction*);
std::size_t REAL(REGISTER_HANDLER)(void*, int, tfel::system::SignalHandler*, struct sigaction*);
void REAL(REMOVE_HANDLER)(void*, std::size_t);
}

enum Kind {
  EXEC_CALL, EXEC_RET, FORK, WNOHANG_RET, WAITPID_ENTER, WAITPID_RET, PLOCK, PUNLOCK,
  PWANT, CWANT, CLOCK, CUNLOCK, SIG_ENTER, SIG_RETURN, REG_CALL, REG_RET, REM_CALL, REM_RET,
  HEXEC_BEGIN, HEXEC_END, HEXEC_DELETED, HEXEC_DEAD, HDELETE, CTOR_BEGIN, CTOR_END, DTOR_BEGIN, DTOR_END,
  SELFLOCK, NOTE, SIG_DEFERRED
};
static const char* const kind_names[] = {
    "EXEC_CALL", "EXEC_RET", "FORK", "WNOHANG_RET", "WAITPID_ENTER", "WAITPID_RET", "PLOCK", "PUNLOCK",
    "PWANT", "CWANT", "CLOCK", "CUNLOCK", "SIG_ENTER", "SIG_RETURN", "REG_CALL", "REG_RET", "REM_CALL", "REM_RET",
    "HEXEC_BEGIN", "HEXEC_END", "HEXEC_DELETED", "HEXEC_DEAD", "HDELETE", "CTOR_BEGIN", "CTOR_END", "DTOR_BEGIN", "DTOR_END",
    "SELFLOCK", "NOTE", "SIG_DEFERRED"};
struct Event {
  int tid, kind;
  long a, b, c;
};
static constexpr long LOGMAX = 1L << 20;
struct Log {
  std::atomic<long> n;
  long pad[3];
  Event ev[LOGMAX];
};
static Log* evlog = nullptr;
static thread_local int me = 0;
static thread_local int hdepth = 0;          // > 0: this thread is inside the signal handler
static thread_local int in_reg = 0;          // inside SignalManager::registerHandler
static thread_local int in_rem = 0;          // inside SignalManager::removeHandler
static thread_local int cur_mgr = -1;        // manager being built by this thread
static pthread_mutex_t* const pmutex = &c30_processesAccess;
static pthread_mutex_t* const cmutex = &c30_callbacksAccess;
static long callbacks_delay_us = 0;
static bool noproxy = false;
static int storm = 0;                        // 1: P, 2: C
static std::atomic<bool> dumped{false};

// per-thread command being executed (read by the wrappers running in that thread)
struct Cur {
  int delay = 0;   // 0 none, 1 handler-first, 2 random, 3 interrupted once
  int poison = 0;  // 0 none, 1 exit0, 2 exit3, 3 sig9, 4 unknown, 5 stopped
  unsigned long long rng = 88172645463325252ULL;
};
static thread_local Cur cur;
// pids reaped by a SIGCHLD handler whose mutex has been released since
static constexpr int NSLOT = 1 << 16;
static std::atomic<int> handler_reaped[NSLOT];
static std::atomic<int> handler_done[NSLOT];
static thread_local int pending_done_pid = 0;  // handler of this thread reaped that pid and still holds the mutex

static void logev(int kind, long a = 0, long b = 0, long c = 0) {
  const long i = evlog->n.fetch_add(1);
  if (i < LOGMAX) evlog->ev[i] = Event{me, kind + 1, a, b, c};
}
static void dump_log() {
  if (dumped.exchange(true)) return;
  const long n = evlog->n.load();
  for (long i = 0; i < n && i < LOGMAX; ++i) {
    const Event& e = evlog->ev[i];
    if (e.kind <= 0) continue;
    std::printf("%d %s %ld %ld %ld\n", e.tid, kind_names[e.kind - 1], e.a, e.b, e.c);
  }
  std::fflush(stdout);
}
static void sleep_us(long us) {
  if (us <= 0) return;
  timespec t{us / 1000000, (us % 1000000) * 1000};
  while (nanosleep(&t, &t) == -1 && errno == EINTR) {
  }
}
// code of a status word:  1000+c exited c | 2000+s signaled s | 3000 stopped | 4000 anything else
static long decode(int st) {
  if (WIFEXITED(st)) return 1000 + WEXITSTATUS(st);
  if (WIFSIGNALED(st)) return 2000 + WTERMSIG(st);
  if (WIFSTOPPED(st)) return 3000;
  return 4000;
}

// ---------------------------------------------------------------- memory allocation and signals
// treatAction and the handlers allocate memory (copy of a std::map, std::map::erase, ...), which is not async-signal-safe:
// a SIGCHLD delivered while its thread is inside malloc/free makes the handler wait for the arena lock held by the code it
// interrupted.  That hazard of the real code (met: see NOTES.md, F24) is outside the model; so that it cannot hang a run of
// the harness, a SIGCHLD that arrives while the thread is inside malloc/free/... is counted, not treated, and sent
// again to the same thread as soon as the allocation function returns.
static thread_local int alloc_depth = 0;
static thread_local bool sigchld_deferred = false;
static inline void alloc_enter() { ++alloc_depth; }
static inline void alloc_leave() {
  if (--alloc_depth == 0 && sigchld_deferred) {
    sigchld_deferred = false;
    pthread_kill(pthread_self(), SIGCHLD);
  }
}
#ifndef C30_NO_MALLOC_WRAP
// the whole malloc family of the process goes through here (the definitions of an executable take precedence over libc's)
extern "C" {
void* __libc_malloc(size_t);
void __libc_free(void*);
void* __libc_calloc(size_t, size_t);
void* __libc_realloc(void*, size_t);
void* __libc_memalign(size_t, size_t);
void* malloc(size_t n) {
  alloc_enter();
  void* const p = __libc_malloc(n);
  alloc_leave();
  return p;
}
void free(void* p) {
  alloc_enter();
  __libc_free(p);
  alloc_leave();
}
void* calloc(size_t a, size_t b) {
  alloc_enter();
  void* const p = __libc_calloc(a, b);
  alloc_leave();
  return p;
}
void* realloc(void* q, size_t n) {
  alloc_enter();
  void* const p = __libc_realloc(q, n);
  alloc_leave();
  return p;
}
void* memalign(size_t a, size_t n) {
  alloc_enter();
  void* const p = __libc_memalign(a, n);
  alloc_leave();
  return p;
}
void* aligned_alloc(size_t a, size_t n) { return memalign(a, n); }
int posix_memalign(void** r, size_t a, size_t n) {
  void* const p = memalign(a, n);
  if (p == nullptr) return ENOMEM;
  *r = p;
  return 0;
}
}
#endif

// ---------------------------------------------------------------- managers and handlers
static constexpr int NMGR = 1 << 14;
static std::atomic<int> mgr_dead[NMGR];
static std::atomic<int> next_mgr{0};

static constexpr int NPROXY = 1 << 17;
struct Slot {
  int serial;
  alignas(16) unsigned char storage[64];
};
static Slot* slots = nullptr;
static std::atomic<int> next_serial{0};

struct Tombstone final : public tfel::system::SignalHandler {
  explicit Tombstone(const int s) : serial(s) {}
  void execute(const int) override { logev(HEXEC_DELETED, serial); }
  ~Tombstone() override = default;
  static void operator delete(void*) {}
  int serial;
};
struct Proxy final : public tfel::system::SignalHandler {
  Proxy(tfel::system::SignalHandler* const o, const int s, const int m) : orig(o), serial(s), mgr(m) {}
  void execute(const int sig) override {
    if (mgr >= 0 && mgr_dead[mgr].load() != 0) {
      // the manager this handler refers to has been destroyed: its body is not run
      logev(HEXEC_DEAD, serial, mgr);
      return;
    }
    logev(HEXEC_BEGIN, serial, mgr);
    orig->execute(sig);
    logev(HEXEC_END, serial, mgr);
  }
  ~Proxy() override {
    logev(HDELETE, serial);
    delete orig;
  }
  // the storage is kept: a tombstone takes the place of the deleted proxy
  static void operator delete(void* p) {
    Slot* const s = reinterpret_cast<Slot*>(static_cast<unsigned char*>(p) - offsetof(Slot, storage));
    new (p) Tombstone(s->serial);
  }
  tfel::system::SignalHandler* orig;
  int serial, mgr;
};
static_assert(sizeof(Proxy) <= 64 && sizeof(Tombstone) <= 64, "slot too small");

// ---------------------------------------------------------------- forced schedule of the `lifetime` scenario
static std::atomic<int> life_active{0};   // a round is running
static std::atomic<int> cp_used{0};       // the control point of this round has been taken
static std::atomic<int> cp_reached{0};    // thread 0 is inside treatAction, at the control point
static std::atomic<int> cp_done{0};       // thread 1 has destroyed its manager
static std::atomic<int> b_in_remove{0};   // thread 1 has entered removeHandler
static void control_point(const bool holding_callbacks_mutex) {
  if (life_active.load() == 0 || me != 0 || hdepth == 0 || cp_used.exchange(1) != 0) return;
  cp_reached.store(1);
  if (!holding_callbacks_mutex) {
    // the handlers have been copied and the mutex released: let thread 1 destroy its manager now (at most 2 s)
    for (int i = 0; i < 10000 && cp_done.load() == 0; ++i) sleep_us(200);
  } else {
    // the mutex is held: thread 1 can only start removing its handler; give it the time to try (at most 100 ms)
    for (int i = 0; i < 500 && cp_done.load() == 0 && b_in_remove.load() == 0; ++i) sleep_us(200);
    if (cp_done.load() == 0) sleep_us(500);
  }
}

static std::atomic<int> p_owner{-1}, c_owner{-1};
static std::atomic<int> p_owner_depth{0}, c_owner_depth{0}, c_count{0};

[[noreturn]] static void self_lock(const int which) {
  logev(SELFLOCK, which, hdepth);
  dump_log();
  _exit(96);
}

extern "C" {
pid_t __wrap_fork(void) {
  const pid_t parent = getpid();
  const pid_t p = __real_fork();
  if (p == 0) {
    // a child must not outlive the driver (which may leave at once when it detects a self-lock)
    prctl(PR_SET_PDEATHSIG, SIGKILL);
    if (getppid() != parent) _exit(125);
  }
  if (p > 0) {
    handler_reaped[p & (NSLOT - 1)].store(0);
    handler_done[p & (NSLOT - 1)].store(0);
    logev(FORK, p);
  }
  return p;
}
pid_t __wrap_waitpid(pid_t pid, int* status, int options) {
  const int saved = errno;
  if (options & WNOHANG) {
    errno = saved;
    const pid_t r = __real_waitpid(pid, status, options);
    const int e = errno;
    logev(WNOHANG_RET, pid, r, (r > 0 && status != nullptr) ? decode(*status) : 0);
    if (r == pid && pid > 0) {
      handler_reaped[pid & (NSLOT - 1)].store(1);
      pending_done_pid = pid;
    }
    errno = e;
    return r;
  }
  logev(WAITPID_ENTER, pid);
  if (cur.delay == 1 && pid > 0) {
    // hold this call back until a SIGCHLD handler has reaped the child and released processesAccess (at most 4 s:
    // if that never happens the call simply proceeds; nothing is concluded from the delay itself)
    for (int i = 0; i < 20000 && handler_done[pid & (NSLOT - 1)].load() == 0; ++i) sleep_us(200);
  } else if (cur.delay == 3) {
    // "a signal interrupts this call once" (EINTR: the handlers are installed without SA_RESTART): SIGALRM in 30 ms
    itimerval tv{{0, 0}, {0, 30000}};
    setitimer(ITIMER_REAL, &tv, nullptr);
  } else if (cur.delay == 2) {
    cur.rng ^= cur.rng << 13;
    cur.rng ^= cur.rng >> 7;
    cur.rng ^= cur.rng << 17;
    sleep_us(static_cast<long>((cur.rng >> 20) % 3000));
  }
  errno = saved;
  const pid_t r = __real_waitpid(pid, status, options);
  const int e = errno;
  if (r == -1 && status != nullptr) {
    switch (cur.poison) {
      case 1: *status = 0x0000; break;                // "exited with 0"
      case 2: *status = 0x0300; break;                // "exited with 3"
      case 3: *status = 0x0009; break;                // "killed by signal 9"
      case 4: *status = 0x00ff; break;                // neither exited, signaled nor stopped
      case 5: *status = 0x137f; break;                // "stopped"
      default: break;                                 // left as the caller provided it
    }
  }
  // a: pid, b: result (pid | -errno), c: decoded status word the caller will now read
  logev(WAITPID_RET, pid, r == pid ? static_cast<long>(r) : -static_cast<long>(e), status != nullptr ? decode(*status) : 0);
  errno = e;
  return r;
}

// Signals are blocked while the wrapper does [acquire; note the owner; log] and [log; forget the owner; release], so that a
// signal handler interrupting this thread sees an owner that is exactly the truth.
int __wrap_pthread_mutex_lock(pthread_mutex_t* m) {
  if (evlog == nullptr || (m != pmutex && m != cmutex)) return __real_pthread_mutex_lock(m);
  const int saved = errno;
  sigset_t all, old;
  sigfillset(&all);
  pthread_sigmask(SIG_BLOCK, &all, &old);
  const long blk = sigismember(&old, SIGCHLD) ? 1 : 0;
  int r = 0;
  if (m == pmutex) {
    logev(PWANT, hdepth, blk);
    if (p_owner.load() == me) self_lock(0);
    pthread_sigmask(SIG_SETMASK, &old, nullptr);
    control_point(true);
    pthread_sigmask(SIG_BLOCK, &all, nullptr);
    r = __real_pthread_mutex_lock(m);
    p_owner.store(me);
    p_owner_depth.store(hdepth);
    logev(PLOCK, hdepth, blk);
  } else {
    logev(CWANT, hdepth, blk, in_reg ? 1 : (in_rem ? 2 : 0));
    const bool recursive = (m->__data.__kind & 127) == PTHREAD_MUTEX_RECURSIVE_NP;
    if (c_owner.load() == me && !(recursive && c_owner_depth.load() == hdepth)) self_lock(1);
    r = __real_pthread_mutex_lock(m);
    if (c_count.fetch_add(1) == 0) {
      c_owner.store(me);
      c_owner_depth.store(hdepth);
    }
    logev(CLOCK, hdepth, blk, c_count.load());
  }
  pthread_sigmask(SIG_SETMASK, &old, nullptr);
  if (hdepth == 0 && ((storm == 1 && m == pmutex) || (storm == 2 && m == cmutex))) {
    // "a SIGCHLD is delivered to this thread now" (it stays pending if the code has blocked the signals)
    pthread_kill(pthread_self(), SIGCHLD);
  }
  errno = saved;
  return r;
}
int __wrap_pthread_mutex_unlock(pthread_mutex_t* m) {
  if (evlog == nullptr || (m != pmutex && m != cmutex)) return __real_pthread_mutex_unlock(m);
  const int saved = errno;
  sigset_t all, old;
  sigfillset(&all);
  pthread_sigmask(SIG_BLOCK, &all, &old);
  int r = 0;
  if (m == pmutex) {
    logev(PUNLOCK, hdepth);
    const int p = pending_done_pid;
    pending_done_pid = 0;
    p_owner.store(-1);
    r = __real_pthread_mutex_unlock(m);
    if (p > 0) handler_done[p & (NSLOT - 1)].store(1);
    pthread_sigmask(SIG_SETMASK, &old, nullptr);
  } else {
    logev(CUNLOCK, hdepth, 0, c_count.load());
    const bool last = c_count.fetch_sub(1) == 1;
    if (last) c_owner.store(-1);
    r = __real_pthread_mutex_unlock(m);
    pthread_sigmask(SIG_SETMASK, &old, nullptr);
    if (last) {
      control_point(false);
      if (callbacks_delay_us > 0) sleep_us(callbacks_delay_us);
    }
  }
  errno = saved;
  return r;
}

// the signal handler installed by the code (SignalManager::treatAction) is called through this one
static void (*real_handler[65])(int);
static void trampoline(int sig) {
  const int saved = errno;
  if (sig == SIGCHLD && alloc_depth > 0 && hdepth == 0) {
    sigchld_deferred = true;
    logev(SIG_DEFERRED, sig);
    errno = saved;
    return;
  }
  ++hdepth;
  logev(SIG_ENTER, sig);
  if (sig >= 0 && sig < 65 && real_handler[sig] != nullptr) real_handler[sig](sig);
  logev(SIG_RETURN, sig);
  --hdepth;
  errno = saved;
}
int __wrap_sigaction(int sig, const struct sigaction* act, struct sigaction* old) {
  if (act == nullptr || sig < 0 || sig >= 65 || (act->sa_flags & SA_SIGINFO) || act->sa_handler == SIG_DFL ||
      act->sa_handler == SIG_IGN) {
    return __real_sigaction(sig, act, old);
  }
  struct sigaction a = *act;
  real_handler[sig] = act->sa_handler;
  a.sa_handler = trampoline;
  return __real_sigaction(sig, &a, old);
}

std::size_t WRAP(REGISTER_HANDLER)(void* self, int sig, tfel::system::SignalHandler* f, struct sigaction* action) {
  const int serial = next_serial.fetch_add(1);
  tfel::system::SignalHandler* h = f;
  if (!noproxy && serial < NPROXY) {
    slots[serial].serial = serial;
    h = new (slots[serial].storage) Proxy(f, serial, cur_mgr);
  }
  logev(REG_CALL, cur_mgr, sig, serial);
  ++in_reg;
  const std::size_t id = REAL(REGISTER_HANDLER)(self, sig, h, action);
  --in_reg;
  logev(REG_RET, static_cast<long>(id), cur_mgr, serial);
  return id;
}
void WRAP(REMOVE_HANDLER)(void* self, std::size_t id) {
  logev(REM_CALL, static_cast<long>(id), hdepth);
  if (life_active.load() != 0 && me == 1) b_in_remove.store(1);
  ++in_rem;
  REAL(REMOVE_HANDLER)(self, id);
  --in_rem;
  logev(REM_RET, static_cast<long>(id), hdepth);
}
}

struct CmdSpec {
  int thread;
  int code;  // >= 0 exit code, < 0 signal
  int ms;
  int delay, poison;
};

static std::string self;

// verdict codes: 0 success | 1000+v "exited abnormally with value v" | 2000 "exited du to a signal" | 4000 other
static long run_command(tfel::system::ProcessManager& m, const CmdSpec& c, const long idx) {
  cur.delay = c.delay;
  cur.poison = c.poison;
  cur.rng = 88172645463325252ULL + static_cast<unsigned long long>(idx) * 7919ULL;
  const std::string cmd = self + " --child " + std::to_string(c.ms) + " " + std::to_string(c.code);
  logev(EXEC_CALL, idx, c.code, c.ms);
  long verdict = 0;
  try {
    m.execute(cmd);
  } catch (tfel::system::SystemError& e) {
    const std::string w = e.what();
    const auto p = w.find("exited abnormally with value ");
    if (p != std::string::npos) {
      verdict = 1000 + std::atol(w.c_str() + p + std::strlen("exited abnormally with value "));
    } else if (w.find("exited du to a signal") != std::string::npos) {
      verdict = 2000;
    } else {
      verdict = 4000;
    }
  } catch (std::exception&) {
    verdict = 4000;
  }
  logev(EXEC_RET, idx, verdict);
  cur.delay = 0;
  cur.poison = 0;
  return verdict;
}

// a ProcessManager whose life is logged; the storage outlives the object
struct Managed {
  explicit Managed(const bool stop_on_signals) : k(next_mgr.fetch_add(1)) {
    using tfel::system::ProcessManager;
    mem = std::malloc(sizeof(ProcessManager));
    cur_mgr = k;
    logev(CTOR_BEGIN, k);
    m = new (mem) ProcessManager();
    if (!stop_on_signals) m->stopOnSignals(false);
    logev(CTOR_END, k);
    cur_mgr = -1;
  }
  void destroy() {
    using tfel::system::ProcessManager;
    if (m == nullptr) return;
    logev(DTOR_BEGIN, k);
    m->~ProcessManager();
    logev(DTOR_END, k);
    if (k < NMGR) mgr_dead[k].store(1);
    m = nullptr;
  }
  ~Managed() { destroy(); }
  Managed(const Managed&) = delete;
  Managed& operator=(const Managed&) = delete;
  tfel::system::ProcessManager* m = nullptr;
  void* mem = nullptr;  // never given back: a body running for a destroyed manager reads stale, but mapped, memory
  int k;
};

// Diagnosis only, never a verdict by itself: if the scenario has not finished after 60 s, ask gdb for the stacks of all
// threads (written to stderr), print the log and leave with status 97.
static void* watchdog(void*) {
  timespec t{60, 0};
  while (nanosleep(&t, &t) == -1 && errno == EINTR) {
  }
  const std::string pid = std::to_string(getpid());
  const pid_t p = __real_fork();
  if (p == 0) {
    dup2(2, 1);
    execlp("gdb", "gdb", "-q", "-batch", "-p", pid.c_str(), "-ex", "thread apply all bt 16", static_cast<char*>(nullptr));
    _exit(127);
  }
  int st = 0;
  for (int i = 0; p > 0 && i < 300 && __real_waitpid(p, &st, WNOHANG) == 0; ++i) sleep_us(100000);  // at most 30 s for gdb
  if (p > 0) kill(p, SIGKILL);
  dump_log();
  _exit(97);
}

static void wait_for(std::atomic<int>& f, const int v) {
  while (f.load() != v) sleep_us(100);
}

int main(int argc, char** argv) {
  if (argc >= 4 && std::string(argv[1]) == "--child") {
    timespec t{std::atol(argv[2]) / 1000, (std::atol(argv[2]) % 1000) * 1000000};
    nanosleep(&t, nullptr);
    const int code = std::atoi(argv[3]);
    if (code >= 0) _exit(code);
    signal(-code, SIG_DFL);
    raise(-code);
    _exit(99);
  }
  self = argv[0];
  noproxy = std::getenv("C30_NOPROXY") != nullptr;
  {
    void* mem = MAP_FAILED;
    if (const char* f = std::getenv("C30_LOG")) {
      const int fd = open(f, O_RDWR | O_CREAT | O_TRUNC, 0644);
      if (fd >= 0 && ftruncate(fd, sizeof(Log)) == 0) mem = mmap(nullptr, sizeof(Log), PROT_READ | PROT_WRITE, MAP_SHARED, fd, 0);
      if (fd >= 0) close(fd);
    }
    if (mem == MAP_FAILED) mem = mmap(nullptr, sizeof(Log), PROT_READ | PROT_WRITE, MAP_PRIVATE | MAP_ANONYMOUS, -1, 0);
    if (mem == MAP_FAILED) return 98;
    evlog = static_cast<Log*>(mem);
    evlog->n.store(0);
    slots = static_cast<Slot*>(mmap(nullptr, sizeof(Slot) * NPROXY, PROT_READ | PROT_WRITE, MAP_PRIVATE | MAP_ANONYMOUS, -1, 0));
    if (slots == MAP_FAILED) return 98;
  }
  std::atexit(dump_log);
  {
    struct sigaction sa;
    std::memset(&sa, 0, sizeof(sa));
    sa.sa_handler = [](int) {};  // SIGALRM only interrupts the system call in progress (scenarios `interrupted`)
    sigemptyset(&sa.sa_mask);
    __real_sigaction(SIGALRM, &sa, nullptr);
  }
  {
    sigset_t all, old;
    sigfillset(&all);
    pthread_sigmask(SIG_BLOCK, &all, &old);  // the watchdog thread takes no signal
    pthread_t th;
    pthread_create(&th, nullptr, watchdog, nullptr);
    pthread_sigmask(SIG_SETMASK, &old, nullptr);
  }
  int nthreads = 1, churn = 0, lifetime = 0;
  bool stale = false, terminate = false;
  std::vector<CmdSpec> cmds;
  std::string line;
  while (std::getline(std::cin, line)) {
    std::istringstream is(line);
    std::string w;
    if (!(is >> w)) continue;
    if (w == "threads") is >> nthreads;
    else if (w == "churn") is >> churn;
    else if (w == "callbacks_delay_us") is >> callbacks_delay_us;
    else if (w == "lifetime") is >> lifetime;
    else if (w == "stale") stale = true;
    else if (w == "terminate") terminate = true;
    else if (w == "storm") {
      std::string x;
      is >> x;
      storm = x == "P" ? 1 : x == "C" ? 2 : 0;
    } else if (w == "cmd") {
      CmdSpec c;
      std::string d, p;
      is >> c.thread >> c.code >> c.ms >> d >> p;
      c.delay = d == "handler-first" ? 1 : d == "random" ? 2 : d == "interrupted" ? 3 : 0;
      c.poison = p == "exit0" ? 1 : p == "exit3" ? 2 : p == "sig9" ? 3 : p == "unknown" ? 4 : p == "stopped" ? 5 : 0;
      cmds.push_back(c);
    }
  }
  using tfel::system::ProcessManager;
  if (lifetime > 0) {
    // thread 0 (this one) takes the SIGCHLD signals; thread 1 has them blocked
    std::atomic<int> phase{0};  // 0: idle, 1: thread 1 builds its manager, 2: built, 3: leave
    std::thread other([&] {
      me = 1;
      sigset_t s;
      sigemptyset(&s);
      sigaddset(&s, SIGCHLD);
      pthread_sigmask(SIG_BLOCK, &s, nullptr);
      for (;;) {
        while (phase.load() == 0 || phase.load() == 2) sleep_us(100);
        if (phase.load() == 3) return;
        Managed b(false);
        phase.store(2);
        wait_for(cp_reached, 1);  // thread 0 is inside treatAction
        b.destroy();
        cp_done.store(1);
        while (life_active.load() != 0) sleep_us(100);
      }
    });
    for (int r = 0; r != lifetime; ++r) {
      Managed a(false);
      cp_used.store(0);
      cp_reached.store(0);
      cp_done.store(0);
      b_in_remove.store(0);
      phase.store(1);
      wait_for(phase, 2);
      life_active.store(1);
      pthread_kill(pthread_self(), SIGCHLD);  // "a SIGCHLD is delivered to thread 0 now"
      cp_reached.store(1);                    // (if the handler did not reach a control point)
      wait_for(cp_done, 1);
      phase.store(0);
      life_active.store(0);
      a.destroy();
    }
    phase.store(3);
    other.join();
  }
  if (stale) {
    {
      Managed m(true);
    }
    pthread_kill(pthread_self(), SIGTERM);  // nobody should be listening any more
    logev(NOTE, 1);                         // still alive
  }
  if (terminate) {
    Managed m(true);
    const auto pid = m.m->createProcess(self + " --child 3000 0", "", "");
    logev(NOTE, 2, pid);
    pthread_kill(pthread_self(), SIGTERM);  // ProcessManager::terminateHandler: kills the child, std::exit(EXIT_FAILURE)
    logev(NOTE, 3);                         // not reached
  }
  if (!cmds.empty()) {
    std::vector<std::unique_ptr<Managed>> managers;
    if (!churn) {
      for (int i = 0; i != nthreads; ++i) managers.emplace_back(new Managed(false));
    }
    auto work = [&](const int t) {
      me = nthreads == 1 ? 0 : t + 1;
      for (size_t i = 0; i != cmds.size(); ++i) {
        if (cmds[i].thread != t) continue;
        if (churn) {
          Managed m(false);  // as TestLauncher::execute does: one manager per command, destroyed at once
          run_command(*m.m, cmds[i], static_cast<long>(i));
        } else {
          run_command(*managers[static_cast<size_t>(t)]->m, cmds[i], static_cast<long>(i));
        }
      }
    };
    if (nthreads == 1) {
      work(0);
    } else {
      // this thread only creates and joins the workers: it takes no signal meanwhile (pthread_create allocates memory)
      sigset_t all, old;
      sigfillset(&all);
      pthread_sigmask(SIG_BLOCK, &all, &old);
      std::vector<std::thread> ths;
      for (int t = 0; t != nthreads; ++t) {
        ths.emplace_back([&work, &old, t] {
          me = t + 1;  // before any signal can be taken by this thread
          pthread_sigmask(SIG_SETMASK, &old, nullptr);
          work(t);
          sigset_t every;
          sigfillset(&every);
          pthread_sigmask(SIG_BLOCK, &every, nullptr);  // the end of a thread frees memory inside libc
        });
      }
      for (auto& th : ths) th.join();
      pthread_sigmask(SIG_SETMASK, &old, nullptr);
    }
    me = 0;
    storm = 0;
  }
  dump_log();
  return 0;
}

(* C30 (second part) -- proofs about C30SigModel.v: the executable step function is the step relation; invariant of the
   lock discipline (any protocol whose sections of MP / MC outside handlers have the signals blocked); invariant of the
   handler lifetime (any protocol that calls the handlers with MC held and whose destructor removes all its handlers);
   concrete schedules refuting both for the pinned code and for the variants that were considered. *)
From Coq Require Import List Arith Bool Lia.
From C30 Require Import C30SigModel.
Import ListNotations.


Ltac break_hyp H :=
  repeat match type of H with
         | (match ?x with _ => _ end) = _ => destruct x eqn:?; try discriminate H
         | (if ?x then _ else _) = _ => destruct x eqn:?; try discriminate H
         end.

Ltac boolprep :=
  repeat match goal with
         | H : _ && _ = true |- _ => apply andb_true_iff in H; destruct H
         | H : negb _ = true |- _ => apply negb_true_iff in H
         | H : Nat.eqb _ _ = true |- _ => apply Nat.eqb_eq in H; subst
         | H : is_none ?o = true |- _ => destruct o eqn:?; [discriminate H|clear H]
         end.

Lemma step_fn_sound : forall p s e s', step_fn p s e = Some s' -> step p s e s'.
Proof.
  intros p s e s' H. destruct e; simpl in H; break_hyp H; inversion H; subst; clear H; boolprep;
    try (econstructor; eauto; fail).
Qed.

Lemma step_fn_complete : forall p s e s', step p s e s' -> step_fn p s e = Some s'.
Proof.
  intros p s e s' H. inversion H; subst; clear H; simpl;
    repeat match goal with H : _ = _ |- _ => rewrite H end; simpl; rewrite ?Nat.eqb_refl; try reflexivity.
Qed.

Lemma run_sound : forall p tr s s', run p s tr = Some s' -> steps p s tr s'.
Proof.
  induction tr as [|e r IH]; intros s s' H; simpl in H.
  - inversion H; constructor.
  - destruct (step_fn p s e) as [s1|] eqn:E; [|discriminate]. econstructor; [apply step_fn_sound; exact E | apply IH; exact H].
Qed.
Lemma run_complete : forall p s tr s', steps p s tr s' -> run p s tr = Some s'.
Proof. induction 1; simpl; [reflexivity|]. rewrite (step_fn_complete _ _ _ _ H). exact IHsteps. Qed.
Lemma accepts_sound : forall p tr, accepts p tr = true -> exists s, steps p init tr s.
Proof.
  intros p tr H; unfold accepts in H. destruct (run p init tr) as [s|] eqn:E; [|discriminate].
  exists s; apply run_sound; exact E.
Qed.
Lemma accepts_complete : forall p tr s, steps p init tr s -> accepts p tr = true.
Proof. intros p tr s H; unfold accepts; rewrite (run_complete _ _ _ _ H); reflexivity. Qed.


Definition holdsP_base (b : bpc) : bool := match b with BPHold _ => true | _ => false end.
Definition holdsC_base (b : bpc) : bool := match b with BRegHold _ _ _ | BRemHold _ _ => true | _ => false end.
Definition holdsP_hnd (h : option hpc) : bool :=
  match h with Some (HBodyHoldP _ _) | Some (HBodyRewantP _ _) => true | _ => false end.
Definition holdsC_hnd (p : proto) (h : option hpc) : bool :=
  match h with
  | Some (HCopied _) => true
  | Some (HLoop _) | Some (HBodyWantP _ _) | Some (HBodyHoldP _ _) | Some (HBodyRewantP _ _) => dispatch_locked p
  | _ => false
  end.
Definition blk_ok (p : proto) (b : bpc) : Prop :=
  match b with
  | BPWant blk | BPHold blk => block_P p = true -> blk = true
  | BRegWant _ _ blk | BRegHold _ _ blk => block_C p = true -> blk = true
  | _ => True
  end.

Record LInv (p : proto) (s : state) : Prop := {
  l_unblocked : forall t, hnd s t <> None -> blocked (base s t) = false;
  l_blk : forall t, blk_ok p (base s t);
  l_ownP : forall t, ownP s = Some t -> holdsP_base (base s t) = true \/ holdsP_hnd (hnd s t) = true;
  l_ownC : forall t, ownC s = Some t -> holdsC_base (base s t) = true \/ holdsC_hnd p (hnd s t) = true;
  l_norelock : forall t e r, hnd s t = Some (HBodyRewantP e r) -> term_relock p = true }.

Lemma linv_init : forall p, LInv p init.
Proof. intro p; constructor; simpl; intros; try discriminate; try congruence; auto. Qed.

Ltac upd_cases :=
  repeat match goal with
         | |- context [upd _ ?t _ ?x] => unfold upd; destruct (Nat.eqb_spec x t); subst
         | H : context [upd _ ?t _ ?x] |- _ => unfold upd in H; destruct (Nat.eqb_spec x t); subst
         end.

Ltac use_linv I x :=
  pose proof (l_unblocked _ _ I x); pose proof (l_blk _ _ I x); pose proof (l_ownP _ _ I x); pose proof (l_ownC _ _ I x);
  pose proof (l_norelock _ _ I x).

Ltac rw_known :=
  repeat match goal with
         | H : hnd ?s ?t = _, H' : context [hnd ?s ?t] |- _ => rewrite H in H'
         | H : base ?s ?t = _, H' : context [base ?s ?t] |- _ => rewrite H in H'
         | H : hnd ?s ?t = _ |- context [hnd ?s ?t] => rewrite H
         | H : base ?s ?t = _ |- context [base ?s ?t] => rewrite H
         | H : ownP ?s = _, H' : context [ownP ?s] |- _ => rewrite H in H'
         | H : ownC ?s = _, H' : context [ownC ?s] |- _ => rewrite H in H'
         end.

Ltac fin := simpl in *; unfold blk_ok in *; simpl in *;
            try (intuition (try discriminate; try congruence; auto); fail).

Lemma step_linv : forall p s e s', step p s e s' -> LInv p s -> LInv p s'.
Proof.
  intros p s e s' H I. inversion H; subst; clear H.
  all: constructor; simpl; intros x; try intros Hx.
  all: use_linv I x; use_linv I t.
  all: upd_cases; rw_known; fin.
  all: try match goal with H : implb ?a ?b = true |- _ => destruct a eqn:?, b eqn:?; simpl in H; try discriminate H end; fin.
  all: try match goal with |- context [after_rem ?d] => destruct d end; fin.
  all: destruct (dispatch_locked p) eqn:?; fin.
  all: intros; try discriminate; try congruence; eauto.
Qed.

Lemma steps_linv : forall p s tr s', steps p s tr s' -> LInv p s -> LInv p s'.
Proof. induction 1; intro I; [exact I|]. apply IHsteps, (step_linv _ _ _ _ H I). Qed.

Lemma linv_no_self_wait : forall p s, block_P p = true -> block_C p = true -> term_relock p = false -> LInv p s ->
  forall t x, waits s t = Some x -> owner s x <> Some t.
Proof.
  intros p s BP BC TR I t x W O.
  assert (forall e r, hnd s t <> Some (HBodyRewantP e r)) as NR.
  { intros e r K. rewrite (l_norelock _ _ I t e r K) in TR. discriminate TR. }
  pose proof (l_unblocked _ _ I t) as U. pose proof (l_blk _ _ I t) as B.
  pose proof (l_ownP _ _ I t) as OP. pose proof (l_ownC _ _ I t) as OC.
  unfold waits in W. unfold blk_ok in B.
  destruct (hnd s t) as [[sg|sn|sn|e r|e r|e r]|] eqn:Hh; try (exfalso; exact (NR e r eq_refl));
    destruct (base s t) eqn:Hb; simpl in *; try discriminate W;
    inversion W; subst x; simpl in O; specialize (OP O) || specialize (OC O); simpl in *;
    try (intuition (try discriminate; try congruence); fail).
  all: try (assert (blk = true) by auto; subst blk; assert (true = false) by (apply U; discriminate); discriminate).
  all: try (assert (true = false) by (apply U; discriminate); discriminate).
Qed.

Lemma linv_wait_chain : forall p s, block_P p = true -> block_C p = true -> term_relock p = false -> LInv p s ->
  forall t u, (waits s t = Some MP -> ownP s = Some u -> waits s u = None) /\
              (waits s t = Some MC -> ownC s = Some u -> waits s u = None \/ waits s u = Some MP).
Proof.
  intros p s BP BC TR I t u.
  assert (forall e r, hnd s u <> Some (HBodyRewantP e r)) as NR.
  { intros e r K. rewrite (l_norelock _ _ I u e r K) in TR. discriminate TR. }
  pose proof (l_unblocked _ _ I u) as U. pose proof (l_blk _ _ I u) as B.
  pose proof (l_ownP _ _ I u) as OP. pose proof (l_ownC _ _ I u) as OC. unfold blk_ok in B.
  split; intros _ O; [specialize (OP O); clear OC|specialize (OC O); clear OP]; unfold waits;
    destruct (hnd s u) as [[sg|sn|sn|e r|e r|e r]|] eqn:Hh; try (exfalso; exact (NR e r eq_refl));
    destruct (base s u) eqn:Hb; simpl in *;
    try (intuition (try discriminate; try congruence); fail).
  all: try (assert (blk = true) by auto; subst blk; assert (true = false) by (apply U; discriminate); discriminate).
  all: try (assert (true = false) by (apply U; discriminate); discriminate).
Qed.



Definition entries (h : option hpc) : list entry :=
  match h with
  | Some (HCopied l) | Some (HLoop l) => l
  | Some (HBodyWantP e l) | Some (HBodyHoldP e l) | Some (HBodyRewantP e l) => e :: l
  | _ => []
  end.

Record KInv (p : proto) (s : state) : Prop := {
  k_base : forall t, holdsC_base (base s t) = true -> ownC s = Some t;
  k_hnd : forall t, holdsC_hnd p (hnd s t) = true -> ownC s = Some t;
  k_excl : forall t, holdsC_base (base s t) = true -> holdsC_hnd p (hnd s t) = false;
  k_snap : forall t e, In e (entries (hnd s t)) -> In e (reg s);
  j_alive : forall e, In e (reg s) -> is_dead (e_mgr e) (dead s) = false;
  j_ids : forall e, In e (reg s) -> e_id e < next s /\ ~ In (e_id e) (deleted s);
  j_del : forall h, In h (deleted s) -> h < next s;
  j_reg : forall t k sg blk, base s t = BRegWant k sg blk \/ base s t = BRegHold k sg blk -> is_dead (t, k) (dead s) = false }.

Lemma kinv_init : forall p, KInv p init.
Proof. intro p; constructor; simpl; intros; try discriminate; try contradiction; auto; destruct H; discriminate. Qed.

Lemma entries_hold : forall p h e, dispatch_locked p = true -> In e (entries h) -> holdsC_hnd p h = true.
Proof. intros p h e D H; destruct h as [[]|]; simpl in *; try contradiction; auto. Qed.

Ltac use_kinv I x :=
  pose proof (k_base _ _ I x); pose proof (k_hnd _ _ I x); pose proof (k_excl _ _ I x).

Lemma step_kinv : forall p s e s', dispatch_locked p = true -> forgotten p = [] -> step p s e s' -> KInv p s -> KInv p s'.
Proof.
  intros p s e s' DL FG H I. inversion H; subst; clear H.
  all: constructor; simpl.
  (* k_base, k_hnd, k_excl *)
  all: try (intros x Hx; use_kinv I x; use_kinv I t; rewrite ?DL in *; upd_cases; rw_known; fin; fail).
  all: try exact (k_snap _ _ I); try exact (j_alive _ _ I); try exact (j_ids _ _ I); try exact (j_del _ _ I).
  (* j_reg when base changes but dead does not *)
  all: try (intros x k' sg' blk' Hx; pose proof (j_reg _ _ I x k' sg' blk'); upd_cases; rw_known;
            try (destruct Hx; discriminate); try match goal with |- context [after_rem ?d] => destruct d end; simpl in *; auto;
            try (destruct Hx; discriminate); fail).
  (* k_snap when hnd changes but reg does not *)
  all: try (intros x e' Hx; pose proof (k_snap _ _ I x e'); pose proof (k_snap _ _ I t e'); upd_cases; rw_known; simpl in *; auto; fail).
  - (* RegBegin: j_reg *)
    intros x k' sg' blk' Hx. upd_cases; [|exact (j_reg _ _ I x k' sg' blk' Hx)].
    destruct Hx as [Hx|Hx]; inversion Hx; subst; assumption.
  - (* RegLock: j_reg *)
    intros x k' sg' blk' Hx. upd_cases; [|exact (j_reg _ _ I x k' sg' blk' Hx)].
    destruct Hx as [Hx|Hx]; inversion Hx; subst. apply (j_reg _ _ I t k' sg' blk'). left; assumption.
  - (* RegUnlock: k_hnd *)
    intros x Hx. pose proof (k_hnd _ _ I x Hx) as A. pose proof (k_base _ _ I t) as B. rewrite H1 in B. specialize (B eq_refl).
    rewrite A in B; inversion B; subst. rewrite H0 in Hx; discriminate Hx.
  - intros x e' Hx. apply in_or_app; left. exact (k_snap _ _ I x e' Hx).
  - intros e' Hx. apply in_app_or in Hx. destruct Hx as [Hx|[Hx|[]]]; [exact (j_alive _ _ I e' Hx)|]. subst e'; simpl.
    apply (j_reg _ _ I t k sg blk). right; assumption.
  - intros e' Hx. apply in_app_or in Hx. destruct Hx as [Hx|[Hx|[]]].
    + destruct (j_ids _ _ I e' Hx); split; [lia|assumption].
    + subst e'; simpl. split; [lia|]. intro K. pose proof (j_del _ _ I _ K). lia.
  - intros h Hx. pose proof (j_del _ _ I h Hx). lia.
  - (* RemLock: k_snap *)
    intros x e' Hx. exfalso. pose proof (entries_hold p _ _ DL Hx) as E. pose proof (k_hnd _ _ I x E) as A. congruence.
  - intros e' Hx. apply filter_In in Hx. exact (j_alive _ _ I e' (proj1 Hx)).
  - intros e' Hx. apply filter_In in Hx. destruct Hx as [Hx Hn]. destruct (j_ids _ _ I e' Hx) as [A B]. split; [assumption|].
    apply negb_true_iff, Nat.eqb_neq in Hn.
    destruct (has_id h (reg s) && negb (shared_handlers p)); [|assumption]. intros [K|K]; [congruence|contradiction].
  - intros h0 Hx. destruct (has_id h (reg s) && negb (shared_handlers p)) eqn:G; [|exact (j_del _ _ I h0 Hx)].
    destruct Hx as [Hx|Hx]; [|exact (j_del _ _ I h0 Hx)]. subst h0.
    apply andb_true_iff in G. destruct G as [G _]. apply existsb_exists in G. destruct G as [e' [G1 G2]].
    apply Nat.eqb_eq in G2. subst h. exact (proj1 (j_ids _ _ I e' G1)).
  - (* RemUnlock: k_base *)
    intros x Hx. upd_cases; [destruct d; discriminate Hx|].
    pose proof (k_base _ _ I x Hx) as A. pose proof (k_base _ _ I t) as B. rewrite H1 in B. specialize (B eq_refl).
    rewrite A in B; inversion B; subst; contradiction.
  - intros x Hx. pose proof (k_hnd _ _ I x Hx) as A. pose proof (k_base _ _ I t) as B. rewrite H1 in B. specialize (B eq_refl).
    rewrite A in B; inversion B; subst. rewrite H0 in Hx; discriminate Hx.
  - intros x k' sg' blk' Hx. upd_cases; [destruct d; destruct Hx; discriminate|exact (j_reg _ _ I x k' sg' blk' Hx)].
  - (* DtorEnd: j_alive *)
    intros e' Hx. rewrite (j_alive _ _ I e' Hx), orb_false_r. unfold dtor_done in H2. rewrite forallb_forall in H2.
    specialize (H2 e' Hx). rewrite FG in H2. simpl in H2. rewrite orb_false_r in H2. apply negb_true_iff in H2. exact H2.
  - intros x k' sg' blk' Hx. upd_cases; [destruct Hx; discriminate|]. rewrite (j_reg _ _ I x k' sg' blk' Hx), orb_false_r.
    unfold mgr_eqb; simpl. apply Nat.eqb_neq in n. rewrite n. reflexivity.
  - (* HLockC: k_snap *)
    intros x e' Hx. upd_cases; [|exact (k_snap _ _ I x e' Hx)]. simpl in Hx. apply filter_In in Hx. exact (proj1 Hx).
  - (* HReturn: k_base *)
    rewrite DL. intros x Hx. exfalso. pose proof (k_base _ _ I x Hx) as A. pose proof (k_hnd _ _ I t) as B. rewrite H0 in B.
    simpl in B. specialize (B DL). rewrite A in B; inversion B; subst. pose proof (k_excl _ _ I t Hx) as C. rewrite H0 in C.
    simpl in C. congruence.
Qed.

Lemma steps_kinv : forall p s tr s', dispatch_locked p = true -> forgotten p = [] -> steps p s tr s' -> KInv p s -> KInv p s'.
Proof. intros p s tr s' DL FG H. induction H; intro I; [exact I|]. apply IHsteps, (step_kinv _ _ _ _ DL FG H I). Qed.

Lemma is_dead_In : forall m d, is_dead m d = false -> ~ In m d.
Proof.
  intros m d H K. unfold is_dead in H. assert (existsb (mgr_eqb m) d = true); [|congruence].
  apply existsb_exists. exists m; split; [exact K|]. unfold mgr_eqb. rewrite !Nat.eqb_refl. reflexivity.
Qed.

Lemma kinv_body_safe : forall p s, dispatch_locked p = true -> KInv p s ->
  forall t e, running_body s t = Some e -> In e (reg s) /\ ~ In (e_mgr e) (dead s) /\ ~ In (e_id e) (deleted s).
Proof.
  intros p s DL I t e R. assert (In e (reg s)) as M.
  { apply (k_snap _ _ I t). unfold running_body in R. destruct (hnd s t) as [[]|]; try discriminate R; inversion R; subst; left; reflexivity. }
  split; [exact M|]. split; [apply is_dead_In, (j_alive _ _ I e M)|exact (proj2 (j_ids _ _ I e M))].
Qed.

(* ---- the theorems, from the initial state ---- *)
Lemma no_body_for_destroyed_manager : forall p, dispatch_locked p = true -> forgotten p = [] ->
  forall tr s, steps p init tr s ->
  forall t e, running_body s t = Some e -> ~ In (e_mgr e) (dead s) /\ ~ In (e_id e) (deleted s).
Proof.
  intros p DL FG tr s H t e R.
  exact (proj2 (kinv_body_safe p s DL (steps_kinv _ _ _ _ DL FG H (kinv_init p)) t e R)).
Qed.

Lemma no_self_wait : forall p, block_P p = true -> block_C p = true -> term_relock p = false ->
  forall tr s, steps p init tr s -> forall t x, waits s t = Some x -> owner s x <> Some t.
Proof. intros p BP BC TR tr s H. exact (linv_no_self_wait p s BP BC TR (steps_linv _ _ _ _ H (linv_init p))). Qed.

Lemma wait_chains_end : forall p, block_P p = true -> block_C p = true -> term_relock p = false ->
  forall tr s, steps p init tr s -> forall t u,
    (waits s t = Some MP -> ownP s = Some u -> waits s u = None) /\
    (waits s t = Some MC -> ownC s = Some u -> waits s u = None \/ waits s u = Some MP).
Proof. intros p BP BC TR tr s H. exact (linv_wait_chain p s BP BC TR (steps_linv _ _ _ _ H (linv_init p))). Qed.

(* ---- concrete schedules ---- *)
(* SIGCHLD = 17, SIGTERM = 15.  Thread 0 enters treatAction and copies the handlers; thread 1 destroys its manager
   (removeHandler deletes handler 0, the destructor returns); thread 0 then calls the copy. *)
Definition w_f19 (blk : bool) : list event :=
  [RegBegin 1 0 17 blk; RegLock 1; RegUnlock 1 0;
   SigEnter 0 17; HLockC 0; HStart 0;
   DtorBegin 1 0; RemBegin 1 0; RemLock 1; RemUnlock 1; DtorEnd 1;
   HExec 0 0].
(* one thread: the destructor does not remove the SIGTERM handler; SIGTERM arrives later *)
Definition w_stale : list event :=
  [RegBegin 0 0 15 true; RegLock 0; RegUnlock 0 0; DtorBegin 0 0; DtorEnd 0; SigEnter 0 15; HLockC 0; HStart 0; HExec 0 0].
(* one thread: SIGCHLD delivered while findProcess holds processesAccess *)
Definition w_f22_P (blk : bool) : list event :=
  [RegBegin 0 0 17 blk; RegLock 0; RegUnlock 0 0; PBegin 0 false; PLock 0; SigEnter 0 17; HLockC 0; HStart 0; HExec 0 0].
(* one thread: SIGCHLD delivered while registerHandler holds callbacksAccess *)
Definition w_f22_C : list event := [RegBegin 0 0 17 false; RegLock 0; SigEnter 0 17].

(* one thread: SIGTERM while a manager is alive: terminateHandler locks processesAccess, then sendSignal -> findProcess
   locks it again *)
Definition w_f22_term : list event :=
  [RegBegin 0 0 15 false; RegLock 0; RegUnlock 0 0; SigEnter 0 15; HLockC 0; HStart 0; HExec 0 0; HBodyLock 0; HBodyRelock 0].

Definition F19PatchOnly : proto := mkProto true false false true [] true.
Definition F22PatchOnly : proto := mkProto false false true false [7; 15] false.
Definition DispatchLockedOnly : proto := mkProto true false true true [7; 15] false.

Lemma refuted_lifetime_current : exists tr s t e, steps Current init tr s /\ running_body s t = Some e /\
  In (e_mgr e) (dead s) /\ In (e_id e) (deleted s).
Proof.
  exists (w_f19 false). eexists. exists 0, (mkEntry 0 (1, 0) 17).
  split; [apply run_sound; vm_compute; reflexivity|]. vm_compute. auto.
Qed.

Lemma refuted_lifetime_shared : exists tr s t e, steps SharedOnly init tr s /\ running_body s t = Some e /\
  In (e_mgr e) (dead s) /\ deleted s = [].
Proof.
  exists (w_f19 true). eexists. exists 0, (mkEntry 0 (1, 0) 17).
  split; [apply run_sound; vm_compute; reflexivity|]. vm_compute. auto.
Qed.

Lemma refuted_lifetime_f22_patch_only : exists tr s t e, steps F22PatchOnly init tr s /\ running_body s t = Some e /\
  In (e_mgr e) (dead s) /\ In (e_id e) (deleted s).
Proof.
  exists (w_f19 false). eexists. exists 0, (mkEntry 0 (1, 0) 17).
  split; [apply run_sound; vm_compute; reflexivity|]. vm_compute. auto.
Qed.

Lemma refuted_lifetime_stale : exists tr s t e, steps Current init tr s /\ running_body s t = Some e /\ In (e_mgr e) (dead s).
Proof.
  exists w_stale. eexists. exists 0, (mkEntry 0 (0, 0) 15).
  split; [apply run_sound; vm_compute; reflexivity|]. vm_compute. auto.
Qed.

(* calling the handlers with the mutex held is not enough if the destructor forgets handlers *)
Lemma refuted_lifetime_stale_dispatch_locked : exists tr s t e,
  steps DispatchLockedOnly init tr s /\ running_body s t = Some e /\ In (e_mgr e) (dead s).
Proof.
  exists w_stale. eexists. exists 0, (mkEntry 0 (0, 0) 15).
  split; [apply run_sound; vm_compute; reflexivity|]. vm_compute. auto.
Qed.

Lemma refuted_self_wait_P : exists tr s t, steps Current init tr s /\ waits s t = Some MP /\ owner s MP = Some t.
Proof.
  exists (w_f22_P false). eexists. exists 0.
  split; [apply run_sound; vm_compute; reflexivity|]. vm_compute. auto.
Qed.

Lemma refuted_self_wait_C : exists tr s t, steps Current init tr s /\ waits s t = Some MC /\ owner s MC = Some t.
Proof.
  exists w_f22_C. eexists. exists 0.
  split; [apply run_sound; vm_compute; reflexivity|]. vm_compute. auto.
Qed.

Lemma refuted_self_wait_f19_patch_only : exists tr s t, steps F19PatchOnly init tr s /\ waits s t = Some MP /\ owner s MP = Some t.
Proof.
  exists (w_f22_P true). eexists. exists 0.
  split; [apply run_sound; vm_compute; reflexivity|]. vm_compute. auto.
Qed.

Lemma refuted_self_wait_terminate : exists tr s t, steps Current init tr s /\ waits s t = Some MP /\ owner s MP = Some t.
Proof.
  exists w_f22_term. eexists. exists 0.
  split; [apply run_sound; vm_compute; reflexivity|]. vm_compute. auto.
Qed.

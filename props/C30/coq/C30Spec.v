(* C30 -- specification of "child-process exit status is reported faithfully".
   Written independently of the code: how a command really ended, and what execute() must report. *)
From Coq Require Import List Arith Bool.
Import ListNotations.

(* how the child really ended *)
Inductive status := Exited (code : nat) | Signaled (sig : nat).

(* what execute() tells its caller *)
Inductive verdict :=
| Success                   (* returns normally *)
| FailedWithValue (v : nat) (* throws "exited abnormally with value v" *)
| KilledBySignal            (* throws "exited du to a signal" *)
| OtherError.               (* throws anything else *)

(* the faithful report *)
Definition expected (st : status) : verdict :=
  match st with
  | Exited 0 => Success
  | Exited (S n) => FailedWithValue (S n)
  | Signaled _ => KilledBySignal
  end.

Definition succeeds (v : verdict) : bool := match v with Success => true | _ => false end.

(* C30 (second part) -- signal handlers: handler lifetime and lock discipline (statements only; proofs in C30SigProofs.v).
   Every theorem is over every interleaving, any number of threads, managers, handlers and signals. *)
From Coq Require Import List Arith Bool.
From C30 Require Import C30SigModel C30SigProofs.
Import ListNotations.

(* F19.  If treatAction calls the handlers with callbacksAccess held and ~ProcessManager removes all its handlers:
   no handler body (sigChildHandler / terminateHandler of a manager) is running, or about to run, for a manager whose
   destructor has returned, and no deleted handler object is used. *)
Theorem C30_no_handler_body_for_destroyed_manager : forall p, dispatch_locked p = true -> forgotten p = [] ->
  forall tr s, steps p init tr s ->
  forall t e, running_body s t = Some e -> ~ In (e_mgr e) (dead s) /\ ~ In (e_id e) (deleted s).
Proof. exact no_body_for_destroyed_manager. Qed.
Print Assumptions C30_no_handler_body_for_destroyed_manager.

(* F22.  If every section of processesAccess / callbacksAccess outside a signal handler has the signals blocked (and
   terminateHandler does not lock processesAccess twice): no thread ever waits for a mutex it already holds, neither in
   its normal code nor in a handler that interrupted it. *)
Theorem C30_no_thread_waits_for_a_mutex_it_holds : forall p, block_P p = true -> block_C p = true -> term_relock p = false ->
  forall tr s, steps p init tr s -> forall t x, waits s t = Some x -> owner s x <> Some t.
Proof. exact no_self_wait. Qed.
Print Assumptions C30_no_thread_waits_for_a_mutex_it_holds.

(* ... and there is no cycle of threads waiting for each other: the owner of processesAccess never waits, the owner of
   callbacksAccess waits at most for processesAccess. *)
Theorem C30_wait_chains_end : forall p, block_P p = true -> block_C p = true -> term_relock p = false ->
  forall tr s, steps p init tr s -> forall t u,
    (waits s t = Some MP -> ownP s = Some u -> waits s u = None) /\
    (waits s t = Some MC -> ownC s = Some u -> waits s u = None \/ waits s u = Some MP).
Proof. exact wait_chains_end. Qed.
Print Assumptions C30_wait_chains_end.

(* both hold for the repaired protocol (the two patches together) *)
Theorem C30_repaired_protocol_is_safe : forall tr s, steps Repaired init tr s ->
  (forall t e, running_body s t = Some e -> ~ In (e_mgr e) (dead s) /\ ~ In (e_id e) (deleted s)) /\
  (forall t x, waits s t = Some x -> owner s x <> Some t).
Proof.
  intros tr s H; split.
  - exact (no_body_for_destroyed_manager Repaired eq_refl eq_refl tr s H).
  - exact (no_self_wait Repaired eq_refl eq_refl eq_refl tr s H).
Qed.
Print Assumptions C30_repaired_protocol_is_safe.

(* design decisions.  Keeping the handler objects alive by shared ownership (removal only erases the map entry) does not
   prevent a body from running for a destroyed manager; calling the handlers under the mutex does not help if the
   destructor forgets the SIGBUS / SIGTERM handlers; each patch alone leaves the other defect. *)
Theorem C30_shared_ownership_only_refuted : exists tr s t e, steps SharedOnly init tr s /\ running_body s t = Some e /\
  In (e_mgr e) (dead s) /\ deleted s = [].
Proof. exact refuted_lifetime_shared. Qed.
Print Assumptions C30_shared_ownership_only_refuted.

Theorem C30_forgotten_handlers_refuted : exists tr s t e,
  steps DispatchLockedOnly init tr s /\ running_body s t = Some e /\ In (e_mgr e) (dead s).
Proof. exact refuted_lifetime_stale_dispatch_locked. Qed.
Print Assumptions C30_forgotten_handlers_refuted.

Theorem C30_f22_patch_alone_refuted : exists tr s t e, steps F22PatchOnly init tr s /\ running_body s t = Some e /\
  In (e_mgr e) (dead s) /\ In (e_id e) (deleted s).
Proof. exact refuted_lifetime_f22_patch_only. Qed.
Print Assumptions C30_f22_patch_alone_refuted.

Theorem C30_f19_patch_alone_refuted : exists tr s t, steps F19PatchOnly init tr s /\ waits s t = Some MP /\ owner s MP = Some t.
Proof. exact refuted_self_wait_f19_patch_only. Qed.
Print Assumptions C30_f19_patch_alone_refuted.

(* the executable acceptor is the step relation (an inductive definition independent of the function) *)
Theorem C30_sig_acceptor_sound : forall p tr, accepts p tr = true -> exists s, steps p init tr s.
Proof. exact accepts_sound. Qed.
Print Assumptions C30_sig_acceptor_sound.

Theorem C30_sig_acceptor_complete : forall p tr s, steps p init tr s -> accepts p tr = true.
Proof. exact accepts_complete. Qed.
Print Assumptions C30_sig_acceptor_complete.

(* C30 (second part) -- the pinned code: selected by the check when the traces of the real SignalManager / ProcessManager
   show the corresponding breach (handler called after its removal / for a destroyed manager; a thread locking a mutex it
   holds). *)
From Coq Require Import List Arith Bool.
From C30 Require Import C30SigModel C30SigProofs.
Import ListNotations.

(* F19: thread 0 copies the handlers in treatAction, thread 1 destroys its manager, thread 0 calls the deleted handler
   of the destroyed manager *)
Theorem C30_no_handler_body_for_destroyed_manager_refuted : exists tr s t e, steps Current init tr s /\
  running_body s t = Some e /\ In (e_mgr e) (dead s) /\ In (e_id e) (deleted s).
Proof. exact refuted_lifetime_current. Qed.
Print Assumptions C30_no_handler_body_for_destroyed_manager_refuted.

(* F19, single thread: ~ProcessManager leaves its SIGTERM handler registered; SIGTERM arrives after the destruction *)
Theorem C30_forgotten_sigterm_handler_refuted : exists tr s t e, steps Current init tr s /\
  running_body s t = Some e /\ In (e_mgr e) (dead s).
Proof. exact refuted_lifetime_stale. Qed.
Print Assumptions C30_forgotten_sigterm_handler_refuted.

(* F22: SIGCHLD delivered to a thread inside findProcess: sigChildHandler waits for processesAccess, held by that thread *)
Theorem C30_no_thread_waits_for_a_mutex_it_holds_refuted : exists tr s t, steps Current init tr s /\
  waits s t = Some MP /\ owner s MP = Some t.
Proof. exact refuted_self_wait_P. Qed.
Print Assumptions C30_no_thread_waits_for_a_mutex_it_holds_refuted.

(* F22, callbacksAccess: SIGCHLD delivered to a thread inside registerHandler *)
Theorem C30_register_handler_self_wait_refuted : exists tr s t, steps Current init tr s /\
  waits s t = Some MC /\ owner s MC = Some t.
Proof. exact refuted_self_wait_C. Qed.
Print Assumptions C30_register_handler_self_wait_refuted.

(* F22, terminateHandler: SIGTERM / SIGINT while a manager is alive: terminateHandler locks processesAccess and calls
   sendSignal -> findProcess, which locks it again *)
Theorem C30_terminate_handler_self_wait_refuted : exists tr s t, steps Current init tr s /\
  waits s t = Some MP /\ owner s MP = Some t.
Proof. exact refuted_self_wait_terminate. Qed.
Print Assumptions C30_terminate_handler_self_wait_refuted.

(* C30 -- executable model of ProcessManager::wait / sigChildHandler / setProcessExitStatus / execute
   (src/System/ProcessManager.cxx) for one child process, with any number of SIGCHLD handler invocations in any
   thread.  Definitions only.  One atomic step = one system call (waitpid) or one access to the process record.

   sigChildHandler (holds processesAccess):  if(isRunning){ r=waitpid(id,&st,WNOHANG); if(r==id) set(st) }
       HandlerReaps       waitpid returned the child               (the handler now holds the mutex with a status)
       HandlerSets        setProcessExitStatus, mutex released
       HandlerSeesRunning waitpid returned 0        HandlerSeesNoChild  waitpid returned -1
   wait():  if(!isRunning) return;            TestRunning b
            waitpid(pid,&status,0);           WaitpidReaps | WaitpidFails u (ECHILD) | WaitpidInterrupted u (EINTR)
                                              (u: whatever `status` then contains; repaired code retries on EINTR)
            setProcessExitStatus(p,status)   WaitSets     (the pinned code, also after a failed waitpid)
            -- repaired code: after a failed waitpid, take processesAccess and read what the handler published --
                                              WaitSyncs
   execute(): wait(); look at exitStatus / exitValue        Return v
   The child:                                               ChildExits st *)
From Coq Require Import List Arith Bool.
From C30 Require Import C30Spec.
Import ListNotations.

Inductive kind := Pinned | Repaired.

(* a status word as setProcessExitStatus decodes it *)
Inductive word := WExit (c : nat) | WSig (s : nat) | WStopped | WUnknown.
Definition word_of (st : status) : word := match st with Exited c => WExit c | Signaled s => WSig s end.

Inductive child := Running | Zombie (st : status) | Reaped.

Inductive wpc :=
| W0                 (* wait() not yet at its test *)
| W1                 (* saw isRunning = true, about to call waitpid *)
| W2 (w : word)      (* about to call setProcessExitStatus with w *)
| W3                 (* repaired code: waitpid failed, about to take the mutex *)
| WRet               (* wait() returned *)
| WThrew             (* wait() threw *)
| Finished (v : verdict).

Record state := mk {
  ch : child;
  truth : option status;       (* how the child ended, once it has *)
  isRunning : bool;
  exitStatus : bool;
  exitValue : option nat;      (* None stands for -1 *)
  hlock : option word;         (* a handler holds processesAccess between its waitpid and its setProcessExitStatus *)
  wp : wpc }.

Definition init : state := mk Running None true false (Some 0) None W0.

Inductive event :=
| ChildExits (st : status)
| HandlerReaps | HandlerSets | HandlerSeesRunning | HandlerSeesNoChild
| TestRunning (b : bool)
| WaitpidReaps | WaitpidFails (u : word) | WaitpidInterrupted (u : word)
| WaitSets | WaitSyncs
| Return (v : verdict).

(* setProcessExitStatus on the record; None = it throws "unknown status" *)
Definition set_status (s : state) (w : word) : option state :=
  match w with
  | WExit c => Some (mk (ch s) (truth s) false true (Some c) (hlock s) (wp s))
  | WSig _ => Some (mk (ch s) (truth s) false false None (hlock s) (wp s))
  | WStopped => Some s
  | WUnknown => None
  end.

Definition with_wp (s : state) (p : wpc) : state :=
  mk (ch s) (truth s) (isRunning s) (exitStatus s) (exitValue s) (hlock s) p.
Definition with_hlock (s : state) (h : option word) : state :=
  mk (ch s) (truth s) (isRunning s) (exitStatus s) (exitValue s) h (wp s).

(* what execute() concludes from the record after wait() *)
Definition conclude (s : state) : verdict :=
  if exitStatus s then match exitValue s with Some 0 => Success | Some v => FailedWithValue v | None => OtherError end
  else KilledBySignal.

Definition step_fn (k : kind) (s : state) (e : event) : option state :=
  match e with
  | ChildExits st =>
      match ch s with Running => Some (mk (Zombie st) (Some st) (isRunning s) (exitStatus s) (exitValue s) (hlock s) (wp s)) | _ => None end
  | HandlerReaps =>
      match ch s, hlock s with
      | Zombie st, None => if isRunning s
                           then Some (mk Reaped (truth s) (isRunning s) (exitStatus s) (exitValue s) (Some (word_of st)) (wp s))
                           else None
      | _, _ => None
      end
  | HandlerSets =>
      match hlock s with
      | Some w => match set_status s w with Some s1 => Some (with_hlock s1 None) | None => None end
      | None => None
      end
  | HandlerSeesRunning => match ch s, hlock s with Running, None => Some s | _, _ => None end
  | HandlerSeesNoChild => match ch s, hlock s with Reaped, None => Some s | _, _ => None end
  | TestRunning b =>
      match wp s with
      | W0 => if Bool.eqb b (isRunning s) then Some (with_wp s (if b then W1 else WRet)) else None
      | _ => None
      end
  | WaitpidReaps =>
      match wp s, ch s with
      | W1, Zombie st => Some (mk Reaped (truth s) (isRunning s) (exitStatus s) (exitValue s) (hlock s) (W2 (word_of st)))
      | _, _ => None
      end
  | WaitpidFails u =>
      match wp s, ch s with
      | W1, Reaped => Some (with_wp s (match k with Pinned => W2 u | Repaired => W3 end))
      | _, _ => None
      end
  | WaitpidInterrupted u =>   (* EINTR: a SIGCHLD handler ran in this thread; the child may still be running *)
      match wp s with
      | W1 => Some (with_wp s (match k with Pinned => W2 u | Repaired => W1 end))
      | _ => None
      end
  | WaitSets =>
      match wp s with
      | W2 w => match set_status s w with Some s1 => Some (with_wp s1 WRet) | None => Some (with_wp s WThrew) end
      | _ => None
      end
  | WaitSyncs =>
      match wp s, hlock s with
      | W3, None => Some (with_wp s (if isRunning s then WThrew else WRet))
      | _, _ => None
      end
  | Return v =>
      match wp s with
      | WRet => if (match v, conclude s with
                    | Success, Success | KilledBySignal, KilledBySignal | OtherError, OtherError => true
                    | FailedWithValue a, FailedWithValue b => Nat.eqb a b
                    | _, _ => false end)
                then Some (with_wp s (Finished v)) else None
      | WThrew => match v with OtherError => Some (with_wp s (Finished v)) | _ => None end
      | _ => None
      end
  end.

Definition step (k : kind) (s : state) (e : event) (s' : state) : Prop := step_fn k s e = Some s'.

Inductive steps (k : kind) : state -> list event -> state -> Prop :=
| steps_nil : forall s, steps k s [] s
| steps_cons : forall s e s1 tr s2, step k s e s1 -> steps k s1 tr s2 -> steps k s (e :: tr) s2.

Fixpoint run (k : kind) (s : state) (tr : list event) : option state :=
  match tr with
  | [] => Some s
  | e :: r => match step_fn k s e with Some s1 => run k s1 r | None => None end
  end.

Definition accepts (k : kind) (tr : list event) : bool :=
  match run k init tr with Some _ => true | None => false end.

(* C30 -- property theorems (statements only; proofs are in C30Proofs.v). *)
From Coq Require Import List Arith Bool.
From C30 Require Import C30Spec C30Model C30Proofs.
Import ListNotations.

(* Repaired wait(): whatever the order of the child's exit, of the SIGCHLD handler invocations (any number, in any
   thread) and of the steps of wait(), execute() reports exactly how the child ended, and wait() never throws. *)
Theorem C30_exit_status_faithful : forall tr s, steps Repaired init tr s ->
  (forall v, wp s = Finished v -> exists st, truth s = Some st /\ v = expected st) /\ wp s <> WThrew.
Proof. exact faithful_repaired. Qed.
Print Assumptions C30_exit_status_faithful.

(* In particular execute() succeeds exactly when the child exited with status 0. *)
Theorem C30_success_iff_exit_zero : forall tr s v, steps Repaired init tr s -> wp s = Finished v ->
  (succeeds v = true <-> truth s = Some (Exited 0)).
Proof.
  intros tr s v H E. destruct (proj1 (faithful_repaired tr s H) v E) as [st [T V]]. subst v. rewrite T.
  destruct st as [[|c]|sg]; simpl; split; intro X; try discriminate; try reflexivity.
Qed.
Print Assumptions C30_success_iff_exit_zero.

(* The pinned code is faithful on every schedule in which no blocking waitpid fails. *)
Theorem C30_pinned_faithful_without_waitpid_failure : forall tr s, steps Pinned init tr s ->
  no_waitpid_failure tr = true -> forall v, wp s = Finished v -> exists st, truth s = Some st /\ v = expected st.
Proof. exact faithful_pinned_without_failure. Qed.
Print Assumptions C30_pinned_faithful_without_waitpid_failure.

(* the executable acceptor is the step relation *)
Theorem C30_acceptor_sound : forall k tr, accepts k tr = true -> exists s, steps k init tr s.
Proof. exact accepts_sound. Qed.
Print Assumptions C30_acceptor_sound.

Theorem C30_acceptor_complete : forall k tr s, steps k init tr s -> accepts k tr = true.
Proof. exact accepts_complete. Qed.
Print Assumptions C30_acceptor_complete.

(* C30 (second part) -- signal handlers of ProcessManager / SignalManager: handler lifetime and lock discipline.
   Definitions only.  Any number of threads (nat), of managers (a manager is (owning thread, index): a ProcessManager is
   built, used and destroyed by one thread, its handlers run in ANY thread), of handlers, of signals.

   The code (src/System/SignalManager.cxx, src/System/ProcessManager.cxx):
     callbacksAccess (MC) protects SignalManager::callBacks : signal -> id -> SignalHandler*
     processesAccess (MP) protects the process lists of all the ProcessManager objects
     registerHandler(sig,f)   { lock MC; callBacks[sig][handlerNbr] = f; ++handlerNbr; unlock }     RegBegin/RegLock/RegUnlock
     removeHandler(id)        { block signals; lock MC; delete + erase; unlock; restore }            RemBegin/RemLock/RemUnlock
                              (the deletion is placed at RemLock: the earliest moment it can be observed)
     ~ProcessManager          { block signals; removeHandler(ids ...); restore }  then the object is gone   DtorBegin/DtorEnd
     findProcess / createProcess / wait : sections { lock MP; ...; unlock }  outside any handler     PBegin/PLock/PUnlock
     treatAction(sig) -- THE signal handler, entered in any thread whose signals are not blocked --  SigEnter
         lock MC; copy callBacks[sig]                                                                HLockC
         pinned code: unlock MC, then call the copies      repaired code: keep MC until the end      HStart
         for each copy: c->execute(sig)                                                              HExec h
            = sigChildHandler/terminateHandler of the manager: { lock MP; ...; unlock }              HBodyLock/HBodyUnlock
              (pinned terminateHandler: with MP held, sendSignal -> findProcess locks MP again)      HBodyRelock
         return                                                                                      HReturn
   A protocol (proto) says: is MC held while the handlers are called; does `delete` happen at removal (false: handlers
   kept alive by shared ownership, a variant that was considered); must MP / MC sections outside handlers have the signals
   blocked; which signals' handlers the destructor forgets to remove; does terminateHandler lock MP twice. *)
From Coq Require Import List Arith Bool.
Import ListNotations.

Inductive mutex := MP | MC.
Definition mgr := (nat * nat)%type.
Record entry := mkEntry { e_id : nat; e_mgr : mgr; e_sig : nat }.

Record proto := mkProto {
  dispatch_locked : bool;
  shared_handlers : bool;
  block_P : bool;
  block_C : bool;
  forgotten : list nat;
  term_relock : bool }.

(* the pinned code: SIGBUS (7) and SIGTERM (15) handlers are not removed by ~ProcessManager *)
Definition Current : proto := mkProto false false false false [7; 15] true.
Definition Repaired : proto := mkProto true false true true [] false.
(* "handlers held by shared_ptr, removal only erases the map entry" (not retained) *)
Definition SharedOnly : proto := mkProto false true true true [] false.

(* what the normal code of a thread is doing *)
Inductive bpc :=
| BIdle
| BPWant (blk : bool) | BPHold (blk : bool)
| BRegWant (k sg : nat) (blk : bool) | BRegHold (k sg : nat) (blk : bool)
| BRemWant (h : nat) (d : option nat) | BRemHold (h : nat) (d : option nat)
| BDtor (k : nat).

(* what treatAction, running on top of it, is doing *)
Inductive hpc :=
| HWantC (sg : nat)
| HCopied (snap : list entry)
| HLoop (snap : list entry)
| HBodyWantP (e : entry) (rest : list entry)
| HBodyHoldP (e : entry) (rest : list entry)
| HBodyRewantP (e : entry) (rest : list entry).   (* terminateHandler: holds MP, calls sendSignal -> findProcess: locks MP *)

Record state := mk {
  base : nat -> bpc;
  hnd : nat -> option hpc;
  ownP : option nat;
  ownC : option nat;
  reg : list entry;           (* callBacks, in registration order (= increasing id) *)
  next : nat;                 (* handlerNbr *)
  deleted : list nat;         (* handler objects that have been deleted *)
  dead : list mgr }.          (* managers whose destructor has returned *)

Definition init : state := mk (fun _ => BIdle) (fun _ => None) None None [] 0 [] [].

Inductive event :=
| PBegin (t : nat) (blk : bool) | PLock (t : nat) | PUnlock (t : nat)
| RegBegin (t k sg : nat) (blk : bool) | RegLock (t : nat) | RegUnlock (t h : nat)
| RemBegin (t h : nat) | RemLock (t : nat) | RemUnlock (t : nat)
| DtorBegin (t k : nat) | DtorEnd (t : nat)
| SigEnter (t sg : nat) | HLockC (t : nat) | HStart (t : nat) | HExec (t h : nat)
| HBodyLock (t : nat) | HBodyUnlock (t : nat) | HBodyRelock (t : nat) | HReturn (t : nat).

Definition upd {A : Type} (f : nat -> A) (t : nat) (v : A) : nat -> A := fun x => if Nat.eqb x t then v else f x.

Definition set_base (s : state) (t : nat) (b : bpc) : state :=
  mk (upd (base s) t b) (hnd s) (ownP s) (ownC s) (reg s) (next s) (deleted s) (dead s).
Definition set_hnd (s : state) (t : nat) (h : option hpc) : state :=
  mk (base s) (upd (hnd s) t h) (ownP s) (ownC s) (reg s) (next s) (deleted s) (dead s).
Definition set_ownP (s : state) (o : option nat) : state :=
  mk (base s) (hnd s) o (ownC s) (reg s) (next s) (deleted s) (dead s).
Definition set_ownC (s : state) (o : option nat) : state :=
  mk (base s) (hnd s) (ownP s) o (reg s) (next s) (deleted s) (dead s).
Definition set_reg (s : state) (r : list entry) (n : nat) (d : list nat) : state :=
  mk (base s) (hnd s) (ownP s) (ownC s) r n d (dead s).
Definition set_dead (s : state) (d : list mgr) : state :=
  mk (base s) (hnd s) (ownP s) (ownC s) (reg s) (next s) (deleted s) d.

(* signals are blocked in the normal code of the thread (sigprocmask / pthread_sigmask).  (The destructor blocks
   them too, between its calls of removeHandler; nothing relies on that: it is modelled as not blocking.) *)
Definition blocked (b : bpc) : bool :=
  match b with
  | BIdle | BDtor _ => false
  | BPWant blk | BPHold blk => blk
  | BRegWant _ _ blk | BRegHold _ _ blk => blk
  | BRemWant _ _ | BRemHold _ _ => true
  end.

Definition mgr_eqb (a b : mgr) : bool := Nat.eqb (fst a) (fst b) && Nat.eqb (snd a) (snd b).
Definition mem (x : nat) (l : list nat) : bool := existsb (Nat.eqb x) l.
Definition is_dead (m : mgr) (d : list mgr) : bool := existsb (mgr_eqb m) d.
Definition sig_entries (sg : nat) (r : list entry) : list entry := filter (fun e => Nat.eqb (e_sig e) sg) r.
Definition has_id (h : nat) (r : list entry) : bool := existsb (fun e => Nat.eqb (e_id e) h) r.
Definition without (h : nat) (r : list entry) : list entry := filter (fun e => negb (Nat.eqb (e_id e) h)) r.
(* the destructor has removed every handler of m that it knows about *)
Definition dtor_done (p : proto) (m : mgr) (r : list entry) : bool :=
  forallb (fun e => negb (mgr_eqb (e_mgr e) m) || mem (e_sig e) (forgotten p)) r.
Definition after_rem (d : option nat) : bpc := match d with Some k => BDtor k | None => BIdle end.

Inductive step (p : proto) : state -> event -> state -> Prop :=
| s_PBegin : forall s t blk, hnd s t = None -> base s t = BIdle -> implb (block_P p) blk = true ->
    step p s (PBegin t blk) (set_base s t (BPWant blk))
| s_PLock : forall s t blk, hnd s t = None -> base s t = BPWant blk -> ownP s = None ->
    step p s (PLock t) (set_ownP (set_base s t (BPHold blk)) (Some t))
| s_PUnlock : forall s t blk, hnd s t = None -> base s t = BPHold blk ->
    step p s (PUnlock t) (set_ownP (set_base s t BIdle) None)
| s_RegBegin : forall s t k sg blk, hnd s t = None -> base s t = BIdle -> is_dead (t, k) (dead s) = false ->
    implb (block_C p) blk = true ->
    step p s (RegBegin t k sg blk) (set_base s t (BRegWant k sg blk))
| s_RegLock : forall s t k sg blk, hnd s t = None -> base s t = BRegWant k sg blk -> ownC s = None ->
    step p s (RegLock t) (set_ownC (set_base s t (BRegHold k sg blk)) (Some t))
| s_RegUnlock : forall s t k sg blk, hnd s t = None -> base s t = BRegHold k sg blk ->
    step p s (RegUnlock t (next s))
         (set_ownC (set_reg (set_base s t BIdle) (reg s ++ [mkEntry (next s) (t, k) sg]) (S (next s)) (deleted s)) None)
| s_RemBeginIdle : forall s t h, hnd s t = None -> base s t = BIdle ->
    step p s (RemBegin t h) (set_base s t (BRemWant h None))
| s_RemBeginDtor : forall s t h k, hnd s t = None -> base s t = BDtor k ->
    step p s (RemBegin t h) (set_base s t (BRemWant h (Some k)))
| s_RemLock : forall s t h d, hnd s t = None -> base s t = BRemWant h d -> ownC s = None ->
    step p s (RemLock t)
         (set_ownC (set_reg (set_base s t (BRemHold h d)) (without h (reg s)) (next s)
                            (if has_id h (reg s) && negb (shared_handlers p) then h :: deleted s else deleted s)) (Some t))
| s_RemUnlock : forall s t h d, hnd s t = None -> base s t = BRemHold h d ->
    step p s (RemUnlock t) (set_ownC (set_base s t (after_rem d)) None)
| s_DtorBegin : forall s t k, hnd s t = None -> base s t = BIdle -> is_dead (t, k) (dead s) = false ->
    step p s (DtorBegin t k) (set_base s t (BDtor k))
| s_DtorEnd : forall s t k, hnd s t = None -> base s t = BDtor k -> dtor_done p (t, k) (reg s) = true ->
    step p s (DtorEnd t) (set_dead (set_base s t BIdle) ((t, k) :: dead s))
| s_SigEnter : forall s t sg, hnd s t = None -> blocked (base s t) = false ->
    step p s (SigEnter t sg) (set_hnd s t (Some (HWantC sg)))
| s_HLockC : forall s t sg, hnd s t = Some (HWantC sg) -> ownC s = None ->
    step p s (HLockC t) (set_ownC (set_hnd s t (Some (HCopied (sig_entries sg (reg s))))) (Some t))
| s_HStart : forall s t snap, hnd s t = Some (HCopied snap) ->
    step p s (HStart t) (set_ownC (set_hnd s t (Some (HLoop snap))) (if dispatch_locked p then ownC s else None))
| s_HExec : forall s t e rest, hnd s t = Some (HLoop (e :: rest)) ->
    step p s (HExec t (e_id e)) (set_hnd s t (Some (HBodyWantP e rest)))
| s_HBodyLock : forall s t e rest, hnd s t = Some (HBodyWantP e rest) -> ownP s = None ->
    step p s (HBodyLock t) (set_ownP (set_hnd s t (Some (HBodyHoldP e rest))) (Some t))
| s_HBodyUnlock : forall s t e rest, hnd s t = Some (HBodyHoldP e rest) ->
    step p s (HBodyUnlock t) (set_ownP (set_hnd s t (Some (HLoop rest))) None)
| s_HBodyRelock : forall s t e rest, hnd s t = Some (HBodyHoldP e rest) -> term_relock p = true -> Nat.eqb (e_sig e) 17 = false ->
    step p s (HBodyRelock t) (set_hnd s t (Some (HBodyRewantP e rest)))
| s_HReturn : forall s t, hnd s t = Some (HLoop []) ->
    step p s (HReturn t) (set_ownC (set_hnd s t None) (if dispatch_locked p then None else ownC s)).

Inductive steps (p : proto) : state -> list event -> state -> Prop :=
| steps_nil : forall s, steps p s [] s
| steps_cons : forall s e s1 tr s2, step p s e s1 -> steps p s1 tr s2 -> steps p s (e :: tr) s2.

(* ---- the same relation as an executable function (the acceptor) ---- *)
Definition is_none {A : Type} (o : option A) : bool := match o with None => true | Some _ => false end.

Definition step_fn (p : proto) (s : state) (e : event) : option state :=
  match e with
  | PBegin t blk =>
      match hnd s t, base s t with
      | None, BIdle => if implb (block_P p) blk then Some (set_base s t (BPWant blk)) else None
      | _, _ => None
      end
  | PLock t =>
      match hnd s t, base s t, ownP s with
      | None, BPWant blk, None => Some (set_ownP (set_base s t (BPHold blk)) (Some t))
      | _, _, _ => None
      end
  | PUnlock t =>
      match hnd s t, base s t with
      | None, BPHold blk => Some (set_ownP (set_base s t BIdle) None)
      | _, _ => None
      end
  | RegBegin t k sg blk =>
      match hnd s t, base s t with
      | None, BIdle => if negb (is_dead (t, k) (dead s)) && implb (block_C p) blk
                       then Some (set_base s t (BRegWant k sg blk)) else None
      | _, _ => None
      end
  | RegLock t =>
      match hnd s t, base s t, ownC s with
      | None, BRegWant k sg blk, None => Some (set_ownC (set_base s t (BRegHold k sg blk)) (Some t))
      | _, _, _ => None
      end
  | RegUnlock t h =>
      match hnd s t, base s t with
      | None, BRegHold k sg blk =>
          if Nat.eqb h (next s)
          then Some (set_ownC (set_reg (set_base s t BIdle) (reg s ++ [mkEntry (next s) (t, k) sg]) (S (next s)) (deleted s)) None)
          else None
      | _, _ => None
      end
  | RemBegin t h =>
      match hnd s t, base s t with
      | None, BIdle => Some (set_base s t (BRemWant h None))
      | None, BDtor k => Some (set_base s t (BRemWant h (Some k)))
      | _, _ => None
      end
  | RemLock t =>
      match hnd s t, base s t, ownC s with
      | None, BRemWant h d, None =>
          Some (set_ownC (set_reg (set_base s t (BRemHold h d)) (without h (reg s)) (next s)
                                  (if has_id h (reg s) && negb (shared_handlers p) then h :: deleted s else deleted s)) (Some t))
      | _, _, _ => None
      end
  | RemUnlock t =>
      match hnd s t, base s t with
      | None, BRemHold h d => Some (set_ownC (set_base s t (after_rem d)) None)
      | _, _ => None
      end
  | DtorBegin t k =>
      match hnd s t, base s t with
      | None, BIdle => if negb (is_dead (t, k) (dead s)) then Some (set_base s t (BDtor k)) else None
      | _, _ => None
      end
  | DtorEnd t =>
      match hnd s t, base s t with
      | None, BDtor k => if dtor_done p (t, k) (reg s) then Some (set_dead (set_base s t BIdle) ((t, k) :: dead s)) else None
      | _, _ => None
      end
  | SigEnter t sg =>
      if is_none (hnd s t) && negb (blocked (base s t)) then Some (set_hnd s t (Some (HWantC sg))) else None
  | HLockC t =>
      match hnd s t, ownC s with
      | Some (HWantC sg), None => Some (set_ownC (set_hnd s t (Some (HCopied (sig_entries sg (reg s))))) (Some t))
      | _, _ => None
      end
  | HStart t =>
      match hnd s t with
      | Some (HCopied snap) =>
          Some (set_ownC (set_hnd s t (Some (HLoop snap))) (if dispatch_locked p then ownC s else None))
      | _ => None
      end
  | HExec t h =>
      match hnd s t with
      | Some (HLoop (e :: rest)) => if Nat.eqb h (e_id e) then Some (set_hnd s t (Some (HBodyWantP e rest))) else None
      | _ => None
      end
  | HBodyLock t =>
      match hnd s t, ownP s with
      | Some (HBodyWantP e rest), None => Some (set_ownP (set_hnd s t (Some (HBodyHoldP e rest))) (Some t))
      | _, _ => None
      end
  | HBodyUnlock t =>
      match hnd s t with
      | Some (HBodyHoldP e rest) => Some (set_ownP (set_hnd s t (Some (HLoop rest))) None)
      | _ => None
      end
  | HBodyRelock t =>
      match hnd s t with
      | Some (HBodyHoldP e rest) =>
          if term_relock p && negb (Nat.eqb (e_sig e) 17) then Some (set_hnd s t (Some (HBodyRewantP e rest))) else None
      | _ => None
      end
  | HReturn t =>
      match hnd s t with
      | Some (HLoop []) => Some (set_ownC (set_hnd s t None) (if dispatch_locked p then None else ownC s))
      | _ => None
      end
  end.

Fixpoint run (p : proto) (s : state) (tr : list event) : option state :=
  match tr with
  | [] => Some s
  | e :: r => match step_fn p s e with Some s1 => run p s1 r | None => None end
  end.

Definition accepts (p : proto) (tr : list event) : bool :=
  match run p init tr with Some _ => true | None => false end.

(* ---- what is observed on a state ---- *)
(* the mutex the thread is waiting for (what its innermost activity is about to lock) *)
Definition waits (s : state) (t : nat) : option mutex :=
  match hnd s t with
  | Some (HWantC _) => Some MC
  | Some (HBodyWantP _ _) | Some (HBodyRewantP _ _) => Some MP
  | Some _ => None
  | None => match base s t with
            | BPWant _ => Some MP
            | BRegWant _ _ _ | BRemWant _ _ => Some MC
            | _ => None
            end
  end.
Definition owner (s : state) (x : mutex) : option nat := match x with MP => ownP s | MC => ownC s end.
(* the handler whose body (execute -> sigChildHandler / terminateHandler of its manager) the thread is running *)
Definition running_body (s : state) (t : nat) : option entry :=
  match hnd s t with
  | Some (HBodyWantP e _) | Some (HBodyHoldP e _) | Some (HBodyRewantP e _) => Some e
  | _ => None
  end.

(* for the OCaml driver: a summary of what the acceptor needs to print *)
Definition bad_body (s : state) (t : nat) : bool :=
  match running_body s t with
  | Some e => is_dead (e_mgr e) (dead s) || mem (e_id e) (deleted s)
  | None => false
  end.
Definition self_wait (s : state) (t : nat) : bool :=
  match waits s t with
  | Some MP => match ownP s with Some u => Nat.eqb u t | None => false end
  | Some MC => match ownC s with Some u => Nat.eqb u t | None => false end
  | None => false
  end.

(* C30 -- invariant of the repaired protocol by induction over every trace; refutation for the pinned code *)
From Coq Require Import List Arith Bool Lia.
From C30 Require Import C30Spec C30Model.
Import ListNotations.

Definition published (s : state) (st : status) : Prop :=
  isRunning s = false /\
  match st with
  | Exited c => exitStatus s = true /\ exitValue s = Some c
  | Signaled _ => exitStatus s = false /\ exitValue s = None
  end.

Definition Inv (s : state) : Prop :=
  match ch s with
  | Running => truth s = None /\ isRunning s = true /\ hlock s = None /\ (wp s = W0 \/ wp s = W1)
  | Zombie st => truth s = Some st /\ isRunning s = true /\ hlock s = None /\ (wp s = W0 \/ wp s = W1)
  | Reaped =>
      match truth s with
      | None => False
      | Some st =>
          (hlock s = Some (word_of st) /\ isRunning s = true /\ (wp s = W0 \/ wp s = W1 \/ wp s = W3)) \/
          (hlock s = None /\ isRunning s = true /\ wp s = W2 (word_of st)) \/
          (hlock s = None /\ published s st /\
           (wp s = W0 \/ wp s = W1 \/ wp s = W3 \/ wp s = WRet \/ wp s = Finished (expected st)))
      end
  end.

Lemma inv_init : Inv init.
Proof. unfold Inv, init; simpl; auto. Qed.

Lemma conclude_published : forall s st, published s st -> conclude s = expected st.
Proof.
  intros s st [_ P]; unfold conclude. destruct st as [[|c]|sg]; destruct P as [P1 P2]; rewrite P1, ?P2; reflexivity.
Qed.

Ltac break_hyp H :=
  repeat match type of H with
         | context [match ?x with _ => _ end] => destruct x eqn:?; try discriminate H
         | context [if ?x then _ else _] => destruct x eqn:?; try discriminate H
         end.

Ltac finish :=
  unfold Inv, published in *; simpl in *; subst;
  repeat (match goal with
          | H : _ /\ _ |- _ => destruct H
          | H : Some _ = Some _ |- _ => inversion H; subst; clear H
          | H : Bool.eqb _ _ = true |- _ => apply eqb_prop in H; subst
          | H : Nat.eqb _ _ = true |- _ => apply Nat.eqb_eq in H; subst
          | H : ?x = Some _ |- _ => is_var x; subst x
          | H : ?x = None |- _ => is_var x; subst x
          | H : ?x = true |- _ => is_var x; subst x
          | H : ?x = false |- _ => is_var x; subst x
          end; simpl in *);
  try discriminate; try contradiction;
  try (intuition (try discriminate; try congruence; auto 10); fail).

Lemma verdict_match : forall v c, (match v, c with
                    | Success, Success | KilledBySignal, KilledBySignal | OtherError, OtherError => true
                    | FailedWithValue a, FailedWithValue b => Nat.eqb a b
                    | _, _ => false end) = true -> v = c.
Proof. intros [] [] H; try discriminate; try reflexivity. apply Nat.eqb_eq in H; subst; reflexivity. Qed.

Lemma step_inv : forall s e s', step Repaired s e s' -> Inv s -> Inv s'.
Proof.
  intros [c t r es ev h w] e s' H I; unfold step in H.
  destruct e as [st| | | | |b| |u|u| | |v]; simpl in H.
  - break_hyp H; inversion H; subst; clear H; finish.
  - break_hyp H; inversion H; subst; clear H; finish.
  - unfold set_status in H; simpl in H. destruct h as [wd|]; [|discriminate].
    destruct c as [|st|]; [finish | finish |]. destruct t as [st|]; [|finish].
    unfold Inv, published in I; simpl in I. destruct I as [I|[I|I]]; [|finish|finish].
    destruct I as [I1 [I2 I3]]. inversion I1; subst wd.
    destruct st as [cd|sg]; simpl in H; inversion H; subst; clear H; unfold Inv, published; simpl; right; right; intuition.
  - break_hyp H; inversion H; subst; clear H; exact I.
  - break_hyp H; inversion H; subst; clear H; exact I.
  - destruct w; try discriminate. destruct (Bool.eqb b r) eqn:E; [|discriminate]. apply eqb_prop in E; subst b.
    inversion H; subst; clear H. destruct c as [|st|]; [finish|finish|]. destruct t as [st|]; [|finish].
    unfold Inv, published in *; simpl in *. destruct r; simpl; intuition (try discriminate; try congruence).
  - break_hyp H; inversion H; subst; clear H; finish.
  - destruct w; try discriminate. destruct c as [|st|]; try discriminate. inversion H; subst; clear H.
    destruct t as [st|]; [|finish]. unfold Inv, published in *; simpl in *. intuition (try discriminate; try congruence).
  - destruct w; try discriminate. inversion H; subst; clear H. exact I.
  - unfold set_status in H; simpl in H. destruct w as [| |wd| | | |]; try discriminate.
    destruct c as [|st|]; [finish|finish|]. destruct t as [st|]; [|finish].
    unfold Inv, published in I; simpl in I. destruct I as [I|[I|I]]; [finish| |finish].
    destruct I as [I1 [I2 I3]]. inversion I3; subst wd.
    destruct st as [cd|sg]; simpl in H; inversion H; subst; clear H; unfold Inv, published; simpl; right; right; intuition.
  - destruct w; try discriminate. destruct h; try discriminate. inversion H; subst; clear H.
    destruct c as [|st|]; [finish|finish|]. destruct t as [st|]; [|finish].
    unfold Inv, published in *; simpl in *. destruct I as [I|[I|I]]; [finish|finish|].
    destruct I as [_ [[P1 P2] _]]. subst r. simpl. right; right. intuition.
  - destruct w; try discriminate.
    + match type of H with (if ?g then _ else _) = _ => destruct g eqn:G end; [|discriminate].
      apply verdict_match in G. inversion H; subst; clear H.
      destruct c as [|st|]; [finish|finish|]. destruct t as [st|]; [|finish].
      unfold Inv in *; simpl in *. destruct I as [I|[I|I]]; [finish|finish|].
      destruct I as [I1 [P _]]. pose proof (conclude_published _ _ P) as C. rewrite C. right; right.
      unfold published in *; simpl in *. intuition.
    + destruct c as [|st|]; [finish|finish|]. destruct t as [st|]; [|finish]. finish.
Qed.

Lemma steps_inv : forall s tr s', steps Repaired s tr s' -> Inv s -> Inv s'.
Proof. induction 1; intro I; [exact I|]. apply IHsteps, (step_inv _ _ _ H I). Qed.

Lemma faithful_repaired : forall tr s, steps Repaired init tr s ->
  (forall v, wp s = Finished v -> exists st, truth s = Some st /\ v = expected st) /\ wp s <> WThrew.
Proof.
  intros tr s H. pose proof (steps_inv _ _ _ H inv_init) as I. unfold Inv in I.
  destruct (ch s) as [|st|].
  - split; [intros v E|]; intuition congruence.
  - split; [intros v E|]; intuition congruence.
  - destruct (truth s) as [st|]; [|contradiction]. split.
    + intros v E. exists st; split; [reflexivity|]. intuition congruence.
    + intuition congruence.
Qed.

(* the pinned code follows the same protocol as long as no blocking waitpid fails *)
Fixpoint no_waitpid_failure (tr : list event) : bool :=
  match tr with [] => true | WaitpidFails _ :: _ => false | WaitpidInterrupted _ :: _ => false | _ :: r => no_waitpid_failure r end.

Lemma pinned_as_repaired : forall s tr s', steps Pinned s tr s' -> no_waitpid_failure tr = true -> steps Repaired s tr s'.
Proof.
  induction 1; intro N; [constructor|].
  destruct e; simpl in N; try discriminate; (econstructor; [exact H | apply IHsteps; exact N]).
Qed.

Lemma faithful_pinned_without_failure : forall tr s, steps Pinned init tr s -> no_waitpid_failure tr = true ->
  forall v, wp s = Finished v -> exists st, truth s = Some st /\ v = expected st.
Proof. intros tr s H N. apply (faithful_repaired tr s (pinned_as_repaired _ _ _ H N)). Qed.

(* the pinned code misreports when the handler reaps between the test and the waitpid of wait() *)
Definition witness_success_for_failure : list event :=
  [TestRunning true; ChildExits (Exited 3); HandlerReaps; HandlerSets; WaitpidFails (WExit 0); WaitSets; Return Success].
Definition witness_signal_for_success : list event :=
  [TestRunning true; ChildExits (Exited 0); HandlerReaps; HandlerSets; WaitpidFails (WSig 9); WaitSets; Return KilledBySignal].
Definition witness_interrupted : list event :=
  [TestRunning true; WaitpidInterrupted (WExit 0); WaitSets; Return Success].
Definition witness_throw_for_success : list event :=
  [TestRunning true; ChildExits (Exited 0); HandlerReaps; HandlerSets; WaitpidFails WUnknown; WaitSets; Return OtherError].

Lemma run_sound : forall k tr s s', run k s tr = Some s' -> steps k s tr s'.
Proof.
  induction tr as [|e r IH]; intros s s' H; simpl in H.
  - inversion H; constructor.
  - destruct (step_fn k s e) as [s1|] eqn:E; [|discriminate]. econstructor; [exact E | apply IH; exact H].
Qed.
Lemma run_complete : forall k s tr s', steps k s tr s' -> run k s tr = Some s'.
Proof. induction 1; simpl; [reflexivity|]. unfold step in H; rewrite H. exact IHsteps. Qed.

Lemma refuted_pinned : exists tr s st v, steps Pinned init tr s /\ truth s = Some st /\ wp s = Finished v /\
  succeeds v = true /\ succeeds (expected st) = false.
Proof.
  exists witness_success_for_failure. eexists. exists (Exited 3), Success.
  split; [apply run_sound; vm_compute; reflexivity|]. repeat split.
Qed.

Lemma refuted_pinned_other : exists tr1 s1 tr2 s2,
  steps Pinned init tr1 s1 /\ truth s1 = Some (Exited 0) /\ wp s1 = Finished KilledBySignal /\
  steps Pinned init tr2 s2 /\ truth s2 = Some (Exited 0) /\ wp s2 = Finished OtherError.
Proof.
  exists witness_signal_for_success. eexists. exists witness_throw_for_success. eexists.
  split; [apply run_sound; vm_compute; reflexivity|]. split; [reflexivity|]. split; [reflexivity|].
  split; [apply run_sound; vm_compute; reflexivity|]. split; reflexivity.
Qed.

Lemma accepts_sound : forall k tr, accepts k tr = true -> exists s, steps k init tr s.
Proof.
  intros k tr H; unfold accepts in H. destruct (run k init tr) as [s|] eqn:E; [|discriminate].
  exists s; apply run_sound; exact E.
Qed.
Lemma accepts_complete : forall k tr s, steps k init tr s -> accepts k tr = true.
Proof. intros k tr s H; unfold accepts; rewrite (run_complete _ _ _ _ H); reflexivity. Qed.

Lemma refuted_pinned_interrupted : exists tr s, steps Pinned init tr s /\ wp s = Finished Success /\ truth s = None /\ ch s = Running.
Proof.
  exists witness_interrupted. eexists. split; [apply run_sound; vm_compute; reflexivity|]. repeat split.
Qed.

(* C30 -- the pinned code (wait() ignores a failing waitpid): selected by the check when a trace of the real code
   shows setProcessExitStatus being fed the status word of a failed waitpid. *)
From Coq Require Import List Arith Bool.
From C30 Require Import C30Spec C30Model C30Proofs.
Import ListNotations.

(* a command that exited with 3 is reported as a success *)
Theorem C30_exit_status_faithful_refuted : exists tr s st v,
  steps Pinned init tr s /\ truth s = Some st /\ wp s = Finished v /\ succeeds v = true /\ succeeds (expected st) = false.
Proof. exact refuted_pinned. Qed.
Print Assumptions C30_exit_status_faithful_refuted.

(* a command that exited with 0 is reported as killed by a signal, or execute() throws "unknown status" *)
Theorem C30_success_misreported_refuted : exists tr1 s1 tr2 s2,
  steps Pinned init tr1 s1 /\ truth s1 = Some (Exited 0) /\ wp s1 = Finished KilledBySignal /\
  steps Pinned init tr2 s2 /\ truth s2 = Some (Exited 0) /\ wp s2 = Finished OtherError.
Proof. exact refuted_pinned_other. Qed.
Print Assumptions C30_success_misreported_refuted.

(* a SIGCHLD for another child interrupts the blocking waitpid (EINTR): execute() reports success while the command
   is still running *)
Theorem C30_reports_before_child_ended_refuted : exists tr s,
  steps Pinned init tr s /\ wp s = Finished Success /\ truth s = None /\ ch s = Running.
Proof. exact refuted_pinned_interrupted. Qed.
Print Assumptions C30_reports_before_child_ended_refuted.

(* C30 -- line-protocol driver around step_fn / init extracted from C30Model.v.
   stdin:  T <name> <pinned|repaired>
           X <word> | HR | HS | HN0 | HNE | T0 | T1 | WP1 | WF <word> | WI <word> | WS | WY | R <verdict>
           END
   words: 1000+c exited c, 2000+s signaled s, 3000 stopped, 4000 other; verdicts: 0 success, 1000+v failed with v,
   2000 killed by a signal, 4000 other error.
   stdout: ACCEPT <name> | REJECT <name> at=<i> line=<text> *)
open C30_model

let rec nat_of_int n = if n <= 0 then O else S (nat_of_int (n - 1))
let word_of_code c =
  if c >= 1000 && c < 2000 then WExit (nat_of_int (c - 1000))
  else if c >= 2000 && c < 3000 then WSig (nat_of_int (c - 2000))
  else if c = 3000 then WStopped else WUnknown
let status_of_code c = if c >= 2000 then Signaled (nat_of_int (c - 2000)) else Exited (nat_of_int (c - 1000))
let verdict_of_code c =
  if c = 0 then Success else if c >= 1000 && c < 2000 then FailedWithValue (nat_of_int (c - 1000))
  else if c = 2000 then KilledBySignal else OtherError

let event_of_line l =
  match String.split_on_char ' ' (String.trim l) with
  | ["X"; c] -> Some (ChildExits (status_of_code (int_of_string c)))
  | ["HR"] -> Some HandlerReaps
  | ["HS"] -> Some HandlerSets
  | ["HN0"] -> Some HandlerSeesRunning
  | ["HNE"] -> Some HandlerSeesNoChild
  | ["T0"] -> Some (TestRunning false)
  | ["T1"] -> Some (TestRunning true)
  | ["WP1"] -> Some WaitpidReaps
  | ["WF"; c] -> Some (WaitpidFails (word_of_code (int_of_string c)))
  | ["WI"; c] -> Some (WaitpidInterrupted (word_of_code (int_of_string c)))
  | ["WS"] -> Some WaitSets
  | ["WY"] -> Some WaitSyncs
  | ["R"; c] -> Some (Return (verdict_of_code (int_of_string c)))
  | _ -> None

let () =
  let name = ref "" and kind = ref Pinned and st = ref (Some init) and idx = ref 0 and verdict = ref "" in
  let finish () =
    if !name <> "" then
      (if !verdict = "" then Printf.printf "ACCEPT %s\n" !name else Printf.printf "REJECT %s %s\n" !name !verdict) in
  (try
    while true do
      let l = input_line stdin in
      match String.split_on_char ' ' (String.trim l) with
      | ["T"; nm; k] -> name := nm; kind := (if k = "pinned" then Pinned else Repaired); st := Some init; idx := 0; verdict := ""
      | ["END"] -> finish (); name := ""
      | _ ->
          (if !verdict = "" then
             match !st, (try event_of_line l with _ -> None) with
             | Some s, Some e ->
                 (match step_fn !kind s e with
                  | Some s1 -> st := Some s1
                  | None -> verdict := Printf.sprintf "at=%d line=%s why=step-not-enabled" !idx (String.trim l))
             | _, None -> verdict := Printf.sprintf "at=%d line=%s why=not-an-event" !idx (String.trim l)
             | None, _ -> ());
          incr idx
    done
  with End_of_file -> ());
  finish ()

"""C30 -- child-process exit status is reported faithfully under any schedule.
Engine H: Gallina model of ProcessManager::wait / sigChildHandler / setProcessExitStatus / execute for one child and any
number of handler invocations (C30Model.v, kinds Pinned / Repaired); faithfulness proved for the repaired protocol over
every interleaving, refuted for the pinned one.  Tie: the REAL ProcessManager.cxx / SignalManager.cxx are compiled into
driver.cxx; waitpid / fork / the global mutexes are observed by link-time wrappers (no source hook); the waitpid wrapper
is the schedule control (hold the blocking waitpid of wait() until the SIGCHLD handler has reaped).  Every execute() is
turned into a model trace and fed to the extracted acceptor; the reported verdict is compared with how the command
really ended (known by construction).

Second part (handler lifetime F19, lock discipline of the signal handler F22): C30SigModel.v is a transition system over any
number of threads / managers / handlers / signals (treatAction copying the handlers, calling them with or without
callbacksAccess, removeHandler + ~ProcessManager, sections of processesAccess with or without the signals blocked,
terminateHandler).  Proved for every interleaving of the repaired protocol: no handler body runs for a destroyed manager, no
thread waits for a mutex it holds, wait chains end; refuted with concrete schedules for the pinned one.  Tie: the driver
also wraps sigaction, SignalManager::registerHandler/removeHandler (proxy handlers, tombstones) and knows the owners of
the two mutexes; forced schedules (`lifetime`, `stale`, `storm P|C`, `terminate`) and the multi-thread scenarios are
translated to model events (sigtrace.py) and judged by the extracted acceptor under several protocols: the code is
classified per aspect, a breach is reported only when it is observed on a real trace."""
import os, re, sys, threading
sys.path.insert(0, os.path.dirname(os.path.abspath(__file__)))
import sigtrace
from concurrent.futures import ThreadPoolExecutor
from vlib import guarded_main

REPO_SOURCES = ["src/System/ProcessManager.cxx", "src/System/SignalManager.cxx", "src/System/SignalHandler.cxx",
                "src/System/System.cxx", "src/System/SystemError.cxx", "src/System/ProcessManager-c.c",
                "src/Exception/TFELException.cxx"]
WRAP = ["-Wl,--wrap=" + f for f in ("waitpid", "fork", "pthread_mutex_lock", "pthread_mutex_unlock", "sigaction",
                                      "_ZN4tfel6system13SignalManager15registerHandlerEiPNS0_13SignalHandlerER9sigaction",
                                      "_ZN4tfel6system13SignalManager13removeHandlerEm")]
MODEL = ["C30Spec.v", "C30Model.v"]
SIGMODEL = ["C30SigModel.v"]
EXTRACT_SIG = """From Coq Require Import ExtrOcamlBasic.
From C30 Require Import C30SigModel.
Extraction "c30sig_model.ml" step_fn init bad_body self_wait running_body is_dead mem Current.
"""
EXTRACT = """From Coq Require Import ExtrOcamlBasic.
From C30 Require Import C30Spec C30Model.
Extraction "c30_model.ml" step_fn init.
"""
ECHILD, EINTR = 10, 4


def expected_verdict(code):
    if code < 0:
        return 2000
    return 0 if code == 0 else 1000 + code


def vname(v):
    return "success" if v == 0 else ("killed-by-signal" if v == 2000 else ("other-error" if v == 4000 else "failed-with-value-%d" % (v - 1000)))


def parse(out):
    evs = []
    for l in out.splitlines():
        t = l.split()
        if len(t) == 5:
            evs.append((int(t[0]), t[1], int(t[2]), int(t[3]), int(t[4])))
    return evs


def translate(evs):
    """-> list of per-execute records: {idx, code, verdict, pid, variants: {(kind, hs): [event lines]}, waitpid_failed}"""
    recs = []
    execs = {}   # idx -> (call pos, ret pos, tid, code, verdict)
    open_by_tid = {}
    for pos, (tid, kind, a, b, c) in enumerate(evs):
        if kind == "EXEC_CALL":
            open_by_tid[tid] = [a, pos, b]
        elif kind == "EXEC_RET" and tid in open_by_tid:
            idx, cpos, code = open_by_tid.pop(tid)
            execs[idx] = (cpos, pos, tid, code, b)
    for idx, (cpos, rpos, tid, code, verdict) in sorted(execs.items()):
        pid, fpos = None, None
        for pos in range(cpos, rpos):
            e = evs[pos]
            if e[0] == tid and e[1] == "FORK":
                pid, fpos = e[2], pos
                break
        rec = {"idx": idx, "code": code, "verdict": verdict, "pid": pid, "variants": {}, "waitpid_failed": False, "raw": []}
        recs.append(rec)
        if pid is None:
            continue
        items = []      # (key, text)  sorted by key afterwards
        hs_late = {}    # handler reap pos -> unlock pos
        blocking = []
        reap = None     # (key, who)
        implied = []    # positions of events that imply the child has been reaped
        for pos in range(fpos, rpos + 1):
            e = evs[pos]
            if e[1] == "WNOHANG_RET" and e[2] == pid:
                rec["raw"].append((pos,) + e)
                if e[3] == pid:
                    reap = (pos, "H", e[4])
                    u = next((q for q in range(pos + 1, len(evs)) if evs[q][0] == e[0] and evs[q][1] == "PUNLOCK"), pos + 1)
                    hs_late[pos] = u
                elif e[3] == 0:
                    items.append([pos, "HN0"])
                else:
                    items.append([pos, "HNE"])
                    implied.append(pos)
            elif e[0] == tid and e[1] == "WAITPID_ENTER" and e[2] == pid:
                rec["raw"].append((pos,) + e)
                blocking.append(pos)
            elif e[0] == tid and e[1] == "WAITPID_RET" and e[2] == pid:
                rec["raw"].append((pos,) + e)
                if e[3] == pid:
                    reap = (pos, "W", e[4])
                elif e[3] == -EINTR:
                    items.append([pos, "WI %d" % e[4], "after-fail"])
                    rec["waitpid_failed"] = True
                else:
                    items.append([pos, "WF %d" % e[4], "after-fail"])
                    implied.append(pos)
                    rec["waitpid_failed"] = True
        if reap is not None:
            rkey = float(reap[0])
            if implied and min(implied) < rkey:
                rkey = min(implied) - 0.5
            # a poll that saw the child running was made before the child ended
            for it in items:
                if it[1] == "HN0" and it[0] > rkey:
                    it[0] = rkey - 0.7
            items.append([rkey - 0.2, "X %d" % reap[2]])
            items.append([rkey, "HR" if reap[1] == "H" else "WP1"])
        for kind in ("pinned", "repaired"):
            for hs in ("late", "early"):
                its = [list(x) for x in items]
                if reap is not None and reap[1] == "H":
                    its.append([rkey + 0.1 if hs == "early" else max(float(hs_late.get(reap[0], reap[0])), rkey + 0.1), "HS"])
                if blocking:
                    its.append([fpos + 0.1, "T1"])
                    last = None
                    for x in sorted(its):
                        if x[1] == "WP1" or x[1].startswith("WF") or x[1].startswith("WI"):
                            last = x
                    tail = []
                    if last is not None:
                        if last[1] == "WP1":
                            tail = ["WS"]
                        elif kind == "pinned":
                            tail = ["WS"]
                        elif last[1].startswith("WF"):
                            tail = ["WY"]
                    # in the pinned code every failed waitpid ends wait(): only the last one can be followed by the set
                    for j, t in enumerate(tail):
                        its.append([rpos - 0.5 + 0.1 * j, t])
                else:
                    its.append([rpos - 0.5, "T0"])
                its.append([rpos, "R %d" % verdict])
                its.sort(key=lambda x: x[0])
                lines = [x[1] for x in its]
                if not blocking and hs == "late":
                    # wait() saw isRunning == false: the handler had published before that read
                    if "HS" in lines and lines.index("HS") > lines.index("T0"):
                        lines.remove("HS")
                        lines.insert(lines.index("T0"), "HS")
                rec["variants"][(kind, hs)] = lines
    return recs


FORCED = {"lifetime": "F19:handler-called-after-removal", "stale": "F19:stale-sigterm-handler",
          "storm-P": "F22:sigchld-in-findProcess", "storm-C": "F22:sigchld-in-registerHandler",
          "terminate": "F22:terminateHandler-relock"}
PROTOS = [("len", {}), ("bp", {"bp": 1}), ("bc", {"bc": 1}), ("fg", {"fg": "-"}), ("rl", {"rl": 0}),
          ("strict", dict(sigtrace.STRICT))]


def judge_sig(c, acc_sig, runs):
    """runs: list of (name, scenario text, rc, events, stderr).  Returns the classification of the code."""
    text = []
    tr = {}
    for ix, (name, txt, rc, evs, err) in enumerate(runs):
        for dl in (0, 1):
            lines, posl, stop = sigtrace.translate(evs, dl)
            tr[(ix, dl)] = (lines, posl, stop)
            for tag, over in PROTOS:
                fl = dict(sigtrace.LENIENT)
                fl.update(over)
                text.append(sigtrace.proto_line("%d:%d:%s" % (ix, dl, tag), dl, fl))
                text.extend(lines)
                text.append("END")
    rc, out, err = c.run([acc_sig], input="\n".join(text) + "\n", timeout=900)
    res = {}
    for l in out.splitlines():
        t = l.split(" ", 2)
        if len(t) >= 2 and t[0] in ("ACCEPT", "REJECT"):
            i, dl, tag = t[1].split(":")
            res[(int(i), int(dl), tag)] = (t[0] == "ACCEPT", t[2] if len(t) > 2 else "")
    if len(res) != len(runs) * 2 * len(PROTOS):
        c.report("acceptor-sig", "the extracted acceptor of C30SigModel judged %d of %d traces (rc=%d): %s" % (
            len(res), len(runs) * 2 * len(PROTOS), rc, err[-300:]), {}, False)
    ok = lambda i, dl, tag: res.get((i, dl, tag), (False, ""))[0]
    n = range(len(runs))
    # the variant (handlers called with / without callbacksAccess) that explains more traces; traces that fit neither are reported
    dl = 1 if sum(1 for i in n if ok(i, 1, "len")) >= sum(1 for i in n if ok(i, 0, "len")) else 0
    fits = [i for i in n if ok(i, dl, "len")]
    flags = {tag: all(ok(i, dl, tag) for i in fits) for tag, _ in PROTOS}
    cls = {"dispatch_locked": bool(dl), "block_P": flags["bp"], "block_C": flags["bc"], "dtor_removes_all": flags["fg"],
           "no_relock": flags["rl"]}
    lifetime_ok = cls["dispatch_locked"] and cls["dtor_removes_all"]
    lock_ok = cls["block_P"] and cls["block_C"] and cls["no_relock"]
    c.log("signal-handler protocol of the code: %s -> lifetime %s, lock discipline %s" % (
        cls, "repaired" if lifetime_ok else "pinned", "repaired" if lock_ok else "pinned"))
    accepted = 0
    breaches = set()
    for ix, (name, txt, rc, evs, err) in enumerate(runs):
        lines, posl, stop = tr[(ix, dl)]
        good, why = res.get((ix, dl, "len"), (False, "no verdict"))
        base = name.split("#")[0]
        rep = {"scenario_name": name, "scenario": txt, "driver_exit_status": rc, "protocol_variant": "handlers called %s callbacksAccess" % ("with" if dl else "without"),
               "model_events_tail": lines[-60:], "how": "props/C30/driver < scenario; log -> sigtrace.translate -> acceptor_sig (C30SigModel.step_fn)"}
        c.count(1, ("sig", name), any(x.startswith("HX") for x in lines))
        if not good:
            m = re.search(r"at=(\d+)", why)
            at = int(m.group(1)) if m else 0
            rep["log_around_the_rejected_event"] = sigtrace.show(evs, posl[at] - 25, posl[at] + 5) if at < len(posl) else []
            rep["model_events_tail"] = lines[max(0, at - 40):at + 3]
            c.report("reject-sig:%s" % name, "scenario %s: the trace of the real SignalManager/ProcessManager is not a run of C30SigModel (any protocol): %s" % (
                name, why), rep, True)
            continue
        accepted += 1
        m = re.match(r"bad=(\S+)", why)
        bad = m.group(1) if m else "none"
        kind = None
        if stop is not None and stop[0] in ("deleted", "dead"):
            kind = "body"
        elif stop is not None and stop[0].startswith("selflock"):
            kind = "selfwait"
        elif bad != "none":
            kind = "body" if bad.startswith("body") else "selfwait"
        if ix % 5 == 0:
            c.sample({"scenario": name, "sig_model_events_head": lines[:14], "events": len(lines), "breach": bad})
        if kind is None:
            continue
        pos = stop[1] if stop is not None else posl[int(bad.split("@")[1])]
        rep["log_before_the_breach"] = sigtrace.show(evs, pos - 45, pos)
        rep["model_verdict_on_the_reached_state"] = bad
        rep["driver_observation"] = list(stop) if stop is not None else None
        if (kind == "body") != bad.startswith("body") or bad == "none":
            c.report("unexplained:%s" % name, "scenario %s: the driver observed %s but the model state reached by the same trace says %s" % (
                name, stop, bad), rep, True)
            continue
        breaches.add(kind)
        if kind == "body":
            what = ("scenario %s: thread %d, inside SignalManager::treatAction, calls handler %s %s (model: %s)" % (
                name, stop[2] if stop else -1, stop[3] if stop else "?", "which removeHandler has deleted" if (stop and stop[0] == "deleted") else
                "of a ProcessManager whose destructor has returned", bad))
            aspect_ok = lifetime_ok
            key = FORCED[base] if base in ("lifetime", "stale") else (
                "F19:concurrent-managers" if base.startswith("threads") or base == "replay" else "breach:%s:body" % base)
        else:
            what = ("scenario %s: thread %d locks %s, which it already holds (%s) (model: %s)" % (
                name, stop[2] if stop else -1, "callbacksAccess" if (stop and stop[0] == "selflock-C") else "processesAccess",
                "the signal handler interrupted the holder" if not any(x.startswith("BR") for x in lines[-2:]) else
                "terminateHandler -> sendSignal -> findProcess", bad))
            aspect_ok = lock_ok
            key = FORCED[base] if base in ("storm-P", "storm-C", "terminate") else (
                "F22:deadlock-sigchld-handler" if base.startswith("threads") or base == "replay" else "breach:%s:selfwait" % base)
        if aspect_ok:
            key = "breach:%s:%s" % (name, kind)   # the code follows the repaired protocol: this must not happen
        c.report(key, what, rep, True)
    # every weakness of the protocol must have been exhibited by a forced schedule
    if not lifetime_ok and "body" not in breaches:
        c.report("sig-protocol:lifetime", "the code does not follow the repaired handler-lifetime protocol (%s) but no schedule exhibiting a handler "
                 "body for a destroyed manager was observed" % cls, {"classification": cls}, False)
    if not lock_ok and "selfwait" not in breaches:
        c.report("sig-protocol:locks", "the code does not follow the repaired lock discipline (%s) but no schedule exhibiting a thread locking a mutex it "
                 "holds was observed" % cls, {"classification": cls}, False)
    return cls, lifetime_ok, lock_ok, accepted


def main(c):
    exe = c.cxx("driver", ["driver.cxx"], REPO_SOURCES, libs=WRAP)
    c.log("driver built")
    with ThreadPoolExecutor(max_workers=2) as ex:
        f1 = ex.submit(c.ocaml_extract, "c30", MODEL, EXTRACT, "acceptor.ml")
        f2 = ex.submit(c.ocaml_extract, "c30sig", SIGMODEL, EXTRACT_SIG, "acceptor_sig.ml")
        acc, acc_sig = f1.result(), f2.result()
    c.log("acceptors extracted")
    c.trusted("link-time wrappers of waitpid / fork / pthread_mutex_lock / pthread_mutex_unlock / sigaction / SignalManager::registerHandler / "
              "SignalManager::removeHandler in props/C30/driver.cxx (log, schedule control, proxy handlers and tombstones, owner of each mutex, "
              "optional choice of the unspecified status word after a failed waitpid)",
              "python translation of the log of each execute() into model events, including the choice of a linearisation where the log "
              "order of two threads does not determine the real order (props/C30/check.py translate); python translation of the whole log of a "
              "scenario into events of C30SigModel (props/C30/sigtrace.py)",
              "POSIX waitpid / SIGCHLD / signal-mask semantics as written in C30Model.v and C30SigModel.v; the ground truth of each command "
              "(the helper `driver --child ms code`)")
    if c.replay:
        scen = [(c.replay["replay"].get("scenario_name", "replay"), c.replay["replay"]["scenario"])]
    else:
        scen = [("plain", "threads 1\n" + "".join("cmd 0 %d %d none none\n" % (code, ms) for code, ms in
                                                    [(0, 0), (0, 20), (1, 5), (3, 20), (255, 0), (-9, 10), (-15, 0), (-11, 5), (7, 30)])),
                ("handler-first-exit3-poison-exit0", "threads 1\ncmd 0 3 20 handler-first exit0\n"),
                ("handler-first-exit0-poison-sig9", "threads 1\ncmd 0 0 20 handler-first sig9\n"),
                ("handler-first-exit0-poison-unknown", "threads 1\ncmd 0 0 20 handler-first unknown\n"),
                ("handler-first-exit0-poison-stopped", "threads 1\ncmd 0 0 20 handler-first stopped\n"),
                ("handler-first-exit0-no-poison", "threads 1\ncmd 0 0 20 handler-first none\ncmd 0 5 20 handler-first none\ncmd 0 -9 20 handler-first none\n"),
                ("interrupted", "threads 1\ncmd 0 3 120 interrupted none\ncmd 0 0 120 interrupted none\ncmd 0 -9 120 interrupted none\n"),
                # forced schedules of the signal-handler part
                ("lifetime", "lifetime %d\n" % c.pick(40, 300)),
                ("stale", "stale\n"),
                ("storm-P", "storm P\nthreads 1\ncmd 0 0 30 none none\ncmd 0 3 0 none none\ncmd 0 -9 10 none none\n"),
                ("storm-C", "storm C\nthreads 1\ncmd 0 0 30 none none\ncmd 0 3 0 none none\n"),
                ("terminate", "terminate\n")]
        for i in range(c.pick(6, 80)):
            nt = c.rng.choice([2, 2, 4, 4, 8, 16])
            txt = "threads %d\n" % nt
            if i % 3 == 2:
                txt += "churn 1\n"   # one ProcessManager per command, destroyed at once, as tfel-check does
            for t in range(nt):
                for _ in range(c.rng.randint(2, 4)):
                    txt += "cmd %d %d %d %s none\n" % (t, c.rng.choice([0, 0, 0, 1, 2, 3, 42, 255, -9, -15]), c.rng.choice([0, 1, 5, 10, 25]),
                                                      c.rng.choice(["none", "none", "random", "handler-first"]))
            scen.append(("threads-%d" % i, txt))
    results = {}
    lock = threading.Lock()

    def run_one(ix):
        logf = os.path.join(c.work, "log_%d.bin" % ix)
        rc, out, err = c.run([exe], input=scen[ix][1], timeout=300, env={"C30_LOG": logf})
        evs = sigtrace.parse_text(out)
        if not evs:
            evs = sigtrace.parse_bin(logf)   # the driver died before printing its log
        try:
            os.remove(logf)
        except OSError:
            pass
        with lock:
            results[ix] = (rc, evs, err)

    with ThreadPoolExecutor(max_workers=3) as ex:
        list(ex.map(run_one, range(len(scen))))
    c.log("%d scenarios run on the real ProcessManager / SignalManager" % len(scen))
    allrecs = []
    text = ""
    sigruns = []
    for ix, (name, txt) in enumerate(scen):
        rc, evs, err = results[ix]
        base = name.split("#")[0]
        if rc == 124 and not any(e[1] == "SELFLOCK" for e in evs):
            rc = 97   # the harness had to kill the driver: judged like a hang seen by its own watchdog
        if rc == 97:
            stacks = [l[:160] for l in err.splitlines() if l.startswith("#") or l.startswith("Thread")]
            alloc = [l for l in stacks if re.search(r"malloc|_int_free|__libc_free|operator new|operator delete|arena", l)]
            if alloc and any("<signal handler called>" in l for l in stacks) and any("treatAction" in l for l in stacks):
                c.report("F24:allocation-in-signal-handler", "scenario %s did not finish: a thread is blocked in the memory allocator below "
                         "SignalManager::treatAction, called from the signal handler (the handlers allocate memory: not async-signal-safe)" % name,
                         {"scenario_name": name, "scenario": txt, "stacks_of_all_threads_after_60s": stacks[:160]}, True)
            elif any("sigChildHandler" in l for l in stacks) and any("<signal handler called>" in l for l in stacks):
                c.report("F22:deadlock-sigchld-handler", "scenario %s did not finish: threads are blocked in ProcessManager::sigChildHandler, called from the SIGCHLD "
                         "signal handler, on the non-recursive mutex processesAccess already held by the interrupted thread" % name,
                         {"scenario_name": name, "scenario": txt, "stacks_of_all_threads_after_60s": stacks[:120]}, True)
            else:
                c.report("hang:" + name, "scenario %s did not finish within 60 s" % name,
                         {"scenario_name": name, "scenario": txt, "stacks_of_all_threads_after_60s": stacks[:120],
                          "log_tail": sigtrace.show(evs, len(evs) - 60, len(evs))}, True)
            continue
        expected_rc = (0, 96) if base != "terminate" else (1, 96)
        if rc < 0 and evs:
            why = sigtrace.f19_crash_evidence(evs)
            if why is not None:
                c.report("F19:concurrent-managers", "scenario %s: the driver was killed by signal %d: %s" % (name, -rc, why),
                         {"scenario_name": name, "scenario": txt, "log_tail": sigtrace.show(evs, len(evs) - 80, len(evs))}, True)
                continue
        if rc not in expected_rc or not evs:
            c.report("driver:" + name, "driver ended with status %d on scenario %s: %s" % (rc, name, err[-400:]),
                     {"scenario_name": name, "scenario": txt, "stderr": err[-2000:], "log_tail": sigtrace.show(evs, len(evs) - 60, len(evs))}, False)
            if not evs:
                continue
        sigruns.append((name, txt, rc, evs, err))
        if base == "stale" and not any(e[1] == "NOTE" and e[2] == 1 for e in evs):
            c.report("outcome:stale", "scenario stale: the process did not survive a SIGTERM raised after the destruction of its only ProcessManager",
                     {"scenario": txt, "log_tail": sigtrace.show(evs, len(evs) - 40, len(evs))}, True)
        if base == "terminate" and rc == 1:
            pids = [e[3] for e in evs if e[1] == "NOTE" and e[2] == 2]
            reaped = any(e[1] == "WAITPID_RET" and pids and e[2] == pids[0] and e[3] == pids[0] for e in evs)
            if not reaped or any(e[1] == "NOTE" and e[2] == 3 for e in evs):
                c.report("outcome:terminate", "scenario terminate: SIGTERM with a running child: terminateHandler did not kill and reap the child before leaving",
                         {"scenario": txt, "log_tail": sigtrace.show(evs, len(evs) - 40, len(evs))}, True)
        for rec in translate([(e[0], e[1], e[2], e[3], e[4]) for e in evs]):
            rec["scenario"], rec["scenario_text"] = name, txt
            rec["id"] = len(allrecs)
            rec["foreign_reap"] = [" ".join(str(x) for x in (p,) + e) for p, e in enumerate(evs)
                                   if e[1] == "WNOHANG_RET" and e[2] != rec["pid"] and e[3] == rec["pid"]]
            allrecs.append(rec)
            for (kind, hs), lines in rec["variants"].items():
                text += "T %d:%s:%s %s\n%s\nEND\n" % (rec["id"], kind, hs, kind, "\n".join(lines))
    rc, out, err = c.run([acc], input=text, timeout=600)
    ok = {}
    why = {}
    for l in out.splitlines():
        t = l.split(" ", 2)
        if len(t) >= 2 and t[0] in ("ACCEPT", "REJECT"):
            i, kind, hs = t[1].split(":")
            ok.setdefault((int(i), kind), False)
            if t[0] == "ACCEPT":
                ok[(int(i), kind)] = True
            else:
                why[(int(i), kind)] = t[2] if len(t) > 2 else ""
    n_rep = sum(1 for r in allrecs if ok.get((r["id"], "repaired")))
    n_pin = sum(1 for r in allrecs if ok.get((r["id"], "pinned")))
    judged = [r for r in allrecs if r["variants"]]
    kind = "repaired" if n_rep == len(judged) else "pinned"
    c.log("%d executes; accepted as repaired protocol: %d, as pinned protocol: %d -> code classified %s" % (len(judged), n_rep, n_pin, kind))
    accepted = 0
    f8_multi = None
    wrong = 0
    for r in allrecs:
        name = r["scenario"]
        exp = expected_verdict(r["code"])
        nontrivial = r["waitpid_failed"] or any("HR" in v for v in r["variants"].values())
        c.count(1, (name, r["idx"]), nontrivial)
        rep = {"scenario_name": name, "scenario": r["scenario_text"], "execute_index": r["idx"], "command_ends_with": r["code"],
               "reported": vname(r["verdict"]), "expected": vname(exp), "log_of_this_child": [" ".join(str(x) for x in e) for e in r["raw"]],
               "model_events": {"%s/%s" % k: v for k, v in r["variants"].items()},
               "how": "props/C30/driver < scenario (driver --child <ms> <code> is the command)"}
        if r["foreign_reap"]:
            rep["child_reaped_by_a_waitpid_on_another_pid"] = r["foreign_reap"]
        if r["id"] % 7 == 0:
            c.sample({"scenario": name, "command_ends_with": r["code"], "reported": vname(r["verdict"]),
                      "model_events": r["variants"].get((kind, "late")), "waitpid_failed": r["waitpid_failed"]})
        if not r["variants"]:
            c.report("nopid:%s:%d" % (name, r["idx"]), "no fork observed for execute %d of scenario %s" % (r["idx"], name), rep, False)
            continue
        foreign = (" -- the child was reaped by a WNOHANG waitpid that was not asked about this pid (%s): a handler reaps the children of "
                   "another ProcessManager" % r["foreign_reap"][0]) if r["foreign_reap"] else ""
        if ok.get((r["id"], kind)):
            accepted += 1
        else:
            c.report("reject:%s:%d" % (name, r["idx"]), "execute %d of scenario %s: the trace of the real ProcessManager is not a run of the %s model: %s%s" % (
                r["idx"], name, kind, why.get((r["id"], kind), ""), foreign), rep, True)
        if r["verdict"] != exp:
            wrong += 1
            what = ("command ending with %s reported as %s (expected %s) after the blocking waitpid of ProcessManager::wait failed and its status word was used" % (
                ("exit code %d" % r["code"]) if r["code"] >= 0 else ("signal %d" % -r["code"]), vname(r["verdict"]), vname(exp)))
            if r["waitpid_failed"] and kind == "pinned" and not r["foreign_reap"]:
                if name.startswith("handler-first"):
                    c.report("F8:%s:%d" % (name, r["idx"]), "scenario %s: %s" % (name, what), rep, True)
                elif f8_multi is None:
                    f8_multi = True
                    c.report("F8:concurrent-managers", "scenario %s: %s" % (name, what), rep, True)
            else:
                c.report("outcome:%s:%d" % (name, r["idx"]), "scenario %s execute %d: command ending with %d reported as %s (expected %s)%s" % (
                    name, r["idx"], r["code"], vname(r["verdict"]), vname(exp), foreign), rep, True)
    cls, lifetime_ok, lock_ok, acc_n = judge_sig(c, acc_sig, sigruns)
    c.coverage["traces_validated_against_impl"] = accepted + acc_n
    c.coverage["rule"] = ("fixed single-thread scenarios (plain commands exiting 0/1/3/7/255 or killed by 9/11/15; blocking waitpid held until the SIGCHLD handler "
                          "reaped, with the status word after the failed waitpid chosen as exit0/sig9/unknown/stopped or left alone) + seeded scenarios of 2-16 "
                          "threads with one ProcessManager each (or one per command) running 2-5 commands with random durations and delays; one evaluation = "
                          "one execute(), non-trivial = the SIGCHLD handler reaped the child or the blocking waitpid failed.  Signal-handler part: forced "
                          "schedules `lifetime` (N rounds: thread 0 inside treatAction while thread 1 destroys its manager), `stale` (SIGTERM after the "
                          "destruction), `storm P|C` (a SIGCHLD after every acquisition of the mutex outside a handler), `terminate` (SIGTERM with a running "
                          "child) + the whole log of every scenario; one evaluation = one scenario judged by the acceptor of C30SigModel, non-trivial = a "
                          "handler was called")
    c.notes.append("code classified as '%s' protocol; executes with a wrong report: %d of %d; executes whose blocking waitpid failed: %d" % (
        kind, wrong, len(allrecs), sum(1 for r in allrecs if r["waitpid_failed"])))
    c.notes.append("signal-handler protocol observed: %s; handler-lifetime theorem applies: %s; lock-discipline theorems apply: %s" % (cls, lifetime_ok, lock_ok))
    c.notes.append("no source hook needed: the delay point between the isRunning test and waitpid is the entry of the wrapped waitpid")
    files = MODEL + ["C30Proofs.v", "Properties_C30.v"] + (["Properties_C30_pinned.v"] if kind == "pinned" else [])
    files += SIGMODEL + ["C30SigProofs.v", "Properties_C30_sig.v"] + ([] if (lifetime_ok and lock_ok) else ["Properties_C30_sig_pinned.v"])
    res = c.coq(files, timeout=900)
    if not res.ok:
        c.coq_failures(res)


guarded_main("C30", main)

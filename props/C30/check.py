"""C30 -- child-process exit status is reported faithfully under any schedule.
Engine H: Gallina model of ProcessManager::wait / sigChildHandler / setProcessExitStatus / execute for one child and any
number of handler invocations (C30Model.v, kinds Pinned / Repaired); faithfulness proved for the repaired protocol over
every interleaving, refuted for the pinned one.  Tie: the REAL ProcessManager.cxx / SignalManager.cxx are compiled into
driver.cxx; waitpid / fork / the global mutexes are observed by link-time wrappers (no source hook); the waitpid wrapper
is the schedule control (hold the blocking waitpid of wait() until the SIGCHLD handler has reaped).  Every execute() is
turned into a model trace and fed to the extracted acceptor; the reported verdict is compared with how the command
really ended (known by construction)."""
import os, re, threading
from concurrent.futures import ThreadPoolExecutor
from vlib import guarded_main

REPO_SOURCES = ["src/System/ProcessManager.cxx", "src/System/SignalManager.cxx", "src/System/SignalHandler.cxx",
                "src/System/System.cxx", "src/System/SystemError.cxx", "src/System/ProcessManager-c.c",
                "src/Exception/TFELException.cxx"]
WRAP = ["-Wl,--wrap=" + f for f in ("waitpid", "fork", "pthread_mutex_lock", "pthread_mutex_unlock")]
MODEL = ["C30Spec.v", "C30Model.v"]
EXTRACT = """From Coq Require Import ExtrOcamlBasic.
From C30 Require Import C30Spec C30Model.
Extraction "c30_model.ml" step_fn init.
"""
ECHILD, EINTR = 10, 4


def expected_verdict(code):
    if code < 0:
        return 2000
    return 0 if code == 0 else 1000 + code


def vname(v):
    return "success" if v == 0 else ("killed-by-signal" if v == 2000 else ("other-error" if v == 4000 else "failed-with-value-%d" % (v - 1000)))


def parse(out):
    evs = []
    for l in out.splitlines():
        t = l.split()
        if len(t) == 5:
            evs.append((int(t[0]), t[1], int(t[2]), int(t[3]), int(t[4])))
    return evs


def translate(evs):
    """-> list of per-execute records: {idx, code, verdict, pid, variants: {(kind, hs): [event lines]}, waitpid_failed}"""
    recs = []
    execs = {}   # idx -> (call pos, ret pos, tid, code, verdict)
    open_by_tid = {}
    for pos, (tid, kind, a, b, c) in enumerate(evs):
        if kind == "EXEC_CALL":
            open_by_tid[tid] = [a, pos, b]
        elif kind == "EXEC_RET" and tid in open_by_tid:
            idx, cpos, code = open_by_tid.pop(tid)
            execs[idx] = (cpos, pos, tid, code, b)
    for idx, (cpos, rpos, tid, code, verdict) in sorted(execs.items()):
        pid, fpos = None, None
        for pos in range(cpos, rpos):
            e = evs[pos]
            if e[0] == tid and e[1] == "FORK":
                pid, fpos = e[2], pos
                break
        rec = {"idx": idx, "code": code, "verdict": verdict, "pid": pid, "variants": {}, "waitpid_failed": False, "raw": []}
        recs.append(rec)
        if pid is None:
            continue
        items = []      # (key, text)  sorted by key afterwards
        hs_late = {}    # handler reap pos -> unlock pos
        blocking = []
        reap = None     # (key, who)
        implied = []    # positions of events that imply the child has been reaped
        for pos in range(fpos, rpos + 1):
            e = evs[pos]
            if e[1] == "WNOHANG_RET" and e[2] == pid:
                rec["raw"].append((pos,) + e)
                if e[3] == pid:
                    reap = (pos, "H", e[4])
                    u = next((q for q in range(pos + 1, len(evs)) if evs[q][0] == e[0] and evs[q][1] == "PUNLOCK"), pos + 1)
                    hs_late[pos] = u
                elif e[3] == 0:
                    items.append([pos, "HN0"])
                else:
                    items.append([pos, "HNE"])
                    implied.append(pos)
            elif e[0] == tid and e[1] == "WAITPID_ENTER" and e[2] == pid:
                rec["raw"].append((pos,) + e)
                blocking.append(pos)
            elif e[0] == tid and e[1] == "WAITPID_RET" and e[2] == pid:
                rec["raw"].append((pos,) + e)
                if e[3] == pid:
                    reap = (pos, "W", e[4])
                elif e[3] == -EINTR:
                    items.append([pos, "WI %d" % e[4], "after-fail"])
                    rec["waitpid_failed"] = True
                else:
                    items.append([pos, "WF %d" % e[4], "after-fail"])
                    implied.append(pos)
                    rec["waitpid_failed"] = True
        if reap is not None:
            rkey = float(reap[0])
            if implied and min(implied) < rkey:
                rkey = min(implied) - 0.5
            # a poll that saw the child running was made before the child ended
            for it in items:
                if it[1] == "HN0" and it[0] > rkey:
                    it[0] = rkey - 0.7
            items.append([rkey - 0.2, "X %d" % reap[2]])
            items.append([rkey, "HR" if reap[1] == "H" else "WP1"])
        for kind in ("pinned", "repaired"):
            for hs in ("late", "early"):
                its = [list(x) for x in items]
                if reap is not None and reap[1] == "H":
                    its.append([rkey + 0.1 if hs == "early" else max(float(hs_late.get(reap[0], reap[0])), rkey + 0.1), "HS"])
                if blocking:
                    its.append([fpos + 0.1, "T1"])
                    last = None
                    for x in sorted(its):
                        if x[1] == "WP1" or x[1].startswith("WF") or x[1].startswith("WI"):
                            last = x
                    tail = []
                    if last is not None:
                        if last[1] == "WP1":
                            tail = ["WS"]
                        elif kind == "pinned":
                            tail = ["WS"]
                        elif last[1].startswith("WF"):
                            tail = ["WY"]
                    # in the pinned code every failed waitpid ends wait(): only the last one can be followed by the set
                    for j, t in enumerate(tail):
                        its.append([rpos - 0.5 + 0.1 * j, t])
                else:
                    its.append([rpos - 0.5, "T0"])
                its.append([rpos, "R %d" % verdict])
                its.sort(key=lambda x: x[0])
                lines = [x[1] for x in its]
                if not blocking and hs == "late":
                    # wait() saw isRunning == false: the handler had published before that read
                    if "HS" in lines and lines.index("HS") > lines.index("T0"):
                        lines.remove("HS")
                        lines.insert(lines.index("T0"), "HS")
                rec["variants"][(kind, hs)] = lines
    return recs


def main(c):
    exe = c.cxx("driver", ["driver.cxx"], REPO_SOURCES, libs=WRAP)
    c.log("driver built")
    acc = c.ocaml_extract("c30", MODEL, EXTRACT, "acceptor.ml")
    c.log("acceptor extracted")
    c.trusted("link-time wrappers of waitpid / fork / pthread_mutex_lock / pthread_mutex_unlock in props/C30/driver.cxx (log, schedule control, "
              "optional choice of the unspecified status word after a failed waitpid)",
              "python translation of the log of each execute() into model events, including the choice of a linearisation where the log "
              "order of two threads does not determine the real order (props/C30/check.py translate)",
              "POSIX waitpid / SIGCHLD semantics as written in C30Model.v; the ground truth of each command (the helper `driver --child ms code`)")
    if c.replay:
        scen = [(c.replay["replay"].get("scenario_name", "replay"), c.replay["replay"]["scenario"])]
    else:
        scen = [("plain", "threads 1\n" + "".join("cmd 0 %d %d none none\n" % (code, ms) for code, ms in
                                                    [(0, 0), (0, 20), (1, 5), (3, 20), (255, 0), (-9, 10), (-15, 0), (-11, 5), (7, 30)])),
                ("handler-first-exit3-poison-exit0", "threads 1\ncmd 0 3 20 handler-first exit0\n"),
                ("handler-first-exit0-poison-sig9", "threads 1\ncmd 0 0 20 handler-first sig9\n"),
                ("handler-first-exit0-poison-unknown", "threads 1\ncmd 0 0 20 handler-first unknown\n"),
                ("handler-first-exit0-poison-stopped", "threads 1\ncmd 0 0 20 handler-first stopped\n"),
                ("handler-first-exit0-no-poison", "threads 1\ncmd 0 0 20 handler-first none\ncmd 0 5 20 handler-first none\ncmd 0 -9 20 handler-first none\n")]
        for i in range(c.pick(6, 80)):
            nt = c.rng.choice([2, 2, 4, 4, 8, 16])
            txt = "threads %d\n" % nt
            for t in range(nt):
                for _ in range(c.rng.randint(2, 4)):
                    txt += "cmd %d %d %d %s none\n" % (t, c.rng.choice([0, 0, 0, 1, 2, 3, 42, 255, -9, -15]), c.rng.choice([0, 1, 5, 10, 25]),
                                                      c.rng.choice(["none", "none", "random", "handler-first"]))
            scen.append(("threads-%d" % i, txt))
    results = {}
    lock = threading.Lock()

    def run_one(ix):
        rc, out, err = c.run([exe], input=scen[ix][1], timeout=300)
        with lock:
            results[ix] = (rc, out, err)

    with ThreadPoolExecutor(max_workers=3) as ex:
        list(ex.map(run_one, range(len(scen))))
    c.log("%d scenarios run on the real ProcessManager" % len(scen))
    allrecs = []
    text = ""
    for ix, (name, txt) in enumerate(scen):
        rc, out, err = results[ix]
        if rc == 97:
            stacks = [l[:160] for l in err.splitlines() if l.startswith("#") or l.startswith("Thread")]
            if any("sigChildHandler" in l for l in stacks) and any("<signal handler called>" in l for l in stacks):
                c.report("F22:deadlock-sigchld-handler", "scenario %s did not finish: threads are blocked in ProcessManager::sigChildHandler, called from the SIGCHLD "
                         "signal handler, on the non-recursive mutex processesAccess already held by the interrupted thread" % name,
                         {"scenario_name": name, "scenario": txt, "stacks_of_all_threads_after_60s": stacks[:120]}, True)
                continue
        if rc != 0 or not out:
            c.report("driver:" + name, "driver failed (rc=%d) on scenario %s: %s" % (rc, name, err[-400:]),
                     {"scenario_name": name, "scenario": txt, "stderr": err[-2000:]}, False)
            continue
        for rec in translate(parse(out)):
            rec["scenario"], rec["scenario_text"] = name, txt
            rec["id"] = len(allrecs)
            allrecs.append(rec)
            for (kind, hs), lines in rec["variants"].items():
                text += "T %d:%s:%s %s\n%s\nEND\n" % (rec["id"], kind, hs, kind, "\n".join(lines))
    rc, out, err = c.run([acc], input=text, timeout=600)
    ok = {}
    why = {}
    for l in out.splitlines():
        t = l.split(" ", 2)
        if len(t) >= 2 and t[0] in ("ACCEPT", "REJECT"):
            i, kind, hs = t[1].split(":")
            ok.setdefault((int(i), kind), False)
            if t[0] == "ACCEPT":
                ok[(int(i), kind)] = True
            else:
                why[(int(i), kind)] = t[2] if len(t) > 2 else ""
    n_rep = sum(1 for r in allrecs if ok.get((r["id"], "repaired")))
    n_pin = sum(1 for r in allrecs if ok.get((r["id"], "pinned")))
    judged = [r for r in allrecs if r["variants"]]
    kind = "repaired" if n_rep == len(judged) else "pinned"
    c.log("%d executes; accepted as repaired protocol: %d, as pinned protocol: %d -> code classified %s" % (len(judged), n_rep, n_pin, kind))
    accepted = 0
    f8_multi = None
    wrong = 0
    for r in allrecs:
        name = r["scenario"]
        exp = expected_verdict(r["code"])
        nontrivial = r["waitpid_failed"] or any("HR" in v for v in r["variants"].values())
        c.count(1, (name, r["idx"]), nontrivial)
        rep = {"scenario_name": name, "scenario": r["scenario_text"], "execute_index": r["idx"], "command_ends_with": r["code"],
               "reported": vname(r["verdict"]), "expected": vname(exp), "log_of_this_child": [" ".join(str(x) for x in e) for e in r["raw"]],
               "model_events": {"%s/%s" % k: v for k, v in r["variants"].items()},
               "how": "props/C30/driver < scenario (driver --child <ms> <code> is the command)"}
        if r["id"] % 7 == 0:
            c.sample({"scenario": name, "command_ends_with": r["code"], "reported": vname(r["verdict"]),
                      "model_events": r["variants"].get((kind, "late")), "waitpid_failed": r["waitpid_failed"]})
        if not r["variants"]:
            c.report("nopid:%s:%d" % (name, r["idx"]), "no fork observed for execute %d of scenario %s" % (r["idx"], name), rep, False)
            continue
        if ok.get((r["id"], kind)):
            accepted += 1
        else:
            c.report("reject:%s:%d" % (name, r["idx"]), "execute %d of scenario %s: the trace of the real ProcessManager is not a run of the %s model: %s" % (
                r["idx"], name, kind, why.get((r["id"], kind), "")), rep, True)
        if r["verdict"] != exp:
            wrong += 1
            what = ("command ending with %s reported as %s (expected %s) after the blocking waitpid of ProcessManager::wait failed and its status word was used" % (
                ("exit code %d" % r["code"]) if r["code"] >= 0 else ("signal %d" % -r["code"]), vname(r["verdict"]), vname(exp)))
            if r["waitpid_failed"] and kind == "pinned":
                if name.startswith("handler-first"):
                    c.report("F8:%s:%d" % (name, r["idx"]), "scenario %s: %s" % (name, what), rep, True)
                elif f8_multi is None:
                    f8_multi = True
                    c.report("F8:concurrent-managers", "scenario %s: %s" % (name, what), rep, True)
            else:
                c.report("outcome:%s:%d" % (name, r["idx"]), "scenario %s execute %d: command ending with %d reported as %s (expected %s)" % (
                    name, r["idx"], r["code"], vname(r["verdict"]), vname(exp)), rep, True)
    c.coverage["traces_validated_against_impl"] = accepted
    c.coverage["rule"] = ("fixed single-thread scenarios (plain commands exiting 0/1/3/7/255 or killed by 9/11/15; blocking waitpid held until the SIGCHLD handler "
                          "reaped, with the status word after the failed waitpid chosen as exit0/sig9/unknown/stopped or left alone) + seeded scenarios of 2-16 "
                          "threads with one ProcessManager each running 2-5 commands with random durations and delays; one evaluation = one execute(); "
                          "non-trivial = the SIGCHLD handler reaped the child or the blocking waitpid failed")
    c.notes.append("code classified as '%s' protocol; executes with a wrong report: %d of %d; executes whose blocking waitpid failed: %d" % (
        kind, wrong, len(allrecs), sum(1 for r in allrecs if r["waitpid_failed"])))
    c.notes.append("no source hook needed: the delay point between the isRunning test and waitpid is the entry of the wrapped waitpid")
    files = MODEL + ["C30Proofs.v", "Properties_C30.v"] + (["Properties_C30_pinned.v"] if kind == "pinned" else [])
    res = c.coq(files, timeout=600)
    if not res.ok:
        c.coq_failures(res)


guarded_main("C30", main)

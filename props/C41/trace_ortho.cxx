// C41/C42: tracer + driver of the mfront-generated class C41OrthoElasticity (Default DSL, @OrthotropicBehaviour<Pipe>,
// @ComputeStiffnessTensor: the stiffness tensor is computed by the header-only code of include/TFEL/Material/StiffnessTensor.ixx).
//   trace_ortho gen <out.v> <seed> <ncases> <hyps>     hyps: comma separated subset of h3d,hax,hpe,hgp
// Coq definitions or_sig_<h>, or_Dt_<h> ( eto[S] deto[S] E1 E2 E3 n12 n23 n13 G12 G23 G13 ), and on stdout
//   AGREE ortho <h> n=<cases> bad=<n> worst=<rel>                     Sym DAG vs double instantiation
//   RUN ortho <h> in <eto deto E1 E2 E3 n12 n23 n13 G12 G23 G13> out <sig Dt>   double executions for the Python-side spec check
#include "gsym.hxx"
#define protected public
#define private public
#include "TFEL/Material/C41OrthoElasticity.hxx"
#undef protected
#undef private
using namespace gsym;
using namespace tfel::material;
using Hyp = ModellingHypothesis::Hypothesis;

template <Hyp h, typename T>
std::vector<T> ortho(const std::vector<T>& in) {
  using B = C41OrthoElasticity<h, T, false>;
  constexpr int S = ModellingHypothesisToStensorSize<h>::value;
  C41OrthoElasticityBehaviourData<h, T, false> bd;
  C41OrthoElasticityIntegrationData<h, T, false> id;
  for (int i = 0; i < S; ++i) {
    bd.eto[i] = in[i];
    id.deto[i] = in[S + i];
    bd.sig[i] = T(0);
  }
  bd.T = T(293);
  id.dT = T(0);
  id.dt = T(1);
  B b(bd, id);
  b.young1 = in[2 * S];
  b.young2 = in[2 * S + 1];
  b.young3 = in[2 * S + 2];
  b.nu12 = in[2 * S + 3];
  b.nu23 = in[2 * S + 4];
  b.nu13 = in[2 * S + 5];
  b.mu12 = in[2 * S + 6];
  b.mu23 = in[2 * S + 7];
  b.mu13 = in[2 * S + 8];
  if (!b.initialize()) throw std::runtime_error("initialize failed");
  if (b.integrate(B::STANDARDTANGENTOPERATOR, B::CONSISTENTTANGENTOPERATOR) != B::SUCCESS) throw std::runtime_error("integrate failed");
  std::vector<T> out;
  for (int i = 0; i < S; ++i) out.push_back(b.sig[i]);
  for (int i = 0; i < S; ++i)
    for (int j = 0; j < S; ++j) out.push_back(b.Dt(i, j));
  return out;
}

template <Hyp h>
void doit(Trace& tr, const std::string& tag, uint64_t seed, int ncases) {
  constexpr int S = ModellingHypothesisToStensorSize<h>::value;
  Groups gs{{"eto", S}, {"deto", S}, {"E1", 0}, {"E2", 0}, {"E3", 0}, {"n12", 0}, {"n23", 0}, {"n13", 0}, {"G12", 0}, {"G23", 0}, {"G13", 0}};
  auto ps = mkvars(gs);
  auto nm = names(gs);
  auto out = ortho<h, Sym>(ps);
  std::vector<Sym> sig(out.begin(), out.begin() + S), Dt(out.begin() + S, out.end());
  tr.def("or_sig_" + tag, ps, sig);
  list_wrapper(tr, "or_sig_" + tag, gs, "list R");
  tr.def("or_Dt_" + tag, ps, Dt);
  list_wrapper(tr, "or_Dt_" + tag, gs, "list R");
  Rng rng(seed + 700 + S + (tag == "hgp" ? 31 : 0) + (tag == "hpe" ? 17 : 0));
  Agree ag;
  for (int c = 0; c < ncases; ++c) {
    std::vector<double> in;
    const double sc = std::pow(10., rng.range(-5, -2.5));
    for (int i = 0; i < 2 * S; ++i) in.push_back(rng.range(-1, 1) * sc);
    // thermodynamically admissible orthotropic moduli, E2 != E3
    for (int i = 0; i < 3; ++i) in.push_back(rng.range(5e4, 3.5e5));
    for (int i = 0; i < 3; ++i) in.push_back(rng.range(0.05, 0.25));
    for (int i = 0; i < 3; ++i) in.push_back(rng.range(3e4, 1.3e5));
    Env env;
    for (size_t i = 0; i < nm.size(); ++i) env[nm[i]] = in[i];
    auto d = ortho<h, double>(in);
    std::vector<long double> scl(d.size(), 1e-30L);
    for (int i = 0; i < S; ++i) scl[i] = 3.5e5L * sc;  // magnitude of the terms summed in a stress component
    ag.cmpv(eval_all(out, env), d, scl, 1e-10L);
    if (c < 60) {
      std::printf("RUN ortho %s", tag.c_str());
      print_vec("in", in);
      print_vec("out", d);
      std::printf("\n");
    }
  }
  std::printf("AGREE ortho %s n=%ld bad=%ld worst=%.3Lg\n", tag.c_str(), ag.n, ag.bad, ag.worst);
}

int main(int argc, char** argv) {
  if (argc < 6 || std::strcmp(argv[1], "gen")) {
    std::fprintf(stderr, "usage: trace_ortho gen <out.v> <seed> <ncases> <hyps>\n");
    return 2;
  }
  const uint64_t seed = std::strtoull(argv[3], nullptr, 10);
  const int n = std::atoi(argv[4]);
  const std::string hy = std::string(",") + argv[5] + ",";
  Trace tr("GenOrtho");
  try {
    if (hy.find(",h3d,") != std::string::npos) doit<ModellingHypothesis::TRIDIMENSIONAL>(tr, "h3d", seed, n);
    if (hy.find(",hax,") != std::string::npos) doit<ModellingHypothesis::AXISYMMETRICAL>(tr, "hax", seed, n);
    if (hy.find(",hpe,") != std::string::npos) doit<ModellingHypothesis::PLANESTRAIN>(tr, "hpe", seed, n);
    if (hy.find(",hgp,") != std::string::npos) doit<ModellingHypothesis::GENERALISEDPLANESTRAIN>(tr, "hgp", seed, n);
  } catch (std::exception& e) {
    std::fprintf(stderr, "trace_ortho: %s\n", e.what());
    return 1;
  }
  tr.write(argv[2]);
  return 0;
}

// C41/C42: tracer + driver of the mfront-generated class C41Elasticity (Default DSL).
//   trace_el gen <out.v> <seed> <ncases> <hyps>     hyps: comma separated subset of h3d,hpe,hax,hag
// Prints the Coq definitions el_sig_<h>, el_Dt_<h> (and list wrappers), and on stdout
//   AGREE el <h> n=<cases> bad=<n> worst=<rel>        Sym DAG vs double instantiation
//   RUN el <h> in <eto deto young nu> out <sig Dt>     double executions (inputs/outputs) for the Python-side spec check
#include "gsym.hxx"
#define protected public
#define private public
#include "TFEL/Material/C41Elasticity.hxx"
#undef protected
#undef private
using namespace gsym;
using namespace tfel::material;
using Hyp = ModellingHypothesis::Hypothesis;

template <Hyp h, typename T>
std::vector<T> el(const std::vector<T>& in) {
  using B = C41Elasticity<h, T, false>;
  constexpr int S = ModellingHypothesisToStensorSize<h>::value;
  C41ElasticityBehaviourData<h, T, false> bd;
  C41ElasticityIntegrationData<h, T, false> id;
  for (int i = 0; i < S; ++i) {
    bd.eto[i] = in[i];
    id.deto[i] = in[S + i];
    bd.sig[i] = T(0);
  }
  bd.young = in[2 * S];
  bd.nu = in[2 * S + 1];
  bd.T = T(293);
  id.dT = T(0);
  id.dt = T(1);
  B b(bd, id);
  if (!b.initialize()) throw std::runtime_error("initialize failed");
  if (b.integrate(B::STANDARDTANGENTOPERATOR, B::CONSISTENTTANGENTOPERATOR) != B::SUCCESS) throw std::runtime_error("integrate failed");
  std::vector<T> out;
  for (int i = 0; i < S; ++i) out.push_back(b.sig[i]);
  for (int i = 0; i < S; ++i)
    for (int j = 0; j < S; ++j) out.push_back(b.Dt(i, j));
  return out;
}

template <Hyp h>
void doit(Trace& tr, const std::string& tag, uint64_t seed, int ncases) {
  constexpr int S = ModellingHypothesisToStensorSize<h>::value;
  Groups gs{{"eto", S}, {"deto", S}, {"young", 0}, {"nu", 0}};
  auto ps = mkvars(gs);
  auto nm = names(gs);
  auto out = el<h, Sym>(ps);
  std::vector<Sym> sig(out.begin(), out.begin() + S), Dt(out.begin() + S, out.end());
  tr.def("el_sig_" + tag, ps, sig);
  list_wrapper(tr, "el_sig_" + tag, gs, "list R");
  tr.def("el_Dt_" + tag, ps, Dt);
  list_wrapper(tr, "el_Dt_" + tag, gs, "list R");
  Rng rng(seed + S);
  Agree ag;
  for (int c = 0; c < ncases; ++c) {
    std::vector<double> in;
    const double sc = std::pow(10., rng.range(-6, -2));
    for (int i = 0; i < 2 * S; ++i) in.push_back(rng.range(-1, 1) * sc);
    in.push_back(rng.range(1e3, 4e5));
    in.push_back(rng.range(-0.4, 0.45));
    Env env;
    for (size_t i = 0; i < nm.size(); ++i) env[nm[i]] = in[i];
    auto d = el<h, double>(in);
    ag.cmp(eval_all(out, env), d, 1e-30L);
    if (c < 40) {
      std::printf("RUN el %s", tag.c_str());
      print_vec("in", in);
      print_vec("out", d);
      std::printf("\n");
    }
  }
  std::printf("AGREE el %s n=%ld bad=%ld worst=%.3Lg\n", tag.c_str(), ag.n, ag.bad, ag.worst);
}

int main(int argc, char** argv) {
  if (argc < 6 || std::strcmp(argv[1], "gen")) {
    std::fprintf(stderr, "usage: trace_el gen <out.v> <seed> <ncases> <hyps>\n");
    return 2;
  }
  const uint64_t seed = std::strtoull(argv[3], nullptr, 10);
  const int n = std::atoi(argv[4]);
  const std::string hy = std::string(",") + argv[5] + ",";
  Trace tr("GenEl");
  if (hy.find(",h3d,") != std::string::npos) doit<ModellingHypothesis::TRIDIMENSIONAL>(tr, "h3d", seed, n);
  if (hy.find(",hpe,") != std::string::npos) doit<ModellingHypothesis::PLANESTRAIN>(tr, "hpe", seed, n);
  if (hy.find(",hax,") != std::string::npos) doit<ModellingHypothesis::AXISYMMETRICAL>(tr, "hax", seed, n);
  if (hy.find(",hag,") != std::string::npos) doit<ModellingHypothesis::AXISYMMETRICALGENERALISEDPLANESTRAIN>(tr, "hag", seed, n);
  tr.write(argv[2]);
  return 0;
}

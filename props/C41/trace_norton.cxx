// C41/C42: tracer + driver of the mfront-generated class C41ImplicitNorton (Implicit DSL, analytical jacobian).
//   trace_norton gen <out.v> <seed> <ncases> <hyps>     hyps: subset of h3d,hpe,hax,hag
// Coq definitions per hypothesis <h> (S = stensor size, n = S+1 unknowns z = (deel, dp)):
//   no_fz_<h>, no_jac_<h>      : fzeros / jacobian (row major n x n) after computeThermodynamicForces(); computeFdF(false)
//                                on the leaf (path) that contains the reference state; no_cond_<h> its path condition
//   no_fin_<h>                 : (eel, p, sig) after updateStateVariables(); computeFinalThermodynamicForces()
//   no_tgt_<h>                 : Dt (S x S) then Je (S x S) then Jp (S) computed by the generated
//                                computeConsistentTangentOperator / getPartialJacobianInvert on a jacobian whose entries are
//                                the variables j0.., on the leaf without pivoting (path condition no_tgtcond_<h>)
// stdout: AGREE lines (Sym vs double), RUN lines (integrate() in double: inputs, outputs, Dt, finite-difference Dt)
#include "gsym.hxx"
#define protected public
#define private public
#include "TFEL/Material/C41ImplicitNorton.hxx"
#undef protected
#undef private
using namespace gsym;
using namespace tfel::material;
using Hyp = ModellingHypothesis::Hypothesis;

template <Hyp h, typename T>
struct Beh {
  using B = C41ImplicitNorton<h, T, false>;
  static constexpr int S = ModellingHypothesisToStensorSize<h>::value;
  C41ImplicitNortonBehaviourData<h, T, false> bd;
  C41ImplicitNortonIntegrationData<h, T, false> id;
  std::unique_ptr<B> b;
  // in: eel[S] deto[S] p young nu A E dt theta
  explicit Beh(const std::vector<T>& in) {
    for (int i = 0; i < S; ++i) {
      bd.eel[i] = in[i];
      bd.eto[i] = T(0);
      id.deto[i] = in[S + i];
      bd.sig[i] = T(0);
    }
    bd.p = in[2 * S];
    bd.young = in[2 * S + 1];
    bd.nu = in[2 * S + 2];
    bd.A = in[2 * S + 3];
    bd.E = in[2 * S + 4];
    bd.T = T(293);
    id.dT = T(0);
    id.dt = in[2 * S + 5];
    b = std::make_unique<B>(bd, id);
    b->theta = in[2 * S + 6];
    if (!b->initialize()) throw std::runtime_error("initialize failed");
  }
};

// fzeros and jacobian at the unknowns z
template <Hyp h, typename T>
std::vector<T> fdf(const std::vector<T>& in, const std::vector<T>& z) {
  Beh<h, T> w(in);
  constexpr int S = Beh<h, T>::S;
  for (int i = 0; i <= S; ++i) w.b->zeros(i) = z[i];
  w.b->computeThermodynamicForces();
  if (!w.b->computeFdF(false)) throw std::runtime_error("computeFdF failed");
  std::vector<T> out;
  for (int i = 0; i <= S; ++i) out.push_back(w.b->fzeros(i));
  for (int i = 0; i <= S; ++i)
    for (int j = 0; j <= S; ++j) out.push_back(w.b->jacobian(i, j));
  return out;
}
// state update after convergence at z
template <Hyp h, typename T>
std::vector<T> fin(const std::vector<T>& in, const std::vector<T>& z) {
  Beh<h, T> w(in);
  constexpr int S = Beh<h, T>::S;
  for (int i = 0; i <= S; ++i) w.b->zeros(i) = z[i];
  w.b->updateIntegrationVariables();
  w.b->updateStateVariables();
  w.b->computeFinalThermodynamicForces();
  std::vector<T> out;
  for (int i = 0; i < S; ++i) out.push_back(w.b->eel[i]);
  out.push_back(w.b->p);
  for (int i = 0; i < S; ++i) out.push_back(w.b->sig[i]);
  return out;
}
// consistent tangent operator code on a given jacobian
template <Hyp h, typename T>
std::vector<T> tgt(const std::vector<T>& in, const std::vector<T>& jac) {
  Beh<h, T> w(in);
  using B = typename Beh<h, T>::B;
  constexpr int S = Beh<h, T>::S;
  for (int i = 0; i <= S; ++i)
    for (int j = 0; j <= S; ++j) w.b->jacobian(i, j) = jac[(S + 1) * i + j];
  if (!w.b->computeConsistentTangentOperator(B::CONSISTENTTANGENTOPERATOR)) throw std::runtime_error("tangent operator failed");
  std::vector<T> out;
  for (int i = 0; i < S; ++i)
    for (int j = 0; j < S; ++j) out.push_back(w.b->Dt(i, j));
  // the partial inverse itself, through the generated computePartialJacobianInvert on the decomposed jacobian
  tfel::math::TinyPermutation<S + 1> perm;
  for (int i = 0; i <= S; ++i)
    for (int j = 0; j <= S; ++j) w.b->jacobian(i, j) = jac[(S + 1) * i + j];
  if (!tfel::math::TinyMatrixSolve<S + 1, T, false>::decomp(w.b->jacobian, perm)) throw std::runtime_error("decomp failed");
  tfel::math::derivative_type<typename B::StrainStensor, typename B::StrainStensor> Je;
  tfel::math::derivative_type<typename B::real, typename B::StrainStensor> Jp;
  if (!w.b->computePartialJacobianInvert(perm, Je, Jp)) throw std::runtime_error("partial invert failed");
  for (int i = 0; i < S; ++i)
    for (int j = 0; j < S; ++j) out.push_back(Je(i, j));
  for (int j = 0; j < S; ++j) out.push_back(Jp[j]);
  return out;
}
// full integration (double only): eel1[S] p1 sig1[S] Dt[S*S]
template <Hyp h>
std::vector<double> integ(const std::vector<double>& in, bool& ok) {
  Beh<h, double> w(in);
  using B = typename Beh<h, double>::B;
  constexpr int S = Beh<h, double>::S;
  ok = w.b->integrate(B::STANDARDTANGENTOPERATOR, B::CONSISTENTTANGENTOPERATOR) == B::SUCCESS;
  std::vector<double> out;
  for (int i = 0; i < S; ++i) out.push_back(w.b->eel[i]);
  out.push_back(w.b->p);
  for (int i = 0; i < S; ++i) out.push_back(w.b->sig[i]);
  for (int i = 0; i < S; ++i)
    for (int j = 0; j < S; ++j) out.push_back(w.b->Dt(i, j));
  return out;
}

template <Hyp h>
std::vector<double> rand_state(Rng& rng) {
  constexpr int S = ModellingHypothesisToStensorSize<h>::value;
  std::vector<double> in;
  const double young = rng.range(5e4, 2.5e5), nu = rng.range(0.15, 0.42);
  const double se = rng.range(20, 400) / young;  // elastic strain scale for stresses of 20..400
  for (int i = 0; i < S; ++i) in.push_back(rng.range(-1, 1) * se);
  const double de = std::pow(10., rng.range(-5, -3));
  for (int i = 0; i < S; ++i) in.push_back(rng.range(-1, 1) * de);
  in.push_back(rng.range(0, 0.05));
  in.push_back(young);
  in.push_back(nu);
  const double E = rng.range(2.5, 7.);
  const double rate = std::pow(10., rng.range(-7, -4));
  in.push_back(rate / std::pow(150., E));  // A
  in.push_back(E);
  in.push_back(std::pow(10., rng.range(-1, 2)));  // dt
  in.push_back(rng.below(3) == 0 ? 1. : rng.range(0.3, 1.));
  return in;
}

template <Hyp h>
void doit(Trace& tr, const std::string& tag, uint64_t seed, int ncases) {
  constexpr int S = ModellingHypothesisToStensorSize<h>::value;
  constexpr int n = S + 1;
  Groups gin{{"eel", S}, {"deto", S}, {"p", 0}, {"young", 0}, {"nu", 0}, {"A", 0}, {"E", 0}, {"dt", 0}, {"theta", 0}};
  Groups gz{{"z", n}};
  Groups gall = gin;
  gall.push_back({"z", n});
  auto pin = mkvars(gin), pz = mkvars(gz), pall = mkvars(gall);
  auto nm = names(gall);
  Rng rng(seed + 100 + S);
  auto mkenv = [&](const std::vector<double>& in, const std::vector<double>& z) {
    Env env;
    for (size_t i = 0; i < in.size(); ++i) env[nm[i]] = in[i];
    for (size_t i = 0; i < z.size(); ++i) env[nm[in.size() + i]] = z[i];
    return env;
  };
  auto rand_z = [&](const std::vector<double>& in) {
    std::vector<double> z;
    for (int i = 0; i < S; ++i) z.push_back(in[S + i] * rng.range(0.2, 1.));
    z.push_back(std::pow(10., rng.range(-6, -3)));
    return z;
  };
  // reference state: a generic creep state (regularisation of 1/seq inactive)
  auto in0 = rand_state<h>(rng);
  auto z0 = rand_z(in0);
  auto f_fdf = [&] { return fdf<h, Sym>(pin, pz); };
  Leaf L0 = leaf_at(f_fdf, mkenv(in0, z0));
  if (!L0.error.empty()) throw std::runtime_error("reference leaf failed: " + L0.error);
  std::vector<Sym> fz(L0.out.begin(), L0.out.begin() + n), jac(L0.out.begin() + n, L0.out.end());
  def_cond(tr, "no_cond_" + tag, pall, L0);
  list_wrapper(tr, "no_cond_" + tag, gall, "Prop");
  tr.def("no_fz_" + tag, pall, fz);
  list_wrapper(tr, "no_fz_" + tag, gall, "list R");
  tr.def("no_jac_" + tag, pall, jac);
  list_wrapper(tr, "no_jac_" + tag, gall, "list R");
  auto ofin = fin<h, Sym>(pin, pz);
  tr.def("no_fin_" + tag, pall, ofin);
  list_wrapper(tr, "no_fin_" + tag, gall, "list R");
  // tangent operator code on a symbolic jacobian
  Groups gt = gin;
  gt.push_back({"j", n * n});
  auto pt = mkvars(gt);
  auto pj = mkvars(Groups{{"j", n * n}});
  auto ntm = names(gt);
  auto f_tgt = [&] { return tgt<h, Sym>(pin, pj); };
  std::vector<double> j0;  // diagonally dominant: no pivoting
  for (int i = 0; i < n; ++i)
    for (int j = 0; j < n; ++j) j0.push_back(i == j ? 1. + 0.1 * rng.uni() : 0.05 * rng.range(-1, 1));
  auto mkenvt = [&](const std::vector<double>& in, const std::vector<double>& jj) {
    Env env;
    for (size_t i = 0; i < in.size(); ++i) env[ntm[i]] = in[i];
    for (size_t i = 0; i < jj.size(); ++i) env[ntm[in.size() + i]] = jj[i];
    return env;
  };
  Leaf LT = leaf_at(f_tgt, mkenvt(in0, j0));
  if (!LT.error.empty()) throw std::runtime_error("tangent leaf failed: " + LT.error);
  def_cond(tr, "no_tgtcond_" + tag, pt, LT);
  list_wrapper(tr, "no_tgtcond_" + tag, gt, "Prop");
  tr.def("no_tgt_" + tag, pt, LT.out);
  list_wrapper(tr, "no_tgt_" + tag, gt, "list R");

  // ---- agreement Sym vs double on seeded states (each on its own leaf), and executions
  Agree a1, a2, a3;
  long onref = 0;
  for (int c = 0; c < ncases; ++c) {
    auto in = rand_state<h>(rng);
    auto z = rand_z(in);
    if (c % 7 == 3) {  // nearly stress-free states: the regularised branch of 1/max(seq, ...)
      for (int i = 0; i < S; ++i) in[i] = 0, z[i] = 0;
    }
    Env env = mkenv(in, z);
    Leaf L = leaf_at(f_fdf, env);
    if (same_path(L, L0)) ++onref;
    a1.cmp(eval_all(L.out, env), fdf<h, double>(in, z), 1e-30L);
    a2.cmp(eval_all(ofin, env), fin<h, double>(in, z), 1e-30L);
    std::vector<double> jj;
    for (int i = 0; i < n; ++i)
      for (int j = 0; j < n; ++j) jj.push_back(i == j ? 1. + rng.uni() : 0.3 * rng.range(-1, 1));
    Env envt = mkenvt(in, jj);
    Leaf Lt = leaf_at(f_tgt, envt);
    if (Lt.error.empty()) a3.cmp(eval_all(Lt.out, envt), tgt<h, double>(in, jj), 1e-30L, 1e-9L);
  }
  std::printf("AGREE norton-fdf %s n=%ld bad=%ld worst=%.3Lg onref=%ld\n", tag.c_str(), a1.n, a1.bad, a1.worst, onref);
  std::printf("AGREE norton-fin %s n=%ld bad=%ld worst=%.3Lg\n", tag.c_str(), a2.n, a2.bad, a2.worst);
  std::printf("AGREE norton-tgt %s n=%ld bad=%ld worst=%.3Lg\n", tag.c_str(), a3.n, a3.bad, a3.worst);
  // executions of integrate() (Newton loop): outputs and centred finite differences of the stress
  for (int c = 0; c < std::min(ncases, 60); ++c) {
    auto in = rand_state<h>(rng);
    bool ok = true;
    auto out = integ<h>(in, ok);
    std::printf("RUN norton %s ok %d", tag.c_str(), int(ok));
    print_vec("in", in);
    print_vec("out", out);
    std::vector<double> fd(S * S, 0.);
    bool okfd = ok;
    for (int j = 0; j < S && okfd; ++j) {
      const double hst = 1e-4 * std::max(1e-4, std::fabs(in[S + j]));
      auto ip = in, im = in;
      ip[S + j] += hst;
      im[S + j] -= hst;
      bool o1 = true, o2 = true;
      auto op = integ<h>(ip, o1), om = integ<h>(im, o2);
      okfd = o1 && o2;
      for (int i = 0; i < S; ++i) fd[S * i + j] = (op[S + 1 + i] - om[S + 1 + i]) / (2 * hst);
    }
    if (okfd) print_vec("fd", fd);
    std::printf("\n");
  }
}

int main(int argc, char** argv) {
  if (argc < 6 || std::strcmp(argv[1], "gen")) {
    std::fprintf(stderr, "usage: trace_norton gen <out.v> <seed> <ncases> <hyps>\n");
    return 2;
  }
  const uint64_t seed = std::strtoull(argv[3], nullptr, 10);
  const int n = std::atoi(argv[4]);
  const std::string hy = std::string(",") + argv[5] + ",";
  Trace tr("GenNorton");
  try {
    if (hy.find(",hag,") != std::string::npos) doit<ModellingHypothesis::AXISYMMETRICALGENERALISEDPLANESTRAIN>(tr, "hag", seed, n);
    if (hy.find(",hpe,") != std::string::npos) doit<ModellingHypothesis::PLANESTRAIN>(tr, "hpe", seed, n);
    if (hy.find(",hax,") != std::string::npos) doit<ModellingHypothesis::AXISYMMETRICAL>(tr, "hax", seed, n);
    if (hy.find(",h3d,") != std::string::npos) doit<ModellingHypothesis::TRIDIMENSIONAL>(tr, "h3d", seed, n);
  } catch (std::exception& e) {
    std::fprintf(stderr, "trace_norton: %s\n", e.what());
    return 1;
  }
  tr.write(argv[2]);
  return 0;
}

"""C41 -- generated behaviours integrate their constitutive equations.
Engine G+S: the mfront of /repo's working tree generates the C++ of our reference programs (props/C41/mfront); the
generated class templates are instantiated with symv::Sym; the traced stress / residual / Newton step / state update are
proved (Coq) equal to the constitutive equations written independently in coq/BehSpec.v (incl. the orthotropic elastic program with
the Pipe axes convention in four hypotheses and the derivative function of the RungeKutta DSL).  The Newton and Runge-Kutta loops are
not traced: the states returned by the double instantiation are checked against the same equations (Python): fixed-step Runge-Kutta
schemes against the one-step formulas, adaptive ones against a reference solution of the rate equations."""
import math, os, sys
sys.path.insert(0, os.path.dirname(os.path.abspath(__file__)))
from vlib import guarded_main
import gbeh
from gbeh import tr, dev, dot, sigmaeq, lame, hooke, add, HYP_SIZE


def close(a, b, scale, tol):
    return all(abs(x - y) <= tol * max(abs(x), abs(y), scale) for x, y in zip(a, b)) and len(a) == len(b)


def check_runs(c, lines):
    """independent statement of the discretised equations on the executions of the double instantiation"""
    nrun = 0
    for l in lines:
        if not l.startswith("RUN"):
            continue
        t = l.split()
        prog, h = t[1], t[2]
        S = HYP_SIZE[h]
        d = gbeh.parse_kv(" ".join(t[2:]))
        vin, out = d["in"], d["out"]
        ok = d.get("ok", [1.0])[0] == 1.0
        nrun += 1
        key = "run:%s:%s:%s" % (prog, h, ",".join("%.6g" % x for x in vin[:2 * S + 3]))
        what = None
        if prog == "el":
            eto, deto, young, nu = vin[:S], vin[S:2 * S], vin[2 * S], vin[2 * S + 1]
            ref = hooke(young, nu, add(eto, deto))
            sc = young * max(abs(x) for x in add(eto, deto))
            if not close(out[:S], ref, sc, 1e-12):
                what = "stress %s is not Hooke's law %s" % (out[:S], ref)
            c.count(1, ("el", h, tuple(vin)), True)
        elif prog == "norton":
            eel, deto = vin[:S], vin[S:2 * S]
            p, young, nu, A, E, dt, theta = vin[2 * S:2 * S + 7]
            if not ok:
                what = "integrate() returned FAILURE on a regular creep step"
            else:
                eel1, p1, sig1 = out[:S], out[S], out[S + 1:2 * S + 1]
                deel, dp = add(eel1, eel, -1.0), p1 - p
                sg = hooke(young, nu, add(eel, deel, theta))
                seq = sigmaeq(sg)
                n = [1.5 * x / seq for x in dev(sg)] if seq > 0 else [0.0] * S
                feel = [deel[i] + dp * n[i] - deto[i] for i in range(S)]
                fp = dp - A * seq ** E * dt
                res = math.sqrt(dot(feel, feel) + fp * fp) / (S + 1)
                esc = max(max(abs(x) for x in eel), max(abs(x) for x in deto), abs(dp))
                if not (res <= 1e-14 + 1e-12 * esc):
                    what = "returned state does not satisfy the theta-scheme of the Norton law: residual norm %.3g (epsilon 1e-14)" % res
                elif not close(sig1, hooke(young, nu, eel1), young * esc, 1e-12):
                    what = "final stress is not Hooke(eel + deel)"
            c.count(1, ("norton", h, tuple(vin)), True)
        elif prog in ("pl", "cr"):
            eel, deto = vin[:S], vin[S:2 * S]
            p, young, nu, m1, m2, dt, theta = vin[2 * S:2 * S + 7]
            la, mu = lame(young, nu)
            if not ok:
                what = "integrate() returned FAILURE"
            else:
                dp, eel1, p1, sig1 = out[3], out[4:4 + S], out[4 + S], out[5 + S:5 + 2 * S]
                se = [2 * mu * x for x in dev(add(eel, deto, theta))]
                seq_e = sigmaeq(se)
                n = [1.5 * x / seq_e for x in se] if seq_e > 0 else [0.0] * S
                esc = max(max(abs(x) for x in eel), max(abs(x) for x in deto), abs(dp), 1e-30)
                if prog == "pl":
                    f = seq_e - 3 * mu * theta * dp - m1 * (p + theta * dp) - m2
                    if dp > 0:
                        bad = abs(f) / young > 1e-14 + 1e-12 * esc
                    else:
                        bad = dp < 0 or f / young > 1e-14 + 1e-12 * esc
                    if bad:
                        what = "radial return violated: dp=%.6g yield function/young=%.3g" % (dp, f / young)
                else:
                    F = dp - dt * m1 * max(seq_e - 3 * mu * theta * dp, 0.0) ** m2
                    if abs(F) > 1e-14 + 1e-12 * esc:
                        what = "scalar creep equation violated: dp - dt A seq^E = %.3g" % F
                ref_eel1 = [eel[i] + deto[i] - dp * n[i] for i in range(S)]
                if what is None and not (close(eel1, ref_eel1, esc, 1e-11) and abs(p1 - p - dp) <= 1e-15 + 1e-12 * abs(p1)):
                    what = "state update is not eel + deto - dp n / p + dp"
                if what is None and not close(sig1, hooke(young, nu, eel1), young * esc, 1e-12):
                    what = "final stress is not Hooke(eel1)"
            c.count(1, (prog, h, tuple(vin)), prog == "cr" or (ok and out[3] > 0))
        if nrun % 37 == 1:
            c.sample({"program": prog, "hypothesis": h, "inputs": vin, "outputs": out[:2 * S + 5]})
        if what:
            c.report(key, "program %s (%s): %s; inputs %s" % (prog, h, what, vin), {"program": prog, "hypothesis": h, "inputs": vin,
                     "outputs": out, "how": "props/C41/trace_*.cxx, double instantiation of the generated class"}, True)
    return nrun



def norton_rates(eel, deto, young, nu, A, E, dt):
    sg = hooke(young, nu, eel)
    seq = sigmaeq(sg)
    r = A * seq ** E
    n = [1.5 * x / seq for x in dev(sg)] if seq > 0 else [0.0] * len(eel)
    return [deto[i] / dt - r * n[i] for i in range(len(eel))] + [r]


def rk_step(y, h, f, alg):
    ax = lambda y, k, cf: [a + cf * b for a, b in zip(y, k)]
    if alg == "euler":
        return ax(y, f(y), h)
    if alg == "rk2":
        return ax(y, f(ax(y, f(y), h / 2)), h)
    k1 = f(y)
    k2 = f(ax(y, k1, h / 2))
    k3 = f(ax(y, k2, h / 2))
    k4 = f(ax(y, k3, h))
    return [y[i] + h * (k1[i] + 2 * k2[i] + 2 * k3[i] + k4[i]) / 6 for i in range(len(y))]


ORTHO_PERM = {"h3d": (0, 1, 2), "hax": (0, 1, 2), "hpe": (0, 2, 1), "hgp": (0, 2, 1)}


def check_ortho_rk(c, lines):
    """orthotropic elasticity (generalised Hooke law in compliance form, pipe convention) and Runge-Kutta integrators"""
    nrun = 0
    for l in lines:
        if not l.startswith("RUN"):
            continue
        t = l.split()
        prog, h = t[1], t[2]
        if not (prog == "ortho" or prog.startswith("rk_")):
            continue
        S = HYP_SIZE[h]
        d = gbeh.parse_kv(" ".join(t[2:]))
        vin, out = d["in"], d["out"]
        nrun += 1
        what = None
        if prog == "ortho":
            e = add(vin[:S], vin[S:2 * S])
            E1, E2, E3, n12, n23, n13, G12, G23, G13 = vin[2 * S:2 * S + 9]
            Ev = (E1, E2, E3)
            Sm = [[1 / E1, -n12 / E1, -n13 / E1], [-n12 / E1, 1 / E2, -n23 / E2], [-n13 / E1, -n23 / E2, 1 / E3]]
            G = {(0, 1): G12, (1, 2): G23, (0, 2): G13}
            pm = ORTHO_PERM[h]
            sig = out[:S]
            smax = max(abs(x) for x in sig) or 1.0
            for i in range(3):
                ei = sum(Sm[pm[i]][pm[j]] * sig[j] for j in range(3))
                if abs(ei - e[i]) > 1e-11 * max(smax / min(Ev), max(abs(x) for x in e)):
                    what = ("strain component %d recomputed from the returned stress with the compliance of the material axes %s is %.12g, the strain is %.12g "
                            "(E2=%.6g, E3=%.6g, nu23=%.4g)" % (i, [pm[0] + 1, pm[1] + 1, pm[2] + 1], ei, e[i], E2, E3, n23))
                    break
            pairs = [(0, 1), (0, 2), (1, 2)]
            for k in range(3, S):
                a, b = pm[pairs[k - 3][0]], pm[pairs[k - 3][1]]
                g = G[(min(a, b), max(a, b))]
                if what is None and abs(sig[k] - 2 * g * e[k]) > 1e-12 * max(abs(sig[k]), abs(2 * g * e[k]), 1e-300):
                    what = "shear stress %d is %.12g, 2 G eps is %.12g" % (k, sig[k], 2 * g * e[k])
            Dt = out[S:]
            if what is None and any(abs(Dt[S * i + j] - Dt[S * j + i]) > 1e-9 * max(Ev) for i in range(S) for j in range(S)):
                what = "the stiffness returned as tangent operator is not symmetric: %s" % Dt
            c.count(1, ("ortho", h, tuple(vin)), True)
            key = "run:ortho:%s:%s" % (h, ",".join("%.6g" % x for x in vin[2 * S:2 * S + 6]))
        else:
            alg = prog[3:]
            eel, deto = vin[:S], vin[S:2 * S]
            p, young, nu, A, E, dt = vin[2 * S:2 * S + 6]
            f = lambda y: norton_rates(y[:S], deto, young, nu, A, E, dt)
            y0 = eel + [p]
            sc = max(max(abs(x) for x in eel), max(abs(x) for x in deto))
            ok = d.get("ok", [1.0])[0] == 1.0
            try:
                if alg in ("euler", "rk2", "rk4"):
                    y1, tol = rk_step(y0, dt, f, alg), 1e-11
                else:
                    y1, tol, N = y0, 1e-6, 400
                    for _ in range(N):
                        y1 = rk_step(y1, dt / N, f, "rk4")
            except (OverflowError, ValueError):
                continue
            if not ok:
                what = "integrate() failed on a regular creep step"
            else:
                err = max(abs(a - b) for a, b in zip(y1, out[:S + 1])) / sc
                if not err <= tol:
                    what = ("algorithm %s: returned (eel, p) differs from %s by %.3g (relative to the strain scale; tolerance %.1g)" % (
                        alg, "the one-step formula of the scheme applied to the rate equations" if tol < 1e-9 else "the reference solution of the rate equations (RK4, 400 substeps)", err, tol))
                elif not close(out[S + 1:2 * S + 1], hooke(young, nu, out[:S]), young * sc, 1e-12):
                    what = "final stress is not Hooke(eel)"
            c.count(1, (prog, h, tuple(vin)), True)
            key = "run:%s:%s:%s" % (prog, h, ",".join("%.6g" % x for x in vin[:2 * S + 3]))
        if nrun % 41 == 1:
            c.sample({"program": prog, "hypothesis": h, "inputs": vin, "outputs": out[:2 * S + 1]})
        if what:
            c.report(key, "program %s (%s): %s; inputs %s" % (prog, h, what, vin), {"program": prog, "hypothesis": h, "inputs": vin, "outputs": out,
                     "how": "props/C41/trace_%s.cxx, double instantiation of the generated class" % ("ortho" if prog == "ortho" else "rk")}, True)
    return nrun


def main(c):
    keys = ["el", "norton", "iso", "ortho", "rk"]
    hyps = {"el": "h3d,hag", "norton": c.pick("hag", "hag,hpe,h3d"), "iso": c.pick("hag", "hag,hpe,h3d"), "ortho": "h3d,hax,hpe,hgp",
            "rk": c.pick("hag", "hag,h3d")}
    res = gbeh.trace_programs(c, keys, hyps, c.pick(200, 2000), variants=gbeh.rk_variants(c))
    c.log("tracers done")
    lines = [l for k in res for l in res[k][1]]
    nag = gbeh.agreement(c, lines)
    nrun = check_runs(c, lines) + 0
    nrun2 = check_ortho_rk(c, lines)
    c.coverage["programs"] = sum(len(gbeh.PROGRAMS[k][0]) for k in res)
    c.coverage["disagreements_checked"] = nag + nrun + nrun2
    c.coverage["traces_validated_against_impl"] = nag
    c.coverage["rule"] = ("programs: the reference .mfront files (Default elasticity, Implicit Norton with analytical jacobian, IsotropicPlasticMisesFlow "
                          "linear hardening, IsotropicMisesCreep Norton, orthotropic elasticity with the Pipe convention, RungeKutta Norton with the algorithms %s) "
                          "x hypotheses %s; agreement: seeded states (Sym DAG evaluated in long double vs double instantiation, each state on its own path); "
                          "executions: integrate() in double on seeded states, outputs checked against the discretised equations / one-step formulas / "
                          "reference solution; non-trivial = inelastic step" % (list(gbeh.RK_ALGORITHMS), hyps))
    c.trusted("mfront built from /repo's working tree (c.repo_build) and g++ template instantiation of the generated classes with symv::Sym",
              "engine S tracer (cxx/sym/sym.hxx), props/C41/gsym.hxx (leaf selection by a reference state, std::is_arithmetic<Sym> specialisation, "
              "#define private public around the generated header)",
              "path conditions (X_cond_h) printed with the traced leaves: the traced definitions are the code's outputs on the states that satisfy them; "
              "checked by the Sym-vs-double agreement on seeded states",
              "Python statements of the discretised equations, of the Runge-Kutta one-step formulas (Euler, midpoint, classical RK4) and of the reference "
              "solution in props/C41/check.py (execution check of the Newton and Runge-Kutta loops)")
    if len(res) < len(keys):
        return
    common = ["GBehLib.v", "BehSpec.v"]
    pre = [[res[k][0]] for k in keys]
    phase1 = [("iso", "C41Proofs_iso.v"), ("rk", "C41Proofs_rk.v"), ("norton", "C41Proofs_norton.v"), ("ortho", "C41Proofs_ortho.v"), ("el", "C41Proofs_el.v")]
    phase2 = [([k], ["Properties_C41_%s.v" % k]) for k in ("iso", "rk", "norton", "ortho", "el")]
    r = gbeh.coq_phases(c, common, pre, phase1, phase2, timeout=900)
    if r is not None:
        if c.violations and any(v[3] for v in c.violations):
            c.notes.append("proof obligations failed: %s; concrete failing inputs reported above" % [f[2] or f[0] for f in r.failed])
        else:
            c.coq_failures(r, None)


guarded_main("C41", main, level="translation_validation")

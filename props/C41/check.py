"""C41 -- generated behaviours integrate their constitutive equations.
Engine G+S: the mfront of /repo's working tree generates the C++ of our reference programs (props/C41/mfront); the
generated class templates are instantiated with symv::Sym; the traced stress / residual / Newton step / state update are
proved (Coq) equal to the constitutive equations written independently in coq/BehSpec.v.  The Newton and Runge-Kutta
loops are not traced: the states returned by the double instantiation are checked against the same equations (Python)."""
import math, os, sys
sys.path.insert(0, os.path.dirname(os.path.abspath(__file__)))
from vlib import guarded_main
import gbeh
from gbeh import tr, dev, dot, sigmaeq, lame, hooke, add, HYP_SIZE


def close(a, b, scale, tol):
    return all(abs(x - y) <= tol * max(abs(x), abs(y), scale) for x, y in zip(a, b)) and len(a) == len(b)


def check_runs(c, lines):
    """independent statement of the discretised equations on the executions of the double instantiation"""
    nrun = 0
    for l in lines:
        if not l.startswith("RUN"):
            continue
        t = l.split()
        prog, h = t[1], t[2]
        S = HYP_SIZE[h]
        d = gbeh.parse_kv(" ".join(t[2:]))
        vin, out = d["in"], d["out"]
        ok = d.get("ok", [1.0])[0] == 1.0
        nrun += 1
        key = "run:%s:%s:%s" % (prog, h, ",".join("%.6g" % x for x in vin[:2 * S + 3]))
        what = None
        if prog == "el":
            eto, deto, young, nu = vin[:S], vin[S:2 * S], vin[2 * S], vin[2 * S + 1]
            ref = hooke(young, nu, add(eto, deto))
            sc = young * max(abs(x) for x in add(eto, deto))
            if not close(out[:S], ref, sc, 1e-12):
                what = "stress %s is not Hooke's law %s" % (out[:S], ref)
            c.count(1, ("el", h, tuple(vin)), True)
        elif prog == "norton":
            eel, deto = vin[:S], vin[S:2 * S]
            p, young, nu, A, E, dt, theta = vin[2 * S:2 * S + 7]
            if not ok:
                what = "integrate() returned FAILURE on a regular creep step"
            else:
                eel1, p1, sig1 = out[:S], out[S], out[S + 1:2 * S + 1]
                deel, dp = add(eel1, eel, -1.0), p1 - p
                sg = hooke(young, nu, add(eel, deel, theta))
                seq = sigmaeq(sg)
                n = [1.5 * x / seq for x in dev(sg)] if seq > 0 else [0.0] * S
                feel = [deel[i] + dp * n[i] - deto[i] for i in range(S)]
                fp = dp - A * seq ** E * dt
                res = math.sqrt(dot(feel, feel) + fp * fp) / (S + 1)
                esc = max(max(abs(x) for x in eel), max(abs(x) for x in deto), abs(dp))
                if not (res <= 1e-14 + 1e-12 * esc):
                    what = "returned state does not satisfy the theta-scheme of the Norton law: residual norm %.3g (epsilon 1e-14)" % res
                elif not close(sig1, hooke(young, nu, eel1), young * esc, 1e-12):
                    what = "final stress is not Hooke(eel + deel)"
            c.count(1, ("norton", h, tuple(vin)), True)
        elif prog in ("pl", "cr"):
            eel, deto = vin[:S], vin[S:2 * S]
            p, young, nu, m1, m2, dt, theta = vin[2 * S:2 * S + 7]
            la, mu = lame(young, nu)
            if not ok:
                what = "integrate() returned FAILURE"
            else:
                dp, eel1, p1, sig1 = out[3], out[4:4 + S], out[4 + S], out[5 + S:5 + 2 * S]
                se = [2 * mu * x for x in dev(add(eel, deto, theta))]
                seq_e = sigmaeq(se)
                n = [1.5 * x / seq_e for x in se] if seq_e > 0 else [0.0] * S
                esc = max(max(abs(x) for x in eel), max(abs(x) for x in deto), abs(dp), 1e-30)
                if prog == "pl":
                    f = seq_e - 3 * mu * theta * dp - m1 * (p + theta * dp) - m2
                    if dp > 0:
                        bad = abs(f) / young > 1e-14 + 1e-12 * esc
                    else:
                        bad = dp < 0 or f / young > 1e-14 + 1e-12 * esc
                    if bad:
                        what = "radial return violated: dp=%.6g yield function/young=%.3g" % (dp, f / young)
                else:
                    F = dp - dt * m1 * max(seq_e - 3 * mu * theta * dp, 0.0) ** m2
                    if abs(F) > 1e-14 + 1e-12 * esc:
                        what = "scalar creep equation violated: dp - dt A seq^E = %.3g" % F
                ref_eel1 = [eel[i] + deto[i] - dp * n[i] for i in range(S)]
                if what is None and not (close(eel1, ref_eel1, esc, 1e-11) and abs(p1 - p - dp) <= 1e-15 + 1e-12 * abs(p1)):
                    what = "state update is not eel + deto - dp n / p + dp"
                if what is None and not close(sig1, hooke(young, nu, eel1), young * esc, 1e-12):
                    what = "final stress is not Hooke(eel1)"
            c.count(1, (prog, h, tuple(vin)), prog == "cr" or (ok and out[3] > 0))
        if nrun % 37 == 1:
            c.sample({"program": prog, "hypothesis": h, "inputs": vin, "outputs": out[:2 * S + 5]})
        if what:
            c.report(key, "program %s (%s): %s; inputs %s" % (prog, h, what, vin), {"program": prog, "hypothesis": h, "inputs": vin,
                     "outputs": out, "how": "props/C41/trace_*.cxx, double instantiation of the generated class"}, True)
    return nrun


def main(c):
    keys = ["el", "norton", "iso"]
    hyps = {"el": "h3d,hag", "norton": c.pick("hag", "hag,hpe,h3d"), "iso": c.pick("hag", "hag,hpe,h3d")}
    res = gbeh.trace_programs(c, keys, hyps, c.pick(200, 2000))
    lines = [l for k in res for l in res[k][1]]
    nag = gbeh.agreement(c, lines)
    nrun = check_runs(c, lines)
    c.coverage["programs"] = sum(len(gbeh.PROGRAMS[k][0]) for k in res)
    c.coverage["disagreements_checked"] = nag + nrun
    c.coverage["traces_validated_against_impl"] = nag
    c.coverage["rule"] = ("programs: the 4 reference .mfront files (Default elasticity, Implicit Norton with analytical jacobian, "
                          "IsotropicPlasticMisesFlow linear hardening, IsotropicMisesCreep Norton) x hypotheses %s; agreement: seeded states "
                          "(Sym DAG evaluated in long double vs double instantiation, each state on its own path); executions: integrate() in "
                          "double on seeded states, outputs checked against the discretised equations; non-trivial = inelastic step" % hyps)
    c.trusted("mfront built from /repo's working tree (c.repo_build) and g++ template instantiation of the generated classes with symv::Sym",
              "engine S tracer (cxx/sym/sym.hxx), props/C41/gsym.hxx (leaf selection by a reference state, std::is_arithmetic<Sym> specialisation, "
              "#define private public around the generated header)",
              "path conditions (X_cond_h) printed with the traced leaves: the traced definitions are the code's outputs on the states that satisfy them; "
              "checked by the Sym-vs-double agreement on seeded states",
              "Python statements of the discretised equations in props/C41/check.py (execution check of the Newton loops)")
    if len(res) < len(keys):
        return
    common = ["GBehLib.v", "BehSpec.v"] + [res[k][0] for k in keys]
    r = gbeh.coq_parallel(c, common, ["C41Proofs_el.v", "C41Proofs_norton.v", "C41Proofs_iso.v"], ["Properties_C41.v"], timeout=900)
    if not r.ok:
        if c.violations and any(v[3] for v in c.violations):
            c.notes.append("proof obligations failed: %s; concrete failing inputs reported above" % [f[2] or f[0] for f in r.failed])
        else:
            c.coq_failures(r, None)


guarded_main("C41", main, level="translation_validation")

// Prelude and helpers for tracers of mfront-generated behaviour classes (engine G+S), shared by C41, C42, C43.
//   #include "gsym.hxx"            (includes every standard header the generated code needs, then symtfel.hxx)
//   #define protected public / #define private public ; #include "TFEL/Material/X.hxx" ; #undef ...
#ifndef VERIF_GSYM_HXX
#define VERIF_GSYM_HXX
#include <algorithm>
#include <array>
#include <cmath>
#include <cstdint>
#include <cstdio>
#include <cstdlib>
#include <cstring>
#include <fstream>
#include <functional>
#include <iomanip>
#include <iostream>
#include <iterator>
#include <limits>
#include <map>
#include <memory>
#include <numeric>
#include <optional>
#include <ostream>
#include <set>
#include <sstream>
#include <stdexcept>
#include <string>
#include <string_view>
#include <tuple>
#include <type_traits>
#include <utility>
#include <variant>
#include <vector>

// qt<> (named by tfel::config::Types even when use_qt is false) requires std::is_arithmetic_v<ValueType>.
// Specialising these traits is formally not allowed by the standard; it is part of the trusted base of engine S
// (DESIGN section 3) and is checked indirectly by the Sym-vs-double agreement.
namespace symv {
  struct Sym;
}
namespace std {
  template <>
  struct is_arithmetic<symv::Sym> : true_type {};
  template <>
  struct is_arithmetic<const symv::Sym> : true_type {};
  template <>
  struct is_floating_point<symv::Sym> : true_type {};
  template <>
  struct is_floating_point<const symv::Sym> : true_type {};
}  // namespace std
#include "sym.hxx"
#include "symtfel.hxx"

namespace gsym {
  using namespace symv;

  // ---- parameter groups: ("eel",3) is an array eel0..eel2 ; ("young",0) is a scalar
  struct Group {
    std::string name;
    int size;  // 0: scalar
  };
  using Groups = std::vector<Group>;
  inline std::vector<std::string> names(const Groups& gs) {
    std::vector<std::string> r;
    for (auto& g : gs) {
      if (g.size == 0) r.push_back(g.name);
      for (int i = 0; i < g.size; ++i) r.push_back(g.name + std::to_string(i));
    }
    return r;
  }
  inline std::vector<Sym> mkvars(const Groups& gs) {
    std::vector<Sym> r;
    for (auto& n : names(gs)) r.push_back(var(n));
    return r;
  }
  // Definition NAME_l (eel deto : list R) (young nu : R) := NAME (nthR eel 0) ... young nu.
  inline void list_wrapper(Trace& tr, const std::string& name, const Groups& gs, const std::string& rtype) {
    std::ostringstream o;
    o << "Definition " << name << "_l";
    for (auto& g : gs) o << " (" << g.name << " : " << (g.size ? "list R" : "R") << ")";
    o << " : " << rtype << " :=\n  " << name;
    for (auto& g : gs) {
      if (g.size == 0) o << " " << g.name;
      for (int i = 0; i < g.size; ++i) o << " (nthR " << g.name << " " << i << ")";
    }
    o << ".\n\n";
    tr.raw(o.str());
  }

  // ---- the leaf (path) of a function that contains a given numerical point
  inline bool cond_value(const Cond& c, const Env& env, std::map<int, long double>& memo) {
    long double x = eval_node(c.a, env, memo), y = eval_node(c.b, env, memo);
    return c.rel == LT ? x < y : (c.rel == LE ? x <= y : x == y);
  }
  inline Leaf leaf_at(const std::function<std::vector<Sym>()>& f, const Env& env, size_t maxdec = 4096) {
    Paths& P = Paths::get();
    P.active = true;
    P.max_decisions = maxdec;
    P.prefix.clear();
    for (int guard = 0; guard < 100000; ++guard) {
      P.reset_run();
      Leaf L;
      try {
        L.out = f();
      } catch (PathLimit&) {
        P.active = false;
        throw;
      } catch (SymError&) {
        P.active = false;
        throw;
      } catch (std::exception& e) {
        L.error = e.what();
        if (L.error.empty()) L.error = "exception";
      }
      L.conds = P.taken;
      std::map<int, long double> memo;
      bool changed = false;
      for (size_t k = P.prefix.size(); k < L.conds.size(); ++k) {
        bool v = cond_value(L.conds[k], env, memo);
        if (v != L.conds[k].value) {
          std::vector<bool> nx;
          for (size_t q = 0; q < k; ++q) nx.push_back(L.conds[q].value);
          nx.push_back(v);
          P.prefix = nx;
          changed = true;
          break;
        }
      }
      if (!changed) {
        P.active = false;
        P.prefix.clear();
        return L;
      }
    }
    P.active = false;
    throw SymError("leaf_at: no fixed point");
  }
  inline bool same_path(const Leaf& a, const Leaf& b) {
    if (a.conds.size() != b.conds.size()) return false;
    for (size_t i = 0; i < a.conds.size(); ++i)
      if (a.conds[i].rel != b.conds[i].rel || a.conds[i].a != b.conds[i].a || a.conds[i].b != b.conds[i].b ||
          a.conds[i].value != b.conds[i].value)
        return false;
    return true;
  }
  // Definition NAME (params) : Prop := path condition of the leaf
  inline void def_cond(Trace& tr, const std::string& name, const std::vector<Sym>& ps, const Leaf& L) {
    Printer p;
    std::vector<int> roots;
    for (auto& c : L.conds) {
      roots.push_back(c.a);
      roots.push_back(c.b);
    }
    std::string l = p.lets(roots);
    std::ostringstream o;
    o << "Definition " << name << " (" << Trace::params(ps) << " : R) : Prop :=\n" << l << "  ";
    if (L.conds.empty()) o << "True";
    for (size_t i = 0; i < L.conds.size(); ++i) {
      const auto& c = L.conds[i];
      const char* op = c.rel == LT ? " < " : (c.rel == LE ? " <= " : " = ");
      std::string s = "(" + p.expr(c.a) + op + p.expr(c.b) + ")";
      if (!c.value) s = "(~ " + s + ")";
      o << (i ? " /\\\n  " : "") << s;
    }
    o << ".\n\n";
    tr.raw(o.str());
    ++tr.ndefs;
  }

  // ---- agreement of traced outputs with the double instantiation
  struct Agree {
    long n = 0, bad = 0;
    long double worst = 0;
    void cmp(const std::vector<long double>& s, const std::vector<double>& d, long double scale, long double tol = 1e-10L) {
      ++n;
      if (s.size() != d.size()) {
        ++bad;
        return;
      }
      bool ok = true;
      for (size_t i = 0; i < s.size(); ++i) {
        long double m = std::max<long double>({std::fabs(s[i]), std::fabs(static_cast<long double>(d[i])), scale});
        long double e = std::fabs(s[i] - static_cast<long double>(d[i])) / m;
        if (!(e <= tol)) ok = false;
        if (e > worst || e != e) worst = e;
      }
      if (!ok) ++bad;
    }
    // per-output scales
    void cmpv(const std::vector<long double>& s, const std::vector<double>& d, const std::vector<long double>& sc, long double tol = 1e-10L) {
      ++n;
      if (s.size() != d.size() || sc.size() != d.size()) {
        ++bad;
        return;
      }
      bool ok = true;
      for (size_t i = 0; i < s.size(); ++i) {
        long double m = std::max<long double>({std::fabs(s[i]), std::fabs(static_cast<long double>(d[i])), sc[i]});
        long double e = std::fabs(s[i] - static_cast<long double>(d[i])) / m;
        if (!(e <= tol)) ok = false;
        if (e > worst || e != e) worst = e;
      }
      if (!ok) ++bad;
    }
  };
  inline std::vector<long double> eval_all(const std::vector<Sym>& out, const Env& env) {
    std::map<int, long double> memo;
    std::vector<long double> r;
    for (auto& o : out) r.push_back(eval_node(node_of(o), env, memo));
    return r;
  }
  inline void print_vec(const char* tag, const std::vector<double>& v) {
    std::printf(" %s", tag);
    for (double x : v) std::printf(" %.17g", x);
  }
}  // namespace gsym
#endif

"""Engine G helpers shared by C41, C42, C43: run the mfront built from /repo's working tree on our reference
.mfront programs, build tracers that instantiate the generated class templates with symv::Sym, small vector
algebra (pure Python) for the independent statements of the constitutive equations."""
import glob, math, os, re, shutil
import vlib

HERE = os.path.dirname(os.path.abspath(__file__))
MFRONT_DIR = os.path.join(HERE, "mfront")
SUPPORT = ["src/Exception/ContractViolation.cxx", "src/Exception/TFELException.cxx", "src/Math/LUException.cxx"]


def _sem_path():
    return "/dev/shm/sem.mfront-%d" % os.getuid()


def mfront_generate(c, files, outdir, extra=()):
    """run mfront --interface=generic on `files` (absolute paths) in outdir (vlib isolates the run: private /dev/shm)."""
    c.repo_build(["mfront"])
    exe = os.path.join(vlib.REPO_BUILD, "mfront", "src", "mfront")
    os.makedirs(outdir, exist_ok=True)
    cmd = [exe, "--interface=generic"] + list(extra) + list(files)
    # c.run gives every `mfront` command a private /dev/shm itself (tools/vlib.py)
    rc, out, err = c.run(cmd, cwd=outdir, timeout=300)
    if rc != 0:
        raise vlib.BuildError("mfront failed on %s:\n%s" % (files, (out + err)[-3000:]))
    return outdir


def generated_parameters(outdir, name):
    """names of the parameters of behaviour `name` (members of the generated XParametersInitializer)"""
    h = open(os.path.join(outdir, "include", "TFEL", "Material", name + ".hxx")).read()
    m = re.search(r"struct %sParametersInitializer\s*\{(.*?)\n\};" % name, h, flags=re.S)
    return re.findall(r"^\s*double\s+(\w+);", m.group(1), flags=re.M) if m else []


def include_flags(outdir):
    return ["-I" + os.path.join(outdir, "include"), "-I" + HERE]


def mutate_generated(outdir, name, env="VERIF_GEN_MUTATION"):
    """testing aid (simulated generator defect): VERIF_GEN_MUTATION='<behaviour>:<old>=><new>' replaces the first
    occurrence of <old> in the generated header of <behaviour>.  Never set in normal runs."""
    spec = os.environ.get(env, "")
    if not spec or not spec.startswith(name + ":"):
        return False
    old, new = spec[len(name) + 1:].split("=>", 1)
    p = os.path.join(outdir, "include", "TFEL", "Material", name + ".hxx")
    s = open(p).read()
    if old not in s:
        raise vlib.BuildError("mutation: pattern %r not found in %s" % (old, p))
    open(p, "w").write(s.replace(old, new, 1))
    return True


# ---------------------------------------------------------------- independent statements (pure Python, Mandel storage)
def tr(e):
    return e[0] + e[1] + e[2]


def dev(e):
    t = tr(e) / 3.0
    return [x - t if i < 3 else x for i, x in enumerate(e)]


def dot(a, b):
    return sum(x * y for x, y in zip(a, b))


def sigmaeq(s):
    d = dev(s)
    return math.sqrt(1.5 * dot(d, d))


def lame(young, nu):
    return nu * young / ((1 + nu) * (1 - 2 * nu)), young / (2 * (1 + nu))


def hooke(young, nu, e):
    la, mu = lame(young, nu)
    t = tr(e)
    return [(la * t if i < 3 else 0.0) + 2 * mu * x for i, x in enumerate(e)]


def add(a, b, f=1.0):
    return [x + f * y for x, y in zip(a, b)]


def norm(a):
    return math.sqrt(dot(a, a))


def parse_kv(line):
    """'TAG k1 v v v k2 v ...' -> dict of lists of floats / strings (keys are alphabetic tokens)"""
    t = line.split()
    d = {"_tag": t[0]}
    key = None
    for x in t[1:]:
        try:
            v = float(x)
            d.setdefault(key, []).append(v)
        except ValueError:
            if key is not None and key not in d:
                d[key] = []
            key = x
    if key is not None and key not in d:
        d[key] = []
    return d


# ---------------------------------------------------------------- programs, tracers, Coq in parallel
PROGRAMS = {
    # key: (mfront files, tracer source, generated Coq module)
    "el": (["C41Elasticity"], "trace_el.cxx", "GenEl.v"),
    "norton": (["C41ImplicitNorton"], "trace_norton.cxx", "GenNorton.v"),
    "iso": (["C41Plasticity", "C41NortonCreep"], "trace_iso.cxx", "GenIso.v"),
    "ortho": (["C41OrthoElasticity"], "trace_ortho.cxx", "GenOrtho.v"),
    # the variants C41NortonRK_<algorithm> are written by rk_variants() (same source, other @Algorithm)
    "rk": (["C41NortonRK"] + ["C41NortonRK_" + a for a in ("euler", "rk2", "rk4", "rk42", "rkCastem")], "trace_rk.cxx", "GenRK.v"),
}
RK_ALGORITHMS = ("euler", "rk2", "rk4", "rk42", "rk54", "rkCastem")


def rk_variants(c, srcdir=HERE):
    """C41NortonRK.mfront declares @Algorithm rk54; the other Runge-Kutta algorithms are obtained by rewriting two lines"""
    d = os.path.join(c.work, "mfront_variants")
    os.makedirs(d, exist_ok=True)
    src = open(os.path.join(srcdir, "mfront", "C41NortonRK.mfront")).read()
    out = {}
    for a in RK_ALGORITHMS:
        if a == "rk54":
            continue
        t = src.replace("@Behaviour C41NortonRK;", "@Behaviour C41NortonRK_%s;" % a).replace("@Algorithm rk54;", "@Algorithm %s;" % a)
        if t == src or "@Algorithm %s;" % a not in t:
            raise vlib.BuildError("cannot derive the %s variant of C41NortonRK.mfront" % a)
        p = os.path.join(d, "C41NortonRK_%s.mfront" % a)
        open(p, "w").write(t)
        out["C41NortonRK_" + a] = p
    return out


def trace_programs(c, keys, hyps, ncases, srcdir=HERE, programs=None, variants=None):
    """mfront -> C++ -> tracer (Sym + double) for the given program keys.  Returns {key: (gen_v_path, stdout_lines)};
    reports tracer failures itself.  hyps: {key: 'h3d,hag'}."""
    from concurrent.futures import ThreadPoolExecutor
    programs = programs or PROGRAMS
    gdir = os.path.join(c.work, "gen")
    files = []
    for k in keys:
        files += [(variants or {}).get(n, os.path.join(srcdir, "mfront", n + ".mfront")) for n in programs[k][0]]
    mfront_generate(c, files, gdir)
    mutated = []
    for k in keys:
        for n in programs[k][0]:
            if mutate_generated(gdir, n):
                mutated.append(n)
    if mutated:
        c.notes.append("TESTING AID ACTIVE: generated headers mutated via VERIF_GEN_MUTATION for %s" % mutated)
    os.makedirs(os.path.join(c.work, "coq"), exist_ok=True)

    def one(k):
        names, src, genv = programs[k]
        gens = [os.path.join(gdir, "src", n + ".cxx") for n in names]
        exe = c.cxx("trace_" + k, [os.path.join(srcdir, src)] + gens, SUPPORT + ["src/Math/MathException.cxx", "src/Material/MaterialException.cxx"],
                    flags=include_flags(gdir))
        out_v = os.path.join(c.work, "coq", genv)
        rc, out, err = c.run([exe, "gen", out_v, str(c.seed % 1000003), str(ncases), hyps[k]], timeout=600)
        return k, rc, out, err, out_v

    res = {}
    with ThreadPoolExecutor(max_workers=min(4, len(keys))) as ex:
        for k, rc, out, err, out_v in ex.map(one, keys):
            if rc != 0:
                c.report("trace:" + k, "tracer of program %s failed (generated class no longer instantiates / runs with Sym): %s" % (
                    k, err[-600:]), {"stderr": err[-3000:], "program": k}, False)
                continue
            res[k] = (out_v, out.splitlines())
    return res


def agreement(c, lines):
    n = 0
    for l in lines:
        if not l.startswith("AGREE"):
            continue
        t = l.split()
        kv = dict(x.split("=") for x in t[3:] if "=" in x)
        n += int(kv["n"])
        c.count(int(kv["n"]))
        if int(kv["bad"]) != 0 or int(kv["n"]) == 0:
            c.report("agree:%s:%s" % (t[1], t[2]), "traced DAG and double instantiation of the generated class disagree (or no case ran): " + l,
                     {"line": l}, False)
    return n


def coq_parallel(c, common, parallel, last, timeout=900):
    """compile `common` (in order), then the files of `parallel` concurrently, then `last` (the Properties files)"""
    from concurrent.futures import ThreadPoolExecutor
    r0 = c.coq(common, timeout=timeout)
    if not r0.ok:
        return r0
    with ThreadPoolExecutor(max_workers=max(1, min(8, len(parallel)))) as ex:
        rs = list(ex.map(lambda f: c.coq([f], timeout=timeout), parallel))
    bad = [r for r in rs if not r.ok]
    if bad:
        # the Properties files cannot be compiled; count their theorems as undischarged obligations
        r = bad[0]
        for b in bad[1:]:
            r.failed += b.failed
        n = 0
        for f in last:
            txt = open(f if os.path.isabs(f) else os.path.join(c.dir, "coq", f)).read()
            n += len(re.findall(r"^\s*(?:Theorem|Lemma|Corollary|Example)\s+", txt, flags=re.M))
        c.coverage["obligations"] += n
        r.ok = False
        return r
    return c.coq(last, timeout=timeout)


def coq_phases(c, common, pre_jobs, phase1, phase2, timeout=900, workers=4):
    """common: files compiled in order; pre_jobs: file lists compiled concurrently (generated modules, definitions); phase1: (group, file)
    proof files checked concurrently (`workers` at a time); phase2: (groups, files) chains compiled concurrently afterwards (glue lemmas and the
    Properties files, whose Print Assumptions is slow).  A chain one of whose groups failed in phase 1 is skipped and the theorems of its
    Properties files count as undischarged obligations.  Returns None when everything compiled, else a CoqResult with the failures."""
    import time
    from concurrent.futures import ThreadPoolExecutor
    r0 = c.coq(common, timeout=timeout)
    if not r0.ok:
        return r0
    with ThreadPoolExecutor(max_workers=workers) as ex:
        bad = [r for r in ex.map(lambda fs: c.coq(fs, timeout=timeout), pre_jobs) if not r.ok]
    if bad:
        for b in bad[1:]:
            bad[0].failed += b.failed
        return bad[0]
    c.log("coq: common and generated modules done")

    def one(job):
        t0 = time.time()
        r = c.coq([job[1]], timeout=timeout)
        c.log("coq %s %s %.0fs" % (os.path.basename(job[1]), "ok" if r.ok else "FAILED", time.time() - t0))
        return job, r

    with ThreadPoolExecutor(max_workers=workers) as ex:
        rs = list(ex.map(one, phase1))
    failed = [r for (job, r) in rs if not r.ok]
    badgroups = {job[0] for (job, r) in rs if not r.ok}
    todo = []
    for groups, files in phase2:
        if badgroups & set(groups):
            for f in files:
                if os.path.basename(f).startswith("Properties"):
                    txt = open(f if os.path.isabs(f) else os.path.join(c.dir, "coq", f)).read()
                    c.coverage["obligations"] += len(re.findall(r"^\s*(?:Theorem|Lemma|Corollary|Example)\s+", txt, flags=re.M))
            continue
        todo.append(files)

    def post(files):
        t0 = time.time()
        r = c.coq(files, timeout=timeout)
        c.log("coq %s %s %.0fs" % (os.path.basename(files[-1]), "ok" if r.ok else "FAILED", time.time() - t0))
        return r

    with ThreadPoolExecutor(max_workers=workers) as ex:
        failed += [r for r in ex.map(post, todo) if not r.ok]
    if not failed:
        return None
    for b in failed[1:]:
        failed[0].failed += b.failed
    failed[0].ok = False
    return failed[0]


def stiffness(young, nu, S):
    la, mu = lame(young, nu)
    return [[(la if (i < 3 and j < 3) else 0.0) + (2 * mu if i == j else 0.0) for j in range(S)] for i in range(S)]


HYP_SIZE = {"h3d": 6, "hpe": 4, "hax": 4, "hag": 3, "hgp": 4}

(* C41, program C41OrthoElasticity (Default DSL, @OrthotropicBehaviour<Pipe>, stiffness tensor computed by mfront through
   include/TFEL/Material/StiffnessTensor.ixx): in each hypothesis the traced stress satisfies the generalised Hooke law of the
   3D orthotropic compliance restricted by the documented axis permutation. *)
From Coq Require Import Reals List Lra Lia.
From VLib Require Import RealExtra.
Require Import GBehLib BehSpec GenOrtho.
Import ListNotations.
Local Open Scope R_scope.

(* the determinant of the compliance in the form it has in the traced code (the only denominator that is not a variable) *)
Ltac traced_det T := let t := eval unfold T in T in
  match t with context[1 / ?d] => lazymatch d with _ - _ => d end end.

Ltac ortho_tac sigdef sigl :=
  intros HE1 HE2 HE3 Hdet; unfold ortho_hooke;
  let T := fresh "T" in let dd := fresh "dd" in let Hdd := fresh "Hdd" in
  match goal with |- context[sigl ?e ?de ?E1 ?E2 ?E3 ?n12 ?n23 ?n13 ?G12 ?G23 ?G13] =>
    pose (T := nthR (sigl e de E1 E2 E3 n12 n23 n13 G12 G23 G13) 0);
    lazy beta iota zeta delta [sigl sigdef nthR nth] in T;
    let d := traced_det T in set (dd := d) in *;
    assert (Hdd : dd <> 0) by
      (replace dd with (ortho_det E1 E2 E3 n12 n23 n13) by (unfold dd, ortho_det, ortho_compliance; field; repeat split; assumption);
       exact Hdet);
    clear T
  end;
  split;
  [ intros i Hi; destruct i as [ | [ | [ | i ] ] ]; [ | | | lia ];
    lazy beta iota zeta delta [sigl sigdef nthR nth vadd vmap2 map combine fst snd ortho_compliance perm_id perm_pipe_plane];
    fold dd; (field_simplify_eq; [ unfold dd; field; repeat split; assumption | repeat split; assumption ])
  | repeat split;
    first [ intros _; lazy beta iota zeta delta [sigl sigdef nthR nth vadd vmap2 map combine fst snd ortho_shear perm_id perm_pipe_plane]; ring
          | cbn [length vadd vmap2 map combine]; intros Hl; exfalso; lia ] ].

Lemma or_sig_h3d_ok e0 e1 e2 e3 e4 e5 d0 d1 d2 d3 d4 d5 E1 E2 E3 n12 n23 n13 G12 G23 G13 :
  E1 <> 0 -> E2 <> 0 -> E3 <> 0 -> ortho_det E1 E2 E3 n12 n23 n13 <> 0 ->
  ortho_hooke perm_id E1 E2 E3 n12 n23 n13 G12 G23 G13 (vadd [e0;e1;e2;e3;e4;e5] [d0;d1;d2;d3;d4;d5])
              (or_sig_h3d_l [e0;e1;e2;e3;e4;e5] [d0;d1;d2;d3;d4;d5] E1 E2 E3 n12 n23 n13 G12 G23 G13).
Proof. ortho_tac or_sig_h3d or_sig_h3d_l. Qed.

Lemma or_sig_hax_ok e0 e1 e2 e3 d0 d1 d2 d3 E1 E2 E3 n12 n23 n13 G12 G23 G13 :
  E1 <> 0 -> E2 <> 0 -> E3 <> 0 -> ortho_det E1 E2 E3 n12 n23 n13 <> 0 ->
  ortho_hooke perm_id E1 E2 E3 n12 n23 n13 G12 G23 G13 (vadd [e0;e1;e2;e3] [d0;d1;d2;d3])
              (or_sig_hax_l [e0;e1;e2;e3] [d0;d1;d2;d3] E1 E2 E3 n12 n23 n13 G12 G23 G13).
Proof. ortho_tac or_sig_hax or_sig_hax_l. Qed.

Lemma or_sig_hpe_ok e0 e1 e2 e3 d0 d1 d2 d3 E1 E2 E3 n12 n23 n13 G12 G23 G13 :
  E1 <> 0 -> E2 <> 0 -> E3 <> 0 -> ortho_det E1 E2 E3 n12 n23 n13 <> 0 ->
  ortho_hooke perm_pipe_plane E1 E2 E3 n12 n23 n13 G12 G23 G13 (vadd [e0;e1;e2;e3] [d0;d1;d2;d3])
              (or_sig_hpe_l [e0;e1;e2;e3] [d0;d1;d2;d3] E1 E2 E3 n12 n23 n13 G12 G23 G13).
Proof. ortho_tac or_sig_hpe or_sig_hpe_l. Qed.

Lemma or_sig_hgp_ok e0 e1 e2 e3 d0 d1 d2 d3 E1 E2 E3 n12 n23 n13 G12 G23 G13 :
  E1 <> 0 -> E2 <> 0 -> E3 <> 0 -> ortho_det E1 E2 E3 n12 n23 n13 <> 0 ->
  ortho_hooke perm_pipe_plane E1 E2 E3 n12 n23 n13 G12 G23 G13 (vadd [e0;e1;e2;e3] [d0;d1;d2;d3])
              (or_sig_hgp_l [e0;e1;e2;e3] [d0;d1;d2;d3] E1 E2 E3 n12 n23 n13 G12 G23 G13).
Proof. ortho_tac or_sig_hgp or_sig_hgp_l. Qed.


(* C41 -- property theorems, programs C41Plasticity and C41NortonCreep (isotropic DSLs) (statements only; proofs in C41Proofs_iso.v).  Every traced definition is regenerated on each
   run from the C++ that the mfront of /repo's working tree emits for props/C41/mfront/*.mfront. *)
From Coq Require Import Reals List.
From Coquelicot Require Import Coquelicot.
From VLib Require Import RealExtra.
Require Import GBehLib BehSpec GenIso C41Proofs_iso.
Import ListNotations.
Local Open Scope R_scope.

(* IsotropicPlasticMisesFlow DSL: yield function, exact Newton step on F = f/young, radial-return state update *)
Theorem C41_plasticity_radial_return : forall eel0 eel1 eel2 deto0 deto1 deto2 p young nu H s0 dt epsilon dp0,
  let eel := [eel0;eel1;eel2] in let deto := [deto0;deto1;deto2] in
  let out := pl_int_hag_l eel deto p young nu H s0 dt 1 epsilon dp0 in
  0 < young -> 0 < 1 + nu -> 1 - 2 * nu <> 0 -> 0 <= H -> 0 < iso_seq2 eel deto young nu 1 ->
  nthR out 0 = pl_yield eel deto p young nu H s0 dp0 /\
  (exists D, is_derive (fun x => pl_yield eel deto p young nu H s0 x / young) dp0 D /\ D <> 0 /\
             nthR out 3 = dp0 - (pl_yield eel deto p young nu H s0 dp0 / young) / D) /\
  sublist 4 7 out = iso_final eel deto p young nu 1 (nthR out 3).
Proof. exact pl_hag_ok. Qed.
Print Assumptions C41_plasticity_radial_return.

(* IsotropicMisesCreep DSL: flow rate and its derivative, exact Newton step on dp - dt A seq^E, state update *)
Theorem C41_creep_scalar_newton : forall eel0 eel1 eel2 deto0 deto1 deto2 p young nu A E dt theta epsilon dp0,
  let eel := [eel0;eel1;eel2] in let deto := [deto0;deto1;deto2] in
  let out := cr_int_hag_l eel deto p young nu A E dt theta epsilon dp0 in
  1 + nu <> 0 -> 1 - 2 * nu <> 0 -> 0 < iso_seq2 eel deto young nu theta -> 0 < iso_seq eel deto young nu theta dp0 ->
  (nthR out 0 = A * Rpower (iso_seq eel deto young nu theta dp0) E /\
   is_derive (fun s => A * Rpower s E) (iso_seq eel deto young nu theta dp0) (nthR out 1)) /\
  (exists D, is_derive (fun x => cr_residual eel deto young nu A E dt theta x) dp0 D /\
             (D <> 0 -> nthR out 3 = dp0 - cr_residual eel deto young nu A E dt theta dp0 / D)).
Proof. exact cr_hag_ok. Qed.
Print Assumptions C41_creep_scalar_newton.

Theorem C41_creep_update : forall eel0 eel1 eel2 deto0 deto1 deto2 p young nu A E dt theta epsilon dp0,
  let eel := [eel0;eel1;eel2] in let deto := [deto0;deto1;deto2] in
  let out := cr_int_hag_l eel deto p young nu A E dt theta epsilon dp0 in
  1 + nu <> 0 -> 1 - 2 * nu <> 0 -> 0 < iso_seq2 eel deto young nu theta ->
  sublist 4 7 out = iso_final eel deto p young nu theta (nthR out 3).
Proof. exact cr_hag_final. Qed.
Print Assumptions C41_creep_update.

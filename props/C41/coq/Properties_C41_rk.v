(* C41 -- property theorems, program C41NortonRK (RungeKutta DSL) (statements only; proofs in C41Proofs_rk.v).  Every traced definition is regenerated on each
   run from the C++ that the mfront of /repo's working tree emits for props/C41/mfront/*.mfront. *)
From Coq Require Import Reals List.
From Coquelicot Require Import Coquelicot.
From VLib Require Import RealExtra.
Require Import GBehLib BehSpec GenRK C41Proofs_rk.
Import ListNotations.
Local Open Scope R_scope.

(* RungeKutta DSL: the generated derivative function (computeThermodynamicForces(); computeDerivative()) evaluated at a stage value e
   of the elastic strain returns the rate equations of the source: d eel/dt = deto/dt - dp/dt n, dp/dt = A seq^E *)
Theorem C41_runge_kutta_derivative_is_rate_equations : forall e0 e1 e2 deto0 deto1 deto2 p young nu A E dt,
  let e := [e0;e1;e2] in let deto := [deto0;deto1;deto2] in
  1 + nu <> 0 -> 1 - 2 * nu <> 0 -> dt <> 0 ->
  0 < seq2 (hooke (lame_lambda young nu) (lame_mu young nu) e) ->
  rk_rate_hag_l e deto p young nu A E dt = norton_rate e deto young nu A E dt.
Proof. exact rk_rate_hag_ok. Qed.
Print Assumptions C41_runge_kutta_derivative_is_rate_equations.

Theorem C41_runge_kutta_leaf : forall e0 e1 e2 deto0 deto1 deto2 p young nu A E dt,
  let e := [e0;e1;e2] in let deto := [deto0;deto1;deto2] in
  1 + nu <> 0 -> 1 - 2 * nu <> 0 -> 22250738585072014 / 10 ^ 322 <= dt ->
  1 / 10 ^ 12 * young <= sqrt (seq2 (hooke (lame_lambda young nu) (lame_mu young nu) e)) ->
  rk_cond_hag_l e deto p young nu A E dt.
Proof. exact rk_cond_hag_ok. Qed.
Print Assumptions C41_runge_kutta_leaf.

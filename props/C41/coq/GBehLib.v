(* Shared helpers for proofs about traced mfront-generated behaviours (C41, C42, C43). *)
From Coq Require Import Reals List Lra Lia.
From VLib Require Import RealExtra.
Import ListNotations.
Local Open Scope R_scope.

(* l with its j-th entry replaced by x *)
Fixpoint upd (l : list R) (j : nat) (x : R) : list R :=
  match l, j with
  | [], _ => []
  | _ :: t, O => x :: t
  | h :: t, S k => h :: upd t k x
  end.

Lemma cons_eq (a b : R) l l' : a = b -> l = l' -> a :: l = b :: l'.
Proof. intros; subst; reflexivity. Qed.
(* equality of two explicit lists, component by component *)
Ltac list_eq tac := repeat (apply cons_eq; [ tac | ]); reflexivity.

(* all pairs (i,j), i<n, j<m: a statement for all i<n, j<m is proved entry by entry *)
Definition pairs (n m : nat) : list (nat * nat) := list_prod (List.seq 0 n) (List.seq 0 m).
Lemma pairs_in n m i j : (i < n)%nat -> (j < m)%nat -> In (i, j) (pairs n m).
Proof. intros; apply in_prod; apply in_seq; lia. Qed.
Lemma forall_pairs (P : nat -> nat -> Prop) n m :
  Forall (fun p => P (fst p) (snd p)) (pairs n m) -> forall i j, (i < n)%nat -> (j < m)%nat -> P i j.
Proof. intros H i j Hi Hj. rewrite Forall_forall in H. exact (H (i, j) (pairs_in _ _ _ _ Hi Hj)). Qed.
Ltac forall_pairs_tac tac :=
  apply forall_pairs; unfold pairs; cbn [list_prod List.seq map app];
  repeat (apply Forall_cons; [ cbn [fst snd]; tac | ]); apply Forall_nil.

(* every [sqrt b] of the goal whose argument is provably equal to [a] is rewritten to [sqrt a] *)
Ltac unify_sqrt a tac :=
  repeat match goal with |- context[sqrt ?b] =>
    lazymatch b with a => fail | _ => replace b with a by tac end end.

Lemma Rpower_succ q e : 0 < q -> Rpower q e = Rpower q (e - 1) * q.
Proof. intros. rewrite <- (Rpower_1 q) at 3 by assumption. rewrite <- Rpower_plus. f_equal. ring. Qed.

(* side conditions: conjunctions of hypotheses, positivity of square roots, non-nullity of positive numbers *)
Ltac nz := repeat split; try assumption; try (apply sqrt_lt_R0; assumption); try (apply Rgt_not_eq; assumption);
           try (apply Rgt_not_eq; apply sqrt_lt_R0; assumption); try lra; try (apply Rdiv_lt_0_compat; lra);
           try (apply Rmult_lt_0_compat; [ lra | apply Rinv_0_lt_compat; lra ]); try (timeout 20 nra).

(* |x| >= c > 0 (a pivot test that did not fire) gives x <> 0 *)
Lemma not_abs_lt_nz x c : 0 < c -> ~ (Rabs x < c) -> x <> 0.
Proof. intros Hc H Hx. apply H. rewrite Hx, Rabs_R0. exact Hc. Qed.
Lemma tiny_pos : 0 < 22250738585072014 / 10 ^ 322.
Proof. apply Rdiv_lt_0_compat; [ lra | apply pow_lt; lra ]. Qed.

(* same for logarithms; powers u^e are handled as exp (e * ln u) with u^e = u^(e-1) * u *)
Ltac unify_ln a tac :=
  repeat match goal with |- context[ln ?b] =>
    lazymatch b with a => fail | _ => replace b with a by tac end end.
Lemma exp_ln_succ u e : 0 < u -> exp (e * ln u) = exp ((e - 1) * ln u) * u.
Proof. intros H. rewrite <- (exp_ln u H) at 3. rewrite <- exp_plus. f_equal. ring. Qed.

(* a side condition  num(e) <> 0  left by [field], from a hypothesis 0 < e *)
Ltac nzpos :=
  match goal with
  | H : 0 < ?e |- _ <> 0 =>
    let Hz := fresh "Hz" in
    intro Hz; absurd (e = 0); [ apply Rgt_not_eq; exact H | field_simplify_eq; [ lra | nz ] ]
  end.
Ltac nzne :=
  match goal with
  | H : ?e <> 0 |- _ <> 0 =>
    let Hz := fresh "Hz" in
    intro Hz; apply H; field_simplify_eq; [ lra | nz ]
  end.
Ltac nzz := nz; try nzpos; try nzne.

(* ---- shared by the jacobian / tangent-operator proofs of C42 and C43 (moved from C43Lib.v) ---- *)
(* the argument of the first square root / exp / Rpower / ln of the body of the local definition T *)
Ltac first_sqrt_arg T := let t := eval unfold T in T in match t with context[sqrt ?b] => b end.
Ltac first_exp_arg T := let t := eval unfold T in T in match t with context[exp ?b] => b end.
Ltac first_rpower_base T := let t := eval unfold T in T in match t with context[Rpower ?b _] => b end.

(* Hs : 0 < a with a the specification's form of the argument of the square roots of the traced jacobian, whose unfolded
   body is the local definition T: the form b of T is named (sb), Hs is restated on it (a = b by field), q := sqrt sb is
   introduced with Hq : 0 < q, and the continuation runs with sb and q *)
Ltac with_sqrt T Hs k :=
  let b := first_sqrt_arg T in
  let sb := fresh "sb" in let q := fresh "q" in let Hq := fresh "Hq" in
  set (sb := b) in *;
  match type of Hs with 0 < ?a => replace a with sb in * by (unfold sb; field; repeat split; assumption) end;
  assert (Hq : 0 < sqrt sb) by (apply sqrt_lt_R0; exact Hs);
  set (q := sqrt sb) in *;
  k sb q.

(* 0 < a * / b from 0 < a, 0 < b; conjunctions; hypotheses; linear arithmetic *)
Ltac pos1 := first [ exact I | assumption | lra
                   | apply Rmult_lt_0_compat; [ lra | apply Rinv_0_lt_compat; lra ]
                   | apply Rgt_not_eq; apply Rmult_lt_0_compat; [ lra | apply Rinv_0_lt_compat; lra ]
                   | apply Rgt_not_eq; assumption
                   | apply exp_pos
                   | apply Rgt_not_eq; apply exp_pos ].
Ltac pos_side := repeat split; pos1.

(* rows a .. a+n-1 of a matrix statement *)
Lemma forall_pairs_from (P : nat -> nat -> Prop) a n m :
  Forall (fun p => P (fst p) (snd p)) (list_prod (List.seq a n) (List.seq 0 m)) ->
  forall i j, (a <= i < a + n)%nat -> (j < m)%nat -> P i j.
Proof.
  intros H i j Hi Hj. rewrite Forall_forall in H.
  apply (H (i, j)). apply in_prod; apply in_seq; lia.
Qed.
Ltac forall_pairs_from_tac tac :=
  apply forall_pairs_from; cbn [list_prod List.seq map app];
  repeat (apply Forall_cons; [ cbn [fst snd]; tac | ]); apply Forall_nil.

(* two blocks of rows make the whole matrix *)
Lemma rows_split (P : nat -> nat -> Prop) a n m :
  (forall i j, (0 <= i < 0 + a)%nat -> (j < m)%nat -> P i j) ->
  (forall i j, (a <= i < a + (n - a))%nat -> (j < m)%nat -> P i j) ->
  forall i j, (i < n)%nat -> (j < m)%nat -> P i j.
Proof. intros HA HB i j Hi Hj. destruct (Nat.lt_ge_cases i a); [ apply HA | apply HB ]; lia. Qed.

Lemma rows_split3 (P : nat -> nat -> Prop) a b n m :
  (forall i j, (0 <= i < 0 + a)%nat -> (j < m)%nat -> P i j) ->
  (forall i j, (a <= i < a + (b - a))%nat -> (j < m)%nat -> P i j) ->
  (forall i j, (b <= i < b + (n - b))%nat -> (j < m)%nat -> P i j) ->
  forall i j, (i < n)%nat -> (j < m)%nat -> P i j.
Proof.
  intros HA HB HC i j Hi Hj. destruct (Nat.lt_ge_cases i a); [ apply HA; lia | ].
  destruct (Nat.lt_ge_cases i b); [ apply HB | apply HC ]; lia.
Qed.

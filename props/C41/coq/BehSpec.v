(* Independent statement of the constitutive equations of the reference behaviours (C41, C42, C43).
   Symmetric tensors are lists of 3, 4 or 6 reals in TFEL's storage (off-diagonal terms carry a factor sqrt 2, so that
   the contraction of two tensors is the dot product of their component lists). *)
From Coq Require Import Reals List Lra.
From VLib Require Import RealExtra.
Import ListNotations.
Local Open Scope R_scope.

Definition lame_lambda (young nu : R) := nu * young / ((1 + nu) * (1 - 2 * nu)).
Definition lame_mu (young nu : R) := young / (2 * (1 + nu)).

Definition tr3 (e : list R) := nthR e 0 + nthR e 1 + nthR e 2.
Definition vmap2 (f : R -> R -> R) (a b : list R) := map (fun p => f (fst p) (snd p)) (combine a b).
Definition vadd := vmap2 Rplus.
Definition vsub := vmap2 Rminus.
Definition vscal (k : R) (a : list R) := map (Rmult k) a.
Definition vdot (a b : list R) := fold_right Rplus 0 (vmap2 Rmult a b).
Definition tabulate (n : nat) (f : nat -> R) := map f (List.seq 0 n).
Definition diag3 (i : nat) (x : R) := if Nat.ltb i 3 then x else 0.

(* Hooke's law sigma = lambda tr(e) I + 2 mu e *)
Definition hooke (la mu : R) (e : list R) : list R :=
  tabulate (length e) (fun i => diag3 i (la * tr3 e) + 2 * mu * nthR e i).
(* deviator, von Mises stress, normal *)
Definition dev (s : list R) : list R := tabulate (length s) (fun i => nthR s i - diag3 i (tr3 s / 3)).
Definition seq2 (s : list R) : R := 3 / 2 * vdot (dev s) (dev s).
Definition vmises (s : list R) : R := sqrt (seq2 s).
Definition normal (s : list R) : list R := vscal (3 / 2 / vmises s) (dev s).

(* Norton creep, theta-scheme:  unknowns z = (deel, dp)
     feel = deel + dp n(sig_theta) - deto ;  fp = dp - dt A seq(sig_theta)^E ;  sig_theta = Hooke (eel + theta deel) *)
Definition norton_residual (S : nat) (eel deto : list R) (young nu A E dt theta : R) (z : list R) : list R :=
  let deel := firstn S z in let dp := nthR z S in
  let sg := hooke (lame_lambda young nu) (lame_mu young nu) (vadd eel (vscal theta deel)) in
  vsub (vadd deel (vscal dp (normal sg))) deto ++ [dp - dt * A * Rpower (vmises sg) E].
Definition norton_seq2 (S : nat) (eel : list R) (young nu theta : R) (z : list R) : R :=
  seq2 (hooke (lame_lambda young nu) (lame_mu young nu) (vadd eel (vscal theta (firstn S z)))).
(* state at the end of the step *)
Definition norton_final (S : nat) (eel : list R) (p young nu : R) (z : list R) : list R :=
  let eel1 := vadd eel (firstn S z) in
  eel1 ++ [p + nthR z S] ++ hooke (lame_lambda young nu) (lame_mu young nu) eel1.

(* matrices as row-major lists *)
Definition mget (ncols : nat) (M : list R) (i k : nat) := nthR M (ncols * i + k).
Definition sumn (n : nat) (f : nat -> R) := fold_right Rplus 0 (map f (List.seq 0 n)).
Definition delta (i k : nat) : R := if Nat.eqb i k then 1 else 0.
Definition hooke_matrix (la mu : R) (i k : nat) : R :=
  (if andb (Nat.ltb i 3) (Nat.ltb k 3) then la else 0) + 2 * mu * delta i k.

(* Isotropic DSLs (radial return):  se = 2 mu dev(eel + theta deto), seq_e = vmises se, n = 3/2 se / seq_e,
   von Mises stress for a plastic increment dp:  seq(dp) = seq_e - 3 mu theta dp *)
Definition iso_se (eel deto : list R) (young nu theta : R) : list R :=
  vscal (2 * lame_mu young nu) (dev (vadd eel (vscal theta deto))).
Definition iso_seq2 (eel deto : list R) (young nu theta : R) : R := seq2 (iso_se eel deto young nu theta).
Definition iso_seq (eel deto : list R) (young nu theta dp : R) : R :=
  vmises (iso_se eel deto young nu theta) - 3 * lame_mu young nu * theta * dp.
Definition iso_final (eel deto : list R) (p young nu theta dp : R) : list R :=
  let eel1 := vsub (vadd eel deto) (vscal dp (normal (iso_se eel deto young nu theta))) in
  eel1 ++ [p + dp] ++ hooke (lame_lambda young nu) (lame_mu young nu) eel1.
(* J2 plasticity with linear isotropic hardening (theta = 1): yield function at the end of the step *)
Definition pl_yield (eel deto : list R) (p young nu H s0 dp : R) : R :=
  iso_seq eel deto young nu 1 dp - H * (p + dp) - s0.
(* Norton creep: residual of the scalar equation dp - dt A seq(dp)^E = 0 *)
Definition cr_residual (eel deto : list R) (young nu A E dt theta dp : R) : R :=
  dp - dt * (A * Rpower (iso_seq eel deto young nu theta dp) E).
Definition sublist (a n : nat) (l : list R) := firstn n (skipn a l).

(* Orthotropic linear elasticity (C41OrthoElasticity): compliance of the normal components in the material axes (1,2,3),
   S_aa = 1/E_a, S_12 = -nu12/E1, S_13 = -nu13/E1, S_23 = -nu23/E2 (symmetric), shear modulus of a pair of axes.
   Generalised Hooke law in the directions of a modelling hypothesis whose i-th direction is the material axis perm i:
     eps_i = sum_j S(perm i, perm j) sig_j  (i < 3),   sig_xy = 2 G(perm 0, perm 1) eps_xy, ... *)
Definition ortho_compliance (E1 E2 E3 n12 n23 n13 : R) (a b : nat) : R :=
  match a, b with
  | 0%nat, 0%nat => 1 / E1 | 1%nat, 1%nat => 1 / E2 | 2%nat, 2%nat => 1 / E3
  | 0%nat, 1%nat | 1%nat, 0%nat => - n12 / E1
  | 0%nat, 2%nat | 2%nat, 0%nat => - n13 / E1
  | 1%nat, 2%nat | 2%nat, 1%nat => - n23 / E2
  | _, _ => 0
  end.
Definition ortho_shear (G12 G23 G13 : R) (a b : nat) : R :=
  match a, b with
  | 0%nat, 1%nat | 1%nat, 0%nat => G12
  | 1%nat, 2%nat | 2%nat, 1%nat => G23
  | 0%nat, 2%nat | 2%nat, 0%nat => G13
  | _, _ => 0
  end.
Definition ortho_det (E1 E2 E3 n12 n23 n13 : R) : R :=
  let S := ortho_compliance E1 E2 E3 n12 n23 n13 in
  S 0%nat 0%nat * (S 1%nat 1%nat * S 2%nat 2%nat - S 1%nat 2%nat * S 2%nat 1%nat)
  - S 0%nat 1%nat * (S 1%nat 0%nat * S 2%nat 2%nat - S 1%nat 2%nat * S 2%nat 0%nat)
  + S 0%nat 2%nat * (S 1%nat 0%nat * S 2%nat 1%nat - S 1%nat 1%nat * S 2%nat 0%nat).
(* sig (in the storage of a hypothesis with Sz components) is the stress of the strain e *)
Definition ortho_hooke (perm : nat -> nat) (E1 E2 E3 n12 n23 n13 G12 G23 G13 : R) (e sig : list R) : Prop :=
  let S := ortho_compliance E1 E2 E3 n12 n23 n13 in let G := ortho_shear G12 G23 G13 in
  (forall i, (i < 3)%nat -> S (perm i) (perm 0%nat) * nthR sig 0 + S (perm i) (perm 1%nat) * nthR sig 1 + S (perm i) (perm 2%nat) * nthR sig 2 = nthR e i) /\
  ((3 < length e)%nat -> nthR sig 3 = 2 * G (perm 0%nat) (perm 1%nat) * nthR e 3) /\
  ((4 < length e)%nat -> nthR sig 4 = 2 * G (perm 0%nat) (perm 2%nat) * nthR e 4) /\
  ((5 < length e)%nat -> nthR sig 5 = 2 * G (perm 1%nat) (perm 2%nat) * nthR e 5).
(* pipe convention: identity in 3D / axisymmetrical, exchange of the axes 2 and 3 in the plane hypotheses *)
Definition perm_id (i : nat) : nat := i.
Definition perm_pipe_plane (i : nat) : nat := match i with 1%nat => 2%nat | 2%nat => 1%nat | _ => i end.

(* Norton creep as rate equations (RungeKutta DSL):  d eel/dt = deto/dt - (dp/dt) n(sig),  dp/dt = A seq(sig)^E,  sig = Hooke eel *)
Definition norton_rate (e deto : list R) (young nu A E dt : R) : list R :=
  let sg := hooke (lame_lambda young nu) (lame_mu young nu) e in
  let r := A * Rpower (vmises sg) E in
  vsub (vscal (/ dt) deto) (vscal r (normal sg)) ++ [r].

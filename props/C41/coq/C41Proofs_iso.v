(* C41, programs C41Plasticity (IsotropicPlasticMisesFlow DSL) and C41NortonCreep (IsotropicMisesCreep DSL):
   the generated integrate() traced for one Newton iteration from a symbolic dp0 (see trace_iso.cxx). *)
From Coq Require Import Reals List Lra.
From Coquelicot Require Import Coquelicot.
From VLib Require Import RealExtra.
Require Import GBehLib BehSpec GenIso.
Import ListNotations.
Local Open Scope R_scope.

Ltac spec_unfold := unfold pl_yield, cr_residual, iso_final, iso_seq, iso_seq2, iso_se, sublist, normal, vmises, seq2, dev, hooke, lame_lambda, lame_mu,
  vadd, vsub, vscal, vdot, vmap2, tabulate, diag3, tr3, nthR in *.

Lemma pl_hag_ok eel0 eel1 eel2 deto0 deto1 deto2 p young nu H s0 dt epsilon dp0 :
  let eel := [eel0;eel1;eel2] in let deto := [deto0;deto1;deto2] in
  let out := pl_int_hag_l eel deto p young nu H s0 dt 1 epsilon dp0 in
  0 < young -> 0 < 1 + nu -> 1 - 2 * nu <> 0 -> 0 <= H -> 0 < iso_seq2 eel deto young nu 1 ->
  nthR out 0 = pl_yield eel deto p young nu H s0 dp0 /\
  (exists D, is_derive (fun x => pl_yield eel deto p young nu H s0 x / young) dp0 D /\ D <> 0 /\
             nthR out 3 = dp0 - (pl_yield eel deto p young nu H s0 dp0 / young) / D) /\
  sublist 4 7 out = iso_final eel deto p young nu 1 (nthR out 3).
Proof.
  intros eel deto out Hy H1 H2 HH Hs. unfold eel, deto in *. clear eel deto.
  spec_unfold. cbn in Hs |- *.
  unfold out, pl_int_hag_l, pl_int_hag, nthR; cbn [nth firstn skipn]. clear out.
  match type of Hs with 0 < ?a => unify_sqrt a ltac:(field; nz); set (q := sqrt a) in * end.
  assert (Hq : 0 < q) by (apply sqrt_lt_R0; exact Hs).
  assert (Hd : - H - 3 * (young / (2 * (1 + nu))) <> 0).
  { assert (0 < young / (2 * (1 + nu))) by (apply Rdiv_lt_0_compat; lra). lra. }
  split; [ field; nz | split ].
  - exists ((- H - 3 * (young / (2 * (1 + nu)))) / young). split; [ auto_derive; [ exact I | field; nz ] | split ].
    + intro Hz. apply Hd. apply (Rmult_eq_reg_r (/ young)); [ | apply Rinv_neq_0_compat; lra ]. unfold Rdiv in Hz. lra.
    + field; nz.
  - list_eq ltac:(field; nz).
Qed.

Lemma cr_hag_ok eel0 eel1 eel2 deto0 deto1 deto2 p young nu A E dt theta epsilon dp0 :
  let eel := [eel0;eel1;eel2] in let deto := [deto0;deto1;deto2] in
  let out := cr_int_hag_l eel deto p young nu A E dt theta epsilon dp0 in
  1 + nu <> 0 -> 1 - 2 * nu <> 0 -> 0 < iso_seq2 eel deto young nu theta -> 0 < iso_seq eel deto young nu theta dp0 ->
  (nthR out 0 = A * Rpower (iso_seq eel deto young nu theta dp0) E /\
   is_derive (fun s => A * Rpower s E) (iso_seq eel deto young nu theta dp0) (nthR out 1)) /\
  (exists D, is_derive (fun x => cr_residual eel deto young nu A E dt theta x) dp0 D /\
             (D <> 0 -> nthR out 3 = dp0 - cr_residual eel deto young nu A E dt theta dp0 / D)).
Proof.
  intros eel deto out H1 H2 Hs Hseq. unfold eel, deto in *. clear eel deto.
  spec_unfold. cbn in Hs, Hseq |- *.
  unfold out, cr_int_hag_l, cr_int_hag, nthR; cbn [nth firstn skipn]. clear out.
  match type of Hs with 0 < ?a => unify_sqrt a ltac:(field; nz); set (q := sqrt a) in * end.
  assert (Hq : 0 < q) by (apply sqrt_lt_R0; exact Hs).
  match type of Hseq with 0 < ?a => set (sq := a) in * end.
  unfold Rpower.
  split; [ split | ].
  - unify_ln sq ltac:(unfold sq; field; nz). rewrite (exp_ln_succ sq E Hseq). unfold sq in *; field; nzz.
  - auto_derive; [ exact Hseq | ]. unify_ln sq ltac:(unfold sq; field; nz). rewrite (exp_ln_succ sq E Hseq). unfold sq in *; field; nzz.
  - exists (1 + 3 * (young / (2 * (1 + nu))) * theta * dt * (E * (A * exp ((E - 1) * ln sq)))). split.
    + unfold sq. auto_derive; [ nz | ]. fold sq. unify_ln sq ltac:(unfold sq; field; nz). rewrite (exp_ln_succ sq E Hseq). unfold sq in *; field; nzz.
    + intros HD. unify_ln sq ltac:(unfold sq; field; nz). rewrite (exp_ln_succ sq E Hseq).
      unfold sq in *; field; nzz.
Qed.

Lemma cr_hag_final eel0 eel1 eel2 deto0 deto1 deto2 p young nu A E dt theta epsilon dp0 :
  let eel := [eel0;eel1;eel2] in let deto := [deto0;deto1;deto2] in
  let out := cr_int_hag_l eel deto p young nu A E dt theta epsilon dp0 in
  1 + nu <> 0 -> 1 - 2 * nu <> 0 -> 0 < iso_seq2 eel deto young nu theta ->
  sublist 4 7 out = iso_final eel deto p young nu theta (nthR out 3).
Proof.
  intros eel deto out H1 H2 Hs. unfold eel, deto in *. clear eel deto.
  set (d1 := nthR out 3).
  spec_unfold. cbn in Hs |- *.
  unfold out, cr_int_hag_l, cr_int_hag, nthR in d1 |- *; cbn [nth firstn skipn] in d1 |- *. clear out.
  fold d1. clearbody d1.
  match type of Hs with 0 < ?a => unify_sqrt a ltac:(field; nz); set (q := sqrt a) in * end.
  assert (Hq : 0 < q) by (apply sqrt_lt_R0; exact Hs).
  list_eq ltac:(field; nzz).
Qed.

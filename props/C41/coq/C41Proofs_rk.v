(* C41, program C41NortonRK (RungeKutta DSL): one evaluation of the generated derivative function
   (computeThermodynamicForces(); computeDerivative()) at a stage value e of the elastic strain is the rate equations of the
   Norton law. *)
From Coq Require Import Reals List Lra.
From VLib Require Import RealExtra.
Require Import GBehLib BehSpec GenRK.
Import ListNotations.
Local Open Scope R_scope.

Ltac spec_unfold := unfold norton_rate, normal, vmises, seq2, dev, hooke, lame_lambda, lame_mu,
  vadd, vsub, vscal, vdot, vmap2, tabulate, diag3, tr3, nthR in *.

Lemma rk_rate_hag_ok e0 e1 e2 deto0 deto1 deto2 p young nu A E dt :
  let e := [e0;e1;e2] in let deto := [deto0;deto1;deto2] in
  1 + nu <> 0 -> 1 - 2 * nu <> 0 -> dt <> 0 ->
  0 < seq2 (hooke (lame_lambda young nu) (lame_mu young nu) e) ->
  rk_rate_hag_l e deto p young nu A E dt = norton_rate e deto young nu A E dt.
Proof.
  intros e deto H1 H2 Hdt Hs. unfold e, deto in *. clear e deto.
  spec_unfold. cbn in Hs |- *.
  unfold rk_rate_hag_l, rk_rate_hag, nthR; cbn [nth].
  match type of Hs with 0 < ?a => unify_sqrt a ltac:(field; nz); set (q := sqrt a) in * end.
  assert (Hq : 0 < q) by (apply sqrt_lt_R0; exact Hs).
  list_eq ltac:(field; nz).
Qed.

(* the path condition of the traced leaf: a usable time step and the regularisation max(seq, 1e-12 young) inactive *)
Lemma rk_cond_hag_ok e0 e1 e2 deto0 deto1 deto2 p young nu A E dt :
  let e := [e0;e1;e2] in let deto := [deto0;deto1;deto2] in
  1 + nu <> 0 -> 1 - 2 * nu <> 0 -> 22250738585072014 / 10 ^ 322 <= dt ->
  1 / 10 ^ 12 * young <= sqrt (seq2 (hooke (lame_lambda young nu) (lame_mu young nu) e)) ->
  rk_cond_hag_l e deto p young nu A E dt.
Proof.
  intros e deto H1 H2 Hdt Hs. unfold e, deto in *. clear e deto.
  spec_unfold. cbn in Hs.
  unfold rk_cond_hag_l, rk_cond_hag, nthR; cbn [nth].
  match type of Hs with _ <= sqrt ?a => unify_sqrt a ltac:(field; nz) end.
  split; lra.
Qed.

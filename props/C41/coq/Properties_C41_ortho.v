(* C41 -- property theorems, program C41OrthoElasticity (orthotropic elasticity, pipe convention) (statements only; proofs in C41Proofs_ortho.v).  Every traced definition is regenerated on each
   run from the C++ that the mfront of /repo's working tree emits for props/C41/mfront/*.mfront. *)
From Coq Require Import Reals List.
From Coquelicot Require Import Coquelicot.
From VLib Require Import RealExtra.
Require Import GBehLib BehSpec GenOrtho C41Proofs_ortho.
Import ListNotations.
Local Open Scope R_scope.

(* Default DSL + @OrthotropicBehaviour<Pipe> + @ComputeStiffnessTensor (header-only StiffnessTensor.ixx instantiated by the generated
   code): for every strain and all moduli with a non singular compliance, the traced stress sig satisfies the generalised Hooke law
   eps_i = sum_j S(perm i, perm j) sig_j, sig_shear = 2 G eps_shear, S the 3D orthotropic compliance in the material axes
   (1,2,3) = (r, z, theta), perm the documented permutation of the hypothesis. *)
(* Tridimensional: directions = material axes *)
Theorem C41_orthotropic_pipe_tridimensional : forall e0 e1 e2 e3 e4 e5 d0 d1 d2 d3 d4 d5 E1 E2 E3 n12 n23 n13 G12 G23 G13,
  E1 <> 0 -> E2 <> 0 -> E3 <> 0 -> ortho_det E1 E2 E3 n12 n23 n13 <> 0 ->
  ortho_hooke perm_id E1 E2 E3 n12 n23 n13 G12 G23 G13 (vadd [e0;e1;e2;e3;e4;e5] [d0;d1;d2;d3;d4;d5])
              (or_sig_h3d_l [e0;e1;e2;e3;e4;e5] [d0;d1;d2;d3;d4;d5] E1 E2 E3 n12 n23 n13 G12 G23 G13).
Proof. exact or_sig_h3d_ok. Qed.
Print Assumptions C41_orthotropic_pipe_tridimensional.

(* Axisymmetrical (r, z, theta): directions = material axes *)
Theorem C41_orthotropic_pipe_axisymmetrical : forall e0 e1 e2 e3 d0 d1 d2 d3 E1 E2 E3 n12 n23 n13 G12 G23 G13,
  E1 <> 0 -> E2 <> 0 -> E3 <> 0 -> ortho_det E1 E2 E3 n12 n23 n13 <> 0 ->
  ortho_hooke perm_id E1 E2 E3 n12 n23 n13 G12 G23 G13 (vadd [e0;e1;e2;e3] [d0;d1;d2;d3])
              (or_sig_hax_l [e0;e1;e2;e3] [d0;d1;d2;d3] E1 E2 E3 n12 n23 n13 G12 G23 G13).
Proof. exact or_sig_hax_ok. Qed.
Print Assumptions C41_orthotropic_pipe_axisymmetrical.

(* PlaneStrain (r, theta, z): axes 2 and 3 exchanged *)
Theorem C41_orthotropic_pipe_plane_strain : forall e0 e1 e2 e3 d0 d1 d2 d3 E1 E2 E3 n12 n23 n13 G12 G23 G13,
  E1 <> 0 -> E2 <> 0 -> E3 <> 0 -> ortho_det E1 E2 E3 n12 n23 n13 <> 0 ->
  ortho_hooke perm_pipe_plane E1 E2 E3 n12 n23 n13 G12 G23 G13 (vadd [e0;e1;e2;e3] [d0;d1;d2;d3])
              (or_sig_hpe_l [e0;e1;e2;e3] [d0;d1;d2;d3] E1 E2 E3 n12 n23 n13 G12 G23 G13).
Proof. exact or_sig_hpe_ok. Qed.
Print Assumptions C41_orthotropic_pipe_plane_strain.

(* GeneralisedPlaneStrain (r, theta, z): axes 2 and 3 exchanged *)
Theorem C41_orthotropic_pipe_generalised_plane_strain : forall e0 e1 e2 e3 d0 d1 d2 d3 E1 E2 E3 n12 n23 n13 G12 G23 G13,
  E1 <> 0 -> E2 <> 0 -> E3 <> 0 -> ortho_det E1 E2 E3 n12 n23 n13 <> 0 ->
  ortho_hooke perm_pipe_plane E1 E2 E3 n12 n23 n13 G12 G23 G13 (vadd [e0;e1;e2;e3] [d0;d1;d2;d3])
              (or_sig_hgp_l [e0;e1;e2;e3] [d0;d1;d2;d3] E1 E2 E3 n12 n23 n13 G12 G23 G13).
Proof. exact or_sig_hgp_ok. Qed.
Print Assumptions C41_orthotropic_pipe_generalised_plane_strain.

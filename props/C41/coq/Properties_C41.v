(* C41 -- property theorems (statements only; proofs in C41Proofs_*.v).  Every traced definition (prefixes el_, no_, pl_, cr_)
   is regenerated on each run from the C++ that the mfront of /repo's working tree emits for props/C41/mfront/*.mfront. *)
From Coq Require Import Reals List.
From Coquelicot Require Import Coquelicot.
From VLib Require Import RealExtra.
Require Import GBehLib BehSpec GenEl GenNorton GenIso C41Proofs_el C41Proofs_norton C41Proofs_iso.
Import ListNotations.
Local Open Scope R_scope.

(* Default DSL: the generated elastic behaviour returns exactly Hooke's law (3D and generalised plane strain) *)
Theorem C41_elasticity_is_hooke_3d : forall e0 e1 e2 e3 e4 e5 d0 d1 d2 d3 d4 d5 young nu,
  1 + nu <> 0 -> 1 - 2 * nu <> 0 ->
  el_sig_h3d_l [e0;e1;e2;e3;e4;e5] [d0;d1;d2;d3;d4;d5] young nu =
  hooke (lame_lambda young nu) (lame_mu young nu) (vadd [e0;e1;e2;e3;e4;e5] [d0;d1;d2;d3;d4;d5]).
Proof. exact el_sig_h3d_ok. Qed.
Print Assumptions C41_elasticity_is_hooke_3d.

Theorem C41_elasticity_is_hooke_1d : forall e0 e1 e2 d0 d1 d2 young nu,
  1 + nu <> 0 -> 1 - 2 * nu <> 0 ->
  el_sig_hag_l [e0;e1;e2] [d0;d1;d2] young nu =
  hooke (lame_lambda young nu) (lame_mu young nu) (vadd [e0;e1;e2] [d0;d1;d2]).
Proof. exact el_sig_hag_ok. Qed.
Print Assumptions C41_elasticity_is_hooke_1d.

(* Implicit DSL: fzeros computed by the generated computeThermodynamicForces + computeFdF is the theta-scheme residual
   of the Norton law, for every state with a non-zero von Mises stress; the state update is the declared one *)
Theorem C41_implicit_norton_residual : forall eel0 eel1 eel2 deto0 deto1 deto2 p young nu A E dt theta z0 z1 z2 z3,
  let eel := [eel0;eel1;eel2] in let deto := [deto0;deto1;deto2] in let z := [z0;z1;z2;z3] in
  1 + nu <> 0 -> 1 - 2 * nu <> 0 -> 0 < norton_seq2 3 eel young nu theta z ->
  no_fz_hag_l eel deto p young nu A E dt theta z = norton_residual 3 eel deto young nu A E dt theta z.
Proof. exact no_fz_hag_ok. Qed.
Print Assumptions C41_implicit_norton_residual.

Theorem C41_implicit_norton_leaf : forall eel0 eel1 eel2 deto0 deto1 deto2 p young nu A E dt theta z0 z1 z2 z3,
  let eel := [eel0;eel1;eel2] in let deto := [deto0;deto1;deto2] in let z := [z0;z1;z2;z3] in
  1 + nu <> 0 -> 1 - 2 * nu <> 0 ->
  1 / 10 ^ 12 * young <= sqrt (norton_seq2 3 eel young nu theta z) ->
  no_cond_hag_l eel deto p young nu A E dt theta z.
Proof. exact no_cond_hag_ok. Qed.
Print Assumptions C41_implicit_norton_leaf.

Theorem C41_implicit_norton_update : forall eel0 eel1 eel2 deto0 deto1 deto2 p young nu A E dt theta z0 z1 z2 z3,
  let eel := [eel0;eel1;eel2] in let deto := [deto0;deto1;deto2] in let z := [z0;z1;z2;z3] in
  1 + nu <> 0 -> 1 - 2 * nu <> 0 ->
  no_fin_hag_l eel deto p young nu A E dt theta z = norton_final 3 eel p young nu z.
Proof. exact no_fin_hag_ok. Qed.
Print Assumptions C41_implicit_norton_update.

(* IsotropicPlasticMisesFlow DSL: yield function, exact Newton step on F = f/young, radial-return state update *)
Theorem C41_plasticity_radial_return : forall eel0 eel1 eel2 deto0 deto1 deto2 p young nu H s0 dt epsilon dp0,
  let eel := [eel0;eel1;eel2] in let deto := [deto0;deto1;deto2] in
  let out := pl_int_hag_l eel deto p young nu H s0 dt 1 epsilon dp0 in
  0 < young -> 0 < 1 + nu -> 1 - 2 * nu <> 0 -> 0 <= H -> 0 < iso_seq2 eel deto young nu 1 ->
  nthR out 0 = pl_yield eel deto p young nu H s0 dp0 /\
  (exists D, is_derive (fun x => pl_yield eel deto p young nu H s0 x / young) dp0 D /\ D <> 0 /\
             nthR out 3 = dp0 - (pl_yield eel deto p young nu H s0 dp0 / young) / D) /\
  sublist 4 7 out = iso_final eel deto p young nu 1 (nthR out 3).
Proof. exact pl_hag_ok. Qed.
Print Assumptions C41_plasticity_radial_return.

(* IsotropicMisesCreep DSL: flow rate and its derivative, exact Newton step on dp - dt A seq^E, state update *)
Theorem C41_creep_scalar_newton : forall eel0 eel1 eel2 deto0 deto1 deto2 p young nu A E dt theta epsilon dp0,
  let eel := [eel0;eel1;eel2] in let deto := [deto0;deto1;deto2] in
  let out := cr_int_hag_l eel deto p young nu A E dt theta epsilon dp0 in
  1 + nu <> 0 -> 1 - 2 * nu <> 0 -> 0 < iso_seq2 eel deto young nu theta -> 0 < iso_seq eel deto young nu theta dp0 ->
  (nthR out 0 = A * Rpower (iso_seq eel deto young nu theta dp0) E /\
   is_derive (fun s => A * Rpower s E) (iso_seq eel deto young nu theta dp0) (nthR out 1)) /\
  (exists D, is_derive (fun x => cr_residual eel deto young nu A E dt theta x) dp0 D /\
             (D <> 0 -> nthR out 3 = dp0 - cr_residual eel deto young nu A E dt theta dp0 / D)).
Proof. exact cr_hag_ok. Qed.
Print Assumptions C41_creep_scalar_newton.

Theorem C41_creep_update : forall eel0 eel1 eel2 deto0 deto1 deto2 p young nu A E dt theta epsilon dp0,
  let eel := [eel0;eel1;eel2] in let deto := [deto0;deto1;deto2] in
  let out := cr_int_hag_l eel deto p young nu A E dt theta epsilon dp0 in
  1 + nu <> 0 -> 1 - 2 * nu <> 0 -> 0 < iso_seq2 eel deto young nu theta ->
  sublist 4 7 out = iso_final eel deto p young nu theta (nthR out 3).
Proof. exact cr_hag_final. Qed.
Print Assumptions C41_creep_update.

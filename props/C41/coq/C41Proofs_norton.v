(* C41, program C41ImplicitNorton (Implicit DSL): the traced residual fzeros is the theta-scheme of the Norton law. *)
From Coq Require Import Reals List Lra.
From VLib Require Import RealExtra.
Require Import GBehLib BehSpec GenNorton.
Import ListNotations.
Local Open Scope R_scope.

Ltac spec_unfold := unfold norton_residual, norton_seq2, norton_final, normal, vmises, seq2, dev, hooke, lame_lambda, lame_mu,
  vadd, vsub, vscal, vdot, vmap2, tabulate, diag3, tr3, nthR in *.

Lemma no_fz_hag_ok eel0 eel1 eel2 deto0 deto1 deto2 p young nu A E dt theta z0 z1 z2 z3 :
  let eel := [eel0;eel1;eel2] in let deto := [deto0;deto1;deto2] in let z := [z0;z1;z2;z3] in
  1 + nu <> 0 -> 1 - 2 * nu <> 0 -> 0 < norton_seq2 3 eel young nu theta z ->
  no_fz_hag_l eel deto p young nu A E dt theta z = norton_residual 3 eel deto young nu A E dt theta z.
Proof.
  intros eel deto z H1 H2 Hs. unfold eel, deto, z in *. clear eel deto z.
  spec_unfold. cbn in Hs |- *.
  unfold no_fz_hag_l, no_fz_hag, nthR; cbn [nth].
  match type of Hs with 0 < ?a => unify_sqrt a ltac:(field; nz); set (q := sqrt a) in * end.
  assert (Hq : 0 < q) by (apply sqrt_lt_R0; exact Hs).
  rewrite (Rpower_succ q E Hq).
  list_eq ltac:(field; nz).
Qed.

(* the path condition of the traced leaf says that the regularisation max(seq, 1e-12 young) is inactive *)
Lemma no_cond_hag_ok eel0 eel1 eel2 deto0 deto1 deto2 p young nu A E dt theta z0 z1 z2 z3 :
  let eel := [eel0;eel1;eel2] in let deto := [deto0;deto1;deto2] in let z := [z0;z1;z2;z3] in
  1 + nu <> 0 -> 1 - 2 * nu <> 0 ->
  1 / 10 ^ 12 * young <= sqrt (norton_seq2 3 eel young nu theta z) ->
  no_cond_hag_l eel deto p young nu A E dt theta z.
Proof.
  intros eel deto z H1 H2 Hs. unfold eel, deto, z in *. clear eel deto z.
  spec_unfold. cbn in Hs.
  unfold no_cond_hag_l, no_cond_hag, nthR; cbn [nth].
  match type of Hs with _ <= sqrt ?a => unify_sqrt a ltac:(field; nz) end.
  lra.
Qed.

Lemma no_fin_hag_ok eel0 eel1 eel2 deto0 deto1 deto2 p young nu A E dt theta z0 z1 z2 z3 :
  let eel := [eel0;eel1;eel2] in let deto := [deto0;deto1;deto2] in let z := [z0;z1;z2;z3] in
  1 + nu <> 0 -> 1 - 2 * nu <> 0 ->
  no_fin_hag_l eel deto p young nu A E dt theta z = norton_final 3 eel p young nu z.
Proof.
  intros eel deto z H1 H2. unfold eel, deto, z in *. clear eel deto z.
  spec_unfold. cbn.
  unfold no_fin_hag_l, no_fin_hag, nthR; cbn [nth].
  list_eq ltac:(field; nz).
Qed.

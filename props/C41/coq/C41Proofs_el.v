(* C41, program C41Elasticity (Default DSL): the traced stress is exactly Hooke's law. *)
From Coq Require Import Reals List Lra.
From VLib Require Import RealExtra.
Require Import GBehLib BehSpec GenEl.
Import ListNotations.
Local Open Scope R_scope.

Ltac spec_unfold := unfold hooke, lame_lambda, lame_mu, vadd, vmap2, tabulate, diag3, tr3, nthR in *.

Lemma el_sig_h3d_ok e0 e1 e2 e3 e4 e5 d0 d1 d2 d3 d4 d5 young nu :
  1 + nu <> 0 -> 1 - 2 * nu <> 0 ->
  el_sig_h3d_l [e0;e1;e2;e3;e4;e5] [d0;d1;d2;d3;d4;d5] young nu =
  hooke (lame_lambda young nu) (lame_mu young nu) (vadd [e0;e1;e2;e3;e4;e5] [d0;d1;d2;d3;d4;d5]).
Proof. intros. spec_unfold. cbn. unfold el_sig_h3d_l, el_sig_h3d, nthR; cbn [nth]. list_eq ltac:(field; nz). Qed.

Lemma el_sig_hag_ok e0 e1 e2 d0 d1 d2 young nu :
  1 + nu <> 0 -> 1 - 2 * nu <> 0 ->
  el_sig_hag_l [e0;e1;e2] [d0;d1;d2] young nu =
  hooke (lame_lambda young nu) (lame_mu young nu) (vadd [e0;e1;e2] [d0;d1;d2]).
Proof. intros. spec_unfold. cbn. unfold el_sig_hag_l, el_sig_hag, nthR; cbn [nth]. list_eq ltac:(field; nz). Qed.

(* C41 -- property theorems, program C41ImplicitNorton (Implicit DSL) (statements only; proofs in C41Proofs_norton.v).  Every traced definition is regenerated on each
   run from the C++ that the mfront of /repo's working tree emits for props/C41/mfront/*.mfront. *)
From Coq Require Import Reals List.
From Coquelicot Require Import Coquelicot.
From VLib Require Import RealExtra.
Require Import GBehLib BehSpec GenNorton C41Proofs_norton.
Import ListNotations.
Local Open Scope R_scope.

(* Implicit DSL: fzeros computed by the generated computeThermodynamicForces + computeFdF is the theta-scheme residual
   of the Norton law, for every state with a non-zero von Mises stress; the state update is the declared one *)
Theorem C41_implicit_norton_residual : forall eel0 eel1 eel2 deto0 deto1 deto2 p young nu A E dt theta z0 z1 z2 z3,
  let eel := [eel0;eel1;eel2] in let deto := [deto0;deto1;deto2] in let z := [z0;z1;z2;z3] in
  1 + nu <> 0 -> 1 - 2 * nu <> 0 -> 0 < norton_seq2 3 eel young nu theta z ->
  no_fz_hag_l eel deto p young nu A E dt theta z = norton_residual 3 eel deto young nu A E dt theta z.
Proof. exact no_fz_hag_ok. Qed.
Print Assumptions C41_implicit_norton_residual.

Theorem C41_implicit_norton_leaf : forall eel0 eel1 eel2 deto0 deto1 deto2 p young nu A E dt theta z0 z1 z2 z3,
  let eel := [eel0;eel1;eel2] in let deto := [deto0;deto1;deto2] in let z := [z0;z1;z2;z3] in
  1 + nu <> 0 -> 1 - 2 * nu <> 0 ->
  1 / 10 ^ 12 * young <= sqrt (norton_seq2 3 eel young nu theta z) ->
  no_cond_hag_l eel deto p young nu A E dt theta z.
Proof. exact no_cond_hag_ok. Qed.
Print Assumptions C41_implicit_norton_leaf.

Theorem C41_implicit_norton_update : forall eel0 eel1 eel2 deto0 deto1 deto2 p young nu A E dt theta z0 z1 z2 z3,
  let eel := [eel0;eel1;eel2] in let deto := [deto0;deto1;deto2] in let z := [z0;z1;z2;z3] in
  1 + nu <> 0 -> 1 - 2 * nu <> 0 ->
  no_fin_hag_l eel deto p young nu A E dt theta z = norton_final 3 eel p young nu z.
Proof. exact no_fin_hag_ok. Qed.
Print Assumptions C41_implicit_norton_update.

(* C41 -- property theorems, program C41Elasticity (Default DSL) (statements only; proofs in C41Proofs_el.v).  Every traced definition is regenerated on each
   run from the C++ that the mfront of /repo's working tree emits for props/C41/mfront/*.mfront. *)
From Coq Require Import Reals List.
From Coquelicot Require Import Coquelicot.
From VLib Require Import RealExtra.
Require Import GBehLib BehSpec GenEl C41Proofs_el.
Import ListNotations.
Local Open Scope R_scope.

(* Default DSL: the generated elastic behaviour returns exactly Hooke's law (3D and generalised plane strain) *)
Theorem C41_elasticity_is_hooke_3d : forall e0 e1 e2 e3 e4 e5 d0 d1 d2 d3 d4 d5 young nu,
  1 + nu <> 0 -> 1 - 2 * nu <> 0 ->
  el_sig_h3d_l [e0;e1;e2;e3;e4;e5] [d0;d1;d2;d3;d4;d5] young nu =
  hooke (lame_lambda young nu) (lame_mu young nu) (vadd [e0;e1;e2;e3;e4;e5] [d0;d1;d2;d3;d4;d5]).
Proof. exact el_sig_h3d_ok. Qed.
Print Assumptions C41_elasticity_is_hooke_3d.

Theorem C41_elasticity_is_hooke_1d : forall e0 e1 e2 d0 d1 d2 young nu,
  1 + nu <> 0 -> 1 - 2 * nu <> 0 ->
  el_sig_hag_l [e0;e1;e2] [d0;d1;d2] young nu =
  hooke (lame_lambda young nu) (lame_mu young nu) (vadd [e0;e1;e2] [d0;d1;d2]).
Proof. exact el_sig_hag_ok. Qed.
Print Assumptions C41_elasticity_is_hooke_1d.

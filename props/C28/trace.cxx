// C28: table dump (engine D) + tracer (engine S) + driver for modelling hypotheses and orthotropic axes conventions.
//   trace gen <out.v> [seed] : dumps the hypothesis tables through the public API as Gallina data, traces
//                              computeHillTensor / computeOrthotropicStiffnessTensor / makeOrthotropicStressLinearTransformation
//                              / convertStressFreeExpansionStrain for every (hypothesis, convention) the headers provide,
//                              prints AGREE lines (Sym tree vs double instantiation)
//   trace run [seed]         : runs the real double code on seeded material data and prints every tensor
#include "symtfel.hxx"
#include "TFEL/Math/stensor.hxx"
#include "TFEL/Math/tensor.hxx"
#include "TFEL/Math/st2tost2.hxx"
#include "TFEL/Material/ModellingHypothesis.hxx"
#include "TFEL/Material/OrthotropicAxesConvention.hxx"
#include "TFEL/Material/Hill.hxx"
#include "TFEL/Material/StiffnessTensor.hxx"
#include "TFEL/Material/Lame.hxx"
#include "TFEL/Material/OrthotropicStressLinearTransformation.hxx"
#include <cstring>
#include <iostream>
#include <sstream>

using namespace symv;
namespace tm_ = tfel::material;
using MH = tm_::ModellingHypothesis;
using Hyp = MH::Hypothesis;
using Conv = tm_::OrthotropicAxesConvention;
using Alt = tm_::StiffnessTensorAlterationCharacteristic;

static const char* hshort[7] = {"agpstrain", "agpstress", "axis", "pstress", "pstrain", "gps", "tri"};
static const char* cshort[3] = {"default", "pipe", "plate"};

// ---- which (hypothesis, convention) pairs do the headers provide?  (completeness of the internal dispatch classes)
template <Hyp h, Conv c>
constexpr bool hill_ok = requires { sizeof(tm_::internals::ComputeHillTensor<h, c, double>); };
template <Hyp h, Alt a, Conv c>
constexpr bool stiff_ok = requires { sizeof(tm_::internals::ComputeOrthotropicStiffnessTensor<h, a, c>); };
template <Hyp h, Conv c>
constexpr bool lt_ok = requires { sizeof(tm_::internals::OrthotropicStressLinearTransformationII<h, c>); };
template <Hyp h>
constexpr bool dim_ok = requires { sizeof(tm_::ModellingHypothesisToSpaceDimension<h>); };
template <Hyp h>
constexpr bool ssz_ok = requires { sizeof(tm_::ModellingHypothesisToStensorSize<h>); };
template <Hyp h>
constexpr bool tsz_ok = requires { sizeof(tm_::ModellingHypothesisToTensorSize<h>); };

template <unsigned short N, typename T>
std::vector<T> flat(const tfel::math::st2tost2<N, T>& m) {
  std::vector<T> r;
  constexpr unsigned short n = tfel::math::StensorDimeToSize<N>::value;
  for (unsigned short i = 0; i < n; ++i)
    for (unsigned short j = 0; j < n; ++j) r.push_back(m(i, j));
  return r;
}

// the four objects, generic in the scalar type; empty vector when the headers do not provide the pair
template <Hyp h, Conv c, typename T>
std::vector<T> hill(const std::vector<T>& p) {
  if constexpr (hill_ok<h, c>) {
    return flat(tm_::computeHillTensor<h, c, T>(p[0], p[1], p[2], p[3], p[4], p[5]));
  } else {
    return {};
  }
}
template <Hyp h, Alt a, Conv c, typename T>
std::vector<T> stiff(const std::vector<T>& p) {
  if constexpr (stiff_ok<h, a, c>) {
    constexpr unsigned short N = tm_::ModellingHypothesisToSpaceDimension<h>::value;
    tfel::math::st2tost2<N, T> D;
    for (auto& x : D) x = T(0);
    tm_::computeOrthotropicStiffnessTensor<h, a, c, T, T>(D, p[0], p[1], p[2], p[3], p[4], p[5], p[6], p[7], p[8]);
    return flat(D);
  } else {
    return {};
  }
}
template <Hyp h, Conv c, typename T>
std::vector<T> ltr(const std::vector<T>& p) {
  if constexpr (lt_ok<h, c>) {
    return flat(tm_::makeOrthotropicStressLinearTransformation<h, c, T>(p[0], p[1], p[2], p[3], p[4], p[5], p[6], p[7], p[8]));
  } else {
    return {};
  }
}
template <Hyp h, Conv c, typename T>
std::vector<T> sfe(const std::vector<T>& p) {
  constexpr unsigned short N = tm_::ModellingHypothesisToSpaceDimension<h>::value;
  tfel::math::stensor<N, T> s;
  for (unsigned short i = 0; i < s.size(); ++i) s[i] = p[i];
  tm_::convertStressFreeExpansionStrain<h, c, T>(s);
  std::vector<T> r;
  for (unsigned short i = 0; i < s.size(); ++i) r.push_back(s[i]);
  return r;
}

struct Out {
  Trace* tr = nullptr;
  std::ostringstream disp[5];  // dispatchers hill, stiffU, stiffA, lt, sfe
  Rng rng{1};
  int nagree = 0, nfail = 0;
};

static void agree(Out& o, const std::string& name, const std::vector<Sym>& ps, const std::vector<Sym>& sy,
                  const std::function<std::vector<double>(const std::vector<double>&)>& f, bool stiffness) {
  for (int k = 0; k < 6; ++k) {
    Env env;
    std::vector<double> dv;
    for (size_t i = 0; i < ps.size(); ++i) {
      double v;
      if (stiffness) {
        // E1 E2 E3 n12 n23 n13 G12 G23 G13: admissible orthotropic data
        v = (i < 3) ? o.rng.range(50., 250.) : (i < 6 ? o.rng.range(0.05, 0.3) : o.rng.range(20., 90.));
      } else {
        v = o.rng.range(-3., 3.);
      }
      dv.push_back(v);
      env[Store::get().nodes[node_of(ps[i])].name] = v;
    }
    auto d = f(dv);
    bool ok = d.size() == sy.size();
    long double scale = 0;
    for (double x : d) scale = std::max<long double>(scale, std::fabs(x));
    for (size_t i = 0; ok && i < d.size(); ++i) ok = close(eval(sy[i], env), d[i], scale, 1e-11L);
    std::printf("%s %s case %d\n", ok ? "AGREE" : "AGREE-FAIL", name.c_str(), k);
    ok ? ++o.nagree : ++o.nfail;
  }
}

template <Hyp h, Conv c>
void gen_pair(Out& o) {
  const std::string sfx = std::string(hshort[h]) + "_" + cshort[static_cast<int>(c)];
  const std::string key = "  | " + std::to_string(int(h)) + ", " + std::to_string(static_cast<int>(c)) + " => Some ";
  auto hp = std::vector<Sym>{var("F"), var("G"), var("H"), var("L"), var("M"), var("N")};
  auto sp = std::vector<Sym>{var("E1"), var("E2"), var("E3"), var("n12"), var("n23"), var("n13"), var("G12"), var("G23"), var("G13")};
  auto lp = std::vector<Sym>{var("c12"), var("c21"), var("c13"), var("c31"), var("c23"), var("c32"), var("c44"), var("c55"), var("c66")};
  auto ep = vars("e", tfel::math::StensorDimeToSize<tm_::ModellingHypothesisToSpaceDimension<h>::value>::value);
  if constexpr (hill_ok<h, c>) {
    auto r = hill<h, c, Sym>(hp);
    o.tr->def("hill_" + sfx, hp, r);
    o.disp[0] << key << "hill_" << sfx << "\n";
    agree(o, "hill_" + sfx, hp, r, [](const std::vector<double>& p) { return hill<h, c, double>(p); }, false);
  }
  if constexpr (stiff_ok<h, Alt::UNALTERED, c>) {
    auto r = stiff<h, Alt::UNALTERED, c, Sym>(sp);
    o.tr->def("stiffU_" + sfx, sp, r);
    o.disp[1] << key << "stiffU_" << sfx << "\n";
    agree(o, "stiffU_" + sfx, sp, r, [](const std::vector<double>& p) { return stiff<h, Alt::UNALTERED, c, double>(p); }, true);
  }
  if constexpr (stiff_ok<h, Alt::ALTERED, c>) {
    auto r = stiff<h, Alt::ALTERED, c, Sym>(sp);
    o.tr->def("stiffA_" + sfx, sp, r);
    o.disp[2] << key << "stiffA_" << sfx << "\n";
    agree(o, "stiffA_" + sfx, sp, r, [](const std::vector<double>& p) { return stiff<h, Alt::ALTERED, c, double>(p); }, true);
  }
  if constexpr (lt_ok<h, c>) {
    auto r = ltr<h, c, Sym>(lp);
    o.tr->def("lt_" + sfx, lp, r);
    o.disp[3] << key << "lt_" << sfx << "\n";
    agree(o, "lt_" + sfx, lp, r, [](const std::vector<double>& p) { return ltr<h, c, double>(p); }, false);
  }
  {
    auto r = sfe<h, c, Sym>(ep);
    // list-to-list function so that all dimensions share one type
    std::ostringstream d;
    d << "Definition sfe_" << sfx << " (e : list R) : list R :=\n";
    for (size_t i = 0; i < ep.size(); ++i) d << "  let e" << i << " := nth " << i << " e 0 in\n";
    Printer p;
    std::vector<int> roots;
    for (auto& x : r) roots.push_back(node_of(x));
    d << p.lets(roots) << "  [";
    for (size_t i = 0; i < roots.size(); ++i) d << (i ? "; " : "") << p.expr(roots[i]);
    d << "].\n\n";
    o.tr->raw(d.str());
    o.disp[4] << key << "sfe_" << sfx << "\n";
    agree(o, "sfe_" + sfx, ep, r, [](const std::vector<double>& q) { return sfe<h, c, double>(q); }, false);
  }
}
template <Hyp h>
void gen_h(Out& o) {
  gen_pair<h, Conv::DEFAULT>(o);
  gen_pair<h, Conv::PIPE>(o);
  gen_pair<h, Conv::PLATE>(o);
}

static std::string opt_str(const std::function<std::string()>& f) {
  try {
    return "(Some \"" + f() + "\")";
  } catch (std::exception&) {
    return "None";
  }
}
static std::string opt_nat(const std::function<long()>& f) {
  try {
    return "(Some " + std::to_string(f()) + "%nat)";
  } catch (std::exception&) {
    return "None";
  }
}
template <Hyp h>
std::string meta_row() {
  std::ostringstream s;
  auto on = [](bool ok, long v) { return ok ? "(Some " + std::to_string(v) + "%nat)" : std::string("None"); };
  long d = -1, ss = -1, ts = -1, sobj = -1, tobj = -1;
  if constexpr (dim_ok<h>) {
    d = tm_::ModellingHypothesisToSpaceDimension<h>::value;
    sobj = tfel::math::stensor<tm_::ModellingHypothesisToSpaceDimension<h>::value, double>().size();
    tobj = tfel::math::tensor<tm_::ModellingHypothesisToSpaceDimension<h>::value, double>().size();
  }
  if constexpr (ssz_ok<h>) ss = tm_::ModellingHypothesisToStensorSize<h>::value;
  if constexpr (tsz_ok<h>) ts = tm_::ModellingHypothesisToTensorSize<h>::value;
  s << on(d >= 0, d) << " " << on(ss >= 0, ss) << " " << on(ts >= 0, ts) << " " << on(sobj >= 0, sobj) << " " << on(tobj >= 0, tobj);
  return s.str();
}
template <int... I>
std::vector<std::string> meta_rows(std::integer_sequence<int, I...>) {
  return {meta_row<static_cast<Hyp>(I)>()...};
}
template <Hyp h, Conv c>
std::string support_row() {
  auto b = [](bool v) { return v ? "true" : "false"; };
  std::ostringstream s;
  s << "(" << int(h) << "%nat, " << static_cast<int>(c) << "%nat, " << b(hill_ok<h, c>) << ", " << b(stiff_ok<h, Alt::UNALTERED, c>) << ", "
    << b(stiff_ok<h, Alt::ALTERED, c>) << ", " << b(lt_ok<h, c>) << ")";
  return s.str();
}
template <int... I>
std::vector<std::string> support_rows(std::integer_sequence<int, I...>) {
  std::vector<std::string> r;
  ((r.push_back(support_row<static_cast<Hyp>(I), Conv::DEFAULT>()), r.push_back(support_row<static_cast<Hyp>(I), Conv::PIPE>()),
    r.push_back(support_row<static_cast<Hyp>(I), Conv::PLATE>())),
   ...);
  return r;
}

static void dump_tables(Trace& tr) {
  std::ostringstream o;
  o << "From Coq Require Import String.\nLocal Open Scope string_scope.\n"
    << "(* one row per enumerator value 0..7 (7 = UNDEFINEDHYPOTHESIS): toString, toUpperCaseString, fromString(toString),\n"
       "   getSpaceDimension, getStensorSize, getTensorSize, the three metafunctions, stensor<N>::size(), tensor<N>::size(),\n"
       "   position in getModellingHypotheses() *)\n"
    << "Record hrow := mk_hrow { h_code : nat; h_name : option string; h_upper : option string; h_back : option nat;\n"
       "  h_dim : option nat; h_ssize : option nat; h_tsize : option nat;\n"
       "  m_dim : option nat; m_ssize : option nat; m_tsize : option nat; o_ssize : option nat; o_tsize : option nat;\n"
       "  h_pos : option nat }.\n"
    << "Definition hyp_dump : list hrow := [\n";
  auto metas = meta_rows(std::make_integer_sequence<int, 8>{});
  const auto& all = MH::getModellingHypotheses();
  for (int i = 0; i < 8; ++i) {
    auto h = static_cast<Hyp>(i);
    long pos = -1;
    for (size_t k = 0; k < all.size(); ++k)
      if (all[k] == h && pos < 0) pos = static_cast<long>(k);
    o << "  mk_hrow " << i << "%nat " << opt_str([&] { return MH::toString(h); }) << " " << opt_str([&] { return MH::toUpperCaseString(h); })
      << " " << opt_nat([&] { return long(MH::fromString(MH::toString(h))); }) << " " << opt_nat([&] { return long(tm_::getSpaceDimension(h)); })
      << " " << opt_nat([&] { return long(tm_::getStensorSize(h)); }) << " " << opt_nat([&] { return long(tm_::getTensorSize(h)); }) << " "
      << metas[i] << " " << (pos >= 0 ? "(Some " + std::to_string(pos) + "%nat)" : std::string("None")) << (i < 7 ? ";\n" : "\n");
  }
  o << "].\nDefinition hyp_list_length : nat := " << all.size() << "%nat.\n\n";
  // probes of fromString / isModellingHypothesis
  std::vector<std::string> probes;
  for (int i = 0; i < 7; ++i) {
    auto h = static_cast<Hyp>(i);
    std::string n = MH::toString(h), u = MH::toUpperCaseString(h), l = n;
    for (auto& ch : l) ch = static_cast<char>(std::tolower(static_cast<unsigned char>(ch)));
    probes.insert(probes.end(), {n, u, l, n + " ", " " + n, n.substr(0, n.size() - 1), n + "s"});
  }
  probes.insert(probes.end(), {"", "Undefined", "UndefinedHypothesis", "UNDEFINEDHYPOTHESIS", "3D", "Tridimensionnal", "Plane Stress"});
  o << "(* probe strings: (s, isModellingHypothesis s, fromString s or None if it throws) *)\n"
    << "Definition probe_dump : list (string * bool * option nat) := [\n";
  for (size_t k = 0; k < probes.size(); ++k) {
    const auto& s = probes[k];
    o << "  (\"" << s << "\", " << (MH::isModellingHypothesis(s) ? "true" : "false") << ", " << opt_nat([&] { return long(MH::fromString(s)); }) << ")"
      << (k + 1 < probes.size() ? ";\n" : "\n");
  }
  o << "].\n\n(* (hypothesis, convention, Hill provided, stiffness UNALTERED provided, stiffness ALTERED provided, linear transformation provided) *)\n"
    << "Definition support_dump : list (nat * nat * bool * bool * bool * bool) := [\n";
  auto sr = support_rows(std::make_integer_sequence<int, 7>{});
  for (size_t k = 0; k < sr.size(); ++k) o << "  " << sr[k] << (k + 1 < sr.size() ? ";\n" : "\n");
  o << "].\nLocal Close Scope string_scope.\n\n";
  tr.raw(o.str());
}

template <Hyp h, Conv c>
void run_pair(Rng& rng, int k, const std::vector<double>& hp, const std::vector<double>& sp, const std::vector<double>& lp,
              const std::vector<double>& ep) {
  auto pr = [&](const char* what, const std::vector<double>& v) {
    if (v.empty()) return;
    std::printf("RUN %d %s %d %d", k, what, int(h), static_cast<int>(c));
    for (double x : v) std::printf(" %.17g", x);
    std::printf("\n");
  };
  pr("hill", hill<h, c, double>(hp));
  pr("stiffU", stiff<h, Alt::UNALTERED, c, double>(sp));
  pr("stiffA", stiff<h, Alt::ALTERED, c, double>(sp));
  pr("lt", ltr<h, c, double>(lp));
  std::vector<double> e(ep.begin(), ep.begin() + tfel::math::StensorDimeToSize<tm_::ModellingHypothesisToSpaceDimension<h>::value>::value);
  pr("sfe", sfe<h, c, double>(e));
  (void)rng;
}
template <Hyp h>
void run_h(Rng& rng, int k, const std::vector<double>& hp, const std::vector<double>& sp, const std::vector<double>& lp,
           const std::vector<double>& ep) {
  run_pair<h, Conv::DEFAULT>(rng, k, hp, sp, lp, ep);
  run_pair<h, Conv::PIPE>(rng, k, hp, sp, lp, ep);
  run_pair<h, Conv::PLATE>(rng, k, hp, sp, lp, ep);
}

int main(int argc, char** argv) {
  if (argc >= 3 && !std::strcmp(argv[1], "gen")) {
    Trace tr("C28_gen");
    Out o;
    o.tr = &tr;
    o.rng = Rng(argc >= 4 ? std::strtoull(argv[3], nullptr, 10) : 1);
    dump_tables(tr);
    gen_h<MH::AXISYMMETRICALGENERALISEDPLANESTRAIN>(o);
    gen_h<MH::AXISYMMETRICALGENERALISEDPLANESTRESS>(o);
    gen_h<MH::AXISYMMETRICAL>(o);
    gen_h<MH::PLANESTRESS>(o);
    gen_h<MH::PLANESTRAIN>(o);
    gen_h<MH::GENERALISEDPLANESTRAIN>(o);
    gen_h<MH::TRIDIMENSIONAL>(o);
    const char* dn[5] = {"hill_code", "stiffU_code", "stiffA_code", "lt_code", "sfe_code"};
    const char* ty[5] = {"R -> R -> R -> R -> R -> R -> list R", "R -> R -> R -> R -> R -> R -> R -> R -> R -> list R",
                         "R -> R -> R -> R -> R -> R -> R -> R -> R -> list R", "R -> R -> R -> R -> R -> R -> R -> R -> R -> list R",
                         "list R -> list R"};
    for (int k = 0; k < 5; ++k) {
      std::ostringstream d;
      d << "(* the traced function for (hypothesis enumerator value, convention enumerator value), None if the headers do not provide it *)\n"
        << "Definition " << dn[k] << " (h c : nat) : option (" << ty[k] << ") :=\n  match h, c with\n"
        << o.disp[k].str() << "  | _, _ => None\n  end.\n\n";
      tr.raw(d.str());
    }
    tr.write(argv[2]);
    for (auto& r : support_rows(std::make_integer_sequence<int, 7>{})) std::printf("SUPPORT %s\n", r.c_str());
    std::printf("SUMMARY agree=%d fail=%d\n", o.nagree, o.nfail);
    return 0;
  }
  if (argc >= 2 && !std::strcmp(argv[1], "run")) {
    Rng rng(argc >= 3 ? std::strtoull(argv[2], nullptr, 10) : 1);
    int n = argc >= 4 ? std::atoi(argv[3]) : 20;
    for (int k = 0; k < n; ++k) {
      std::vector<double> hp, sp, lp, ep;
      for (int i = 0; i < 6; ++i) hp.push_back(rng.range(0.1, 3.));
      for (int i = 0; i < 9; ++i) sp.push_back(i < 3 ? rng.range(50., 250.) : (i < 6 ? rng.range(0.05, 0.3) : rng.range(20., 90.)));
      for (int i = 0; i < 9; ++i) lp.push_back(rng.range(-2., 2.));
      for (int i = 0; i < 6; ++i) ep.push_back(i < 3 ? rng.range(-1e-2, 1e-2) : 0.);
      auto pin = [&](const char* w, const std::vector<double>& v) {
        std::printf("IN %d %s", k, w);
        for (double x : v) std::printf(" %.17g", x);
        std::printf("\n");
      };
      pin("hill", hp);
      pin("stiff", sp);
      pin("lt", lp);
      pin("sfe", ep);
      {
        // isotropic altered tensors of the axisymmetrical generalised plane stress hypothesis (E = sp[0], nu = sp[3]):
        // computeIsotropicStiffnessTensor<.., ALTERED>, computeAlteredElasticStiffness (Lame.hxx), and the unaltered tensor
        constexpr auto agps = MH::AXISYMMETRICALGENERALISEDPLANESTRESS;
        const double E = sp[0], nu = sp[3], la = nu * E / ((1 + nu) * (1 - 2 * nu)), mu = E / (2 * (1 + nu));
        tfel::math::st2tost2<1u, double> Ca, Cu, Cl;
        for (auto& x : Ca) x = 0;
        for (auto& x : Cu) x = 0;
        for (auto& x : Cl) x = 0;
        tm_::computeIsotropicStiffnessTensor<agps, Alt::ALTERED, double, double>(Ca, E, nu);
        tm_::computeIsotropicStiffnessTensor<agps, Alt::UNALTERED, double, double>(Cu, E, nu);
        tm_::computeAlteredElasticStiffness<agps, double>::exe(Cl, la, mu);
        auto pr3 = [&](const char* what, const tfel::math::st2tost2<1u, double>& C) {
          std::printf("RUN %d %s 1 0", k, what);
          for (unsigned short i = 0; i < 3; ++i)
            for (unsigned short j = 0; j < 3; ++j) std::printf(" %.17g", C(i, j));
          std::printf("\n");
        };
        pr3("isoA", Ca);
        pr3("isoU", Cu);
        pr3("lameA", Cl);
      }
      run_h<MH::AXISYMMETRICALGENERALISEDPLANESTRAIN>(rng, k, hp, sp, lp, ep);
      run_h<MH::AXISYMMETRICALGENERALISEDPLANESTRESS>(rng, k, hp, sp, lp, ep);
      run_h<MH::AXISYMMETRICAL>(rng, k, hp, sp, lp, ep);
      run_h<MH::PLANESTRESS>(rng, k, hp, sp, lp, ep);
      run_h<MH::PLANESTRAIN>(rng, k, hp, sp, lp, ep);
      run_h<MH::GENERALISEDPLANESTRAIN>(rng, k, hp, sp, lp, ep);
      run_h<MH::TRIDIMENSIONAL>(rng, k, hp, sp, lp, ep);
    }
    return 0;
  }
  std::fprintf(stderr, "usage: trace gen <out.v> [seed] | trace run [seed] [n]\n");
  return 2;
}

"""C28 -- modelling hypotheses and orthotropic axes conventions are coherent.
Engine D: the hypothesis tables (toString/fromString/toUpperCaseString, dimension and tensor sizes, run time and compile
time, getModellingHypotheses, probe strings) and the table of (hypothesis, convention) pairs the headers provide are dumped
through the public API into Gallina data; theorems by vm_compute.  Engine S: computeHillTensor, computeOrthotropicStiffnessTensor,
makeOrthotropicStressLinearTransformation, convertStressFreeExpansionStrain traced for every provided pair; Coq proves they are
the 3D object seen through the documented axis permutation.  The real double code is run on seeded data against an independent
Python statement of the same property (failing-input search)."""
import os
from vlib import guarded_main

SUPPORT = ["src/Exception/ContractViolation.cxx", "src/Exception/TFELException.cxx", "src/Material/ModellingHypothesis.cxx"]
HN = ["agpstrain", "agpstress", "axis", "pstress", "pstrain", "gps", "tri"]
CN = ["default", "pipe", "plate"]
DIM = [1, 1, 2, 2, 2, 2, 3]
SS = {1: 3, 2: 4, 3: 6}
PLANE = (3, 4, 5)


def doc_supported(h, c):
    return c != 2 or h in (3, 4, 5, 6)


def axis(h, c, k):  # documented: PIPE exchanges axes 2 and 3 in plane stress / plane strain / generalised plane strain
    if c == 1 and h in PLANE:
        return {0: 0, 1: 2, 2: 1}[k]
    return k


COMP_AXES = [(0, 0), (1, 1), (2, 2), (0, 1), (0, 2), (1, 2)]


def pcomp(h, c, i):
    a, b = COMP_AXES[i]
    a, b = sorted((axis(h, c, a), axis(h, c, b)))
    return COMP_AXES.index((a, b))


def close(a, b, scale, tol=1e-9):
    return abs(a - b) <= tol * max(abs(a), abs(b), scale)


def main(c):
    exe = c.cxx("trace", ["trace.cxx"], SUPPORT)
    gen = os.path.join(c.work, "coq", "C28_gen.v")
    os.makedirs(os.path.dirname(gen), exist_ok=True)
    rc, out, err = c.run([exe, "gen", gen, str(c.seed)])
    if rc != 0:
        c.report("trace", "tracer failed on /repo's headers: " + err[-500:], {"stderr": err[-3000:]}, False)
        return
    nag = 0
    support = {}
    for l in out.splitlines():
        if l.startswith("AGREE"):
            nag += 1
            c.count(1, ("agree", l))
            if l.startswith("AGREE-FAIL"):
                c.report("agree:" + l.split()[1], "traced expression and double instantiation disagree: " + l, {"line": l, "seed": c.seed}, True)
        elif l.startswith("SUPPORT"):
            t = l[len("SUPPORT ("):-1].replace("%nat", "").split(",")
            support[(int(t[0]), int(t[1]))] = [x.strip() == "true" for x in t[2:]]
    c.trusted("engine D dump driver props/C28/trace.cxx (public API calls + printers; completeness of the dispatch classes tested with a requires-expression)",
              "engine S tracer (cxx/sym/sym.hxx printer), g++ template instantiation with Sym",
              "agreement Sym expression vs double instantiation on %d seeded cases (relative 1e-11)" % nag)
    # ---- which documented pairs are missing?  (a missing pair is a concrete failing configuration)
    missing = []
    for h in range(7):
        for cv in range(3):
            if not doc_supported(h, cv):
                continue
            s = support.get((h, cv))
            if s is None:
                c.report("support:row:%s:%s" % (HN[h], CN[cv]), "no SUPPORT row for a documented pair", {"h": HN[h], "c": CN[cv]}, True)
                continue
            for k, what in enumerate(["computeHillTensor", "computeOrthotropicStiffnessTensor<UNALTERED>",
                                      "computeOrthotropicStiffnessTensor<ALTERED>", "makeOrthotropicStressLinearTransformation"]):
                if not s[k]:
                    kind = ["hill", "stiffness", "stiffness", "lt"][k]
                    key = "support:%s:%s:%s" % (kind, HN[h], CN[cv])
                    if kind == "stiffness":
                        missing.append(key)
                    c.report(key, "%s<%s, %s> does not exist although the convention is documented for this hypothesis "
                             "(incomplete dispatch class: the call does not compile; mfront emits it)" % (what, HN[h].upper(), CN[cv].upper()),
                             {"hypothesis": HN[h], "convention": CN[cv], "function": what,
                              "how": "instantiate the function template with these parameters"}, True)
    files = [gen, "C28Spec.v", "C28Proofs.v", "Properties_C28.v"]
    if missing:
        files += ["C28ProofsPlateRefuted.v", "Properties_C28_plate_refuted.v"]
        c.notes.append("stiffness missing for %s: the refuted theorem is checked instead of the positive one" % sorted(set(missing)))
    else:
        files += ["C28ProofsPlate.v", "Properties_C28_plate.v"]
    res = c.coq(files, timeout=900)

    # ---- run the real code against an independent statement of the property
    n = c.pick(40, 400)
    rc, out, err = c.run([exe, "run", str(c.seed), str(n)])
    if rc != 0:
        c.report("run", "driver failed: " + err[-500:], {"stderr": err[-3000:]}, False)
        return
    data = {}
    inp = {}
    for l in out.splitlines():
        t = l.split()
        if t[0] == "IN":
            inp[(int(t[1]), t[2])] = [float(x) for x in t[3:]]
        elif t[0] == "RUN":
            data[(int(t[1]), t[2], int(t[3]), int(t[4]))] = [float(x) for x in t[5:]]
    nchk = 0
    for k in range(n):
        hp, sp, lp, ep = inp[(k, "hill")], inp[(k, "stiff")], inp[(k, "lt")], inp[(k, "sfe")]
        # 3D objects against the documentation
        H3 = data.get((k, "hill", 6, 0))
        if H3:
            F, G, H, L, M, N = hp
            doc = [[F + H, -F, -H, 0, 0, 0], [-F, G + F, -G, 0, 0, 0], [-H, -G, H + G, 0, 0, 0], [0, 0, 0, L, 0, 0], [0, 0, 0, 0, M, 0],
                   [0, 0, 0, 0, 0, N]]
            bad = [(i, j) for i in range(6) for j in range(6) if not close(H3[6 * i + j], doc[i][j], max(map(abs, hp)))]
            nchk += 1
            c.count(1, ("hill3d", k))
            if bad:
                c.report("hill3d", "computeHillTensor<TRIDIMENSIONAL,DEFAULT>(%s) differs from the documented tensor at %s" % (hp, bad[:3]),
                         {"F,G,H,L,M,N": hp, "observed": H3}, True)
        D3 = data.get((k, "stiffU", 6, 0))
        if D3:
            E1, E2, E3, n12, n23, n13, G12, G23, G13 = sp
            S = [[1 / E1, -n12 / E1, -n13 / E1], [-n12 / E1, 1 / E2, -n23 / E2], [-n13 / E1, -n23 / E2, 1 / E3]]
            bad = []
            for i in range(3):
                for j in range(3):
                    v = sum(D3[6 * i + m] * S[m][j] for m in range(3))
                    if not close(v, 1.0 if i == j else 0.0, 1.0, 1e-9):
                        bad.append((i, j, v))
            for (i, g) in ((3, G12), (4, G13), (5, G23)):
                if not close(D3[6 * i + i], 2 * g, g):
                    bad.append((i, i, D3[6 * i + i]))
            nchk += 1
            c.count(1, ("stiff3d", k))
            if bad:
                c.report("stiff3d", "computeOrthotropicStiffnessTensor<TRIDIMENSIONAL> times the documented compliance is not the identity: %s" % bad[:3],
                         {"E1,E2,E3,n12,n23,n13,G12,G23,G13": sp, "observed": D3}, True)
        for h in range(7):
            ns = SS[DIM[h]]
            for cv in range(3):
                if not doc_supported(h, cv):
                    continue
                for what, pin in (("hill", hp), ("lt", lp), ("stiffU", sp)):
                    m2 = data.get((k, what, h, cv))
                    m3 = data.get((k, what, 6, 0))
                    if not m2 or not m3:
                        continue
                    scale = max(map(abs, m3))
                    bad = [(i, j, m2[ns * i + j], m3[6 * pcomp(h, cv, i) + pcomp(h, cv, j)]) for i in range(ns) for j in range(ns)
                           if not close(m2[ns * i + j], m3[6 * pcomp(h, cv, i) + pcomp(h, cv, j)], scale)]
                    nchk += 1
                    c.count(1, (what, h, cv, k), cv != 0 or h != 6)
                    if k == 0 and cv == 1 and h == 3:
                        c.sample({"object": what, "hypothesis": HN[h], "convention": CN[cv], "input": pin, "reduced": m2[:6]})
                    if bad:
                        i, j, got, exp = bad[0]
                        c.report("%s:%s:%s" % (what, HN[h], CN[cv]),
                                 "%s<%s,%s> component (%d,%d) = %.17g but the 3D tensor seen through the documented axis permutation has %.17g (input %s)" % (
                                     what, HN[h].upper(), CN[cv].upper(), i, j, got, exp, pin),
                                 {"object": what, "hypothesis": HN[h], "convention": CN[cv], "input": pin, "reduced": m2, "three_d": m3}, True)
                e2 = data.get((k, "sfe", h, cv))
                if e2:
                    bad = [i for i in range(3) if e2[i] != ep[pcomp(h, cv, i)]]
                    nchk += 1
                    c.count(1, ("sfe", h, cv, k), cv != 0)
                    if bad:
                        c.report("sfe:%s:%s" % (HN[h], CN[cv]), "convertStressFreeExpansionStrain<%s,%s>(%s) = %s: component %d is not the documented permutation" % (
                            HN[h].upper(), CN[cv].upper(), ep[:3], e2[:3], bad[0]), {"hypothesis": HN[h], "convention": CN[cv], "input": ep, "observed": e2}, True)
            # altered plane stress: condensation of the unaltered stiffness of the same pair
        for cv in range(3):
            da, d = data.get((k, "stiffA", 3, cv)), data.get((k, "stiffU", 3, cv))
            if da and d:
                bad = []
                for i in range(4):
                    for j in range(4):
                        if i < 2 and j < 2:
                            exp = d[4 * i + j] - d[4 * i + 2] * d[8 + j] / d[10]
                        elif i == 3 and j == 3:
                            exp = d[15]
                        else:
                            exp = 0.0
                        if not close(da[4 * i + j], exp, max(map(abs, d))):
                            bad.append((i, j, da[4 * i + j], exp))
                nchk += 1
                c.count(1, ("stiffA", cv, k))
                if bad:
                    c.report("stiffA:pstress:%s" % CN[cv], "altered plane-stress stiffness is not the condensation of the unaltered one: %s (input %s)" % (bad[:2], sp),
                             {"convention": CN[cv], "input": sp, "altered": da, "unaltered": d}, True)
    c.coverage["rule"] = ("tables: exhaustive over the 8 enumerator values, 21 (hypothesis, convention) pairs, 56 probe strings; tensors: %d seeded "
                          "material data sets x every documented pair x {Hill, stiffness U/A, linear transformation, stress-free expansion}; "
                          "non-trivial = pair other than (3D, DEFAULT)" % n)
    c.coverage["traces_validated_against_impl"] = nag
    c.coverage["executions_against_spec"] = nchk
    if not res.ok:
        if any(v[3] for v in c.violations):
            c.notes.append("proof obligations failed: %s; concrete failing inputs reported above" % [f[2] for f in res.failed])
        else:
            c.coq_failures(res, None)


guarded_main("C28", main)

// C28 (b): driver of the mfront-generated behaviours C28OrthoDefault / C28OrthoPipe / C28OrthoPlate (props/C28/mfront), double only.
// stdin : one case per line   <conv> <hyp> eel[S] eto[S] deto[S] T dT sw[3] dsw[3] E1 E2 E3 n12 n23 n13 G12 G23 G13 a1 a2 a3
//         conv in default|pipe|plate, hyp = enumerator value of ModellingHypothesis (0..6)
// stdout: OUT <conv> <hyp> D <S*S> H <S*S> meto <S> mdeto <S> sig <S>
//         D, Hl: members after initialize(); meto/mdeto: mechanical strains (total strain minus the stress free expansions) after
//         initialize(); sig: stress after integrate().  The statement of what these must be is in check.py (independent of the code).
#include <cmath>
#include <cstdio>
#include <cstdlib>
#include <cstring>
#include <iostream>
#include <sstream>
#include <stdexcept>
#include <string>
#include <vector>
#define protected public
#define private public
#include "TFEL/Material/C28OrthoDefault.hxx"
#include "TFEL/Material/C28OrthoPipe.hxx"
#include "TFEL/Material/C28OrthoPlate.hxx"
#undef protected
#undef private
using namespace tfel::material;
using Hyp = ModellingHypothesis::Hypothesis;

template <template <Hyp, typename, bool> class B, template <Hyp, typename, bool> class BD, template <Hyp, typename, bool> class ID, Hyp h>
void run(const char* conv, const std::vector<double>& in) {
  constexpr int S = ModellingHypothesisToStensorSize<h>::value;
  if (in.size() != static_cast<size_t>(3 * S + 2 + 6 + 12)) throw std::runtime_error("wrong number of inputs");
  BD<h, double, false> bd;
  ID<h, double, false> id;
  int k = 0;
  for (int i = 0; i < S; ++i) bd.eel[i] = in[k++];
  for (int i = 0; i < S; ++i) bd.eto[i] = in[k++];
  for (int i = 0; i < S; ++i) id.deto[i] = in[k++];
  for (int i = 0; i < S; ++i) bd.sig[i] = 0;
  bd.T = in[k++];
  id.dT = in[k++];
  bd.sw1 = in[k++];
  bd.sw2 = in[k++];
  bd.sw3 = in[k++];
  id.dsw1 = in[k++];
  id.dsw2 = in[k++];
  id.dsw3 = in[k++];
  id.dt = 1;
  using Beh = B<h, double, false>;
  Beh b(bd, id);
  b.young1 = in[k++];
  b.young2 = in[k++];
  b.young3 = in[k++];
  b.nu12 = in[k++];
  b.nu23 = in[k++];
  b.nu13 = in[k++];
  b.mu12 = in[k++];
  b.mu23 = in[k++];
  b.mu13 = in[k++];
  b.alpha1 = in[k++];
  b.alpha2 = in[k++];
  b.alpha3 = in[k++];
  if (!b.initialize()) throw std::runtime_error("initialize failed");
  std::printf("OUT %s %d D", conv, static_cast<int>(h));
  for (int i = 0; i < S; ++i)
    for (int j = 0; j < S; ++j) std::printf(" %.17g", b.D(i, j));
  std::printf(" H");
  for (int i = 0; i < S; ++i)
    for (int j = 0; j < S; ++j) std::printf(" %.17g", b.Hl(i, j));
  std::printf(" meto");
  for (int i = 0; i < S; ++i) std::printf(" %.17g", b.eto[i]);
  std::printf(" mdeto");
  for (int i = 0; i < S; ++i) std::printf(" %.17g", b.deto[i]);
  if (b.integrate(Beh::STANDARDTANGENTOPERATOR, Beh::NOSTIFFNESSREQUESTED) != Beh::SUCCESS) throw std::runtime_error("integrate failed");
  std::printf(" sig");
  for (int i = 0; i < S; ++i) std::printf(" %.17g", b.sig[i]);
  std::printf("\n");
}

#define RUN(B, H) run<B, B##BehaviourData, B##IntegrationData, ModellingHypothesis::H>(conv.c_str(), in)

int main() {
  std::string line;
  while (std::getline(std::cin, line)) {
    std::istringstream is(line);
    std::string conv;
    int h;
    if (!(is >> conv >> h)) continue;
    std::vector<double> in;
    double x;
    while (is >> x) in.push_back(x);
    try {
      if (conv == "default") {
        if (h == 6) RUN(C28OrthoDefault, TRIDIMENSIONAL);
        else throw std::runtime_error("hypothesis not generated");
      } else if (conv == "pipe") {
        switch (h) {
          case 0: RUN(C28OrthoPipe, AXISYMMETRICALGENERALISEDPLANESTRAIN); break;
          case 1: RUN(C28OrthoPipe, AXISYMMETRICALGENERALISEDPLANESTRESS); break;
          case 2: RUN(C28OrthoPipe, AXISYMMETRICAL); break;
          case 3: RUN(C28OrthoPipe, PLANESTRESS); break;
          case 4: RUN(C28OrthoPipe, PLANESTRAIN); break;
          case 5: RUN(C28OrthoPipe, GENERALISEDPLANESTRAIN); break;
          case 6: RUN(C28OrthoPipe, TRIDIMENSIONAL); break;
          default: throw std::runtime_error("unknown hypothesis");
        }
      } else if (conv == "plate") {
        switch (h) {
          case 3: RUN(C28OrthoPlate, PLANESTRESS); break;
          case 4: RUN(C28OrthoPlate, PLANESTRAIN); break;
          case 5: RUN(C28OrthoPlate, GENERALISEDPLANESTRAIN); break;
          case 6: RUN(C28OrthoPlate, TRIDIMENSIONAL); break;
          default: throw std::runtime_error("hypothesis not generated");
        }
      } else {
        throw std::runtime_error("unknown convention");
      }
    } catch (std::exception& e) {
      std::printf("ERR %s %d %s\n", conv.c_str(), h, e.what());
    }
  }
  return 0;
}

(* C28 -- proofs over the tables dumped and the tensors traced from /repo (C28_gen.v).
   Tactics do not depend on the shape of the regenerated terms: tables by computation, tensor identities by
   case analysis on the indices then reflexivity / ring / field, with the side conditions of field discharged from
   the hypotheses E_i <> 0 and (compliance determinant polynomial) <> 0 by a search for the monomial factor. *)
From Coq Require Import Reals List String Bool Arith Lia Lra.
From C28 Require Import C28Spec C28_gen.
Import ListNotations.
Local Open Scope R_scope.

(* ------------------------------------------------------------------ tables (engine D) *)
Definition row_of (h : hyp) : option hrow := find (fun r => Nat.eqb (h_code r) (hcode h)) hyp_dump.

Lemma table_rows h : exists r, row_of h = Some r /\
  h_name r = Some (doc_name h) /\ h_upper r = Some (doc_upper h) /\ h_back r = Some (hcode h) /\
  h_dim r = Some (doc_dim h) /\ h_ssize r = Some (doc_ssize h) /\ h_tsize r = Some (doc_tsize h) /\
  m_dim r = Some (doc_dim h) /\ m_ssize r = Some (doc_ssize h) /\ m_tsize r = Some (doc_tsize h) /\
  o_ssize r = Some (doc_ssize h) /\ o_tsize r = Some (doc_tsize h) /\ exists p, h_pos r = Some p.
Proof. destruct h; vm_compute; eexists; (split; [reflexivity|]); repeat split; eexists; reflexivity. Qed.

Lemma names_injective h1 h2 r1 r2 : row_of h1 = Some r1 -> row_of h2 = Some r2 -> h_name r1 = h_name r2 -> h1 = h2.
Proof.
  destruct h1, h2; vm_compute; intros H1 H2; injection H1 as <-; injection H2 as <-; cbn; intro E;
    first [reflexivity | discriminate E].
Qed.
Lemma upper_injective h1 h2 r1 r2 : row_of h1 = Some r1 -> row_of h2 = Some r2 -> h_upper r1 = h_upper r2 -> h1 = h2.
Proof.
  destruct h1, h2; vm_compute; intros H1 H2; injection H1 as <-; injection H2 as <-; cbn; intro E;
    first [reflexivity | discriminate E].
Qed.
Lemma positions_injective h1 h2 r1 r2 : row_of h1 = Some r1 -> row_of h2 = Some r2 -> h_pos r1 = h_pos r2 -> h1 = h2.
Proof.
  destruct h1, h2; vm_compute; intros H1 H2; injection H1 as <-; injection H2 as <-; cbn; intro E;
    first [reflexivity | discriminate E].
Qed.
Lemma list_length_ok : hyp_list_length = List.length all_hyps.
Proof. vm_compute. reflexivity. Qed.

(* fromString / isModellingHypothesis on the probe strings *)
Definition name_to_hyp (s : string) : option hyp := find (fun h => String.eqb s (doc_name h)) all_hyps.
Definition is_name (s : string) : bool := match name_to_hyp s with Some _ => true | None => false end.
Definition probe_ok (p : string * bool * option nat) : bool :=
  let '(s, b, r) := p in
  Bool.eqb b (is_name s) &&
  match r, option_map hcode (name_to_hyp s) with
  | Some a, Some b => Nat.eqb a b | None, None => true | _, _ => false
  end.
Lemma probes_ok : forallb probe_ok probe_dump = true.
Proof. vm_compute. reflexivity. Qed.
Lemma probes s b r : In (s, b, r) probe_dump -> b = is_name s /\ r = option_map hcode (name_to_hyp s).
Proof.
  intro Hin. pose proof (proj1 (forallb_forall _ _) probes_ok _ Hin) as H. unfold probe_ok in H.
  apply andb_true_iff in H. destruct H as [H1 H2]. split.
  - now apply eqb_prop.
  - destruct r as [a|], (option_map hcode (name_to_hyp s)) as [k|]; try discriminate; [|reflexivity].
    apply Nat.eqb_eq in H2. now subst.
Qed.
Lemma probes_cover_names h : existsb (fun p => String.eqb (fst (fst p)) (doc_name h)) probe_dump = true.
Proof. destruct h; vm_compute; reflexivity. Qed.

(* which pairs the headers provide *)
Definition support_of (h : hyp) (c : conv) : option (bool * bool * bool * bool) :=
  match find (fun r => let '(a, b, _, _, _, _) := r in Nat.eqb a (hcode h) && Nat.eqb b (ccode c)) support_dump with
  | Some (_, _, x, y, z, t) => Some (x, y, z, t)
  | None => None
  end.
Lemma support_hill_lt h c : doc_supported h c = true -> exists su sa, support_of h c = Some (true, su, sa, true).
Proof. destruct h, c; vm_compute; intro H; try discriminate H; do 2 eexists; reflexivity. Qed.

(* ------------------------------------------------------------------ tensors (engine S) *)
Ltac cases_lt i H :=
  repeat (destruct i as [|i]; [|try (exfalso; cbn in H; lia)]); try (exfalso; cbn in H; lia).

(* Hill, linear transformation: polynomial in the coefficients *)
Ltac poly_entry := cbn; first [reflexivity | ring | field].

Lemma hill_restricts h c : doc_supported h c = true ->
  exists f f3, hill_code (hcode h) (ccode c) = Some f /\ hill_code (hcode Tri) (ccode Default) = Some f3 /\
    forall F G H L M N, restricts h c (f F G H L M N) (f3 F G H L M N).
Proof.
  destruct h, c; intro Hs; try discriminate Hs; do 2 eexists; (split; [reflexivity|]); (split; [reflexivity|]);
    intros F G H L M N i j Hi Hj; cases_lt i Hi; cases_lt j Hj; poly_entry.
Qed.

Lemma lt_restricts h c : doc_supported h c = true ->
  exists f f3, lt_code (hcode h) (ccode c) = Some f /\ lt_code (hcode Tri) (ccode Default) = Some f3 /\
    forall c12 c21 c13 c31 c23 c32 c44 c55 c66,
      restricts h c (f c12 c21 c13 c31 c23 c32 c44 c55 c66) (f3 c12 c21 c13 c31 c23 c32 c44 c55 c66).
Proof.
  destruct h, c; intro Hs; try discriminate Hs; do 2 eexists; (split; [reflexivity|]); (split; [reflexivity|]);
    intros c12 c21 c13 c31 c23 c32 c44 c55 c66 i j Hi Hj; cases_lt i Hi; cases_lt j Hj; poly_entry.
Qed.

(* the 3D Hill tensor is the documented one: symmetric, and its quadratic form is the documented Hill stress *)
Lemma hill3d_doc : exists f3, hill_code (hcode Tri) (ccode Default) = Some f3 /\
  forall F G H L M N, symmetric 6 (f3 F G H L M N) /\
    forall s0 s1 s2 s3 s4 s5, quad 6 (f3 F G H L M N) [s0; s1; s2; s3; s4; s5] = hill_form F G H L M N [s0; s1; s2; s3; s4; s5].
Proof.
  eexists; split; [reflexivity|]. intros F G H L M N; split.
  - intros i j Hi Hj; cases_lt i Hi; cases_lt j Hj; poly_entry.
  - intros. unfold quad, hill_form, matvec, entry. cbn. ring.
Qed.

(* stress-free expansion: the diagonal of the 3D tensor seen in the frame of the hypothesis *)
Lemma sfe_permutes h c : doc_supported h c = true ->
  exists f, sfe_code (hcode h) (ccode c) = Some f /\
    forall e : list R, forall i, (i < 3)%nat -> (nth i (f e) 0%R = nth (pcomp h c i) e 0%R).
Proof.
  destruct h, c; intro Hs; try discriminate Hs; eexists; (split; [reflexivity|]);
    intros e i Hi; cases_lt i Hi; cbn; reflexivity.
Qed.

(* restricts implies identical in-plane responses, for any pair of tensors: one proof per (size, component map) *)
Ltac response_gen n :=
  intros Hr s Hs i Hi; unfold restricts_gen in Hr; cbn in Hs, Hi;
  repeat (destruct s as [|? s]; [discriminate Hs|]); (destruct s; [|discriminate Hs]);
  cases_lt i Hi; unfold matvec, embed_gen, entry; cbn;
  repeat match goal with
         | |- context [nth ?k ?m2 0] =>
           match type of Hr with context [entry _ m2 _ _ = _] => idtac end;
           let E := fresh "E" in
           assert (E : nth k m2 0 = entry n m2 (k / n) (k mod n)) by reflexivity; rewrite E, Hr by (cbn; lia); clear E
         end; unfold entry; cbn; ring.
Lemma response3 m2 m3 : restricts_gen 3 (pcomp AGPStrain Default) m2 m3 -> same_response_gen 3 (pcomp AGPStrain Default) m2 m3.
Proof. response_gen 3%nat. Qed.
Lemma response4 m2 m3 : restricts_gen 4 (pcomp Axis Default) m2 m3 -> same_response_gen 4 (pcomp Axis Default) m2 m3.
Proof. response_gen 4%nat. Qed.
Lemma response4s m2 m3 : restricts_gen 4 (pcomp PStress Pipe) m2 m3 -> same_response_gen 4 (pcomp PStress Pipe) m2 m3.
Proof. response_gen 4%nat. Qed.
Lemma response6 m2 m3 : restricts_gen 6 (pcomp Tri Default) m2 m3 -> same_response_gen 6 (pcomp Tri Default) m2 m3.
Proof. response_gen 6%nat. Qed.
Lemma restricts_response h c m2 m3 : restricts h c m2 m3 -> same_response h c m2 m3.
Proof.
  destruct h, c; first [exact (response3 m2 m3) | exact (response4 m2 m3) | exact (response4s m2 m3) | exact (response6 m2 m3)].
Qed.

(* ---- orthotropic stiffness: rational functions of the data *)
(* numerator of the determinant of the documented compliance: detS * E1^2 * E2^2 * E3 *)
Definition compliance_det (o : ortho) : R :=
  E1 o * E2 o - 2 * n12 o * n13 o * n23 o * E2 o * E3 o - n23 o * n23 o * E1 o * E3 o
  - n13 o * n13 o * E2 o * E3 o - n12 o * n12 o * E2 o * E2 o.
(* in-plane minor of the compliance for the frame of (h,c): (S_aa S_bb - S_ab^2) * E_a^2 * E_b, a,b the in-plane axes *)
Definition inplane_minor (h : hyp) (c : conv) (o : ortho) : R :=
  let a := axis h c 0%nat in let b := axis h c 1%nat in
  Eof o a - nuof o a b * nuof o a b * Eof o b.

Lemma nz_pow x n : x <> 0 -> x ^ n <> 0.
Proof. intro; now apply pow_nonzero. Qed.
Lemma inv_wit x : x <> 0 -> exists i, x * i = 1.
Proof. intro; exists (/ x); now apply Rinv_r. Qed.

(* goal q <> 0 where q is (up to ring) +- E1^a E2^b E3^c * P with P <> 0 in the context *)
Ltac nz_mono x1 x2 x3 P :=
  match goal with
  | |- ?q <> 0 =>
    let go m := (first [ replace q with (m * P) by ring | replace q with (- (m * P)) by ring | replace q with m by ring
                       | replace q with (- m) by ring ];
                 repeat first [ apply nz_pow | apply Ropp_neq_0_compat | apply Rmult_integral_contrapositive_currified ];
                 first [assumption | lra]) in
    first [ go (x1 ^ 0 * x2 ^ 0 * x3 ^ 0) | go (x1 ^ 0 * x2 ^ 0 * x3 ^ 1) | go (x1 ^ 0 * x2 ^ 1 * x3 ^ 0) | go (x1 ^ 1 * x2 ^ 0 * x3 ^ 0)
          | go (x1 ^ 0 * x2 ^ 1 * x3 ^ 1) | go (x1 ^ 1 * x2 ^ 0 * x3 ^ 1) | go (x1 ^ 1 * x2 ^ 1 * x3 ^ 0) | go (x1 ^ 1 * x2 ^ 1 * x3 ^ 1)
          | go (x1 ^ 0 * x2 ^ 0 * x3 ^ 2) | go (x1 ^ 0 * x2 ^ 2 * x3 ^ 0) | go (x1 ^ 2 * x2 ^ 0 * x3 ^ 0)
          | go (x1 ^ 0 * x2 ^ 1 * x3 ^ 2) | go (x1 ^ 0 * x2 ^ 2 * x3 ^ 1) | go (x1 ^ 1 * x2 ^ 0 * x3 ^ 2) | go (x1 ^ 2 * x2 ^ 0 * x3 ^ 1)
          | go (x1 ^ 1 * x2 ^ 2 * x3 ^ 0) | go (x1 ^ 2 * x2 ^ 1 * x3 ^ 0) | go (x1 ^ 1 * x2 ^ 1 * x3 ^ 2) | go (x1 ^ 1 * x2 ^ 2 * x3 ^ 1)
          | go (x1 ^ 2 * x2 ^ 1 * x3 ^ 1) | go (x1 ^ 0 * x2 ^ 2 * x3 ^ 2) | go (x1 ^ 2 * x2 ^ 0 * x3 ^ 2) | go (x1 ^ 2 * x2 ^ 2 * x3 ^ 0)
          | go (x1 ^ 1 * x2 ^ 2 * x3 ^ 2) | go (x1 ^ 2 * x2 ^ 1 * x3 ^ 2) | go (x1 ^ 2 * x2 ^ 2 * x3 ^ 1) | go (x1 ^ 2 * x2 ^ 2 * x3 ^ 2) ]
  end.
Ltac nz x1 x2 x3 P Q := first [assumption | nz_mono x1 x2 x3 P | nz_mono x1 x2 x3 Q | nz_mono x1 x2 x3 (P * Q)].
Ltac rat_entry x1 x2 x3 P Q :=
  cbn; first [reflexivity | ring | (field; repeat split; nz x1 x2 x3 P Q)].

Section Stiffness.
  Variable o : ortho.
  Hypothesis HE1 : E1 o <> 0.
  Hypothesis HE2 : E2 o <> 0.
  Hypothesis HE3 : E3 o <> 0.
  Hypothesis Hdet : compliance_det o <> 0.
  Let app (f : R -> R -> R -> R -> R -> R -> R -> R -> R -> list R) (x : ortho) : list R :=
    f (E1 x) (E2 x) (E3 x) (n12 x) (n23 x) (n13 x) (G12 x) (G23 x) (G13 x).

  (* UNALTERED stiffness of every provided (hypothesis, convention) = the 3D stiffness seen in the frame of the hypothesis *)
  Lemma stiffU_restricts_when_provided h c f :
    doc_supported h c = true -> stiffU_code (hcode h) (ccode c) = Some f ->
    exists f3, stiffU_code (hcode Tri) (ccode Default) = Some f3 /\ restricts h c (app f o) (app f3 o).
  Proof.
    destruct o as [e1 e2 e3 v12 v23 v13 g12 g23 g13]. unfold compliance_det in Hdet. cbn in HE1, HE2, HE3, Hdet.
    destruct h, c; intros Hs Hf; try discriminate Hs; cbn in Hf; try discriminate Hf; injection Hf as <-;
      eexists; (split; [reflexivity|]); intros i j Hi Hj; cases_lt i Hi; cases_lt j Hj; subst app;
      match type of Hdet with ?P <> 0 => rat_entry e1 e2 e3 P P end.
  Qed.

  (* the 3D stiffness is symmetric and is the inverse of the documented compliance on the normal block *)
  Lemma stiff3d_doc : exists f3, stiffU_code (hcode Tri) (ccode Default) = Some f3 /\
    symmetric 6 (app f3 o) /\
    (forall i k, (i < 3)%nat -> (k < 3)%nat ->
       fold_right Rplus 0 (map (fun j => entry 6 (app f3 o) i j *
                                         (if Nat.eqb j k then / Eof o j else - nuof o j k / Eof o j)) (seq 0 3))
       = if Nat.eqb i k then 1 else 0) /\
    entry 6 (app f3 o) 3 3 = 2 * G12 o /\ entry 6 (app f3 o) 4 4 = 2 * G13 o /\ entry 6 (app f3 o) 5 5 = 2 * G23 o /\
    (forall i j, (i < 6)%nat -> (j < 6)%nat -> (3 <= i \/ 3 <= j)%nat -> i <> j -> entry 6 (app f3 o) i j = 0).
  Proof.
    destruct o as [e1 e2 e3 v12 v23 v13 g12 g23 g13]. unfold compliance_det in Hdet. cbn in HE1, HE2, HE3, Hdet.
    eexists; split; [reflexivity|]. subst app. split; [|split; [|split; [|split; [|split]]]].
    - intros i j Hi Hj; cases_lt i Hi; cases_lt j Hj; match type of Hdet with ?P <> 0 => rat_entry e1 e2 e3 P P end.
    - intros i k Hi Hk; cases_lt i Hi; cases_lt k Hk; match type of Hdet with ?P <> 0 => rat_entry e1 e2 e3 P P end.
    - cbn; ring.
    - cbn; ring.
    - cbn; ring.
    - intros i j Hi Hj Hij Hne; cases_lt i Hi; cases_lt j Hj; try (exfalso; lia); match type of Hdet with ?P <> 0 => rat_entry e1 e2 e3 P P end.
  Qed.

  (* ALTERED plane-stress stiffness = condensation of the unaltered one of the same (hypothesis, convention) on the
     out-of-plane normal component *)
  Lemma stiffA_planestress c fa :
    doc_supported PStress c = true -> stiffA_code (hcode PStress) (ccode c) = Some fa ->
    inplane_minor PStress c o <> 0 ->
    exists fu, stiffU_code (hcode PStress) (ccode c) = Some fu /\
      (forall i j, (i < 2)%nat -> (j < 2)%nat ->
         entry 4 (app fa o) i j = entry 4 (app fu o) i j - entry 4 (app fu o) i 2 * entry 4 (app fu o) 2 j / entry 4 (app fu o) 2 2) /\
      entry 4 (app fa o) 3 3 = entry 4 (app fu o) 3 3 /\
      (forall i j, (i < 4)%nat -> (j < 4)%nat -> (i = 2 \/ j = 2 \/ (i = 3 /\ j <> 3) \/ (j = 3 /\ i <> 3))%nat ->
         entry 4 (app fa o) i j = 0).
  Proof.
    destruct o as [e1 e2 e3 v12 v23 v13 g12 g23 g13]. unfold compliance_det in Hdet. cbn in HE1, HE2, HE3, Hdet.
    destruct c; intros Hs Hf Hq; try discriminate Hs; cbn in Hf; try discriminate Hf; injection Hf as <-;
      unfold inplane_minor in Hq; cbn in Hq;
      eexists; (split; [reflexivity|]); subst app; repeat split.
    all: try (intros i j Hi Hj; cases_lt i Hi; cases_lt j Hj; match type of Hdet with ?P <> 0 => match type of Hq with ?Q <> 0 => rat_entry e1 e2 e3 P Q end end).
    all: try (cbn; ring).
    all: try (intros i j Hi Hj Hc; cases_lt i Hi; cases_lt j Hj; try (exfalso; lia); cbn; reflexivity).
  Qed.

  (* the ALTERED stiffness is the UNALTERED one in every hypothesis that prescribes no normal stress *)
  Lemma stiffA_same_elsewhere h c fa :
    doc_supported h c = true -> altered_component h = None -> stiffA_code (hcode h) (ccode c) = Some fa ->
    exists fu, stiffU_code (hcode h) (ccode c) = Some fu /\
      forall i j, (i < doc_ssize h)%nat -> (j < doc_ssize h)%nat ->
        entry (doc_ssize h) (app fa o) i j = entry (doc_ssize h) (app fu o) i j.
  Proof.
    destruct o as [e1 e2 e3 v12 v23 v13 g12 g23 g13]. unfold compliance_det in Hdet. cbn in HE1, HE2, HE3, Hdet.
    destruct h, c; intros Hs Ha Hf; try discriminate Hs; try discriminate Ha; cbn in Hf; try discriminate Hf; injection Hf as <-;
      eexists; (split; [reflexivity|]); intros i j Hi Hj; cases_lt i Hi; cases_lt j Hj; subst app;
      match type of Hdet with ?P <> 0 => rat_entry e1 e2 e3 P P end.
  Qed.
End Stiffness.

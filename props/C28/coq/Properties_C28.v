(* C28 -- property theorems (statements only; proofs are in C28Proofs.v over the regenerated C28_gen.v). *)
From Coq Require Import Reals List String Bool.
From C28 Require Import C28Spec C28_gen C28Proofs.
Import ListNotations.
Local Open Scope R_scope.

(* every modelling hypothesis: toString = documented name, toUpperCaseString, fromString(toString h) = h, getSpaceDimension /
   getStensorSize / getTensorSize = documented values = the compile-time metafunctions = sizes of stensor<N>/tensor<N>,
   and h is listed by getModellingHypotheses() *)
Theorem C28_hypothesis_table : forall h, exists r, row_of h = Some r /\
  h_name r = Some (doc_name h) /\ h_upper r = Some (doc_upper h) /\ h_back r = Some (hcode h) /\
  h_dim r = Some (doc_dim h) /\ h_ssize r = Some (doc_ssize h) /\ h_tsize r = Some (doc_tsize h) /\
  m_dim r = Some (doc_dim h) /\ m_ssize r = Some (doc_ssize h) /\ m_tsize r = Some (doc_tsize h) /\
  o_ssize r = Some (doc_ssize h) /\ o_tsize r = Some (doc_tsize h) /\ exists p, h_pos r = Some p.
Proof. exact table_rows. Qed.
Print Assumptions C28_hypothesis_table.

(* names (both spellings) identify the hypothesis; getModellingHypotheses() lists the seven hypotheses once each *)
Theorem C28_names_identify_hypotheses : forall h1 h2 r1 r2, row_of h1 = Some r1 -> row_of h2 = Some r2 ->
  (h_name r1 = h_name r2 -> h1 = h2) /\ (h_upper r1 = h_upper r2 -> h1 = h2) /\ (h_pos r1 = h_pos r2 -> h1 = h2).
Proof. intros h1 h2 r1 r2 H1 H2; exact (conj (names_injective _ _ _ _ H1 H2) (conj (upper_injective _ _ _ _ H1 H2) (positions_injective _ _ _ _ H1 H2))). Qed.
Print Assumptions C28_names_identify_hypotheses.
Theorem C28_hypotheses_list_has_seven_entries : hyp_list_length = List.length all_hyps.
Proof. exact list_length_ok. Qed.
Print Assumptions C28_hypotheses_list_has_seven_entries.

(* fromString succeeds exactly on the documented names (and returns that hypothesis), isModellingHypothesis agrees, on the
   dumped probe strings (the seven names, their upper/lower-case, padded, truncated, extended variants, junk) *)
Theorem C28_fromString_probes : forall s b r, In (s, b, r) probe_dump -> b = is_name s /\ r = option_map hcode (name_to_hyp s).
Proof. exact probes. Qed.
Print Assumptions C28_fromString_probes.
Theorem C28_probes_cover_names : forall h, existsb (fun p => String.eqb (fst (fst p)) (doc_name h)) probe_dump = true.
Proof. exact probes_cover_names. Qed.
Print Assumptions C28_probes_cover_names.

(* Hill tensor and stress linear transformation exist for every documented (hypothesis, convention) pair *)
Theorem C28_hill_and_linear_transformation_provided : forall h c, doc_supported h c = true ->
  exists su sa, support_of h c = Some (true, su, sa, true).
Proof. exact support_hill_lt. Qed.
Print Assumptions C28_hill_and_linear_transformation_provided.

(* computeHillTensor<H,c>: the 3D Hill tensor seen through the documented axis permutation, all coefficients *)
Theorem C28_hill_tensor_permuted : forall h c, doc_supported h c = true ->
  exists f f3, hill_code (hcode h) (ccode c) = Some f /\ hill_code (hcode Tri) (ccode Default) = Some f3 /\
    forall F G H L M N, restricts h c (f F G H L M N) (f3 F G H L M N).
Proof. exact hill_restricts. Qed.
Print Assumptions C28_hill_tensor_permuted.
(* and the 3D Hill tensor is the documented one *)
Theorem C28_hill_tensor_3D_documented : exists f3, hill_code (hcode Tri) (ccode Default) = Some f3 /\
  forall F G H L M N, symmetric 6 (f3 F G H L M N) /\
    forall s0 s1 s2 s3 s4 s5, quad 6 (f3 F G H L M N) [s0; s1; s2; s3; s4; s5] = hill_form F G H L M N [s0; s1; s2; s3; s4; s5].
Proof. exact hill3d_doc. Qed.
Print Assumptions C28_hill_tensor_3D_documented.

(* makeOrthotropicStressLinearTransformation<H,c> (Barlat, Cazacu): same statement *)
Theorem C28_linear_transformation_permuted : forall h c, doc_supported h c = true ->
  exists f f3, lt_code (hcode h) (ccode c) = Some f /\ lt_code (hcode Tri) (ccode Default) = Some f3 /\
    forall c12 c21 c13 c31 c23 c32 c44 c55 c66,
      restricts h c (f c12 c21 c13 c31 c23 c32 c44 c55 c66) (f3 c12 c21 c13 c31 c23 c32 c44 c55 c66).
Proof. exact lt_restricts. Qed.
Print Assumptions C28_linear_transformation_permuted.

(* convertStressFreeExpansionStrain<H,c>: diagonal of the 3D tensor through the documented axis permutation *)
Theorem C28_stress_free_expansion_permuted : forall h c, doc_supported h c = true ->
  exists f, sfe_code (hcode h) (ccode c) = Some f /\
    forall e : list R, forall i, (i < 3)%nat -> (nth i (f e) 0%R = nth (pcomp h c i) e 0%R).
Proof. exact sfe_permutes. Qed.
Print Assumptions C28_stress_free_expansion_permuted.

(* "restricts" means identical in-plane responses, for any pair of tensors *)
Theorem C28_same_inplane_response : forall h c m2 m3, restricts h c m2 m3 -> same_response h c m2 m3.
Proof. exact restricts_response. Qed.
Print Assumptions C28_same_inplane_response.

(* computeOrthotropicStiffnessTensor<H,UNALTERED,c>, wherever the headers provide it: the 3D stiffness seen through the
   documented axis permutation, for all data with non-zero Young moduli and non-singular compliance *)
Theorem C28_stiffness_permuted : forall o, E1 o <> 0 -> E2 o <> 0 -> E3 o <> 0 -> compliance_det o <> 0 ->
  forall h c f, doc_supported h c = true -> stiffU_code (hcode h) (ccode c) = Some f ->
  exists f3, stiffU_code (hcode Tri) (ccode Default) = Some f3 /\
    restricts h c (f (E1 o) (E2 o) (E3 o) (n12 o) (n23 o) (n13 o) (G12 o) (G23 o) (G13 o))
                  (f3 (E1 o) (E2 o) (E3 o) (n12 o) (n23 o) (n13 o) (G12 o) (G23 o) (G13 o)).
Proof. exact stiffU_restricts_when_provided. Qed.
Print Assumptions C28_stiffness_permuted.

(* the 3D stiffness is the documented one: symmetric, inverse of the documented compliance, shear moduli 2G, no coupling *)
Theorem C28_stiffness_3D_documented : forall o, E1 o <> 0 -> E2 o <> 0 -> E3 o <> 0 -> compliance_det o <> 0 ->
  exists f3, stiffU_code (hcode Tri) (ccode Default) = Some f3 /\
    let D := f3 (E1 o) (E2 o) (E3 o) (n12 o) (n23 o) (n13 o) (G12 o) (G23 o) (G13 o) in
    symmetric 6 D /\
    (forall i k, (i < 3)%nat -> (k < 3)%nat ->
       fold_right Rplus 0 (map (fun j => entry 6 D i j * (if Nat.eqb j k then / Eof o j else - nuof o j k / Eof o j)) (seq 0 3))
       = if Nat.eqb i k then 1 else 0) /\
    entry 6 D 3 3 = 2 * G12 o /\ entry 6 D 4 4 = 2 * G13 o /\ entry 6 D 5 5 = 2 * G23 o /\
    (forall i j, (i < 6)%nat -> (j < 6)%nat -> (3 <= i \/ 3 <= j)%nat -> i <> j -> entry 6 D i j = 0).
Proof. exact stiff3d_doc. Qed.
Print Assumptions C28_stiffness_3D_documented.

(* ALTERED plane-stress stiffness = condensation of the unaltered one of the same (hypothesis, convention) *)
Theorem C28_stiffness_planestress_altered : forall o, E1 o <> 0 -> E2 o <> 0 -> E3 o <> 0 -> compliance_det o <> 0 ->
  forall c fa, doc_supported PStress c = true -> stiffA_code (hcode PStress) (ccode c) = Some fa ->
  inplane_minor PStress c o <> 0 ->
  exists fu, stiffU_code (hcode PStress) (ccode c) = Some fu /\
    let Da := fa (E1 o) (E2 o) (E3 o) (n12 o) (n23 o) (n13 o) (G12 o) (G23 o) (G13 o) in
    let D := fu (E1 o) (E2 o) (E3 o) (n12 o) (n23 o) (n13 o) (G12 o) (G23 o) (G13 o) in
    (forall i j, (i < 2)%nat -> (j < 2)%nat -> entry 4 Da i j = entry 4 D i j - entry 4 D i 2 * entry 4 D 2 j / entry 4 D 2 2) /\
    entry 4 Da 3 3 = entry 4 D 3 3 /\
    (forall i j, (i < 4)%nat -> (j < 4)%nat -> (i = 2 \/ j = 2 \/ (i = 3 /\ j <> 3) \/ (j = 3 /\ i <> 3))%nat -> entry 4 Da i j = 0).
Proof. exact stiffA_planestress. Qed.
Print Assumptions C28_stiffness_planestress_altered.

(* ALTERED = UNALTERED in the hypotheses that prescribe no normal stress (all but plane stress and axisymmetrical generalised plane stress) *)
Theorem C28_stiffness_altered_is_unaltered_elsewhere : forall o, E1 o <> 0 -> E2 o <> 0 -> E3 o <> 0 -> compliance_det o <> 0 ->
  forall h c fa, doc_supported h c = true -> altered_component h = None -> stiffA_code (hcode h) (ccode c) = Some fa ->
  exists fu, stiffU_code (hcode h) (ccode c) = Some fu /\
    forall i j, (i < doc_ssize h)%nat -> (j < doc_ssize h)%nat ->
      entry (doc_ssize h) (fa (E1 o) (E2 o) (E3 o) (n12 o) (n23 o) (n13 o) (G12 o) (G23 o) (G13 o)) i j =
      entry (doc_ssize h) (fu (E1 o) (E2 o) (E3 o) (n12 o) (n23 o) (n13 o) (G12 o) (G23 o) (G13 o)) i j.
Proof. exact stiffA_same_elsewhere. Qed.
Print Assumptions C28_stiffness_altered_is_unaltered_elsewhere.

(* C28 -- the statement that is false on a tree whose StiffnessTensor.ixx has no PLATE specialisation:
   a documented (hypothesis, convention) pair for which computeOrthotropicStiffnessTensor does not exist *)
From Coq Require Import Reals List.
From C28 Require Import C28Spec C28_gen.
Lemma stiffness_provided_refuted :
  exists h c, doc_supported h c = true /\ stiffU_code (hcode h) (ccode c) = None /\ stiffA_code (hcode h) (ccode c) = None.
Proof. exists Tri, Plate. repeat split. Qed.

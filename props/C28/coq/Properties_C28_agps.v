(* C28 -- property theorem selected when the ALTERED stiffness of the axisymmetrical generalised plane stress hypothesis eliminates the
   axial component *)
From Coq Require Import Reals List.
From C28 Require Import C28Spec C28_gen C28Proofs C28ProofsAgps.
Local Open Scope R_scope.
(* computeOrthotropicStiffnessTensor<AXISYMMETRICALGENERALISEDPLANESTRESS, ALTERED, c>: condensation of the unaltered tensor of the same
   (hypothesis, convention) on the component whose stress the hypothesis prescribes (the axial one, second of (rr, zz, tt)) *)
Theorem C28_stiffness_agpstress_altered : forall o, E1 o <> 0 -> E2 o <> 0 -> E3 o <> 0 -> compliance_det o <> 0 ->
  forall c fa, doc_supported AGPStress c = true -> stiffA_code (hcode AGPStress) (ccode c) = Some fa -> axial_minor o <> 0 ->
  exists fu k, altered_component AGPStress = Some k /\ stiffU_code (hcode AGPStress) (ccode c) = Some fu /\
    let Da := fa (E1 o) (E2 o) (E3 o) (n12 o) (n23 o) (n13 o) (G12 o) (G23 o) (G13 o) in
    let D := fu (E1 o) (E2 o) (E3 o) (n12 o) (n23 o) (n13 o) (G12 o) (G23 o) (G13 o) in
    (forall i j, (i < 3)%nat -> (j < 3)%nat -> i <> k -> j <> k ->
       entry 3 Da i j = entry 3 D i j - entry 3 D i k * entry 3 D k j / entry 3 D k k) /\
    (forall i j, (i < 3)%nat -> (j < 3)%nat -> (i = k \/ j = k) -> entry 3 Da i j = 0).
Proof. exact stiffA_agpstress. Qed.
Print Assumptions C28_stiffness_agpstress_altered.

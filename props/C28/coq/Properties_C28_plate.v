(* C28 -- property theorem selected when no (hypothesis, convention) pair is missing *)
From Coq Require Import Reals List.
From C28 Require Import C28Spec C28_gen C28ProofsPlate.
(* computeOrthotropicStiffnessTensor<H, smt, c> exists for every documented (hypothesis, convention) pair *)
Theorem C28_stiffness_provided_for_every_documented_pair : forall h c, doc_supported h c = true ->
  exists fu fa, stiffU_code (hcode h) (ccode c) = Some fu /\ stiffA_code (hcode h) (ccode c) = Some fa.
Proof. exact stiffness_provided. Qed.
Print Assumptions C28_stiffness_provided_for_every_documented_pair.

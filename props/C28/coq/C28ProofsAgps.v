(* C28 -- ALTERED orthotropic stiffness of the axisymmetrical generalised plane stress hypothesis (1D, components (rr, zz, tt)): the
   condensation of the unaltered tensor on the axial component (the second one), whose stress the hypothesis prescribes.  Used when
   the code does so (positive theorem); C28ProofsAgpsRefuted.v is used while it condenses the third component (finding). *)
From Coq Require Import Reals List String Bool Arith Lia Lra.
From C28 Require Import C28Spec C28_gen C28Proofs.
Import ListNotations.
Local Open Scope R_scope.

Lemma stiffA_agpstress o : E1 o <> 0 -> E2 o <> 0 -> E3 o <> 0 -> compliance_det o <> 0 ->
  forall c fa, doc_supported AGPStress c = true -> stiffA_code (hcode AGPStress) (ccode c) = Some fa -> axial_minor o <> 0 ->
  exists fu k, altered_component AGPStress = Some k /\ stiffU_code (hcode AGPStress) (ccode c) = Some fu /\
    let Da := fa (E1 o) (E2 o) (E3 o) (n12 o) (n23 o) (n13 o) (G12 o) (G23 o) (G13 o) in
    let D := fu (E1 o) (E2 o) (E3 o) (n12 o) (n23 o) (n13 o) (G12 o) (G23 o) (G13 o) in
    (forall i j, (i < 3)%nat -> (j < 3)%nat -> i <> k -> j <> k ->
       entry 3 Da i j = entry 3 D i j - entry 3 D i k * entry 3 D k j / entry 3 D k k) /\
    (forall i j, (i < 3)%nat -> (j < 3)%nat -> (i = k \/ j = k) -> entry 3 Da i j = 0).
Proof.
  intros HE1 HE2 HE3 Hdet c fa Hs Hf Hq.
  destruct o as [e1 e2 e3 v12 v23 v13 g12 g23 g13]. unfold compliance_det in Hdet. unfold axial_minor in Hq. cbn in HE1, HE2, HE3, Hdet, Hq.
  destruct c; try discriminate Hs; cbn in Hf; try discriminate Hf; injection Hf as <-;
    eexists; exists 1%nat; (split; [reflexivity|]); (split; [reflexivity|]); split.
  all: try (intros i j Hi Hj Hik Hjk; cases_lt i Hi; cases_lt j Hj; try (exfalso; lia);
            match type of Hdet with ?P <> 0 => match type of Hq with ?Q <> 0 => rat_entry e1 e2 e3 P Q end end).
  all: try (intros i j Hi Hj Hc; cases_lt i Hi; cases_lt j Hj; try (exfalso; lia); cbn; first [reflexivity | ring]).
Qed.

(* C28 -- selected while the known finding "no PLATE specialisation of ComputeOrthotropicStiffnessTensor" is observed *)
From Coq Require Import Reals List.
From C28 Require Import C28Spec C28_gen C28ProofsPlateRefuted.
Theorem C28_stiffness_provided_for_every_documented_pair_refuted :
  exists h c, doc_supported h c = true /\ stiffU_code (hcode h) (ccode c) = None /\ stiffA_code (hcode h) (ccode c) = None.
Proof. exact stiffness_provided_refuted. Qed.
Print Assumptions C28_stiffness_provided_for_every_documented_pair_refuted.

(* C28 -- specification of "modelling hypotheses and orthotropic axes conventions are coherent".
   Written from the documentation (ModellingHypothesis.hxx, OrthotropicAxesConvention.hxx, Hill.hxx, docs/web),
   independently of the code: documented names, space dimension and tensor sizes of the seven modelling hypotheses;
   the axis permutation documented for each (hypothesis, convention); what it means for a reduced-hypothesis tensor
   to be "the same material" as the 3D one. *)
From Coq Require Import Reals List String Bool Arith Lia.
Import ListNotations.
Local Open Scope R_scope.

Inductive hyp := AGPStrain | AGPStress | Axis | PStress | PStrain | GPS | Tri.
Inductive conv := Default | Pipe | Plate.
Definition all_hyps : list hyp := [AGPStrain; AGPStress; Axis; PStress; PStrain; GPS; Tri].
Definition all_convs : list conv := [Default; Pipe; Plate].
Lemma all_hyps_complete h : In h all_hyps.
Proof. destruct h; cbn; tauto. Qed.

(* enumerator values (declaration order in the headers); only used to find the rows of the dumped tables *)
Definition hcode (h : hyp) : nat :=
  match h with AGPStrain => 0 | AGPStress => 1 | Axis => 2 | PStress => 3 | PStrain => 4 | GPS => 5 | Tri => 6 end.
Definition ccode (c : conv) : nat := match c with Default => 0 | Pipe => 1 | Plate => 2 end.

(* ---- documented table (ModellingHypothesis.hxx: "AXISYMMETRICALGENERALISEDPLANESTRAIN <=> AxisymmetricalGeneralisedPlaneStrain" ...) *)
Definition doc_name (h : hyp) : string :=
  match h with
  | AGPStrain => "AxisymmetricalGeneralisedPlaneStrain" | AGPStress => "AxisymmetricalGeneralisedPlaneStress"
  | Axis => "Axisymmetrical" | PStress => "PlaneStress" | PStrain => "PlaneStrain"
  | GPS => "GeneralisedPlaneStrain" | Tri => "Tridimensional"
  end%string.
Definition doc_upper (h : hyp) : string :=
  match h with
  | AGPStrain => "AXISYMMETRICALGENERALISEDPLANESTRAIN" | AGPStress => "AXISYMMETRICALGENERALISEDPLANESTRESS"
  | Axis => "AXISYMMETRICAL" | PStress => "PLANESTRESS" | PStrain => "PLANESTRAIN"
  | GPS => "GENERALISEDPLANESTRAIN" | Tri => "TRIDIMENSIONAL"
  end%string.
Definition doc_dim (h : hyp) : nat :=
  match h with AGPStrain | AGPStress => 1 | Axis | PStress | PStrain | GPS => 2 | Tri => 3 end.
(* number of components of symmetric / unsymmetric second-order tensors in dimension d (tfel-math documentation) *)
Definition ssize_of_dim (d : nat) : nat := match d with 1 => 3 | 2 => 4 | _ => 6 end.
Definition tsize_of_dim (d : nat) : nat := match d with 1 => 3 | 2 => 5 | _ => 9 end.
Definition doc_ssize h := ssize_of_dim (doc_dim h).
Definition doc_tsize h := tsize_of_dim (doc_dim h).

(* PLATE: "can only be used in 3D, plane stress, plane strain and generalised plane strain"; DEFAULT, PIPE: everywhere *)
Definition doc_supported (h : hyp) (c : conv) : bool :=
  match c, h with
  | Plate, (Tri | PStress | PStrain | GPS) => true
  | Plate, _ => false
  | _, _ => true
  end.

(* ---- documented axis permutation.  PIPE: "in 2D plane stress, strain, generalised plane strain the second and third
   axes are exchanged compared to the 3D case"; nothing moves otherwise (PLATE: rolling, transverse, normal directions
   are axes 1,2,3 in every supported hypothesis). *)
Definition swaps (h : hyp) (c : conv) : bool :=
  match c, h with Pipe, (PStress | PStrain | GPS) => true | _, _ => false end.
(* axis of the 3D material frame carried by axis k (0,1,2) of the frame used in hypothesis h *)
Definition axis (h : hyp) (c : conv) (k : nat) : nat :=
  if swaps h c then match k with 1 => 2 | 2 => 1 | _ => k end%nat else k.
(* stensor components are ordered 11,22,33,12,13,23 *)
Definition comp_axes (i : nat) : nat * nat :=
  match i with 0 => (0, 0) | 1 => (1, 1) | 2 => (2, 2) | 3 => (0, 1) | 4 => (0, 2) | _ => (1, 2) end%nat.
Definition comp_of_axes (a b : nat) : nat :=
  match a, b with
  | 0, 0 => 0 | 1, 1 => 1 | 2, 2 => 2 | 0, 1 | 1, 0 => 3 | 0, 2 | 2, 0 => 4 | _, _ => 5
  end%nat.
(* the 3D component carried by component i of the reduced hypothesis *)
Definition pcomp (h : hyp) (c : conv) (i : nat) : nat :=
  let '(a, b) := comp_axes i in comp_of_axes (axis h c a) (axis h c b).

(* ---- tensors as row-major lists *)
Definition entry (n : nat) (m : list R) (i j : nat) : R := nth (i * n + j) m 0.
Definition matvec (n : nat) (m : list R) (v : list R) : list R :=
  map (fun i => fold_right Rplus 0 (map (fun j => entry n m i j * nth j v 0) (seq 0 n))) (seq 0 n).

(* a fourth-order tensor m2 with n x n components IS the 3D tensor m3 seen through the component map p *)
Definition restricts_gen (n : nat) (p : nat -> nat) (m2 m3 : list R) : Prop :=
  forall i j, (i < n)%nat -> (j < n)%nat -> entry n m2 i j = entry 6 m3 (p i) (p j).
Definition restricts (h : hyp) (c : conv) (m2 m3 : list R) : Prop := restricts_gen (doc_ssize h) (pcomp h c) m2 m3.

(* embedding of a reduced symmetric tensor into 3D: component p i receives s_i, the rest is zero *)
Definition embed_gen (n : nat) (p : nat -> nat) (s : list R) : list R :=
  map (fun k => fold_right Rplus 0 (map (fun i => if Nat.eqb (p i) k then nth i s 0 else 0) (seq 0 n))) (seq 0 6).
(* "identical in-plane responses": applying the reduced tensor to s gives the in-plane components of the 3D tensor applied
   to the embedding of s *)
Definition same_response_gen (n : nat) (p : nat -> nat) (m2 m3 : list R) : Prop :=
  forall s, List.length s = n -> forall i, (i < n)%nat ->
    nth i (matvec n m2 s) 0 = nth (p i) (matvec 6 m3 (embed_gen n p s)) 0.
Definition same_response (h : hyp) (c : conv) (m2 m3 : list R) : Prop := same_response_gen (doc_ssize h) (pcomp h c) m2 m3.

(* ---- Hill: documented quadratic form (Hill.hxx), with TFEL's components s3 = sqrt2 s12, s4 = sqrt2 s13, s5 = sqrt2 s23 *)
Definition hill_form (F G H L M N : R) (s : list R) : R :=
  let x i := nth i s 0 in
  F * (x 0%nat - x 1%nat) ^ 2 + G * (x 1%nat - x 2%nat) ^ 2 + H * (x 2%nat - x 0%nat) ^ 2
  + L * x 3%nat ^ 2 + M * x 4%nat ^ 2 + N * x 5%nat ^ 2.
Definition quad (n : nat) (m : list R) (s : list R) : R :=
  fold_right Rplus 0 (map (fun i => nth i s 0 * nth i (matvec n m s) 0) (seq 0 n)).
Definition symmetric (n : nat) (m : list R) : Prop :=
  forall i j, (i < n)%nat -> (j < n)%nat -> entry n m i j = entry n m j i.

(* ---- orthotropic elastic data seen in a relabelled frame: E'_k = E_pi(k), nu'_ab = nu_pi(a)pi(b) with the
   symmetry of the compliance nu_ba / E_b = nu_ab / E_a, G'_ab = G_pi(a)pi(b) *)
Record ortho := mk_ortho { E1 : R; E2 : R; E3 : R; n12 : R; n23 : R; n13 : R; G12 : R; G23 : R; G13 : R }.
Definition Eof (o : ortho) (k : nat) : R := match k with 0 => E1 o | 1 => E2 o | _ => E3 o end%nat.
Definition nuof (o : ortho) (a b : nat) : R :=
  match a, b with
  | 0, 1 => n12 o | 1, 2 => n23 o | 0, 2 => n13 o
  | 1, 0 => (n12 o * E2 o / E1 o)%R | 2, 1 => (n23 o * E3 o / E2 o)%R | 2, 0 => (n13 o * E3 o / E1 o)%R
  | _, _ => 0%R
  end%nat.
Definition Gof (o : ortho) (a b : nat) : R :=
  match a, b with 0, 1 | 1, 0 => G12 o | 1, 2 | 2, 1 => G23 o | 0, 2 | 2, 0 => G13 o | _, _ => 0%R end%nat.
Definition relabel (h : hyp) (c : conv) (o : ortho) : ortho :=
  let p := axis h c in
  mk_ortho (Eof o (p 0%nat)) (Eof o (p 1%nat)) (Eof o (p 2%nat))
           (nuof o (p 0%nat) (p 1%nat)) (nuof o (p 1%nat) (p 2%nat)) (nuof o (p 0%nat) (p 2%nat))
           (Gof o (p 0%nat) (p 1%nat)) (Gof o (p 1%nat) (p 2%nat)) (Gof o (p 0%nat) (p 2%nat)).

(* ---- hypotheses of plane-stress type: the normal stress that the hypothesis prescribes, as a component of the tensors of that
   hypothesis.  Plane stress (2D): components (xx, yy, zz, xy), sigma_zz = 0 is the third one.  Axisymmetrical generalised plane stress
   (1D): components (rr, zz, tt) (OrthotropicAxesConvention.hxx, docs/web/tfel-material.md), the axial stress sigma_zz is prescribed
   (docs/web/cyrano.md "uniform axial stress"; the bricks write the condition on component 1): the second one. *)
Definition altered_component (h : hyp) : option nat :=
  match h with PStress => Some 2%nat | AGPStress => Some 1%nat | _ => None end.
(* minor of the compliance on the axes (1,3) (r, theta), up to a non-zero factor: (S_11 S_33 - S_13^2) E_1^2 E_3 *)
Definition axial_minor (o : ortho) : R := E1 o - n13 o * n13 o * E3 o.

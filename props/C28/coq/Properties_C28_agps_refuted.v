(* C28 -- property theorem selected while the finding stiffA:agpstress:* is observed *)
From Coq Require Import Reals List.
From C28 Require Import C28Spec C28_gen C28Proofs C28ProofsAgpsRefuted.
Local Open Scope R_scope.
Theorem C28_stiffness_agpstress_altered_refuted : exists o c fa k,
  E1 o <> 0 /\ E2 o <> 0 /\ E3 o <> 0 /\ compliance_det o <> 0 /\ axial_minor o <> 0 /\
  doc_supported AGPStress c = true /\ altered_component AGPStress = Some k /\ stiffA_code (hcode AGPStress) (ccode c) = Some fa /\
  entry 3 (fa (E1 o) (E2 o) (E3 o) (n12 o) (n23 o) (n13 o) (G12 o) (G23 o) (G13 o)) k k <> 0.
Proof. exact stiffA_agpstress_refuted. Qed.
Print Assumptions C28_stiffness_agpstress_altered_refuted.

(* C28 -- used when the headers provide the orthotropic stiffness for every documented (hypothesis, convention) *)
From Coq Require Import Reals List.
From C28 Require Import C28Spec C28_gen.
Lemma stiffness_provided h c : doc_supported h c = true ->
  exists fu fa, stiffU_code (hcode h) (ccode c) = Some fu /\ stiffA_code (hcode h) (ccode c) = Some fa.
Proof. destruct h, c; intro H; try discriminate H; do 2 eexists; split; reflexivity. Qed.

(* C28 -- used while computeOrthotropicStiffnessTensor<AXISYMMETRICALGENERALISEDPLANESTRESS, ALTERED, c> condenses the third component
   (theta theta) although the hypothesis prescribes the axial stress, second component of (rr, zz, tt): the row of the axial component
   of the traced tensor is not zero (witness: E1 = E2 = E3 = 1, Poisson ratios 0). *)
From Coq Require Import Reals List String Bool Arith Lia Lra.
From C28 Require Import C28Spec C28_gen C28Proofs.
Import ListNotations.
Local Open Scope R_scope.

Lemma stiffA_agpstress_refuted : exists o c fa k,
  E1 o <> 0 /\ E2 o <> 0 /\ E3 o <> 0 /\ compliance_det o <> 0 /\ axial_minor o <> 0 /\
  doc_supported AGPStress c = true /\ altered_component AGPStress = Some k /\ stiffA_code (hcode AGPStress) (ccode c) = Some fa /\
  entry 3 (fa (E1 o) (E2 o) (E3 o) (n12 o) (n23 o) (n13 o) (G12 o) (G23 o) (G13 o)) k k <> 0.
Proof.
  exists (mk_ortho 1 1 1 0 0 0 1 1 1), Default. eexists. exists 1%nat.
  unfold compliance_det, axial_minor. cbn [E1 E2 E3 n12 n23 n13 G12 G23 G13].
  repeat (split; [ first [ reflexivity | lra ] | ]).
  match goal with |- ?e <> 0 => replace e with 1 by (cbn; field; repeat split; lra) end. lra.
Qed.

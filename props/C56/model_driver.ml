(* C56: runs the extracted Gallina model (C56Model.v) on the families read from stdin, same line protocol as
   driver.cxx:  <cubic|fcc|bcc|hcp|hcpfix> indices of b, indices of p.  "hcpfix" = plane generator with both signs
   of the fourth index (the code with fix_hcp_planes.diff).
   "im3 <b p>*" / "im4 <b p>*": model of the interaction-matrix structure (C56IMModel.v) of a list of systems. *)
open C56_model

let rec pos_of_int n = if n = 1 then XH else if n land 1 = 0 then XO (pos_of_int (n lsr 1)) else XI (pos_of_int (n lsr 1))
let z_of_int n = if n = 0 then Z0 else if n > 0 then Zpos (pos_of_int n) else Zneg (pos_of_int (-n))
let rec int_of_pos = function XH -> 1 | XO p -> 2 * int_of_pos p | XI p -> 2 * int_of_pos p + 1
let int_of_z = function Z0 -> 0 | Zpos p -> int_of_pos p | Zneg p -> - (int_of_pos p)

let v3 l = match l with [a; b; c] -> ((z_of_int a, z_of_int b), z_of_int c) | _ -> failwith "v3"
let v4 l = match l with [a; b; c; d] -> (((z_of_int a, z_of_int b), z_of_int c), z_of_int d) | _ -> failwith "v4"
let p3 ((a, b), c) = Printf.sprintf "%d %d %d" (int_of_z a) (int_of_z b) (int_of_z c)
let p4 (((a, b), c), d) = Printf.sprintf "%d %d %d %d" (int_of_z a) (int_of_z b) (int_of_z c) (int_of_z d)

let rec take n l = if n = 0 then [] else match l with x :: r -> x :: take (n - 1) r | [] -> failwith "take"
let rec drop n l = if n = 0 then l else match l with _ :: r -> drop (n - 1) r | [] -> failwith "drop"

let () =
  try
    while true do
      let line = input_line stdin in
      if String.trim line <> "" then begin
        let toks = List.filter (fun s -> s <> "") (String.split_on_char ' ' line) in
        let cs = List.hd toks in
        let nums = List.map int_of_string (List.tl toks) in
        Printf.printf "BEGIN %s\n" line;
        let rec int_of_nat = function O -> 0 | S n -> 1 + int_of_nat n in
        let rec chunks k l = if l = [] then [] else take k l :: chunks k (drop k l) in
        let print_im (n, m) =
          Printf.printf "IMR %d %d\n" (int_of_nat n) (List.length m);
          List.iter (fun row -> print_string "IM"; List.iter (fun r -> Printf.printf " %d" (int_of_nat r)) row;
                                print_string "\n") m in
        (* "im3" / "im4": the interaction-matrix structure of the LIST of systems given on the line (b p b p ...) *)
        (if cs = "im3" then
           print_im (cubic_im (List.map (fun c -> (v3 (take 3 c), v3 (drop 3 c))) (chunks 6 nums)))
         else if cs = "im4" then
           print_im (hcp_im (List.map (fun c -> (v4 (take 4 c), v4 (drop 4 c))) (chunks 8 nums)))
         else if cs = "hcp" || cs = "hcpfix" then begin
           match hcp_systems (cs = "hcpfix") (v4 (take 4 nums)) (v4 (drop 4 nums)) with
           | None -> print_string "ERR\n"
           | Some l -> List.iter (fun (b, p) -> Printf.printf "SYS 0 %s %s\n" (p4 b) (p4 p)) l
         end else begin
           match cubic_systems (v3 (take 3 nums)) (v3 (drop 3 nums)) with
           | None -> print_string "ERR\n"
           | Some l -> List.iter (fun (b, p) -> Printf.printf "SYS 0 %s %s\n" (p3 b) (p3 p)) l
         end);
        print_string "END\n"
      end
    done
  with End_of_file -> ()

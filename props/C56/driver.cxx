// C56 driver: runs the REAL tfel::material::SlipSystemsDescription (compiled from REPO sources by check.py) on
// slip-system families read from stdin, prints what its public API returns.
// input lines:  [geo|im] <cubic|fcc|bcc|hcp> b0 b1 b2 [b3] p0 p1 p2 [p3] [b.. p..]*
//   (several families may follow each other; "geo": also print normals, directions, orientation / climb tensors and
//    Schmid factors for seven loading directions)
#include <cstdio>
#include <cstdlib>
#include <iostream>
#include <sstream>
#include <string>
#include <vector>
#include <exception>
#include "TFEL/Material/SlipSystemsDescription.hxx"

using namespace tfel::material;
using SSD = SlipSystemsDescription;

static CrystalStructure cs_of(const std::string& s) {
  if (s == "cubic") return CrystalStructure::Cubic;
  if (s == "fcc") return CrystalStructure::FCC;
  if (s == "bcc") return CrystalStructure::BCC;
  if (s == "hcp") return CrystalStructure::HCP;
  std::fprintf(stderr, "unknown structure %s\n", s.c_str());
  std::exit(2);
}

static void print_sys(const SSD::system& s) {
  if (s.is<SSD::system3d>()) {
    const auto& g = s.get<SSD::system3d>();
    std::printf(" %d %d %d %d %d %d", g.burgers[0], g.burgers[1], g.burgers[2], g.plane[0], g.plane[1], g.plane[2]);
  } else {
    const auto& g = s.get<SSD::system4d>();
    std::printf(" %d %d %d %d %d %d %d %d", g.burgers[0], g.burgers[1], g.burgers[2], g.burgers[3], g.plane[0],
                g.plane[1], g.plane[2], g.plane[3]);
  }
}

static void add(SSD& d, const bool hcp, std::istringstream& is) {
  if (hcp) {
    SSD::vec4d b, p;
    for (auto& x : b) is >> x;
    for (auto& x : p) is >> x;
    d.addSlipSystemsFamily(b, p);
  } else {
    SSD::vec3d b, p;
    for (auto& x : b) is >> x;
    for (auto& x : p) is >> x;
    d.addSlipSystemsFamily(b, p);
  }
}

// loading directions (Miller / Miller-Bravais direction indices)
static const int dirs3[][3] = {{1, 0, 0}, {1, 1, 0}, {1, 1, 1}, {1, 2, 3}, {-3, 1, 2}, {0, 2, -1}, {5, -7, 11}};
static const int dirs4[][4] = {{0, 0, 0, 1}, {1, 0, -1, 0}, {1, 1, -2, 0}, {1, 1, -2, 3},
                               {2, -1, -1, 1}, {1, -2, 1, -5}, {3, -1, -2, 2}};

int main() {
  std::string line;
  while (std::getline(std::cin, line)) {
    if (line.empty()) continue;
    std::istringstream is(line);
    std::string w;
    is >> w;
    const bool geo = (w == "geo");
    // "im": also print the structure of the interaction matrix (number of coefficients, rank of every ordered pair
    // of systems through InteractionMatrixStructure::getRank, size of every class)
    const bool im = (w == "im");
    if (geo || im) is >> w;
    const auto cs = cs_of(w);
    const bool hcp = cs == CrystalStructure::HCP;
    std::printf("BEGIN %s\n", line.c_str());
    try {
      SSD d(cs);
      while (true) {
        is >> std::ws;
        if (is.eof()) break;
        add(d, hcp, is);
      }
      const auto nf = d.getNumberOfSlipSystemsFamilies();
      for (SSD::size_type f = 0; f != nf; ++f) {
        const auto ss = d.getSlipSystems(f);
        std::printf("N %zu %zu\n", f, ss.size());
        for (SSD::size_type i = 0; i != ss.size(); ++i) {
          std::printf("SYS %zu", f);
          print_sys(ss[i]);
          std::printf("\n");
        }
        if (!geo) continue;
        const auto ns = d.getSlipPlaneNormals(f);
        const auto ms = d.getSlipDirections(f);
        const auto mus = d.getOrientationTensors(f);
        const auto cl = d.getClimbTensors(f);
        std::printf("NG %zu %zu %zu %zu %zu\n", f, ns.size(), ms.size(), mus.size(), cl.size());
        for (SSD::size_type i = 0; i != ss.size(); ++i) {
          std::printf("GEO %zu %zu", f, i);
          for (auto x : ns.at(i)) std::printf(" %.21Lg", x);
          for (auto x : ms.at(i)) std::printf(" %.21Lg", x);
          for (auto x : mus.at(i)) std::printf(" %.21Lg", x);
          for (auto x : cl.at(i)) std::printf(" %.21Lg", x);
          std::printf("\n");
        }
        // (the pinned getSchmidFactors writes r[<family index>]: never call it where that is out of bounds)
        for (int k = 0; k != 7 && f < ss.size(); ++k) {
          SSD::vec dv;
          if (hcp) {
            dv = SSD::vec4d{dirs4[k][0], dirs4[k][1], dirs4[k][2], dirs4[k][3]};
            std::printf("SCH %zu %d %d %d %d :", f, dirs4[k][0], dirs4[k][1], dirs4[k][2], dirs4[k][3]);
          } else {
            dv = SSD::vec3d{dirs3[k][0], dirs3[k][1], dirs3[k][2]};
            std::printf("SCH %zu %d %d %d :", f, dirs3[k][0], dirs3[k][1], dirs3[k][2]);
          }
          const auto sf = d.getSchmidFactors(dv, f);
          for (auto x : sf) std::printf(" %.21Lg", x);
          std::printf("\n");
        }
      }
      if (im) {
        const auto ims = d.getInteractionMatrixStructure();
        std::vector<SSD::system> all;
        for (const auto& fam : d.getSlipSystems())
          for (const auto& g : fam) all.push_back(g);
        std::printf("IMR %zu %zu\n", ims.rank(), all.size());
        std::printf("IMC");
        for (const auto& cl : ims.getSlidingSystemsInteraction()) std::printf(" %zu", cl.size());
        std::printf("\n");
        for (const auto& g1 : all) {
          std::printf("IM");
          for (const auto& g2 : all) std::printf(" %zu", ims.getRank(g1, g2));
          std::printf("\n");
        }
      }
    } catch (std::exception& e) {
      std::string m = e.what();
      for (auto& ch : m)
        if (ch == '\n') ch = ' ';
      std::printf("ERR %s\n", m.c_str());
    }
    std::printf("END\n");
  }
  return 0;
}

(* C56 -- interaction-matrix structure, Cubic / FCC / BCC, EVERY list of systems without null vector
   (proofs in C56IMCubicEquiv.v). *)
From Coq Require Import ZArith List.
From C56 Require Import C56Spec C56IMModel C56IMGeneral C56IMCubicEquiv.
Import ListNotations.

(* the 48 index operations of numodis::Cubic::Symmetry are closed under composition and inverse and keep the integer dot
   product; collinearity (the comparison of the code) is transitive through a non-null vector *)
Theorem C56_im_cubic_operations :
  (forall k1 k2, (k1 < 48)%nat -> (k2 < 48)%nat -> exists k3, (k3 < 48)%nat /\ forall v, cubic_sym k3 v = cubic_sym k1 (cubic_sym k2 v)) /\
  (forall k, (k < 48)%nat -> exists k', (k' < 48)%nat /\ forall v, cubic_sym k' (cubic_sym k v) = v) /\
  (forall k, (k < 48)%nat -> forall u v, dot3 (cubic_sym k u) (cubic_sym k v) = dot3 u v) /\
  (forall u v w, dot3 v v <> 0%Z -> col u v -> col v w -> col u w).
Proof. exact (conj cubic_sym_comp (conj cubic_sym_inv (conj cubic_sym_dot col_trans))). Qed.
Print Assumptions C56_im_cubic_operations.

(* for EVERY list of cubic / FCC / BCC slip systems without null vector (any number of families, any indices): two ordered
   pairs of systems get the same rank IF AND ONLY IF one of the 48 operations maps the first pair onto a pair whose planes and
   Burgers vectors are collinear with those of the second *)
Theorem C56_im_cubic_classes : forall L : list (V3 * V3), (forall s, In s L -> nonnull s) ->
  forall x y, In x (all_pairs V3 L) -> In y (all_pairs V3 L) ->
  (cubic_rk L x = cubic_rk L y <->
   exists k, (k < 48)%nat /\ sys_col (gsys_sym V3 cubic_sym k (fst x)) (fst y) /\ sys_col (gsys_sym V3 cubic_sym k (snd x)) (snd y)).
Proof.
  intros L HL x y Hx Hy. rewrite (cubic_classes L HL x y Hx Hy). exact (E_col L HL x y Hx Hy).
Qed.
Print Assumptions C56_im_cubic_classes.

(* the same with the point group of the SPECIFICATION (C56Spec.cubic_codes, the 48 signed permutations; the 48 operations of the
   code are proved to be exactly those): the classes of equal rank are the orbits of the ordered pairs of systems under the point
   group, planes and Burgers vectors being compared as directions.  In particular rank(g.s1, g.s2) = rank(s1, s2) *)
Theorem C56_im_cubic_classes_are_orbits : forall L : list (V3 * V3), (forall s, In s L -> nonnull s) ->
  forall x y, In x (all_pairs V3 L) -> In y (all_pairs V3 L) -> (cubic_rk L x = cubic_rk L y <-> pair_equiv_dir x y).
Proof. exact cubic_classes_spec. Qed.
Print Assumptions C56_im_cubic_classes_are_orbits.

(* C56 -- interaction-matrix structure: hand-written executable model of what the code computes (definitions only).
   numodis::Hardening::Hardening / getRankInteraction / getNinteractions, numodis::Cubic::Symmetry (48 operations, used by
   Cubic, FCC and BCC), numodis::HCP::Symmetry (96 operations), operator==(GSystem, GSystem) = operator==(IPlane, IPlane)
   and Coincide(IBurgers, IBurgers) != 0, as called by tfel::material::buildInteractionMatrix<cs> on the flattened list
   of the slip systems of all the families; SlipSystemsDescription::InteractionMatrixStructure::rank / getRank. *)
From Coq Require Import ZArith List Bool Arith.
From C56 Require Import C56Spec.
Import ListNotations.
Local Open Scope Z_scope.

(* ------------------------------------------------------------------ the symmetry operations of numodis *)
Definition nth3 (v : V3) (i : nat) : Z := let '(a, b, c) := v in match i with 0%nat => a | 1%nat => b | _ => c end.
(* permutation[i] = (p / 3 == 0 ? (i + p) % 3 : (p - i) % 3) *)
Definition perm_idx (p i : nat) : nat := if (p / 3 =? 0)%nat then ((i + p) mod 3)%nat else ((p - i) mod 3)%nat.
Definition odd_code (n : nat) : bool := negb (n =? 0)%nat.
(* Cubic::Symmetry(k, indices): p = k % 6, s = k / 6, signs s / 4, (s / 2) % 2, s % 2 *)
Definition cubic_sym (k : nat) (v : V3) : V3 :=
  let p := (k mod 6)%nat in let s := (k / 6)%nat in
  (sg (odd_code (s / 4)) (nth3 v (perm_idx p 0)),
   sg (odd_code ((s / 2) mod 2)) (nth3 v (perm_idx p 1)),
   sg (odd_code (s mod 2)) (nth3 v (perm_idx p 2))).
Definition cubic_nsym : nat := 48.
(* HCP::Symmetry(k, indices): p = k % 6, s = (k % 48) / 6 on the three basal indices (each sign separately), fourth
   index negated when k / 48 != 0 *)
Definition hcp_sym (k : nat) (v : V4) : V4 :=
  let '(a, b, c, d) := v in
  let '(x, y, z) := cubic_sym (k mod 48) (a, b, c) in (x, y, z, sg (odd_code (k / 48)) d).
Definition hcp_nsym : nat := 96.

(* ------------------------------------------------------------------ the rank assignment, generic in the index type *)
Section Ranks.
  Variable V : Type.
  Variable dot : V -> V -> Z.
  Variable nsym : nat.
  Variable sym : nat -> V -> V.
  Definition gsys := (V * V)%type.                      (* (Burgers vector, plane), as in C56Spec.system *)
  (* operator==(IPlane, IPlane): b1b1 * b2b2 == b1b2 * b1b2 *)
  Definition iplane_same (u v : V) : bool := dot u u * dot v v =? dot u v * dot u v.
  (* Coincide(IBurgers, IBurgers) != 0 *)
  Definition iburgers_same (u v : V) : bool :=
    if negb (dot u u =? 0) && negb (dot v v =? 0) then dot u u * dot v v =? dot u v * dot u v
    else dot u u =? dot v v.
  (* operator==(GSystem, GSystem) *)
  Definition gsys_same (s t : gsys) : bool := iplane_same (snd s) (snd t) && iburgers_same (fst s) (fst t).
  Definition gsys_sym (k : nat) (s : gsys) : gsys := (sym k (fst s), sym k (snd s)).
  Definition gpair := (gsys * gsys)%type.               (* (gliding system, forest system) *)
  Definition gpair_same (x y : gpair) : bool := gsys_same (fst x) (fst y) && gsys_same (snd x) (snd y).
  Definition gpair_sym (k : nat) (x : gpair) : gpair := (gsys_sym k (fst x), gsys_sym k (snd x)).

  (* index of the first element that satisfies f *)
  Fixpoint find_index {A : Type} (f : A -> bool) (l : list A) (i : nat) : option nat :=
    match l with [] => None | a :: r => if f a then Some i else find_index f r (S i) end.
  Fixpoint first_some {A : Type} (l : list (option A)) : option A :=
    match l with [] => None | Some a :: _ => Some a | None :: r => first_some r end.
  (* Hardening::getRankInteraction: for k = 0 .. nsym - 1, for i = 0 .. : the first stored interaction equal to the image of
     the pair under the k-th operation; the number of stored interactions when there is none *)
  Definition match_interaction (stored : list gpair) (x : gpair) : option nat :=
    first_some (map (fun k => find_index (gpair_same (gpair_sym k x)) stored 0) (seq 0 nsym)).
  Definition rank_interaction (stored : list gpair) (x : gpair) : nat :=
    match match_interaction stored x with Some i => i | None => length stored end.
  (* the constructor: every ordered pair (i outer, j inner); a pair that matches nothing is stored *)
  Definition store_step (stored : list gpair) (x : gpair) : list gpair :=
    if (rank_interaction stored x =? length stored)%nat then stored ++ [x] else stored.
  Definition all_pairs (L : list gsys) : list gpair := list_prod L L.
  Definition interactions (L : list gsys) : list gpair := fold_left store_step (all_pairs L) [].
  (* InteractionMatrixStructure::rank() = Hardening::getNinteractions() *)
  Definition n_interactions (L : list gsys) : nat := length (interactions L).
  (* buildInteractionMatrix queries getRankInteraction again, once every interaction is stored *)
  Definition rank_of (L : list gsys) (x : gpair) : nat := rank_interaction (interactions L) x.
  Definition rank_matrix (L : list gsys) : list (list nat) :=
    let st := interactions L in map (fun g1 => map (fun g2 => rank_interaction st (g1, g2)) L) L.
End Ranks.
Arguments find_index {A}. Arguments first_some {A}.

Definition cubic_rank_matrix : list (V3 * V3) -> list (list nat) := rank_matrix V3 dot3 cubic_nsym cubic_sym.
Definition cubic_n_interactions : list (V3 * V3) -> nat := n_interactions V3 dot3 cubic_nsym cubic_sym.
Definition hcp_rank_matrix : list (V4 * V4) -> list (list nat) := rank_matrix V4 dot4 hcp_nsym hcp_sym.
Definition hcp_n_interactions : list (V4 * V4) -> nat := n_interactions V4 dot4 hcp_nsym hcp_sym.
(* both numbers at once, for the extracted program *)
Definition cubic_im (L : list (V3 * V3)) : nat * list (list nat) := (cubic_n_interactions L, cubic_rank_matrix L).
Definition hcp_im (L : list (V4 * V4)) : nat * list (list nat) := (hcp_n_interactions L, hcp_rank_matrix L).

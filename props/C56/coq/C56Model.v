(* C56 -- hand-written executable model of what the code computes (definitions only).
   numodis::Cubic::GenerateEquivalentIndices, numodis::HCP::GenerateEquivalentPlanes / GenerateEquivalentIBurgers,
   numodis::IPlane(std::vector<int>) (division by the gcd), numodis::Crystallo::InitGSystem and
   GenerateEquivalentGSystems, as called by tfel::material::generateSlipSystems<cs>; the real-space vectors of
   numodis::Cubic / numodis::HCP ::normal / burgers_vector and tfel::material::getOrientationTensor. *)
From Coq Require Import ZArith List Bool Reals.
From C56 Require Import C56Spec.
Import ListNotations.
Local Open Scope Z_scope.

(* ------------------------------------------------------------------ shared *)
Definition abs3 (v : V3) : V3 := let '(a, b, c) := v in (Z.abs a, Z.abs b, Z.abs c).
(* std::sort on three values (ascending) *)
Definition sort3 (v : V3) : V3 :=
  let '(a, b, c) := v in
  if a <=? b then (if b <=? c then (a, b, c) else if a <=? c then (a, c, b) else (c, a, b))
  else (if a <=? c then (b, a, c) else if b <=? c then (b, c, a) else (c, b, a)).
(* the six arrangements of a triple, in lexicographic order of the positions *)
Definition perms3 (v : V3) : list V3 := map (fun k => perm3 k v) [0; 1; 2; 3; 4; 5]%nat.
Definition V3_eq_dec : forall u v : V3, {u = v} + {u <> v}.
Proof. decide equality; try apply Z.eq_dec. decide equality; apply Z.eq_dec. Defined.
(* do { ... } while (next_permutation(...)) started from the sorted triple: every distinct arrangement once *)
Definition distinct_perms (v : V3) : list V3 := nodup V3_eq_dec (perms3 v).

(* numodis::math::GCD on the absolute values; IPlane's constructor divides by it when it is not 0 *)
Definition gcd3 (v : V3) : Z := let '(a, b, c) := v in Z.gcd (Z.gcd a b) c.
Definition reduce3 (v : V3) : V3 :=
  let g := gcd3 v in if g =? 0 then v else let '(a, b, c) := v in (a / g, b / g, c / g).

(* for every plane, for every Burgers vector: kept if ScalProduct(plane, burgers) == 0 *)
Definition select {V : Type} (dot : V -> V -> Z) (planes burgers : list V) : list (V * V) :=
  flat_map (fun p => flat_map (fun b => if dot p b =? 0 then [(b, p)] else []) burgers) planes.

(* ------------------------------------------------------------------ cubic, FCC, BCC *)
(* the switch (count) of Cubic::GenerateEquivalentIndices: sign variants of one arrangement of the absolute
   values, first non-zero term kept positive *)
Definition sign_variants (p : V3) : list V3 :=
  let '(a, b, c) := p in
  match negb (a =? 0), negb (b =? 0), negb (c =? 0) with
  | true, true, true => [(a, b, c); (a, b, - c); (a, - b, - c); (a, - b, c)]
  | true, true, false => [(a, b, c); (a, - b, c)]
  | true, false, true => [(a, b, c); (a, b, - c)]
  | false, true, true => [(a, b, c); (a, b, - c)]
  | _, _, _ => [(a, b, c)]
  end.
Definition cubic_equivalent_indices (v : V3) : list V3 :=
  flat_map sign_variants (distinct_perms (sort3 (abs3 v))).
Definition cubic_burgers (b : V3) : list V3 := cubic_equivalent_indices b.
Definition cubic_planes (p : V3) : list V3 := map reduce3 (cubic_equivalent_indices p).
(* None: InitGSystem raises "ill-defined glide system" *)
Definition cubic_systems (b p : V3) : option (list (V3 * V3)) :=
  if dot3 p b =? 0 then Some (select dot3 (cubic_planes p) (cubic_burgers b)) else None.

(* ------------------------------------------------------------------ HCP *)
Definition gcd4 (v : V4) : Z := let '(a, b, c, d) := v in Z.gcd (Z.gcd (Z.gcd a b) c) d.
Definition reduce4 (v : V4) : V4 :=
  let g := gcd4 v in if g =? 0 then v else let '(a, b, c, d) := v in (a / g, b / g, c / g, d / g).
(* operator==(IPlane, IPlane) *)
Definition plane_same (u v : V4) : bool := dot4 u u * dot4 v v =? dot4 u v * dot4 u v.
(* Coincide(IBurgers, IBurgers) != 0 *)
Definition burgers_same (u v : V4) : bool :=
  if negb (dot4 u u =? 0) && negb (dot4 v v =? 0) then dot4 u u * dot4 v v =? dot4 u v * dot4 u v
  else dot4 u u =? dot4 v v.
(* "push if it is new" *)
Definition push_new {A : Type} (same : A -> A -> bool) (acc : list A) (x : A) : list A :=
  if existsb (same x) acc then acc else acc ++ [x].
Definition dedup {A : Type} (same : A -> A -> bool) (l : list A) : list A := fold_left (push_new same) l [].
(* arrangements of the three basal indices (sorted first), fourth index kept; [both] adds the opposite fourth index *)
Definition hcp_candidates (both : bool) (v : V4) : list V4 :=
  let '(a, b, c, d) := v in
  flat_map (fun q : V3 => let '(x, y, z) := q in
                          if both && negb (d =? 0) then [(x, y, z, d); (x, y, z, - d)] else [(x, y, z, d)])
           (perms3 (sort3 (a, b, c))).
(* HCP::GenerateEquivalentIBurgers: both signs of the c index *)
Definition hcp_burgers (b : V4) : list V4 := dedup burgers_same (hcp_candidates true b).
(* HCP::GenerateEquivalentPlanes.  [both = false] is the pinned code (the fourth index is never negated);
   [both = true] is the code with props/C56/fix_hcp_planes.diff applied (a second pass over the arrangements with
   the opposite fourth index, so that the planes found by the pinned code keep their rank and sign).  check.py
   determines which of the two the working tree corresponds to. *)
Definition hcp_plane_candidates (both : bool) (v : V4) : list V4 :=
  let '(a, b, c, d) := v in
  hcp_candidates false v ++ (if both && negb (d =? 0) then hcp_candidates false (a, b, c, - d) else []).
Definition hcp_planes (both : bool) (p : V4) : list V4 :=
  dedup plane_same (map reduce4 (hcp_plane_candidates both p)).
Definition hcp_systems (both : bool) (b p : V4) : option (list (V4 * V4)) :=
  if dot4 p b =? 0 then Some (select dot4 (hcp_planes both p) (hcp_burgers b)) else None.

(* ------------------------------------------------------------------ real-space geometry *)
Local Open Scope R_scope.
Definition rnorm (u : R3) : R := sqrt (rdot u u).
Definition normalize (u : R3) : R3 := let '(a, b, c) := u in (a / rnorm u, b / rnorm u, c / rnorm u).
(* Cubic: the three lattices are the identity *)
Definition cubic_vec (v : V3) : R3 := let '(a, b, c) := v in (IZR a, IZR b, IZR c).
Definition cubic_normal (p : V3) : R3 := normalize (cubic_vec p).
Definition cubic_direction (b : V3) : R3 := normalize (cubic_vec b).
(* HCP: _blattice = a1, a2, a3, c with |a_i| = 1, c = ratio;  _plattice = a_i / 6, 1 / (4 ratio) *)
Section HCPGeometry.
  Variable ratio : R.
  Definition hcp_burgers_vec (v : V4) : R3 :=
    let '(a, b, c, d) := v in
    (IZR a * (sqrt 3 / 2) + IZR b * (- sqrt 3 / 2), IZR a * (1 / 2) + IZR b * (1 / 2) + IZR c * (- 1), IZR d * ratio).
  Definition hcp_plane_vec (v : V4) : R3 :=
    let '(a, b, c, d) := v in
    (IZR a * (sqrt 3 / 12) + IZR b * (- sqrt 3 / 12), IZR a * (1 / 12) + IZR b * (1 / 12) + IZR c * (- 1 / 6),
     IZR d * (1 / (4 * ratio))).
  Definition hcp_normal (p : V4) : R3 := normalize (hcp_plane_vec p).
  Definition hcp_direction (b : V4) : R3 := normalize (hcp_burgers_vec b).
End HCPGeometry.
(* tfel::material::getOrientationTensor(n, m), in TFEL's component order *)
Definition orientation_tensor (n m : R3) : list R :=
  let '(n0, n1, n2) := n in let '(m0, m1, m2) := m in
  [n0 * m0; n1 * m1; n2 * m2; n1 * m0; n0 * m1; n2 * m0; n0 * m2; n2 * m1; n1 * m2].
(* getSchmidFactors: (d (x) d) : mu, nine products *)
Definition schmid_code (d : R3) (mu : list R) : R :=
  let '(d0, d1, d2) := d in
  let td := [d0 * d0; d1 * d1; d2 * d2; d0 * d1; d1 * d0; d0 * d2; d2 * d0; d1 * d2; d2 * d1] in
  fold_right Rplus 0 (map (fun xy => fst xy * snd xy) (combine td mu)).

(* C56 -- specification, written independently of the code.
   Integer (Miller / Miller-Bravais) index vectors, the cubic point group m-3m as the 48 signed permutations,
   the hexagonal point group 6/mmm acting on Miller-Bravais indices (24 elements), slip systems up to sign,
   and the real-space notions: unit vectors, orientation tensor, Schmid factor. *)
From Coq Require Import ZArith List Bool Reals Lia.
Import ListNotations.
Local Open Scope Z_scope.

(* ------------------------------------------------------------------ three indices *)
Definition V3 := (Z * Z * Z)%type.
Definition dot3 (u v : V3) : Z := let '(a, b, c) := u in let '(x, y, z) := v in a * x + b * y + c * z.
Definition neg3 (u : V3) : V3 := let '(a, b, c) := u in (- a, - b, - c).
Definition scale3 (g : Z) (u : V3) : V3 := let '(a, b, c) := u in (g * a, g * b, g * c).
Definition zero3 : V3 := (0, 0, 0).

(* the six permutations of the axes *)
Definition perm3 (k : nat) (u : V3) : V3 :=
  let '(a, b, c) := u in
  match k with
  | 0%nat => (a, b, c) | 1%nat => (a, c, b) | 2%nat => (b, a, c)
  | 3%nat => (b, c, a) | 4%nat => (c, a, b) | _ => (c, b, a)
  end.
(* the eight sign changes of the axes *)
Definition sg (s : bool) (x : Z) : Z := if s then - x else x.
Definition sgn3 (s : bool * bool * bool) (u : V3) : V3 :=
  let '(s0, s1, s2) := s in let '(a, b, c) := u in (sg s0 a, sg s1 b, sg s2 c).
Definition all_signs3 : list (bool * bool * bool) :=
  [(false, false, false); (false, false, true); (false, true, false); (false, true, true);
   (true, false, false); (true, false, true); (true, true, false); (true, true, true)].
(* cubic point group: 48 signed permutations, as (sign, permutation) codes *)
Definition cubic_codes : list ((bool * bool * bool) * nat) :=
  flat_map (fun s => map (fun k => (s, k)) [0; 1; 2; 3; 4; 5]%nat) all_signs3.
Definition cubic_act (g : (bool * bool * bool) * nat) (u : V3) : V3 := sgn3 (fst g) (perm3 (snd g) u).

(* equality up to sign *)
Definition eq_pm3 (u v : V3) : Prop := u = v \/ u = neg3 v.

(* ------------------------------------------------------------------ four indices (Miller-Bravais) *)
Definition V4 := (Z * Z * Z * Z)%type.
Definition dot4 (u v : V4) : Z :=
  let '(a, b, c, d) := u in let '(x, y, z, t) := v in a * x + b * y + c * z + d * t.
Definition neg4 (u : V4) : V4 := let '(a, b, c, d) := u in (- a, - b, - c, - d).
Definition scale4 (g : Z) (u : V4) : V4 := let '(a, b, c, d) := u in (g * a, g * b, g * c, g * d).
Definition mb_constraint (u : V4) : Prop := let '(a, b, c, _) := u in a + b + c = 0.
(* permutation k of the three basal indices, e1: two-fold rotation about c (i,j,k -> -i,-j,-k),
   e2: mirror normal to c (l -> -l).  6 x 2 x 2 = 24 elements (inversion is e1 = e2 = true). *)
Definition hex_act (g : nat * bool * bool) (u : V4) : V4 :=
  let '(k, e1, e2) := g in let '(a, b, c, d) := u in
  let '(x, y, z) := perm3 k (a, b, c) in (sg e1 x, sg e1 y, sg e1 z, sg e2 d).
Definition hex_codes : list (nat * bool * bool) :=
  flat_map (fun k => [(k, false, false); (k, false, true); (k, true, false); (k, true, true)]) [0; 1; 2; 3; 4; 5]%nat.
Definition eq_pm4 (u v : V4) : Prop := u = v \/ u = neg4 v.

(* ------------------------------------------------------------------ slip systems, generic in the index type *)
Section Systems.
  Variable V : Type.
  Variable dot : V -> V -> Z.
  Variable eq_pm : V -> V -> Prop.
  Definition system := (V * V)%type.           (* (Burgers vector, plane) *)
  Definition sys_eq (s t : system) : Prop := eq_pm (fst s) (fst t) /\ eq_pm (snd s) (snd t).
  (* every system keeps the Burgers vector in the plane *)
  Definition all_orthogonal (L : list system) : Prop := forall s, In s L -> dot (fst s) (snd s) = 0.
  (* no two entries (at different positions) are the same system up to the signs of b and n *)
  Definition dupfree_up_to_sign (L : list system) : Prop := ForallOrdPairs (fun s t => ~ sys_eq s t) L.
  (* closed under a set of symmetry operations, up to sign *)
  Definition closed_under {G : Type} (act : G -> V -> V) (codes : list G) (L : list system) : Prop :=
    forall s g, In s L -> In g codes -> exists t, In t L /\ sys_eq t (act g (fst s), act g (snd s)).
  (* every member is made of a Burgers vector equivalent to b0 and a plane equivalent to p0 *)
  Definition members_equivalent {G : Type} (act : G -> V -> V) (codes : list G) (b0 p0 : V) (L : list system) : Prop :=
    forall s, In s L -> (exists g, In g codes /\ fst s = act g b0) /\ (exists g, In g codes /\ snd s = act g p0).
  Definition contains (L : list system) (s : system) : Prop := exists t, In t L /\ sys_eq t s.
End Systems.
Arguments sys_eq {V}. Arguments all_orthogonal {V}. Arguments dupfree_up_to_sign {V}.
Arguments closed_under {V} eq_pm {G}. Arguments members_equivalent {V G}. Arguments contains {V}.

(* ------------------------------------------------------------------ real space *)
Local Open Scope R_scope.
Definition R3 := (R * R * R)%type.
Definition rdot (u v : R3) : R := let '(a, b, c) := u in let '(x, y, z) := v in a * x + b * y + c * z.
Definition is_unit (u : R3) : Prop := rdot u u = 1.
(* orientation tensor mu = m (x) n, rows = components of m, columns = components of n *)
Definition dyad (m n : R3) (i j : nat) : R :=
  let c (u : R3) (k : nat) := let '(a, b, d) := u in match k with 0%nat => a | 1%nat => b | _ => d end in
  c m i * c n j.
Definition sym_part (t : nat -> nat -> R) (i j : nat) : R := (t i j + t j i) / 2.
Definition contract (s t : nat -> nat -> R) : R :=
  let idx := [0; 1; 2]%nat in
  fold_right Rplus 0 (flat_map (fun i => map (fun j => s i j * t i j) idx) idx).
(* Schmid factor of the system (m, n) for a uniaxial loading along the unit direction d *)
Definition schmid (d m n : R3) : R := rdot d m * rdot d n.
(* TFEL's storage order of an unsymmetric tensor: XX YY ZZ XY YX XZ ZX YZ ZY *)
Definition tfel_tensor_order : list (nat * nat) :=
  [(0, 0); (1, 1); (2, 2); (0, 1); (1, 0); (0, 2); (2, 0); (1, 2); (2, 1)]%nat.

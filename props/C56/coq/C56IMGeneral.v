(* C56 -- interaction-matrix structure: what holds for EVERY list of slip systems (any index type, any set of index
   operations whose operation 0 is the identity), proved about the model of numodis::Hardening of C56IMModel.v. *)
From Coq Require Import ZArith List Bool Arith Lia.
From C56 Require Import C56Spec C56IMModel.
Import ListNotations.

Section General.
  Variable V : Type.
  Variable dot : V -> V -> Z.
  Variable nsym : nat.
  Variable sym : nat -> V -> V.
  Hypothesis nsym_pos : (0 < nsym)%nat.
  Hypothesis sym0 : forall v, sym 0 v = v.
  Notation gpair := (gpair V).
  Notation same := (gpair_same V dot).
  Notation psym := (gpair_sym V sym).
  Notation matchi := (match_interaction V dot nsym sym).
  Notation ranki := (rank_interaction V dot nsym sym).
  Notation step := (store_step V dot nsym sym).

  (* ---------------------------------------------------------------- list helpers *)
  Lemma find_index_some : forall (A : Type) (f : A -> bool) l i j, find_index f l i = Some j ->
    (i <= j)%nat /\ exists r, nth_error l (j - i) = Some r /\ f r = true.
  Proof.
    intros A f l. induction l as [|a l IH]; intros i j H; cbn in H; [discriminate|].
    destruct (f a) eqn:E.
    - inversion H; subst. split; [lia|]. exists a. rewrite Nat.sub_diag. auto.
    - apply IH in H. destruct H as [Hle [r [Hn Hf]]]. split; [lia|]. exists r. split; [|exact Hf].
      replace (j - i)%nat with (S (j - S i)) by lia. exact Hn.
  Qed.
  Lemma find_index_none : forall (A : Type) (f : A -> bool) l i, find_index f l i = None <-> (forall a, In a l -> f a = false).
  Proof.
    intros A f l. induction l as [|a l IH]; intros i; cbn.
    - split; [intros _ a []|reflexivity].
    - destruct (f a) eqn:E.
      + split; [discriminate|]. intros H. rewrite (H a (or_introl eq_refl)) in E. discriminate.
      + rewrite IH. split; [intros H b [<-|Hb]; auto|intros H b Hb; apply H; auto].
  Qed.
  Lemma find_index_app : forall (A : Type) (f : A -> bool) l l' i j, find_index f l i = Some j -> find_index f (l ++ l') i = Some j.
  Proof.
    intros A f l l'. induction l as [|a l IH]; intros i j H; cbn in *; [discriminate|]. destruct (f a); [exact H|apply IH; exact H].
  Qed.
  Lemma find_index_app_none : forall (A : Type) (f : A -> bool) l l' i, find_index f l i = None ->
    find_index f (l ++ l') i = find_index f l' (i + length l).
  Proof.
    intros A f l l'. induction l as [|a l IH]; intros i H; cbn in *; [rewrite Nat.add_0_r; reflexivity|].
    destruct (f a); [discriminate|]. rewrite IH by exact H. f_equal. lia.
  Qed.
  Lemma first_some_some : forall (A : Type) (l : list (option A)) a, first_some l = Some a -> In (Some a) l.
  Proof.
    intros A l. induction l as [|[b|] l IH]; intros a H; cbn in *; [discriminate| |right; apply IH; exact H].
    inversion H; subst. left; reflexivity.
  Qed.
  Lemma first_some_none : forall (A : Type) (l : list (option A)), first_some l = None <-> (forall o, In o l -> o = None).
  Proof.
    intros A l. induction l as [|[b|] l IH]; cbn.
    - split; [intros _ o []|reflexivity].
    - split; [discriminate|]. intros H. specialize (H (Some b) (or_introl eq_refl)). discriminate.
    - rewrite IH. split; [intros H o [<-|Ho]; auto|intros H o Ho; apply H; auto].
  Qed.

  (* ---------------------------------------------------------------- the comparison of the code is reflexive *)
  Lemma iplane_same_refl : forall v, iplane_same V dot v v = true.
  Proof. intros v. unfold iplane_same. apply Z.eqb_refl. Qed.
  Lemma iburgers_same_refl : forall v, iburgers_same V dot v v = true.
  Proof. intros v. unfold iburgers_same. destruct (negb (dot v v =? 0)%Z && negb (dot v v =? 0)%Z); apply Z.eqb_refl. Qed.
  Lemma same_refl : forall x : gpair, same x x = true.
  Proof.
    intros [[b1 p1] [b2 p2]]. unfold gpair_same, gsys_same. cbn [fst snd].
    rewrite !iplane_same_refl, !iburgers_same_refl. reflexivity.
  Qed.
  Lemma psym0 : forall x : gpair, psym 0%nat x = x.
  Proof. intros [[b1 p1] [b2 p2]]. unfold gpair_sym, gsys_sym. cbn [fst snd]. rewrite !sym0. reflexivity. Qed.

  (* the relation the code tests: some operation maps x onto something "equal" to y *)
  Definition E (x y : gpair) : Prop := exists k, (k < nsym)%nat /\ same (psym k x) y = true.
  Lemma E_refl : forall x, E x x.
  Proof. intros x. exists 0%nat. split; [exact nsym_pos|]. rewrite psym0. apply same_refl. Qed.

  (* ---------------------------------------------------------------- getRankInteraction *)
  Lemma match_some : forall st x i, matchi st x = Some i -> exists r, nth_error st i = Some r /\ E x r.
  Proof.
    intros st x i H. unfold match_interaction in H. apply first_some_some in H. apply in_map_iff in H.
    destruct H as [k [Hk Hin]]. apply in_seq in Hin. apply find_index_some in Hk. destruct Hk as [_ [r [Hn Hf]]].
    rewrite Nat.sub_0_r in Hn. exists r. split; [exact Hn|]. exists k. split; [lia|exact Hf].
  Qed.
  Lemma match_none : forall st x, matchi st x = None -> forall r, In r st -> ~ E x r.
  Proof.
    intros st x H r Hr [k [Hk Hs]]. unfold match_interaction in H. rewrite first_some_none in H.
    assert (Hn : find_index (same (psym k x)) st 0 = None).
    { apply H. apply in_map_iff. exists k. split; [reflexivity|]. apply in_seq. lia. }
    rewrite find_index_none in Hn. rewrite (Hn r Hr) in Hs. discriminate.
  Qed.
  (* operation 0 (the identity) is tried first *)
  Lemma match_k0 : forall st x j, find_index (same x) st 0 = Some j -> matchi st x = Some j.
  Proof.
    intros st x j H. unfold match_interaction. destruct nsym as [|n] eqn:En; [lia|].
    cbn [seq map]. rewrite psym0, H. reflexivity.
  Qed.
  Lemma match_none_k0 : forall st x, matchi st x = None -> find_index (same x) st 0 = None.
  Proof.
    intros st x H. destruct (find_index (same x) st 0) as [j|] eqn:F; [|reflexivity]. rewrite (match_k0 _ _ _ F) in H. discriminate.
  Qed.
  Lemma match_app : forall st l x, matchi st x <> None -> matchi (st ++ l) x <> None.
  Proof.
    intros st l x H. destruct (matchi st x) as [i|] eqn:M; [|congruence]. clear H.
    unfold match_interaction in M. apply first_some_some in M. apply in_map_iff in M. destruct M as [k [Hk Hin]].
    intros N. unfold match_interaction in N. rewrite first_some_none in N.
    assert (Hn : find_index (same (psym k x)) (st ++ l) 0 = None).
    { apply N. apply in_map_iff. exists k. split; [reflexivity|exact Hin]. }
    rewrite (find_index_app _ _ _ l _ _ Hk) in Hn. discriminate.
  Qed.
  Lemma rank_of_match : forall st x, matchi st x <> None ->
    (ranki st x < length st)%nat /\ exists r, nth_error st (ranki st x) = Some r /\ E x r.
  Proof.
    intros st x H. unfold rank_interaction. destruct (matchi st x) as [i|] eqn:M; [|congruence].
    destruct (match_some _ _ _ M) as [r [Hn He]]. split; [|exists r; auto].
    apply nth_error_Some. congruence.
  Qed.

  (* ---------------------------------------------------------------- the constructor *)
  Lemma step_cases : forall st x, (matchi st x = None /\ step st x = st ++ [x]) \/ (matchi st x <> None /\ step st x = st).
  Proof.
    intros st x. unfold store_step. destruct (matchi st x) as [i|] eqn:M.
    - right. split; [congruence|]. unfold rank_interaction. rewrite M.
      destruct (match_some _ _ _ M) as [r [Hn _]]. assert (i < length st)%nat by (apply nth_error_Some; congruence).
      destruct (Nat.eqb_spec i (length st)); [lia|reflexivity].
    - left. split; [reflexivity|]. unfold rank_interaction. rewrite M. rewrite Nat.eqb_refl. reflexivity.
  Qed.
  Lemma step_ext : forall st x, exists l, step st x = st ++ l.
  Proof. intros st x. destruct (step_cases st x) as [[_ H]|[_ H]]; rewrite H; [exists [x]|exists []; rewrite app_nil_r]; reflexivity. Qed.
  Lemma fold_ext : forall ys st, exists l, fold_left step ys st = st ++ l.
  Proof.
    induction ys as [|y ys IH]; intros st; cbn; [exists []; rewrite app_nil_r; reflexivity|].
    destruct (step_ext st y) as [l Hl]. rewrite Hl. destruct (IH (st ++ l)) as [l' Hl']. rewrite Hl'. exists (l ++ l'). rewrite app_assoc. reflexivity.
  Qed.
  Lemma step_matched : forall st x, matchi (step st x) x <> None.
  Proof.
    intros st x. destruct (step_cases st x) as [[Hm H]|[Hm H]]; rewrite H; [|exact Hm].
    assert (F : find_index (same x) (st ++ [x]) 0 <> None).
    { intros N. rewrite find_index_none in N. specialize (N x). rewrite same_refl in N. discriminate N. apply in_or_app. right. left. reflexivity. }
    destruct (find_index (same x) (st ++ [x]) 0) as [j|] eqn:F'; [|congruence]. rewrite (match_k0 _ _ _ F'). discriminate.
  Qed.
  Lemma fold_matched : forall ys st x, (matchi st x <> None \/ In x ys) -> matchi (fold_left step ys st) x <> None.
  Proof.
    induction ys as [|y ys IH]; intros st x H; cbn.
    - destruct H as [H|[]]. exact H.
    - apply IH. destruct H as [H|[<-|H]].
      + left. destruct (step_ext st y) as [l Hl]. rewrite Hl. apply match_app. exact H.
      + left. apply step_matched.
      + right. exact H.
  Qed.
  Lemma fold_incl : forall (P : list gpair) ys st, incl st P -> incl ys P -> incl (fold_left step ys st) P.
  Proof.
    intros P. induction ys as [|y ys IH]; intros st Hs Hy; cbn; [exact Hs|]. apply IH.
    - destruct (step_cases st y) as [[_ H]|[_ H]]; rewrite H; [|exact Hs].
      apply incl_app; [exact Hs|]. intros z [<-|[]]. apply Hy. left. reflexivity.
    - intros z Hz. apply Hy. right. exact Hz.
  Qed.
  (* a stored interaction is not "equal" to an earlier one: it keeps its own index *)
  Definition own_index (st : list gpair) : Prop := forall i r, nth_error st i = Some r -> find_index (same r) st 0 = Some i.
  Lemma step_own : forall st x, own_index st -> own_index (step st x).
  Proof.
    intros st x Inv. destruct (step_cases st x) as [[Hm H]|[_ H]]; rewrite H; [|exact Inv].
    intros i r Hn. destruct (Nat.lt_ge_cases i (length st)) as [Hlt|Hge].
    - rewrite nth_error_app1 in Hn by exact Hlt. apply find_index_app. apply Inv. exact Hn.
    - rewrite nth_error_app2 in Hn by exact Hge. destruct (i - length st)%nat as [|m] eqn:Ei.
      + cbn in Hn. inversion Hn; subst r. rewrite find_index_app_none by (apply match_none_k0; exact Hm).
        cbn. rewrite same_refl. f_equal. lia.
      + cbn in Hn. destruct m; discriminate.
  Qed.
  Lemma fold_own : forall ys st, own_index st -> own_index (fold_left step ys st).
  Proof. induction ys as [|y ys IH]; intros st H; cbn; [exact H|]. apply IH. apply step_own. exact H. Qed.

  (* ---------------------------------------------------------------- theorems about interactions / rank_of *)
  Notation inter := (interactions V dot nsym sym).
  Notation rank_of := (rank_of V dot nsym sym).
  Notation all_pairs := (all_pairs V).

  (* every ordered pair of systems of the list gets a rank below the number of coefficients, and the stored interaction
     of that rank is the image of the pair under one of the index operations, for the comparison of the code *)
  Theorem rank_in_range : forall L x, In x (all_pairs L) ->
    (rank_of L x < n_interactions V dot nsym sym L)%nat /\ exists r, nth_error (inter L) (rank_of L x) = Some r /\ E x r.
  Proof.
    intros L x Hx. unfold rank_of, n_interactions, interactions. apply rank_of_match. apply fold_matched. right. exact Hx.
  Qed.
  (* the stored interactions are pairs of systems of the list *)
  Theorem interactions_incl : forall L, incl (inter L) (all_pairs L).
  Proof. intros L. unfold interactions. apply fold_incl; [intros z []|apply incl_refl]. Qed.
  (* every rank below the number of coefficients is used: the i-th stored interaction has rank i *)
  Theorem rank_of_stored : forall L i r, nth_error (inter L) i = Some r -> rank_of L r = i /\ In r (all_pairs L).
  Proof.
    intros L i r Hn. split; [|apply (interactions_incl L); eapply nth_error_In; exact Hn].
    assert (Inv : own_index (inter L)). { unfold interactions. apply fold_own. intros j s Hs. destruct j; discriminate. }
    unfold rank_of, rank_interaction. rewrite (match_k0 _ _ _ (Inv i r Hn)). reflexivity.
  Qed.
  (* the pair (first system, first system) has rank 0 *)
  Theorem rank_first : forall g L, rank_of (g :: L) (g, g) = 0%nat.
  Proof.
    intros g L. unfold rank_of, interactions, all_pairs. cbn [list_prod map app fold_left].
    assert (S0 : step [] (g, g) = [(g, g)]).
    { destruct (step_cases [] (g, g)) as [[_ H]|[Hm _]]; [exact H|]. exfalso. apply Hm. unfold match_interaction.
      apply first_some_none. intros o Ho. apply in_map_iff in Ho. destruct Ho as [k [<- _]]. reflexivity. }
    rewrite S0. destruct (fold_ext (map (fun y => (g, y)) L ++ list_prod L (g :: L)) [(g, g)]) as [l Hl]. rewrite Hl.
    unfold rank_interaction. rewrite (match_k0 _ (g, g) 0%nat); [reflexivity|]. cbn. rewrite same_refl. reflexivity.
  Qed.

  (* ---------------------------------------------------------------- when the tested relation is an equivalence on the
     pairs of the list, the classes of equal rank are exactly its classes *)
  Section Equivalence.
    Variable L : list (gsys V).
    Hypothesis E_sym : forall x y, In x (all_pairs L) -> In y (all_pairs L) -> E x y -> E y x.
    Hypothesis E_trans : forall x y z, In x (all_pairs L) -> In y (all_pairs L) -> In z (all_pairs L) -> E x y -> E y z -> E x z.
    Definition separated (st : list gpair) : Prop :=
      forall i j ri rj, nth_error st i = Some ri -> nth_error st j = Some rj -> E ri rj -> i = j.
    Lemma step_separated : forall st x, incl st (all_pairs L) -> In x (all_pairs L) -> separated st -> separated (step st x).
    Proof.
      intros st x Hst Hx Inv. destruct (step_cases st x) as [[Hm H]|[_ H]]; rewrite H; [|exact Inv].
      assert (Hno : forall r, In r st -> ~ E x r) by (apply match_none; exact Hm).
      assert (Hlast : forall i r, nth_error (st ++ [x]) i = Some r -> (i < length st /\ nth_error st i = Some r) \/ (i = length st /\ r = x)).
      { intros i r Hn. destruct (Nat.lt_ge_cases i (length st)) as [Hlt|Hge].
        - left. rewrite nth_error_app1 in Hn by exact Hlt. auto.
        - right. rewrite nth_error_app2 in Hn by exact Hge. destruct (i - length st)%nat as [|m] eqn:Ei; cbn in Hn.
          + inversion Hn. split; [lia|reflexivity].
          + destruct m; discriminate. }
      intros i j ri rj Hi Hj He.
      destruct (Hlast _ _ Hi) as [[Hli Hi']|[-> ->]]; destruct (Hlast _ _ Hj) as [[Hlj Hj']|[-> ->]].
      - exact (Inv _ _ _ _ Hi' Hj' He).
      - exfalso. apply (Hno ri); [eapply nth_error_In; exact Hi'|]. apply E_sym; [apply Hst; eapply nth_error_In; exact Hi'|exact Hx|exact He].
      - exfalso. apply (Hno rj); [eapply nth_error_In; exact Hj'|exact He].
      - reflexivity.
    Qed.
    Lemma fold_separated : forall ys st, incl st (all_pairs L) -> incl ys (all_pairs L) -> separated st -> separated (fold_left step ys st).
    Proof.
      induction ys as [|y ys IH]; intros st Hs Hy Inv; cbn; [exact Inv|]. apply IH.
      - destruct (step_cases st y) as [[_ H]|[_ H]]; rewrite H; [|exact Hs].
        apply incl_app; [exact Hs|]. intros z [<-|[]]. apply Hy. left. reflexivity.
      - intros z Hz. apply Hy. right. exact Hz.
      - apply step_separated; [exact Hs|apply Hy; left; reflexivity|exact Inv].
    Qed.
    Theorem classes_are_E_classes : forall x y, In x (all_pairs L) -> In y (all_pairs L) -> (rank_of L x = rank_of L y <-> E x y).
    Proof.
      intros x y Hx Hy.
      destruct (rank_in_range L x Hx) as [_ [rx [Hnx Ex]]]. destruct (rank_in_range L y Hy) as [_ [ry [Hny Ey]]].
      assert (Hrx : In rx (all_pairs L)) by (apply (interactions_incl L); eapply nth_error_In; exact Hnx).
      assert (Hry : In ry (all_pairs L)) by (apply (interactions_incl L); eapply nth_error_In; exact Hny).
      split.
      - intros Heq. rewrite Heq in Hnx. rewrite Hnx in Hny. inversion Hny; subst ry.
        apply (E_trans x rx y Hx Hrx Hy Ex). apply E_sym; [exact Hy|exact Hrx|exact Ey].
      - intros He.
        assert (Sep : separated (inter L)).
        { unfold interactions. apply fold_separated; [intros z []|apply incl_refl|]. intros i j ri rj Hi. destruct i; discriminate. }
        apply (Sep _ _ rx ry Hnx Hny).
        apply (E_trans rx x ry Hrx Hx Hry); [apply E_sym; [exact Hx|exact Hrx|exact Ex]|].
        apply (E_trans x y ry Hx Hy Hry He Ey).
    Qed.
  End Equivalence.
End General.

(* ------------------------------------------------------------------ the two instances of the code *)
Lemma cubic_sym0 : forall v, cubic_sym 0 v = v.
Proof. intros [[a b] c]. reflexivity. Qed.
Lemma hcp_sym0 : forall v, hcp_sym 0 v = v.
Proof. intros [[[a b] c] d]. reflexivity. Qed.
Lemma cubic_nsym_pos : (0 < cubic_nsym)%nat. Proof. unfold cubic_nsym. lia. Qed.
Lemma hcp_nsym_pos : (0 < hcp_nsym)%nat. Proof. unfold hcp_nsym. lia. Qed.
(* the relation tested by the code: one of the 48 (96) index operations maps the pair x onto a pair "equal" to y for
   operator==(GSystem, GSystem), i.e. same plane direction and same Burgers direction up to sign and scale *)
Definition cubic_E : gpair V3 -> gpair V3 -> Prop := E V3 dot3 cubic_nsym cubic_sym.
Definition hcp_E : gpair V4 -> gpair V4 -> Prop := E V4 dot4 hcp_nsym hcp_sym.
Definition cubic_stored := interactions V3 dot3 cubic_nsym cubic_sym.
Definition hcp_stored := interactions V4 dot4 hcp_nsym hcp_sym.
Definition cubic_rk (L : list (V3 * V3)) := rank_of V3 dot3 cubic_nsym cubic_sym L.
Definition hcp_rk (L : list (V4 * V4)) := rank_of V4 dot4 hcp_nsym hcp_sym L.

Definition partition_statement {V : Type} (pairs : list (V * V) -> list (gpair V)) (rk : list (V * V) -> gpair V -> nat)
  (ncoef : list (V * V) -> nat) (stored : list (V * V) -> list (gpair V)) (Erel : gpair V -> gpair V -> Prop) : Prop :=
  forall L x, In x (pairs L) -> (rk L x < ncoef L)%nat /\ exists r, nth_error (stored L) (rk L x) = Some r /\ Erel x r.
Definition all_used_statement {V : Type} (pairs : list (V * V) -> list (gpair V)) (rk : list (V * V) -> gpair V -> nat)
  (ncoef : list (V * V) -> nat) : Prop :=
  forall L i, (i < ncoef L)%nat -> exists x, In x (pairs L) /\ rk L x = i.
Definition first_statement {V : Type} (rk : list (V * V) -> gpair V -> nat) : Prop :=
  forall g L, rk (g :: L) (g, g) = 0%nat.
Definition equivalence_statement {V : Type} (pairs : list (V * V) -> list (gpair V)) (rk : list (V * V) -> gpair V -> nat)
  (Erel : gpair V -> gpair V -> Prop) : Prop :=
  forall L, (forall x y, In x (pairs L) -> In y (pairs L) -> Erel x y -> Erel y x) ->
            (forall x y z, In x (pairs L) -> In y (pairs L) -> In z (pairs L) -> Erel x y -> Erel y z -> Erel x z) ->
            forall x y, In x (pairs L) -> In y (pairs L) -> (rk L x = rk L y <-> Erel x y).

Lemma cubic_partition : partition_statement (all_pairs V3) cubic_rk cubic_n_interactions cubic_stored cubic_E.
Proof. intros L x Hx. exact (rank_in_range V3 dot3 cubic_nsym cubic_sym cubic_nsym_pos cubic_sym0 L x Hx). Qed.
Lemma hcp_partition : partition_statement (all_pairs V4) hcp_rk hcp_n_interactions hcp_stored hcp_E.
Proof. intros L x Hx. exact (rank_in_range V4 dot4 hcp_nsym hcp_sym hcp_nsym_pos hcp_sym0 L x Hx). Qed.
Lemma cubic_all_used : all_used_statement (all_pairs V3) cubic_rk cubic_n_interactions.
Proof.
  intros L i Hi. unfold cubic_n_interactions, n_interactions in Hi. apply nth_error_Some in Hi.
  destruct (nth_error (interactions V3 dot3 cubic_nsym cubic_sym L) i) as [r|] eqn:Hn; [|congruence].
  destruct (rank_of_stored V3 dot3 cubic_nsym cubic_sym cubic_nsym_pos cubic_sym0 L i r Hn) as [A B]. exists r. auto.
Qed.
Lemma hcp_all_used : all_used_statement (all_pairs V4) hcp_rk hcp_n_interactions.
Proof.
  intros L i Hi. unfold hcp_n_interactions, n_interactions in Hi. apply nth_error_Some in Hi.
  destruct (nth_error (interactions V4 dot4 hcp_nsym hcp_sym L) i) as [r|] eqn:Hn; [|congruence].
  destruct (rank_of_stored V4 dot4 hcp_nsym hcp_sym hcp_nsym_pos hcp_sym0 L i r Hn) as [A B]. exists r. auto.
Qed.
Lemma cubic_first : first_statement cubic_rk.
Proof. intros g L. exact (rank_first V3 dot3 cubic_nsym cubic_sym cubic_nsym_pos cubic_sym0 g L). Qed.
Lemma hcp_first : first_statement hcp_rk.
Proof. intros g L. exact (rank_first V4 dot4 hcp_nsym hcp_sym hcp_nsym_pos hcp_sym0 g L). Qed.
Lemma cubic_equivalence : equivalence_statement (all_pairs V3) cubic_rk cubic_E.
Proof. intros L Hs Ht x y Hx Hy. exact (classes_are_E_classes V3 dot3 cubic_nsym cubic_sym cubic_nsym_pos cubic_sym0 L Hs Ht x y Hx Hy). Qed.
Lemma hcp_equivalence : equivalence_statement (all_pairs V4) hcp_rk hcp_E.
Proof. intros L Hs Ht x y Hx Hy. exact (classes_are_E_classes V4 dot4 hcp_nsym hcp_sym hcp_nsym_pos hcp_sym0 L Hs Ht x y Hx Hy). Qed.

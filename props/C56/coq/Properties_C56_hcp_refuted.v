(* C56 -- used while the working tree's HCP plane generator never negates the fourth index (pinned code):
   closure under the hexagonal group is FALSE; witness <1,1,-2,-3>{1,1,-2,2} and the mirror l -> -l. *)
From Coq Require Import ZArith List.
From C56 Require Import C56Spec C56Model C56Proofs.

Theorem C56_hcp_closed_refuted :
  exists (b0 p0 : V4) (L : list (V4 * V4)),
    mb_constraint b0 /\ mb_constraint p0 /\ hcp_systems false b0 p0 = Some L /\
    ~ closed_under eq_pm4 hex_act hex_codes L.
Proof. exact hcp_closed_refuted. Qed.
Print Assumptions C56_hcp_closed_refuted.

(* C56 -- lemmas about the real-space geometry: unit vectors, orthogonality, Schmid factor, orientation tensor. *)
From Coq Require Import ZArith List Bool Reals Lra Lia Psatz.
From VLib Require Import RealExtra.
From C56 Require Import C56Spec C56Model C56Proofs.
Import ListNotations.
Local Open Scope R_scope.

Ltac r3 v := let a := fresh "x" in let b := fresh "y" in let c := fresh "z" in destruct v as [[a b] c].

Lemma rdot_nonneg u : 0 <= rdot u u.
Proof. r3 u; simpl. nra. Qed.
Lemma normalize_unit u : rdot u u <> 0 -> is_unit (normalize u).
Proof.
  intros H. pose proof (rdot_nonneg u) as Hp. assert (Hpos : 0 < rdot u u) by lra.
  assert (Hs : sqrt (rdot u u) * sqrt (rdot u u) = rdot u u) by (apply sqrt_sqrt; lra).
  assert (Hn : sqrt (rdot u u) <> 0) by (intros E; rewrite E in Hs; lra).
  unfold is_unit, normalize, rnorm. r3 u. set (r := sqrt (rdot (x, y, z) (x, y, z))) in *.
  simpl in *. replace (x / r * (x / r) + y / r * (y / r) + z / r * (z / r)) with ((x * x + y * y + z * z) / (r * r)) by (field; auto).
  rewrite Hs. field. lra.
Qed.
Lemma normalize_orth u v : rdot u v = 0 -> rdot (normalize u) (normalize v) = 0.
Proof.
  unfold normalize. r3 u; r3 v. set (r := rnorm (x, y, z)). set (r' := rnorm (x0, y0, z0)). simpl. intros H.
  replace (x / r * (x0 / r') + y / r * (y0 / r') + z / r * (z0 / r')) with ((x * x0 + y * y0 + z * z0) * (/ r * / r')) by (unfold Rdiv; ring).
  rewrite H. ring.
Qed.

Lemma cubic_vec_dot u v : rdot (cubic_vec u) (cubic_vec v) = IZR (dot3 u v).
Proof. d3 u; d3 v; simpl. rewrite !plus_IZR, !mult_IZR. reflexivity. Qed.
Lemma cubic_vec_nonzero v : v <> zero3 -> rdot (cubic_vec v) (cubic_vec v) <> 0.
Proof.
  intros Hv H. rewrite cubic_vec_dot in H. apply eq_IZR_R0 in H. apply Hv.
  d3 v; simpl in H. unfold zero3. assert (a = 0 /\ b = 0 /\ c = 0)%Z as (-> & -> & ->) by nia. reflexivity.
Qed.
Lemma cubic_geometry b p :
  dot3 b p = 0%Z -> b <> zero3 -> p <> zero3 ->
  is_unit (cubic_direction b) /\ is_unit (cubic_normal p) /\ rdot (cubic_direction b) (cubic_normal p) = 0.
Proof.
  intros H Hb Hp. repeat split.
  - apply normalize_unit, cubic_vec_nonzero, Hb.
  - apply normalize_unit, cubic_vec_nonzero, Hp.
  - apply normalize_orth. rewrite cubic_vec_dot, H. reflexivity.
Qed.

Section HCP.
  Variable ratio : R.
  Hypothesis ratio_nz : ratio <> 0.
  Lemma mb_IZR v : mb_constraint v -> let '(a, b, c, _) := v in IZR c = - IZR a - IZR b.
  Proof. d4 v. simpl. intros H. assert (c = - a - b)%Z as -> by lia. rewrite !minus_IZR, opp_IZR. ring. Qed.
  Lemma hcp_vec_dot b p :
    mb_constraint b \/ mb_constraint p ->
    rdot (hcp_burgers_vec ratio b) (hcp_plane_vec ratio p) = IZR (dot4 b p) / 4.
  Proof.
    intros H. d4 b; d4 p. simpl. rewrite !plus_IZR, !mult_IZR.
    destruct H as [H|H]; apply mb_IZR in H; rewrite H; field_simplify_eq; auto; ring [sqrt3_sq].
  Qed.
  Lemma hcp_burgers_vec_norm v : mb_constraint v -> let '(a, b, _, d) := v in
    rdot (hcp_burgers_vec ratio v) (hcp_burgers_vec ratio v)
    = 3 / 4 * (IZR a - IZR b) * (IZR a - IZR b) + 9 / 4 * (IZR a + IZR b) * (IZR a + IZR b) + IZR d * ratio * (IZR d * ratio).
  Proof. intros H. apply mb_IZR in H. d4 v. simpl. rewrite H. field_simplify_eq. ring [sqrt3_sq]. Qed.
  Lemma hcp_plane_vec_norm v : mb_constraint v -> let '(a, b, _, d) := v in
    rdot (hcp_plane_vec ratio v) (hcp_plane_vec ratio v)
    = 3 / 144 * (IZR a - IZR b) * (IZR a - IZR b) + 9 / 144 * (IZR a + IZR b) * (IZR a + IZR b)
      + IZR d / (4 * ratio) * (IZR d / (4 * ratio)).
  Proof. intros H. apply mb_IZR in H. d4 v. simpl. rewrite H. field_simplify_eq; auto. ring [sqrt3_sq]. Qed.
  Lemma sq3_zero x y z : 0 <= x -> 0 <= y -> 0 <= z -> x + y + z = 0 -> x = 0 /\ y = 0 /\ z = 0.
  Proof. intros; lra. Qed.
  Lemma mb_zero (a b c d : Z) : (a + b + c = 0)%Z -> IZR a - IZR b = 0 -> IZR a + IZR b = 0 -> IZR d = 0 -> (a, b, c, d) = (0, 0, 0, 0)%Z.
  Proof.
    intros Hc H1 H2 H3. assert (Ha : IZR a = 0) by lra. assert (Hb : IZR b = 0) by lra.
    apply eq_IZR_R0 in Ha, Hb, H3. subst. f_equal. f_equal. lia.
  Qed.
  Lemma hcp_burgers_vec_nonzero v : mb_constraint v -> v <> (0, 0, 0, 0)%Z ->
    rdot (hcp_burgers_vec ratio v) (hcp_burgers_vec ratio v) <> 0.
  Proof.
    intros Hc Hv H. pose proof (hcp_burgers_vec_norm v Hc) as N. d4 v. rewrite N in H. clear N.
    apply sq3_zero in H as (H1 & H2 & H3); try nra.
    apply Hv. apply mb_zero; auto; try nra.
    assert (IZR d * ratio = 0) by nra. apply Rmult_integral in H as [H|H]; tauto.
  Qed.
  Lemma hcp_plane_vec_nonzero v : mb_constraint v -> v <> (0, 0, 0, 0)%Z ->
    rdot (hcp_plane_vec ratio v) (hcp_plane_vec ratio v) <> 0.
  Proof.
    intros Hc Hv H. pose proof (hcp_plane_vec_norm v Hc) as N. d4 v. rewrite N in H. clear N.
    apply sq3_zero in H as (H1 & H2 & H3); try nra.
    apply Hv. apply mb_zero; auto; try nra.
    assert (E : IZR d / (4 * ratio) = 0) by nra. unfold Rdiv in E. apply Rmult_integral in E as [E|E]; auto.
    exfalso. assert (Hr : 4 * ratio <> 0) by nra. exact (Rinv_neq_0_compat _ Hr E).
  Qed.
  Lemma hcp_geometry b p :
    dot4 b p = 0%Z -> mb_constraint b -> mb_constraint p -> b <> (0, 0, 0, 0)%Z -> p <> (0, 0, 0, 0)%Z ->
    is_unit (hcp_direction ratio b) /\ is_unit (hcp_normal ratio p) /\
    rdot (hcp_direction ratio b) (hcp_normal ratio p) = 0.
  Proof.
    intros H Cb Cp Hb Hp. repeat split.
    - apply normalize_unit. now apply hcp_burgers_vec_nonzero.
    - apply normalize_unit. now apply hcp_plane_vec_nonzero.
    - apply normalize_orth. rewrite hcp_vec_dot by auto. rewrite H. unfold Rdiv. ring.
  Qed.
End HCP.

(* ------------------------------------------------------------------ Schmid factor, orientation tensor *)
Lemma sum3sq a b c : 0 <= a * a + b * b + c * c.
Proof. nra. Qed.
Lemma schmid_bound d m n :
  is_unit d -> is_unit m -> is_unit n -> rdot m n = 0 -> - (1 / 2) <= schmid d m n <= 1 / 2.
Proof.
  unfold is_unit, schmid. r3 d; r3 m; r3 n. simpl. intros Hd Hm Hn Ho.
  set (p := x * x0 + y * y0 + z * z0). set (q := x * x1 + y * y1 + z * z1).
  (* Bessel: |d - p m - q n|^2 >= 0 *)
  assert (B : 0 <= (x - p * x0 - q * x1) * (x - p * x0 - q * x1) + (y - p * y0 - q * y1) * (y - p * y0 - q * y1)
                   + (z - p * z0 - q * z1) * (z - p * z0 - q * z1)) by apply sum3sq.
  assert (E : (x - p * x0 - q * x1) * (x - p * x0 - q * x1) + (y - p * y0 - q * y1) * (y - p * y0 - q * y1)
              + (z - p * z0 - q * z1) * (z - p * z0 - q * z1)
              = (x * x + y * y + z * z) - 2 * p * p - 2 * q * q + p * p * (x0 * x0 + y0 * y0 + z0 * z0)
                + q * q * (x1 * x1 + y1 * y1 + z1 * z1) + 2 * p * q * (x0 * x1 + y0 * y1 + z0 * z1))
    by (unfold p, q; ring).
  rewrite E, Hd, Hm, Hn, Ho in B. clear E Hd Hm Hn Ho. clearbody p q.
  pose proof (Rle_0_sqr (p - q)) as S1. pose proof (Rle_0_sqr (p + q)) as S2. unfold Rsqr in S1, S2.
  split; lra.
Qed.
Lemma orientation_tensor_is_dyad n m :
  orientation_tensor n m = map (fun ij => dyad m n (fst ij) (snd ij)) tfel_tensor_order.
Proof.
  r3 n; r3 m. unfold orientation_tensor, tfel_tensor_order, dyad. simpl.
  repeat match goal with |- _ :: _ :: _ = _ :: _ => f_equal; [ring|] end. f_equal; ring.
Qed.
Lemma schmid_code_is_schmid d n m : schmid_code d (orientation_tensor n m) = schmid d m n.
Proof. r3 d; r3 n; r3 m. unfold schmid_code, schmid. simpl. ring. Qed.
Lemma schmid_is_contraction d m n :
  schmid d m n = contract (dyad d d) (dyad m n) /\ schmid d m n = contract (dyad d d) (sym_part (dyad m n)).
Proof. r3 d; r3 n; r3 m. unfold schmid, contract, sym_part, dyad. simpl. split; field. Qed.

(* C56 -- interaction-matrix structure of more families (thorough tier); proofs in C56IMProofsMore.v. *)
From Coq Require Import ZArith List.
From C56 Require Import C56Spec C56Model C56IMSpec C56IMModel C56IMProofs C56IMProofsMore.
Import ListNotations.

(* BCC <1,1,1>{1,-1,0} and <1,1,1>{1,1,-2}: 12 systems, 7 coefficients, classes = orbits, diagonal = rank 0; {1,-1,0}: not symmetric *)
Theorem C56_im_bcc :
  (length bcc_110 = 12%nat /\ cubic_n_interactions bcc_110 = 7%nat /\
   classes_are_orbits eq_pm3 cubic_act cubic_codes (cubic_pairs bcc_110) (cubic_rank bcc_110) /\
   diagonal_is (cubic_pairs bcc_110) (cubic_rank bcc_110) 0 /\ ~ structure_symmetric (cubic_pairs bcc_110) (cubic_rank bcc_110)) /\
  (length bcc_112 = 12%nat /\ cubic_n_interactions bcc_112 = 7%nat /\
   classes_are_orbits eq_pm3 cubic_act cubic_codes (cubic_pairs bcc_112) (cubic_rank bcc_112) /\
   diagonal_is (cubic_pairs bcc_112) (cubic_rank bcc_112) 0).
Proof. exact (conj bcc_110_ok bcc_112_ok). Qed.
Print Assumptions C56_im_bcc.

(* HCP: one description with three families (basal, prismatic, first-order pyramidal <a>: 12 systems, 20 coefficients) and the
   first-order pyramidal <c+a> family (12 systems, 12 coefficients): classes = orbits under the 24 operations of the
   hexagonal group on Miller-Bravais indices (the code scans 96 index operations, 72 of which are not symmetries) *)
Theorem C56_im_hcp :
  (length hcp_a3 = 12%nat /\ hcp_n_interactions hcp_a3 = 20%nat /\
   classes_are_orbits eq_pm4 hex_act hex_codes (hcp_pairs hcp_a3) (hcp_rank hcp_a3)) /\
  (length hcp_ca = 12%nat /\ hcp_n_interactions hcp_ca = 12%nat /\
   classes_are_orbits eq_pm4 hex_act hex_codes (hcp_pairs hcp_ca) (hcp_rank hcp_ca) /\
   diagonal_is (hcp_pairs hcp_ca) (hcp_rank hcp_ca) 0).
Proof. exact (conj hcp_a3_ok hcp_ca_ok). Qed.
Print Assumptions C56_im_hcp.

(* C56 -- interaction-matrix structure: proofs. *)
From Coq Require Import ZArith List Bool Arith Lia.
From C56 Require Import C56Spec C56Model C56IMSpec C56IMModel.
Import ListNotations.

(* ------------------------------------------------------------------ decidable form of the specification *)
Section Decide.
  Variables V G : Type.
  Variable eq_pm : V -> V -> Prop.
  Variable eq_pmb : V -> V -> bool.
  Hypothesis eq_pmb_spec : forall u v, eq_pmb u v = true <-> eq_pm u v.
  Variable act : G -> V -> V.
  Variable codes : list G.
  Definition sys_eqb (s t : V * V) : bool := eq_pmb (fst s) (fst t) && eq_pmb (snd s) (snd t).
  Lemma sys_eqb_spec : forall s t, sys_eqb s t = true <-> sys_eq eq_pm s t.
  Proof. intros s t. unfold sys_eqb, sys_eq. rewrite andb_true_iff, !eq_pmb_spec. tauto. Qed.
  Definition pair_equivb (x y : spair V) : bool :=
    existsb (fun g => sys_eqb (sys_act act g (fst x)) (fst y) && sys_eqb (sys_act act g (snd x)) (snd y)) codes.
  Lemma pair_equivb_spec : forall x y, pair_equivb x y = true <-> pair_equiv eq_pm act codes x y.
  Proof.
    intros x y. unfold pair_equivb, pair_equiv. rewrite existsb_exists. split.
    - intros [g [Hg H]]. apply andb_true_iff in H. rewrite !sys_eqb_spec in H. exists g. tauto.
    - intros [g [Hg [H1 H2]]]. exists g. split; [exact Hg|]. apply andb_true_iff. rewrite !sys_eqb_spec. tauto.
  Qed.

  (* a rank map whose classes are the orbits is invariant under the group *)
  Lemma orbits_invariant : forall P r, classes_are_orbits eq_pm act codes P r -> rank_invariant eq_pm act codes P r.
  Proof.
    intros P r H x y g Hx Hy Hg H1 H2. symmetry. apply (H x y Hx Hy). exists g. tauto.
  Qed.

  (* ---------------------------------------------------------------- checking a concrete list of systems *)
  Variable dot : V -> V -> Z.
  Variable nsym : nat.
  Variable sym : nat -> V -> V.
  Let rk (L : list (V * V)) := rank_of V dot nsym sym L.
  Definition ranked (L : list (V * V)) : list (spair V * nat) :=
    let st := interactions V dot nsym sym L in
    map (fun x => (x, rank_interaction V dot nsym sym st x)) (all_pairs V L).
  Lemma ranked_in : forall L x, In x (all_pairs V L) -> In (x, rk L x) (ranked L).
  Proof. intros L x H. unfold ranked. apply in_map_iff. exists x. split; [reflexivity|exact H]. Qed.
  Lemma in_ranked : forall L x n, In (x, n) (ranked L) -> n = rk L x /\ In x (all_pairs V L).
  Proof.
    intros L x n H. unfold ranked in H. apply in_map_iff in H. destruct H as [y [E Hy]]. inversion E; subst. split; [reflexivity|exact Hy].
  Qed.
  (* rank equal <-> equivalent, for every two ordered pairs *)
  Definition orbits_check (L : list (V * V)) : bool :=
    let R := ranked L in
    forallb (fun xr => forallb (fun ys => Bool.eqb (snd xr =? snd ys)%nat (pair_equivb (fst xr) (fst ys))) R) R.
  Lemma orbits_check_ok : forall L, orbits_check L = true -> classes_are_orbits eq_pm act codes (all_pairs V L) (rk L).
  Proof.
    intros L H x y Hx Hy. unfold orbits_check in H. rewrite forallb_forall in H.
    specialize (H _ (ranked_in L x Hx)). rewrite forallb_forall in H. specialize (H _ (ranked_in L y Hy)).
    cbn [fst snd] in H. apply eqb_prop in H. rewrite <- pair_equivb_spec, <- H. symmetry. apply Nat.eqb_eq.
  Qed.
  (* every ordered pair with its rank and the rank of the transposed pair (the stored interactions are computed once) *)
  Definition ranked2 (L : list (V * V)) : list (spair V * (nat * nat)) :=
    let st := interactions V dot nsym sym L in
    map (fun x => (x, (rank_interaction V dot nsym sym st x, rank_interaction V dot nsym sym st (swap_pair x)))) (all_pairs V L).
  Lemma ranked2_in : forall L x, In x (all_pairs V L) -> In (x, (rk L x, rk L (swap_pair x))) (ranked2 L).
  Proof. intros L x H. unfold ranked2. apply in_map_iff. exists x. split; [reflexivity|exact H]. Qed.
  Lemma in_ranked2 : forall L x a b, In (x, (a, b)) (ranked2 L) -> a = rk L x /\ b = rk L (swap_pair x) /\ In x (all_pairs V L).
  Proof.
    intros L x a b H. unfold ranked2 in H. apply in_map_iff in H. destruct H as [y [E Hy]]. inversion E; subst. auto.
  Qed.
  (* rank of the transposed pair = tau (rank of the pair) *)
  Definition transpose_check (tau : nat -> nat) (L : list (V * V)) : bool :=
    forallb (fun xab => (snd (snd xab) =? tau (fst (snd xab)))%nat) (ranked2 L).
  Lemma transpose_check_ok : forall tau L, transpose_check tau L = true ->
    forall x, In x (all_pairs V L) -> rk L (swap_pair x) = tau (rk L x).
  Proof.
    intros tau L H x Hx. unfold transpose_check in H. rewrite forallb_forall in H.
    specialize (H _ (ranked2_in L x Hx)). cbn [fst snd] in H. apply Nat.eqb_eq in H. exact H.
  Qed.
  (* pairs (s, s) *)
  Variable Veqb : V -> V -> bool.
  Hypothesis Veqb_refl : forall v, Veqb v v = true.
  Definition diagonal_check (r0 : nat) (L : list (V * V)) : bool :=
    forallb (fun xr => let x := fst xr in
      if Veqb (fst (fst x)) (fst (snd x)) && Veqb (snd (fst x)) (snd (snd x)) then (snd xr =? r0)%nat else true) (ranked L).
  Lemma diagonal_check_ok : forall r0 L, diagonal_check r0 L = true -> diagonal_is (all_pairs V L) (rk L) r0.
  Proof.
    intros r0 L H x Hx E. unfold diagonal_check in H. rewrite forallb_forall in H.
    specialize (H _ (ranked_in L x Hx)). cbn [fst snd] in H. rewrite <- E, !Veqb_refl in H. cbn in H. apply Nat.eqb_eq in H. exact H.
  Qed.
  Definition ranks_list (L : list (V * V)) : list nat := map snd (ranked L).
  Lemma ranks_list_eq : forall L, ranks_list L = map (rk L) (all_pairs V L).
  Proof. intros L. unfold ranks_list, ranked. rewrite map_map. reflexivity. Qed.
End Decide.

(* ------------------------------------------------------------------ the two index types *)
Definition v3_eqb (u v : V3) : bool :=
  let '(a, b, c) := u in let '(x, y, z) := v in (a =? x)%Z && (b =? y)%Z && (c =? z)%Z.
Lemma v3_eqb_spec : forall u v, v3_eqb u v = true <-> u = v.
Proof.
  intros [[a b] c] [[x y] z]. cbn. rewrite !andb_true_iff, !Z.eqb_eq. split; [intros [[-> ->] ->]; reflexivity|].
  intros E; inversion E; auto.
Qed.
Lemma v3_eqb_refl : forall v, v3_eqb v v = true. Proof. intros v. apply v3_eqb_spec. reflexivity. Qed.
Definition eq_pm3b (u v : V3) : bool := v3_eqb u v || v3_eqb u (neg3 v).
Lemma eq_pm3b_spec : forall u v, eq_pm3b u v = true <-> eq_pm3 u v.
Proof. intros u v. unfold eq_pm3b, eq_pm3. rewrite orb_true_iff, !v3_eqb_spec. tauto. Qed.
Definition v4_eqb (u v : V4) : bool :=
  let '(a, b, c, d) := u in let '(x, y, z, t) := v in (a =? x)%Z && (b =? y)%Z && (c =? z)%Z && (d =? t)%Z.
Lemma v4_eqb_spec : forall u v, v4_eqb u v = true <-> u = v.
Proof.
  intros [[[a b] c] d] [[[x y] z] t]. cbn. rewrite !andb_true_iff, !Z.eqb_eq. split; [intros [[[-> ->] ->] ->]; reflexivity|].
  intros E; inversion E; auto.
Qed.
Lemma v4_eqb_refl : forall v, v4_eqb v v = true. Proof. intros v. apply v4_eqb_spec. reflexivity. Qed.
Definition eq_pm4b (u v : V4) : bool := v4_eqb u v || v4_eqb u (neg4 v).
Lemma eq_pm4b_spec : forall u v, eq_pm4b u v = true <-> eq_pm4 u v.
Proof. intros u v. unfold eq_pm4b, eq_pm4. rewrite orb_true_iff, !v4_eqb_spec. tauto. Qed.

Definition cubic_rank (L : list (V3 * V3)) : spair V3 -> nat := rank_of V3 dot3 cubic_nsym cubic_sym L.
Definition hcp_rank (L : list (V4 * V4)) : spair V4 -> nat := rank_of V4 dot4 hcp_nsym hcp_sym L.
Definition cubic_pairs (L : list (V3 * V3)) : list (spair V3) := all_pairs V3 L.
Definition hcp_pairs (L : list (V4 * V4)) : list (spair V4) := all_pairs V4 L.
Definition cubic_orbits_check := orbits_check V3 _ eq_pm3b cubic_act cubic_codes dot3 cubic_nsym cubic_sym.
Definition hcp_orbits_check := orbits_check V4 _ eq_pm4b hex_act hex_codes dot4 hcp_nsym hcp_sym.
Definition cubic_orbits (L : list (V3 * V3)) : Prop :=
  classes_are_orbits eq_pm3 cubic_act cubic_codes (cubic_pairs L) (cubic_rank L).
Definition hcp_orbits (L : list (V4 * V4)) : Prop :=
  classes_are_orbits eq_pm4 hex_act hex_codes (hcp_pairs L) (hcp_rank L).
Lemma cubic_orbits_check_ok : forall L, cubic_orbits_check L = true -> cubic_orbits L.
Proof. intros L H. exact (orbits_check_ok V3 _ eq_pm3 eq_pm3b eq_pm3b_spec cubic_act cubic_codes dot3 cubic_nsym cubic_sym L H). Qed.
Lemma hcp_orbits_check_ok : forall L, hcp_orbits_check L = true -> hcp_orbits L.
Proof. intros L H. exact (orbits_check_ok V4 _ eq_pm4 eq_pm4b eq_pm4b_spec hex_act hex_codes dot4 hcp_nsym hcp_sym L H). Qed.
Lemma cubic_orbits_invariant : forall L, cubic_orbits L -> rank_invariant eq_pm3 cubic_act cubic_codes (cubic_pairs L) (cubic_rank L).
Proof. intros L. apply orbits_invariant. Qed.
Lemma hcp_orbits_invariant : forall L, hcp_orbits L -> rank_invariant eq_pm4 hex_act hex_codes (hcp_pairs L) (hcp_rank L).
Proof. intros L. apply orbits_invariant. Qed.

(* the matrix is the table of the rank map *)
Lemma cubic_matrix_is_rank : forall L, cubic_rank_matrix L = map (fun g1 => map (fun g2 => cubic_rank L (g1, g2)) L) L.
Proof. reflexivity. Qed.
Lemma hcp_matrix_is_rank : forall L, hcp_rank_matrix L = map (fun g1 => map (fun g2 => hcp_rank L (g1, g2)) L) L.
Proof. reflexivity. Qed.

(* ------------------------------------------------------------------ FCC <1,-1,0>{1,1,1}: the example of docs/web/singlecrystal.md *)
Local Open Scope Z_scope.
Definition fcc_oct : list (V3 * V3) :=
  [((0, 1, -1), (1, 1, 1)); ((1, 0, -1), (1, 1, 1)); ((1, -1, 0), (1, 1, 1));
   ((0, 1, 1), (1, 1, -1)); ((1, 0, 1), (1, 1, -1)); ((1, -1, 0), (1, 1, -1));
   ((0, 1, -1), (1, -1, -1)); ((1, 0, 1), (1, -1, -1)); ((1, 1, 0), (1, -1, -1));
   ((0, 1, 1), (1, -1, 1)); ((1, 0, -1), (1, -1, 1)); ((1, 1, 0), (1, -1, 1))].
Definition fcc_oct_matrix : list (list nat) :=
  [[0; 1; 1; 2; 3; 4; 5; 6; 6; 2; 4; 3]; [1; 0; 1; 3; 2; 4; 4; 2; 3; 6; 5; 6]; [1; 1; 0; 6; 6; 5; 4; 3; 2; 3; 4; 2];
   [2; 3; 4; 0; 1; 1; 2; 4; 3; 5; 6; 6]; [3; 2; 4; 1; 0; 1; 6; 5; 6; 4; 2; 3]; [6; 6; 5; 1; 1; 0; 3; 4; 2; 4; 3; 2];
   [5; 6; 6; 2; 4; 3; 0; 1; 1; 2; 3; 4]; [4; 2; 3; 6; 5; 6; 1; 0; 1; 3; 2; 4]; [4; 3; 2; 3; 4; 2; 1; 1; 0; 6; 6; 5];
   [2; 4; 3; 5; 6; 6; 2; 3; 4; 0; 1; 1]; [6; 5; 6; 4; 2; 3; 3; 2; 4; 1; 0; 1]; [3; 4; 2; 4; 3; 2; 6; 6; 5; 1; 1; 0]]%nat.
(* transposition of the FCC structure: the two glissile classes are exchanged *)
Definition fcc_tau (n : nat) : nat := match n with 4 => 6 | 6 => 4 | _ => n end%nat.

Lemma fcc_oct_generated : cubic_systems (1, -1, 0) (1, 1, 1) = Some fcc_oct.
Proof. vm_compute. reflexivity. Qed.
Lemma fcc_oct_matrix_ok : cubic_rank_matrix fcc_oct = fcc_oct_matrix /\ cubic_n_interactions fcc_oct = 7%nat /\
  n_distinct (concat (cubic_rank_matrix fcc_oct)) = 7%nat.
Proof. vm_compute. auto. Qed.
Lemma fcc_oct_orbits : cubic_orbits fcc_oct.
Proof. apply cubic_orbits_check_ok. vm_compute. reflexivity. Qed.
Lemma fcc_oct_diagonal : diagonal_is (cubic_pairs fcc_oct) (cubic_rank fcc_oct) 0.
Proof. apply (diagonal_check_ok V3 dot3 cubic_nsym cubic_sym v3_eqb v3_eqb_refl). vm_compute. reflexivity. Qed.
Lemma fcc_oct_transpose : forall x, In x (cubic_pairs fcc_oct) -> cubic_rank fcc_oct (swap_pair x) = fcc_tau (cubic_rank fcc_oct x).
Proof. apply (transpose_check_ok V3 dot3 cubic_nsym cubic_sym). vm_compute. reflexivity. Qed.
(* the structure is NOT symmetric: gliding [0,1,-1](1,1,1) / forest [1,-1,0](1,1,-1) has rank 4, the transposed pair rank 6 *)
Lemma fcc_oct_not_symmetric : ~ structure_symmetric (cubic_pairs fcc_oct) (cubic_rank fcc_oct).
Proof.
  intros H. specialize (H (((0, 1, -1), (1, 1, 1)), ((1, -1, 0), (1, 1, -1)))).
  assert (Hin : In (((0, 1, -1), (1, 1, 1)), ((1, -1, 0), (1, 1, -1))) (cubic_pairs fcc_oct)).
  { apply in_prod; cbn; tauto. }
  specialize (H Hin). vm_compute in H. discriminate H.
Qed.
(* ... it is symmetric exactly off the two glissile classes 4 and 6 *)
Lemma fcc_oct_symmetric_part : forall x, In x (cubic_pairs fcc_oct) ->
  (cubic_rank fcc_oct (swap_pair x) = cubic_rank fcc_oct x <-> (cubic_rank fcc_oct x <> 4 /\ cubic_rank fcc_oct x <> 6)%nat).
Proof.
  intros x Hx. rewrite (fcc_oct_transpose x Hx). generalize (cubic_rank fcc_oct x). intros n. unfold fcc_tau.
  do 7 (destruct n as [|n]; [lia|]). lia.
Qed.

(* ------------------------------------------------------------------ other usual families *)
Definition the {A : Type} (o : option (list A)) : list A := match o with Some l => l | None => [] end.
Definition bcc_110 : list (V3 * V3) := the (cubic_systems (1, 1, 1) (1, -1, 0)).
(* the matrix printed in docs/web/singlecrystal.md under "mfront-query --interaction-matrix SlipSystemGenerationTest.mfront" *)
Definition doc_sample_matrix : list (list nat) :=
  [[0; 1; 2; 2; 3; 4; 5; 6; 5; 6; 4; 3]; [1; 0; 2; 2; 6; 5; 4; 3; 4; 3; 5; 6]; [2; 2; 0; 1; 5; 6; 3; 4; 6; 5; 3; 4];
   [2; 2; 1; 0; 4; 3; 6; 5; 3; 4; 6; 5]; [3; 4; 5; 6; 0; 1; 2; 2; 6; 5; 4; 3]; [6; 5; 4; 3; 1; 0; 2; 2; 3; 4; 5; 6];
   [5; 6; 3; 4; 2; 2; 0; 1; 5; 6; 3; 4]; [4; 3; 6; 5; 2; 2; 1; 0; 4; 3; 6; 5]; [5; 6; 4; 3; 4; 3; 5; 6; 0; 1; 2; 2];
   [4; 3; 5; 6; 5; 6; 4; 3; 1; 0; 2; 2]; [6; 5; 3; 4; 6; 5; 3; 4; 2; 2; 0; 1]; [3; 4; 6; 5; 3; 4; 6; 5; 2; 2; 1; 0]]%nat.

(* the sample of the documentation is the structure of <1,1,1>{1,-1,0}, not that of the documented <1,-1,0>{1,1,1} *)
Lemma doc_sample_is_bcc_110 : cubic_rank_matrix fcc_oct <> doc_sample_matrix /\ cubic_rank_matrix bcc_110 = doc_sample_matrix.
Proof. split; [vm_compute; discriminate|]. vm_compute. reflexivity. Qed.

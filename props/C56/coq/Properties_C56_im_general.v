(* C56 -- interaction-matrix structure: what holds for EVERY list of slip systems (proofs in C56IMGeneral.v).
   cubic_rk / hcp_rk = rank_of of the model (C56IMModel.v); cubic_E / hcp_E x y = "one of the 48 (96) index operations of
   numodis maps the ordered pair x onto a pair that operator==(GSystem, GSystem) identifies with y". *)
From Coq Require Import ZArith List.
From C56 Require Import C56Spec C56IMModel C56IMGeneral.
Import ListNotations.

(* the classes partition the pairs: every ordered pair of systems of the list has ONE rank (rank_of is a function), that
   rank is below the number of coefficients, and the pair is related by the code's own test to the stored interaction of
   that rank *)
Theorem C56_im_partition :
  partition_statement (all_pairs V3) cubic_rk cubic_n_interactions cubic_stored cubic_E /\
  partition_statement (all_pairs V4) hcp_rk hcp_n_interactions hcp_stored hcp_E.
Proof. exact (conj cubic_partition hcp_partition). Qed.
Print Assumptions C56_im_partition.

(* no empty class: every rank below the number of coefficients is the rank of a pair of the list, so the number of
   distinct entries of the matrix is exactly InteractionMatrixStructure::rank() *)
Theorem C56_im_all_ranks_used :
  all_used_statement (all_pairs V3) cubic_rk cubic_n_interactions /\ all_used_statement (all_pairs V4) hcp_rk hcp_n_interactions.
Proof. exact (conj cubic_all_used hcp_all_used). Qed.
Print Assumptions C56_im_all_ranks_used.

(* the self interaction of the first system has rank 0 *)
Theorem C56_im_first_pair : first_statement cubic_rk /\ first_statement hcp_rk.
Proof. exact (conj cubic_first hcp_first). Qed.
Print Assumptions C56_im_first_pair.

(* for every list on whose pairs the relation tested by the code is symmetric and transitive (it is always reflexive), two
   pairs have the same rank IF AND ONLY IF they are related: the classes of equal rank are the classes of that relation *)
Theorem C56_im_classes_of_tested_relation :
  equivalence_statement (all_pairs V3) cubic_rk cubic_E /\ equivalence_statement (all_pairs V4) hcp_rk hcp_E.
Proof. exact (conj cubic_equivalence hcp_equivalence). Qed.
Print Assumptions C56_im_classes_of_tested_relation.

(* C56 -- interaction-matrix structure: property theorems (statements only; proofs are in C56IMProofs.v). *)
From Coq Require Import ZArith List.
From C56 Require Import C56Spec C56Model C56IMSpec C56IMModel C56IMProofs.
Import ListNotations.

(* FCC <1,-1,0>{1,1,1}, the example of docs/web/singlecrystal.md: the generator returns the 12 documented systems in the
   documented order; the model of numodis::Hardening gives 7 independent coefficients (7 stored interactions, 7 distinct
   entries) and the matrix [fcc_oct_matrix] (which check.py compares, literally, with the output of the real code) *)
Theorem C56_im_fcc_documented : cubic_systems (1, -1, 0)%Z (1, 1, 1)%Z = Some fcc_oct /\
  cubic_rank_matrix fcc_oct = fcc_oct_matrix /\ cubic_n_interactions fcc_oct = 7%nat /\
  n_distinct (concat (cubic_rank_matrix fcc_oct)) = 7%nat /\
  cubic_rank_matrix fcc_oct = map (fun g1 => map (fun g2 => cubic_rank fcc_oct (g1, g2)) fcc_oct) fcc_oct.
Proof.
  destruct fcc_oct_matrix_ok as [A [B C]]. exact (conj fcc_oct_generated (conj A (conj B (conj C (cubic_matrix_is_rank fcc_oct))))).
Qed.
Print Assumptions C56_im_fcc_documented.

(* its classes are EXACTLY the orbits of the ordered pairs (gliding system, forest system) under the 48 signed
   permutations, systems compared up to the signs of b and n: two pairs share a coefficient iff one group operation maps
   the first pair onto the second.  Hence: every pair has one rank, the rank is invariant under every operation of the
   group, and the pairs (s, s) form the class of rank 0 *)
Theorem C56_im_fcc_classes_are_orbits :
  classes_are_orbits eq_pm3 cubic_act cubic_codes (cubic_pairs fcc_oct) (cubic_rank fcc_oct) /\
  rank_invariant eq_pm3 cubic_act cubic_codes (cubic_pairs fcc_oct) (cubic_rank fcc_oct) /\
  diagonal_is (cubic_pairs fcc_oct) (cubic_rank fcc_oct) 0.
Proof. exact (conj fcc_oct_orbits (conj (cubic_orbits_invariant _ fcc_oct_orbits) fcc_oct_diagonal)). Qed.
Print Assumptions C56_im_fcc_classes_are_orbits.

(* the clause "same rank for (g1, g2) and (g2, g1)" of the property record is FALSE, by design (7 coefficients, "the
   matrix is non symmetric"): gliding [0,1,-1](1,1,1) with forest [1,-1,0](1,1,-1) has rank 4, the transposed pair rank 6.
   What is true: transposition exchanges the two glissile classes 4 and 6 and fixes the classes 0, 1, 2, 3, 5 *)
Theorem C56_im_fcc_symmetry_refuted :
  ~ structure_symmetric (cubic_pairs fcc_oct) (cubic_rank fcc_oct) /\
  (forall x, In x (cubic_pairs fcc_oct) -> cubic_rank fcc_oct (swap_pair x) = fcc_tau (cubic_rank fcc_oct x)) /\
  (forall x, In x (cubic_pairs fcc_oct) ->
     (cubic_rank fcc_oct (swap_pair x) = cubic_rank fcc_oct x <-> cubic_rank fcc_oct x <> 4%nat /\ cubic_rank fcc_oct x <> 6%nat)).
Proof. exact (conj fcc_oct_not_symmetric (conj fcc_oct_transpose fcc_oct_symmetric_part)). Qed.
Print Assumptions C56_im_fcc_symmetry_refuted.


(* C56 -- interaction-matrix structure: specification, written independently of the code.
   Two ORDERED pairs of slip systems (gliding system, forest system) are equivalent when one operation of the point
   group maps the first onto the second, slip systems being compared up to the signs of b and n (C56Spec.sys_eq).
   The structure of an interaction matrix is a map "ordered pair -> rank"; it is right when its classes are exactly
   the orbits of the ordered pairs under the point group. *)
From Coq Require Import ZArith List Bool.
From C56 Require Import C56Spec.
Import ListNotations.

Section PairEquiv.
  Variables V G : Type.
  Variable eq_pm : V -> V -> Prop.
  Variable act : G -> V -> V.
  Variable codes : list G.
  Definition sys_act (g : G) (s : V * V) : V * V := (act g (fst s), act g (snd s)).
  Definition spair := ((V * V) * (V * V))%type.
  Definition pair_equiv (x y : spair) : Prop :=
    exists g, In g codes /\ sys_eq eq_pm (sys_act g (fst x)) (fst y) /\ sys_eq eq_pm (sys_act g (snd x)) (snd y).
  Definition swap_pair (x : spair) : spair := (snd x, fst x).
  (* the classes of the rank map r on the pairs P are exactly the orbits *)
  Definition classes_are_orbits (P : list spair) (r : spair -> nat) : Prop :=
    forall x y, In x P -> In y P -> (r x = r y <-> pair_equiv x y).
  (* the rank is invariant under every operation of the group (images taken in the list, up to sign) *)
  Definition rank_invariant (P : list spair) (r : spair -> nat) : Prop :=
    forall x y g, In x P -> In y P -> In g codes ->
      sys_eq eq_pm (sys_act g (fst x)) (fst y) -> sys_eq eq_pm (sys_act g (snd x)) (snd y) -> r y = r x.
  (* every pair (s, s) has the rank of the first one *)
  Definition diagonal_is (P : list spair) (r : spair -> nat) (r0 : nat) : Prop :=
    forall x, In x P -> fst x = snd x -> r x = r0.
  (* "h_ij = h_ji as far as the structure goes" *)
  Definition structure_symmetric (P : list spair) (r : spair -> nat) : Prop :=
    forall x, In x P -> r (swap_pair x) = r x.
End PairEquiv.
Arguments sys_act {V G}. Arguments pair_equiv {V G}. Arguments swap_pair {V}. Arguments classes_are_orbits {V G}.
Arguments rank_invariant {V G}. Arguments diagonal_is {V}. Arguments structure_symmetric {V}.

(* number of distinct values of a list of naturals *)
Definition n_distinct (l : list nat) : nat := length (nodup Nat.eq_dec l).

(* C56 -- used while docs/web/singlecrystal.md prints, for FCC <1,-1,0>{1,1,1}, a matrix that the code does not return. *)
From Coq Require Import ZArith List.
From C56 Require Import C56Spec C56Model C56IMSpec C56IMModel C56IMProofs.
(* the printed sample is the structure of <1,1,1>{1,-1,0} (Burgers vector and plane exchanged), not that of the documented
   family: e.g. it gives rank 2 to the coplanar pair [0,1,-1](1,1,1) / [1,-1,0](1,1,1) that the listing printed right
   under it (and the code) put in rank 1 *)
Theorem C56_im_doc_sample_refuted :
  cubic_rank_matrix fcc_oct <> doc_sample_matrix /\ cubic_rank_matrix bcc_110 = doc_sample_matrix.
Proof. exact doc_sample_is_bcc_110. Qed.
Print Assumptions C56_im_doc_sample_refuted.

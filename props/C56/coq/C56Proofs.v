(* C56 -- lemmas about the model (integer part): orbit generation for cubic and hexagonal crystals. *)
From Coq Require Import ZArith List Bool Lia.
From C56 Require Import C56Spec C56Model.
Import ListNotations.
Local Open Scope Z_scope.

(* ================================================================== generic list lemmas *)
Lemma FOP_app {A} (R : A -> A -> Prop) l1 l2 :
  ForallOrdPairs R l1 -> ForallOrdPairs R l2 -> (forall x y, In x l1 -> In y l2 -> R x y) ->
  ForallOrdPairs R (l1 ++ l2).
Proof.
  induction 1 as [|a l Ha Hl IH]; simpl; intros H2 H12; auto.
  constructor.
  - apply Forall_app; split; auto. rewrite Forall_forall; intros y Hy. apply H12; simpl; auto.
  - apply IH; auto; intros; apply H12; simpl; auto.
Qed.

Lemma FOP_flat_map {A B} (R : B -> B -> Prop) (f : A -> list B) (RA : A -> A -> Prop) l :
  ForallOrdPairs RA l -> (forall a, In a l -> ForallOrdPairs R (f a)) ->
  (forall a a' x y, RA a a' -> In x (f a) -> In y (f a') -> R x y) ->
  ForallOrdPairs R (flat_map f l).
Proof.
  induction 1 as [|a l Ha Hl IH]; simpl; intros Hin Hx; [constructor|].
  apply FOP_app; auto.
  intros x y Hx1 Hy. apply in_flat_map in Hy as (a' & Ha' & Hy).
    rewrite Forall_forall in Ha. eapply Hx; eauto.
Qed.

(* the (plane, Burgers) selection keeps pairwise distinctness *)
Lemma select_pairwise {V} (dot : V -> V -> Z) (E : V -> V -> Prop) planes burgers :
  ForallOrdPairs (fun a b => ~ E a b) planes -> ForallOrdPairs (fun a b => ~ E a b) burgers ->
  ForallOrdPairs (fun s t : V * V => ~ (E (fst s) (fst t) /\ E (snd s) (snd t))) (select dot planes burgers).
Proof.
  intros Hp Hb. unfold select.
  eapply FOP_flat_map with (RA := fun a b => ~ E a b); eauto.
  - intros p _. eapply FOP_flat_map with (RA := fun a b => ~ E a b); eauto.
    + intros b _. destruct (dot p b =? 0); repeat constructor.
    + intros b b' x y Hbb Hx Hy. destruct (dot p b =? 0), (dot p b' =? 0); simpl in *; try tauto.
      destruct Hx as [<-|[]], Hy as [<-|[]]. simpl. tauto.
  - intros p p' x y Hpp Hx Hy.
    apply in_flat_map in Hx as (b & _ & Hx). apply in_flat_map in Hy as (b' & _ & Hy).
    destruct (dot p b =? 0), (dot p' b' =? 0); simpl in *; try tauto.
    destruct Hx as [<-|[]], Hy as [<-|[]]. simpl. tauto.
Qed.

Lemma in_select {V} (dot : V -> V -> Z) planes burgers b p :
  In (b, p) (select dot planes burgers) <-> In p planes /\ In b burgers /\ dot p b = 0.
Proof.
  unfold select. rewrite in_flat_map. split.
  - intros (p' & Hp' & H). apply in_flat_map in H as (b' & Hb' & H).
    destruct (Z.eqb_spec (dot p' b') 0); simpl in H; [|tauto]. destruct H as [H|[]]. inversion H; subst. auto.
  - intros (Hp & Hb & H0). exists p; split; auto. apply in_flat_map. exists b; split; auto.
    rewrite H0. simpl. auto.
Qed.

Lemma NoDup_FOP {A} (l : list A) : NoDup l -> ForallOrdPairs (fun a b => a <> b) l.
Proof.
  induction 1; constructor; auto. rewrite Forall_forall. intros y Hy ->. tauto.
Qed.


Lemma NoDup_app_intro {A} (l1 l2 : list A) :
  NoDup l1 -> NoDup l2 -> (forall x, In x l1 -> In x l2 -> False) -> NoDup (l1 ++ l2).
Proof.
  induction 1 as [|a l Ha Hl IH]; simpl; intros H2 Hd; auto.
  constructor.
  - rewrite in_app_iff. intros [H|H]; [tauto|]. apply (Hd a); auto.
  - apply IH; auto; intros x Hx1 Hx2; apply (Hd x); auto.
Qed.

Lemma NoDup_flat_map_key {A B} (f : A -> list B) (key : B -> A) l :
  NoDup l -> (forall a, In a l -> NoDup (f a)) -> (forall a y, In a l -> In y (f a) -> key y = a) ->
  NoDup (flat_map f l).
Proof.
  induction 1 as [|a l Ha Hl IH]; simpl; intros Hn Hk; [constructor|].
  assert (NoDup (flat_map f l)) by (apply IH; intros; [apply Hn|apply Hk]; auto).
  apply NoDup_app_intro; auto.
  intros y Hy1 Hy2. apply in_flat_map in Hy2 as (a' & Ha' & Hy2).
    assert (key y = a) by (apply Hk; auto). assert (key y = a') by (apply Hk; auto). congruence.
Qed.

Lemma NoDup_map_inj_on {A B} (f : A -> B) l :
  (forall x y, In x l -> In y l -> f x = f y -> x = y) -> NoDup l -> NoDup (map f l).
Proof.
  intros Hinj H. induction H as [|a l Ha Hl IH]; simpl; constructor.
  - intros Hin. apply in_map_iff in Hin as (y & Hy & Hin). apply Ha.
    assert (y = a) by (apply Hinj; simpl; auto). subst; auto.
  - apply IH. intros; apply Hinj; simpl; auto.
Qed.

(* ================================================================== three-index vectors *)
Ltac d3 v := let a := fresh "a" in let b := fresh "b" in let c := fresh "c" in destruct v as [[a b] c].

(* canonical sign: first non-zero index positive (proof device) *)
Definition canon3 (v : V3) : V3 :=
  let '(a, b, c) := v in
  if (a <? 0) || ((a =? 0) && ((b <? 0) || ((b =? 0) && (c <? 0)))) then neg3 v else v.

Ltac zb := repeat (match goal with
  | |- context [?x <? ?y] => destruct (Z.ltb_spec x y)
  | |- context [?x <=? ?y] => destruct (Z.leb_spec x y)
  | |- context [?x =? ?y] => destruct (Z.eqb_spec x y)
  | H : context [?x <? ?y] |- _ => destruct (Z.ltb_spec x y)
  | H : context [?x <=? ?y] |- _ => destruct (Z.leb_spec x y)
  | H : context [?x =? ?y] |- _ => destruct (Z.eqb_spec x y)
  end; try (exfalso; lia)).
Ltac peq := repeat match goal with |- (_, _) = (_, _) => f_equal end.
Ltac teq := repeat match goal with |- (_, _) = (_, _) => f_equal end; try lia.
Ltac inl := simpl; repeat (first [left; solve [teq] | right]); try tauto.

Lemma perms3_refl p : In p (perms3 p).
Proof. d3 p; simpl; auto. Qed.
Lemma perms3_sym p q : In q (perms3 p) -> In p (perms3 q).
Proof. d3 p; simpl; intuition subst; simpl; auto 10. Qed.
Lemma perms3_trans p q r : In q (perms3 p) -> In r (perms3 q) -> In r (perms3 p).
Proof. d3 p; simpl; intros H; intuition subst; simpl in *; intuition subst; auto 10. Qed.
Lemma perms3_perm k p : In (perm3 k p) (perms3 p).
Proof. d3 p; do 6 (destruct k as [|k]; [simpl; auto 10|]); simpl; auto 10. Qed.
Lemma perms3_inv p q : In q (perms3 p) -> exists k, (k < 6)%nat /\ q = perm3 k p.
Proof.
  unfold perms3; rewrite in_map_iff. intros (k & <- & Hk). exists k; split; auto.
  simpl in Hk; lia.
Qed.
Lemma sort3_perm v : In (sort3 v) (perms3 v).
Proof. d3 v; unfold sort3; zb; simpl; auto 10. Qed.
Lemma abs3_perm k v : abs3 (perm3 k v) = perm3 k (abs3 v).
Proof. d3 v; do 6 (destruct k as [|k]; [reflexivity|]); reflexivity. Qed.
Lemma abs3_sgn s v : abs3 (sgn3 s v) = abs3 v.
Proof. d3 v; destruct s as [[[] []] []]; simpl; rewrite ?Z.abs_opp; reflexivity. Qed.
Lemma abs3_neg v : abs3 (neg3 v) = abs3 v.
Proof. d3 v; simpl; rewrite !Z.abs_opp; reflexivity. Qed.
Lemma abs3_idem v : abs3 (abs3 v) = abs3 v.
Proof. d3 v; simpl; rewrite !Z.abs_involutive; reflexivity. Qed.
Lemma abs3_perms_in p q : In q (perms3 p) -> In (abs3 q) (perms3 (abs3 p)).
Proof. intros H. apply perms3_inv in H as (k & _ & ->). rewrite abs3_perm. apply perms3_perm. Qed.

Lemma canon3_pm v : canon3 v = v \/ canon3 v = neg3 v.
Proof. d3 v; unfold canon3. destruct (_ || _); auto. Qed.
Lemma canon3_neg v : canon3 (neg3 v) = canon3 v.
Proof. d3 v; unfold canon3, neg3; zb; simpl; teq. Qed.
Lemma canon3_idem v : canon3 (canon3 v) = canon3 v.
Proof. d3 v; unfold canon3, neg3; zb; simpl; zb; simpl; teq. Qed.
Lemma abs3_canon v : abs3 (canon3 v) = abs3 v.
Proof. destruct (canon3_pm v) as [-> | ->]; auto using abs3_neg. Qed.
Lemma neg3_invol v : neg3 (neg3 v) = v.
Proof. d3 v; simpl; teq. Qed.
Lemma eq_pm3_canon u v : canon3 u = u -> canon3 v = v -> eq_pm3 u v -> u = v.
Proof. intros Hu Hv [H|H]; auto. subst u. rewrite canon3_neg in Hu. congruence. Qed.
Lemma eq_pm3_of_canon u : eq_pm3 (canon3 u) u.
Proof. apply canon3_pm. Qed.

(* sign variants of a non-negative triple: exactly the canonical vectors with these absolute values *)
Lemma sign_variants_sound p w :
  abs3 p = p -> In w (sign_variants p) -> canon3 w = w /\ abs3 w = p.
Proof.
  d3 p; d3 w. unfold sign_variants, abs3. intros Hp. inversion Hp as [[Ha Hb Hc]]. rewrite Ha, Hb, Hc.
  zb; simpl; intros Hin; intuition (try discriminate);
  match goal with E : (_, _, _) = (_, _, _) |- _ => inversion E; subst end;
  unfold canon3, neg3; zb; simpl; teq.
Qed.
Lemma sign_variants_complete w : canon3 w = w -> In w (sign_variants (abs3 w)).
Proof.
  d3 w. unfold canon3, sign_variants, abs3, neg3.
  zb; simpl; intros Hin; try (inversion Hin; lia); inl.
Qed.
Lemma sign_variants_nodup p : abs3 p = p -> NoDup (sign_variants p).
Proof.
  d3 p. unfold sign_variants, abs3. intros Hp. inversion Hp as [[Ha Hb Hc]]. rewrite Ha, Hb, Hc.
  zb; simpl; repeat constructor; simpl; intuition (try discriminate);
  match goal with H : (_, _, _) = (_, _, _) |- _ => inversion H; lia end.
Qed.

Lemma FOP_map {A B} (R : A -> A -> Prop) (R' : B -> B -> Prop) (f : A -> B) l :
  ForallOrdPairs R l -> (forall x y, In x l -> In y l -> R x y -> R' (f x) (f y)) ->
  ForallOrdPairs R' (map f l).
Proof.
  induction 1 as [|a l Ha Hl IH]; simpl; intros Hf; constructor.
  - rewrite Forall_forall in *. intros y Hy. apply in_map_iff in Hy as (x & <- & Hx). apply Hf; simpl; auto.
  - apply IH; intros; apply Hf; simpl; auto.
Qed.

Lemma nonneg_perms p q : In p (perms3 q) -> abs3 q = q -> abs3 p = p.
Proof. intros H Hq. apply perms3_inv in H as (k & _ & ->). rewrite abs3_perm, Hq. reflexivity. Qed.

(* characterisation of Cubic::GenerateEquivalentIndices: the canonical representatives of the orbit of v
   under the signed permutations *)
Lemma cubic_equiv_iff v w :
  In w (cubic_equivalent_indices v) <-> canon3 w = w /\ In (abs3 w) (perms3 (abs3 v)).
Proof.
  unfold cubic_equivalent_indices, distinct_perms. rewrite in_flat_map. split.
  - intros (p & Hp & Hw). apply nodup_In in Hp.
    assert (Hs : In (sort3 (abs3 v)) (perms3 (abs3 v))) by apply sort3_perm.
    assert (Hpv : In p (perms3 (abs3 v))) by (eapply perms3_trans; eauto).
    assert (Hnn : abs3 p = p) by (eapply nonneg_perms; eauto using abs3_idem).
    destruct (sign_variants_sound p w Hnn Hw) as [Hc Ha]. rewrite Ha. auto.
  - intros [Hc Ha]. exists (abs3 w). split.
    + apply nodup_In. eapply perms3_trans; [apply perms3_sym, sort3_perm|exact Ha].
    + apply sign_variants_complete; auto.
Qed.

Lemma cubic_equiv_nodup v : NoDup (cubic_equivalent_indices v).
Proof.
  unfold cubic_equivalent_indices, distinct_perms.
  assert (Hnn : forall p, In p (nodup V3_eq_dec (perms3 (sort3 (abs3 v)))) -> abs3 p = p).
  { intros p Hp. apply nodup_In in Hp. eapply nonneg_perms; [exact Hp|].
    eapply nonneg_perms; [apply sort3_perm|apply abs3_idem]. }
  apply NoDup_flat_map_key with (key := abs3).
  - apply NoDup_nodup.
  - intros p Hp. apply sign_variants_nodup; auto.
  - intros p w Hp Hw. eapply sign_variants_sound; eauto.
Qed.

(* ------------------------------------------------------------------ gcd reduction *)
Definition gfac3 (v : V3) : Z := if gcd3 v =? 0 then 1 else gcd3 v.
Lemma gcd3_nonneg v : 0 <= gcd3 v.
Proof. d3 v; simpl; apply Z.gcd_nonneg. Qed.
Lemma gfac3_pos v : 0 < gfac3 v.
Proof. unfold gfac3. pose proof (gcd3_nonneg v). destruct (Z.eqb_spec (gcd3 v) 0); lia. Qed.
Lemma div_exact_mul g a : g <> 0 -> (g | a) -> g * (a / g) = a.
Proof. intros Hg [k ->]. rewrite Z.div_mul by auto. ring. Qed.
Lemma reduce3_scale v : v = scale3 (gfac3 v) (reduce3 v).
Proof.
  unfold gfac3, reduce3. destruct (Z.eqb_spec (gcd3 v) 0) as [E|E].
  - d3 v. unfold scale3. rewrite !Z.mul_1_l. reflexivity.
  - d3 v. unfold gcd3 in *. simpl.
    assert (Hc : (Z.gcd (Z.gcd a b) c | c)) by apply Z.gcd_divide_r.
    assert (Hab : (Z.gcd (Z.gcd a b) c | Z.gcd a b)) by apply Z.gcd_divide_l.
    assert (Ha : (Z.gcd (Z.gcd a b) c | a)) by (eapply Z.divide_trans; [exact Hab|apply Z.gcd_divide_l]).
    assert (Hb : (Z.gcd (Z.gcd a b) c | b)) by (eapply Z.divide_trans; [exact Hab|apply Z.gcd_divide_r]).
    rewrite !div_exact_mul; auto.
Qed.
Lemma gcd3_swap12 a b c : gcd3 (b, a, c) = gcd3 (a, b, c).
Proof. simpl. now rewrite (Z.gcd_comm b a). Qed.
Lemma gcd3_swap23 a b c : gcd3 (a, c, b) = gcd3 (a, b, c).
Proof. simpl. rewrite <- !Z.gcd_assoc. now rewrite (Z.gcd_comm c b). Qed.
Lemma gcd3_perm k v : gcd3 (perm3 k v) = gcd3 v.
Proof.
  d3 v. destruct k as [|[|[|[|[|[|k]]]]]]; cbn [perm3].
  - reflexivity.
  - apply gcd3_swap23.
  - apply gcd3_swap12.
  - rewrite gcd3_swap23. apply gcd3_swap12.
  - rewrite gcd3_swap12. apply gcd3_swap23.
  - rewrite gcd3_swap12, gcd3_swap23. apply gcd3_swap12.
  - rewrite gcd3_swap12, gcd3_swap23. apply gcd3_swap12.
Qed.
Lemma gcd3_sgn s v : gcd3 (sgn3 s v) = gcd3 v.
Proof. d3 v; destruct s as [[[] []] []]; simpl; rewrite ?Z.gcd_opp_l, ?Z.gcd_opp_r, ?Z.gcd_opp_l; reflexivity. Qed.
Lemma gcd3_abs v : gcd3 (abs3 v) = gcd3 v.
Proof. d3 v; simpl. rewrite ?Z.gcd_abs_l, ?Z.gcd_abs_r, ?Z.gcd_abs_l. reflexivity. Qed.
Lemma neg3_sgn v : neg3 v = sgn3 (true, true, true) v.
Proof. d3 v; reflexivity. Qed.
Lemma gcd3_neg v : gcd3 (neg3 v) = gcd3 v.
Proof. rewrite neg3_sgn. apply gcd3_sgn. Qed.

Lemma scale3_inj g u v : g <> 0 -> scale3 g u = scale3 g v -> u = v.
Proof. d3 u; d3 v; simpl. intros Hg H. inversion H. teq; nia. Qed.
Lemma scale3_perm g k v : scale3 g (perm3 k v) = perm3 k (scale3 g v).
Proof. d3 v; do 6 (destruct k as [|k]; [reflexivity|]); reflexivity. Qed.
Lemma scale3_sgn g s v : scale3 g (sgn3 s v) = sgn3 s (scale3 g v).
Proof. d3 v; destruct s as [[[] []] []]; simpl; teq. Qed.
Lemma scale3_neg g v : scale3 g (neg3 v) = neg3 (scale3 g v).
Proof. rewrite !neg3_sgn. apply scale3_sgn. Qed.

Lemma reduce3_perm k v : reduce3 (perm3 k v) = perm3 k (reduce3 v).
Proof.
  apply scale3_inj with (g := gfac3 v); [pose proof (gfac3_pos v); lia|].
  rewrite scale3_perm, <- reduce3_scale.
  replace (gfac3 v) with (gfac3 (perm3 k v)) by (unfold gfac3; now rewrite gcd3_perm).
  now rewrite <- reduce3_scale.
Qed.
Lemma reduce3_sgn s v : reduce3 (sgn3 s v) = sgn3 s (reduce3 v).
Proof.
  apply scale3_inj with (g := gfac3 v); [pose proof (gfac3_pos v); lia|].
  rewrite scale3_sgn, <- reduce3_scale.
  replace (gfac3 v) with (gfac3 (sgn3 s v)) by (unfold gfac3; now rewrite gcd3_sgn).
  now rewrite <- reduce3_scale.
Qed.
Lemma reduce3_neg v : reduce3 (neg3 v) = neg3 (reduce3 v).
Proof. rewrite !neg3_sgn. apply reduce3_sgn. Qed.
Lemma reduce3_act g v : reduce3 (cubic_act g v) = cubic_act g (reduce3 v).
Proof. unfold cubic_act. now rewrite reduce3_sgn, reduce3_perm. Qed.

(* all members of one family of indices have the same gcd *)
Lemma cubic_equiv_gfac v w : In w (cubic_equivalent_indices v) -> gfac3 w = gfac3 v.
Proof.
  intros H. apply cubic_equiv_iff in H as [_ H]. apply perms3_inv in H as (k & _ & H).
  unfold gfac3. rewrite <- (gcd3_abs w), H, gcd3_perm, gcd3_abs. reflexivity.
Qed.

Lemma dot3_comm u v : dot3 u v = dot3 v u.
Proof. d3 u; d3 v; simpl; ring. Qed.
Lemma dot3_perm k u v : dot3 (perm3 k u) (perm3 k v) = dot3 u v.
Proof. d3 u; d3 v. destruct k as [|[|[|[|[|[|k]]]]]]; simpl; ring. Qed.
Lemma dot3_sgn s u v : dot3 (sgn3 s u) (sgn3 s v) = dot3 u v.
Proof. d3 u; d3 v; destruct s as [[[] []] []]; simpl; ring. Qed.
Lemma dot3_act g u v : dot3 (cubic_act g u) (cubic_act g v) = dot3 u v.
Proof. unfold cubic_act. now rewrite dot3_sgn, dot3_perm. Qed.
Lemma dot3_neg_l u v : dot3 (neg3 u) v = - dot3 u v.
Proof. d3 u; d3 v; simpl; ring. Qed.
Lemma dot3_scale_l g u v : dot3 (scale3 g u) v = g * dot3 u v.
Proof. d3 u; d3 v; simpl; ring. Qed.
Lemma dot3_canon_zero u v : dot3 u v = 0 -> dot3 (canon3 u) (canon3 v) = 0.
Proof.
  intros H. destruct (canon3_pm u) as [-> | ->], (canon3_pm v) as [-> | ->];
    rewrite ?dot3_neg_l, ?(dot3_comm _ (neg3 v)), ?dot3_neg_l, ?(dot3_comm v u); lia.
Qed.
Lemma dot3_reduce_zero p b : dot3 p b = 0 <-> dot3 (reduce3 p) b = 0.
Proof.
  rewrite (reduce3_scale p) at 1. rewrite dot3_scale_l. pose proof (gfac3_pos p). nia.
Qed.

Lemma ltb_scale g a : 0 < g -> (g * a <? 0) = (a <? 0).
Proof. intros Hg. destruct (Z.ltb_spec (g * a) 0), (Z.ltb_spec a 0); auto; nia. Qed.
Lemma eqb_scale g a : 0 < g -> (g * a =? 0) = (a =? 0).
Proof. intros Hg. destruct (Z.eqb_spec (g * a) 0), (Z.eqb_spec a 0); auto; nia. Qed.
Lemma canon3_scale g v : 0 < g -> canon3 (scale3 g v) = scale3 g (canon3 v).
Proof.
  intros Hg. d3 v. unfold canon3, scale3. rewrite !ltb_scale, !eqb_scale by auto.
  destruct (_ || _); unfold neg3; peq; ring.
Qed.
Lemma gfac3_canon v : gfac3 (canon3 v) = gfac3 v.
Proof. unfold gfac3. destruct (canon3_pm v) as [-> | ->]; now rewrite ?gcd3_neg. Qed.
Lemma canon3_reduce v : canon3 (reduce3 v) = reduce3 (canon3 v).
Proof.
  apply scale3_inj with (g := gfac3 v); [pose proof (gfac3_pos v); lia|].
  rewrite <- canon3_scale by apply gfac3_pos. rewrite <- reduce3_scale.
  rewrite <- (gfac3_canon v). now rewrite <- reduce3_scale.
Qed.

Lemma canon_act_in g b0 b : In b (cubic_equivalent_indices b0) -> In (canon3 (cubic_act g b)) (cubic_equivalent_indices b0).
Proof.
  intros H. apply cubic_equiv_iff in H as [_ H]. apply cubic_equiv_iff. split; [apply canon3_idem|].
  rewrite abs3_canon. unfold cubic_act. rewrite abs3_sgn, abs3_perm.
  eapply perms3_trans; [exact H|apply perms3_perm].
Qed.

Lemma same_abs_sgn u v : abs3 u = abs3 v -> exists s, In s all_signs3 /\ u = sgn3 s v.
Proof.
  d3 u; d3 v; simpl. intros H; inversion H as [[Ha Hb Hc]].
  apply Z.abs_eq_cases in Ha, Hb, Hc.
  destruct Ha as [-> | ->], Hb as [-> | ->], Hc as [-> | ->];
  [exists (false, false, false)|exists (false, false, true)|exists (false, true, false)|exists (false, true, true)|
   exists (true, false, false)|exists (true, false, true)|exists (true, true, false)|exists (true, true, true)];
  (split; [simpl; tauto|reflexivity]).
Qed.
Lemma cubic_codes_in s k : In s all_signs3 -> (k < 6)%nat -> In (s, k) cubic_codes.
Proof.
  intros Hs Hk. unfold cubic_codes. apply in_flat_map. exists s; split; auto.
  apply in_map. simpl. lia.
Qed.
Lemma cubic_equiv_orbit b0 b : In b (cubic_equivalent_indices b0) -> exists g, In g cubic_codes /\ b = cubic_act g b0.
Proof.
  intros H. apply cubic_equiv_iff in H as [_ H]. apply perms3_inv in H as (k & Hk & H).
  rewrite <- abs3_perm in H. apply same_abs_sgn in H as (s & Hs & ->).
  exists (s, k). split; [now apply cubic_codes_in|reflexivity].
Qed.

Section CubicFamily.
  Variables b0 p0 : V3.
  Let L := select dot3 (cubic_planes p0) (cubic_burgers b0).

  Lemma cubic_orthogonal : all_orthogonal dot3 L.
  Proof. intros [b p] H. apply in_select in H as (_ & _ & H). simpl. now rewrite dot3_comm. Qed.

  Lemma cubic_closed : closed_under eq_pm3 cubic_act cubic_codes L.
  Proof.
    intros [b p] g H _. apply in_select in H as (Hp & Hb & H0). simpl.
    unfold cubic_planes in Hp. apply in_map_iff in Hp as (q & <- & Hq).
    exists (canon3 (cubic_act g b), canon3 (cubic_act g (reduce3 q))). split.
    - apply in_select. repeat split.
      + rewrite <- reduce3_act, canon3_reduce. unfold cubic_planes. apply in_map. now apply canon_act_in.
      + now apply canon_act_in.
      + apply dot3_canon_zero. now rewrite dot3_act.
    - split; simpl; apply eq_pm3_of_canon.
  Qed.

  Lemma burgers_pairwise : ForallOrdPairs (fun a b => ~ eq_pm3 a b) (cubic_burgers b0).
  Proof.
    rewrite <- (map_id (cubic_burgers b0)).
    apply FOP_map with (R := fun a b => a <> b); [apply NoDup_FOP, cubic_equiv_nodup|].
    intros x y Hx Hy Hxy Heq. apply Hxy.
    apply cubic_equiv_iff in Hx as [Hx _]. apply cubic_equiv_iff in Hy as [Hy _]. now apply eq_pm3_canon.
  Qed.
  Lemma planes_pairwise : ForallOrdPairs (fun a b => ~ eq_pm3 a b) (cubic_planes p0).
  Proof.
    apply FOP_map with (R := fun a b => a <> b); [apply NoDup_FOP, cubic_equiv_nodup|].
    intros x y Hx Hy Hxy Heq. apply Hxy.
    pose proof (cubic_equiv_gfac _ _ Hx) as Gx. pose proof (cubic_equiv_gfac _ _ Hy) as Gy.
    apply cubic_equiv_iff in Hx as [Hx _]. apply cubic_equiv_iff in Hy as [Hy _].
    apply eq_pm3_canon; auto.
    rewrite (reduce3_scale x), (reduce3_scale y), Gx, Gy.
    destruct Heq as [-> | ->]; [left; reflexivity|right; apply scale3_neg].
  Qed.
  Lemma cubic_dupfree : dupfree_up_to_sign eq_pm3 L.
  Proof. apply select_pairwise; [apply planes_pairwise|apply burgers_pairwise]. Qed.

  Lemma cubic_contains_family : dot3 p0 b0 = 0 -> contains eq_pm3 L (b0, reduce3 p0).
  Proof.
    intros H0. exists (canon3 b0, canon3 (reduce3 p0)). split.
    - apply in_select. repeat split.
      + rewrite canon3_reduce. unfold cubic_planes. apply in_map. apply cubic_equiv_iff.
        split; [apply canon3_idem|]. rewrite abs3_canon. apply perms3_refl.
      + apply cubic_equiv_iff. split; [apply canon3_idem|]. rewrite abs3_canon. apply perms3_refl.
      + apply dot3_canon_zero. exact (proj1 (dot3_reduce_zero p0 b0) H0).
    - split; simpl; apply eq_pm3_of_canon.
  Qed.

  Lemma cubic_members : members_equivalent cubic_act cubic_codes b0 (reduce3 p0) L.
  Proof.
    intros [b p] H. apply in_select in H as (Hp & Hb & _). simpl. split.
    - now apply cubic_equiv_orbit.
    - unfold cubic_planes in Hp. apply in_map_iff in Hp as (q & <- & Hq).
      apply cubic_equiv_orbit in Hq as (g & Hg & ->). exists g. split; auto. apply reduce3_act.
  Qed.
End CubicFamily.

(* the group really has 48 distinct elements *)
Lemma cubic_codes_48 : length cubic_codes = 48%nat /\ NoDup (map (fun g => cubic_act g (1, 2, 3)) cubic_codes).
Proof.
  split; [reflexivity|].
  assert (E : map (fun g => cubic_act g (1, 2, 3)) cubic_codes
              = nodup V3_eq_dec (map (fun g => cubic_act g (1, 2, 3)) cubic_codes)) by (vm_compute; reflexivity).
  rewrite E. apply NoDup_nodup.
Qed.

(* ================================================================== "push if it is new" *)
Section Dedup.
  Context {A : Type} (same : A -> A -> bool).
  Let R := fun a b : A => same b a = false.
  Lemma fold_push_inv l : forall acc,
    let out := fold_left (push_new same) l acc in
    (forall y, In y out -> In y acc \/ In y l) /\ (forall x, In x acc -> In x out) /\
    (forall x, In x l -> exists y, In y out /\ (y = x \/ same x y = true)) /\
    (ForallOrdPairs R acc -> ForallOrdPairs R out).
  Proof.
    induction l as [|x l IH]; intros acc; simpl.
    - repeat split; auto. intros x [].
    - specialize (IH (push_new same acc x)). simpl in IH. destruct IH as (I1 & I2 & I3 & I4).
      assert (Hsub : forall z, In z acc -> In z (push_new same acc x)).
      { intros z Hz. unfold push_new. destruct (existsb (same x) acc); auto. apply in_or_app; auto. }
      repeat split.
      + intros y Hy. apply I1 in Hy as [Hy|Hy]; auto.
        unfold push_new in Hy. destruct (existsb (same x) acc); auto.
        apply in_app_or in Hy as [Hy|[<-|[]]]; auto.
      + intros z Hz. auto.
      + intros z [<-|Hz]; [|auto].
        unfold push_new in *. destruct (existsb (same x) acc) eqn:E.
        * apply existsb_exists in E as (y & Hy & E). exists y. split; auto.
        * exists x. split; auto. apply I2. apply in_or_app. simpl; auto.
      + intros Hacc. apply I4. unfold push_new. destruct (existsb (same x) acc) eqn:E; auto.
        apply FOP_app; auto; [repeat constructor|].
        intros a b Ha [Hb|[]]. subst b. unfold R.
        destruct (same x a) eqn:E2; auto.
        assert (existsb (same x) acc = true) by (apply existsb_exists; eauto). congruence.
  Qed.
  Lemma dedup_sub l y : In y (dedup same l) -> In y l.
  Proof. intros H. apply (fold_push_inv l []) in H as [[]|H]; auto. Qed.
  Lemma dedup_cover l x : In x l -> exists y, In y (dedup same l) /\ (y = x \/ same x y = true).
  Proof. intros H. now apply (fold_push_inv l []). Qed.
  Lemma dedup_pairwise l : ForallOrdPairs R (dedup same l).
  Proof. apply (fold_push_inv l []). constructor. Qed.
End Dedup.

(* ================================================================== four-index vectors *)
Ltac d4 v := let a := fresh "a" in let b := fresh "b" in let c := fresh "c" in let d := fresh "d" in
             destruct v as [[[a b] c] d].
Definition first3 (v : V4) : V3 := let '(a, b, c, _) := v in (a, b, c).
Definition last1 (v : V4) : Z := let '(_, _, _, d) := v in d.
Definition mk4 (q : V3) (d : Z) : V4 := let '(a, b, c) := q in (a, b, c, d).
Lemma mk4_eta v : v = mk4 (first3 v) (last1 v).
Proof. d4 v; reflexivity. Qed.
Lemma dot4_split u v : dot4 u v = dot3 (first3 u) (first3 v) + last1 u * last1 v.
Proof. d4 u; d4 v; reflexivity. Qed.
Lemma neg4_split v : neg4 v = mk4 (neg3 (first3 v)) (- last1 v).
Proof. d4 v; reflexivity. Qed.
Lemma first3_mk4 q d : first3 (mk4 q d) = q.
Proof. d3 q; reflexivity. Qed.
Lemma last1_mk4 q d : last1 (mk4 q d) = d.
Proof. d3 q; reflexivity. Qed.
Lemma hex_act_split k e1 e2 v :
  hex_act (k, e1, e2) v = mk4 (sgn3 (e1, e1, e1) (perm3 k (first3 v))) (sg e2 (last1 v)).
Proof. d4 v. unfold hex_act, first3, last1. destruct (perm3 k (a, b, c)) as [[x y] z]. reflexivity. Qed.

Lemma neg4_invol v : neg4 (neg4 v) = v.
Proof. d4 v; simpl; peq; lia. Qed.
Lemma eq_pm4_sym u v : eq_pm4 u v -> eq_pm4 v u.
Proof. intros [-> | ->]; [left|right]; auto. now rewrite neg4_invol. Qed.
Lemma eq_pm4_trans u v w : eq_pm4 u v -> eq_pm4 v w -> eq_pm4 u w.
Proof. intros [H1|H1] [H2|H2]; subst; [left|right|right|left]; auto. now rewrite neg4_invol. Qed.
Lemma eq_pm4_neg v : eq_pm4 (neg4 v) v.
Proof. right; reflexivity. Qed.

Lemma dot4_comm u v : dot4 u v = dot4 v u.
Proof. d4 u; d4 v; simpl; ring. Qed.
Lemma dot4_neg_l u v : dot4 (neg4 u) v = - dot4 u v.
Proof. d4 u; d4 v; simpl; ring. Qed.
Lemma dot4_neg_neg u v : dot4 (neg4 u) (neg4 v) = dot4 u v.
Proof. d4 u; d4 v; simpl; ring. Qed.
Lemma dot4_scale_l g u v : dot4 (scale4 g u) v = g * dot4 u v.
Proof. d4 u; d4 v; simpl; ring. Qed.
Lemma dot4_scale_scale g u v : dot4 (scale4 g u) (scale4 g v) = g * g * dot4 u v.
Proof. d4 u; d4 v; simpl; ring. Qed.
Lemma dot4_act g u v : dot4 (hex_act g u) (hex_act g v) = dot4 u v.
Proof.
  destruct g as [[k e1] e2]. rewrite !hex_act_split, dot4_split, !first3_mk4, !last1_mk4, dot3_sgn, dot3_perm.
  rewrite (dot4_split u v). destruct e2; simpl; ring.
Qed.
Lemma sq_sum0 a b c d : a * a + b * b + c * c + d * d = 0 -> a = 0 /\ b = 0 /\ c = 0 /\ d = 0.
Proof. nia. Qed.
Lemma dot4_zero u : dot4 u u = 0 -> u = (0, 0, 0, 0).
Proof. d4 u; simpl. intros H. apply sq_sum0 in H as (-> & -> & -> & ->). reflexivity. Qed.
(* equality case of Cauchy-Schwarz for vectors of equal norm *)
Lemma cs_equal u v : dot4 u u = dot4 v v -> dot4 u u * dot4 v v = dot4 u v * dot4 u v -> eq_pm4 u v.
Proof.
  intros Hn Hc. rewrite <- Hn in Hc.
  assert (Hcase : dot4 u v = dot4 u u \/ dot4 u v = - dot4 u u) by nia.
  d4 u; d4 v; simpl in *. destruct Hcase as [H|H].
  - left. assert (E : (a - a0) * (a - a0) + (b - b0) * (b - b0) + (c - c0) * (c - c0) + (d - d0) * (d - d0) = 0) by nia.
    apply sq_sum0 in E. peq; lia.
  - right. assert (E : (a + a0) * (a + a0) + (b + b0) * (b + b0) + (c + c0) * (c + c0) + (d + d0) * (d + d0) = 0) by nia.
    apply sq_sum0 in E. unfold neg4. peq; lia.
Qed.
Lemma plane_same_pm u v : eq_pm4 u v -> plane_same u v = true.
Proof.
  unfold plane_same. intros [-> | ->]; apply Z.eqb_eq; rewrite ?dot4_neg_neg, ?dot4_neg_l; ring.
Qed.
Lemma plane_same_inv u v : plane_same u v = true -> dot4 u u = dot4 v v -> eq_pm4 u v.
Proof. unfold plane_same. intros H Hn. apply Z.eqb_eq in H. now apply cs_equal. Qed.
Lemma burgers_same_pm u v : eq_pm4 u v -> burgers_same u v = true.
Proof.
  unfold burgers_same. intros [-> | ->]; rewrite ?dot4_neg_neg, ?dot4_neg_l;
    destruct (negb _ && negb _); apply Z.eqb_eq; ring.
Qed.
Lemma burgers_same_inv u v : burgers_same u v = true -> dot4 u u = dot4 v v -> eq_pm4 u v.
Proof.
  unfold burgers_same. intros H Hn.
  destruct (Z.eqb_spec (dot4 u u) 0) as [E|E]; simpl in H.
  - rewrite E in Hn. symmetry in Hn. apply dot4_zero in E, Hn. subst. left; reflexivity.
  - destruct (Z.eqb_spec (dot4 v v) 0) as [E'|E']; simpl in H; [lia|].
    apply Z.eqb_eq in H. now apply cs_equal.
Qed.

(* ------------------------------------------------------------------ candidates of the HCP generators *)
Lemma perms3_sort_iff q v : In q (perms3 (sort3 v)) <-> In q (perms3 v).
Proof.
  split; intros H.
  - eapply perms3_trans; [apply sort3_perm|exact H].
  - eapply perms3_trans; [apply perms3_sym, sort3_perm|exact H].
Qed.
Lemma cand_iff both v w :
  In w (hcp_candidates both v) <->
  In (first3 w) (perms3 (first3 v)) /\ (last1 w = last1 v \/ (both = true /\ last1 w = - last1 v)).
Proof.
  d4 v. unfold hcp_candidates. rewrite in_flat_map. cbn [first3 last1]. split.
  - intros (q & Hq & Hw). apply (proj1 (perms3_sort_iff _ _)) in Hq. d3 q.
    destruct both; simpl in Hw; [destruct (Z.eqb_spec d 0); simpl in Hw|];
      intuition subst; cbn [first3 last1]; auto.
  - intros [Hq Hd]. exists (first3 w). split; [now apply (proj2 (perms3_sort_iff _ _))|].
    d4 w. cbn [first3 last1] in *.
    destruct both; simpl; [destruct (Z.eqb_spec d 0); simpl|].
    + left. f_equal. lia.
    + destruct Hd as [-> | [_ ->]]; auto.
    + left. f_equal. destruct Hd as [-> | [? _]]; [auto|discriminate].
Qed.
Lemma cand_self both v : In v (hcp_candidates both v).
Proof. apply cand_iff. split; [apply perms3_refl|auto]. Qed.
Lemma cand_norm both v w : In w (hcp_candidates both v) -> dot4 w w = dot4 v v.
Proof.
  intros H. apply cand_iff in H as [Hq Hd]. apply perms3_inv in Hq as (k & _ & Hq).
  rewrite !dot4_split, Hq, dot3_perm. destruct Hd as [-> | [_ ->]]; ring.
Qed.

Lemma hex_codes_in k e1 e2 : (k < 6)%nat -> In (k, e1, e2) hex_codes.
Proof.
  intros Hk. unfold hex_codes. apply in_flat_map. exists k. split; [simpl; lia|].
  destruct e1, e2; simpl; auto.
Qed.
Lemma cand_member both v w : In w (hcp_candidates both v) -> exists g, In g hex_codes /\ w = hex_act g v.
Proof.
  intros H. apply cand_iff in H as [Hq Hd]. apply perms3_inv in Hq as (k & Hk & Hq).
  assert (E : exists e2, last1 w = sg e2 (last1 v)).
  { destruct Hd as [-> | [_ ->]]; [exists false|exists true]; reflexivity. }
  destruct E as (e2 & E). exists (k, false, e2). split; [now apply hex_codes_in|].
  rewrite hex_act_split, <- Hq, <- E. rewrite (mk4_eta w) at 1. f_equal.
  destruct (first3 w) as [[x y] z]; reflexivity.
Qed.
Lemma neg3_sgn_ttt x : neg3 (sgn3 (true, true, true) x) = x.
Proof. d3 x; simpl; teq. Qed.
Lemma cand_closed v w g :
  In w (hcp_candidates true v) ->
  In (hex_act g w) (hcp_candidates true v) \/ In (neg4 (hex_act g w)) (hcp_candidates true v).
Proof.
  intros H. apply cand_iff in H as [Hq Hd]. destruct g as [[k e1] e2].
  assert (Hp : In (perm3 k (first3 w)) (perms3 (first3 v))) by (eapply perms3_trans; [exact Hq|apply perms3_perm]).
  assert (Hl : forall e, sg e (last1 w) = last1 v \/ sg e (last1 w) = - last1 v).
  { intros e. destruct e, Hd as [-> | [_ ->]]; simpl; lia. }
  destruct e1; [right|left]; apply cand_iff; rewrite ?neg4_split, hex_act_split, ?first3_mk4, ?last1_mk4.
  - rewrite ?first3_mk4, ?last1_mk4, neg3_sgn_ttt. split; auto.
    destruct (Hl e2) as [-> | ->]; [right; split; auto|left; lia].
  - split; [destruct (perm3 k (first3 w)) as [[x y] z]; exact Hp|].
    destruct (Hl e2) as [-> | ->]; auto.
Qed.

(* ------------------------------------------------------------------ gcd reduction, four indices *)
Definition gfac4 (v : V4) : Z := if gcd4 v =? 0 then 1 else gcd4 v.
Lemma gcd4_split v : gcd4 v = Z.gcd (gcd3 (first3 v)) (last1 v).
Proof. d4 v; reflexivity. Qed.
Lemma gfac4_pos v : 0 < gfac4 v.
Proof.
  unfold gfac4. assert (0 <= gcd4 v) by (rewrite gcd4_split; apply Z.gcd_nonneg).
  destruct (Z.eqb_spec (gcd4 v) 0); lia.
Qed.
Lemma reduce4_scale v : v = scale4 (gfac4 v) (reduce4 v).
Proof.
  unfold gfac4, reduce4. destruct (Z.eqb_spec (gcd4 v) 0) as [E|E].
  - d4 v. unfold scale4. rewrite !Z.mul_1_l. reflexivity.
  - d4 v. unfold gcd4 in *. simpl.
    set (g := Z.gcd (Z.gcd (Z.gcd a b) c) d) in *.
    assert (Hd : (g | d)) by apply Z.gcd_divide_r.
    assert (Habc : (g | Z.gcd (Z.gcd a b) c)) by apply Z.gcd_divide_l.
    assert (Hc : (g | c)) by (eapply Z.divide_trans; [exact Habc|apply Z.gcd_divide_r]).
    assert (Hab : (g | Z.gcd a b)) by (eapply Z.divide_trans; [exact Habc|apply Z.gcd_divide_l]).
    assert (Ha : (g | a)) by (eapply Z.divide_trans; [exact Hab|apply Z.gcd_divide_l]).
    assert (Hb : (g | b)) by (eapply Z.divide_trans; [exact Hab|apply Z.gcd_divide_r]).
    rewrite !div_exact_mul; auto.
Qed.
Lemma gcd4_act g v : gcd4 (hex_act g v) = gcd4 v.
Proof.
  destruct g as [[k e1] e2]. rewrite hex_act_split, !gcd4_split, first3_mk4, last1_mk4, gcd3_sgn, gcd3_perm.
  destruct e2; simpl; rewrite ?Z.gcd_opp_r; reflexivity.
Qed.
Lemma gcd4_neg v : gcd4 (neg4 v) = gcd4 v.
Proof. rewrite neg4_split, !gcd4_split, first3_mk4, last1_mk4, gcd3_neg, Z.gcd_opp_r. reflexivity. Qed.
Lemma scale4_inj g u v : g <> 0 -> scale4 g u = scale4 g v -> u = v.
Proof. d4 u; d4 v; simpl. intros Hg H. inversion H. peq; nia. Qed.
Lemma scale4_neg g v : scale4 g (neg4 v) = neg4 (scale4 g v).
Proof. d4 v; simpl. peq; ring. Qed.
Lemma scale4_act h g v : scale4 h (hex_act g v) = hex_act g (scale4 h v).
Proof.
  destruct g as [[k e1] e2]. d4 v. unfold hex_act, scale4.
  destruct k as [|[|[|[|[|[|k]]]]]]; cbn [perm3]; destruct e1, e2; simpl; peq; ring.
Qed.
Lemma reduce4_act g v : reduce4 (hex_act g v) = hex_act g (reduce4 v).
Proof.
  apply scale4_inj with (g := gfac4 v); [pose proof (gfac4_pos v); lia|].
  rewrite scale4_act, <- reduce4_scale.
  replace (gfac4 v) with (gfac4 (hex_act g v)) by (unfold gfac4; now rewrite gcd4_act).
  now rewrite <- reduce4_scale.
Qed.
Lemma reduce4_neg v : reduce4 (neg4 v) = neg4 (reduce4 v).
Proof.
  apply scale4_inj with (g := gfac4 v); [pose proof (gfac4_pos v); lia|].
  rewrite scale4_neg, <- reduce4_scale.
  replace (gfac4 v) with (gfac4 (neg4 v)) by (unfold gfac4; now rewrite gcd4_neg).
  now rewrite <- reduce4_scale.
Qed.
Lemma cand_gfac both v w : In w (hcp_candidates both v) -> gfac4 w = gfac4 v.
Proof.
  intros H. apply cand_member in H as (g & _ & ->). unfold gfac4. now rewrite gcd4_act.
Qed.
Lemma cand_reduce_norm both v q q' :
  In q (hcp_candidates both v) -> In q' (hcp_candidates both v) ->
  dot4 (reduce4 q) (reduce4 q) = dot4 (reduce4 q') (reduce4 q').
Proof.
  intros H H'. pose proof (cand_norm _ _ _ H) as N. pose proof (cand_norm _ _ _ H') as N'.
  rewrite (reduce4_scale q) in N. rewrite (reduce4_scale q') in N'.
  rewrite (cand_gfac _ _ _ H), dot4_scale_scale in N. rewrite (cand_gfac _ _ _ H'), dot4_scale_scale in N'.
  pose proof (gfac4_pos v). nia.
Qed.

(* ------------------------------------------------------------------ one generator: dedup same (map f candidates) *)
Section Generator.
  Variable same : V4 -> V4 -> bool.
  Variable f : V4 -> V4.
  Variable both : bool.
  Variable v0 : V4.
  Hypothesis same_pm : forall u v, eq_pm4 u v -> same u v = true.
  Hypothesis same_inv : forall u v, same u v = true -> dot4 u u = dot4 v v -> eq_pm4 u v.
  Hypothesis f_act : forall g v, f (hex_act g v) = hex_act g (f v).
  Hypothesis f_neg : forall v, f (neg4 v) = neg4 (f v).
  Hypothesis f_norm : forall q q', In q (hcp_candidates both v0) -> In q' (hcp_candidates both v0) ->
                                   dot4 (f q) (f q) = dot4 (f q') (f q').
  (* the candidates, in any order *)
  Variable cands : list V4.
  Hypothesis cands_iff : forall w, In w cands <-> In w (hcp_candidates both v0).
  Let out := dedup same (map f cands).

  Lemma gen_member y : In y out -> exists q, In q (hcp_candidates both v0) /\ y = f q.
  Proof. intros H. apply dedup_sub in H. apply in_map_iff in H as (q & <- & Hq). apply cands_iff in Hq. eauto. Qed.
  Lemma gen_cover q : In q (hcp_candidates both v0) -> exists y, In y out /\ eq_pm4 y (f q).
  Proof.
    intros Hq. destruct (dedup_cover same (map f cands) (f q)) as (y & Hy & E).
    { apply in_map. now apply cands_iff. }
    exists y. split; auto. destruct E as [-> | E]; [left; reflexivity|].
    apply eq_pm4_sym. apply same_inv; auto.
    apply gen_member in Hy as (q' & Hq' & ->). now apply f_norm.
  Qed.
  Lemma gen_pairwise : ForallOrdPairs (fun a b => ~ eq_pm4 a b) out.
  Proof.
    rewrite <- (map_id out).
    apply FOP_map with (R := fun a b => same b a = false); [apply dedup_pairwise|].
    intros x y _ _ Hs He. apply eq_pm4_sym in He. apply same_pm in He. unfold id in *. congruence.
  Qed.
  Lemma gen_orbit y : In y out -> exists g, In g hex_codes /\ y = hex_act g (f v0).
  Proof.
    intros H. apply gen_member in H as (q & Hq & ->). apply cand_member in Hq as (g & Hg & ->).
    exists g. split; auto.
  Qed.
  Lemma gen_closed y g : both = true -> In y out -> exists y', In y' out /\ eq_pm4 y' (hex_act g y).
  Proof.
    intros Hb H. apply gen_member in H as (q & Hq & ->).
    assert (Hq' : In q (hcp_candidates true v0)) by (rewrite <- Hb; exact Hq).
    destruct (cand_closed v0 q g Hq') as [Hc|Hc]; rewrite <- Hb in Hc;
      apply gen_cover in Hc as (y' & Hy' & E); exists y'; split; auto.
    - now rewrite <- f_act.
    - rewrite f_neg, f_act in E. eapply eq_pm4_trans; [exact E|apply eq_pm4_neg].
  Qed.
End Generator.

Lemma dot4_pm_zero u u' v v' : eq_pm4 u' u -> eq_pm4 v' v -> dot4 u v = 0 -> dot4 u' v' = 0.
Proof.
  intros [-> | ->] [-> | ->] H; rewrite ?dot4_neg_neg, ?dot4_neg_l, ?(dot4_comm _ (neg4 v)), ?dot4_neg_l, ?(dot4_comm v u); lia.
Qed.
Lemma dot4_reduce_zero p b : dot4 p b = 0 <-> dot4 (reduce4 p) b = 0.
Proof. rewrite (reduce4_scale p) at 1. rewrite dot4_scale_l. pose proof (gfac4_pos p). nia. Qed.

Lemma plane_cands_iff both v w : In w (hcp_plane_candidates both v) <-> In w (hcp_candidates both v).
Proof.
  d4 v. unfold hcp_plane_candidates. rewrite in_app_iff.
  assert (E : In w (if both && negb (d =? 0) then hcp_candidates false (a, b, c, - d) else [])
              <-> (both = true /\ d <> 0 /\ In w (hcp_candidates false (a, b, c, - d)))).
  { destruct both; cbn [andb]; [destruct (Z.eqb_spec d 0); cbn [negb]|]; cbn [In];
      intuition (try discriminate; try lia). }
  rewrite E, !cand_iff. cbn [first3 last1].
  destruct (Z.eq_dec d 0); intuition (try discriminate; try lia).
Qed.
Lemma burgers_norm b0 q q' :
  In q (hcp_candidates true b0) -> In q' (hcp_candidates true b0) -> dot4 (id q) (id q) = dot4 (id q') (id q').
Proof. intros H1 H2. unfold id. rewrite (cand_norm _ _ _ H1), (cand_norm _ _ _ H2). reflexivity. Qed.

Section HCPFamily.
  Variable both : bool.
  Variables b0 p0 : V4.
  Let L := select dot4 (hcp_planes both p0) (hcp_burgers b0).
  
  Lemma hcp_orthogonal : all_orthogonal dot4 L.
  Proof. intros [b p] H. apply in_select in H as (_ & _ & H). simpl. now rewrite dot4_comm. Qed.

  Lemma hcp_burgers_pairwise : ForallOrdPairs (fun a b => ~ eq_pm4 a b) (hcp_burgers b0).
  Proof.
    unfold hcp_burgers. rewrite <- (map_id (hcp_candidates true b0)).
    apply gen_pairwise. apply burgers_same_pm.
  Qed.
  Lemma hcp_planes_pairwise : ForallOrdPairs (fun a b => ~ eq_pm4 a b) (hcp_planes both p0).
  Proof. unfold hcp_planes. apply gen_pairwise. apply plane_same_pm. Qed.
  Lemma hcp_dupfree : dupfree_up_to_sign eq_pm4 L.
  Proof. apply select_pairwise; [apply hcp_planes_pairwise|apply hcp_burgers_pairwise]. Qed.

  Lemma hcp_burgers_cover q : In q (hcp_candidates true b0) -> exists y, In y (hcp_burgers b0) /\ eq_pm4 y q.
  Proof.
    intros Hq. unfold hcp_burgers. rewrite <- (map_id (hcp_candidates true b0)).
    exact (gen_cover burgers_same id true b0 burgers_same_inv (burgers_norm b0) _ (fun w => iff_refl _) q Hq).
  Qed.
  Lemma hcp_planes_cover q : In q (hcp_candidates both p0) -> exists y, In y (hcp_planes both p0) /\ eq_pm4 y (reduce4 q).
  Proof.
    intros Hq. unfold hcp_planes.
    exact (gen_cover plane_same reduce4 both p0 plane_same_inv (cand_reduce_norm both p0) _ (plane_cands_iff both p0) q Hq).
  Qed.

  Lemma hcp_contains_family : dot4 p0 b0 = 0 -> contains eq_pm4 L (b0, reduce4 p0).
  Proof.
    intros H0. destruct (hcp_burgers_cover b0 (cand_self _ _)) as (b & Hb & Eb).
    destruct (hcp_planes_cover p0 (cand_self _ _)) as (p & Hp & Ep).
    exists (b, p). split; [|split; auto].
    apply in_select. repeat split; auto.
    apply (dot4_pm_zero (reduce4 p0) p b0 b Ep Eb). exact (proj1 (dot4_reduce_zero p0 b0) H0).
  Qed.

  Lemma hcp_members : members_equivalent hex_act hex_codes b0 (reduce4 p0) L.
  Proof.
    intros [b p] H. apply in_select in H as (Hp & Hb & _). simpl. split.
    - unfold hcp_burgers in Hb. apply dedup_sub in Hb. now apply (cand_member true).
    - unfold hcp_planes in Hp. apply dedup_sub in Hp. apply in_map_iff in Hp as (q & <- & Hq).
      apply plane_cands_iff in Hq. apply (cand_member both) in Hq as (g & Hg & ->). exists g. split; auto. apply reduce4_act.
  Qed.

  Lemma hcp_closed : both = true -> closed_under eq_pm4 hex_act hex_codes L.
  Proof.
    intros Hboth [b p] g H _. apply in_select in H as (Hp & Hb & H0). simpl.
    assert (Eb : exists b', In b' (hcp_burgers b0) /\ eq_pm4 b' (hex_act g b)).
    { unfold hcp_burgers in *. rewrite <- (map_id (hcp_candidates true b0)) in *.
      exact (gen_closed burgers_same id true b0 burgers_same_inv (fun _ _ => eq_refl) (fun _ => eq_refl)
                        (burgers_norm b0) _ (fun w => iff_refl _) b g eq_refl Hb). }
    assert (Ep : exists p', In p' (hcp_planes both p0) /\ eq_pm4 p' (hex_act g p)).
    { unfold hcp_planes in *.
      exact (gen_closed plane_same reduce4 both p0 plane_same_inv reduce4_act reduce4_neg
                        (cand_reduce_norm both p0) _ (plane_cands_iff both p0) p g Hboth Hp). }
    destruct Eb as (b' & Hb' & Eb). destruct Ep as (p' & Hp' & Ep).
    exists (b', p'). split; [|split; auto].
    apply in_select. repeat split; auto.
    apply (dot4_pm_zero (hex_act g p) p' (hex_act g b) b' Ep Eb). now rewrite dot4_act.
  Qed.
End HCPFamily.

(* the pinned code: the plane generator never negates the fourth index *)
Lemma hcp_closed_refuted :
  exists b0 p0 L, mb_constraint b0 /\ mb_constraint p0 /\ hcp_systems false b0 p0 = Some L /\
                  ~ closed_under eq_pm4 hex_act hex_codes L.
Proof.
  exists (1, 1, -2, -3), (1, 1, -2, 2). eexists. split; [reflexivity|]. split; [reflexivity|].
  split; [vm_compute; reflexivity|].
  intros H. destruct (H ((1, 1, -2, -3), (1, 1, -2, 2)) (0%nat, false, true)) as (t & Ht & _ & Hpl).
  - simpl; auto.
  - apply hex_codes_in; lia.
  - simpl in Ht. destruct Ht as [<-|[<-|[<-|[]]]]; destruct Hpl as [Hpl|Hpl]; discriminate Hpl.
Qed.
Lemma hex_codes_24 : length hex_codes = 24%nat /\ NoDup (map (fun g => hex_act g (1, 2, -3, 5)) hex_codes).
Proof.
  split; [reflexivity|]. repeat constructor; simpl; intuition discriminate.
Qed.

(* ================================================================== wrappers used by the property files *)
Lemma cubic_family_ok b0 p0 L :
  cubic_systems b0 p0 = Some L ->
  all_orthogonal dot3 L /\ dupfree_up_to_sign eq_pm3 L /\ closed_under eq_pm3 cubic_act cubic_codes L /\
  contains eq_pm3 L (b0, reduce3 p0) /\ members_equivalent cubic_act cubic_codes b0 (reduce3 p0) L.
Proof.
  unfold cubic_systems. destruct (Z.eqb_spec (dot3 p0 b0) 0) as [E|E]; [|discriminate].
  intros H; inversion H; subst L. split; [|split; [|split; [|split]]].
  - apply cubic_orthogonal.
  - apply cubic_dupfree.
  - apply cubic_closed.
  - now apply cubic_contains_family.
  - apply cubic_members.
Qed.
Lemma cubic_error_iff b0 p0 : cubic_systems b0 p0 = None <-> dot3 b0 p0 <> 0.
Proof.
  unfold cubic_systems. rewrite (dot3_comm b0 p0). destruct (Z.eqb_spec (dot3 p0 b0) 0); split; intros; try discriminate; tauto.
Qed.
Lemma hcp_family_ok both b0 p0 L :
  hcp_systems both b0 p0 = Some L ->
  all_orthogonal dot4 L /\ dupfree_up_to_sign eq_pm4 L /\
  contains eq_pm4 L (b0, reduce4 p0) /\ members_equivalent hex_act hex_codes b0 (reduce4 p0) L.
Proof.
  unfold hcp_systems. destruct (Z.eqb_spec (dot4 p0 b0) 0) as [E|E]; [|discriminate].
  intros H; inversion H; subst L. split; [|split; [|split]].
  - apply hcp_orthogonal.
  - apply hcp_dupfree.
  - now apply hcp_contains_family.
  - apply hcp_members.
Qed.
Lemma hcp_family_closed b0 p0 L :
  hcp_systems true b0 p0 = Some L -> closed_under eq_pm4 hex_act hex_codes L.
Proof.
  unfold hcp_systems. destruct (dot4 p0 b0 =? 0); [|discriminate].
  intros H; inversion H; subst L. now apply hcp_closed.
Qed.
(* the Burgers-vector half of the pinned generator is closed: only the plane half is not *)
Lemma hcp_burgers_closed b0 b g :
  In b (hcp_burgers b0) -> In g hex_codes -> exists b', In b' (hcp_burgers b0) /\ eq_pm4 b' (hex_act g b).
Proof.
  intros Hb _. unfold hcp_burgers in *. rewrite <- (map_id (hcp_candidates true b0)) in *.
  exact (gen_closed burgers_same id true b0 burgers_same_inv (fun _ _ => eq_refl) (fun _ => eq_refl)
                    (burgers_norm b0) _ (fun w => iff_refl _) b g eq_refl Hb).
Qed.
Lemma hcp_error_iff both b0 p0 : hcp_systems both b0 p0 = None <-> dot4 b0 p0 <> 0.
Proof.
  unfold hcp_systems. rewrite (dot4_comm b0 p0). destruct (Z.eqb_spec (dot4 p0 b0) 0); split; intros; try discriminate; tauto.
Qed.

(* C56 -- property theorems (statements only; proofs are in C56Proofs.v and C56Geometry.v). *)
From Coq Require Import ZArith List Reals.
From C56 Require Import C56Spec C56Model C56Proofs C56Geometry.
Import ListNotations.

(* Cubic / FCC / BCC: for EVERY integer family <b0>{p0} accepted by the generator, the generated list keeps b.n = 0,
   has no duplicate up to the signs of b and n, is closed under the 48 signed permutations, contains the family
   itself (plane indices divided by their gcd) and only holds vectors equivalent to b0 and planes equivalent to p0 *)
Theorem C56_cubic_family : forall (b0 p0 : V3) (L : list (V3 * V3)),
  cubic_systems b0 p0 = Some L ->
  all_orthogonal dot3 L /\ dupfree_up_to_sign eq_pm3 L /\ closed_under eq_pm3 cubic_act cubic_codes L /\
  contains eq_pm3 L (b0, reduce3 p0) /\ members_equivalent cubic_act cubic_codes b0 (reduce3 p0) L.
Proof. exact cubic_family_ok. Qed.
Print Assumptions C56_cubic_family.

(* the generator refuses exactly the families whose Burgers vector is not in the plane *)
Theorem C56_cubic_error : forall b0 p0 : V3, cubic_systems b0 p0 = None <-> dot3 b0 p0 <> 0%Z.
Proof. exact cubic_error_iff. Qed.
Print Assumptions C56_cubic_error.

(* the symmetry sets of the specification are the full point groups: 48 and 24 pairwise distinct operations *)
Theorem C56_groups :
  (length cubic_codes = 48%nat /\ NoDup (map (fun g => cubic_act g (1, 2, 3)%Z) cubic_codes)) /\
  (length hex_codes = 24%nat /\ NoDup (map (fun g => hex_act g (1, 2, -3, 5)%Z) hex_codes)).
Proof. exact (conj cubic_codes_48 hex_codes_24). Qed.
Print Assumptions C56_groups.

(* HCP, both variants of the plane generator: orthogonality, no duplicate up to sign, the family itself is there,
   members are equivalent to the family under the hexagonal group *)
Theorem C56_hcp_family : forall (both : bool) (b0 p0 : V4) (L : list (V4 * V4)),
  hcp_systems both b0 p0 = Some L ->
  all_orthogonal dot4 L /\ dupfree_up_to_sign eq_pm4 L /\
  contains eq_pm4 L (b0, reduce4 p0) /\ members_equivalent hex_act hex_codes b0 (reduce4 p0) L.
Proof. exact hcp_family_ok. Qed.
Print Assumptions C56_hcp_family.

Theorem C56_hcp_error : forall (both : bool) (b0 p0 : V4), hcp_systems both b0 p0 = None <-> dot4 b0 p0 <> 0%Z.
Proof. exact hcp_error_iff. Qed.
Print Assumptions C56_hcp_error.

(* the Burgers-vector generator of HCP is closed under the hexagonal group *)
Theorem C56_hcp_burgers_closed : forall (b0 b : V4) g,
  In b (hcp_burgers b0) -> In g hex_codes -> exists b', In b' (hcp_burgers b0) /\ eq_pm4 b' (hex_act g b).
Proof. exact hcp_burgers_closed. Qed.
Print Assumptions C56_hcp_burgers_closed.

(* real space: unit normal, unit slip direction, orthogonal *)
Theorem C56_cubic_geometry : forall b p : V3,
  dot3 b p = 0%Z -> b <> zero3 -> p <> zero3 ->
  is_unit (cubic_direction b) /\ is_unit (cubic_normal p) /\ rdot (cubic_direction b) (cubic_normal p) = 0%R.
Proof. exact cubic_geometry. Qed.
Print Assumptions C56_cubic_geometry.

Theorem C56_hcp_geometry : forall (ratio : R), ratio <> 0%R -> forall b p : V4,
  dot4 b p = 0%Z -> mb_constraint b -> mb_constraint p -> b <> (0, 0, 0, 0)%Z -> p <> (0, 0, 0, 0)%Z ->
  is_unit (hcp_direction ratio b) /\ is_unit (hcp_normal ratio p) /\
  rdot (hcp_direction ratio b) (hcp_normal ratio p) = 0%R.
Proof. exact hcp_geometry. Qed.
Print Assumptions C56_hcp_geometry.

(* Schmid factors of an orthonormal (m, n) under any unit loading direction lie in [-1/2, 1/2] *)
Theorem C56_schmid_bound : forall d m n : R3,
  is_unit d -> is_unit m -> is_unit n -> rdot m n = 0%R -> (- (1 / 2) <= schmid d m n <= 1 / 2)%R.
Proof. exact schmid_bound. Qed.
Print Assumptions C56_schmid_bound.

(* the nine numbers of getOrientationTensor(n, m) are m (x) n in TFEL's component order; the nine-product sum of
   getSchmidFactors is the Schmid factor, which only sees the symmetrised tensor *)
Theorem C56_orientation_tensor : forall d n m : R3,
  orientation_tensor n m = map (fun ij => dyad m n (fst ij) (snd ij)) tfel_tensor_order /\
  schmid_code d (orientation_tensor n m) = schmid d m n /\
  schmid d m n = contract (dyad d d) (dyad m n) /\ schmid d m n = contract (dyad d d) (sym_part (dyad m n)).
Proof.
  intros d n m. exact (conj (orientation_tensor_is_dyad n m) (conj (schmid_code_is_schmid d n m) (schmid_is_contraction d m n))).
Qed.
Print Assumptions C56_orientation_tensor.

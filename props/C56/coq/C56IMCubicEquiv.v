(* C56 -- interaction-matrix structure, Cubic / FCC / BCC: for every list of systems without null vector the relation
   tested by numodis::Hardening (48 index operations, collinearity of planes and of Burgers vectors) is an equivalence
   relation, hence (C56IMGeneral.classes_are_E_classes) the classes of equal rank are exactly its classes. *)
From Coq Require Import ZArith List Bool Arith Lia.
From C56 Require Import C56Spec C56IMModel C56IMGeneral.
Import ListNotations.
Local Open Scope Z_scope.

(* ------------------------------------------------------------------ the 48 operations: descriptors *)
Definition desc := ((nat * bool) * (nat * bool) * (nat * bool))%type.
Definition cubic_desc (k : nat) : desc :=
  let p := (k mod 6)%nat in let s := (k / 6)%nat in
  ((perm_idx p 0, odd_code (s / 4)), (perm_idx p 1, odd_code ((s / 2) mod 2)), (perm_idx p 2, odd_code (s mod 2))).
Definition apply_desc (d : desc) (v : V3) : V3 :=
  let '(d0, d1, d2) := d in
  (sg (snd d0) (nth3 v (fst d0)), sg (snd d1) (nth3 v (fst d1)), sg (snd d2) (nth3 v (fst d2))).
Lemma cubic_sym_desc : forall k v, cubic_sym k v = apply_desc (cubic_desc k) v.
Proof. reflexivity. Qed.
Definition dnth (d : desc) (i : nat) : nat * bool :=
  let '(d0, d1, d2) := d in match i with 0%nat => d0 | 1%nat => d1 | _ => d2 end.
Lemma nth3_apply : forall d v i, nth3 (apply_desc d v) i = sg (snd (dnth d i)) (nth3 v (fst (dnth d i))).
Proof. intros [[d0 d1] d2] v [|[|i]]; reflexivity. Qed.
Lemma sg_sg : forall s t x, sg s (sg t x) = sg (xorb s t) x.
Proof. intros [|] [|] x; cbn; lia. Qed.
Definition comp_desc (d1 d2 : desc) : desc :=
  let f := fun c : nat * bool => (fst (dnth d2 (fst c)), xorb (snd c) (snd (dnth d2 (fst c)))) in
  let '(a, b, c) := d1 in (f a, f b, f c).
Lemma apply_comp : forall d1 d2 v, apply_desc d1 (apply_desc d2 v) = apply_desc (comp_desc d1 d2) v.
Proof.
  intros [[a b] c] d2 v. unfold comp_desc. cbn [apply_desc fst snd]. rewrite !nth3_apply, !sg_sg. reflexivity.
Qed.
(* descriptors compared through the index really used by nth3 *)
Definition idx_norm (i : nat) : nat := match i with 0%nat => 0%nat | 1%nat => 1%nat | _ => 2%nat end.
Definition comp_eqb (c1 c2 : nat * bool) : bool := (idx_norm (fst c1) =? idx_norm (fst c2))%nat && Bool.eqb (snd c1) (snd c2).
Definition desc_eqb (d1 d2 : desc) : bool :=
  let '(a, b, c) := d1 in let '(x, y, z) := d2 in comp_eqb a x && comp_eqb b y && comp_eqb c z.
Lemma nth3_norm : forall v i, nth3 v i = nth3 v (idx_norm i).
Proof. intros [[a b] c] [|[|i]]; reflexivity. Qed.
Lemma comp_eqb_ok : forall c1 c2 v, comp_eqb c1 c2 = true -> sg (snd c1) (nth3 v (fst c1)) = sg (snd c2) (nth3 v (fst c2)).
Proof.
  intros [i s] [j t] v H. unfold comp_eqb in H. cbn [fst snd] in *. apply andb_true_iff in H. destruct H as [H1 H2].
  apply Nat.eqb_eq in H1. apply eqb_prop in H2. subst t. rewrite (nth3_norm v i), (nth3_norm v j), H1. reflexivity.
Qed.
Lemma desc_eqb_ok : forall d1 d2 v, desc_eqb d1 d2 = true -> apply_desc d1 v = apply_desc d2 v.
Proof.
  intros [[a b] c] [[x y] z] v H. unfold desc_eqb in H. apply andb_true_iff in H. destruct H as [H H3].
  apply andb_true_iff in H. destruct H as [H1 H2]. cbn [apply_desc].
  rewrite (comp_eqb_ok _ _ v H1), (comp_eqb_ok _ _ v H2), (comp_eqb_ok _ _ v H3). reflexivity.
Qed.

Definition ks : list nat := seq 0 48.
Lemma in_ks : forall k, In k ks <-> (k < 48)%nat.
Proof. intros k. unfold ks. rewrite in_seq. lia. Qed.
Lemma closure_check : forallb (fun k1 => forallb (fun k2 =>
    existsb (fun k3 => desc_eqb (cubic_desc k3) (comp_desc (cubic_desc k1) (cubic_desc k2))) ks) ks) ks = true.
Proof. vm_compute. reflexivity. Qed.
Lemma cubic_sym_comp : forall k1 k2, (k1 < 48)%nat -> (k2 < 48)%nat ->
  exists k3, (k3 < 48)%nat /\ forall v, cubic_sym k3 v = cubic_sym k1 (cubic_sym k2 v).
Proof.
  intros k1 k2 H1 H2. pose proof closure_check as C. rewrite forallb_forall in C. specialize (C k1 (proj2 (in_ks k1) H1)).
  rewrite forallb_forall in C. specialize (C k2 (proj2 (in_ks k2) H2)). apply existsb_exists in C. destruct C as [k3 [Hk3 E]].
  exists k3. split; [apply in_ks; exact Hk3|]. intros v. rewrite !cubic_sym_desc, apply_comp. apply desc_eqb_ok. exact E.
Qed.
Lemma inverse_check : forallb (fun k => existsb (fun k' => desc_eqb (comp_desc (cubic_desc k') (cubic_desc k)) (cubic_desc 0)) ks) ks = true.
Proof. vm_compute. reflexivity. Qed.
Lemma cubic_sym_inv : forall k, (k < 48)%nat -> exists k', (k' < 48)%nat /\ forall v, cubic_sym k' (cubic_sym k v) = v.
Proof.
  intros k H. pose proof inverse_check as C. rewrite forallb_forall in C. specialize (C k (proj2 (in_ks k) H)).
  apply existsb_exists in C. destruct C as [k' [Hk' E]]. exists k'. split; [apply in_ks; exact Hk'|].
  intros v. rewrite !cubic_sym_desc, apply_comp, (desc_eqb_ok _ _ v E). rewrite <- cubic_sym_desc. apply cubic_sym0.
Qed.
(* the operations are isometries of the integer dot product *)
Lemma dot_check : forallb (fun k => let '(a, b, c) := cubic_desc k in
    let i := idx_norm (fst a) in let j := idx_norm (fst b) in let l := idx_norm (fst c) in
    negb (i =? j)%nat && negb (i =? l)%nat && negb (j =? l)%nat) ks = true.
Proof. vm_compute. reflexivity. Qed.
Lemma sg_mul : forall s x y, sg s x * sg s y = x * y.
Proof. intros [|] x y; unfold sg; ring. Qed.
Lemma cubic_sym_dot : forall k, (k < 48)%nat -> forall u v, dot3 (cubic_sym k u) (cubic_sym k v) = dot3 u v.
Proof.
  intros k H u v. pose proof dot_check as C. rewrite forallb_forall in C. specialize (C k (proj2 (in_ks k) H)).
  rewrite !cubic_sym_desc. destruct (cubic_desc k) as [[[i s] [j t]] [l r]]. cbn [fst snd] in C.
  apply andb_true_iff in C. destruct C as [C C3]. apply andb_true_iff in C. destruct C as [C1 C2].
  apply negb_true_iff in C1, C2, C3. apply Nat.eqb_neq in C1, C2, C3.
  destruct u as [[a b] c], v as [[x y] z].
  cbn [apply_desc fst snd dot3]. rewrite !sg_mul.
  rewrite (nth3_norm _ i), (nth3_norm _ j), (nth3_norm _ l).
  rewrite (nth3_norm (x, y, z) i), (nth3_norm (x, y, z) j), (nth3_norm (x, y, z) l).
  destruct i as [|[|i]], j as [|[|j]], l as [|[|l]]; cbn [idx_norm nth3] in *; try congruence; ring.
Qed.

(* ------------------------------------------------------------------ collinearity *)
Definition col (u v : V3) : Prop := dot3 u u * dot3 v v = dot3 u v * dot3 u v.
Lemma dot3_comm : forall u v, dot3 u v = dot3 v u.
Proof. intros [[a b] c] [[x y] z]. cbn. ring. Qed.
Lemma col_sym : forall u v, col u v -> col v u.
Proof. intros u v H. unfold col in *. rewrite (dot3_comm v u). lia. Qed.
Lemma squares_zero : forall p q r, p * p + q * q + r * r = 0 -> p = 0 /\ q = 0 /\ r = 0.
Proof.
  intros p q r H. pose proof (Z.square_nonneg p). pose proof (Z.square_nonneg q). pose proof (Z.square_nonneg r).
  assert (P : p * p = 0) by lia. assert (Q : q * q = 0) by lia. assert (R : r * r = 0) by lia.
  apply Z.mul_eq_0 in P, Q, R. tauto.
Qed.
Lemma col_cross : forall a b c x y z, col (a, b, c) (x, y, z) -> b * z - c * y = 0 /\ c * x - a * z = 0 /\ a * y - b * x = 0.
Proof.
  intros a b c x y z H. unfold col in H. cbn in H.
  assert (L : (b * z - c * y) * (b * z - c * y) + (c * x - a * z) * (c * x - a * z) + (a * y - b * x) * (a * y - b * x) = 0).
  { transitivity ((a * a + b * b + c * c) * (x * x + y * y + z * z) - (a * x + b * y + c * z) * (a * x + b * y + c * z)); [ring|lia]. }
  apply squares_zero in L. exact L.
Qed.
Lemma cross_col : forall a b c x y z, b * z - c * y = 0 -> c * x - a * z = 0 -> a * y - b * x = 0 -> col (a, b, c) (x, y, z).
Proof.
  intros a b c x y z H1 H2 H3. unfold col. cbn.
  assert (L : (a * a + b * b + c * c) * (x * x + y * y + z * z) - (a * x + b * y + c * z) * (a * x + b * y + c * z) =
              (b * z - c * y) * (b * z - c * y) + (c * x - a * z) * (c * x - a * z) + (a * y - b * x) * (a * y - b * x)) by ring.
  rewrite H1, H2, H3 in L. lia.
Qed.
Lemma col_scale : forall u1 u2 u3 v1 v2 v3, u2 * v3 - u3 * v2 = 0 -> u3 * v1 - u1 * v3 = 0 -> u1 * v2 - u2 * v1 = 0 ->
  (v1 * v1 + v2 * v2 + v3 * v3) * u1 = (u1 * v1 + u2 * v2 + u3 * v3) * v1 /\
  (v1 * v1 + v2 * v2 + v3 * v3) * u2 = (u1 * v1 + u2 * v2 + u3 * v3) * v2 /\
  (v1 * v1 + v2 * v2 + v3 * v3) * u3 = (u1 * v1 + u2 * v2 + u3 * v3) * v3.
Proof.
  intros u1 u2 u3 v1 v2 v3 C1 C2 C3. repeat split.
  - assert (E : (v1 * v1 + v2 * v2 + v3 * v3) * u1 - (u1 * v1 + u2 * v2 + u3 * v3) * v1 =
                v2 * (u1 * v2 - u2 * v1) - v3 * (u3 * v1 - u1 * v3)) by ring. rewrite C2, C3 in E. lia.
  - assert (E : (v1 * v1 + v2 * v2 + v3 * v3) * u2 - (u1 * v1 + u2 * v2 + u3 * v3) * v2 =
                v3 * (u2 * v3 - u3 * v2) - v1 * (u1 * v2 - u2 * v1)) by ring. rewrite C1, C3 in E. lia.
  - assert (E : (v1 * v1 + v2 * v2 + v3 * v3) * u3 - (u1 * v1 + u2 * v2 + u3 * v3) * v3 =
                v1 * (u3 * v1 - u1 * v3) - v2 * (u2 * v3 - u3 * v2)) by ring. rewrite C1, C2 in E. lia.
Qed.
Lemma col_trans : forall u v w, dot3 v v <> 0 -> col u v -> col v w -> col u w.
Proof.
  intros [[u1 u2] u3] [[v1 v2] v3] [[w1 w2] w3] Hv Huv Hvw.
  apply col_cross in Huv. destruct Huv as [A1 [A2 A3]].
  apply col_sym in Hvw. apply col_cross in Hvw. destruct Hvw as [B1 [B2 B3]].
  cbn in Hv.
  destruct (col_scale u1 u2 u3 v1 v2 v3 A1 A2 A3) as [U1 [U2 U3]].
  destruct (col_scale w1 w2 w3 v1 v2 v3 B1 B2 B3) as [W1 [W2 W3]].
  set (t := v1 * v1 + v2 * v2 + v3 * v3) in *.
  set (a := u1 * v1 + u2 * v2 + u3 * v3) in *. set (b := w1 * v1 + w2 * v2 + w3 * v3) in *.
  assert (Z : forall p q r s, t * p = a * r -> t * q = a * s -> forall p' q', t * p' = b * r -> t * q' = b * s -> p * q' - q * p' = 0).
  { intros p q r s Hp Hq p' q' Hp' Hq'.
    assert (T : t * t * (p * q' - q * p') = 0).
    { transitivity ((t * p) * (t * q') - (t * q) * (t * p')); [ring|]. rewrite Hp, Hq, Hp', Hq'. ring. }
    apply Z.mul_eq_0 in T. destruct T as [T|T]; [|exact T]. apply Z.mul_eq_0 in T. destruct T; contradiction. }
  apply cross_col.
  - exact (Z u2 u3 v2 v3 U2 U3 w2 w3 W2 W3).
  - pose proof (Z u3 u1 v3 v1 U3 U1 w3 w1 W3 W1). lia.
  - exact (Z u1 u2 v1 v2 U1 U2 w1 w2 W1 W2).
Qed.

(* ------------------------------------------------------------------ the tested relation on systems without null vector *)
Definition nonnull (s : V3 * V3) : Prop := dot3 (fst s) (fst s) <> 0 /\ dot3 (snd s) (snd s) <> 0.
Definition sys_col (s t : V3 * V3) : Prop := col (fst s) (fst t) /\ col (snd s) (snd t).
Lemma gsys_same_col : forall s t, nonnull s -> nonnull t -> (gsys_same V3 dot3 s t = true <-> sys_col s t).
Proof.
  intros [b p] [b' p'] [Hb Hp] [Hb' Hp']. unfold gsys_same, iplane_same, iburgers_same, sys_col, col. cbn [fst snd] in *.
  apply Z.eqb_neq in Hb, Hb'. rewrite Hb, Hb'. cbn [negb andb]. rewrite andb_true_iff, !Z.eqb_eq. tauto.
Qed.
Lemma sym_nonnull : forall k s, (k < 48)%nat -> nonnull s -> nonnull (gsys_sym V3 cubic_sym k s).
Proof. intros k [b p] Hk [H1 H2]. unfold nonnull, gsys_sym. cbn [fst snd] in *. rewrite !cubic_sym_dot by exact Hk. auto. Qed.
Lemma sym_col : forall k u v, (k < 48)%nat -> (col (cubic_sym k u) (cubic_sym k v) <-> col u v).
Proof. intros k u v Hk. unfold col. rewrite !cubic_sym_dot by exact Hk. tauto. Qed.
Lemma sys_col_sym : forall s t, sys_col s t -> sys_col t s.
Proof. intros s t [A B]. split; apply col_sym; assumption. Qed.
Lemma sys_col_trans : forall s t u, nonnull t -> sys_col s t -> sys_col t u -> sys_col s u.
Proof. intros s t u [N1 N2] [A B] [C D]. split; [exact (col_trans _ _ _ N1 A C)|exact (col_trans _ _ _ N2 B D)]. Qed.
Lemma sys_col_sym_k : forall k s t, (k < 48)%nat ->
  (sys_col (gsys_sym V3 cubic_sym k s) (gsys_sym V3 cubic_sym k t) <-> sys_col s t).
Proof. intros k [b p] [b' p'] Hk. unfold sys_col, gsys_sym. cbn [fst snd]. rewrite !sym_col by exact Hk. tauto. Qed.

Section OnList.
  Variable L : list (V3 * V3).
  Hypothesis L_nonnull : forall s, In s L -> nonnull s.
  Lemma pair_nonnull : forall x, In x (all_pairs V3 L) -> nonnull (fst x) /\ nonnull (snd x).
  Proof. intros [s t] H. apply in_prod_iff in H. destruct H. split; apply L_nonnull; assumption. Qed.
  Lemma E_col : forall x y, In x (all_pairs V3 L) -> In y (all_pairs V3 L) ->
    (cubic_E x y <-> exists k, (k < 48)%nat /\ sys_col (gsys_sym V3 cubic_sym k (fst x)) (fst y) /\
                                 sys_col (gsys_sym V3 cubic_sym k (snd x)) (snd y)).
  Proof.
    intros x y Hx Hy. destruct (pair_nonnull x Hx) as [X1 X2]. destruct (pair_nonnull y Hy) as [Y1 Y2].
    unfold cubic_E, E, cubic_nsym. split; intros [k [Hk H]]; exists k; (split; [exact Hk|]).
    - unfold gpair_same, gpair_sym in H. cbn [fst snd] in H. apply andb_true_iff in H. destruct H as [H1 H2].
      rewrite gsys_same_col in H1, H2 by (try apply sym_nonnull; assumption). tauto.
    - unfold gpair_same, gpair_sym. cbn [fst snd]. apply andb_true_iff.
      rewrite !gsys_same_col by (try apply sym_nonnull; assumption). exact H.
  Qed.
  Lemma cubic_E_sym : forall x y, In x (all_pairs V3 L) -> In y (all_pairs V3 L) -> cubic_E x y -> cubic_E y x.
  Proof.
    intros x y Hx Hy H. rewrite (E_col x y Hx Hy) in H. rewrite (E_col y x Hy Hx). destruct H as [k [Hk [H1 H2]]].
    destruct (cubic_sym_inv k Hk) as [k' [Hk' Inv]]. exists k'. split; [exact Hk'|].
    assert (Back : forall s, gsys_sym V3 cubic_sym k' (gsys_sym V3 cubic_sym k s) = s).
    { intros [b p]. unfold gsys_sym. cbn [fst snd]. rewrite !Inv. reflexivity. }
    split; apply sys_col_sym.
    - rewrite <- (Back (fst x)). apply (sys_col_sym_k k' _ _ Hk'). exact H1.
    - rewrite <- (Back (snd x)). apply (sys_col_sym_k k' _ _ Hk'). exact H2.
  Qed.
  Lemma cubic_E_trans : forall x y z, In x (all_pairs V3 L) -> In y (all_pairs V3 L) -> In z (all_pairs V3 L) ->
    cubic_E x y -> cubic_E y z -> cubic_E x z.
  Proof.
    intros x y z Hx Hy Hz H G. rewrite (E_col x y Hx Hy) in H. rewrite (E_col y z Hy Hz) in G. rewrite (E_col x z Hx Hz).
    destruct H as [k1 [Hk1 [H1 H2]]]. destruct G as [k2 [Hk2 [G1 G2]]].
    destruct (cubic_sym_comp k2 k1 Hk2 Hk1) as [k3 [Hk3 C]]. exists k3. split; [exact Hk3|].
    assert (Cs : forall s, gsys_sym V3 cubic_sym k3 s = gsys_sym V3 cubic_sym k2 (gsys_sym V3 cubic_sym k1 s)).
    { intros [b p]. unfold gsys_sym. cbn [fst snd]. rewrite !C. reflexivity. }
    destruct (pair_nonnull y Hy) as [Y1 Y2].
    split; rewrite Cs.
    - apply (sys_col_trans _ (gsys_sym V3 cubic_sym k2 (fst y))); [apply sym_nonnull; assumption| |exact G1].
      apply (sys_col_sym_k k2 _ _ Hk2). exact H1.
    - apply (sys_col_trans _ (gsys_sym V3 cubic_sym k2 (snd y))); [apply sym_nonnull; assumption| |exact G2].
      apply (sys_col_sym_k k2 _ _ Hk2). exact H2.
  Qed.
  (* same rank <=> related by the tested relation, for every list of systems without null vector *)
  Theorem cubic_classes : forall x y, In x (all_pairs V3 L) -> In y (all_pairs V3 L) -> (cubic_rk L x = cubic_rk L y <-> cubic_E x y).
  Proof. exact (cubic_equivalence L cubic_E_sym cubic_E_trans). Qed.
End OnList.

(* ------------------------------------------------------------------ the 48 operations of the code are the 48 signed
   permutations of the specification (C56Spec.cubic_codes / cubic_act) *)
Definition code_desc (g : (bool * bool * bool) * nat) : desc :=
  let '((s0, s1, s2), p) := g in
  match p with
  | 0%nat => ((0, s0), (1, s1), (2, s2)) | 1%nat => ((0, s0), (2, s1), (1, s2)) | 2%nat => ((1, s0), (0, s1), (2, s2))
  | 3%nat => ((1, s0), (2, s1), (0, s2)) | 4%nat => ((2, s0), (0, s1), (1, s2)) | _ => ((2, s0), (1, s1), (0, s2))
  end%nat.
Lemma cubic_act_desc : forall g v, cubic_act g v = apply_desc (code_desc g) v.
Proof. intros [[[s0 s1] s2] p] [[a b] c]. destruct p as [|[|[|[|[|p]]]]]; reflexivity. Qed.
Lemma code_to_spec_check : forallb (fun k => existsb (fun g => desc_eqb (cubic_desc k) (code_desc g)) cubic_codes) ks = true.
Proof. vm_compute. reflexivity. Qed.
Lemma spec_to_code_check : forallb (fun g => existsb (fun k => desc_eqb (cubic_desc k) (code_desc g)) ks) cubic_codes = true.
Proof. vm_compute. reflexivity. Qed.
Lemma code_op_is_spec_op : forall k, (k < 48)%nat -> exists g, In g cubic_codes /\ forall v, cubic_sym k v = cubic_act g v.
Proof.
  intros k H. pose proof code_to_spec_check as C. rewrite forallb_forall in C. specialize (C k (proj2 (in_ks k) H)).
  apply existsb_exists in C. destruct C as [g [Hg E]]. exists g. split; [exact Hg|]. intros v.
  rewrite cubic_sym_desc, cubic_act_desc. apply desc_eqb_ok. exact E.
Qed.
Lemma spec_op_is_code_op : forall g, In g cubic_codes -> exists k, (k < 48)%nat /\ forall v, cubic_sym k v = cubic_act g v.
Proof.
  intros g H. pose proof spec_to_code_check as C. rewrite forallb_forall in C. specialize (C g H).
  apply existsb_exists in C. destruct C as [k [Hk E]]. exists k. split; [apply in_ks; exact Hk|]. intros v.
  rewrite cubic_sym_desc, cubic_act_desc. apply desc_eqb_ok. exact E.
Qed.
(* ordered pairs of systems equivalent under the point group of the specification, vectors compared as directions *)
Definition pair_equiv_dir (x y : gpair V3) : Prop :=
  exists g, In g cubic_codes /\ sys_col (cubic_act g (fst (fst x)), cubic_act g (snd (fst x))) (fst y) /\
                                sys_col (cubic_act g (fst (snd x)), cubic_act g (snd (snd x))) (snd y).
Theorem cubic_classes_spec : forall L : list (V3 * V3), (forall s, In s L -> nonnull s) ->
  forall x y, In x (all_pairs V3 L) -> In y (all_pairs V3 L) -> (cubic_rk L x = cubic_rk L y <-> pair_equiv_dir x y).
Proof.
  intros L HL x y Hx Hy. rewrite (cubic_classes L HL x y Hx Hy), (E_col L HL x y Hx Hy). unfold pair_equiv_dir, gsys_sym. split.
  - intros [k [Hk [H1 H2]]]. destruct (code_op_is_spec_op k Hk) as [g [Hg Eg]]. exists g. split; [exact Hg|].
    rewrite <- !Eg. auto.
  - intros [g [Hg [H1 H2]]]. destruct (spec_op_is_code_op g Hg) as [k [Hk Eg]]. exists k. split; [exact Hk|].
    rewrite !Eg. auto.
Qed.

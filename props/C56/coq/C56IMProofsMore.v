(* C56 -- interaction-matrix structure: more families (BCC, HCP), thorough tier. *)
From Coq Require Import ZArith List Bool Arith Lia.
From C56 Require Import C56Spec C56Model C56IMSpec C56IMModel C56IMProofs.
Import ListNotations.
Local Open Scope Z_scope.
Definition bcc_112 : list (V3 * V3) := the (cubic_systems (1, 1, 1) (1, 1, -2)).
(* HCP (plane generator with both signs of l): basal <a>, prismatic <a>, first-order pyramidal <a> in ONE description;
   first-order pyramidal <c+a> *)
Definition hcp_a3 : list (V4 * V4) :=
  the (hcp_systems true (1, 1, -2, 0) (0, 0, 0, 1)) ++ the (hcp_systems true (1, 1, -2, 0) (1, -1, 0, 0)) ++
  the (hcp_systems true (1, 1, -2, 0) (1, -1, 0, 1)).
Definition hcp_ca : list (V4 * V4) := the (hcp_systems true (1, 1, -2, -3) (1, 0, -1, 1)).
Lemma bcc_110_ok : length bcc_110 = 12%nat /\ cubic_n_interactions bcc_110 = 7%nat /\ cubic_orbits bcc_110 /\
  diagonal_is (cubic_pairs bcc_110) (cubic_rank bcc_110) 0 /\ ~ structure_symmetric (cubic_pairs bcc_110) (cubic_rank bcc_110).
Proof.
  split; [vm_compute; reflexivity|]. split; [vm_compute; reflexivity|].
  split; [apply cubic_orbits_check_ok; vm_compute; reflexivity|].
  split; [apply (diagonal_check_ok V3 dot3 cubic_nsym cubic_sym v3_eqb v3_eqb_refl); vm_compute; reflexivity|].
  intros H. specialize (H (((1, 1, -1), (0, 1, 1)), ((1, -1, -1), (1, 0, 1)))).
  assert (Hin : In (((1, 1, -1), (0, 1, 1)), ((1, -1, -1), (1, 0, 1))) (cubic_pairs bcc_110)).
  { apply in_prod; vm_compute; tauto. }
  specialize (H Hin). vm_compute in H. discriminate H.
Qed.
Lemma bcc_112_ok : length bcc_112 = 12%nat /\ cubic_n_interactions bcc_112 = 7%nat /\ cubic_orbits bcc_112 /\
  diagonal_is (cubic_pairs bcc_112) (cubic_rank bcc_112) 0.
Proof.
  split; [vm_compute; reflexivity|]. split; [vm_compute; reflexivity|].
  split; [apply cubic_orbits_check_ok; vm_compute; reflexivity|].
  apply (diagonal_check_ok V3 dot3 cubic_nsym cubic_sym v3_eqb v3_eqb_refl); vm_compute; reflexivity.
Qed.
Lemma hcp_a3_ok : length hcp_a3 = 12%nat /\ hcp_n_interactions hcp_a3 = 20%nat /\ hcp_orbits hcp_a3.
Proof.
  split; [vm_compute; reflexivity|]. split; [vm_compute; reflexivity|].
  apply hcp_orbits_check_ok; vm_compute; reflexivity.
Qed.
Lemma hcp_ca_ok : length hcp_ca = 12%nat /\ hcp_n_interactions hcp_ca = 12%nat /\ hcp_orbits hcp_ca /\
  diagonal_is (hcp_pairs hcp_ca) (hcp_rank hcp_ca) 0.
Proof.
  split; [vm_compute; reflexivity|]. split; [vm_compute; reflexivity|].
  split; [apply hcp_orbits_check_ok; vm_compute; reflexivity|].
  apply (diagonal_check_ok V4 dot4 hcp_nsym hcp_sym v4_eqb v4_eqb_refl); vm_compute; reflexivity.
Qed.

(* C56 -- used when the working tree's HCP plane generator considers both signs of the fourth index
   (props/C56/fix_hcp_planes.diff applied): the generated family is closed under the hexagonal group. *)
From Coq Require Import ZArith List.
From C56 Require Import C56Spec C56Model C56Proofs.

Theorem C56_hcp_closed : forall (b0 p0 : V4) (L : list (V4 * V4)),
  hcp_systems true b0 p0 = Some L -> closed_under eq_pm4 hex_act hex_codes L.
Proof. exact hcp_family_closed. Qed.
Print Assumptions C56_hcp_closed.

"""C56 -- crystal slip-system descriptions are crystallographically valid.
Engine H (+D): Coq theorems, for EVERY integer family, about a Gallina model of numodis' orbit generation (cubic: 48
signed permutations; HCP: Miller-Bravais indices) and of the real-space geometry (unit normal/direction, orthogonality,
|Schmid| <= 1/2, orientation tensor).  Tie: the real tfel::material::SlipSystemsDescription, compiled here from REPO
sources, is run on every family with indices <= 3 (4 in the thorough tier); its output is compared as a multiset up to
sign with the extracted model, and checked against an independent Python statement of the property (orthogonality,
no duplicate up to sign, closure under the point group, the family itself is there, unit/orthogonal vectors, tensors,
Schmid factors).  Interaction matrices: Gallina model of numodis::Hardening (C56IMModel.v), theorems for every list of
systems (partition, no empty class, classes = orbits of the point group for cubic structures) and for the documented FCC
family; the real getInteractionMatrixStructure is compared entry for entry with the extracted model (indices <= 2, single
families and pairs of families) and with the samples of docs/web/singlecrystal.md."""
import glob, itertools, math, os, re, threading
from math import gcd
from vlib import guarded_main, REPO

SRCS = (["src/Material/SlipSystemsDescription.cxx", "src/Exception/TFELException.cxx", "src/Utilities/GenTypeCastError.cxx"]
        + sorted("src/NUMODIS/" + os.path.basename(f) for f in glob.glob(os.path.join(REPO, "src/NUMODIS/*.cxx"))))
EXTRACT = '''From C56 Require Import C56Spec C56Model C56IMModel.
Require Import ExtrOcamlBasic.
Extraction "c56_model.ml" cubic_systems hcp_systems cubic_im hcp_im.
'''
DIRS3 = [(1, 0, 0), (1, 1, 0), (1, 1, 1), (1, 2, 3), (-3, 1, 2), (0, 2, -1), (5, -7, 11)]
DIRS4 = [(0, 0, 0, 1), (1, 0, -1, 0), (1, 1, -2, 0), (1, 1, -2, 3), (2, -1, -1, 1), (1, -2, 1, -5), (3, -1, -2, 2)]
SQ3 = math.sqrt(3.0)
A_LAT = [(SQ3 / 2, 0.5, 0.0), (-SQ3 / 2, 0.5, 0.0), (0.0, -1.0, 0.0)]  # a1, a2, a3 of numodis::HCP


# ---------------------------------------------------------------- independent statement of the property (integers)
def dot(u, v):
    return sum(a * b for a, b in zip(u, v))


def neg(v):
    return tuple(-x for x in v)


def canon(v):
    for x in v:
        if x > 0:
            return tuple(v)
        if x < 0:
            return neg(v)
    return tuple(v)


def reduce_gcd(v):
    g = 0
    for x in v:
        g = gcd(g, abs(x))
    return tuple(v) if g == 0 else tuple(x // g for x in v)


PERMS = list(itertools.permutations(range(3)))
CUBIC_GROUP = [(p, s) for p in PERMS for s in itertools.product((1, -1), repeat=3)]          # 48
HEX_GROUP = [(p, e1, e2) for p in PERMS for e1 in (1, -1) for e2 in (1, -1)]                 # 24


def act3(g, v):
    p, s = g
    return tuple(s[i] * v[p[i]] for i in range(3))


def act4(g, v):
    p, e1, e2 = g
    return tuple(e1 * v[p[i]] for i in range(3)) + (e2 * v[3],)


def csys(s):
    return (canon(s[0]), canon(s[1]))


def property_failures(hcp, b0, p0, L):
    """L = list of (burgers, plane) returned by the code for the accepted family <b0>{p0}; returns the list of the
    clauses of the property that fail, each with a witness"""
    fails = []
    group, act = (HEX_GROUP, act4) if hcp else (CUBIC_GROUP, act3)
    for (b, p) in L:
        if dot(b, p) != 0:
            fails.append(("orthogonality", "system b=%s n=%s has b.n=%d" % (b, p, dot(b, p))))
            break
    cs = [csys(s) for s in L]
    S = set(cs)
    if len(S) != len(cs):
        dup = next(x for x in cs if cs.count(x) > 1)
        fails.append(("duplicate", "system %s appears %d times up to sign" % (dup, cs.count(dup))))
    if csys((b0, reduce_gcd(p0))) not in S:
        fails.append(("family-missing", "the family's own system <%s>{%s} is not in the list" % (b0, reduce_gcd(p0))))
    done = False
    for s in L:
        for g in group:
            t = csys((act(g, s[0]), act(g, s[1])))
            if t not in S:
                fails.append(("closure", "system b=%s n=%s mapped by the point-group operation %s gives b=%s n=%s, "
                              "which is not in the list (%d systems)" % (s[0], s[1], g, t[0], t[1], len(L))))
                done = True
                break
        if done:
            break
    return fails


def single_orbit(hcp, b0, p0, L):
    group, act = (HEX_GROUP, act4) if hcp else (CUBIC_GROUP, act3)
    orb = set(csys((act(g, b0), act(g, reduce_gcd(p0)))) for g in group)
    return orb == set(csys(s) for s in L)


# ---------------------------------------------------------------- real-space geometry (floats)
def unit(v):
    n = math.sqrt(sum(x * x for x in v))
    return tuple(x / n for x in v)


def hcp_vec(idx, kind, ratio):
    """kind: 'b' (Burgers / direction lattice) or 'p' (plane lattice)"""
    sc, cz = (1.0, ratio) if kind == "b" else (1.0 / 6.0, 1.0 / (4.0 * ratio))
    x = sum(idx[i] * A_LAT[i][0] for i in range(3)) * sc
    y = sum(idx[i] * A_LAT[i][1] for i in range(3)) * sc
    return (x, y, idx[3] * cz)


ORDER = [(0, 0), (1, 1), (2, 2), (0, 1), (1, 0), (0, 2), (2, 0), (1, 2), (2, 1)]  # XX YY ZZ XY YX XZ ZX YZ ZY


def close(a, b, tol=2e-15):
    return abs(a - b) <= tol * max(1.0, abs(a), abs(b))


# ---------------------------------------------------------------- corpus
def families(c):
    M = c.pick(3, 4)
    R = range(-M, M + 1)
    fam3, fam4 = [], []
    k = 0
    for b in itertools.product(R, repeat=3):
        for p in itertools.product(R, repeat=3):
            k += 1
            if dot(b, p) == 0 or k % 53 == 0:
                fam3.append((b, p))
    M4 = 3
    R4 = range(-M4, M4 + 1)
    v4 = [v for v in itertools.product(R4, repeat=4) if sum(v[:3]) == 0]
    for b in v4:
        for p in v4:
            k += 1
            if dot(b, p) == 0 or k % 53 == 0:
                fam4.append((b, p))
    # indices that do not satisfy i + j + k = 0: model / code tie only
    free4 = []
    for _ in range(c.pick(400, 4000)):
        b = tuple(c.rng.randint(-3, 3) for _ in range(4))
        p = tuple(c.rng.randint(-3, 3) for _ in range(4))
        free4.append((b, p))
    return fam3, fam4, free4


GEO3 = [((1, -1, 0), (1, 1, 1)), ((1, 1, 1), (1, -1, 0)), ((1, 1, 1), (1, 1, -2)), ((1, 1, 1), (1, 2, -3)),
        ((1, 0, 0), (0, 1, 1)), ((1, 1, 0), (0, 0, 1)), ((2, -1, 0), (1, 2, 3)), ((3, -3, 0), (2, 2, 2))]
GEO4 = [((1, 1, -2, -3), (1, 1, -2, 2)), ((1, 1, -2, 0), (0, 0, 0, 1)), ((1, 1, -2, 0), (1, -1, 0, 0)),
        ((1, 1, -2, 0), (1, -1, 0, 1)), ((-2, 1, 1, 3), (1, -1, 0, 1)), ((1, 0, -1, 0), (1, -2, 1, 1)),
        ((2, -1, -1, 3), (2, -1, -1, -2)), ((1, -1, 0, 0), (1, 1, -2, 3))]


def fmt(cs, b, p, geo=False):
    return ("geo " if geo else "") + cs + " " + " ".join(map(str, b)) + " " + " ".join(map(str, p))


def parse_blocks(out):
    blocks = []
    cur = None
    for l in out.splitlines():
        if l.startswith("BEGIN "):
            cur = {"line": l[6:], "sys": {}, "geo": {}, "sch": {}, "err": None, "ng": {}}
            blocks.append(cur)
        elif cur is None:
            continue
        elif l.startswith("SYS "):
            t = l.split()
            f = int(t[1])
            v = list(map(int, t[2:]))
            n = len(v) // 2
            cur["sys"].setdefault(f, []).append((tuple(v[:n]), tuple(v[n:])))
        elif l.startswith("N "):
            t = l.split()
            cur["sys"].setdefault(int(t[1]), [])
        elif l.startswith("NG "):
            t = l.split()
            cur["ng"][int(t[1])] = list(map(int, t[2:]))
        elif l.startswith("GEO "):
            t = l.split()
            cur["geo"].setdefault(int(t[1]), []).append([float(x) for x in t[3:]])
        elif l.startswith("SCH "):
            head, vals = l.split(":")
            t = head.split()
            cur["sch"].setdefault(int(t[1]), []).append((tuple(map(int, t[2:])), [float(x) for x in vals.split()]))
        elif l.startswith("ERR"):
            cur["err"] = l[3:].strip() or "error"
    return blocks


# ---------------------------------------------------------------- interaction-matrix structure
def direction(v):
    """a non-null index vector up to sign and scale (what numodis' operator== / Coincide compare)"""
    return canon(reduce_gcd(v))


def im_orbit_labels(hcp, systems):
    """independent statement: label of the orbit of every ORDERED pair of systems under the point group (48 signed
    permutations / 24 operations of the hexagonal group on Miller-Bravais indices), vectors compared as directions"""
    group, act = (HEX_GROUP, act4) if hcp else (CUBIC_GROUP, act3)
    imgs = [[(direction(act(g, b)), direction(act(g, p))) for (b, p) in systems] for g in group]
    n = len(systems)
    return [[min((im[i], im[j]) for im in imgs) for j in range(n)] for i in range(n)]


def im_property_failures(hcp, fams, n_coeff, sizes, M):
    """fams: list of lists of systems (one per family); M: rank of every ordered pair (real output)"""
    systems = [s for f in fams for s in f]
    n = len(systems)
    fails = []
    flat = [r for row in M for r in row]
    if len(M) != n or any(len(row) != n for row in M):
        return [("shape", "matrix is not %d x %d" % (n, n))]
    if sum(sizes) != n * n or len(sizes) != n_coeff:
        fails.append(("partition", "the classes hold %d pairs in %d classes for %d x %d pairs and %d coefficients" % (
            sum(sizes), len(sizes), n, n, n_coeff)))
    for r in range(n_coeff):
        if flat.count(r) == 0 or (r < len(sizes) and flat.count(r) != sizes[r]):
            fails.append(("partition", "rank %d: class of %s pairs, %d entries of the matrix" % (
                r, sizes[r] if r < len(sizes) else "?", flat.count(r))))
            break
    if any(r >= n_coeff for r in flat):
        fails.append(("partition", "a rank >= the number of coefficients %d" % n_coeff))
    if n and M[0][0] != 0:
        fails.append(("diagonal", "the first pair (s0, s0) has rank %d" % M[0][0]))
    if any(any(v == 0 for v in map(lambda w: sum(abs(x) for x in w), s)) for s in systems):
        return fails      # null vectors: no geometric meaning
    lab = im_orbit_labels(hcp, systems)
    r2l, l2r = {}, {}
    for i in range(n):
        for j in range(n):
            r, l = M[i][j], lab[i][j]
            if r2l.setdefault(r, (l, i, j))[0] != l:
                (_, i0, j0) = r2l[r]
                fails.append(("orbits", "pairs (%s : %s) and (%s : %s) share rank %d but no operation of the point group maps "
                              "the first onto the second" % (systems[i0], systems[j0], systems[i], systems[j], r)))
                return fails
            if l2r.setdefault(l, (r, i, j))[0] != r:
                (r0, i0, j0) = l2r[l]
                fails.append(("orbits", "pairs (%s : %s) [rank %d] and (%s : %s) [rank %d] are mapped onto each other by an "
                              "operation of the point group but have different ranks" % (
                                  systems[i0], systems[j0], r0, systems[i], systems[j], r)))
                return fails
    return fails


def im_transposition(M):
    """tau with rank(j, i) = tau(rank(i, j)) (well defined when the classes are orbits); None if not a map"""
    tau = {}
    n = len(M)
    for i in range(n):
        for j in range(n):
            if tau.setdefault(M[i][j], M[j][i]) != M[j][i]:
                return None
    return tau


def key3(b, p):
    return (tuple(sorted(map(abs, b))), tuple(sorted(map(abs, reduce_gcd(p)))))


def key4(b, p):
    q = reduce_gcd(p)
    return (tuple(sorted(b[:3])), abs(b[3])), (min(tuple(sorted(q[:3])), tuple(sorted(neg(q)[:3]))), abs(q[3]))


def im_descriptions(c):
    """descriptions (structure, [families]) whose interaction-matrix structure is compared with the model"""
    R = range(-2, 3)
    f3 = [(b, p) for b in itertools.product(R, repeat=3) for p in itertools.product(R, repeat=3)
          if any(b) and any(p) and dot(b, p) == 0]
    v4 = [v for v in itertools.product(R, repeat=4) if sum(v[:3]) == 0 and any(v)]
    f4 = [(b, p) for b in v4 for p in v4 if dot(b, p) == 0]
    rep3, rep4 = {}, {}
    for f in f3:
        rep3.setdefault(key3(*f), f)
    for f in f4:
        rep4.setdefault(key4(*f), f)
    rep3.update({key3(*f): f for f in [((1, -1, 0), (1, 1, 1)), ((1, 1, 1), (1, -1, 0)), ((1, 1, 1), (1, 1, -2))]})
    D = []
    # every single family: all of them for FCC and HCP, one per orbit for BCC and Cubic (quick) / all (thorough)
    for f in f3:
        D.append(("fcc", [f]))
    for cs in ("bcc", "cubic"):
        for f in (sorted(rep3.values()) if c.quick() else f3):
            D.append((cs, [f]))
    for f in f4:
        D.append(("hcp", [f]))
    # pairs of families (one representative per orbit).  quick: a seeded subset
    k3, k4 = sorted(rep3), sorted(rep4)
    # (unordered pairs, the second family listed first for every other pair)
    pairs3 = [((a, b) if (i + j) % 2 else (b, a)) for i, a in enumerate(k3) for j, b in enumerate(k3) if i < j]
    pairs4 = [((a, b) if (i + j) % 2 else (b, a)) for i, a in enumerate(k4) for j, b in enumerate(k4) if i < j]
    if c.quick():
        usual3 = [(key3((1, -1, 0), (1, 1, 1)), key3((1, 1, 0), (0, 0, 1))), (key3((1, 1, 1), (1, -1, 0)), key3((1, 1, 1), (1, 1, -2)))]
        pairs3 = usual3 + c.rng.sample(pairs3, 10)
        pairs4 = c.rng.sample(pairs4, 16)
    for i, (a, b) in enumerate(pairs3):
        D.append((("fcc", "bcc", "cubic")[i % 3] if i >= 2 else ("fcc", "bcc")[i], [rep3[a], rep3[b]]))
    for (a, b) in pairs4:
        D.append(("hcp", [rep4[a], rep4[b]]))
    # the same family twice with the opposite Burgers vector, a multiple of the Burgers vector, three / four families
    D.append(("fcc", [((1, -1, 0), (1, 1, 1)), ((-1, 1, 0), (1, 1, 1))]))
    D.append(("fcc", [((1, -1, 0), (1, 1, 1)), ((2, -2, 0), (1, 1, 1))]))
    D.append(("bcc", [((1, 1, 1), (1, -1, 0)), ((1, 1, 1), (1, 1, -2)), ((1, 1, 1), (1, 2, -3))]))
    D.append(("hcp", [((1, 1, -2, 0), (0, 0, 0, 1)), ((1, 1, -2, 0), (1, -1, 0, 0)), ((1, 1, -2, 0), (1, -1, 0, 1))]))
    D.append(("hcp", [((1, 1, -2, 0), (0, 0, 0, 1)), ((1, 1, -2, 0), (1, -1, 0, 0)), ((1, 1, -2, 0), (1, -1, 0, 1)),
                      ((1, 1, -2, -3), (1, 0, -1, 1))]))
    return D


def parse_coq_matrix(path, name):
    txt = open(path).read()
    m = re.search(r"Definition %s\b.*?:=\s*(\[\[.*?\]\])" % name, txt, flags=re.S)
    return [[int(x) for x in row.split(";")] for row in re.findall(r"\[([0-9;\s]+)\]", m.group(1))]


def doc_samples(repo):
    """the sample outputs of docs/web/singlecrystal.md for FCC <1,-1,0>{1,1,1}: the printed matrix, the number of
    coefficients, the pairs listed for rank 0 and rank 1"""
    path = os.path.join(repo, "docs", "web", "singlecrystal.md")
    if not os.path.exists(path):
        return None
    txt = open(path).read()
    out = {}
    m = re.search(r"mfront-query --interaction-matrix SlipSystemGenerationTest\.mfront\s*\n((?:\|[^\n]*\|\s*\n)+)", txt)
    if m:
        out["matrix"] = [[int(x) for x in l.strip().strip("|").split()] for l in m.group(1).strip().splitlines()]
    m = re.search(r"number of independent coefficients:\s*(\d+)", txt)
    if m:
        out["n"] = int(m.group(1))
    for r in (0, 1):
        m = re.search(r"^- rank %d:(.*)$" % r, txt, flags=re.M)
        if m:
            prs = re.findall(r"\(\[([-\d,]+)\]\(([-\d,]+)\):\[([-\d,]+)\]\(([-\d,]+)\)\)", m.group(1))
            tv = lambda s: tuple(int(x) for x in s.split(","))
            out["rank%d" % r] = [((tv(a), tv(b)), (tv(cc), tv(d))) for (a, b, cc, d) in prs]
    return out


def im_line(cs, fams):
    return "im " + cs + " " + " ".join(" ".join(map(str, b)) + " " + " ".join(map(str, p)) for (b, p) in fams)


def check_interaction_matrices(c, drv, mdl):
    D = im_descriptions(c)
    lines = [im_line(cs, fams) for (cs, fams) in D]
    c.log("interaction matrices: running the real code on %d descriptions" % len(lines))
    rc, out, err = c.run([drv], input="\n".join(lines) + "\n", timeout=900)
    if rc != 0:
        c.report("im-driver", "the driver running the real getInteractionMatrixStructure failed (rc=%d): %s" % (rc, err[-400:]),
                 {"stderr": err[-3000:]}, False)
        return
    blocks = []
    cur = None
    for l in out.splitlines():
        if l.startswith("BEGIN "):
            cur = {"sys": {}, "err": None, "n": None, "sizes": None, "M": []}
            blocks.append(cur)
        elif l.startswith("SYS "):
            t = l.split()
            v = list(map(int, t[2:]))
            h = len(v) // 2
            cur["sys"].setdefault(int(t[1]), []).append((tuple(v[:h]), tuple(v[h:])))
        elif l.startswith("IMR "):
            cur["n"] = int(l.split()[1])
        elif l.startswith("IMC"):
            cur["sizes"] = list(map(int, l.split()[1:]))
        elif l.startswith("IM "):
            cur["M"].append(list(map(int, l.split()[1:])))
        elif l.startswith("ERR"):
            cur["err"] = l[3:].strip() or "error"
    if len(blocks) != len(D):
        c.report("im-driver", "driver answered %d blocks for %d descriptions" % (len(blocks), len(D)), {}, False)
        return
    # the model, once per distinct list of systems
    todo = {}
    for (cs, fams), blk in zip(D, blocks):
        if blk["err"] is None and blk["n"] is not None:
            L = tuple(s for f in sorted(blk["sys"]) for s in blk["sys"][f])
            blk["L"] = L
            todo.setdefault((cs == "hcp", L), None)
    keys = sorted(todo, key=lambda k: -len(k[1]))
    chunks = [keys[i::2] for i in range(2)]      # two model processes + the Coq thread = 3 jobs

    def run_model(ks):
        inp = "\n".join(("im4 " if h else "im3 ") + " ".join(" ".join(map(str, b)) + " " + " ".join(map(str, p)) for (b, p) in L)
                        for (h, L) in ks) + "\n"
        rc, mo, me = c.run([mdl], input=inp, timeout=c.pick(600, 2400))
        if rc != 0:
            raise RuntimeError("extracted interaction-matrix model failed: " + me[-500:])
        res, curm = [], None
        for l in mo.splitlines():
            if l.startswith("BEGIN "):
                curm = {"n": None, "M": []}
                res.append(curm)
            elif l.startswith("IMR "):
                curm["n"] = int(l.split()[1])
            elif l.startswith("IM "):
                curm["M"].append(list(map(int, l.split()[1:])))
        assert len(res) == len(ks)
        return list(zip(ks, res))

    from concurrent.futures import ThreadPoolExecutor
    with ThreadPoolExecutor(max_workers=2) as ex:
        for part in ex.map(run_model, [ch for ch in chunks if ch]):
            for k, r in part:
                todo[k] = r
    c.log("interaction matrices: model evaluated on %d distinct lists of systems; comparing" % len(todo))
    verdict = {}
    seen_corr, seen_prop = set(), set()
    nsym = {"sym": 0, "asym": 0}
    n_real = n_err = 0
    for (cs, fams), blk, line in zip(D, blocks, lines):
        desc = cs + ":" + ";".join(",".join(map(str, b)) + "|" + ",".join(map(str, p)) for (b, p) in fams)
        if blk["err"] is not None:
            n_err += 1
            # a single orthogonal family is never refused
            if len(fams) == 1:
                c.report("im-error:" + desc, "getInteractionMatrixStructure / addSlipSystemsFamily refused %s: %s" % (desc, blk["err"]),
                         {"description": desc}, True)
            continue
        n_real += 1
        hcp = cs == "hcp"
        L = blk["L"]
        c.count(1, ("im", cs, L), len(L) > 1)
        vk = (hcp, L, blk["n"], tuple(blk["sizes"]), tuple(map(tuple, blk["M"])))
        if vk not in verdict:
            famsL = [blk["sys"][f] for f in sorted(blk["sys"])]
            verdict[vk] = (im_property_failures(hcp, famsL, blk["n"], blk["sizes"], blk["M"]), im_transposition(blk["M"]))
        pf, tau = verdict[vk]
        for (clause, wit) in pf:
            if (cs, clause) not in seen_prop:
                seen_prop.add((cs, clause))
                c.report("im-%s:%s" % (clause, desc), "interaction-matrix structure of %s: %s" % (desc, wit),
                         {"description": desc, "clause": clause, "witness": wit, "matrix": blk["M"], "how": "echo '%s' | driver" % line}, True)
        if tau is not None:
            nsym["sym" if all(k == v for k, v in tau.items()) else "asym"] += 1
        elif not pf and (cs, "transposition") not in seen_prop:
            seen_prop.add((cs, "transposition"))
            c.report("im-transposition:" + desc, "interaction-matrix structure of %s: two pairs of the same class have transposed pairs in "
                     "different classes" % desc, {"description": desc, "matrix": blk["M"]}, True)
        m = todo[(hcp, L)]
        if (m["n"], m["M"]) != (blk["n"], blk["M"]) and cs not in seen_corr:
            seen_corr.add(cs)
            ij = next(((i, j) for i in range(len(L)) for j in range(len(L))
                       if i >= len(m["M"]) or i >= len(blk["M"]) or m["M"][i][j] != blk["M"][i][j]), None)
            what = ("%d coefficients in the code, %d in the model" % (blk["n"], m["n"])) if ij is None else (
                "pair (%s : %s) has rank %d in the code and %d in the model (%d / %d coefficients)" % (
                    L[ij[0]], L[ij[1]], blk["M"][ij[0]][ij[1]], m["M"][ij[0]][ij[1]], blk["n"], m["n"]))
            c.report("im-correspondence:" + desc, "interaction-matrix structure of %s: model and code disagree: %s" % (desc, what),
                     {"description": desc, "code": blk["M"], "model": m["M"], "how": "echo '%s' | driver" % line}, bool(pf))
    c.sample({"description": "fcc:1,-1,0|1,1,1", "coefficients": blocks[lines.index(im_line("fcc", [((1, -1, 0), (1, 1, 1))]))]["n"]})
    # the documented example: literal matrix of the Coq theorem, samples of the documentation
    blk = blocks[lines.index(im_line("fcc", [((1, -1, 0), (1, 1, 1))]))]
    lit = parse_coq_matrix(os.path.join(c.dir, "coq", "C56IMProofs.v"), "fcc_oct_matrix")
    lit_sys = re.search(r"Definition fcc_oct\b.*?:=\s*\[(.*?)\]\.", open(os.path.join(c.dir, "coq", "C56IMProofs.v")).read(), flags=re.S)
    lit_L = [tuple(int(x) for x in re.findall(r"-?\d+", s)) for s in re.findall(r"\(\(.*?\)\)", lit_sys.group(1))]
    lit_L = tuple((t[:3], t[3:]) for t in lit_L)
    if blk["err"] is not None or blk["M"] != lit or blk["L"] != lit_L or blk["n"] != 7:
        c.report("im-documented:fcc:1,-1,0|1,1,1", "FCC <1,-1,0>{1,1,1}: the code returns the systems %s, %s coefficients and the matrix %s; "
                 "theorem C56_im_fcc_documented is about the systems %s and the matrix %s" % (blk.get("L"), blk["n"], blk["M"], lit_L, lit),
                 {"code": blk["M"], "theorem": lit}, True)
    doc_bad = False
    doc = doc_samples(REPO)
    if doc is None or not doc:
        c.notes.append("docs/web/singlecrystal.md not found or without samples: documentation not compared")
    elif blk["err"] is None:
        L = blk["L"]
        if doc.get("n") is not None and doc["n"] != blk["n"]:
            c.report("doc:singlecrystal.md:number-of-coefficients", "docs/web/singlecrystal.md announces %d independent coefficients for FCC "
                     "<1,-1,0>{1,1,1}; the code returns %d" % (doc["n"], blk["n"]), {}, True)
        for r in (0, 1):
            if "rank%d" % r in doc:
                real = set((L[i], L[j]) for i in range(len(L)) for j in range(len(L)) if blk["M"][i][j] == r)
                if set(doc["rank%d" % r]) != real:
                    c.report("doc:singlecrystal.md:rank-%d-listing" % r, "docs/web/singlecrystal.md lists %d pairs of rank %d for FCC "
                             "<1,-1,0>{1,1,1}; the code puts %d pairs there and the two sets differ" % (len(doc["rank%d" % r]), r, len(real)),
                             {"documented": sorted(doc["rank%d" % r]), "code": sorted(real)}, True)
        if "matrix" in doc and doc["matrix"] != blk["M"]:
            doc_bad = True
            ij = next(((i, j) for i in range(len(L)) for j in range(len(L))
                       if i < len(doc["matrix"]) and j < len(doc["matrix"][i]) and doc["matrix"][i][j] != blk["M"][i][j]), None)
            if ij is None:      # not even the same size
                c.report("doc:singlecrystal.md:interaction-matrix-size", "docs/web/singlecrystal.md prints a %d x %d matrix for FCC <1,-1,0>{1,1,1}; "
                         "the code returns %d systems" % (len(doc["matrix"]), len(doc["matrix"]), len(L)), {"code": blk["M"]}, True)
                return {"doc_bad": False, "n": n_real}
            c.report("doc:singlecrystal.md:interaction-matrix-sample:fcc:1,-1,0|1,1,1",
                     "docs/web/singlecrystal.md prints, as the output of `mfront-query --interaction-matrix` for FCC <1,-1,0>{1,1,1}, a matrix "
                     "that the code does not return: e.g. pair (%s : %s) has rank %d in the sample and %d in the code (and in the "
                     "`--interaction-matrix-structure` listing printed right under it); the sample is the structure of <1,1,1>{1,-1,0}" % (
                         L[ij[0]], L[ij[1]], doc["matrix"][ij[0]][ij[1]], blk["M"][ij[0]][ij[1]]),
                     {"documented": doc["matrix"], "code": blk["M"], "how": "echo 'im fcc 1 -1 0 1 1 1' | driver"}, True)
    c.notes.append("interaction-matrix structure: %d descriptions run through the real code (%d refused by addSlipSystemsFamily), %d distinct "
                   "lists of systems through the model; structure symmetric for %d descriptions, NOT symmetric (by design) for %d" % (
                       n_real + n_err, n_err, len(todo), nsym["sym"], nsym["asym"]))
    return {"doc_bad": doc_bad, "n": n_real}


def main(c):
    drv = c.cxx("driver", ["driver.cxx"], SRCS)
    mdl = c.ocaml_extract("c56", ["C56Spec.v", "C56Model.v", "C56IMModel.v"], EXTRACT, "model_driver.ml")
    c.trusted("props/C56/driver.cxx (calls of the public API of SlipSystemsDescription, printing), props/C56/model_driver.ml "
              "(int <-> extracted Z, printing), the Python comparison up to sign and the Python statement of the property",
              "C++ int arithmetic taken as arithmetic on Z (no overflow for the indices used in practice)")
    # Coq: everything that does not depend on the observations, compiled while the drivers run
    coq_files = ["C56Spec.v", "C56Model.v", "C56IMSpec.v", "C56IMModel.v", "C56IMGeneral.v", "Properties_C56_im_general.v",
                 "C56IMCubicEquiv.v", "Properties_C56_im_cubic.v", "C56IMProofs.v", "Properties_C56_im.v"]
    if not c.quick():
        coq_files += ["C56IMProofsMore.v", "Properties_C56_im_more.v"]
    coq_files += ["C56Proofs.v", "C56Geometry.v", "Properties_C56.v"]
    # which of the two HCP closure files will be needed is known for sure only after the tie; the witness family of the
    # refuted variant tells it in advance (3 systems: pinned generator, 6: both signs of the fourth index), so that the
    # (slow) file can be compiled in the thread too; if the tie decides otherwise the other file is compiled at the end
    rc, out, err = c.run([drv], input="hcp 1 1 -2 -3 1 1 -2 2\n", timeout=120)
    guess = "Properties_C56_hcp_closed.v" if out.count("\nSYS ") == 6 else "Properties_C56_hcp_refuted.v"
    coq_files.append(guess)
    coq_box = {}

    def coq_job():
        try:
            coq_box["res"] = c.coq(coq_files, timeout=1500)
        except BaseException as e:      # reported after the join
            coq_box["exc"] = e

    coq_thread = threading.Thread(target=coq_job)
    coq_thread.start()
    fam3, fam4, free4 = families(c)
    lines = []
    meta = []   # (kind, cs, b, p)
    for cs in ("fcc", "bcc", "cubic"):
        # FCC, BCC and Cubic only differ by the dispatch in SlipSystemsDescription.cxx: quick tier runs all families
        # through FCC and one in three through the two others
        for j, (b, p) in enumerate(fam3):
            if cs == "fcc" or not c.quick() or j % 3 == 0:
                lines.append(fmt(cs, b, p)); meta.append(("sys", cs, b, p))
    hcp_first = [f for f in GEO4] + [f for f in fam4 if f not in GEO4]
    for (b, p) in hcp_first:
        lines.append(fmt("hcp", b, p)); meta.append(("sys", "hcp", b, p))
    for (b, p) in free4:
        lines.append(fmt("hcp", b, p)); meta.append(("free", "hcp", b, p))
    geo3 = GEO3 + [f for i, f in enumerate(fam3) if dot(*f) == 0 and any(f[0]) and any(f[1]) and i % c.pick(97, 23) == 0]
    geo4 = GEO4 + [f for i, f in enumerate(fam4) if dot(*f) == 0 and any(f[0]) and any(f[1]) and i % c.pick(61, 17) == 0]
    for cs in ("fcc", "bcc", "cubic"):
        for (b, p) in geo3:
            lines.append(fmt(cs, b, p, True)); meta.append(("geo", cs, b, p))
    for (b, p) in geo4:
        lines.append(fmt("hcp", b, p, True)); meta.append(("geo", "hcp", b, p))
    # two families in one description: the Schmid factors of the second family
    lines.append("geo fcc 1 -1 0 1 1 1 1 1 0 0 0 1"); meta.append(("geo2", "fcc", (1, -1, 0), (1, 1, 1)))
    c.log("running the real code on %d descriptions" % len(lines))
    rc, out, err = c.run([drv], input="\n".join(lines) + "\n", timeout=900)
    if rc != 0:
        c.report("driver", "the driver running the real SlipSystemsDescription failed (rc=%d): %s" % (rc, err[-400:]),
                 {"stderr": err[-3000:]}, False)
        return
    real = parse_blocks(out)
    if len(real) != len(lines):
        c.report("driver", "driver answered %d blocks for %d families" % (len(real), len(lines)), {}, False)
        return
    # the model, both variants of the HCP plane generator
    mlines = []
    for (kind, cs, b, p) in meta:
        if kind in ("sys", "free"):
            mlines.append(fmt(cs, b, p))
            if cs == "hcp":
                mlines.append(fmt("hcpfix", b, p))
    rc, mout, merr = c.run([mdl], input="\n".join(mlines) + "\n", timeout=900)
    if rc != 0:
        raise RuntimeError("extracted model failed: " + merr[-500:])
    c.log("model evaluated; comparing")
    mblocks = parse_blocks(mout)
    assert len(mblocks) == len(mlines)
    mit = iter(mblocks)

    def msys(blk):
        return None if blk["err"] is not None else sorted(csys(s) for s in blk["sys"].get(0, []))

    n_fix = n_pin = n_hcp = 0
    hcp_mismatch = []
    multi_orbit = 0
    clause_fail = {}           # clause -> list of (family, witness)
    corr_seen = set()
    pf_cache = {}
    for i, (kind, cs, b, p) in enumerate(meta):
        blk = real[i]
        if kind not in ("sys", "free"):
            continue
        hcp = cs == "hcp"
        m_pin = msys(next(mit))
        m_fix = msys(next(mit)) if hcp else None
        accepted = blk["err"] is None
        L = blk["sys"].get(0, []) if accepted else None
        nontrivial = accepted and len(L) > 1
        c.count(1, (cs, b, p), nontrivial)
        fam = "%s:%s|%s" % (cs, ",".join(map(str, b)), ",".join(map(str, p)))
        # 1. the property itself, on the real output
        if accepted != (dot(b, p) == 0):
            clause_fail.setdefault("acceptance", []).append((fam, "b.n = %d but the family is %s" % (
                dot(b, p), "accepted" if accepted else "refused: " + blk["err"])))
        if accepted:
            ck = (hcp, b, p, tuple(L))      # FCC, BCC and Cubic share the generator: same answer, same verdict
            if ck not in pf_cache:
                pf_cache[ck] = (property_failures(hcp, b, p, L), kind != "sys" or single_orbit(hcp, b, p, L))
            pf, so = pf_cache[ck]
            for (clause, wit) in pf:
                clause_fail.setdefault(clause, []).append((fam, wit))
            if not so:
                multi_orbit += 1
        # 2. model = code, as multisets up to sign
        r = sorted(csys(s) for s in L) if accepted else None
        if hcp:
            n_hcp += 1
            okp, okf = (r == m_pin), (r == m_fix)
            n_pin += okp
            n_fix += okf
            if not (okp or okf):
                hcp_mismatch.append((fam, r, m_pin))
        elif r != m_pin and cs not in corr_seen:
            corr_seen.add(cs)   # one concrete family per structure is enough
            c.report("correspondence:" + fam, "model and code disagree on family %s: code %s, model %s" % (fam, r, m_pin),
                     {"family": fam, "code": r, "model": m_pin, "how": "echo '%s' | driver" % lines[i]},
                     any(f == fam for fl in clause_fail.values() for (f, _) in fl))
        if i % 4001 == 0 and accepted:
            c.sample({"family": fam, "systems": len(L), "first": [list(L[0][0]), list(L[0][1])]})
    # which HCP plane generator is this tree?
    variant = None
    if n_pin == n_hcp and n_fix < n_hcp:
        variant = "pinned"
    elif n_fix == n_hcp:
        variant = "fixed"
    else:
        for (fam, r, m) in hcp_mismatch[:3]:
            c.report("correspondence:" + fam, "model (either variant of the plane generator) and code disagree on family %s: "
                     "code %s, model %s" % (fam, r, m), {"family": fam, "code": r, "model_pinned_variant": m},
                     any(f == fam for fl in clause_fail.values() for (f, _) in fl))
        if not hcp_mismatch:
            c.report("correspondence:hcp-variant", "HCP outputs match the pinned model on %d and the fixed model on %d of %d "
                     "families: neither variant is the code" % (n_pin, n_fix, n_hcp), {}, False)
    # report property failures: one concrete input per clause and structure (the first in corpus order)
    for clause, fl in sorted(clause_fail.items()):
        seen = set()
        for (fam, wit) in fl:
            cs = fam.split(":")[0]
            if cs in seen:
                continue
            seen.add(cs)
            n_cs = sum(1 for (f, _) in fl if f.startswith(cs + ":"))
            c.report("%s:%s" % (clause, fam), "slip-system family %s: %s (%d families of the corpus fail this clause for %s)" % (
                fam, wit, n_cs, cs), {"family": fam, "clause": clause, "witness": wit,
                                      "how": "echo '%s' | .cache/work/C56/driver" % fam.replace(":", " ").replace("|", " ").replace(",", " ")}, True)
    c.notes.append("HCP plane generator of this tree corresponds to the %s model variant (pinned: %d/%d, fixed: %d/%d families)" % (
        variant, n_pin, n_hcp, n_fix, n_hcp))
    c.notes.append("families whose generated set is more than one orbit of the point group: %d" % multi_orbit)

    # ---------------------------------------------------------------- geometry, tensors, Schmid factors
    c.log("families compared; geometry")
    ratio = None
    ngeo = 0
    schmid_bad = []
    for i, (kind, cs, b, p) in enumerate(meta):
        if kind not in ("geo", "geo2"):
            continue
        blk = real[i]
        hcp = cs == "hcp"
        fam = "%s:%s|%s" % (cs, ",".join(map(str, b)), ",".join(map(str, p)))
        if blk["err"] is not None:
            c.report("geo-error:" + fam, "family %s refused: %s" % (fam, blk["err"]), {"family": fam}, True)
            continue
        for f, L in sorted(blk["sys"].items()):
            G = blk["geo"].get(f, [])
            if len(G) != len(L) or any(x != len(L) for x in blk["ng"].get(f, [])):
                c.report("geo-size:" + fam, "family %s: %d systems but %s normals/directions/tensors" % (fam, len(L), blk["ng"].get(f)),
                         {"family": fam}, True)
                continue
            for idx, ((bb, pp), g) in enumerate(zip(L, G)):
                n, m, mu, cl = g[0:3], g[3:6], g[6:15], g[15:24]
                ngeo += 1
                c.count(1, ("geo", cs, bb, pp), True)
                if hcp and ratio is None and bb[3] != 0 and (m[0] != 0 or m[1] != 0):
                    bx, by, _ = hcp_vec(bb, "b", 1.0)
                    ratio = abs(m[2]) / math.hypot(m[0], m[1]) * math.hypot(bx, by) / abs(bb[3])
                if hcp and ratio is None:
                    ratio = 1.632993162
                en = unit(hcp_vec(pp, "p", ratio)) if hcp else unit(pp)
                em = unit(hcp_vec(bb, "b", ratio)) if hcp else unit(bb)
                bad = []
                if not all(close(x, y, 1e-13) for x, y in zip(n, en)):
                    bad.append("normal %s is not the unit vector %s of the plane %s" % (n, en, pp))
                if not all(close(x, y, 1e-13) for x, y in zip(m, em)):
                    bad.append("slip direction %s is not the unit vector %s of the Burgers vector %s" % (m, em, bb))
                if not close(dot(n, n), 1.0) or not close(dot(m, m), 1.0):
                    bad.append("normal / slip direction not unit: |n|^2=%r |m|^2=%r" % (dot(n, n), dot(m, m)))
                if abs(dot(n, m)) > 4e-16:
                    bad.append("normal and slip direction not orthogonal: n.m=%r" % dot(n, m))
                for k, (a, bq) in enumerate(ORDER):
                    if not close(mu[k], m[a] * n[bq]):
                        bad.append("orientation tensor component %d is %r, m(x)n gives %r" % (k, mu[k], m[a] * n[bq]))
                        break
                    if not close(cl[k], n[a] * n[bq]):
                        bad.append("climb tensor component %d is %r, n(x)n gives %r" % (k, cl[k], n[a] * n[bq]))
                        break
                if bad:
                    c.report("geometry:%s:%d" % (fam, idx), "family %s, system %d (b=%s n=%s): %s" % (fam, idx, bb, pp, "; ".join(bad)),
                             {"family": fam, "system": [bb, pp], "observed": g}, True)
            # Schmid factors
            for (d, sf) in blk["sch"].get(f, []):
                dv = unit(hcp_vec(d, "b", ratio)) if hcp else unit(d)
                exp = [dot(dv, g[3:6]) * dot(dv, g[0:3]) for g in G]
                c.count(1, ("sch", cs, b, p, f, d), True)
                if len(sf) != len(exp) or not all(close(x, y, 1e-13) for x, y in zip(sf, exp)) or any(abs(x) > 0.5 + 1e-15 for x in sf):
                    schmid_bad.append((fam, f, d, sf, exp))
    if schmid_bad:
        (fam, f, d, sf, exp) = schmid_bad[0]
        c.report("schmid:%s:f%d:d=%s" % (fam, f, ",".join(map(str, d))),
                 "getSchmidFactors(d=%s, family %d) of %s returns %s; (d.m)(d.n) per system is %s (%d of the %d (family, direction) "
                 "queries of the corpus are wrong)" % (d, f, fam, ["%.4g" % x for x in sf], ["%.4g" % x for x in exp], len(schmid_bad),
                                                       sum(len(real[i]["sch"].get(ff, [])) for i in range(len(meta)) for ff in real[i]["sch"])),
                 {"family": fam, "family_index": f, "direction": d, "observed": sf, "expected": exp,
                  "how": "echo 'geo %s' | .cache/work/C56/driver" % fam.replace(":", " ").replace("|", " ").replace(",", " ")}, True)
    c.notes.append("HCP c/a ratio read back from the code's slip directions: %r" % ratio)
    c.coverage["rule"] = ("every family <b>{p} with |indices| <= %d for FCC (quick tier: one in three of them for BCC and Cubic, which "
                          "share the generator; all with b.n = 0, one in 53 of the others, zero vectors included) and every Miller-Bravais family (i+j+k = 0) with |indices| <= 3 for HCP, plus %d "
                          "random HCP index pairs without the constraint (model/code tie only); geometry, tensors and Schmid "
                          "factors (7 loading directions) on %d systems; non-trivial = accepted family with more than one system"
                          % (c.pick(3, 4), len(free4), ngeo))
    c.coverage["exhaustive"] = True
    c.coverage["traces_validated_against_impl"] = len([m for m in meta if m[0] in ("sys", "free")])

    # ---------------------------------------------------------------- interaction-matrix structure
    im = check_interaction_matrices(c, drv, mdl)
    if im:
        c.coverage["rule"] += ("; interaction-matrix structure (rank(), getRank of every ordered pair of systems, class sizes) of %d descriptions: "
                               "every family with |indices| <= 2 without null vector (FCC and HCP all, BCC and Cubic %s), %s of families with "
                               "|indices| <= 2 (one representative per orbit of families), a few descriptions with duplicated, three and four "
                               "families; compared entry for entry with the extracted model of numodis::Hardening run on the list of systems "
                               "returned by the code" % (im["n"], "one per orbit" if c.quick() else "all",
                                                         "28 pairs (2 usual, 26 seeded)" if c.quick() else "every unordered pair of orbits"))

    # ---------------------------------------------------------------- proofs
    # the files that do not depend on what was observed are compiled in a thread started at the beginning of the run; the
    # two files chosen from the observations (HCP closure, sample of the documentation) are compiled now
    coq_thread.join()
    res = coq_box.get("res")
    if res is None:
        raise RuntimeError("Coq thread failed: %r" % coq_box.get("exc"))
    closure_observed = any(f.startswith("hcp:") for (f, _) in clause_fail.get("closure", []))
    files2 = []
    wanted = "Properties_C56_hcp_closed.v" if (variant == "fixed" and not closure_observed) else "Properties_C56_hcp_refuted.v"
    if wanted != guess:
        files2.append(wanted)
        c.notes.append("the HCP closure file compiled in advance (%s) is not the one the tie selects (%s): both are theorems about "
                       "the model, the second is the one that describes this tree" % (guess, wanted))
    if im and im["doc_bad"]:
        files2.append("Properties_C56_im_doc_refuted.v")
    c.log("proofs (files chosen from the observations: %s)" % files2)
    results = [res]
    if res.ok and files2:
        results.append(c.coq(files2, timeout=900))
    for r in results:
        if not r.ok:
            if any(v[3] for v in c.violations):
                c.notes.append("proof obligations failed: %s; concrete failing inputs reported above" % [f[2] for f in r.failed])
            else:
                c.coq_failures(r, None)


guarded_main("C56", main)

(* C43, brick program C43TwoFlows, hypothesis with 3-component tensors:
   Hooke + TWO inelastic flows in one brick: plastic flow (von Mises, linear isotropic hardening, Prager + Armstrong-Frederick kinematic
   hardening rules) and Norton flow (von Mises); z = (deel, da0, da1, dp0, dp1): 11 unknowns, block structure of the jacobian.
   Definitions and the proof script shared by the blocks of rows (C43Proofs_btwo_<block>.v, checked concurrently). *)
From Coq Require Import Reals List Lra Lia.
From Coquelicot Require Import Coquelicot.
From VLib Require Import RealExtra.
Require Import GBehLib BehSpec C43Lib Genbtwo.
Import ListNotations.
Local Open Scope R_scope.

Definition btwo_fz (eel0 eel1 eel2 deto0 deto1 deto2 khr_a0_00 khr_a0_01 khr_a0_02 khr_a0_10 khr_a0_11 khr_a0_12 p0 p1 dt epsilon theta young nu rv ihr_R00_ ihr_H0_ khr_C0_0 khr_C0_1 khr_D0_1 K1 E1 A1 : R) (z : list R) : list R :=
  btwo_fz_hag eel0 eel1 eel2 deto0 deto1 deto2 khr_a0_00 khr_a0_01 khr_a0_02 khr_a0_10 khr_a0_11 khr_a0_12 p0 p1 dt epsilon theta young nu rv ihr_R00_ ihr_H0_ khr_C0_0 khr_C0_1 khr_D0_1 K1 E1 A1 (nthR z 0) (nthR z 1) (nthR z 2) (nthR z 3) (nthR z 4) (nthR z 5) (nthR z 6) (nthR z 7) (nthR z 8) (nthR z 9) (nthR z 10).
Definition btwo_jac (eel0 eel1 eel2 deto0 deto1 deto2 khr_a0_00 khr_a0_01 khr_a0_02 khr_a0_10 khr_a0_11 khr_a0_12 p0 p1 dt epsilon theta young nu rv ihr_R00_ ihr_H0_ khr_C0_0 khr_C0_1 khr_D0_1 K1 E1 A1 : R) (z : list R) : list R :=
  btwo_jac_hag eel0 eel1 eel2 deto0 deto1 deto2 khr_a0_00 khr_a0_01 khr_a0_02 khr_a0_10 khr_a0_11 khr_a0_12 p0 p1 dt epsilon theta young nu rv ihr_R00_ ihr_H0_ khr_C0_0 khr_C0_1 khr_D0_1 K1 E1 A1 (nthR z 0) (nthR z 1) (nthR z 2) (nthR z 3) (nthR z 4) (nthR z 5) (nthR z 6) (nthR z 7) (nthR z 8) (nthR z 9) (nthR z 10).
Definition btwo_entry (eel0 eel1 eel2 deto0 deto1 deto2 khr_a0_00 khr_a0_01 khr_a0_02 khr_a0_10 khr_a0_11 khr_a0_12 p0 p1 dt epsilon theta young nu rv ihr_R00_ ihr_H0_ khr_C0_0 khr_C0_1 khr_D0_1 K1 E1 A1 : R) (z : list R) (i j : nat) : Prop :=
  is_derive (fun x => nthR (btwo_fz eel0 eel1 eel2 deto0 deto1 deto2 khr_a0_00 khr_a0_01 khr_a0_02 khr_a0_10 khr_a0_11 khr_a0_12 p0 p1 dt epsilon theta young nu rv ihr_R00_ ihr_H0_ khr_C0_0 khr_C0_1 khr_D0_1 K1 E1 A1 (upd z j x)) i) (nthR z j) (nthR (btwo_jac eel0 eel1 eel2 deto0 deto1 deto2 khr_a0_00 khr_a0_01 khr_a0_02 khr_a0_10 khr_a0_11 khr_a0_12 p0 p1 dt epsilon theta young nu rv ihr_R00_ ihr_H0_ khr_C0_0 khr_C0_1 khr_D0_1 K1 E1 A1 z) (11 * i + j)).
Definition btwo_dom (eel0 eel1 eel2 deto0 deto1 deto2 khr_a0_00 khr_a0_01 khr_a0_02 khr_a0_10 khr_a0_11 khr_a0_12 p0 p1 dt epsilon theta young nu rv ihr_R00_ ihr_H0_ khr_C0_0 khr_C0_1 khr_D0_1 K1 E1 A1 : R) (z : list R) : Prop :=
  1 + nu <> 0 /\ 1 - 2 * nu <> 0 /\ young <> 0 /\ 0 < K1 /\
  0 < seq2 (vsub (vsub (brick_sig [eel0;eel1;eel2] young nu theta (firstn 3 z))
                       (backstress khr_C0_0 theta [khr_a0_00;khr_a0_01;khr_a0_02] (sublist 3 3 z)))
                 (backstress khr_C0_1 theta [khr_a0_10;khr_a0_11;khr_a0_12] (sublist 6 3 z))) /\
  0 < norton_seq2 3 [eel0;eel1;eel2] young nu theta z.
(* goal: btwo_dom .. z -> forall i j, (a <= i < a + n) -> (j < 11) -> btwo_entry .. z i j, with z an explicit list *)
Ltac btwo_rows :=
  unfold btwo_dom; intros (H1 & H2 & HY & HK & Hs0 & Hs1); unfold btwo_entry; spec_unfold; cbn in Hs0, Hs1;
  let la := fresh "la" in let mu2 := fresh "mu2" in let T := fresh "T" in let T1 := fresh "T1" in let T2 := fresh "T2" in
  let u := fresh "u" in let Hu := fresh "Hu" in
  match goal with |- context[btwo_jac ?eel0 ?eel1 ?eel2 ?deto0 ?deto1 ?deto2 ?khr_a0_00 ?khr_a0_01 ?khr_a0_02 ?khr_a0_10 ?khr_a0_11 ?khr_a0_12 ?p0 ?p1 ?dt ?epsilon ?theta ?young ?nu ?rv ?ihr_R00_ ?ihr_H0_ ?khr_C0_0 ?khr_C0_1 ?khr_D0_1 ?K1 ?E1 ?A1 ?z] =>
    set (la := nu * young / ((1 + nu) * (1 - 2 * nu))) in *;
    set (mu2 := 2 * (young / (2 * (1 + nu)))) in *;
    (* entry (0,9): normal of the plastic flow (von Mises stress of sig - X0 - X1); entry (0,10): normal of the Norton flow
       (von Mises stress of sig); entry (10,0): d fp1 / d deel0 contains the flow argument seq/K1 *)
    pose (T := nthR (btwo_jac eel0 eel1 eel2 deto0 deto1 deto2 khr_a0_00 khr_a0_01 khr_a0_02 khr_a0_10 khr_a0_11 khr_a0_12 p0 p1 dt epsilon theta young nu rv ihr_R00_ ihr_H0_ khr_C0_0 khr_C0_1 khr_D0_1 K1 E1 A1 z) 9);
    lazy beta iota zeta delta [btwo_jac btwo_jac_hag nthR nth] in T; fold la mu2 in T; unfold Rminus, Rdiv in T;
    pose (T1 := nthR (btwo_jac eel0 eel1 eel2 deto0 deto1 deto2 khr_a0_00 khr_a0_01 khr_a0_02 khr_a0_10 khr_a0_11 khr_a0_12 p0 p1 dt epsilon theta young nu rv ihr_R00_ ihr_H0_ khr_C0_0 khr_C0_1 khr_D0_1 K1 E1 A1 z) 10);
    lazy beta iota zeta delta [btwo_jac btwo_jac_hag nthR nth] in T1; fold la mu2 in T1; unfold Rminus, Rdiv in T1;
    pose (T2 := nthR (btwo_jac eel0 eel1 eel2 deto0 deto1 deto2 khr_a0_00 khr_a0_01 khr_a0_02 khr_a0_10 khr_a0_11 khr_a0_12 p0 p1 dt epsilon theta young nu rv ihr_R00_ ihr_H0_ khr_C0_0 khr_C0_1 khr_D0_1 K1 E1 A1 z) 110);
    lazy beta iota zeta delta [btwo_jac btwo_jac_hag nthR nth] in T2; fold la mu2 in T2; unfold Rminus, Rdiv in T2;
    with_sqrt T Hs0 ltac:(fun sb0 q0 =>
      with_sqrt T1 Hs1 ltac:(fun sb1 q1 =>
        let b := first_rpower_base T2 in set (u := b) in *;
        assert (Hu : 0 < u) by (replace u with (q1 / K1) by (unfold u; field; lra); apply Rdiv_lt_0_compat; lra);
        clear T T1 T2;
        forall_pairs_from_tac ltac:(
          lazy beta iota zeta delta [btwo_fz btwo_jac btwo_fz_hag btwo_jac_hag nthR nth upd Nat.mul Nat.add Rpower];
          fold la mu2;
          auto_derive; unfold Rminus, Rdiv; fold sb0; fold q0; fold sb1; fold q1; fold u;
          [ pos_side | unfold u; field; pos_side ])))
  end.

(* C43, brick program C43NortonHill (Hooke with isotropic moduli + Norton flow / Hill criterion, orthotropic behaviour),
   3-component tensors: every entry of the emitted jacobian is the partial derivative of the emitted residual.  The Hill
   coefficients F, G, H of the .mfront file are literals of the generated code. *)
From Coq Require Import Reals List Lra.
From Coquelicot Require Import Coquelicot.
From VLib Require Import RealExtra.
Require Import GBehLib BehSpec C43Lib Genbnhi.
Import ListNotations.
Local Open Scope R_scope.

Section Bnhi.
  Variables eel0 eel1 eel2 deto0 deto1 deto2 p dt epsilon theta young nu rv Kn En An : R.
  Definition bnhi_fz (z : list R) : list R :=
    bnhi_fz_hag eel0 eel1 eel2 deto0 deto1 deto2 p dt epsilon theta young nu rv Kn En An (nthR z 0) (nthR z 1) (nthR z 2) (nthR z 3).
  Definition bnhi_jac (z : list R) : list R :=
    bnhi_jac_hag eel0 eel1 eel2 deto0 deto1 deto2 p dt epsilon theta young nu rv Kn En An (nthR z 0) (nthR z 1) (nthR z 2) (nthR z 3).
  (* s:H:s with the coefficients of props/C43/mfront/C43NortonHill.mfront *)
  Definition bnhi_hill2 (z : list R) : R :=
    hill2 (371 / 1000) (629 / 1000) (4052 / 1000) (15 / 10) (17 / 10) (13 / 10) (brick_sig [eel0;eel1;eel2] young nu theta (firstn 3 z)).

  Lemma bnhi_jac_ok z0 z1 z2 z3 :
    let z := [z0;z1;z2;z3] in
    1 + nu <> 0 -> 1 - 2 * nu <> 0 -> 0 < Kn -> 0 < bnhi_hill2 z ->
    forall i j, (i < 4)%nat -> (j < 4)%nat ->
    is_derive (fun x => nthR (bnhi_fz (upd z j x)) i) (nthR z j) (nthR (bnhi_jac z) (4 * i + j)).
  Proof.
    intros z H1 H2 HK Hs. unfold z in *. clear z. unfold bnhi_hill2 in Hs. spec_unfold. cbn in Hs.
    set (la := nu * young / ((1 + nu) * (1 - 2 * nu))) in *.
    set (mu2 := 2 * (young / (2 * (1 + nu)))) in *.
    pose (T := nthR (bnhi_jac [z0;z1;z2;z3]) 12).
    lazy beta iota zeta delta [bnhi_jac bnhi_jac_hag nthR nth] in T; fold la mu2 in T; unfold Rminus, Rdiv in T.
    with_sqrt T Hs ltac:(fun sb q =>
      let b := first_rpower_base T in set (u := b) in *;
      assert (Hu : 0 < u) by (replace u with (q / Kn) by (unfold u; field; lra); apply Rdiv_lt_0_compat; lra);
      clear T;
      forall_pairs_tac ltac:(
        lazy beta iota zeta delta [bnhi_fz bnhi_jac bnhi_fz_hag bnhi_jac_hag nthR nth upd Nat.mul Nat.add Rpower];
        fold la mu2;
        auto_derive; unfold Rminus, Rdiv; fold sb; fold q; fold u;
        [ pos_side | unfold u; field; pos_side ])).
  Qed.
End Bnhi.

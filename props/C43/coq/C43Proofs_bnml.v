(* C43, brick program C43NortonMisesLinear (Hooke + Norton / von Mises / linear isotropic hardening), hypothesis with
   3-component tensors: EVERY entry of the jacobian emitted by the brick is the partial derivative of the emitted residual
   (rows of the strain partition and row of the flow equation dp - dt A <(seq - R)/K>^E). *)
From Coq Require Import Reals List Lra.
From Coquelicot Require Import Coquelicot.
From VLib Require Import RealExtra.
Require Import GBehLib BehSpec C43Lib Genbnml.
Import ListNotations.
Local Open Scope R_scope.

Section Bnml.
  Variables eel0 eel1 eel2 deto0 deto1 deto2 p dt epsilon theta young nu rv Rini Hiso Kn En An : R.
  Definition bnml_fz (z : list R) : list R :=
    bnml_fz_hag eel0 eel1 eel2 deto0 deto1 deto2 p dt epsilon theta young nu rv Rini Hiso Kn En An (nthR z 0) (nthR z 1) (nthR z 2) (nthR z 3).
  Definition bnml_jac (z : list R) : list R :=
    bnml_jac_hag eel0 eel1 eel2 deto0 deto1 deto2 p dt epsilon theta young nu rv Rini Hiso Kn En An (nthR z 0) (nthR z 1) (nthR z 2) (nthR z 3).

  Lemma bnml_jac_ok z0 z1 z2 z3 :
    let z := [z0;z1;z2;z3] in
    1 + nu <> 0 -> 1 - 2 * nu <> 0 -> 0 < Kn ->
    0 < norton_seq2 3 [eel0;eel1;eel2] young nu theta z ->
    Rini + Hiso * (p + theta * z3) < sqrt (norton_seq2 3 [eel0;eel1;eel2] young nu theta z) ->
    forall i j, (i < 4)%nat -> (j < 4)%nat ->
    is_derive (fun x => nthR (bnml_fz (upd z j x)) i) (nthR z j) (nthR (bnml_jac z) (4 * i + j)).
  Proof.
    intros z H1 H2 HK Hs HR. unfold z in *. clear z. spec_unfold. cbn in Hs, HR.
    set (la := nu * young / ((1 + nu) * (1 - 2 * nu))) in *.
    set (mu2 := 2 * (young / (2 * (1 + nu)))) in *.
    (* the von Mises argument and the flow argument (seq - R)/K in the form they have in the traced jacobian *)
    pose (T := nthR (bnml_jac [z0;z1;z2;z3]) 12).
    lazy beta iota zeta delta [bnml_jac bnml_jac_hag nthR nth] in T; fold la mu2 in T; unfold Rminus, Rdiv in T.
    let b := first_sqrt_arg T in set (sb := b) in *.
    match type of Hs with 0 < ?a => replace a with sb in * by (unfold sb; field) end.
    assert (Hq : 0 < sqrt sb) by (apply sqrt_lt_R0; exact Hs).
    set (q := sqrt sb) in *.
    let b := first_rpower_base T in set (u := b) in *.
    assert (Hu : 0 < u).
    { replace u with ((q - (Rini + Hiso * (p + theta * z3))) / Kn) by (unfold u; field; lra). apply Rdiv_lt_0_compat; lra. }
    clear T.
    forall_pairs_tac ltac:(
      lazy beta iota zeta delta [bnml_fz bnml_jac bnml_fz_hag bnml_jac_hag nthR nth upd Nat.mul Nat.add Rpower];
      fold la mu2;
      auto_derive; unfold Rminus, Rdiv; fold sb; fold q; fold u;
      [ pos_side | unfold u; field; pos_side ]).
  Qed.
End Bnml.

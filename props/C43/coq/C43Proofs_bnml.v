(* C43, brick program C43NortonMisesLinear (Hooke + Norton / von Mises / linear isotropic hardening), hypothesis with
   3-component tensors: every entry of the rows of the strain-partition residual (feel) of the jacobian emitted by the brick is the partial
   derivative of the emitted residual (the row of the flow equation fp is not proved: see NOTES.md). *)
From Coq Require Import Reals List Lra.
From Coquelicot Require Import Coquelicot.
From VLib Require Import RealExtra.
Require Import GBehLib BehSpec Genbnml.
Import ListNotations.
Local Open Scope R_scope.

Ltac spec_unfold := unfold norton_seq2, seq2, dev, hooke, lame_lambda, lame_mu,
  vadd, vsub, vscal, vdot, vmap2, tabulate, diag3, tr3, nthR in *.

Section Bnml.
  Variables eel0 eel1 eel2 deto0 deto1 deto2 p dt epsilon theta young nu rv Rini Hiso Kn En An : R.
  Definition bnml_fz (z : list R) : list R :=
    bnml_fz_hag eel0 eel1 eel2 deto0 deto1 deto2 p dt epsilon theta young nu rv Rini Hiso Kn En An (nthR z 0) (nthR z 1) (nthR z 2) (nthR z 3).
  Definition bnml_jac (z : list R) : list R :=
    bnml_jac_hag eel0 eel1 eel2 deto0 deto1 deto2 p dt epsilon theta young nu rv Rini Hiso Kn En An (nthR z 0) (nthR z 1) (nthR z 2) (nthR z 3).

  Lemma bnml_jac_ok z0 z1 z2 z3 :
    let z := [z0;z1;z2;z3] in
    1 + nu <> 0 -> 1 - 2 * nu <> 0 -> 0 < Kn ->
    0 < norton_seq2 3 [eel0;eel1;eel2] young nu theta z ->
    Rini + Hiso * (p + theta * z3) < sqrt (norton_seq2 3 [eel0;eel1;eel2] young nu theta z) ->
    forall i j, (i < 3)%nat -> (j < 4)%nat ->
    is_derive (fun x => nthR (bnml_fz (upd z j x)) i) (nthR z j) (nthR (bnml_jac z) (4 * i + j)).
  Proof.
    intros z H1 H2 HK Hs HR. unfold z in *. clear z. spec_unfold. cbn in Hs, HR.
    match type of Hs with 0 < ?a => set (sa := a) in * end.
    assert (Hq : 0 < sqrt sa) by (apply sqrt_lt_R0; exact Hs).
    forall_pairs_tac ltac:(
      unfold bnml_fz, bnml_jac, bnml_fz_hag, bnml_jac_hag, nthR, Rpower; cbn [upd nth Nat.mul Nat.add];
      auto_derive; unify_sqrt sa ltac:(unfold sa; field; nz); set (q := sqrt sa) in *; [ nz | field; nzz ]).
  Qed.
End Bnml.

(* C43, C43TwoFlows: rows 4..7 of the jacobian, see C43Defs_btwo.v *)
From Coq Require Import Reals List Lra Lia.
From Coquelicot Require Import Coquelicot.
From VLib Require Import RealExtra.
Require Import GBehLib BehSpec C43Lib Genbtwo C43Defs_btwo.
Import ListNotations.
Local Open Scope R_scope.

Lemma btwo_rows_b eel0 eel1 eel2 deto0 deto1 deto2 khr_a0_00 khr_a0_01 khr_a0_02 khr_a0_10 khr_a0_11 khr_a0_12 p0 p1 dt epsilon theta young nu rv ihr_R00_ ihr_H0_ khr_C0_0 khr_C0_1 khr_D0_1 K1 E1 A1 z0 z1 z2 z3 z4 z5 z6 z7 z8 z9 z10 :
  let z := [z0;z1;z2;z3;z4;z5;z6;z7;z8;z9;z10] in
  btwo_dom eel0 eel1 eel2 deto0 deto1 deto2 khr_a0_00 khr_a0_01 khr_a0_02 khr_a0_10 khr_a0_11 khr_a0_12 p0 p1 dt epsilon theta young nu rv ihr_R00_ ihr_H0_ khr_C0_0 khr_C0_1 khr_D0_1 K1 E1 A1 z ->
  forall i j, (4 <= i < 4 + 4)%nat -> (j < 11)%nat -> btwo_entry eel0 eel1 eel2 deto0 deto1 deto2 khr_a0_00 khr_a0_01 khr_a0_02 khr_a0_10 khr_a0_11 khr_a0_12 p0 p1 dt epsilon theta young nu rv ihr_R00_ ihr_H0_ khr_C0_0 khr_C0_1 khr_D0_1 K1 E1 A1 z i j.
Proof. intro z; unfold z; clear z. btwo_rows. Qed.

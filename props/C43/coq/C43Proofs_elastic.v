(* C43, elastic-loading leaf (flow inactive, bpl false) of the configurations of the first rounds that have a threshold, hypothesis with
   3-component tensors: the traced residual is zeros - (deto, 0, ..) and the traced jacobian the identity; every entry is the
   partial derivative, for all inputs (no hypothesis). *)
From Coq Require Import Reals List Lra.
From Coquelicot Require Import Coquelicot.
From VLib Require Import RealExtra.
Require Import GBehLib BehSpec C43Lib Genbnml Genbplp Genbnmv Genbpms.
Import ListNotations.
Local Open Scope R_scope.

Definition bnml_efz (eel0 eel1 eel2 deto0 deto1 deto2 p dt epsilon theta young nu rv ihr_R0_ ihr_H_ K E A : R) (z : list R) : list R :=
  bnml_efz_hag eel0 eel1 eel2 deto0 deto1 deto2 p dt epsilon theta young nu rv ihr_R0_ ihr_H_ K E A (nthR z 0) (nthR z 1) (nthR z 2) (nthR z 3).
Definition bnml_ejac (eel0 eel1 eel2 deto0 deto1 deto2 p dt epsilon theta young nu rv ihr_R0_ ihr_H_ K E A : R) (z : list R) : list R :=
  bnml_ejac_hag eel0 eel1 eel2 deto0 deto1 deto2 p dt epsilon theta young nu rv ihr_R0_ ihr_H_ K E A (nthR z 0) (nthR z 1) (nthR z 2) (nthR z 3).
Definition bnml_eentry (eel0 eel1 eel2 deto0 deto1 deto2 p dt epsilon theta young nu rv ihr_R0_ ihr_H_ K E A : R) (z : list R) (i j : nat) : Prop :=
  is_derive (fun x => nthR (bnml_efz eel0 eel1 eel2 deto0 deto1 deto2 p dt epsilon theta young nu rv ihr_R0_ ihr_H_ K E A (upd z j x)) i) (nthR z j) (nthR (bnml_ejac eel0 eel1 eel2 deto0 deto1 deto2 p dt epsilon theta young nu rv ihr_R0_ ihr_H_ K E A z) (4 * i + j)).
Lemma bnml_ejac_ok eel0 eel1 eel2 deto0 deto1 deto2 p dt epsilon theta young nu rv ihr_R0_ ihr_H_ K E A z0 z1 z2 z3 :
  let z := [z0;z1;z2;z3] in
  forall i j, (i < 4)%nat -> (j < 4)%nat -> bnml_eentry eel0 eel1 eel2 deto0 deto1 deto2 p dt epsilon theta young nu rv ihr_R0_ ihr_H_ K E A z i j.
Proof.
  intro z; unfold z; clear z. unfold bnml_eentry.
  forall_pairs_tac ltac:(
    lazy beta iota zeta delta [bnml_efz bnml_ejac bnml_efz_hag bnml_ejac_hag nthR nth upd Nat.mul Nat.add];
    auto_derive; [ pos_side | try ring ]).
Qed.

Definition bplp_efz (eel0 eel1 eel2 deto0 deto1 deto2 khr_a_00 khr_a_01 khr_a_02 p dt epsilon theta young nu rv ihr_R0_ ihr_H_ khr_C_0 : R) (z : list R) : list R :=
  bplp_efz_hag eel0 eel1 eel2 deto0 deto1 deto2 khr_a_00 khr_a_01 khr_a_02 p dt epsilon theta young nu rv ihr_R0_ ihr_H_ khr_C_0 (nthR z 0) (nthR z 1) (nthR z 2) (nthR z 3) (nthR z 4) (nthR z 5) (nthR z 6).
Definition bplp_ejac (eel0 eel1 eel2 deto0 deto1 deto2 khr_a_00 khr_a_01 khr_a_02 p dt epsilon theta young nu rv ihr_R0_ ihr_H_ khr_C_0 : R) (z : list R) : list R :=
  bplp_ejac_hag eel0 eel1 eel2 deto0 deto1 deto2 khr_a_00 khr_a_01 khr_a_02 p dt epsilon theta young nu rv ihr_R0_ ihr_H_ khr_C_0 (nthR z 0) (nthR z 1) (nthR z 2) (nthR z 3) (nthR z 4) (nthR z 5) (nthR z 6).
Definition bplp_eentry (eel0 eel1 eel2 deto0 deto1 deto2 khr_a_00 khr_a_01 khr_a_02 p dt epsilon theta young nu rv ihr_R0_ ihr_H_ khr_C_0 : R) (z : list R) (i j : nat) : Prop :=
  is_derive (fun x => nthR (bplp_efz eel0 eel1 eel2 deto0 deto1 deto2 khr_a_00 khr_a_01 khr_a_02 p dt epsilon theta young nu rv ihr_R0_ ihr_H_ khr_C_0 (upd z j x)) i) (nthR z j) (nthR (bplp_ejac eel0 eel1 eel2 deto0 deto1 deto2 khr_a_00 khr_a_01 khr_a_02 p dt epsilon theta young nu rv ihr_R0_ ihr_H_ khr_C_0 z) (7 * i + j)).
Lemma bplp_ejac_ok eel0 eel1 eel2 deto0 deto1 deto2 khr_a_00 khr_a_01 khr_a_02 p dt epsilon theta young nu rv ihr_R0_ ihr_H_ khr_C_0 z0 z1 z2 z3 z4 z5 z6 :
  let z := [z0;z1;z2;z3;z4;z5;z6] in
  forall i j, (i < 7)%nat -> (j < 7)%nat -> bplp_eentry eel0 eel1 eel2 deto0 deto1 deto2 khr_a_00 khr_a_01 khr_a_02 p dt epsilon theta young nu rv ihr_R0_ ihr_H_ khr_C_0 z i j.
Proof.
  intro z; unfold z; clear z. unfold bplp_eentry.
  forall_pairs_tac ltac:(
    lazy beta iota zeta delta [bplp_efz bplp_ejac bplp_efz_hag bplp_ejac_hag nthR nth upd Nat.mul Nat.add];
    auto_derive; [ pos_side | try ring ]).
Qed.

Definition bnmv_efz (eel0 eel1 eel2 deto0 deto1 deto2 p dt epsilon theta young nu rv ihr_R0_ ihr_Rinf_ ihr_b_ K E A : R) (z : list R) : list R :=
  bnmv_efz_hag eel0 eel1 eel2 deto0 deto1 deto2 p dt epsilon theta young nu rv ihr_R0_ ihr_Rinf_ ihr_b_ K E A (nthR z 0) (nthR z 1) (nthR z 2) (nthR z 3).
Definition bnmv_ejac (eel0 eel1 eel2 deto0 deto1 deto2 p dt epsilon theta young nu rv ihr_R0_ ihr_Rinf_ ihr_b_ K E A : R) (z : list R) : list R :=
  bnmv_ejac_hag eel0 eel1 eel2 deto0 deto1 deto2 p dt epsilon theta young nu rv ihr_R0_ ihr_Rinf_ ihr_b_ K E A (nthR z 0) (nthR z 1) (nthR z 2) (nthR z 3).
Definition bnmv_eentry (eel0 eel1 eel2 deto0 deto1 deto2 p dt epsilon theta young nu rv ihr_R0_ ihr_Rinf_ ihr_b_ K E A : R) (z : list R) (i j : nat) : Prop :=
  is_derive (fun x => nthR (bnmv_efz eel0 eel1 eel2 deto0 deto1 deto2 p dt epsilon theta young nu rv ihr_R0_ ihr_Rinf_ ihr_b_ K E A (upd z j x)) i) (nthR z j) (nthR (bnmv_ejac eel0 eel1 eel2 deto0 deto1 deto2 p dt epsilon theta young nu rv ihr_R0_ ihr_Rinf_ ihr_b_ K E A z) (4 * i + j)).
Lemma bnmv_ejac_ok eel0 eel1 eel2 deto0 deto1 deto2 p dt epsilon theta young nu rv ihr_R0_ ihr_Rinf_ ihr_b_ K E A z0 z1 z2 z3 :
  let z := [z0;z1;z2;z3] in
  forall i j, (i < 4)%nat -> (j < 4)%nat -> bnmv_eentry eel0 eel1 eel2 deto0 deto1 deto2 p dt epsilon theta young nu rv ihr_R0_ ihr_Rinf_ ihr_b_ K E A z i j.
Proof.
  intro z; unfold z; clear z. unfold bnmv_eentry.
  forall_pairs_tac ltac:(
    lazy beta iota zeta delta [bnmv_efz bnmv_ejac bnmv_efz_hag bnmv_ejac_hag nthR nth upd Nat.mul Nat.add];
    auto_derive; [ pos_side | try ring ]).
Qed.

Definition bpms_efz (eel0 eel1 eel2 deto0 deto1 deto2 p dt epsilon theta young nu rv ihr_R0_ ihr_p0_ ihr_E_ : R) (z : list R) : list R :=
  bpms_efz_hag eel0 eel1 eel2 deto0 deto1 deto2 p dt epsilon theta young nu rv ihr_R0_ ihr_p0_ ihr_E_ (nthR z 0) (nthR z 1) (nthR z 2) (nthR z 3).
Definition bpms_ejac (eel0 eel1 eel2 deto0 deto1 deto2 p dt epsilon theta young nu rv ihr_R0_ ihr_p0_ ihr_E_ : R) (z : list R) : list R :=
  bpms_ejac_hag eel0 eel1 eel2 deto0 deto1 deto2 p dt epsilon theta young nu rv ihr_R0_ ihr_p0_ ihr_E_ (nthR z 0) (nthR z 1) (nthR z 2) (nthR z 3).
Definition bpms_eentry (eel0 eel1 eel2 deto0 deto1 deto2 p dt epsilon theta young nu rv ihr_R0_ ihr_p0_ ihr_E_ : R) (z : list R) (i j : nat) : Prop :=
  is_derive (fun x => nthR (bpms_efz eel0 eel1 eel2 deto0 deto1 deto2 p dt epsilon theta young nu rv ihr_R0_ ihr_p0_ ihr_E_ (upd z j x)) i) (nthR z j) (nthR (bpms_ejac eel0 eel1 eel2 deto0 deto1 deto2 p dt epsilon theta young nu rv ihr_R0_ ihr_p0_ ihr_E_ z) (4 * i + j)).
Lemma bpms_ejac_ok eel0 eel1 eel2 deto0 deto1 deto2 p dt epsilon theta young nu rv ihr_R0_ ihr_p0_ ihr_E_ z0 z1 z2 z3 :
  let z := [z0;z1;z2;z3] in
  forall i j, (i < 4)%nat -> (j < 4)%nat -> bpms_eentry eel0 eel1 eel2 deto0 deto1 deto2 p dt epsilon theta young nu rv ihr_R0_ ihr_p0_ ihr_E_ z i j.
Proof.
  intro z; unfold z; clear z. unfold bpms_eentry.
  forall_pairs_tac ltac:(
    lazy beta iota zeta delta [bpms_efz bpms_ejac bpms_efz_hag bpms_ejac_hag nthR nth upd Nat.mul Nat.add];
    auto_derive; [ pos_side | try ring ]).
Qed.

(* C43, brick program C43PlasticMisesLinearPrager, Tridimensional hypothesis (6-component tensors, unknowns z = (deel[6], da[6], dp)):
   definitions and the proof script shared by the three blocks of rows of the 13 x 13 jacobian (thorough tier). *)
From Coq Require Import Reals List Lra.
From Coquelicot Require Import Coquelicot.
From VLib Require Import RealExtra.
Require Import GBehLib BehSpec C43Lib Genbplp.
Import ListNotations.
Local Open Scope R_scope.

Section S3d.
  Variables eel0 eel1 eel2 eel3 eel4 eel5 deto0 deto1 deto2 deto3 deto4 deto5 a0 a1 a2 a3 a4 a5 p dt epsilon theta young nu rv Rini Hiso Ck : R.
  Definition bplp3_fz (z : list R) : list R :=
    bplp_fz_h3d eel0 eel1 eel2 eel3 eel4 eel5 deto0 deto1 deto2 deto3 deto4 deto5 a0 a1 a2 a3 a4 a5 p dt epsilon theta young nu rv Rini Hiso Ck
      (nthR z 0) (nthR z 1) (nthR z 2) (nthR z 3) (nthR z 4) (nthR z 5) (nthR z 6) (nthR z 7) (nthR z 8) (nthR z 9) (nthR z 10) (nthR z 11) (nthR z 12).
  Definition bplp3_jac (z : list R) : list R :=
    bplp_jac_h3d eel0 eel1 eel2 eel3 eel4 eel5 deto0 deto1 deto2 deto3 deto4 deto5 a0 a1 a2 a3 a4 a5 p dt epsilon theta young nu rv Rini Hiso Ck
      (nthR z 0) (nthR z 1) (nthR z 2) (nthR z 3) (nthR z 4) (nthR z 5) (nthR z 6) (nthR z 7) (nthR z 8) (nthR z 9) (nthR z 10) (nthR z 11) (nthR z 12).
  Definition bplp3_dom (z : list R) : Prop :=
    1 + nu <> 0 /\ 1 - 2 * nu <> 0 /\ young <> 0 /\
    0 < kin_seq2 [eel0;eel1;eel2;eel3;eel4;eel5] [a0;a1;a2;a3;a4;a5] young nu Ck theta (firstn 6 z) (sublist 6 6 z).
  Definition bplp3_entry (z : list R) (i j : nat) : Prop :=
    is_derive (fun x => nthR (bplp3_fz (upd z j x)) i) (nthR z j) (nthR (bplp3_jac z) (13 * i + j)).
End S3d.

Ltac bplp3_rows :=
  intros (H1 & H2 & HY & Hs); unfold bplp3_entry; spec_unfold; cbn in Hs;
  let la := fresh "la" in let mu2 := fresh "mu2" in let T := fresh "T" in
  match goal with |- context[bplp3_jac ?eel0 ?eel1 ?eel2 ?eel3 ?eel4 ?eel5 ?deto0 ?deto1 ?deto2 ?deto3 ?deto4 ?deto5 ?a0 ?a1 ?a2 ?a3 ?a4 ?a5 ?p ?dt ?epsilon ?theta ?young ?nu ?rv ?Rini ?Hiso ?Ck ?z] =>
    set (la := nu * young / ((1 + nu) * (1 - 2 * nu))) in *;
    set (mu2 := 2 * (young / (2 * (1 + nu)))) in *;
    pose (T := nthR (bplp3_jac eel0 eel1 eel2 eel3 eel4 eel5 deto0 deto1 deto2 deto3 deto4 deto5 a0 a1 a2 a3 a4 a5 p dt epsilon theta young nu rv Rini Hiso Ck z) 0);
    lazy beta iota zeta delta [bplp3_jac bplp_jac_h3d nthR nth] in T; fold la mu2 in T; unfold Rminus, Rdiv in T;
    with_sqrt T Hs ltac:(fun sb q =>
      clear T;
      forall_pairs_from_tac ltac:(
        lazy beta iota zeta delta [bplp3_fz bplp3_jac bplp_fz_h3d bplp_jac_h3d nthR nth upd Nat.mul Nat.add Rpower];
        fold la mu2;
        auto_derive; unfold Rminus, Rdiv; fold sb; fold q;
        [ pos_side | field; pos_side ]))
  end.

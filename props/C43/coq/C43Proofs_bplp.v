(* C43, C43PlasticMisesLinearPrager: the two blocks of rows of the 7 x 7 jacobian (proved in C43Proofs_bplp_a.v / _b.v, concurrently) put together. *)
From Coq Require Import Reals List Lra Lia.
From Coquelicot Require Import Coquelicot.
From VLib Require Import RealExtra.
Require Import GBehLib BehSpec C43Lib Genbplp C43Defs_bplp C43Proofs_bplp_a C43Proofs_bplp_b.
Import ListNotations.
Local Open Scope R_scope.

Lemma bplp_jac_ok eel0 eel1 eel2 deto0 deto1 deto2 a0 a1 a2 p dt epsilon theta young nu rv Rini Hiso Ck z0 z1 z2 z3 z4 z5 z6 :
  let z := [z0;z1;z2;z3;z4;z5;z6] in
  bplp_dom eel0 eel1 eel2 a0 a1 a2 theta young nu Ck z ->
  forall i j, (i < 7)%nat -> (j < 7)%nat ->
  bplp_entry eel0 eel1 eel2 deto0 deto1 deto2 a0 a1 a2 p dt epsilon theta young nu rv Rini Hiso Ck z i j.
Proof.
  intros z Hd. apply (rows_split _ 3 7 7); [ apply bplp_rows_a | apply bplp_rows_b ]; exact Hd.
Qed.

(* C43 -- property theorems, configuration bhsm (C43HyperbolicSineMises), 3-component tensors (proofs in C43Proofs_bhsm.v).  The definitions bhsm_*_hag are regenerated on each
   run from the C++ that the mfront of /repo's working tree emits for props/C43/mfront/C43HyperbolicSineMises.mfront: Hooke + hyperbolic sine flow dp = dt A sinh(seq/K) (sinh written (e - 1/e)/2 with e = exp(seq/K)) / von Mises, z = (deel, dp). *)
From Coq Require Import Reals List.
From Coquelicot Require Import Coquelicot.
From VLib Require Import RealExtra.
Require Import GBehLib BehSpec C43Lib Genbhsm C43Proofs_bhsm.
Import ListNotations.
Local Open Scope R_scope.

(* plastic-loading leaf, z = unknowns of the implicit system (4): every jacobian(i,j) = d fzeros(i) / d zeros(j) *)
Theorem C43_brick_HyperbolicSineMises_jacobian :
  forall eel0 eel1 eel2 deto0 deto1 deto2 p dt epsilon theta young nu rv K A z0 z1 z2 z3,
  let z := [z0;z1;z2;z3] in
  bhsm_dom eel0 eel1 eel2 deto0 deto1 deto2 p dt epsilon theta young nu rv K A z ->
  forall i j, (i < 4)%nat -> (j < 4)%nat -> bhsm_entry eel0 eel1 eel2 deto0 deto1 deto2 p dt epsilon theta young nu rv K A z i j.
Proof. exact bhsm_jac_ok. Qed.
Print Assumptions C43_brick_HyperbolicSineMises_jacobian.

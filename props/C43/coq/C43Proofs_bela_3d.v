(* C43, brick program C43Elasticity (StandardElasticity brick alone), Tridimensional hypothesis: residual deel - deto, the
   36 entries of the emitted jacobian are its derivative. *)
From Coq Require Import Reals List Lra.
From Coquelicot Require Import Coquelicot.
From VLib Require Import RealExtra.
Require Import GBehLib BehSpec C43Lib Genbela.
Import ListNotations.
Local Open Scope R_scope.

Section Bela3d.
  Variables eel0 eel1 eel2 eel3 eel4 eel5 deto0 deto1 deto2 deto3 deto4 deto5 dt epsilon theta young nu rv : R.
  Definition bela3_fz (z : list R) : list R :=
    bela_fz_h3d eel0 eel1 eel2 eel3 eel4 eel5 deto0 deto1 deto2 deto3 deto4 deto5 dt epsilon theta young nu rv
                (nthR z 0) (nthR z 1) (nthR z 2) (nthR z 3) (nthR z 4) (nthR z 5).
  Definition bela3_jac (z : list R) : list R :=
    bela_jac_h3d eel0 eel1 eel2 eel3 eel4 eel5 deto0 deto1 deto2 deto3 deto4 deto5 dt epsilon theta young nu rv
                 (nthR z 0) (nthR z 1) (nthR z 2) (nthR z 3) (nthR z 4) (nthR z 5).

  Lemma bela3_fz_ok z0 z1 z2 z3 z4 z5 :
    bela3_fz [z0;z1;z2;z3;z4;z5] = vsub [z0;z1;z2;z3;z4;z5] [deto0;deto1;deto2;deto3;deto4;deto5].
  Proof. reflexivity. Qed.

  Lemma bela3_jac_ok z0 z1 z2 z3 z4 z5 :
    let z := [z0;z1;z2;z3;z4;z5] in
    forall i j, (i < 6)%nat -> (j < 6)%nat ->
    is_derive (fun x => nthR (bela3_fz (upd z j x)) i) (nthR z j) (nthR (bela3_jac z) (6 * i + j)).
  Proof.
    intros z. unfold z. clear z.
    forall_pairs_tac ltac:(
      lazy beta iota zeta delta [bela3_fz bela3_jac bela_fz_h3d bela_jac_h3d nthR nth upd Nat.mul Nat.add];
      auto_derive; [ exact I | ring ]).
  Qed.
End Bela3d.

(* C43, brick program C43PlasticMisesSwift, Tridimensional hypothesis (6-component tensors, unknowns z = (deel[6], dp)):
   every one of the 49 entries of the emitted jacobian is the partial derivative of the emitted residual (thorough tier). *)
From Coq Require Import Reals List Lra.
From Coquelicot Require Import Coquelicot.
From VLib Require Import RealExtra.
Require Import GBehLib BehSpec C43Lib Genbpms.
Import ListNotations.
Local Open Scope R_scope.

Section S3d.
  Variables eel0 eel1 eel2 eel3 eel4 eel5 deto0 deto1 deto2 deto3 deto4 deto5 p dt epsilon theta young nu rv Rini p0 En : R.
  Definition bpms3_fz (z : list R) : list R :=
    bpms_fz_h3d eel0 eel1 eel2 eel3 eel4 eel5 deto0 deto1 deto2 deto3 deto4 deto5 p dt epsilon theta young nu rv Rini p0 En (nthR z 0) (nthR z 1) (nthR z 2) (nthR z 3) (nthR z 4) (nthR z 5) (nthR z 6).
  Definition bpms3_jac (z : list R) : list R :=
    bpms_jac_h3d eel0 eel1 eel2 eel3 eel4 eel5 deto0 deto1 deto2 deto3 deto4 deto5 p dt epsilon theta young nu rv Rini p0 En (nthR z 0) (nthR z 1) (nthR z 2) (nthR z 3) (nthR z 4) (nthR z 5) (nthR z 6).

  Lemma bpms3_jac_ok z0 z1 z2 z3 z4 z5 z6 :
    let z := [z0;z1;z2;z3;z4;z5;z6] in let eel := [eel0;eel1;eel2;eel3;eel4;eel5] in
    1 + nu <> 0 -> 1 - 2 * nu <> 0 -> young <> 0 -> 0 < p0 -> 0 < p + theta * z6 ->
    0 < norton_seq2 6 eel young nu theta z ->
    forall i j, (i < 7)%nat -> (j < 7)%nat ->
    is_derive (fun x => nthR (bpms3_fz (upd z j x)) i) (nthR z j) (nthR (bpms3_jac z) (7 * i + j)).
  Proof.
    intros z eel H1 H2 HY Hp0 Hp Hs. unfold z, eel in *. clear z eel. spec_unfold. cbn in Hs.
    set (la := nu * young / ((1 + nu) * (1 - 2 * nu))) in *.
    set (mu2 := 2 * (young / (2 * (1 + nu)))) in *.
    pose (T := nthR (bpms3_jac [z0;z1;z2;z3;z4;z5;z6]) 0).
    lazy beta iota zeta delta [bpms3_jac bpms_jac_h3d nthR nth] in T; fold la mu2 in T; unfold Rminus, Rdiv in T.
    pose (T2 := nthR (bpms3_jac [z0;z1;z2;z3;z4;z5;z6]) 48).
    lazy beta iota zeta delta [bpms3_jac bpms_jac_h3d nthR nth] in T2; unfold Rminus, Rdiv in T2.
    with_sqrt T Hs ltac:(fun sb q =>
      let b := first_rpower_base T2 in set (u := b) in *;
      assert (Hu : 0 < u) by
        (replace u with ((p + theta * z6 + p0) / p0) by (unfold u; field; lra); apply Rdiv_lt_0_compat; lra);
      clear T2;
      clear T;
      forall_pairs_tac ltac:(
        lazy beta iota zeta delta [bpms3_fz bpms3_jac bpms_fz_h3d bpms_jac_h3d nthR nth upd Nat.mul Nat.add Rpower];
        fold la mu2;
        auto_derive; unfold Rminus, Rdiv; fold sb; fold q; fold u;
        [ pos_side | unfold u; field; pos_side ])).
  Qed.
End S3d.

(* C43 -- property theorems, configuration bplp (proofs in C43Proofs_*.v).  The definitions <tag>_fz_hag / <tag>_jac_hag are regenerated on each run
   from the C++ that the mfront of /repo's working tree emits for props/C43/mfront/*.mfront (StandardElastoViscoPlasticity /
   StandardElasticity bricks), traced on the plastic-loading path with the regularisations inactive, modelling hypothesis with
   3-component tensors.  Every theorem: for all states, parameters and unknowns z in the stated open domain,
   jacobian(i,j) = d fzeros(i) / d zeros(j) for EVERY entry (i,j). *)
From Coq Require Import Reals List.
From Coquelicot Require Import Coquelicot.
From VLib Require Import RealExtra.
Require Import GBehLib BehSpec C43Lib Genbplp C43Defs_bplp C43Proofs_bplp.
Import ListNotations.
Local Open Scope R_scope.

(* Hooke + Plastic / Mises / linear isotropic / Prager kinematic hardening, z = (deel, da, dp): 49 entries
   (bplp_dom: 1+nu <> 0, 1-2nu <> 0, young <> 0, 0 < 3/2 |dev(sig - X)|^2; bplp_entry: the is_derive statement) *)
Theorem C43_brick_plastic_mises_linear_prager_jacobian :
  forall eel0 eel1 eel2 deto0 deto1 deto2 a0 a1 a2 p dt epsilon theta young nu rv Rini Hiso Ck z0 z1 z2 z3 z4 z5 z6,
    let z := [z0;z1;z2;z3;z4;z5;z6] in
    bplp_dom eel0 eel1 eel2 a0 a1 a2 theta young nu Ck z ->
    forall i j, (i < 7)%nat -> (j < 7)%nat ->
    bplp_entry eel0 eel1 eel2 deto0 deto1 deto2 a0 a1 a2 p dt epsilon theta young nu rv Rini Hiso Ck z i j.
Proof. exact bplp_jac_ok. Qed.
Print Assumptions C43_brick_plastic_mises_linear_prager_jacobian.

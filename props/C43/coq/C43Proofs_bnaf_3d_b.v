(* C43, C43NortonMisesAF, Tridimensional: rows 4..7 of the 13 x 13 jacobian, see C43Defs_bnaf_3d.v *)
From Coq Require Import Reals List Lra.
From Coquelicot Require Import Coquelicot.
From VLib Require Import RealExtra.
Require Import GBehLib BehSpec C43Lib Genbnaf C43Defs_bnaf_3d.
Import ListNotations.
Local Open Scope R_scope.

Lemma bnaf3_rows_b eel0 eel1 eel2 eel3 eel4 eel5 deto0 deto1 deto2 deto3 deto4 deto5 a0 a1 a2 a3 a4 a5 p dt epsilon theta young nu rv Ck Dk Kn En An z0 z1 z2 z3 z4 z5 z6 z7 z8 z9 z10 z11 z12 :
  let z := [z0;z1;z2;z3;z4;z5;z6;z7;z8;z9;z10;z11;z12] in
  bnaf3_dom eel0 eel1 eel2 eel3 eel4 eel5 a0 a1 a2 a3 a4 a5 theta young nu Ck Kn z ->
  forall i j, (4 <= i < 4 + 4)%nat -> (j < 13)%nat ->
  bnaf3_entry eel0 eel1 eel2 eel3 eel4 eel5 deto0 deto1 deto2 deto3 deto4 deto5 a0 a1 a2 a3 a4 a5 p dt epsilon theta young nu rv Ck Dk Kn En An z i j.
Proof. intro z; unfold z; clear z. unfold bnaf3_dom. bnaf3_rows. Qed.

(* C43, brick program C43NortonHill, Tridimensional hypothesis (6-component tensors, unknowns z = (deel[6], dp)):
   every one of the 49 entries of the emitted jacobian is the partial derivative of the emitted residual (thorough tier). *)
From Coq Require Import Reals List Lra.
From Coquelicot Require Import Coquelicot.
From VLib Require Import RealExtra.
Require Import GBehLib BehSpec C43Lib Genbnhi.
Import ListNotations.
Local Open Scope R_scope.

Section S3d.
  Variables eel0 eel1 eel2 eel3 eel4 eel5 deto0 deto1 deto2 deto3 deto4 deto5 p dt epsilon theta young nu rv Kn En An : R.
  Definition bnhi3_fz (z : list R) : list R :=
    bnhi_fz_h3d eel0 eel1 eel2 eel3 eel4 eel5 deto0 deto1 deto2 deto3 deto4 deto5 p dt epsilon theta young nu rv Kn En An (nthR z 0) (nthR z 1) (nthR z 2) (nthR z 3) (nthR z 4) (nthR z 5) (nthR z 6).
  Definition bnhi3_jac (z : list R) : list R :=
    bnhi_jac_h3d eel0 eel1 eel2 eel3 eel4 eel5 deto0 deto1 deto2 deto3 deto4 deto5 p dt epsilon theta young nu rv Kn En An (nthR z 0) (nthR z 1) (nthR z 2) (nthR z 3) (nthR z 4) (nthR z 5) (nthR z 6).
  Definition bnhi3_hill2 (z : list R) : R :=
    hill2 (371 / 1000) (629 / 1000) (4052 / 1000) (15 / 10) (17 / 10) (13 / 10)
          (brick_sig [eel0;eel1;eel2;eel3;eel4;eel5] young nu theta (firstn 6 z)).

  Lemma bnhi3_jac_ok z0 z1 z2 z3 z4 z5 z6 :
    let z := [z0;z1;z2;z3;z4;z5;z6] in let eel := [eel0;eel1;eel2;eel3;eel4;eel5] in
    1 + nu <> 0 -> 1 - 2 * nu <> 0 -> 0 < Kn -> 0 < bnhi3_hill2 z ->
    forall i j, (i < 7)%nat -> (j < 7)%nat ->
    is_derive (fun x => nthR (bnhi3_fz (upd z j x)) i) (nthR z j) (nthR (bnhi3_jac z) (7 * i + j)).
  Proof.
    intros z eel H1 H2 HK Hs. unfold z, eel in *. clear z eel. unfold bnhi3_hill2 in Hs. spec_unfold. cbn in Hs.
    set (la := nu * young / ((1 + nu) * (1 - 2 * nu))) in *.
    set (mu2 := 2 * (young / (2 * (1 + nu)))) in *.
    pose (T := nthR (bnhi3_jac [z0;z1;z2;z3;z4;z5;z6]) 42).
    lazy beta iota zeta delta [bnhi3_jac bnhi_jac_h3d nthR nth] in T; fold la mu2 in T; unfold Rminus, Rdiv in T.
    with_sqrt T Hs ltac:(fun sb q =>
      let b := first_rpower_base T in set (u := b) in *;
      assert (Hu : 0 < u) by (replace u with (q / Kn) by (unfold u; field; lra); apply Rdiv_lt_0_compat; lra);
      clear T;
      forall_pairs_tac ltac:(
        lazy beta iota zeta delta [bnhi3_fz bnhi3_jac bnhi_fz_h3d bnhi_jac_h3d nthR nth upd Nat.mul Nat.add Rpower];
        fold la mu2;
        auto_derive; unfold Rminus, Rdiv; fold sb; fold q; fold u;
        [ pos_side | unfold u; field; pos_side ])).
  Qed.
End S3d.

(* C43, C43TwoFlows, 3-component tensors: the leaf where the plastic flow is inactive (bpl0 false: elastic prediction below the
   threshold) while the Norton flow, which has no threshold, is active: the rows of the plastic flow and of its back strains are
   z_i, the strain partition and the Norton equation are those of a Norton behaviour. *)
From Coq Require Import Reals List Lra Lia.
From Coquelicot Require Import Coquelicot.
From VLib Require Import RealExtra.
Require Import GBehLib BehSpec C43Lib Genbtwo.
Import ListNotations.
Local Open Scope R_scope.

Definition btwo_efz (eel0 eel1 eel2 deto0 deto1 deto2 khr_a0_00 khr_a0_01 khr_a0_02 khr_a0_10 khr_a0_11 khr_a0_12 p0 p1 dt epsilon theta young nu rv ihr_R00_ ihr_H0_ khr_C0_0 khr_C0_1 khr_D0_1 K1 E1 A1 : R) (z : list R) : list R :=
  btwo_efz_hag eel0 eel1 eel2 deto0 deto1 deto2 khr_a0_00 khr_a0_01 khr_a0_02 khr_a0_10 khr_a0_11 khr_a0_12 p0 p1 dt epsilon theta young nu rv ihr_R00_ ihr_H0_ khr_C0_0 khr_C0_1 khr_D0_1 K1 E1 A1 (nthR z 0) (nthR z 1) (nthR z 2) (nthR z 3) (nthR z 4) (nthR z 5) (nthR z 6) (nthR z 7) (nthR z 8) (nthR z 9) (nthR z 10).
Definition btwo_ejac (eel0 eel1 eel2 deto0 deto1 deto2 khr_a0_00 khr_a0_01 khr_a0_02 khr_a0_10 khr_a0_11 khr_a0_12 p0 p1 dt epsilon theta young nu rv ihr_R00_ ihr_H0_ khr_C0_0 khr_C0_1 khr_D0_1 K1 E1 A1 : R) (z : list R) : list R :=
  btwo_ejac_hag eel0 eel1 eel2 deto0 deto1 deto2 khr_a0_00 khr_a0_01 khr_a0_02 khr_a0_10 khr_a0_11 khr_a0_12 p0 p1 dt epsilon theta young nu rv ihr_R00_ ihr_H0_ khr_C0_0 khr_C0_1 khr_D0_1 K1 E1 A1 (nthR z 0) (nthR z 1) (nthR z 2) (nthR z 3) (nthR z 4) (nthR z 5) (nthR z 6) (nthR z 7) (nthR z 8) (nthR z 9) (nthR z 10).
Definition btwo_eentry (eel0 eel1 eel2 deto0 deto1 deto2 khr_a0_00 khr_a0_01 khr_a0_02 khr_a0_10 khr_a0_11 khr_a0_12 p0 p1 dt epsilon theta young nu rv ihr_R00_ ihr_H0_ khr_C0_0 khr_C0_1 khr_D0_1 K1 E1 A1 : R) (z : list R) (i j : nat) : Prop :=
  is_derive (fun x => nthR (btwo_efz eel0 eel1 eel2 deto0 deto1 deto2 khr_a0_00 khr_a0_01 khr_a0_02 khr_a0_10 khr_a0_11 khr_a0_12 p0 p1 dt epsilon theta young nu rv ihr_R00_ ihr_H0_ khr_C0_0 khr_C0_1 khr_D0_1 K1 E1 A1 (upd z j x)) i) (nthR z j) (nthR (btwo_ejac eel0 eel1 eel2 deto0 deto1 deto2 khr_a0_00 khr_a0_01 khr_a0_02 khr_a0_10 khr_a0_11 khr_a0_12 p0 p1 dt epsilon theta young nu rv ihr_R00_ ihr_H0_ khr_C0_0 khr_C0_1 khr_D0_1 K1 E1 A1 z) (11 * i + j)).
Definition btwo_edom (eel0 eel1 eel2 deto0 deto1 deto2 khr_a0_00 khr_a0_01 khr_a0_02 khr_a0_10 khr_a0_11 khr_a0_12 p0 p1 dt epsilon theta young nu rv ihr_R00_ ihr_H0_ khr_C0_0 khr_C0_1 khr_D0_1 K1 E1 A1 : R) (z : list R) : Prop :=
  1 + nu <> 0 /\ 1 - 2 * nu <> 0 /\ 0 < K1 /\ 0 < norton_seq2 3 [eel0;eel1;eel2] young nu theta z.
Lemma btwo_ejac_ok eel0 eel1 eel2 deto0 deto1 deto2 khr_a0_00 khr_a0_01 khr_a0_02 khr_a0_10 khr_a0_11 khr_a0_12 p0 p1 dt epsilon theta young nu rv ihr_R00_ ihr_H0_ khr_C0_0 khr_C0_1 khr_D0_1 K1 E1 A1 z0 z1 z2 z3 z4 z5 z6 z7 z8 z9 z10 :
  let z := [z0;z1;z2;z3;z4;z5;z6;z7;z8;z9;z10] in
  btwo_edom eel0 eel1 eel2 deto0 deto1 deto2 khr_a0_00 khr_a0_01 khr_a0_02 khr_a0_10 khr_a0_11 khr_a0_12 p0 p1 dt epsilon theta young nu rv ihr_R00_ ihr_H0_ khr_C0_0 khr_C0_1 khr_D0_1 K1 E1 A1 z ->
  forall i j, (i < 11)%nat -> (j < 11)%nat -> btwo_eentry eel0 eel1 eel2 deto0 deto1 deto2 khr_a0_00 khr_a0_01 khr_a0_02 khr_a0_10 khr_a0_11 khr_a0_12 p0 p1 dt epsilon theta young nu rv ihr_R00_ ihr_H0_ khr_C0_0 khr_C0_1 khr_D0_1 K1 E1 A1 z i j.
Proof.
  intro z; unfold z; clear z. unfold btwo_edom, btwo_eentry. intros (H1 & H2 & HK & Hs). spec_unfold. cbn in Hs.
  set (la := nu * young / ((1 + nu) * (1 - 2 * nu))) in *.
  set (mu2 := 2 * (young / (2 * (1 + nu)))) in *.
  pose (T := nthR (btwo_ejac eel0 eel1 eel2 deto0 deto1 deto2 khr_a0_00 khr_a0_01 khr_a0_02 khr_a0_10 khr_a0_11 khr_a0_12 p0 p1 dt epsilon theta young nu rv ihr_R00_ ihr_H0_ khr_C0_0 khr_C0_1 khr_D0_1 K1 E1 A1 [z0;z1;z2;z3;z4;z5;z6;z7;z8;z9;z10]) 110).
  lazy beta iota zeta delta [btwo_ejac btwo_ejac_hag nthR nth] in T; fold la mu2 in T; unfold Rminus, Rdiv in T.
  with_sqrt T Hs ltac:(fun sb q =>
    let b := first_rpower_base T in set (u := b) in *;
    assert (Hu : 0 < u) by (replace u with (q / K1) by (unfold u; field; lra); apply Rdiv_lt_0_compat; lra);
    clear T;
    forall_pairs_tac ltac:(
      lazy beta iota zeta delta [btwo_efz btwo_ejac btwo_efz_hag btwo_ejac_hag nthR nth upd Nat.mul Nat.add Rpower];
      fold la mu2;
      auto_derive; unfold Rminus, Rdiv; fold sb; fold q; fold u;
      [ pos_side | unfold u; field; pos_side ])).
Qed.

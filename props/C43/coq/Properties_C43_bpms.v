(* C43 -- property theorems, configuration bpms (proofs in C43Proofs_*.v).  The definitions <tag>_fz_hag / <tag>_jac_hag are regenerated on each run
   from the C++ that the mfront of /repo's working tree emits for props/C43/mfront/*.mfront (StandardElastoViscoPlasticity /
   StandardElasticity bricks), traced on the plastic-loading path with the regularisations inactive, modelling hypothesis with
   3-component tensors.  Every theorem: for all states, parameters and unknowns z in the stated open domain,
   jacobian(i,j) = d fzeros(i) / d zeros(j) for EVERY entry (i,j). *)
From Coq Require Import Reals List.
From Coquelicot Require Import Coquelicot.
From VLib Require Import RealExtra.
Require Import GBehLib BehSpec C43Lib Genbpms C43Proofs_bpms.
Import ListNotations.
Local Open Scope R_scope.

(* Hooke + Plastic / Mises / Swift isotropic hardening R = R0 ((p + theta dp + p0)/p0)^n: 16 entries *)
Theorem C43_brick_plastic_mises_swift_jacobian :
  forall eel0 eel1 eel2 deto0 deto1 deto2 p dt epsilon theta young nu rv Rini p0 En z0 z1 z2 z3,
    let z := [z0;z1;z2;z3] in
    1 + nu <> 0 -> 1 - 2 * nu <> 0 -> young <> 0 -> 0 < p0 -> 0 < p + theta * z3 ->
    0 < norton_seq2 3 [eel0;eel1;eel2] young nu theta z ->
    forall i j, (i < 4)%nat -> (j < 4)%nat ->
    is_derive (fun x => nthR (bpms_fz eel0 eel1 eel2 deto0 deto1 deto2 p dt epsilon theta young nu rv Rini p0 En (upd z j x)) i)
              (nthR z j)
              (nthR (bpms_jac eel0 eel1 eel2 deto0 deto1 deto2 p dt epsilon theta young nu rv Rini p0 En z) (4 * i + j)).
Proof. exact bpms_jac_ok. Qed.
Print Assumptions C43_brick_plastic_mises_swift_jacobian.

(* C43: definitions shared by the proofs "jacobian(i,j) = d fzeros(i) / d zeros(j)" of the brick configurations (effective stress,
   back stress, Hill equivalent stress).  The tactics are in props/C41/coq/GBehLib.v (shared with C42).
   Pattern of every proof (shape independent: nothing mentions the structure of the traced terms):
     1. the hypotheses (written with the functions of BehSpec.v and of this file) are restated once on the form that the von Mises /
        Hill argument, the flow argument ... have in the traced jacobian ([first_sqrt_arg], [with_sqrt] ..., equality by [field]);
     2. per entry: [lazy] unfolding of the traced definitions (only the selected entry), [auto_derive], unfolding of [Rminus]/[Rdiv] so
        that the derivative computed by Coquelicot and the traced entry share the same sub-terms, side conditions by [pos_side],
        equality by [field];
     3. large matrices are cut in blocks of rows ([forall_pairs_from_tac], [rows_split], [rows_split3]) checked concurrently. *)
From Coq Require Import Reals List Lra Lia.
From Coquelicot Require Import Coquelicot.
From VLib Require Import RealExtra.
Require Import GBehLib BehSpec.
Import ListNotations.
Local Open Scope R_scope.

(* stress of the Hooke stress potential at the middle of the step, back stress of a kinematic hardening rule *)
Definition brick_sig (eel : list R) (young nu theta : R) (deel : list R) : list R :=
  hooke (lame_lambda young nu) (lame_mu young nu) (vadd eel (vscal theta deel)).
Definition backstress (C theta : R) (a da : list R) : list R := vscal (2 * C / 3) (vadd a (vscal theta da)).
(* 3/2 s:s of the effective stress sig - X *)
Definition kin_seq2 (eel a : list R) (young nu C theta : R) (deel da : list R) : R :=
  seq2 (vsub (brick_sig eel young nu theta deel) (backstress C theta a da)).
(* Hill equivalent stress (squared): F (s11-s22)^2 + G (s22-s33)^2 + H (s33-s11)^2 + 2 L s12^2 + 2 M s13^2 + 2 N s23^2,
   the off-diagonal components of a tensor being stored multiplied by sqrt 2 *)
Definition hill2 (F G H L M N : R) (s : list R) : R :=
  F * (nthR s 0 - nthR s 1) ^ 2 + G * (nthR s 1 - nthR s 2) ^ 2 + H * (nthR s 2 - nthR s 0) ^ 2 +
  L * nthR s 3 ^ 2 + M * nthR s 4 ^ 2 + N * nthR s 5 ^ 2.

Ltac spec_unfold := unfold kin_seq2, hill2, backstress, brick_sig, norton_seq2, seq2, dev, hooke, lame_lambda, lame_mu,
  vadd, vsub, vscal, vdot, vmap2, tabulate, diag3, tr3, sublist, nthR in *.

(* ---- fourth round: helpers of the proofs of the added configurations (value-returning, so that a failure of what follows is
   not reported as a failure of the match) ---- *)
(* the base c of an [Rpower c _] that occurs inside the base of another [Rpower _ _] of the body of T *)
Ltac inner_rpower_base T :=
  let t := eval unfold T in T in
  match t with context[Rpower ?b _] => match b with context[Rpower ?c _] => c end end.
(* the base of an [Rpower b _] of the body of T that contains the term w (a local definition) *)
Ltac rpower_base_containing T w :=
  let t := eval unfold T in T in
  match t with context[Rpower ?b _] => match b with context[w] => b end end.
(* the argument of a [sqrt] of the body of T that is not sb (a second square root) *)
Ltac other_sqrt_arg T sb :=
  let t := eval unfold T in T in
  match t with context[sqrt ?b] => lazymatch b with sb => fail | _ => b end end.
(* hyperbolic sine written with one exponential, (exp x - 1/exp x)/2, is positive for x > 0 *)
Lemma exp_minus_inv_pos x : 0 < x -> 0 < (exp x - / exp x) / 2.
Proof.
  intro Hx. assert (H1 : 1 < exp x) by (rewrite <- exp_0; apply exp_increasing; exact Hx).
  assert (H2 : / exp x < 1) by (rewrite <- Rinv_1; apply Rinv_lt_contravar; lra).
  lra.
Qed.
(* side conditions with products of positive local definitions: [pos1], else non-linear arithmetic on the hypotheses *)
Ltac pos_side_nra := repeat split; first [ pos1 | timeout 20 nra ].

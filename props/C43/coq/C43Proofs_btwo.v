(* C43, C43TwoFlows: the blocks of rows of the 11 x 11 jacobian put together. *)
From Coq Require Import Reals List Lra Lia.
From Coquelicot Require Import Coquelicot.
From VLib Require Import RealExtra.
Require Import GBehLib BehSpec C43Lib Genbtwo C43Defs_btwo C43Proofs_btwo_a C43Proofs_btwo_b C43Proofs_btwo_c.
Import ListNotations.
Local Open Scope R_scope.

Lemma btwo_jac_ok eel0 eel1 eel2 deto0 deto1 deto2 khr_a0_00 khr_a0_01 khr_a0_02 khr_a0_10 khr_a0_11 khr_a0_12 p0 p1 dt epsilon theta young nu rv ihr_R00_ ihr_H0_ khr_C0_0 khr_C0_1 khr_D0_1 K1 E1 A1 z0 z1 z2 z3 z4 z5 z6 z7 z8 z9 z10 :
  let z := [z0;z1;z2;z3;z4;z5;z6;z7;z8;z9;z10] in
  btwo_dom eel0 eel1 eel2 deto0 deto1 deto2 khr_a0_00 khr_a0_01 khr_a0_02 khr_a0_10 khr_a0_11 khr_a0_12 p0 p1 dt epsilon theta young nu rv ihr_R00_ ihr_H0_ khr_C0_0 khr_C0_1 khr_D0_1 K1 E1 A1 z ->
  forall i j, (i < 11)%nat -> (j < 11)%nat -> btwo_entry eel0 eel1 eel2 deto0 deto1 deto2 khr_a0_00 khr_a0_01 khr_a0_02 khr_a0_10 khr_a0_11 khr_a0_12 p0 p1 dt epsilon theta young nu rv ihr_R00_ ihr_H0_ khr_C0_0 khr_C0_1 khr_D0_1 K1 E1 A1 z i j.
Proof.
  intros z Hd. apply (rows_split3 _ 4 8 11 11); [ apply btwo_rows_a | apply btwo_rows_b | apply btwo_rows_c ]; exact Hd.
Qed.

(* C43, brick program C43PlasticMisesLinearPrager (Hooke + plastic flow / von Mises / linear isotropic hardening / Prager
   kinematic hardening), 3-component tensors, unknowns z = (deel[3], da[3], dp): definitions and the proof script shared by the
   two blocks of rows (C43Proofs_bplp_a.v, C43Proofs_bplp_b.v; split so that they are checked concurrently). *)
From Coq Require Import Reals List Lra.
From Coquelicot Require Import Coquelicot.
From VLib Require Import RealExtra.
Require Import GBehLib BehSpec C43Lib Genbplp.
Import ListNotations.
Local Open Scope R_scope.

Section Bplp.
  Variables eel0 eel1 eel2 deto0 deto1 deto2 a0 a1 a2 p dt epsilon theta young nu rv Rini Hiso Ck : R.
  Definition bplp_fz (z : list R) : list R :=
    bplp_fz_hag eel0 eel1 eel2 deto0 deto1 deto2 a0 a1 a2 p dt epsilon theta young nu rv Rini Hiso Ck
                (nthR z 0) (nthR z 1) (nthR z 2) (nthR z 3) (nthR z 4) (nthR z 5) (nthR z 6).
  Definition bplp_jac (z : list R) : list R :=
    bplp_jac_hag eel0 eel1 eel2 deto0 deto1 deto2 a0 a1 a2 p dt epsilon theta young nu rv Rini Hiso Ck
                 (nthR z 0) (nthR z 1) (nthR z 2) (nthR z 3) (nthR z 4) (nthR z 5) (nthR z 6).
  (* plastic loading with a non-zero effective von Mises stress *)
  Definition bplp_dom (z : list R) : Prop :=
    1 + nu <> 0 /\ 1 - 2 * nu <> 0 /\ young <> 0 /\
    0 < kin_seq2 [eel0;eel1;eel2] [a0;a1;a2] young nu Ck theta (firstn 3 z) (sublist 3 3 z).
  Definition bplp_entry (z : list R) (i j : nat) : Prop :=
    is_derive (fun x => nthR (bplp_fz (upd z j x)) i) (nthR z j) (nthR (bplp_jac z) (7 * i + j)).
End Bplp.

(* goal: bplp_dom .. z -> forall i j, (a <= i < a + n) -> (j < 7) -> bplp_entry .. z i j, with z an explicit list *)
Ltac bplp_rows :=
  intros (H1 & H2 & HY & Hs); unfold bplp_entry; spec_unfold; cbn in Hs;
  let la := fresh "la" in let mu2 := fresh "mu2" in let T := fresh "T" in
  match goal with |- context[bplp_jac ?e0 ?e1 ?e2 ?d0 ?d1 ?d2 ?b0 ?b1 ?b2 ?p ?dt ?eps ?theta ?young ?nu ?rv ?R ?H ?C ?z] =>
    set (la := nu * young / ((1 + nu) * (1 - 2 * nu))) in *;
    set (mu2 := 2 * (young / (2 * (1 + nu)))) in *;
    pose (T := nthR (bplp_jac e0 e1 e2 d0 d1 d2 b0 b1 b2 p dt eps theta young nu rv R H C z) 0);
    lazy beta iota zeta delta [bplp_jac bplp_jac_hag nthR nth] in T; fold la mu2 in T; unfold Rminus, Rdiv in T
  end;
  with_sqrt T Hs ltac:(fun sb q =>
    clear T;
    forall_pairs_from_tac ltac:(
      lazy beta iota zeta delta [bplp_fz bplp_jac bplp_fz_hag bplp_jac_hag nthR nth upd Nat.mul Nat.add];
      fold la mu2;
      auto_derive; unfold Rminus, Rdiv; fold sb; fold q;
      [ pos_side | field; pos_side ])).

(* C43 -- property theorems, configuration bpch (C43PlasticMisesChaboche2012), 3-component tensors (proofs in C43Proofs_bpch.v).  The definitions bpch_*_hag are regenerated on each
   run from the C++ that the mfront of /repo's working tree emits for props/C43/mfront/C43PlasticMisesChaboche2012.mfront: Hooke + plastic flow / von Mises / linear isotropic hardening / Chaboche 2012 kinematic hardening
   da = dp (n - D Psi(J(a)) a), Psi = ((D J - 3w/2)/((1-w) D J))^m, on the leaf 2 D J(a) > 3 w, dp > 0; z = (deel, da, dp). *)
From Coq Require Import Reals List.
From Coquelicot Require Import Coquelicot.
From VLib Require Import RealExtra.
Require Import GBehLib BehSpec C43Lib Genbpch C43Proofs_bpch.
Import ListNotations.
Local Open Scope R_scope.

(* plastic-loading leaf, z = unknowns of the implicit system (7): every jacobian(i,j) = d fzeros(i) / d zeros(j) *)
Theorem C43_brick_PlasticMisesChaboche2012_jacobian :
  forall eel0 eel1 eel2 deto0 deto1 deto2 khr_a_00 khr_a_01 khr_a_02 p dt epsilon theta young nu rv ihr_R0_ ihr_H_ khr_C_0 khr_D_0 khr_m_0 khr_w_0 z0 z1 z2 z3 z4 z5 z6,
  let z := [z0;z1;z2;z3;z4;z5;z6] in
  bpch_dom eel0 eel1 eel2 deto0 deto1 deto2 khr_a_00 khr_a_01 khr_a_02 p dt epsilon theta young nu rv ihr_R0_ ihr_H_ khr_C_0 khr_D_0 khr_m_0 khr_w_0 z ->
  forall i j, (i < 7)%nat -> (j < 7)%nat -> bpch_entry eel0 eel1 eel2 deto0 deto1 deto2 khr_a_00 khr_a_01 khr_a_02 p dt epsilon theta young nu rv ihr_R0_ ihr_H_ khr_C_0 khr_D_0 khr_m_0 khr_w_0 z i j.
Proof. exact bpch_jac_ok. Qed.
Print Assumptions C43_brick_PlasticMisesChaboche2012_jacobian.
(* elastic-loading leaf (flow inactive): the residual is zeros - (deto, 0..) and the jacobian the identity, for all inputs *)
Theorem C43_brick_PlasticMisesChaboche2012_jacobian_elastic_leaf :
  forall eel0 eel1 eel2 deto0 deto1 deto2 khr_a_00 khr_a_01 khr_a_02 p dt epsilon theta young nu rv ihr_R0_ ihr_H_ khr_C_0 khr_D_0 khr_m_0 khr_w_0 z0 z1 z2 z3 z4 z5 z6,
  let z := [z0;z1;z2;z3;z4;z5;z6] in
  forall i j, (i < 7)%nat -> (j < 7)%nat -> bpch_eentry eel0 eel1 eel2 deto0 deto1 deto2 khr_a_00 khr_a_01 khr_a_02 p dt epsilon theta young nu rv ihr_R0_ ihr_H_ khr_C_0 khr_D_0 khr_m_0 khr_w_0 z i j.
Proof. exact bpch_ejac_ok. Qed.
Print Assumptions C43_brick_PlasticMisesChaboche2012_jacobian_elastic_leaf.

(* C43, brick program C43Elasticity (StandardElasticity brick alone): the implicit system is feel = deel - deto and the
   emitted jacobian is its derivative (the identity), 3-component tensors. *)
From Coq Require Import Reals List Lra.
From Coquelicot Require Import Coquelicot.
From VLib Require Import RealExtra.
Require Import GBehLib BehSpec C43Lib Genbela.
Import ListNotations.
Local Open Scope R_scope.

Section Bela.
  Variables eel0 eel1 eel2 deto0 deto1 deto2 dt epsilon theta young nu rv : R.
  Definition bela_fz (z : list R) : list R :=
    bela_fz_hag eel0 eel1 eel2 deto0 deto1 deto2 dt epsilon theta young nu rv (nthR z 0) (nthR z 1) (nthR z 2).
  Definition bela_jac (z : list R) : list R :=
    bela_jac_hag eel0 eel1 eel2 deto0 deto1 deto2 dt epsilon theta young nu rv (nthR z 0) (nthR z 1) (nthR z 2).

  Lemma bela_fz_ok z0 z1 z2 : bela_fz [z0;z1;z2] = vsub [z0;z1;z2] [deto0;deto1;deto2].
  Proof. reflexivity. Qed.

  Lemma bela_jac_ok z0 z1 z2 :
    let z := [z0;z1;z2] in
    forall i j, (i < 3)%nat -> (j < 3)%nat ->
    is_derive (fun x => nthR (bela_fz (upd z j x)) i) (nthR z j) (nthR (bela_jac z) (3 * i + j)).
  Proof.
    intros z. unfold z. clear z.
    forall_pairs_tac ltac:(
      lazy beta iota zeta delta [bela_fz bela_jac bela_fz_hag bela_jac_hag nthR nth upd Nat.mul Nat.add];
      auto_derive; [ exact I | ring ]).
  Qed.
End Bela.

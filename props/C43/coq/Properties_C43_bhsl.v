(* C43 -- property theorems, configuration bhsl (C43HyperbolicSineMisesLinear), 3-component tensors (proofs in C43Proofs_bhsl.v).  The definitions bhsl_*_hag are regenerated on each
   run from the C++ that the mfront of /repo's working tree emits for props/C43/mfront/C43HyperbolicSineMisesLinear.mfront: Hooke + hyperbolic sine flow dp = dt A sinh((seq - R)/K)^E / von Mises / linear isotropic hardening, z = (deel, dp). *)
From Coq Require Import Reals List.
From Coquelicot Require Import Coquelicot.
From VLib Require Import RealExtra.
Require Import GBehLib BehSpec C43Lib Genbhsl C43Proofs_bhsl.
Import ListNotations.
Local Open Scope R_scope.

(* plastic-loading leaf, z = unknowns of the implicit system (4): every jacobian(i,j) = d fzeros(i) / d zeros(j) *)
Theorem C43_brick_HyperbolicSineMisesLinear_jacobian :
  forall eel0 eel1 eel2 deto0 deto1 deto2 p dt epsilon theta young nu rv ihr_R0_ ihr_H_ K E A z0 z1 z2 z3,
  let z := [z0;z1;z2;z3] in
  bhsl_dom eel0 eel1 eel2 deto0 deto1 deto2 p dt epsilon theta young nu rv ihr_R0_ ihr_H_ K E A z ->
  forall i j, (i < 4)%nat -> (j < 4)%nat -> bhsl_entry eel0 eel1 eel2 deto0 deto1 deto2 p dt epsilon theta young nu rv ihr_R0_ ihr_H_ K E A z i j.
Proof. exact bhsl_jac_ok. Qed.
Print Assumptions C43_brick_HyperbolicSineMisesLinear_jacobian.
(* elastic-loading leaf (flow inactive): the residual is zeros - (deto, 0..) and the jacobian the identity, for all inputs *)
Theorem C43_brick_HyperbolicSineMisesLinear_jacobian_elastic_leaf :
  forall eel0 eel1 eel2 deto0 deto1 deto2 p dt epsilon theta young nu rv ihr_R0_ ihr_H_ K E A z0 z1 z2 z3,
  let z := [z0;z1;z2;z3] in
  forall i j, (i < 4)%nat -> (j < 4)%nat -> bhsl_eentry eel0 eel1 eel2 deto0 deto1 deto2 p dt epsilon theta young nu rv ihr_R0_ ihr_H_ K E A z i j.
Proof. exact bhsl_ejac_ok. Qed.
Print Assumptions C43_brick_HyperbolicSineMisesLinear_jacobian_elastic_leaf.

(* C43 -- property theorem, configuration bnaf, Tridimensional hypothesis (thorough tier): Hooke + Norton / Mises / Armstrong-Frederick kinematic hardening, z = (deel, da, dp): 169 entries.
   The definitions bnaf_fz_h3d / bnaf_jac_h3d are regenerated on each run from the C++ emitted by /repo's mfront. *)
From Coq Require Import Reals List.
From Coquelicot Require Import Coquelicot.
From VLib Require Import RealExtra.
Require Import GBehLib BehSpec C43Lib Genbnaf C43Defs_bnaf_3d C43Proofs_bnaf_3d.
Import ListNotations.
Local Open Scope R_scope.

Theorem C43_brick_norton_mises_armstrong_frederick_jacobian_3d :
  forall eel0 eel1 eel2 eel3 eel4 eel5 deto0 deto1 deto2 deto3 deto4 deto5 a0 a1 a2 a3 a4 a5 p dt epsilon theta young nu rv Ck Dk Kn En An
         z0 z1 z2 z3 z4 z5 z6 z7 z8 z9 z10 z11 z12,
    let z := [z0;z1;z2;z3;z4;z5;z6;z7;z8;z9;z10;z11;z12] in
    bnaf3_dom eel0 eel1 eel2 eel3 eel4 eel5 a0 a1 a2 a3 a4 a5 theta young nu Ck Kn z ->
    forall i j, (i < 13)%nat -> (j < 13)%nat ->
    bnaf3_entry eel0 eel1 eel2 eel3 eel4 eel5 deto0 deto1 deto2 deto3 deto4 deto5 a0 a1 a2 a3 a4 a5 p dt epsilon theta young nu rv Ck Dk Kn En An z i j.
Proof. exact bnaf3_jac_ok. Qed.
Print Assumptions C43_brick_norton_mises_armstrong_frederick_jacobian_3d.

(* C43 -- property theorem, configuration bplp, Tridimensional hypothesis (thorough tier): Hooke + Plastic / Mises / linear isotropic / Prager kinematic hardening, z = (deel, da, dp): 169 entries.
   The definitions bplp_fz_h3d / bplp_jac_h3d are regenerated on each run from the C++ emitted by /repo's mfront. *)
From Coq Require Import Reals List.
From Coquelicot Require Import Coquelicot.
From VLib Require Import RealExtra.
Require Import GBehLib BehSpec C43Lib Genbplp C43Defs_bplp_3d C43Proofs_bplp_3d.
Import ListNotations.
Local Open Scope R_scope.

Theorem C43_brick_plastic_mises_linear_prager_jacobian_3d :
  forall eel0 eel1 eel2 eel3 eel4 eel5 deto0 deto1 deto2 deto3 deto4 deto5 a0 a1 a2 a3 a4 a5 p dt epsilon theta young nu rv Rini Hiso Ck
         z0 z1 z2 z3 z4 z5 z6 z7 z8 z9 z10 z11 z12,
    let z := [z0;z1;z2;z3;z4;z5;z6;z7;z8;z9;z10;z11;z12] in
    bplp3_dom eel0 eel1 eel2 eel3 eel4 eel5 a0 a1 a2 a3 a4 a5 theta young nu Ck z ->
    forall i j, (i < 13)%nat -> (j < 13)%nat ->
    bplp3_entry eel0 eel1 eel2 eel3 eel4 eel5 deto0 deto1 deto2 deto3 deto4 deto5 a0 a1 a2 a3 a4 a5 p dt epsilon theta young nu rv Rini Hiso Ck z i j.
Proof. exact bplp3_jac_ok. Qed.
Print Assumptions C43_brick_plastic_mises_linear_prager_jacobian_3d.

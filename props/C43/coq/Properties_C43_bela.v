(* C43 -- property theorems, configuration bela (proofs in C43Proofs_*.v).  The definitions <tag>_fz_hag / <tag>_jac_hag are regenerated on each run
   from the C++ that the mfront of /repo's working tree emits for props/C43/mfront/*.mfront (StandardElastoViscoPlasticity /
   StandardElasticity bricks), traced on the plastic-loading path with the regularisations inactive, modelling hypothesis with
   3-component tensors.  Every theorem: for all states, parameters and unknowns z in the stated open domain,
   jacobian(i,j) = d fzeros(i) / d zeros(j) for EVERY entry (i,j). *)
From Coq Require Import Reals List.
From Coquelicot Require Import Coquelicot.
From VLib Require Import RealExtra.
Require Import GBehLib BehSpec C43Lib Genbela C43Proofs_bela.
Import ListNotations.
Local Open Scope R_scope.

(* StandardElasticity brick alone: residual deel - deto, jacobian = its derivative (9 entries) *)
Theorem C43_brick_standard_elasticity_residual :
  forall eel0 eel1 eel2 deto0 deto1 deto2 dt epsilon theta young nu rv z0 z1 z2,
    bela_fz eel0 eel1 eel2 deto0 deto1 deto2 dt epsilon theta young nu rv [z0;z1;z2] = vsub [z0;z1;z2] [deto0;deto1;deto2].
Proof. exact bela_fz_ok. Qed.
Print Assumptions C43_brick_standard_elasticity_residual.

Theorem C43_brick_standard_elasticity_jacobian :
  forall eel0 eel1 eel2 deto0 deto1 deto2 dt epsilon theta young nu rv z0 z1 z2,
    let z := [z0;z1;z2] in
    forall i j, (i < 3)%nat -> (j < 3)%nat ->
    is_derive (fun x => nthR (bela_fz eel0 eel1 eel2 deto0 deto1 deto2 dt epsilon theta young nu rv (upd z j x)) i) (nthR z j)
              (nthR (bela_jac eel0 eel1 eel2 deto0 deto1 deto2 dt epsilon theta young nu rv z) (3 * i + j)).
Proof. exact bela_jac_ok. Qed.
Print Assumptions C43_brick_standard_elasticity_jacobian.

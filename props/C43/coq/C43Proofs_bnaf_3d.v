(* C43, C43NortonMisesAF, Tridimensional: the three blocks of rows of the 13 x 13 jacobian put together. *)
From Coq Require Import Reals List Lra Lia.
From Coquelicot Require Import Coquelicot.
From VLib Require Import RealExtra.
Require Import GBehLib BehSpec C43Lib Genbnaf C43Defs_bnaf_3d C43Proofs_bnaf_3d_a C43Proofs_bnaf_3d_b C43Proofs_bnaf_3d_c.
Import ListNotations.
Local Open Scope R_scope.

Lemma bnaf3_jac_ok eel0 eel1 eel2 eel3 eel4 eel5 deto0 deto1 deto2 deto3 deto4 deto5 a0 a1 a2 a3 a4 a5 p dt epsilon theta young nu rv Ck Dk Kn En An z0 z1 z2 z3 z4 z5 z6 z7 z8 z9 z10 z11 z12 :
  let z := [z0;z1;z2;z3;z4;z5;z6;z7;z8;z9;z10;z11;z12] in
  bnaf3_dom eel0 eel1 eel2 eel3 eel4 eel5 a0 a1 a2 a3 a4 a5 theta young nu Ck Kn z ->
  forall i j, (i < 13)%nat -> (j < 13)%nat ->
  bnaf3_entry eel0 eel1 eel2 eel3 eel4 eel5 deto0 deto1 deto2 deto3 deto4 deto5 a0 a1 a2 a3 a4 a5 p dt epsilon theta young nu rv Ck Dk Kn En An z i j.
Proof.
  intros z Hd. apply (rows_split3 _ 4 8 13 13); [ apply bnaf3_rows_a | apply bnaf3_rows_b | apply bnaf3_rows_c ]; exact Hd.
Qed.

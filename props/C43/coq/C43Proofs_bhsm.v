(* C43, brick program C43HyperbolicSineMises, hypothesis with 3-component tensors:
   Hooke + hyperbolic sine flow dp = dt A sinh(seq/K) (sinh written (e - 1/e)/2 with e = exp(seq/K)) / von Mises, z = (deel, dp).
   Every entry of the emitted jacobian is the partial derivative of the emitted residual on the plastic-loading leaf
   (domain bhsm_dom). *)
From Coq Require Import Reals List Lra.
From Coquelicot Require Import Coquelicot.
From VLib Require Import RealExtra.
Require Import GBehLib BehSpec C43Lib Genbhsm.
Import ListNotations.
Local Open Scope R_scope.

Definition bhsm_fz (eel0 eel1 eel2 deto0 deto1 deto2 p dt epsilon theta young nu rv K A : R) (z : list R) : list R :=
  bhsm_fz_hag eel0 eel1 eel2 deto0 deto1 deto2 p dt epsilon theta young nu rv K A (nthR z 0) (nthR z 1) (nthR z 2) (nthR z 3).
Definition bhsm_jac (eel0 eel1 eel2 deto0 deto1 deto2 p dt epsilon theta young nu rv K A : R) (z : list R) : list R :=
  bhsm_jac_hag eel0 eel1 eel2 deto0 deto1 deto2 p dt epsilon theta young nu rv K A (nthR z 0) (nthR z 1) (nthR z 2) (nthR z 3).
Definition bhsm_entry (eel0 eel1 eel2 deto0 deto1 deto2 p dt epsilon theta young nu rv K A : R) (z : list R) (i j : nat) : Prop :=
  is_derive (fun x => nthR (bhsm_fz eel0 eel1 eel2 deto0 deto1 deto2 p dt epsilon theta young nu rv K A (upd z j x)) i) (nthR z j) (nthR (bhsm_jac eel0 eel1 eel2 deto0 deto1 deto2 p dt epsilon theta young nu rv K A z) (4 * i + j)).
Definition bhsm_dom (eel0 eel1 eel2 deto0 deto1 deto2 p dt epsilon theta young nu rv K A : R) (z : list R) : Prop :=
  1 + nu <> 0 /\ 1 - 2 * nu <> 0 /\ K <> 0 /\
  0 < norton_seq2 3 [eel0;eel1;eel2] young nu theta z.
Lemma bhsm_jac_ok eel0 eel1 eel2 deto0 deto1 deto2 p dt epsilon theta young nu rv K A z0 z1 z2 z3 :
  let z := [z0;z1;z2;z3] in
  bhsm_dom eel0 eel1 eel2 deto0 deto1 deto2 p dt epsilon theta young nu rv K A z ->
  forall i j, (i < 4)%nat -> (j < 4)%nat -> bhsm_entry eel0 eel1 eel2 deto0 deto1 deto2 p dt epsilon theta young nu rv K A z i j.
Proof.
  intro z; unfold z; clear z. unfold bhsm_dom, bhsm_entry. intros (H1 & H2 & HK & Hs). spec_unfold. cbn in Hs.
  set (la := nu * young / ((1 + nu) * (1 - 2 * nu))) in *.
  set (mu2 := 2 * (young / (2 * (1 + nu)))) in *.
  pose (T := nthR (bhsm_jac eel0 eel1 eel2 deto0 deto1 deto2 p dt epsilon theta young nu rv K A [z0;z1;z2;z3]) 12).
  lazy beta iota zeta delta [bhsm_jac bhsm_jac_hag nthR nth] in T; fold la mu2 in T; unfold Rminus, Rdiv in T.
  with_sqrt T Hs ltac:(fun sb q =>
    clear T;
    forall_pairs_tac ltac:(
      lazy beta iota zeta delta [bhsm_fz bhsm_jac bhsm_fz_hag bhsm_jac_hag nthR nth upd Nat.mul Nat.add];
      fold la mu2;
      auto_derive; unfold Rminus, Rdiv; fold sb; fold q;
      [ pos_side | field; pos_side ])).
Qed.

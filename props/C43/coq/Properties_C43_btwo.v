(* C43 -- property theorems, configuration btwo (C43TwoFlows), 3-component tensors (proofs in C43Defs_btwo.v, C43Proofs_btwo*.v).  The definitions btwo_*_hag are
   regenerated on each run from the C++ that the mfront of /repo's working tree emits for props/C43/mfront/C43TwoFlows.mfront: Hooke + TWO inelastic flows in one brick: plastic flow (von Mises, linear isotropic hardening, Prager + Armstrong-Frederick kinematic
   hardening rules) and Norton flow (von Mises); z = (deel, da0, da1, dp0, dp1): 11 unknowns, block structure of the jacobian. *)
From Coq Require Import Reals List.
From Coquelicot Require Import Coquelicot.
From VLib Require Import RealExtra.
Require Import GBehLib BehSpec C43Lib Genbtwo C43Defs_btwo C43Proofs_btwo C43Proofs_btwo_e.
Import ListNotations.
Local Open Scope R_scope.

(* plastic-loading leaf, z = unknowns of the implicit system (11): every jacobian(i,j) = d fzeros(i) / d zeros(j) *)
Theorem C43_brick_TwoFlows_jacobian :
  forall eel0 eel1 eel2 deto0 deto1 deto2 khr_a0_00 khr_a0_01 khr_a0_02 khr_a0_10 khr_a0_11 khr_a0_12 p0 p1 dt epsilon theta young nu rv ihr_R00_ ihr_H0_ khr_C0_0 khr_C0_1 khr_D0_1 K1 E1 A1 z0 z1 z2 z3 z4 z5 z6 z7 z8 z9 z10,
  let z := [z0;z1;z2;z3;z4;z5;z6;z7;z8;z9;z10] in
  btwo_dom eel0 eel1 eel2 deto0 deto1 deto2 khr_a0_00 khr_a0_01 khr_a0_02 khr_a0_10 khr_a0_11 khr_a0_12 p0 p1 dt epsilon theta young nu rv ihr_R00_ ihr_H0_ khr_C0_0 khr_C0_1 khr_D0_1 K1 E1 A1 z ->
  forall i j, (i < 11)%nat -> (j < 11)%nat -> btwo_entry eel0 eel1 eel2 deto0 deto1 deto2 khr_a0_00 khr_a0_01 khr_a0_02 khr_a0_10 khr_a0_11 khr_a0_12 p0 p1 dt epsilon theta young nu rv ihr_R00_ ihr_H0_ khr_C0_0 khr_C0_1 khr_D0_1 K1 E1 A1 z i j.
Proof. exact btwo_jac_ok. Qed.
Print Assumptions C43_brick_TwoFlows_jacobian.
(* the leaf where the plastic flow is inactive and the Norton flow (no threshold) active *)
Theorem C43_brick_TwoFlows_jacobian_plastic_flow_inactive :
  forall eel0 eel1 eel2 deto0 deto1 deto2 khr_a0_00 khr_a0_01 khr_a0_02 khr_a0_10 khr_a0_11 khr_a0_12 p0 p1 dt epsilon theta young nu rv ihr_R00_ ihr_H0_ khr_C0_0 khr_C0_1 khr_D0_1 K1 E1 A1 z0 z1 z2 z3 z4 z5 z6 z7 z8 z9 z10,
  let z := [z0;z1;z2;z3;z4;z5;z6;z7;z8;z9;z10] in
  btwo_edom eel0 eel1 eel2 deto0 deto1 deto2 khr_a0_00 khr_a0_01 khr_a0_02 khr_a0_10 khr_a0_11 khr_a0_12 p0 p1 dt epsilon theta young nu rv ihr_R00_ ihr_H0_ khr_C0_0 khr_C0_1 khr_D0_1 K1 E1 A1 z ->
  forall i j, (i < 11)%nat -> (j < 11)%nat -> btwo_eentry eel0 eel1 eel2 deto0 deto1 deto2 khr_a0_00 khr_a0_01 khr_a0_02 khr_a0_10 khr_a0_11 khr_a0_12 p0 p1 dt epsilon theta young nu rv ihr_R00_ ihr_H0_ khr_C0_0 khr_C0_1 khr_D0_1 K1 E1 A1 z i j.
Proof. exact btwo_ejac_ok. Qed.
Print Assumptions C43_brick_TwoFlows_jacobian_plastic_flow_inactive.

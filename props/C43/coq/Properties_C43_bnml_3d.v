(* C43 -- property theorem, configuration bnml (Hooke + Norton / Mises / linear isotropic hardening), Tridimensional hypothesis
   (thorough tier): the definitions bnml_fz_h3d / bnml_jac_h3d are regenerated on each run from the C++ emitted by /repo's mfront. *)
From Coq Require Import Reals List.
From Coquelicot Require Import Coquelicot.
From VLib Require Import RealExtra.
Require Import GBehLib BehSpec C43Lib Genbnml C43Proofs_bnml_3d.
Import ListNotations.
Local Open Scope R_scope.

Theorem C43_brick_norton_mises_linear_jacobian_3d :
  forall eel0 eel1 eel2 eel3 eel4 eel5 deto0 deto1 deto2 deto3 deto4 deto5 p dt epsilon theta young nu rv Rini Hiso Kn En An
         z0 z1 z2 z3 z4 z5 z6,
    let z := [z0;z1;z2;z3;z4;z5;z6] in let eel := [eel0;eel1;eel2;eel3;eel4;eel5] in
    1 + nu <> 0 -> 1 - 2 * nu <> 0 -> 0 < Kn ->
    0 < norton_seq2 6 eel young nu theta z ->
    Rini + Hiso * (p + theta * z6) < sqrt (norton_seq2 6 eel young nu theta z) ->
    forall i j, (i < 7)%nat -> (j < 7)%nat ->
    is_derive (fun x => nthR (bnml3_fz eel0 eel1 eel2 eel3 eel4 eel5 deto0 deto1 deto2 deto3 deto4 deto5 p dt epsilon theta young nu rv Rini Hiso Kn En An (upd z j x)) i)
              (nthR z j)
              (nthR (bnml3_jac eel0 eel1 eel2 eel3 eel4 eel5 deto0 deto1 deto2 deto3 deto4 deto5 p dt epsilon theta young nu rv Rini Hiso Kn En An z) (7 * i + j)).
Proof. exact bnml3_jac_ok. Qed.
Print Assumptions C43_brick_norton_mises_linear_jacobian_3d.

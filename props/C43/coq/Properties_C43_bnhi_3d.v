(* C43 -- property theorem, configuration bnhi, Tridimensional hypothesis (thorough tier): Hooke + Norton / Hill criterion (F, G, H, L, M, N of the .mfront file), 49 entries.
   The definitions bnhi_fz_h3d / bnhi_jac_h3d are regenerated on each run from the C++ emitted by /repo's mfront. *)
From Coq Require Import Reals List.
From Coquelicot Require Import Coquelicot.
From VLib Require Import RealExtra.
Require Import GBehLib BehSpec C43Lib Genbnhi C43Proofs_bnhi_3d.
Import ListNotations.
Local Open Scope R_scope.

Theorem C43_brick_norton_hill_jacobian_3d :
  forall eel0 eel1 eel2 eel3 eel4 eel5 deto0 deto1 deto2 deto3 deto4 deto5 p dt epsilon theta young nu rv Kn En An
         z0 z1 z2 z3 z4 z5 z6,
    let z := [z0;z1;z2;z3;z4;z5;z6] in let eel := [eel0;eel1;eel2;eel3;eel4;eel5] in
    1 + nu <> 0 -> 1 - 2 * nu <> 0 -> 0 < Kn -> 0 < bnhi3_hill2 eel0 eel1 eel2 eel3 eel4 eel5 theta young nu z ->
    forall i j, (i < 7)%nat -> (j < 7)%nat ->
    is_derive (fun x => nthR (bnhi3_fz eel0 eel1 eel2 eel3 eel4 eel5 deto0 deto1 deto2 deto3 deto4 deto5 p dt epsilon theta young nu rv Kn En An (upd z j x)) i) (nthR z j)
              (nthR (bnhi3_jac eel0 eel1 eel2 eel3 eel4 eel5 deto0 deto1 deto2 deto3 deto4 deto5 p dt epsilon theta young nu rv Kn En An z) (7 * i + j)).
Proof. exact bnhi3_jac_ok. Qed.
Print Assumptions C43_brick_norton_hill_jacobian_3d.

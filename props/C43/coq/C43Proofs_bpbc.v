(* C43, brick program C43PlasticMisesBurletCailletaud, hypothesis with 3-component tensors:
   Hooke + plastic flow / von Mises / linear isotropic hardening / Burlet-Cailletaud kinematic hardening
   da = dp (n - D (eta a + (1 - eta) 2/3 (a:n) n)); z = (deel, da, dp).
   Every entry of the emitted jacobian is the partial derivative of the emitted residual on the plastic-loading leaf
   (domain bpbc_dom), and on the elastic-loading leaf (no flow active), where the residual is linear. *)
From Coq Require Import Reals List Lra.
From Coquelicot Require Import Coquelicot.
From VLib Require Import RealExtra.
Require Import GBehLib BehSpec C43Lib Genbpbc.
Import ListNotations.
Local Open Scope R_scope.

Definition bpbc_fz (eel0 eel1 eel2 deto0 deto1 deto2 khr_a_00 khr_a_01 khr_a_02 p dt epsilon theta young nu rv ihr_R0_ ihr_H_ khr_C_0 khr_D_0 khr_eta_0 : R) (z : list R) : list R :=
  bpbc_fz_hag eel0 eel1 eel2 deto0 deto1 deto2 khr_a_00 khr_a_01 khr_a_02 p dt epsilon theta young nu rv ihr_R0_ ihr_H_ khr_C_0 khr_D_0 khr_eta_0 (nthR z 0) (nthR z 1) (nthR z 2) (nthR z 3) (nthR z 4) (nthR z 5) (nthR z 6).
Definition bpbc_jac (eel0 eel1 eel2 deto0 deto1 deto2 khr_a_00 khr_a_01 khr_a_02 p dt epsilon theta young nu rv ihr_R0_ ihr_H_ khr_C_0 khr_D_0 khr_eta_0 : R) (z : list R) : list R :=
  bpbc_jac_hag eel0 eel1 eel2 deto0 deto1 deto2 khr_a_00 khr_a_01 khr_a_02 p dt epsilon theta young nu rv ihr_R0_ ihr_H_ khr_C_0 khr_D_0 khr_eta_0 (nthR z 0) (nthR z 1) (nthR z 2) (nthR z 3) (nthR z 4) (nthR z 5) (nthR z 6).
Definition bpbc_efz (eel0 eel1 eel2 deto0 deto1 deto2 khr_a_00 khr_a_01 khr_a_02 p dt epsilon theta young nu rv ihr_R0_ ihr_H_ khr_C_0 khr_D_0 khr_eta_0 : R) (z : list R) : list R :=
  bpbc_efz_hag eel0 eel1 eel2 deto0 deto1 deto2 khr_a_00 khr_a_01 khr_a_02 p dt epsilon theta young nu rv ihr_R0_ ihr_H_ khr_C_0 khr_D_0 khr_eta_0 (nthR z 0) (nthR z 1) (nthR z 2) (nthR z 3) (nthR z 4) (nthR z 5) (nthR z 6).
Definition bpbc_ejac (eel0 eel1 eel2 deto0 deto1 deto2 khr_a_00 khr_a_01 khr_a_02 p dt epsilon theta young nu rv ihr_R0_ ihr_H_ khr_C_0 khr_D_0 khr_eta_0 : R) (z : list R) : list R :=
  bpbc_ejac_hag eel0 eel1 eel2 deto0 deto1 deto2 khr_a_00 khr_a_01 khr_a_02 p dt epsilon theta young nu rv ihr_R0_ ihr_H_ khr_C_0 khr_D_0 khr_eta_0 (nthR z 0) (nthR z 1) (nthR z 2) (nthR z 3) (nthR z 4) (nthR z 5) (nthR z 6).
Definition bpbc_entry (eel0 eel1 eel2 deto0 deto1 deto2 khr_a_00 khr_a_01 khr_a_02 p dt epsilon theta young nu rv ihr_R0_ ihr_H_ khr_C_0 khr_D_0 khr_eta_0 : R) (z : list R) (i j : nat) : Prop :=
  is_derive (fun x => nthR (bpbc_fz eel0 eel1 eel2 deto0 deto1 deto2 khr_a_00 khr_a_01 khr_a_02 p dt epsilon theta young nu rv ihr_R0_ ihr_H_ khr_C_0 khr_D_0 khr_eta_0 (upd z j x)) i) (nthR z j) (nthR (bpbc_jac eel0 eel1 eel2 deto0 deto1 deto2 khr_a_00 khr_a_01 khr_a_02 p dt epsilon theta young nu rv ihr_R0_ ihr_H_ khr_C_0 khr_D_0 khr_eta_0 z) (7 * i + j)).
Definition bpbc_eentry (eel0 eel1 eel2 deto0 deto1 deto2 khr_a_00 khr_a_01 khr_a_02 p dt epsilon theta young nu rv ihr_R0_ ihr_H_ khr_C_0 khr_D_0 khr_eta_0 : R) (z : list R) (i j : nat) : Prop :=
  is_derive (fun x => nthR (bpbc_efz eel0 eel1 eel2 deto0 deto1 deto2 khr_a_00 khr_a_01 khr_a_02 p dt epsilon theta young nu rv ihr_R0_ ihr_H_ khr_C_0 khr_D_0 khr_eta_0 (upd z j x)) i) (nthR z j) (nthR (bpbc_ejac eel0 eel1 eel2 deto0 deto1 deto2 khr_a_00 khr_a_01 khr_a_02 p dt epsilon theta young nu rv ihr_R0_ ihr_H_ khr_C_0 khr_D_0 khr_eta_0 z) (7 * i + j)).
Definition bpbc_dom (eel0 eel1 eel2 deto0 deto1 deto2 khr_a_00 khr_a_01 khr_a_02 p dt epsilon theta young nu rv ihr_R0_ ihr_H_ khr_C_0 khr_D_0 khr_eta_0 : R) (z : list R) : Prop :=
  1 + nu <> 0 /\ 1 - 2 * nu <> 0 /\ young <> 0 /\
  0 < kin_seq2 [eel0;eel1;eel2] [khr_a_00;khr_a_01;khr_a_02] young nu khr_C_0 theta (firstn 3 z) (sublist 3 3 z).
Lemma bpbc_jac_ok eel0 eel1 eel2 deto0 deto1 deto2 khr_a_00 khr_a_01 khr_a_02 p dt epsilon theta young nu rv ihr_R0_ ihr_H_ khr_C_0 khr_D_0 khr_eta_0 z0 z1 z2 z3 z4 z5 z6 :
  let z := [z0;z1;z2;z3;z4;z5;z6] in
  bpbc_dom eel0 eel1 eel2 deto0 deto1 deto2 khr_a_00 khr_a_01 khr_a_02 p dt epsilon theta young nu rv ihr_R0_ ihr_H_ khr_C_0 khr_D_0 khr_eta_0 z ->
  forall i j, (i < 7)%nat -> (j < 7)%nat -> bpbc_entry eel0 eel1 eel2 deto0 deto1 deto2 khr_a_00 khr_a_01 khr_a_02 p dt epsilon theta young nu rv ihr_R0_ ihr_H_ khr_C_0 khr_D_0 khr_eta_0 z i j.
Proof.
  intro z; unfold z; clear z. unfold bpbc_dom, bpbc_entry. intros (H1 & H2 & HY & Hs). spec_unfold. cbn in Hs.
  set (la := nu * young / ((1 + nu) * (1 - 2 * nu))) in *.
  set (mu2 := 2 * (young / (2 * (1 + nu)))) in *.
  pose (T := nthR (bpbc_jac eel0 eel1 eel2 deto0 deto1 deto2 khr_a_00 khr_a_01 khr_a_02 p dt epsilon theta young nu rv ihr_R0_ ihr_H_ khr_C_0 khr_D_0 khr_eta_0 [z0;z1;z2;z3;z4;z5;z6]) 6).
  lazy beta iota zeta delta [bpbc_jac bpbc_jac_hag nthR nth] in T; fold la mu2 in T; unfold Rminus, Rdiv in T.
  with_sqrt T Hs ltac:(fun sb q =>
    clear T;
    forall_pairs_tac ltac:(
      lazy beta iota zeta delta [bpbc_fz bpbc_jac bpbc_fz_hag bpbc_jac_hag nthR nth upd Nat.mul Nat.add];
      fold la mu2;
      auto_derive; unfold Rminus, Rdiv; fold sb; fold q;
      [ pos_side | field; pos_side ])).
Qed.
(* elastic loading: fzeros = zeros - (deto, 0, ..), jacobian = identity; no hypothesis *)
Lemma bpbc_ejac_ok eel0 eel1 eel2 deto0 deto1 deto2 khr_a_00 khr_a_01 khr_a_02 p dt epsilon theta young nu rv ihr_R0_ ihr_H_ khr_C_0 khr_D_0 khr_eta_0 z0 z1 z2 z3 z4 z5 z6 :
  let z := [z0;z1;z2;z3;z4;z5;z6] in
  forall i j, (i < 7)%nat -> (j < 7)%nat -> bpbc_eentry eel0 eel1 eel2 deto0 deto1 deto2 khr_a_00 khr_a_01 khr_a_02 p dt epsilon theta young nu rv ihr_R0_ ihr_H_ khr_C_0 khr_D_0 khr_eta_0 z i j.
Proof.
  intro z; unfold z; clear z. unfold bpbc_eentry.
  forall_pairs_tac ltac:(
    lazy beta iota zeta delta [bpbc_efz bpbc_ejac bpbc_efz_hag bpbc_ejac_hag nthR nth upd Nat.mul Nat.add];
    auto_derive; [ pos_side | try ring ]).
Qed.

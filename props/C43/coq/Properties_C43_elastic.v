(* C43 -- property theorems: elastic-loading leaf of the configurations of the first rounds (proofs in C43Proofs_elastic.v).  <tag>_efz_hag /
   <tag>_ejac_hag are traced on the path of a seeded state whose elastic prediction is below the threshold (path condition <tag>_econd_hag). *)
From Coq Require Import Reals List.
From Coquelicot Require Import Coquelicot.
From VLib Require Import RealExtra.
Require Import GBehLib BehSpec C43Lib Genbnml Genbplp Genbnmv Genbpms C43Proofs_elastic.
Import ListNotations.
Local Open Scope R_scope.

Theorem C43_brick_NortonMisesLinear_jacobian_elastic_leaf :
  forall eel0 eel1 eel2 deto0 deto1 deto2 p dt epsilon theta young nu rv ihr_R0_ ihr_H_ K E A z0 z1 z2 z3,
  let z := [z0;z1;z2;z3] in
  forall i j, (i < 4)%nat -> (j < 4)%nat -> bnml_eentry eel0 eel1 eel2 deto0 deto1 deto2 p dt epsilon theta young nu rv ihr_R0_ ihr_H_ K E A z i j.
Proof. exact bnml_ejac_ok. Qed.
Print Assumptions C43_brick_NortonMisesLinear_jacobian_elastic_leaf.

Theorem C43_brick_PlasticMisesLinearPrager_jacobian_elastic_leaf :
  forall eel0 eel1 eel2 deto0 deto1 deto2 khr_a_00 khr_a_01 khr_a_02 p dt epsilon theta young nu rv ihr_R0_ ihr_H_ khr_C_0 z0 z1 z2 z3 z4 z5 z6,
  let z := [z0;z1;z2;z3;z4;z5;z6] in
  forall i j, (i < 7)%nat -> (j < 7)%nat -> bplp_eentry eel0 eel1 eel2 deto0 deto1 deto2 khr_a_00 khr_a_01 khr_a_02 p dt epsilon theta young nu rv ihr_R0_ ihr_H_ khr_C_0 z i j.
Proof. exact bplp_ejac_ok. Qed.
Print Assumptions C43_brick_PlasticMisesLinearPrager_jacobian_elastic_leaf.

Theorem C43_brick_NortonMisesVoce_jacobian_elastic_leaf :
  forall eel0 eel1 eel2 deto0 deto1 deto2 p dt epsilon theta young nu rv ihr_R0_ ihr_Rinf_ ihr_b_ K E A z0 z1 z2 z3,
  let z := [z0;z1;z2;z3] in
  forall i j, (i < 4)%nat -> (j < 4)%nat -> bnmv_eentry eel0 eel1 eel2 deto0 deto1 deto2 p dt epsilon theta young nu rv ihr_R0_ ihr_Rinf_ ihr_b_ K E A z i j.
Proof. exact bnmv_ejac_ok. Qed.
Print Assumptions C43_brick_NortonMisesVoce_jacobian_elastic_leaf.

Theorem C43_brick_PlasticMisesSwift_jacobian_elastic_leaf :
  forall eel0 eel1 eel2 deto0 deto1 deto2 p dt epsilon theta young nu rv ihr_R0_ ihr_p0_ ihr_E_ z0 z1 z2 z3,
  let z := [z0;z1;z2;z3] in
  forall i j, (i < 4)%nat -> (j < 4)%nat -> bpms_eentry eel0 eel1 eel2 deto0 deto1 deto2 p dt epsilon theta young nu rv ihr_R0_ ihr_p0_ ihr_E_ z i j.
Proof. exact bpms_ejac_ok. Qed.
Print Assumptions C43_brick_PlasticMisesSwift_jacobian_elastic_leaf.

(* C43, C43PlasticMisesLinearPrager: rows 3..6 (back-strain evolution, yield condition) of the jacobian, see C43Defs_bplp.v *)
From Coq Require Import Reals List Lra.
From Coquelicot Require Import Coquelicot.
From VLib Require Import RealExtra.
Require Import GBehLib BehSpec C43Lib Genbplp C43Defs_bplp.
Import ListNotations.
Local Open Scope R_scope.

Lemma bplp_rows_b eel0 eel1 eel2 deto0 deto1 deto2 a0 a1 a2 p dt epsilon theta young nu rv Rini Hiso Ck z0 z1 z2 z3 z4 z5 z6 :
  let z := [z0;z1;z2;z3;z4;z5;z6] in
  bplp_dom eel0 eel1 eel2 a0 a1 a2 theta young nu Ck z ->
  forall i j, (3 <= i < 3 + 4)%nat -> (j < 7)%nat ->
  bplp_entry eel0 eel1 eel2 deto0 deto1 deto2 a0 a1 a2 p dt epsilon theta young nu rv Rini Hiso Ck z i j.
Proof. intro z; unfold z; clear z. unfold bplp_dom. bplp_rows. Qed.

(* C43, brick program C43NortonMisesPower, hypothesis with 3-component tensors:
   Hooke + Norton flow / von Mises / Power isotropic hardening R = R0 (p + theta dp + p0)^n, z = (deel, dp), RESTRICTED TO theta = 1 (used while the emitted d R/d p carries a factor theta twice: finding nj:C43NortonMisesPower:hag:3,3).
   Every entry of the emitted jacobian is the partial derivative of the emitted residual on the plastic-loading leaf
   (domain bnpw_theta1_dom). *)
From Coq Require Import Reals List Lra.
From Coquelicot Require Import Coquelicot.
From VLib Require Import RealExtra.
Require Import GBehLib BehSpec C43Lib Genbnpw.
Import ListNotations.
Local Open Scope R_scope.

Definition bnpw_theta1_fz (eel0 eel1 eel2 deto0 deto1 deto2 p dt epsilon theta young nu rv ihr_R0_ ihr_p0_ ihr_E_ K E A : R) (z : list R) : list R :=
  bnpw_fz_hag eel0 eel1 eel2 deto0 deto1 deto2 p dt epsilon theta young nu rv ihr_R0_ ihr_p0_ ihr_E_ K E A (nthR z 0) (nthR z 1) (nthR z 2) (nthR z 3).
Definition bnpw_theta1_jac (eel0 eel1 eel2 deto0 deto1 deto2 p dt epsilon theta young nu rv ihr_R0_ ihr_p0_ ihr_E_ K E A : R) (z : list R) : list R :=
  bnpw_jac_hag eel0 eel1 eel2 deto0 deto1 deto2 p dt epsilon theta young nu rv ihr_R0_ ihr_p0_ ihr_E_ K E A (nthR z 0) (nthR z 1) (nthR z 2) (nthR z 3).
Definition bnpw_theta1_entry (eel0 eel1 eel2 deto0 deto1 deto2 p dt epsilon theta young nu rv ihr_R0_ ihr_p0_ ihr_E_ K E A : R) (z : list R) (i j : nat) : Prop :=
  is_derive (fun x => nthR (bnpw_theta1_fz eel0 eel1 eel2 deto0 deto1 deto2 p dt epsilon theta young nu rv ihr_R0_ ihr_p0_ ihr_E_ K E A (upd z j x)) i) (nthR z j) (nthR (bnpw_theta1_jac eel0 eel1 eel2 deto0 deto1 deto2 p dt epsilon theta young nu rv ihr_R0_ ihr_p0_ ihr_E_ K E A z) (4 * i + j)).
Definition bnpw_theta1_dom (eel0 eel1 eel2 deto0 deto1 deto2 p dt epsilon theta young nu rv ihr_R0_ ihr_p0_ ihr_E_ K E A : R) (z : list R) : Prop :=
  theta = 1 /\ 1 + nu <> 0 /\ 1 - 2 * nu <> 0 /\ 0 < K /\ 0 < p + theta * nthR z 3 + ihr_p0_ /\
  0 < norton_seq2 3 [eel0;eel1;eel2] young nu theta z /\
  ihr_R0_ * Rpower (p + theta * nthR z 3 + ihr_p0_) ihr_E_ < sqrt (norton_seq2 3 [eel0;eel1;eel2] young nu theta z).
Lemma bnpw_theta1_jac_ok eel0 eel1 eel2 deto0 deto1 deto2 p dt epsilon theta young nu rv ihr_R0_ ihr_p0_ ihr_E_ K E A z0 z1 z2 z3 :
  let z := [z0;z1;z2;z3] in
  bnpw_theta1_dom eel0 eel1 eel2 deto0 deto1 deto2 p dt epsilon theta young nu rv ihr_R0_ ihr_p0_ ihr_E_ K E A z ->
  forall i j, (i < 4)%nat -> (j < 4)%nat -> bnpw_theta1_entry eel0 eel1 eel2 deto0 deto1 deto2 p dt epsilon theta young nu rv ihr_R0_ ihr_p0_ ihr_E_ K E A z i j.
Proof.
  intro z; unfold z; clear z. unfold bnpw_theta1_dom, bnpw_theta1_entry. intros (Ht & H1 & H2 & HK & Hw & Hs & HR). subst theta. spec_unfold. cbn in Hs, HR, Hw.
  set (la := nu * young / ((1 + nu) * (1 - 2 * nu))) in *.
  set (mu2 := 2 * (young / (2 * (1 + nu)))) in *.
  (* entry (3,0): d fp / d deel0 contains the von Mises stress, the flow argument (seq - R)/K and the hardening argument p + theta dp + p0 *)
  pose (T := nthR (bnpw_theta1_jac eel0 eel1 eel2 deto0 deto1 deto2 p dt epsilon 1 young nu rv ihr_R0_ ihr_p0_ ihr_E_ K E A [z0;z1;z2;z3]) 12).
  lazy beta iota zeta delta [bnpw_theta1_jac bnpw_jac_hag nthR nth] in T; fold la mu2 in T; unfold Rminus, Rdiv in T.
  with_sqrt T Hs ltac:(fun sb q =>
    let c := inner_rpower_base T in set (w := c) in *;
    try replace (p + 1 * z3 + ihr_p0_) with w in * by (unfold w; ring);
    let b := rpower_base_containing T w in set (u := b) in *;
    unfold Rpower in u, HR;
    assert (Hu : 0 < u) by
      (replace u with ((q - ihr_R0_ * exp (ihr_E_ * ln w)) / K) by (unfold u; field; lra); apply Rdiv_lt_0_compat; lra);
    clear T;
    forall_pairs_tac ltac:(
      lazy beta iota zeta delta [bnpw_theta1_fz bnpw_theta1_jac bnpw_fz_hag bnpw_jac_hag nthR nth upd Nat.mul Nat.add Rpower];
      fold la mu2;
      auto_derive; unfold Rminus, Rdiv; fold sb; fold q; fold w; fold u;
      [ pos_side | unfold u; field; pos_side ])).
Qed.

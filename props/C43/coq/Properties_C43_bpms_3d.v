(* C43 -- property theorem, configuration bpms, Tridimensional hypothesis (thorough tier): Hooke + Plastic / Mises / Swift isotropic hardening, 49 entries.
   The definitions bpms_fz_h3d / bpms_jac_h3d are regenerated on each run from the C++ emitted by /repo's mfront. *)
From Coq Require Import Reals List.
From Coquelicot Require Import Coquelicot.
From VLib Require Import RealExtra.
Require Import GBehLib BehSpec C43Lib Genbpms C43Proofs_bpms_3d.
Import ListNotations.
Local Open Scope R_scope.

Theorem C43_brick_plastic_mises_swift_jacobian_3d :
  forall eel0 eel1 eel2 eel3 eel4 eel5 deto0 deto1 deto2 deto3 deto4 deto5 p dt epsilon theta young nu rv Rini p0 En
         z0 z1 z2 z3 z4 z5 z6,
    let z := [z0;z1;z2;z3;z4;z5;z6] in let eel := [eel0;eel1;eel2;eel3;eel4;eel5] in
    1 + nu <> 0 -> 1 - 2 * nu <> 0 -> young <> 0 -> 0 < p0 -> 0 < p + theta * z6 ->
    0 < norton_seq2 6 eel young nu theta z ->
    forall i j, (i < 7)%nat -> (j < 7)%nat ->
    is_derive (fun x => nthR (bpms3_fz eel0 eel1 eel2 eel3 eel4 eel5 deto0 deto1 deto2 deto3 deto4 deto5 p dt epsilon theta young nu rv Rini p0 En (upd z j x)) i) (nthR z j)
              (nthR (bpms3_jac eel0 eel1 eel2 eel3 eel4 eel5 deto0 deto1 deto2 deto3 deto4 deto5 p dt epsilon theta young nu rv Rini p0 En z) (7 * i + j)).
Proof. exact bpms3_jac_ok. Qed.
Print Assumptions C43_brick_plastic_mises_swift_jacobian_3d.

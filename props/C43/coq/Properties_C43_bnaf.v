(* C43 -- property theorems, configuration bnaf (proofs in C43Proofs_*.v).  The definitions <tag>_fz_hag / <tag>_jac_hag are regenerated on each run
   from the C++ that the mfront of /repo's working tree emits for props/C43/mfront/*.mfront (StandardElastoViscoPlasticity /
   StandardElasticity bricks), traced on the plastic-loading path with the regularisations inactive, modelling hypothesis with
   3-component tensors.  Every theorem: for all states, parameters and unknowns z in the stated open domain,
   jacobian(i,j) = d fzeros(i) / d zeros(j) for EVERY entry (i,j). *)
From Coq Require Import Reals List.
From Coquelicot Require Import Coquelicot.
From VLib Require Import RealExtra.
Require Import GBehLib BehSpec C43Lib Genbnaf C43Defs_bnaf C43Proofs_bnaf.
Import ListNotations.
Local Open Scope R_scope.

(* Hooke + Norton / Mises / Armstrong-Frederick kinematic hardening, z = (deel, da, dp): 49 entries
   (bnaf_dom: 1+nu <> 0, 1-2nu <> 0, 0 < K, 0 < 3/2 |dev(sig - X)|^2) *)
Theorem C43_brick_norton_mises_armstrong_frederick_jacobian :
  forall eel0 eel1 eel2 deto0 deto1 deto2 a0 a1 a2 p dt epsilon theta young nu rv Ck Dk Kn En An z0 z1 z2 z3 z4 z5 z6,
    let z := [z0;z1;z2;z3;z4;z5;z6] in
    bnaf_dom eel0 eel1 eel2 a0 a1 a2 theta young nu Ck Kn z ->
    forall i j, (i < 7)%nat -> (j < 7)%nat ->
    bnaf_entry eel0 eel1 eel2 deto0 deto1 deto2 a0 a1 a2 p dt epsilon theta young nu rv Ck Dk Kn En An z i j.
Proof. exact bnaf_jac_ok. Qed.
Print Assumptions C43_brick_norton_mises_armstrong_frederick_jacobian.

(* C43, brick program C43PlasticMisesChaboche2012, hypothesis with 3-component tensors:
   Hooke + plastic flow / von Mises / linear isotropic hardening / Chaboche 2012 kinematic hardening
   da = dp (n - D Psi(J(a)) a), Psi = ((D J - 3w/2)/((1-w) D J))^m, on the leaf 2 D J(a) > 3 w, dp > 0; z = (deel, da, dp).
   Every entry of the emitted jacobian is the partial derivative of the emitted residual on the plastic-loading leaf
   (domain bpch_dom), and on the elastic-loading leaf (no flow active), where the residual is linear. *)
From Coq Require Import Reals List Lra.
From Coquelicot Require Import Coquelicot.
From VLib Require Import RealExtra.
Require Import GBehLib BehSpec C43Lib Genbpch.
Import ListNotations.
Local Open Scope R_scope.

Definition bpch_fz (eel0 eel1 eel2 deto0 deto1 deto2 khr_a_00 khr_a_01 khr_a_02 p dt epsilon theta young nu rv ihr_R0_ ihr_H_ khr_C_0 khr_D_0 khr_m_0 khr_w_0 : R) (z : list R) : list R :=
  bpch_fz_hag eel0 eel1 eel2 deto0 deto1 deto2 khr_a_00 khr_a_01 khr_a_02 p dt epsilon theta young nu rv ihr_R0_ ihr_H_ khr_C_0 khr_D_0 khr_m_0 khr_w_0 (nthR z 0) (nthR z 1) (nthR z 2) (nthR z 3) (nthR z 4) (nthR z 5) (nthR z 6).
Definition bpch_jac (eel0 eel1 eel2 deto0 deto1 deto2 khr_a_00 khr_a_01 khr_a_02 p dt epsilon theta young nu rv ihr_R0_ ihr_H_ khr_C_0 khr_D_0 khr_m_0 khr_w_0 : R) (z : list R) : list R :=
  bpch_jac_hag eel0 eel1 eel2 deto0 deto1 deto2 khr_a_00 khr_a_01 khr_a_02 p dt epsilon theta young nu rv ihr_R0_ ihr_H_ khr_C_0 khr_D_0 khr_m_0 khr_w_0 (nthR z 0) (nthR z 1) (nthR z 2) (nthR z 3) (nthR z 4) (nthR z 5) (nthR z 6).
Definition bpch_efz (eel0 eel1 eel2 deto0 deto1 deto2 khr_a_00 khr_a_01 khr_a_02 p dt epsilon theta young nu rv ihr_R0_ ihr_H_ khr_C_0 khr_D_0 khr_m_0 khr_w_0 : R) (z : list R) : list R :=
  bpch_efz_hag eel0 eel1 eel2 deto0 deto1 deto2 khr_a_00 khr_a_01 khr_a_02 p dt epsilon theta young nu rv ihr_R0_ ihr_H_ khr_C_0 khr_D_0 khr_m_0 khr_w_0 (nthR z 0) (nthR z 1) (nthR z 2) (nthR z 3) (nthR z 4) (nthR z 5) (nthR z 6).
Definition bpch_ejac (eel0 eel1 eel2 deto0 deto1 deto2 khr_a_00 khr_a_01 khr_a_02 p dt epsilon theta young nu rv ihr_R0_ ihr_H_ khr_C_0 khr_D_0 khr_m_0 khr_w_0 : R) (z : list R) : list R :=
  bpch_ejac_hag eel0 eel1 eel2 deto0 deto1 deto2 khr_a_00 khr_a_01 khr_a_02 p dt epsilon theta young nu rv ihr_R0_ ihr_H_ khr_C_0 khr_D_0 khr_m_0 khr_w_0 (nthR z 0) (nthR z 1) (nthR z 2) (nthR z 3) (nthR z 4) (nthR z 5) (nthR z 6).
Definition bpch_entry (eel0 eel1 eel2 deto0 deto1 deto2 khr_a_00 khr_a_01 khr_a_02 p dt epsilon theta young nu rv ihr_R0_ ihr_H_ khr_C_0 khr_D_0 khr_m_0 khr_w_0 : R) (z : list R) (i j : nat) : Prop :=
  is_derive (fun x => nthR (bpch_fz eel0 eel1 eel2 deto0 deto1 deto2 khr_a_00 khr_a_01 khr_a_02 p dt epsilon theta young nu rv ihr_R0_ ihr_H_ khr_C_0 khr_D_0 khr_m_0 khr_w_0 (upd z j x)) i) (nthR z j) (nthR (bpch_jac eel0 eel1 eel2 deto0 deto1 deto2 khr_a_00 khr_a_01 khr_a_02 p dt epsilon theta young nu rv ihr_R0_ ihr_H_ khr_C_0 khr_D_0 khr_m_0 khr_w_0 z) (7 * i + j)).
Definition bpch_eentry (eel0 eel1 eel2 deto0 deto1 deto2 khr_a_00 khr_a_01 khr_a_02 p dt epsilon theta young nu rv ihr_R0_ ihr_H_ khr_C_0 khr_D_0 khr_m_0 khr_w_0 : R) (z : list R) (i j : nat) : Prop :=
  is_derive (fun x => nthR (bpch_efz eel0 eel1 eel2 deto0 deto1 deto2 khr_a_00 khr_a_01 khr_a_02 p dt epsilon theta young nu rv ihr_R0_ ihr_H_ khr_C_0 khr_D_0 khr_m_0 khr_w_0 (upd z j x)) i) (nthR z j) (nthR (bpch_ejac eel0 eel1 eel2 deto0 deto1 deto2 khr_a_00 khr_a_01 khr_a_02 p dt epsilon theta young nu rv ihr_R0_ ihr_H_ khr_C_0 khr_D_0 khr_m_0 khr_w_0 z) (7 * i + j)).
Definition bpch_dom (eel0 eel1 eel2 deto0 deto1 deto2 khr_a_00 khr_a_01 khr_a_02 p dt epsilon theta young nu rv ihr_R0_ ihr_H_ khr_C_0 khr_D_0 khr_m_0 khr_w_0 : R) (z : list R) : Prop :=
  1 + nu <> 0 /\ 1 - 2 * nu <> 0 /\ young <> 0 /\ 0 < khr_D_0 /\ 0 < khr_w_0 /\ khr_w_0 < 1 /\
  0 < kin_seq2 [eel0;eel1;eel2] [khr_a_00;khr_a_01;khr_a_02] young nu khr_C_0 theta (firstn 3 z) (sublist 3 3 z) /\
  0 < seq2 (vadd [khr_a_00;khr_a_01;khr_a_02] (vscal theta (sublist 3 3 z))) /\
  3 * khr_w_0 < 2 * (khr_D_0 * sqrt (seq2 (vadd [khr_a_00;khr_a_01;khr_a_02] (vscal theta (sublist 3 3 z))))).
Lemma bpch_jac_ok eel0 eel1 eel2 deto0 deto1 deto2 khr_a_00 khr_a_01 khr_a_02 p dt epsilon theta young nu rv ihr_R0_ ihr_H_ khr_C_0 khr_D_0 khr_m_0 khr_w_0 z0 z1 z2 z3 z4 z5 z6 :
  let z := [z0;z1;z2;z3;z4;z5;z6] in
  bpch_dom eel0 eel1 eel2 deto0 deto1 deto2 khr_a_00 khr_a_01 khr_a_02 p dt epsilon theta young nu rv ihr_R0_ ihr_H_ khr_C_0 khr_D_0 khr_m_0 khr_w_0 z ->
  forall i j, (i < 7)%nat -> (j < 7)%nat -> bpch_entry eel0 eel1 eel2 deto0 deto1 deto2 khr_a_00 khr_a_01 khr_a_02 p dt epsilon theta young nu rv ihr_R0_ ihr_H_ khr_C_0 khr_D_0 khr_m_0 khr_w_0 z i j.
Proof.
  intro z; unfold z; clear z. unfold bpch_dom, bpch_entry. intros (H1 & H2 & HY & HD & Hw0 & Hw1 & Hs & Hsa & Hbr). spec_unfold. cbn in Hs, Hsa, Hbr.
  set (la := nu * young / ((1 + nu) * (1 - 2 * nu))) in *.
  set (mu2 := 2 * (young / (2 * (1 + nu)))) in *.
  (* entry (0,6): the normal, contains only the von Mises stress of sig - X; entry (3,3): d fa / d da contains J(a) and the Chaboche function *)
  pose (T := nthR (bpch_jac eel0 eel1 eel2 deto0 deto1 deto2 khr_a_00 khr_a_01 khr_a_02 p dt epsilon theta young nu rv ihr_R0_ ihr_H_ khr_C_0 khr_D_0 khr_m_0 khr_w_0 [z0;z1;z2;z3;z4;z5;z6]) 6).
  lazy beta iota zeta delta [bpch_jac bpch_jac_hag nthR nth] in T; fold la mu2 in T; unfold Rminus, Rdiv in T.
  pose (T2 := nthR (bpch_jac eel0 eel1 eel2 deto0 deto1 deto2 khr_a_00 khr_a_01 khr_a_02 p dt epsilon theta young nu rv ihr_R0_ ihr_H_ khr_C_0 khr_D_0 khr_m_0 khr_w_0 [z0;z1;z2;z3;z4;z5;z6]) 24).
  lazy beta iota zeta delta [bpch_jac bpch_jac_hag nthR nth] in T2; fold la mu2 in T2; unfold Rminus, Rdiv in T2.
  with_sqrt T Hs ltac:(fun sb q =>
    let b := other_sqrt_arg T2 sb in set (sa := b) in *;
    match type of Hsa with 0 < ?a => replace a with sa in * by (unfold sa; field) end;
    assert (Hqa : 0 < sqrt sa) by (apply sqrt_lt_R0; exact Hsa);
    set (qa := sqrt sa) in *;
    assert (HDq : 0 < khr_D_0 * qa) by (apply Rmult_lt_0_compat; assumption);
    assert (Hnum : 0 < 2 * (khr_D_0 * qa) - 3 * khr_w_0) by lra;
    assert (H1w : 0 < 1 - khr_w_0) by lra;
    let r := first_rpower_base T2 in set (rr := r) in *;
    assert (Hrr : 0 < rr) by
      (replace rr with ((khr_D_0 * qa - 3 * khr_w_0 / 2) / ((1 - khr_w_0) * (khr_D_0 * qa))) by (unfold rr; field; split; lra);
       apply Rdiv_lt_0_compat; [ lra | apply Rmult_lt_0_compat; assumption ]);
    clear T T2;
    forall_pairs_tac ltac:(
      lazy beta iota zeta delta [bpch_fz bpch_jac bpch_fz_hag bpch_jac_hag nthR nth upd Nat.mul Nat.add Rpower];
      fold la mu2;
      auto_derive; unfold Rminus, Rdiv; fold sb; fold q; fold sa; fold qa; fold rr;
      [ pos_side_nra | unfold rr; field; pos_side_nra ])).
Qed.
(* elastic loading: fzeros = zeros - (deto, 0, ..), jacobian = identity; no hypothesis *)
Lemma bpch_ejac_ok eel0 eel1 eel2 deto0 deto1 deto2 khr_a_00 khr_a_01 khr_a_02 p dt epsilon theta young nu rv ihr_R0_ ihr_H_ khr_C_0 khr_D_0 khr_m_0 khr_w_0 z0 z1 z2 z3 z4 z5 z6 :
  let z := [z0;z1;z2;z3;z4;z5;z6] in
  forall i j, (i < 7)%nat -> (j < 7)%nat -> bpch_eentry eel0 eel1 eel2 deto0 deto1 deto2 khr_a_00 khr_a_01 khr_a_02 p dt epsilon theta young nu rv ihr_R0_ ihr_H_ khr_C_0 khr_D_0 khr_m_0 khr_w_0 z i j.
Proof.
  intro z; unfold z; clear z. unfold bpch_eentry.
  forall_pairs_tac ltac:(
    lazy beta iota zeta delta [bpch_efz bpch_ejac bpch_efz_hag bpch_ejac_hag nthR nth upd Nat.mul Nat.add];
    auto_derive; [ pos_side | try ring ]).
Qed.

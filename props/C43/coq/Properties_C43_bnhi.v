(* C43 -- property theorems, configuration bnhi (proofs in C43Proofs_*.v).  The definitions <tag>_fz_hag / <tag>_jac_hag are regenerated on each run
   from the C++ that the mfront of /repo's working tree emits for props/C43/mfront/*.mfront (StandardElastoViscoPlasticity /
   StandardElasticity bricks), traced on the plastic-loading path with the regularisations inactive, modelling hypothesis with
   3-component tensors.  Every theorem: for all states, parameters and unknowns z in the stated open domain,
   jacobian(i,j) = d fzeros(i) / d zeros(j) for EVERY entry (i,j). *)
From Coq Require Import Reals List.
From Coquelicot Require Import Coquelicot.
From VLib Require Import RealExtra.
Require Import GBehLib BehSpec C43Lib Genbnhi C43Proofs_bnhi.
Import ListNotations.
Local Open Scope R_scope.

(* Hooke + Norton / Hill criterion (F, G, H of the .mfront file): 16 entries *)
Theorem C43_brick_norton_hill_jacobian :
  forall eel0 eel1 eel2 deto0 deto1 deto2 p dt epsilon theta young nu rv Kn En An z0 z1 z2 z3,
    let z := [z0;z1;z2;z3] in
    1 + nu <> 0 -> 1 - 2 * nu <> 0 -> 0 < Kn -> 0 < bnhi_hill2 eel0 eel1 eel2 theta young nu z ->
    forall i j, (i < 4)%nat -> (j < 4)%nat ->
    is_derive (fun x => nthR (bnhi_fz eel0 eel1 eel2 deto0 deto1 deto2 p dt epsilon theta young nu rv Kn En An (upd z j x)) i)
              (nthR z j)
              (nthR (bnhi_jac eel0 eel1 eel2 deto0 deto1 deto2 p dt epsilon theta young nu rv Kn En An z) (4 * i + j)).
Proof. exact bnhi_jac_ok. Qed.
Print Assumptions C43_brick_norton_hill_jacobian.

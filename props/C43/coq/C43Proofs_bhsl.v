(* C43, brick program C43HyperbolicSineMisesLinear, hypothesis with 3-component tensors:
   Hooke + hyperbolic sine flow dp = dt A sinh((seq - R)/K)^E / von Mises / linear isotropic hardening, z = (deel, dp).
   Every entry of the emitted jacobian is the partial derivative of the emitted residual on the plastic-loading leaf
   (domain bhsl_dom), and on the elastic-loading leaf (no flow active), where the residual is linear. *)
From Coq Require Import Reals List Lra.
From Coquelicot Require Import Coquelicot.
From VLib Require Import RealExtra.
Require Import GBehLib BehSpec C43Lib Genbhsl.
Import ListNotations.
Local Open Scope R_scope.

Definition bhsl_fz (eel0 eel1 eel2 deto0 deto1 deto2 p dt epsilon theta young nu rv ihr_R0_ ihr_H_ K E A : R) (z : list R) : list R :=
  bhsl_fz_hag eel0 eel1 eel2 deto0 deto1 deto2 p dt epsilon theta young nu rv ihr_R0_ ihr_H_ K E A (nthR z 0) (nthR z 1) (nthR z 2) (nthR z 3).
Definition bhsl_jac (eel0 eel1 eel2 deto0 deto1 deto2 p dt epsilon theta young nu rv ihr_R0_ ihr_H_ K E A : R) (z : list R) : list R :=
  bhsl_jac_hag eel0 eel1 eel2 deto0 deto1 deto2 p dt epsilon theta young nu rv ihr_R0_ ihr_H_ K E A (nthR z 0) (nthR z 1) (nthR z 2) (nthR z 3).
Definition bhsl_efz (eel0 eel1 eel2 deto0 deto1 deto2 p dt epsilon theta young nu rv ihr_R0_ ihr_H_ K E A : R) (z : list R) : list R :=
  bhsl_efz_hag eel0 eel1 eel2 deto0 deto1 deto2 p dt epsilon theta young nu rv ihr_R0_ ihr_H_ K E A (nthR z 0) (nthR z 1) (nthR z 2) (nthR z 3).
Definition bhsl_ejac (eel0 eel1 eel2 deto0 deto1 deto2 p dt epsilon theta young nu rv ihr_R0_ ihr_H_ K E A : R) (z : list R) : list R :=
  bhsl_ejac_hag eel0 eel1 eel2 deto0 deto1 deto2 p dt epsilon theta young nu rv ihr_R0_ ihr_H_ K E A (nthR z 0) (nthR z 1) (nthR z 2) (nthR z 3).
Definition bhsl_entry (eel0 eel1 eel2 deto0 deto1 deto2 p dt epsilon theta young nu rv ihr_R0_ ihr_H_ K E A : R) (z : list R) (i j : nat) : Prop :=
  is_derive (fun x => nthR (bhsl_fz eel0 eel1 eel2 deto0 deto1 deto2 p dt epsilon theta young nu rv ihr_R0_ ihr_H_ K E A (upd z j x)) i) (nthR z j) (nthR (bhsl_jac eel0 eel1 eel2 deto0 deto1 deto2 p dt epsilon theta young nu rv ihr_R0_ ihr_H_ K E A z) (4 * i + j)).
Definition bhsl_eentry (eel0 eel1 eel2 deto0 deto1 deto2 p dt epsilon theta young nu rv ihr_R0_ ihr_H_ K E A : R) (z : list R) (i j : nat) : Prop :=
  is_derive (fun x => nthR (bhsl_efz eel0 eel1 eel2 deto0 deto1 deto2 p dt epsilon theta young nu rv ihr_R0_ ihr_H_ K E A (upd z j x)) i) (nthR z j) (nthR (bhsl_ejac eel0 eel1 eel2 deto0 deto1 deto2 p dt epsilon theta young nu rv ihr_R0_ ihr_H_ K E A z) (4 * i + j)).
Definition bhsl_dom (eel0 eel1 eel2 deto0 deto1 deto2 p dt epsilon theta young nu rv ihr_R0_ ihr_H_ K E A : R) (z : list R) : Prop :=
  1 + nu <> 0 /\ 1 - 2 * nu <> 0 /\ 0 < K /\
  0 < norton_seq2 3 [eel0;eel1;eel2] young nu theta z /\
  ihr_R0_ + ihr_H_ * (p + theta * nthR z 3) < sqrt (norton_seq2 3 [eel0;eel1;eel2] young nu theta z).
Lemma bhsl_jac_ok eel0 eel1 eel2 deto0 deto1 deto2 p dt epsilon theta young nu rv ihr_R0_ ihr_H_ K E A z0 z1 z2 z3 :
  let z := [z0;z1;z2;z3] in
  bhsl_dom eel0 eel1 eel2 deto0 deto1 deto2 p dt epsilon theta young nu rv ihr_R0_ ihr_H_ K E A z ->
  forall i j, (i < 4)%nat -> (j < 4)%nat -> bhsl_entry eel0 eel1 eel2 deto0 deto1 deto2 p dt epsilon theta young nu rv ihr_R0_ ihr_H_ K E A z i j.
Proof.
  intro z; unfold z; clear z. unfold bhsl_dom, bhsl_entry. intros (H1 & H2 & HK & Hs & HR). spec_unfold. cbn in Hs, HR.
  set (la := nu * young / ((1 + nu) * (1 - 2 * nu))) in *.
  set (mu2 := 2 * (young / (2 * (1 + nu)))) in *.
  (* entry (3,0): d fp / d deel0 contains the von Mises stress, e = exp((seq - R)/K) and the base (e - 1/e)/2 of the power *)
  pose (T := nthR (bhsl_jac eel0 eel1 eel2 deto0 deto1 deto2 p dt epsilon theta young nu rv ihr_R0_ ihr_H_ K E A [z0;z1;z2;z3]) 12).
  lazy beta iota zeta delta [bhsl_jac bhsl_jac_hag nthR nth] in T; fold la mu2 in T; unfold Rminus, Rdiv in T.
  with_sqrt T Hs ltac:(fun sb q =>
    let a := first_exp_arg T in set (xe := a) in *;
    assert (Hxe : 0 < xe) by
      (replace xe with ((q - (ihr_R0_ + ihr_H_ * (p + theta * z3))) / K) by (unfold xe; field; lra); apply Rdiv_lt_0_compat; lra);
    let b := first_rpower_base T in set (sh := b) in *;
    assert (He1 : 1 < exp xe) by (rewrite <- exp_0; apply exp_increasing; exact Hxe);
    assert (Hsh : 0 < sh) by
      (replace sh with ((exp xe - / exp xe) / 2) by (unfold sh; field; apply Rgt_not_eq, exp_pos); apply exp_minus_inv_pos; exact Hxe);
    clear T;
    forall_pairs_tac ltac:(
      lazy beta iota zeta delta [bhsl_fz bhsl_jac bhsl_fz_hag bhsl_jac_hag nthR nth upd Nat.mul Nat.add Rpower];
      fold la mu2;
      auto_derive; unfold Rminus, Rdiv; fold sb; fold q; fold xe; fold sh;
      [ pos_side | unfold sh, xe in *; field; repeat split; first [ pos1 | timeout 20 nra ] ])).
Qed.
(* elastic loading: fzeros = zeros - (deto, 0, ..), jacobian = identity; no hypothesis *)
Lemma bhsl_ejac_ok eel0 eel1 eel2 deto0 deto1 deto2 p dt epsilon theta young nu rv ihr_R0_ ihr_H_ K E A z0 z1 z2 z3 :
  let z := [z0;z1;z2;z3] in
  forall i j, (i < 4)%nat -> (j < 4)%nat -> bhsl_eentry eel0 eel1 eel2 deto0 deto1 deto2 p dt epsilon theta young nu rv ihr_R0_ ihr_H_ K E A z i j.
Proof.
  intro z; unfold z; clear z. unfold bhsl_eentry.
  forall_pairs_tac ltac:(
    lazy beta iota zeta delta [bhsl_efz bhsl_ejac bhsl_efz_hag bhsl_ejac_hag nthR nth upd Nat.mul Nat.add];
    auto_derive; [ pos_side | try ring ]).
Qed.

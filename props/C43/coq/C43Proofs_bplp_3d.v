(* C43, C43PlasticMisesLinearPrager, Tridimensional: the three blocks of rows of the 13 x 13 jacobian put together. *)
From Coq Require Import Reals List Lra Lia.
From Coquelicot Require Import Coquelicot.
From VLib Require Import RealExtra.
Require Import GBehLib BehSpec C43Lib Genbplp C43Defs_bplp_3d C43Proofs_bplp_3d_a C43Proofs_bplp_3d_b C43Proofs_bplp_3d_c.
Import ListNotations.
Local Open Scope R_scope.

Lemma bplp3_jac_ok eel0 eel1 eel2 eel3 eel4 eel5 deto0 deto1 deto2 deto3 deto4 deto5 a0 a1 a2 a3 a4 a5 p dt epsilon theta young nu rv Rini Hiso Ck z0 z1 z2 z3 z4 z5 z6 z7 z8 z9 z10 z11 z12 :
  let z := [z0;z1;z2;z3;z4;z5;z6;z7;z8;z9;z10;z11;z12] in
  bplp3_dom eel0 eel1 eel2 eel3 eel4 eel5 a0 a1 a2 a3 a4 a5 theta young nu Ck z ->
  forall i j, (i < 13)%nat -> (j < 13)%nat ->
  bplp3_entry eel0 eel1 eel2 eel3 eel4 eel5 deto0 deto1 deto2 deto3 deto4 deto5 a0 a1 a2 a3 a4 a5 p dt epsilon theta young nu rv Rini Hiso Ck z i j.
Proof.
  intros z Hd. apply (rows_split3 _ 4 8 13 13); [ apply bplp3_rows_a | apply bplp3_rows_b | apply bplp3_rows_c ]; exact Hd.
Qed.

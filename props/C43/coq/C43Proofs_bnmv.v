(* C43, brick program C43NortonMisesVoce (Hooke + Norton / von Mises / Voce isotropic hardening
   R = Rinf + (R0 - Rinf) exp(-b p)), 3-component tensors: every entry of the emitted jacobian is the partial derivative of
   the emitted residual. *)
From Coq Require Import Reals List Lra.
From Coquelicot Require Import Coquelicot.
From VLib Require Import RealExtra.
Require Import GBehLib BehSpec C43Lib Genbnmv.
Import ListNotations.
Local Open Scope R_scope.

Section Bnmv.
  Variables eel0 eel1 eel2 deto0 deto1 deto2 p dt epsilon theta young nu rv Rini Rinf bv Kn En An : R.
  Definition bnmv_fz (z : list R) : list R :=
    bnmv_fz_hag eel0 eel1 eel2 deto0 deto1 deto2 p dt epsilon theta young nu rv Rini Rinf bv Kn En An (nthR z 0) (nthR z 1) (nthR z 2) (nthR z 3).
  Definition bnmv_jac (z : list R) : list R :=
    bnmv_jac_hag eel0 eel1 eel2 deto0 deto1 deto2 p dt epsilon theta young nu rv Rini Rinf bv Kn En An (nthR z 0) (nthR z 1) (nthR z 2) (nthR z 3).

  Lemma bnmv_jac_ok z0 z1 z2 z3 :
    let z := [z0;z1;z2;z3] in
    1 + nu <> 0 -> 1 - 2 * nu <> 0 -> 0 < Kn ->
    0 < norton_seq2 3 [eel0;eel1;eel2] young nu theta z ->
    Rinf + (Rini - Rinf) * exp (- bv * (p + theta * z3)) < sqrt (norton_seq2 3 [eel0;eel1;eel2] young nu theta z) ->
    forall i j, (i < 4)%nat -> (j < 4)%nat ->
    is_derive (fun x => nthR (bnmv_fz (upd z j x)) i) (nthR z j) (nthR (bnmv_jac z) (4 * i + j)).
  Proof.
    intros z H1 H2 HK Hs HR. unfold z in *. clear z. spec_unfold. cbn in Hs, HR.
    set (la := nu * young / ((1 + nu) * (1 - 2 * nu))) in *.
    set (mu2 := 2 * (young / (2 * (1 + nu)))) in *.
    (* the von Mises argument, the argument of the exponential and the flow argument (seq - R)/K in the form they have in the
       traced jacobian (entry (3,3): d fp / d dp) *)
    pose (T := nthR (bnmv_jac [z0;z1;z2;z3]) 15).
    lazy beta iota zeta delta [bnmv_jac bnmv_jac_hag nthR nth] in T; fold la mu2 in T; unfold Rminus, Rdiv in T.
    with_sqrt T Hs ltac:(fun sb q =>
      let b := first_exp_arg T in set (ea := b) in *;
      match type of HR with context[exp ?a] => replace a with ea in HR by (unfold ea; ring) end;
      let b := first_rpower_base T in set (u := b) in *;
      assert (Hu : 0 < u) by
        (replace u with ((q - (Rinf + (Rini - Rinf) * exp ea)) / Kn) by (unfold u; field; lra); apply Rdiv_lt_0_compat; lra);
      clear T;
      forall_pairs_tac ltac:(
        lazy beta iota zeta delta [bnmv_fz bnmv_jac bnmv_fz_hag bnmv_jac_hag nthR nth upd Nat.mul Nat.add Rpower];
        fold la mu2;
        auto_derive; unfold Rminus, Rdiv; fold sb; fold q; fold ea; fold u;
        [ pos_side | unfold u; field; pos_side ])).
  Qed.
End Bnmv.

(* C43, brick program C43PlasticMisesSwift (Hooke + plastic flow / von Mises / Swift isotropic hardening
   R = R0 ((p + p0)/p0)^n), 3-component tensors: every entry of the emitted jacobian is the partial derivative of the emitted
   residual (yield condition (seq - R)/young), on the leaf p + theta dp > 0. *)
From Coq Require Import Reals List Lra.
From Coquelicot Require Import Coquelicot.
From VLib Require Import RealExtra.
Require Import GBehLib BehSpec C43Lib Genbpms.
Import ListNotations.
Local Open Scope R_scope.

Section Bpms.
  Variables eel0 eel1 eel2 deto0 deto1 deto2 p dt epsilon theta young nu rv Rini p0 En : R.
  Definition bpms_fz (z : list R) : list R :=
    bpms_fz_hag eel0 eel1 eel2 deto0 deto1 deto2 p dt epsilon theta young nu rv Rini p0 En (nthR z 0) (nthR z 1) (nthR z 2) (nthR z 3).
  Definition bpms_jac (z : list R) : list R :=
    bpms_jac_hag eel0 eel1 eel2 deto0 deto1 deto2 p dt epsilon theta young nu rv Rini p0 En (nthR z 0) (nthR z 1) (nthR z 2) (nthR z 3).

  Lemma bpms_jac_ok z0 z1 z2 z3 :
    let z := [z0;z1;z2;z3] in
    1 + nu <> 0 -> 1 - 2 * nu <> 0 -> young <> 0 -> 0 < p0 -> 0 < p + theta * z3 ->
    0 < norton_seq2 3 [eel0;eel1;eel2] young nu theta z ->
    forall i j, (i < 4)%nat -> (j < 4)%nat ->
    is_derive (fun x => nthR (bpms_fz (upd z j x)) i) (nthR z j) (nthR (bpms_jac z) (4 * i + j)).
  Proof.
    intros z H1 H2 HY Hp0 Hp Hs. unfold z in *. clear z. spec_unfold. cbn in Hs.
    set (la := nu * young / ((1 + nu) * (1 - 2 * nu))) in *.
    set (mu2 := 2 * (young / (2 * (1 + nu)))) in *.
    pose (T := nthR (bpms_jac [z0;z1;z2;z3]) 0).
    lazy beta iota zeta delta [bpms_jac bpms_jac_hag nthR nth] in T; fold la mu2 in T; unfold Rminus, Rdiv in T.
    pose (T2 := nthR (bpms_jac [z0;z1;z2;z3]) 15).
    lazy beta iota zeta delta [bpms_jac bpms_jac_hag nthR nth] in T2; unfold Rminus, Rdiv in T2.
    with_sqrt T Hs ltac:(fun sb q =>
      let b := first_rpower_base T2 in set (u := b) in *;
      assert (Hu : 0 < u) by
        (replace u with ((p + theta * z3 + p0) / p0) by (unfold u; field; lra); apply Rdiv_lt_0_compat; lra);
      clear T T2;
      forall_pairs_tac ltac:(
        lazy beta iota zeta delta [bpms_fz bpms_jac bpms_fz_hag bpms_jac_hag nthR nth upd Nat.mul Nat.add Rpower];
        fold la mu2;
        auto_derive; unfold Rminus, Rdiv; fold sb; fold q; fold u;
        [ pos_side | unfold u; field; pos_side ])).
  Qed.
End Bpms.

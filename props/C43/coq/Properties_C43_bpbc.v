(* C43 -- property theorems, configuration bpbc (C43PlasticMisesBurletCailletaud), 3-component tensors (proofs in C43Proofs_bpbc.v).  The definitions bpbc_*_hag are regenerated on each
   run from the C++ that the mfront of /repo's working tree emits for props/C43/mfront/C43PlasticMisesBurletCailletaud.mfront: Hooke + plastic flow / von Mises / linear isotropic hardening / Burlet-Cailletaud kinematic hardening
   da = dp (n - D (eta a + (1 - eta) 2/3 (a:n) n)); z = (deel, da, dp). *)
From Coq Require Import Reals List.
From Coquelicot Require Import Coquelicot.
From VLib Require Import RealExtra.
Require Import GBehLib BehSpec C43Lib Genbpbc C43Proofs_bpbc.
Import ListNotations.
Local Open Scope R_scope.

(* plastic-loading leaf, z = unknowns of the implicit system (7): every jacobian(i,j) = d fzeros(i) / d zeros(j) *)
Theorem C43_brick_PlasticMisesBurletCailletaud_jacobian :
  forall eel0 eel1 eel2 deto0 deto1 deto2 khr_a_00 khr_a_01 khr_a_02 p dt epsilon theta young nu rv ihr_R0_ ihr_H_ khr_C_0 khr_D_0 khr_eta_0 z0 z1 z2 z3 z4 z5 z6,
  let z := [z0;z1;z2;z3;z4;z5;z6] in
  bpbc_dom eel0 eel1 eel2 deto0 deto1 deto2 khr_a_00 khr_a_01 khr_a_02 p dt epsilon theta young nu rv ihr_R0_ ihr_H_ khr_C_0 khr_D_0 khr_eta_0 z ->
  forall i j, (i < 7)%nat -> (j < 7)%nat -> bpbc_entry eel0 eel1 eel2 deto0 deto1 deto2 khr_a_00 khr_a_01 khr_a_02 p dt epsilon theta young nu rv ihr_R0_ ihr_H_ khr_C_0 khr_D_0 khr_eta_0 z i j.
Proof. exact bpbc_jac_ok. Qed.
Print Assumptions C43_brick_PlasticMisesBurletCailletaud_jacobian.
(* elastic-loading leaf (flow inactive): the residual is zeros - (deto, 0..) and the jacobian the identity, for all inputs *)
Theorem C43_brick_PlasticMisesBurletCailletaud_jacobian_elastic_leaf :
  forall eel0 eel1 eel2 deto0 deto1 deto2 khr_a_00 khr_a_01 khr_a_02 p dt epsilon theta young nu rv ihr_R0_ ihr_H_ khr_C_0 khr_D_0 khr_eta_0 z0 z1 z2 z3 z4 z5 z6,
  let z := [z0;z1;z2;z3;z4;z5;z6] in
  forall i j, (i < 7)%nat -> (j < 7)%nat -> bpbc_eentry eel0 eel1 eel2 deto0 deto1 deto2 khr_a_00 khr_a_01 khr_a_02 p dt epsilon theta young nu rv ihr_R0_ ihr_H_ khr_C_0 khr_D_0 khr_eta_0 z i j.
Proof. exact bpbc_ejac_ok. Qed.
Print Assumptions C43_brick_PlasticMisesBurletCailletaud_jacobian_elastic_leaf.

(* C43, C43NortonMisesAF: rows 0..2 (strain partition) of the jacobian, see C43Defs_bnaf.v *)
From Coq Require Import Reals List Lra.
From Coquelicot Require Import Coquelicot.
From VLib Require Import RealExtra.
Require Import GBehLib BehSpec C43Lib Genbnaf C43Defs_bnaf.
Import ListNotations.
Local Open Scope R_scope.

Lemma bnaf_rows_a eel0 eel1 eel2 deto0 deto1 deto2 a0 a1 a2 p dt epsilon theta young nu rv Ck Dk Kn En An z0 z1 z2 z3 z4 z5 z6 :
  let z := [z0;z1;z2;z3;z4;z5;z6] in
  bnaf_dom eel0 eel1 eel2 a0 a1 a2 theta young nu Ck Kn z ->
  forall i j, (0 <= i < 0 + 3)%nat -> (j < 7)%nat ->
  bnaf_entry eel0 eel1 eel2 deto0 deto1 deto2 a0 a1 a2 p dt epsilon theta young nu rv Ck Dk Kn En An z i j.
Proof. intro z; unfold z; clear z. unfold bnaf_dom. bnaf_rows. Qed.

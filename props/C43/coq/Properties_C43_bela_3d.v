(* C43 -- property theorems, configuration bela (StandardElasticity brick alone), Tridimensional hypothesis (thorough tier). *)
From Coq Require Import Reals List.
From Coquelicot Require Import Coquelicot.
From VLib Require Import RealExtra.
Require Import GBehLib BehSpec C43Lib Genbela C43Proofs_bela_3d.
Import ListNotations.
Local Open Scope R_scope.

Theorem C43_brick_standard_elasticity_residual_3d :
  forall eel0 eel1 eel2 eel3 eel4 eel5 deto0 deto1 deto2 deto3 deto4 deto5 dt epsilon theta young nu rv z0 z1 z2 z3 z4 z5,
    bela3_fz eel0 eel1 eel2 eel3 eel4 eel5 deto0 deto1 deto2 deto3 deto4 deto5 dt epsilon theta young nu rv [z0;z1;z2;z3;z4;z5] =
    vsub [z0;z1;z2;z3;z4;z5] [deto0;deto1;deto2;deto3;deto4;deto5].
Proof. exact bela3_fz_ok. Qed.
Print Assumptions C43_brick_standard_elasticity_residual_3d.

Theorem C43_brick_standard_elasticity_jacobian_3d :
  forall eel0 eel1 eel2 eel3 eel4 eel5 deto0 deto1 deto2 deto3 deto4 deto5 dt epsilon theta young nu rv z0 z1 z2 z3 z4 z5,
    let z := [z0;z1;z2;z3;z4;z5] in
    forall i j, (i < 6)%nat -> (j < 6)%nat ->
    is_derive (fun x => nthR (bela3_fz eel0 eel1 eel2 eel3 eel4 eel5 deto0 deto1 deto2 deto3 deto4 deto5 dt epsilon theta young nu rv (upd z j x)) i) (nthR z j)
              (nthR (bela3_jac eel0 eel1 eel2 eel3 eel4 eel5 deto0 deto1 deto2 deto3 deto4 deto5 dt epsilon theta young nu rv z) (6 * i + j)).
Proof. exact bela3_jac_ok. Qed.
Print Assumptions C43_brick_standard_elasticity_jacobian_3d.

(* C43, brick program C43NortonMisesAF (Hooke + Norton flow / von Mises / Armstrong-Frederick kinematic hardening
   da = dp (n - D a)), 3-component tensors, unknowns z = (deel[3], da[3], dp): definitions and the proof script shared by the
   two blocks of rows (C43Proofs_bnaf_a.v, C43Proofs_bnaf_b.v; split so that they are checked concurrently). *)
From Coq Require Import Reals List Lra.
From Coquelicot Require Import Coquelicot.
From VLib Require Import RealExtra.
Require Import GBehLib BehSpec C43Lib Genbnaf.
Import ListNotations.
Local Open Scope R_scope.

Section Bnaf.
  Variables eel0 eel1 eel2 deto0 deto1 deto2 a0 a1 a2 p dt epsilon theta young nu rv Ck Dk Kn En An : R.
  Definition bnaf_fz (z : list R) : list R :=
    bnaf_fz_hag eel0 eel1 eel2 deto0 deto1 deto2 a0 a1 a2 p dt epsilon theta young nu rv Ck Dk Kn En An
                (nthR z 0) (nthR z 1) (nthR z 2) (nthR z 3) (nthR z 4) (nthR z 5) (nthR z 6).
  Definition bnaf_jac (z : list R) : list R :=
    bnaf_jac_hag eel0 eel1 eel2 deto0 deto1 deto2 a0 a1 a2 p dt epsilon theta young nu rv Ck Dk Kn En An
                 (nthR z 0) (nthR z 1) (nthR z 2) (nthR z 3) (nthR z 4) (nthR z 5) (nthR z 6).
  (* viscoplastic flow with a non-zero effective von Mises stress *)
  Definition bnaf_dom (z : list R) : Prop :=
    1 + nu <> 0 /\ 1 - 2 * nu <> 0 /\ 0 < Kn /\
    0 < kin_seq2 [eel0;eel1;eel2] [a0;a1;a2] young nu Ck theta (firstn 3 z) (sublist 3 3 z).
  Definition bnaf_entry (z : list R) (i j : nat) : Prop :=
    is_derive (fun x => nthR (bnaf_fz (upd z j x)) i) (nthR z j) (nthR (bnaf_jac z) (7 * i + j)).
End Bnaf.

(* goal: bnaf_dom .. z -> forall i j, (a <= i < a + n) -> (j < 7) -> bnaf_entry .. z i j, with z an explicit list *)
Ltac bnaf_rows :=
  intros (H1 & H2 & HK & Hs); unfold bnaf_entry; spec_unfold; cbn in Hs;
  let la := fresh "la" in let mu2 := fresh "mu2" in let T := fresh "T" in let u := fresh "u" in let Hu := fresh "Hu" in
  match goal with |- context[bnaf_jac ?e0 ?e1 ?e2 ?d0 ?d1 ?d2 ?b0 ?b1 ?b2 ?p ?dt ?eps ?theta ?young ?nu ?rv ?C ?D ?K ?E ?A ?z] =>
    set (la := nu * young / ((1 + nu) * (1 - 2 * nu))) in *;
    set (mu2 := 2 * (young / (2 * (1 + nu)))) in *;
    (* entry (6,0): d fp / d deel0, contains the von Mises stress and the flow argument seq/K *)
    pose (T := nthR (bnaf_jac e0 e1 e2 d0 d1 d2 b0 b1 b2 p dt eps theta young nu rv C D K E A z) 42);
    lazy beta iota zeta delta [bnaf_jac bnaf_jac_hag nthR nth] in T; fold la mu2 in T; unfold Rminus, Rdiv in T;
    with_sqrt T Hs ltac:(fun sb q =>
      let b := first_rpower_base T in set (u := b) in *;
      assert (Hu : 0 < u) by (replace u with (q / K) by (unfold u; field; lra); apply Rdiv_lt_0_compat; lra);
      clear T;
      forall_pairs_from_tac ltac:(
        lazy beta iota zeta delta [bnaf_fz bnaf_jac bnaf_fz_hag bnaf_jac_hag nthR nth upd Nat.mul Nat.add Rpower];
        fold la mu2;
        auto_derive; unfold Rminus, Rdiv; fold sb; fold q; fold u;
        [ pos_side | unfold u; field; pos_side ]))
  end.

// C43: generic tracer + driver of a brick-generated Implicit-DSL behaviour.  The behaviour is selected by a configuration
// header written by check.py (-DBRICK_CFG="cfg_X.hxx"):
//   #define BEH X / BEH_HEADER "TFEL/Material/X.hxx" / BEH_TAG "x"
//   #define BEH_PARAMS  P(theta) P(young) ...      parameters (class members), made symbolic variables
//   #define BEH_STENSORS T(khr_a_0) ...            state variables of tensor type other than eel (in the order of zeros)
//   #define BEH_SCALARS  S(p)                      scalar state variables (in the order of zeros, after the tensors)
//   trace_brick gen <out.v> <seed> <ncases> <hyps>
// Coq: <tag>_cond_<h>, <tag>_fz_<h> (n), <tag>_jac_<h> (n x n, row major) on the path that contains a plastic-loading
// reference state; inputs ( eel[S] deto[S] <tensors>[S].. <scalars>.. dt <params>.. z[n] ).
// stdout: AGREE (Sym vs double computeFdF), NJ (analytical vs centred-difference jacobian of the double code: failing-input search),
//         RUN (integrate() in double: converged residual re-evaluated)
#include "gsym.hxx"
#include BRICK_CFG
#define protected public
#define private public
#include BEH_HEADER
#undef protected
#undef private
using namespace gsym;
using namespace tfel::material;
using Hyp = ModellingHypothesis::Hypothesis;

#define CAT_(a, b) a##b
#define CAT(a, b) CAT_(a, b)
template <Hyp h, typename T>
using BehT = BEH<h, T, false>;
template <Hyp h, typename T>
using BDataT = CAT(BEH, BehaviourData)<h, T, false>;
template <Hyp h, typename T>
using IDataT = CAT(BEH, IntegrationData)<h, T, false>;

static std::vector<std::string> param_names() {
  std::vector<std::string> r;
#define P(x) r.push_back(#x);
  BEH_PARAMS
#undef P
  return r;
}
static std::vector<std::string> tensor_names() {
  std::vector<std::string> r;
#define T(x) r.push_back(#x);
  BEH_STENSORS
#undef T
  return r;
}
static std::vector<std::string> scalar_names() {
  std::vector<std::string> r;
#define S(x) r.push_back(#x);
  BEH_SCALARS
#undef S
  return r;
}
static std::vector<double> param_defaults() {
  std::vector<double> r;
  auto& pi = CAT(BEH, ParametersInitializer)::get();
#define P(x) r.push_back(pi.x);
  BEH_PARAMS
#undef P
  return r;
}

template <Hyp h, typename T>
struct Beh {
  using B = BehT<h, T>;
  static constexpr int S = ModellingHypothesisToStensorSize<h>::value;
  BDataT<h, T> bd;
  IDataT<h, T> id;
  std::unique_ptr<B> b;
  int n = 0;
  // in: eel[S] deto[S] tensors[S].. scalars.. dt params..
  explicit Beh(const std::vector<T>& in) {
    int k = 0;
    for (int i = 0; i < S; ++i) bd.eel[i] = in[k++];
    for (int i = 0; i < S; ++i) id.deto[i] = in[k++];
    for (int i = 0; i < S; ++i) {
      bd.eto[i] = T(0);
      bd.sig[i] = T(0);
    }
#define T(x) \
  for (int i = 0; i < S; ++i) bd.x[i] = in[k++];
    BEH_STENSORS
#undef T
#define S(x) bd.x = in[k++];
    BEH_SCALARS
#undef S
    bd.T = T(293);
    id.dT = T(0);
    id.dt = in[k++];
    b = std::make_unique<B>(bd, id);
#define P(x) b->x = in[k++];
    BEH_PARAMS
#undef P
    n = static_cast<int>(b->zeros.size());
  }
};

template <Hyp h, typename T>
std::vector<T> fdf(const std::vector<T>& in, const std::vector<T>& z) {
  Beh<h, T> w(in);
  if (!w.b->initialize()) throw std::runtime_error("initialize failed");
  for (int i = 0; i < w.n; ++i) w.b->zeros(i) = z[i];
  w.b->computeThermodynamicForces();
  if (!w.b->computeFdF(false)) throw std::runtime_error("computeFdF failed");
  std::vector<T> out;
  for (int i = 0; i < w.n; ++i) out.push_back(w.b->fzeros(i));
  for (int i = 0; i < w.n; ++i)
    for (int j = 0; j < w.n; ++j) out.push_back(w.b->jacobian(i, j));
  return out;
}

template <Hyp h>
void doit(Trace& tr, const std::string& tag, uint64_t seed, int ncases) {
  constexpr int S = ModellingHypothesisToStensorSize<h>::value;
  const std::string bt = BEH_TAG;
  const auto pn = param_names(), tn = tensor_names(), sn = scalar_names();
  const auto pd = param_defaults();
  const int n = S * (1 + static_cast<int>(tn.size())) + static_cast<int>(sn.size());
  Groups gin{{"eel", S}, {"deto", S}};
  for (auto& t : tn) gin.push_back({t, S});
  for (auto& s : sn) gin.push_back({s, 0});
  gin.push_back({"dt", 0});
  for (auto& p : pn) gin.push_back({p, 0});
  Groups gall = gin;
  gall.push_back({"z", n});
  auto pin = mkvars(gin), pz = mkvars(Groups{{"z", n}}), pall = mkvars(gall);
  auto nm = names(gall);
  Rng rng(seed + 300 + S);
  double young = 1e5, R0 = 100;
  for (size_t i = 0; i < pn.size(); ++i) {
    if (pn[i] == "young") young = pd[i];
    if (pn[i] == "ihr_R0_") R0 = pd[i];
  }
  // plastic loading states: elastic strain such that the von Mises stress is about 1.1..2 x R0 (+ hardening)
  auto rand_in = [&](bool plastic) {
    std::vector<double> in;
    std::vector<double> dir;
    for (int i = 0; i < S; ++i) dir.push_back(rng.range(-1, 1));
    const double sc = (plastic ? rng.range(1.5, 3.) : rng.range(0.05, 0.3)) * R0 / young;
    for (int i = 0; i < S; ++i) in.push_back(dir[i] * sc);
    const double de = std::pow(10., rng.range(-5, -3.5));
    for (int i = 0; i < S; ++i) in.push_back((0.8 * dir[i] + 0.2 * rng.range(-1, 1)) * de);
    for (size_t t = 0; t < tn.size(); ++t)
      for (int i = 0; i < S; ++i) in.push_back(rng.range(-1, 1) * 1e-4);
    for (size_t s = 0; s < sn.size(); ++s) in.push_back(rng.range(0, 1e-3));
    in.push_back(std::pow(10., rng.range(-1, 1)));
    for (size_t i = 0; i < pn.size(); ++i) in.push_back(pd[i]);
    return in;
  };
  auto rand_z = [&](const std::vector<double>& in) {
    std::vector<double> z;
    for (int i = 0; i < S; ++i) z.push_back(in[S + i] * rng.range(0.1, 0.5));
    for (size_t t = 0; t < tn.size(); ++t)
      for (int i = 0; i < S; ++i) z.push_back(rng.range(-1, 1) * 1e-5);
    for (size_t s = 0; s < sn.size(); ++s) z.push_back(std::pow(10., rng.range(-6, -4)));
    return z;
  };
  auto mkenv = [&](const std::vector<double>& in, const std::vector<double>& z) {
    Env env;
    for (size_t i = 0; i < in.size(); ++i) env[nm[i]] = in[i];
    for (size_t i = 0; i < z.size(); ++i) env[nm[in.size() + i]] = z[i];
    return env;
  };
  auto f_fdf = [&] { return fdf<h, Sym>(pin, pz); };
  auto in0 = rand_in(true);
  auto z0 = rand_z(in0);
  Leaf L0 = leaf_at(f_fdf, mkenv(in0, z0));
  if (!L0.error.empty()) throw std::runtime_error("reference leaf failed: " + L0.error);
  std::vector<Sym> fz(L0.out.begin(), L0.out.begin() + n), jac(L0.out.begin() + n, L0.out.end());
  def_cond(tr, bt + "_cond_" + tag, pall, L0);
  tr.def(bt + "_fz_" + tag, pall, fz);
  tr.def(bt + "_jac_" + tag, pall, jac);
  std::printf("LAYOUT %s %s n=%d S=%d params:", bt.c_str(), tag.c_str(), n, S);
  for (auto& x : nm) std::printf(" %s", x.c_str());
  std::printf("\n");
  Agree ag;
  long onref = 0, njbad = 0, nj = 0;
  for (int c = 0; c < ncases; ++c) {
    auto in = rand_in(c % 5 != 4);
    auto z = rand_z(in);
    Env env = mkenv(in, z);
    Leaf L = leaf_at(f_fdf, env);
    if (!L.error.empty()) continue;
    const bool ref = same_path(L, L0);
    if (ref) ++onref;
    auto d = fdf<h, double>(in, z);
    std::vector<long double> sc(d.size(), 1e-30L);
    long double e = 0;
    for (int i = 0; i < 2 * S; ++i) e = std::max<long double>(e, std::fabs(in[i]));
    for (int i = 0; i < n; ++i) sc[i] = e;
    for (size_t i = n; i < d.size(); ++i) sc[i] = 1e-6L;
    ag.cmpv(eval_all(L.out, env), d, sc, 1e-9L);
    // failing-input search: analytical jacobian vs centred differences of fzeros (double code), on the reference path only
    if (ref && c < 200) {
      ++nj;
      double worst = 0;
      int wi = 0, wj = 0;
      double wa = 0, wn = 0;
      for (int j = 0; j < n; ++j) {
        const double hst = 1e-6 * std::max(1e-5, std::fabs(z[j]));
        auto zp = z, zm = z;
        zp[j] += hst;
        zm[j] -= hst;
        auto fp = fdf<h, double>(in, zp), fm = fdf<h, double>(in, zm);
        for (int i = 0; i < n; ++i) {
          const double num = (fp[i] - fm[i]) / (2 * hst), ana = d[n + n * i + j];
          const double err = std::fabs(num - ana) / std::max({std::fabs(num), std::fabs(ana), 1e-3});
          if (err > worst) worst = err, wi = i, wj = j, wa = ana, wn = num;
        }
      }
      if (worst > 1e-3) {
        ++njbad;
        std::printf("NJ-FAIL %s %s i %d j %d analytical %.10g numerical %.10g", bt.c_str(), tag.c_str(), wi, wj, wa, wn);
        print_vec("in", in);
        print_vec("z", z);
        std::printf("\n");
      }
    }
  }
  std::printf("AGREE %s-fdf %s n=%ld bad=%ld worst=%.3Lg onref=%ld\n", bt.c_str(), tag.c_str(), ag.n, ag.bad, ag.worst, onref);
  std::printf("NJ %s %s n=%ld bad=%ld\n", bt.c_str(), tag.c_str(), nj, njbad);
}

int main(int argc, char** argv) {
  if (argc < 6 || std::strcmp(argv[1], "gen")) {
    std::fprintf(stderr, "usage: trace_brick gen <out.v> <seed> <ncases> <hyps>\n");
    return 2;
  }
  const uint64_t seed = std::strtoull(argv[3], nullptr, 10);
  const int n = std::atoi(argv[4]);
  const std::string hy = std::string(",") + argv[5] + ",";
  Trace tr(std::string("Gen") + BEH_TAG);
  try {
    if (hy.find(",hag,") != std::string::npos) doit<ModellingHypothesis::AXISYMMETRICALGENERALISEDPLANESTRAIN>(tr, "hag", seed, n);
    if (hy.find(",hpe,") != std::string::npos) doit<ModellingHypothesis::PLANESTRAIN>(tr, "hpe", seed, n);
    if (hy.find(",h3d,") != std::string::npos) doit<ModellingHypothesis::TRIDIMENSIONAL>(tr, "h3d", seed, n);
  } catch (std::exception& e) {
    std::fprintf(stderr, "trace_brick: %s\n", e.what());
    return 1;
  }
  tr.write(argv[2]);
  return 0;
}

// C43: generic tracer + driver of a brick-generated Implicit-DSL behaviour.  The behaviour is selected by a configuration
// header written by check.py (-DBRICK_CFG="cfg_X.hxx"):
//   #define BEH X / BEH_HEADER "TFEL/Material/X.hxx" / BEH_TAG "x"
//   #define BEH_PARAMS  P(theta) P(young) ...      parameters (class members), made symbolic variables
//   #define BEH_STENSORS T(khr_a_0) ...            state variables of tensor type other than eel (in the order of zeros)
//   #define BEH_SCALARS  S(p)                      scalar state variables (in the order of zeros, after the tensors)
//   #define BEH_DOUBLE_ONLY                        (optional) no Sym instantiation: AGREE is skipped, NJ runs on every state whose
//                                                  double instantiation is on the plastic-loading branch (bpl)
//   #define BEH_MC_LODET <radians>                 (optional) Mohr-Coulomb state generator: stresses built from principal values with a
//                                                  prescribed Lode angle, half of them in the rounded-corner zones |lode| > lodeT
//   -DBRICK_HAG / -DBRICK_HPE / -DBRICK_H3D        hypotheses compiled in (the run-time <hyps> argument selects among them)
//   trace_brick gen <out.v> <seed> <ncases> <hyps>
// Coq: <tag>_cond_<h>, <tag>_fz_<h> (n), <tag>_jac_<h> (n x n, row major) on the path that contains a plastic-loading
// reference state; inputs ( eel[S] deto[S] <tensors>[S].. <scalars>.. dt <params>.. z[n] ).
// stdout: AGREE (Sym vs double computeFdF), NJ (analytical vs centred-difference jacobian of the double code: failing-input search),
//         RUN (integrate() in double: converged residual re-evaluated)
#include "gsym.hxx"
#include BRICK_CFG
#define protected public
#define private public
#include BEH_HEADER
#undef protected
#undef private
using namespace gsym;
using namespace tfel::material;
using Hyp = ModellingHypothesis::Hypothesis;

#define CAT_(a, b) a##b
#define CAT(a, b) CAT_(a, b)
template <Hyp h, typename T>
using BehT = BEH<h, T, false>;
template <Hyp h, typename T>
using BDataT = CAT(BEH, BehaviourData)<h, T, false>;
template <Hyp h, typename T>
using IDataT = CAT(BEH, IntegrationData)<h, T, false>;

static std::vector<std::string> param_names() {
  std::vector<std::string> r;
#define P(x) r.push_back(#x);
  BEH_PARAMS
#undef P
  return r;
}
static std::vector<std::string> tensor_names() {
  std::vector<std::string> r;
#define T(x) r.push_back(#x);
  BEH_STENSORS
#undef T
  return r;
}
static std::vector<std::string> scalar_names() {
  std::vector<std::string> r;
#define S(x) r.push_back(#x);
  BEH_SCALARS
#undef S
  return r;
}
static std::vector<double> param_defaults() {
  std::vector<double> r;
  auto& pi = CAT(BEH, ParametersInitializer)::get();
#define P(x) r.push_back(pi.x);
  BEH_PARAMS
#undef P
  return r;
}

template <Hyp h, typename T>
struct Beh {
  using B = BehT<h, T>;
  static constexpr int S = ModellingHypothesisToStensorSize<h>::value;
  BDataT<h, T> bd;
  IDataT<h, T> id;
  std::unique_ptr<B> b;
  int n = 0;
  // in: eel[S] deto[S] tensors[S].. scalars.. dt params..
  explicit Beh(const std::vector<T>& in) {
    int k = 0;
    for (int i = 0; i < S; ++i) bd.eel[i] = in[k++];
    for (int i = 0; i < S; ++i) id.deto[i] = in[k++];
    for (int i = 0; i < S; ++i) {
      bd.eto[i] = T(0);
      bd.sig[i] = T(0);
    }
#define T(x) \
  for (int i = 0; i < S; ++i) bd.x[i] = in[k++];
    BEH_STENSORS
#undef T
#define S(x) bd.x = in[k++];
    BEH_SCALARS
#undef S
    bd.T = T(293);
    id.dT = T(0);
    id.dt = in[k++];
    b = std::make_unique<B>(bd, id);
#define P(x) b->x = in[k++];
    BEH_PARAMS
#undef P
    n = static_cast<int>(b->zeros.size());
  }
};

template <typename B>
bool plastic_branch(const B& b) {
  if constexpr (requires { b.bpl; }) {
    return b.bpl;
  } else {
    return true;
  }
}

template <Hyp h, typename T>
std::vector<T> fdf(const std::vector<T>& in, const std::vector<T>& z, bool* bpl = nullptr, std::vector<T>* sig = nullptr) {
  Beh<h, T> w(in);
  if (!w.b->initialize()) throw std::runtime_error("initialize failed");
  for (int i = 0; i < w.n; ++i) w.b->zeros(i) = z[i];
  w.b->computeThermodynamicForces();
  if (bpl != nullptr) *bpl = plastic_branch(*(w.b));
  if (sig != nullptr) {
    sig->clear();
    for (int i = 0; i < Beh<h, T>::S; ++i) sig->push_back(w.b->sig[i]);
  }
  if (!w.b->computeFdF(false)) throw std::runtime_error("computeFdF failed");
  std::vector<T> out;
  for (int i = 0; i < w.n; ++i) out.push_back(w.b->fzeros(i));
  for (int i = 0; i < w.n; ++i)
    for (int j = 0; j < w.n; ++j) out.push_back(w.b->jacobian(i, j));
  return out;
}

// Lode angle (degrees) of a stress in TFEL storage, convention of Abbo and Sloan: lode = asin(-3 sqrt(3) J3 / (2 J2^(3/2))) / 3
inline double lode_deg(const std::vector<double>& sg) {
  const double c = std::sqrt(2.);
  double t[6] = {0, 0, 0, 0, 0, 0};
  for (size_t i = 0; i < sg.size() && i < 6; ++i) t[i] = sg[i];
  const double tr = (t[0] + t[1] + t[2]) / 3;
  const double s[3][3] = {{t[0] - tr, t[3] / c, t[4] / c}, {t[3] / c, t[1] - tr, t[5] / c}, {t[4] / c, t[5] / c, t[2] - tr}};
  double J2 = 0;
  for (int i = 0; i != 3; ++i)
    for (int j = 0; j != 3; ++j) J2 += s[i][j] * s[i][j] / 2;
  const double J3 = s[0][0] * (s[1][1] * s[2][2] - s[1][2] * s[2][1]) - s[0][1] * (s[1][0] * s[2][2] - s[1][2] * s[2][0]) +
                    s[0][2] * (s[1][0] * s[2][1] - s[1][1] * s[2][0]);
  if (!(J2 > 0)) return 0;
  const double arg = std::min(std::max(-3 * std::sqrt(3.) * J3 / (2 * J2 * std::sqrt(J2)), -1.), 1.);
  return std::asin(arg) / 3 * 180 / 3.14159265358979323846;
}

template <Hyp h>
void doit(Trace& tr, const std::string& tag, uint64_t seed, int ncases) {
  constexpr int S = ModellingHypothesisToStensorSize<h>::value;
  const std::string bt = BEH_TAG;
  const auto pn = param_names(), tn = tensor_names(), sn = scalar_names();
  const auto pd = param_defaults();
  const int n = S * (1 + static_cast<int>(tn.size())) + static_cast<int>(sn.size());
  Groups gin{{"eel", S}, {"deto", S}};
  for (auto& t : tn) gin.push_back({t, S});
  for (auto& s : sn) gin.push_back({s, 0});
  gin.push_back({"dt", 0});
  for (auto& p : pn) gin.push_back({p, 0});
  Groups gall = gin;
  gall.push_back({"z", n});
  auto nm = names(gall);
  Rng rng(seed + 300 + S);
  double young = 1e5, nu = 0.3, R0 = 100;
  for (size_t i = 0; i < pn.size(); ++i) {
    if (pn[i] == "young") young = pd[i];
    if (pn[i] == "nu") nu = pd[i];
    if (pn[i] == "ihr_R0_") R0 = pd[i];
  }
  // plastic loading states: elastic strain such that the von Mises stress is about 1.1..2 x R0 (+ hardening)
  auto rand_in = [&](bool plastic) {
    std::vector<double> in;
    std::vector<double> dir;
    for (int i = 0; i < S; ++i) dir.push_back(rng.range(-1, 1));
    const double sc = (plastic ? rng.range(1.5, 3.) : rng.range(0.05, 0.3)) * R0 / young;
    for (int i = 0; i < S; ++i) in.push_back(dir[i] * sc);
    double de = std::pow(10., rng.range(-5, -3.5));
#ifdef BEH_MC_LODET
    if constexpr (S == 6) {
      // stress = Q diag(pm + s_k) Q^T with a prescribed Lode angle th; half of the plastic states in the rounded-corner zones
      const double pi = 3.14159265358979323846, lodeT = (BEH_MC_LODET) * 180 / pi;
      const bool corner = plastic && rng.below(2) == 0;
      double th = corner ? (rng.below(2) ? 1. : -1.) * rng.range(lodeT + 0.4, 29.5) : rng.range(-(lodeT - 0.4), lodeT - 0.4);
      th *= pi / 180;
      const double sJ2 = plastic ? rng.range(60, 220) : rng.range(2, 10), pm = rng.range(-60, -10);
      // deviatoric principal values with asin(-3 sqrt 3 J3 / (2 J2^1.5))/3 = th
      const double pr[3] = {pm + 2 / std::sqrt(3.) * sJ2 * std::sin(th + 2 * pi / 3), pm + 2 / std::sqrt(3.) * sJ2 * std::sin(th),
                            pm + 2 / std::sqrt(3.) * sJ2 * std::sin(th - 2 * pi / 3)};
      // random rotation (Gram-Schmidt)
      double q[3][3];
      for (;;) {
        double a[3], b[3];
        for (int i = 0; i < 3; ++i) a[i] = rng.range(-1, 1), b[i] = rng.range(-1, 1);
        const double na = std::sqrt(a[0] * a[0] + a[1] * a[1] + a[2] * a[2]);
        if (na < 0.2) continue;
        for (int i = 0; i < 3; ++i) a[i] /= na;
        const double ab = a[0] * b[0] + a[1] * b[1] + a[2] * b[2];
        for (int i = 0; i < 3; ++i) b[i] -= ab * a[i];
        const double nb = std::sqrt(b[0] * b[0] + b[1] * b[1] + b[2] * b[2]);
        if (nb < 0.2) continue;
        for (int i = 0; i < 3; ++i) b[i] /= nb;
        const double cc[3] = {a[1] * b[2] - a[2] * b[1], a[2] * b[0] - a[0] * b[2], a[0] * b[1] - a[1] * b[0]};
        for (int i = 0; i < 3; ++i) q[i][0] = a[i], q[i][1] = b[i], q[i][2] = cc[i];
        break;
      }
      double sg[3][3];
      for (int i = 0; i < 3; ++i)
        for (int j = 0; j < 3; ++j) {
          sg[i][j] = 0;
          for (int k = 0; k < 3; ++k) sg[i][j] += q[i][k] * pr[k] * q[j][k];
        }
      // elastic strain of that stress (isotropic Hooke law), TFEL storage
      const double trs = sg[0][0] + sg[1][1] + sg[2][2];
      const double e[6] = {((1 + nu) * sg[0][0] - nu * trs) / young, ((1 + nu) * sg[1][1] - nu * trs) / young,
                           ((1 + nu) * sg[2][2] - nu * trs) / young, (1 + nu) * sg[0][1] / young * std::sqrt(2.),
                           (1 + nu) * sg[0][2] / young * std::sqrt(2.), (1 + nu) * sg[1][2] / young * std::sqrt(2.)};
      for (int i = 0; i < S; ++i) in[i] = e[i];
      de = std::pow(10., rng.range(-6.5, -5.5));  // small increments: the Lode angle of the iterate stays that of the state
    }
#endif
    for (int i = 0; i < S; ++i) in.push_back((0.8 * dir[i] + 0.2 * rng.range(-1, 1)) * de);
    for (size_t t = 0; t < tn.size(); ++t)
      for (int i = 0; i < S; ++i) in.push_back(rng.range(-1, 1) * 1e-4);
    for (size_t s = 0; s < sn.size(); ++s) in.push_back(rng.range(0, 1e-3));
    in.push_back(std::pow(10., rng.range(-1, 1)));
    for (size_t i = 0; i < pn.size(); ++i) in.push_back(pd[i]);
    return in;
  };
  auto rand_z = [&](const std::vector<double>& in) {
    std::vector<double> z;
    for (int i = 0; i < S; ++i) z.push_back(in[S + i] * rng.range(0.1, 0.5));
    for (size_t t = 0; t < tn.size(); ++t)
      for (int i = 0; i < S; ++i) z.push_back(rng.range(-1, 1) * 1e-5);
    for (size_t s = 0; s < sn.size(); ++s) z.push_back(std::pow(10., rng.range(-6, -4)));
    return z;
  };
  auto mkenv = [&](const std::vector<double>& in, const std::vector<double>& z) {
    Env env;
    for (size_t i = 0; i < in.size(); ++i) env[nm[i]] = in[i];
    for (size_t i = 0; i < z.size(); ++i) env[nm[in.size() + i]] = z[i];
    return env;
  };
  std::printf("LAYOUT %s %s n=%d S=%d params:", bt.c_str(), tag.c_str(), n, S);
  for (auto& x : nm) std::printf(" %s", x.c_str());
  std::printf("\n");
#ifndef BEH_DOUBLE_ONLY
  auto pin = mkvars(gin), pz = mkvars(Groups{{"z", n}}), pall = mkvars(gall);
  auto f_fdf = [&] { return fdf<h, Sym>(pin, pz); };
  // reference state: the first seeded state on the plastic-loading branch of the double instantiation
  Leaf L0;
  bool found = false;
  for (int t = 0; t < 200 && !found; ++t) {
    auto in0 = rand_in(true);
    auto z0 = rand_z(in0);
    bool bpl0 = false;
    fdf<h, double>(in0, z0, &bpl0);
    if (!bpl0) continue;
    L0 = leaf_at(f_fdf, mkenv(in0, z0));
    if (!L0.error.empty()) throw std::runtime_error("reference leaf failed: " + L0.error);
    found = true;
  }
  if (!found) throw std::runtime_error("no plastic-loading reference state");
  std::vector<Sym> fz(L0.out.begin(), L0.out.begin() + n), jac(L0.out.begin() + n, L0.out.end());
  def_cond(tr, bt + "_cond_" + tag, pall, L0);
  tr.def(bt + "_fz_" + tag, pall, fz);
  tr.def(bt + "_jac_" + tag, pall, jac);
#endif
  Agree ag;
  long onref = 0, njbad = 0, nj = 0, ncorner = 0;
  for (int c = 0; c < ncases; ++c) {
    auto in = rand_in(c % 5 != 4);
    auto z = rand_z(in);
    bool bpl = true;
    std::vector<double> sg;
    auto d = fdf<h, double>(in, z, &bpl, &sg);
#ifndef BEH_DOUBLE_ONLY
    Env env = mkenv(in, z);
    Leaf L = leaf_at(f_fdf, env);
    if (!L.error.empty()) continue;
    const bool ref = same_path(L, L0);
    std::vector<long double> sc(d.size(), 1e-30L);
    long double e = 0;
    for (int i = 0; i < 2 * S; ++i) e = std::max<long double>(e, std::fabs(in[i]));
    for (int i = 0; i < n; ++i) sc[i] = e;
    for (size_t i = n; i < d.size(); ++i) sc[i] = 1e-6L;
    ag.cmpv(eval_all(L.out, env), d, sc, 1e-9L);
#else
    const bool ref = bpl && (c % 5 != 4);
#endif
    if (ref) ++onref;
    // failing-input search: analytical jacobian vs centred differences of fzeros (double code), on the reference path only
    if (ref && nj < 200) {
      ++nj;
      const double lode = lode_deg(sg);
#ifdef BEH_MC_LODET
      const bool corner = std::fabs(lode) > (BEH_MC_LODET) * 180 / 3.14159265358979323846;
#else
      const bool corner = false;
#endif
      if (corner) ++ncorner;
      double worst = 0;
      int wi = 0, wj = 0;
      double wa = 0, wn = 0;
      for (int j = 0; j < n; ++j) {
        const double hst = 1e-4 * std::max(1e-6, std::fabs(z[j]));
        auto zp = z, zm = z;
        zp[j] += hst;
        zm[j] -= hst;
        auto fp = fdf<h, double>(in, zp), fm = fdf<h, double>(in, zm);
        for (int i = 0; i < n; ++i) {
          const double num = (fp[i] - fm[i]) / (2 * hst), ana = d[n + n * i + j];
          // rounding of the difference quotient: a few ulps of the residual divided by the step
          const double rnd = 16 * 2.3e-16 * std::max({std::fabs(fp[i]), std::fabs(fm[i]), std::fabs(z[i])}) / (2 * hst);
          const double err = std::max(0., std::fabs(num - ana) - rnd) / std::max({std::fabs(num), std::fabs(ana), 1e-3});
          if (err > worst) worst = err, wi = i, wj = j, wa = ana, wn = num;
        }
      }
      if (worst > 1e-3) {
        ++njbad;
        std::printf("NJ-FAIL %s %s i %d j %d analytical %.10g numerical %.10g lode %.4g", bt.c_str(), tag.c_str(), wi, wj, wa, wn, lode);
        print_vec("in", in);
        print_vec("z", z);
        std::printf("\n");
      }
    }
  }
#ifndef BEH_DOUBLE_ONLY
  std::printf("AGREE %s-fdf %s n=%ld bad=%ld worst=%.3Lg onref=%ld\n", bt.c_str(), tag.c_str(), ag.n, ag.bad, ag.worst, onref);
#endif
  std::printf("NJ %s %s n=%ld bad=%ld corner=%ld\n", bt.c_str(), tag.c_str(), nj, njbad, ncorner);
}

int main(int argc, char** argv) {
  if (argc < 6 || std::strcmp(argv[1], "gen")) {
    std::fprintf(stderr, "usage: trace_brick gen <out.v> <seed> <ncases> <hyps>\n");
    return 2;
  }
  const uint64_t seed = std::strtoull(argv[3], nullptr, 10);
  const int n = std::atoi(argv[4]);
  const std::string hy = std::string(",") + argv[5] + ",";
  Trace tr(std::string("Gen") + BEH_TAG);
  try {
#ifdef BRICK_HAG
    if (hy.find(",hag,") != std::string::npos) doit<ModellingHypothesis::AXISYMMETRICALGENERALISEDPLANESTRAIN>(tr, "hag", seed, n);
#endif
#ifdef BRICK_HPE
    if (hy.find(",hpe,") != std::string::npos) doit<ModellingHypothesis::PLANESTRAIN>(tr, "hpe", seed, n);
#endif
#ifdef BRICK_H3D
    if (hy.find(",h3d,") != std::string::npos) doit<ModellingHypothesis::TRIDIMENSIONAL>(tr, "h3d", seed, n);
#endif
  } catch (std::exception& e) {
    std::fprintf(stderr, "trace_brick: %s\n", e.what());
    return 1;
  }
  tr.write(argv[2]);
  return 0;
}

// C43: generic tracer + driver of a brick-generated Implicit-DSL behaviour.  The behaviour is selected by a configuration
// header written by check.py (-DBRICK_CFG="cfg_X.hxx"):
//   #define BEH X / BEH_HEADER "TFEL/Material/X.hxx" / BEH_TAG "x"
//   #define BEH_PARAMS  P(theta) P(young) ...      parameters (class members), made symbolic variables
//   #define BEH_STENSORS T(khr_a_0) ...            state variables of tensor type other than eel (in the order of zeros)
//   #define BEH_SCALARS  S(p)                      scalar state variables (in the order of zeros, after the tensors)
//   #define BEH_DOUBLE_ONLY                        (optional) no Sym instantiation: AGREE is skipped, NJ runs on every state whose
//                                                  double instantiation is on the plastic-loading branch (bpl)
//   #define BEH_MC_LODET <radians>                 (optional) Mohr-Coulomb state generator: stresses built from principal values with a
//                                                  prescribed Lode angle, half of them in the rounded-corner zones |lode| > lodeT
//   #define BEH_EIGEN_TIES                         (optional) three plastic states out of four have two equal principal stresses at the iterate
//                                                  eel + theta deel (principal frame = the axes, or a random rotation in 3D): eigen-based criteria
//   #define BEH_TENSOR_SCALE <x>                   (optional) magnitude of the seeded tensor state variables (default 1e-4)
//   -DBRICK_HAG / -DBRICK_HPE / -DBRICK_H3D        hypotheses compiled in (the run-time <hyps> argument selects among them)
//   trace_brick gen <out.v> <seed> <ncases> <hyps>
// Coq: <tag>_cond_<h>, <tag>_fz_<h> (n), <tag>_jac_<h> (n x n, row major) on the path that contains a plastic-loading
// reference state; <tag>_econd_<h>, <tag>_efz_<h>, <tag>_ejac_<h> on the path of an elastic-loading state (every flow that has a
// threshold inactive; when the behaviour has such a flow); inputs ( eel[S] deto[S] <tensors>[S].. <scalars>.. dt <params>.. z[n] ).
// The parameter theta of two seeded states out of three is drawn in [0.5, 1] (the .mfront files declare 1).
// stdout: AGREE (Sym vs double computeFdF), NJ (analytical vs centred-difference jacobian of the double code: failing-input search),
//         RUN (integrate() in double: converged residual re-evaluated)
#include "gsym.hxx"
#include BRICK_CFG
#define protected public
#define private public
#include BEH_HEADER
#undef protected
#undef private
using namespace gsym;
using namespace tfel::material;
using Hyp = ModellingHypothesis::Hypothesis;

#define CAT_(a, b) a##b
#define CAT(a, b) CAT_(a, b)
template <Hyp h, typename T>
using BehT = BEH<h, T, false>;
template <Hyp h, typename T>
using BDataT = CAT(BEH, BehaviourData)<h, T, false>;
template <Hyp h, typename T>
using IDataT = CAT(BEH, IntegrationData)<h, T, false>;

static std::vector<std::string> param_names() {
  std::vector<std::string> r;
#define P(x) r.push_back(#x);
  BEH_PARAMS
#undef P
  return r;
}
static std::vector<std::string> tensor_names() {
  std::vector<std::string> r;
#define T(x) r.push_back(#x);
  BEH_STENSORS
#undef T
  return r;
}
static std::vector<std::string> scalar_names() {
  std::vector<std::string> r;
#define S(x) r.push_back(#x);
  BEH_SCALARS
#undef S
  return r;
}
static std::vector<double> param_defaults() {
  std::vector<double> r;
  auto& pi = CAT(BEH, ParametersInitializer)::get();
#define P(x) r.push_back(pi.x);
  BEH_PARAMS
#undef P
  return r;
}

template <Hyp h, typename T>
struct Beh {
  using B = BehT<h, T>;
  static constexpr int S = ModellingHypothesisToStensorSize<h>::value;
  BDataT<h, T> bd;
  IDataT<h, T> id;
  std::unique_ptr<B> b;
  int n = 0;
  // in: eel[S] deto[S] tensors[S].. scalars.. dt params..
  explicit Beh(const std::vector<T>& in) {
    int k = 0;
    for (int i = 0; i < S; ++i) bd.eel[i] = in[k++];
    for (int i = 0; i < S; ++i) id.deto[i] = in[k++];
    for (int i = 0; i < S; ++i) {
      bd.eto[i] = T(0);
      bd.sig[i] = T(0);
    }
#define T(x) \
  for (int i = 0; i < S; ++i) bd.x[i] = in[k++];
    BEH_STENSORS
#undef T
#define S(x) bd.x = in[k++];
    BEH_SCALARS
#undef S
    bd.T = T(293);
    id.dT = T(0);
    id.dt = in[k++];
    b = std::make_unique<B>(bd, id);
#define P(x) b->x = in[k++];
    BEH_PARAMS
#undef P
    n = static_cast<int>(b->zeros.size());
  }
};

// true when the behaviour has at least one flow with a threshold (an elastic-loading branch exists)
template <typename B>
constexpr bool has_threshold() {
  return requires(B b) { b.bpl; } || requires(B b) { b.bpl0; } || requires(B b) { b.bpl1; } || requires(B b) { b.bpl2; };
}
// no flow is active (every flag false)
template <typename B>
bool elastic_branch(const B& b) {
  bool r = has_threshold<B>();
  if constexpr (requires { b.bpl; }) r = r && !b.bpl;
  if constexpr (requires { b.bpl0; }) r = r && !b.bpl0;
  if constexpr (requires { b.bpl1; }) r = r && !b.bpl1;
  if constexpr (requires { b.bpl2; }) r = r && !b.bpl2;
  return r;
}
template <typename B>
bool plastic_branch(const B& b) {
  // one flag per inelastic flow with a threshold (bpl, or bpl0, bpl1.. when the brick has several flows)
  bool r = true;
  if constexpr (requires { b.bpl; }) r = r && b.bpl;
  if constexpr (requires { b.bpl0; }) r = r && b.bpl0;
  if constexpr (requires { b.bpl1; }) r = r && b.bpl1;
  if constexpr (requires { b.bpl2; }) r = r && b.bpl2;
  return r;
}

template <Hyp h, typename T>
std::vector<T> fdf(const std::vector<T>& in, const std::vector<T>& z, bool* bpl = nullptr, std::vector<T>* sig = nullptr, bool* bel = nullptr) {
  Beh<h, T> w(in);
  if (!w.b->initialize()) throw std::runtime_error("initialize failed");
  for (int i = 0; i < w.n; ++i) w.b->zeros(i) = z[i];
  w.b->computeThermodynamicForces();
  if (bpl != nullptr) *bpl = plastic_branch(*(w.b));
  if (bel != nullptr) *bel = elastic_branch(*(w.b));
  if (sig != nullptr) {
    sig->clear();
    for (int i = 0; i < Beh<h, T>::S; ++i) sig->push_back(w.b->sig[i]);
  }
  if (!w.b->computeFdF(false)) throw std::runtime_error("computeFdF failed");
  std::vector<T> out;
  for (int i = 0; i < w.n; ++i) out.push_back(w.b->fzeros(i));
  for (int i = 0; i < w.n; ++i)
    for (int j = 0; j < w.n; ++j) out.push_back(w.b->jacobian(i, j));
  return out;
}

// Lode angle (degrees) of a stress in TFEL storage, convention of Abbo and Sloan: lode = asin(-3 sqrt(3) J3 / (2 J2^(3/2))) / 3
inline double lode_deg(const std::vector<double>& sg) {
  const double c = std::sqrt(2.);
  double t[6] = {0, 0, 0, 0, 0, 0};
  for (size_t i = 0; i < sg.size() && i < 6; ++i) t[i] = sg[i];
  const double tr = (t[0] + t[1] + t[2]) / 3;
  const double s[3][3] = {{t[0] - tr, t[3] / c, t[4] / c}, {t[3] / c, t[1] - tr, t[5] / c}, {t[4] / c, t[5] / c, t[2] - tr}};
  double J2 = 0;
  for (int i = 0; i != 3; ++i)
    for (int j = 0; j != 3; ++j) J2 += s[i][j] * s[i][j] / 2;
  const double J3 = s[0][0] * (s[1][1] * s[2][2] - s[1][2] * s[2][1]) - s[0][1] * (s[1][0] * s[2][2] - s[1][2] * s[2][0]) +
                    s[0][2] * (s[1][0] * s[2][1] - s[1][1] * s[2][0]);
  if (!(J2 > 0)) return 0;
  const double arg = std::min(std::max(-3 * std::sqrt(3.) * J3 / (2 * J2 * std::sqrt(J2)), -1.), 1.);
  return std::asin(arg) / 3 * 180 / 3.14159265358979323846;
}

#ifndef BEH_TENSOR_SCALE
#define BEH_TENSOR_SCALE 1e-4
#endif

// random rotation matrix (Gram-Schmidt), columns = principal directions
inline void random_rotation(gsym::Rng& rng, double q[3][3]) {
  for (;;) {
    double a[3], b[3];
    for (int i = 0; i < 3; ++i) a[i] = rng.range(-1, 1), b[i] = rng.range(-1, 1);
    const double na = std::sqrt(a[0] * a[0] + a[1] * a[1] + a[2] * a[2]);
    if (na < 0.2) continue;
    for (int i = 0; i < 3; ++i) a[i] /= na;
    const double ab = a[0] * b[0] + a[1] * b[1] + a[2] * b[2];
    for (int i = 0; i < 3; ++i) b[i] -= ab * a[i];
    const double nb = std::sqrt(b[0] * b[0] + b[1] * b[1] + b[2] * b[2]);
    if (nb < 0.2) continue;
    for (int i = 0; i < 3; ++i) b[i] /= nb;
    const double cc[3] = {a[1] * b[2] - a[2] * b[1], a[2] * b[0] - a[0] * b[2], a[0] * b[1] - a[1] * b[0]};
    for (int i = 0; i < 3; ++i) q[i][0] = a[i], q[i][1] = b[i], q[i][2] = cc[i];
    return;
  }
}
// elastic strain (isotropic Hooke law, TFEL storage, 6 components) of the stress Q diag(pr) Q^T
inline void strain_of_principal_stress(const double pr[3], const double q[3][3], double young, double nu, double e[6]) {
  double sg[3][3];
  for (int i = 0; i < 3; ++i)
    for (int j = 0; j < 3; ++j) {
      sg[i][j] = 0;
      for (int k = 0; k < 3; ++k) sg[i][j] += q[i][k] * pr[k] * q[j][k];
    }
  const double trs = sg[0][0] + sg[1][1] + sg[2][2], c = std::sqrt(2.);
  e[0] = ((1 + nu) * sg[0][0] - nu * trs) / young;
  e[1] = ((1 + nu) * sg[1][1] - nu * trs) / young;
  e[2] = ((1 + nu) * sg[2][2] - nu * trs) / young;
  e[3] = (1 + nu) * sg[0][1] / young * c;
  e[4] = (1 + nu) * sg[0][2] / young * c;
  e[5] = (1 + nu) * sg[1][2] / young * c;
}

// analytical jacobian of the double code vs centred differences of its fzeros at (in, z); d = fdf<h,double>(in, z).
// Returns the worst relative error (rounding of the difference quotient allowed for) and its entry.
template <Hyp h>
double nj_worst(const std::vector<double>& in, const std::vector<double>& z, const std::vector<double>& d, int n, int& wi, int& wj,
                double& wa, double& wn) {
  double worst = 0;
  for (int j = 0; j < n; ++j) {
    const double hst = 1e-4 * std::max(1e-6, std::fabs(z[j]));
    auto zp = z, zm = z;
    zp[j] += hst;
    zm[j] -= hst;
    auto fp = fdf<h, double>(in, zp), fm = fdf<h, double>(in, zm);
    for (int i = 0; i < n; ++i) {
      const double num = (fp[i] - fm[i]) / (2 * hst), ana = d[n + n * i + j];
      // rounding of the difference quotient: a few ulps of the residual divided by the step
      const double rnd = 16 * 2.3e-16 * std::max({std::fabs(fp[i]), std::fabs(fm[i]), std::fabs(z[i])}) / (2 * hst);
      const double err = std::max(0., std::fabs(num - ana) - rnd) / std::max({std::fabs(num), std::fabs(ana), 1e-3});
      if (err > worst) worst = err, wi = i, wj = j, wa = ana, wn = num;
    }
  }
  return worst;
}

template <Hyp h>
void doit(Trace& tr, const std::string& tag, uint64_t seed, int ncases) {
  constexpr int S = ModellingHypothesisToStensorSize<h>::value;
  const std::string bt = BEH_TAG;
  const auto pn = param_names(), tn = tensor_names(), sn = scalar_names();
  const auto pd = param_defaults();
  const int n = S * (1 + static_cast<int>(tn.size())) + static_cast<int>(sn.size());
  Groups gin{{"eel", S}, {"deto", S}};
  for (auto& t : tn) gin.push_back({t, S});
  for (auto& s : sn) gin.push_back({s, 0});
  gin.push_back({"dt", 0});
  for (auto& p : pn) gin.push_back({p, 0});
  Groups gall = gin;
  gall.push_back({"z", n});
  auto nm = names(gall);
  Rng rng(seed + 300 + S);
  double young = 1e5, nu = 0.3, R0 = 100, theta_d = 1;
  std::vector<double> tie_strain;  // BEH_EIGEN_TIES: elastic strain that the iterate eel + theta deel of the current state must have
  int tie_kind = 0;
  for (size_t i = 0; i < pn.size(); ++i) {
    if (pn[i] == "theta") theta_d = pd[i];
    if (pn[i] == "young") young = pd[i];
    if (pn[i] == "nu") nu = pd[i];
    if (pn[i] == "ihr_R0_") R0 = pd[i];
  }
  // plastic loading states: elastic strain such that the von Mises stress is about 1.1..2 x R0 (+ hardening)
  auto rand_in = [&](bool plastic) {
    std::vector<double> in;
    std::vector<double> dir;
    for (int i = 0; i < S; ++i) dir.push_back(rng.range(-1, 1));
    const double sc = (plastic ? rng.range(1.5, 3.) : rng.range(0.05, 0.3)) * R0 / young;
    for (int i = 0; i < S; ++i) in.push_back(dir[i] * sc);
    double de = std::pow(10., rng.range(-5, -3.5));
#ifdef BEH_MC_LODET
    if constexpr (S == 6) {
      // stress = Q diag(pm + s_k) Q^T with a prescribed Lode angle th; half of the plastic states in the rounded-corner zones
      const double pi = 3.14159265358979323846, lodeT = (BEH_MC_LODET) * 180 / pi;
      const bool corner = plastic && rng.below(2) == 0;
      double th = corner ? (rng.below(2) ? 1. : -1.) * rng.range(lodeT + 0.4, 29.5) : rng.range(-(lodeT - 0.4), lodeT - 0.4);
      th *= pi / 180;
      const double sJ2 = plastic ? rng.range(60, 220) : rng.range(2, 10), pm = rng.range(-60, -10);
      // deviatoric principal values with asin(-3 sqrt 3 J3 / (2 J2^1.5))/3 = th
      const double pr[3] = {pm + 2 / std::sqrt(3.) * sJ2 * std::sin(th + 2 * pi / 3), pm + 2 / std::sqrt(3.) * sJ2 * std::sin(th),
                            pm + 2 / std::sqrt(3.) * sJ2 * std::sin(th - 2 * pi / 3)};
      // random rotation (Gram-Schmidt)
      double q[3][3];
      for (;;) {
        double a[3], b[3];
        for (int i = 0; i < 3; ++i) a[i] = rng.range(-1, 1), b[i] = rng.range(-1, 1);
        const double na = std::sqrt(a[0] * a[0] + a[1] * a[1] + a[2] * a[2]);
        if (na < 0.2) continue;
        for (int i = 0; i < 3; ++i) a[i] /= na;
        const double ab = a[0] * b[0] + a[1] * b[1] + a[2] * b[2];
        for (int i = 0; i < 3; ++i) b[i] -= ab * a[i];
        const double nb = std::sqrt(b[0] * b[0] + b[1] * b[1] + b[2] * b[2]);
        if (nb < 0.2) continue;
        for (int i = 0; i < 3; ++i) b[i] /= nb;
        const double cc[3] = {a[1] * b[2] - a[2] * b[1], a[2] * b[0] - a[0] * b[2], a[0] * b[1] - a[1] * b[0]};
        for (int i = 0; i < 3; ++i) q[i][0] = a[i], q[i][1] = b[i], q[i][2] = cc[i];
        break;
      }
      double sg[3][3];
      for (int i = 0; i < 3; ++i)
        for (int j = 0; j < 3; ++j) {
          sg[i][j] = 0;
          for (int k = 0; k < 3; ++k) sg[i][j] += q[i][k] * pr[k] * q[j][k];
        }
      // elastic strain of that stress (isotropic Hooke law), TFEL storage
      const double trs = sg[0][0] + sg[1][1] + sg[2][2];
      const double e[6] = {((1 + nu) * sg[0][0] - nu * trs) / young, ((1 + nu) * sg[1][1] - nu * trs) / young,
                           ((1 + nu) * sg[2][2] - nu * trs) / young, (1 + nu) * sg[0][1] / young * std::sqrt(2.),
                           (1 + nu) * sg[0][2] / young * std::sqrt(2.), (1 + nu) * sg[1][2] / young * std::sqrt(2.)};
      for (int i = 0; i < S; ++i) in[i] = e[i];
      de = std::pow(10., rng.range(-6.5, -5.5));  // small increments: the Lode angle of the iterate stays that of the state
    }
#endif
#ifdef BEH_EIGEN_TIES
    // stresses with two equal eigenvalues at the iterate (exactly in the principal frame; up to rounding after a rotation):
    // kind 0: generic state; 1..3: principal stresses (a,a,b), (a,b,b), (a,b,a); frame: the axes (S = 3, or one case out of two) or random
    tie_strain.clear();
    tie_kind = plastic ? static_cast<int>(rng.below(4)) : 0;
    if (tie_kind != 0) {
      const double a = rng.range(-100, 100), dlt = (rng.below(2) ? 1. : -1.) * rng.range(1.5, 3.) * R0;
      const double pr[3] = {a, tie_kind == 1 ? a : a + dlt, tie_kind == 2 ? a + dlt : (tie_kind == 3 ? a : a + dlt)};
      double q[3][3] = {{1, 0, 0}, {0, 1, 0}, {0, 0, 1}};
      if (S == 6 && rng.below(2) == 0) random_rotation(rng, q);
      double e[6];
      strain_of_principal_stress(pr, q, young, nu, e);
      for (int i = 0; i < S; ++i) tie_strain.push_back(e[i]);
      for (int i = 0; i < S; ++i) in[i] = e[i];
    }
#endif
    for (int i = 0; i < S; ++i) in.push_back((0.8 * dir[i] + 0.2 * rng.range(-1, 1)) * de);
    for (size_t t = 0; t < tn.size(); ++t)
      for (int i = 0; i < S; ++i) in.push_back(rng.range(-1, 1) * (BEH_TENSOR_SCALE));
    for (size_t s = 0; s < sn.size(); ++s) in.push_back(rng.range(0, 1e-3));
    in.push_back(std::pow(10., rng.range(-1, 1)));
    // parameters: declared values, except theta (declared 1 in the .mfront files): two states out of three use a theta in [0.5, 1]
    // so that a factor theta missing or doubled in a jacobian block is seen by the numerical differentiation
    const bool vary_theta = rng.below(3) != 0;
    for (size_t i = 0; i < pn.size(); ++i) in.push_back(pn[i] == "theta" && vary_theta ? rng.range(0.5, 1.) : pd[i]);
    return in;
  };
  auto rand_z = [&](const std::vector<double>& in) {
    std::vector<double> z;
    for (int i = 0; i < S; ++i) z.push_back(in[S + i] * rng.range(0.1, 0.5));
    for (size_t t = 0; t < tn.size(); ++t)
      for (int i = 0; i < S; ++i) z.push_back(rng.range(-1, 1) * (BEH_TENSOR_SCALE) / 10);
    for (size_t s = 0; s < sn.size(); ++s) z.push_back(std::pow(10., rng.range(-6, -4)));
    return z;
  };
  // BEH_EIGEN_TIES: the state is shifted so that eel + theta deel is the strain of the stress with the eigenvalue tie
  auto apply_tie = [&](std::vector<double>& in, const std::vector<double>& z) {
    if (tie_strain.empty()) return;
    double th = theta_d;
    for (size_t i = 0; i < pn.size(); ++i)
      if (pn[i] == "theta") th = in[in.size() - pn.size() + i];
    for (int i = 0; i < S; ++i) in[i] = tie_strain[i] - th * z[i];
  };
  auto mkenv = [&](const std::vector<double>& in, const std::vector<double>& z) {
    Env env;
    for (size_t i = 0; i < in.size(); ++i) env[nm[i]] = in[i];
    for (size_t i = 0; i < z.size(); ++i) env[nm[in.size() + i]] = z[i];
    return env;
  };
  std::printf("LAYOUT %s %s n=%d S=%d params:", bt.c_str(), tag.c_str(), n, S);
  for (auto& x : nm) std::printf(" %s", x.c_str());
  std::printf("\n");
#ifndef BEH_DOUBLE_ONLY
  auto pin = mkvars(gin), pz = mkvars(Groups{{"z", n}}), pall = mkvars(gall);
  auto f_fdf = [&] { return fdf<h, Sym>(pin, pz); };
  // reference state: the first seeded state on the plastic-loading branch of the double instantiation
  Leaf L0;
  bool found = false;
  for (int t = 0; t < 200 && !found; ++t) {
    auto in0 = rand_in(true);
    auto z0 = rand_z(in0);
    apply_tie(in0, z0);
    bool bpl0 = false;
    fdf<h, double>(in0, z0, &bpl0);
    if (!bpl0) continue;
    L0 = leaf_at(f_fdf, mkenv(in0, z0));
    if (!L0.error.empty()) throw std::runtime_error("reference leaf failed: " + L0.error);
    found = true;
  }
  if (!found) throw std::runtime_error("no plastic-loading reference state");
  std::vector<Sym> fz(L0.out.begin(), L0.out.begin() + n), jac(L0.out.begin() + n, L0.out.end());
  def_cond(tr, bt + "_cond_" + tag, pall, L0);
  tr.def(bt + "_fz_" + tag, pall, fz);
  tr.def(bt + "_jac_" + tag, pall, jac);
  // elastic-loading leaf (every flow inactive), when the behaviour has a threshold: <tag>_econd_<h>, <tag>_efz_<h>, <tag>_ejac_<h>
  Leaf Le0;
  bool efound = false;
  if constexpr (has_threshold<BehT<h, double>>()) {
    for (int t = 0; t < 200 && !efound; ++t) {
      auto in0 = rand_in(false);
      auto z0 = rand_z(in0);
      bool bpl0 = false, bel0 = false;
      fdf<h, double>(in0, z0, &bpl0, nullptr, &bel0);
      if (!bel0) continue;
      Le0 = leaf_at(f_fdf, mkenv(in0, z0));
      if (!Le0.error.empty()) throw std::runtime_error("elastic reference leaf failed: " + Le0.error);
      efound = true;
    }
    if (!efound) throw std::runtime_error("no elastic-loading reference state");
    std::vector<Sym> efz(Le0.out.begin(), Le0.out.begin() + n), ejac(Le0.out.begin() + n, Le0.out.end());
    def_cond(tr, bt + "_econd_" + tag, pall, Le0);
    tr.def(bt + "_efz_" + tag, pall, efz);
    tr.def(bt + "_ejac_" + tag, pall, ejac);
  }
#endif
  Agree ag;
  long onref = 0, njbad = 0, nj = 0, ncorner = 0, nel = 0, nties = 0, nonfinite = 0;
  for (int c = 0; c < ncases; ++c) {
    auto in = rand_in(c % 5 != 4);
    auto z = rand_z(in);
    apply_tie(in, z);
    bool bpl = true, bel = false;
    std::vector<double> sg;
    auto d = fdf<h, double>(in, z, &bpl, &sg, &bel);
#ifndef BEH_DOUBLE_ONLY
    Env env = mkenv(in, z);
    Leaf L = leaf_at(f_fdf, env);
    if (!L.error.empty()) continue;
    const bool ref = same_path(L, L0);
    const bool eref = efound && same_path(L, Le0);
    std::vector<long double> sc(d.size(), 1e-30L);
    long double e = 0;
    for (int i = 0; i < 2 * S; ++i) e = std::max<long double>(e, std::fabs(in[i]));
    for (int i = 0; i < n; ++i) sc[i] = e;
    for (size_t i = n; i < d.size(); ++i) sc[i] = 1e-6L;
    // a state whose double evaluation is not finite (e.g. pow of a negative flow argument at an iterate below the threshold) is
    // counted apart: there is nothing to compare
    bool finite = true;
    for (double x : d) finite = finite && std::isfinite(x);
    if (!finite) {
      ++nonfinite;
      continue;
    }
    ag.cmpv(eval_all(L.out, env), d, sc, 1e-9L);
#else
    const bool ref = bpl && (c % 5 != 4);
    const bool eref = bel;
#endif
    // elastic-loading path: same search (the jacobian is the identity there)
    if (eref && nel < 40) {
      ++nel;
      int wi = 0, wj = 0;
      double wa = 0, wn = 0;
      if (nj_worst<h>(in, z, d, n, wi, wj, wa, wn) > 1e-3) {
        ++njbad;
        std::printf("NJ-FAIL %s %s i %d j %d analytical %.10g numerical %.10g lode %.4g", bt.c_str(), tag.c_str(), wi, wj, wa, wn, 0.);
        print_vec("in", in);
        print_vec("z", z);
        std::printf("\n");
      }
    }
    if (ref) ++onref;
    // failing-input search: analytical jacobian vs centred differences of fzeros (double code), on the reference path only
    if (ref && nj < 200) {
      ++nj;
      const double lode = lode_deg(sg);
#ifdef BEH_MC_LODET
      const bool corner = std::fabs(lode) > (BEH_MC_LODET) * 180 / 3.14159265358979323846;
#else
      const bool corner = false;
#endif
      if (corner) ++ncorner;
      if (tie_kind != 0) ++nties;
      int wi = 0, wj = 0;
      double wa = 0, wn = 0;
      const double worst = nj_worst<h>(in, z, d, n, wi, wj, wa, wn);
      if (worst > 1e-3) {
        ++njbad;
        std::printf("NJ-FAIL %s %s i %d j %d analytical %.10g numerical %.10g lode %.4g", bt.c_str(), tag.c_str(), wi, wj, wa, wn, lode);
        print_vec("in", in);
        print_vec("z", z);
        std::printf("\n");
      }
    }
  }
#ifndef BEH_DOUBLE_ONLY
  std::printf("AGREE %s-fdf %s n=%ld bad=%ld worst=%.3Lg onref=%ld nonfinite=%ld\n", bt.c_str(), tag.c_str(), ag.n, ag.bad, ag.worst, onref, nonfinite);
#endif
  std::printf("NJ %s %s n=%ld bad=%ld corner=%ld elastic=%ld ties=%ld\n", bt.c_str(), tag.c_str(), nj, njbad, ncorner, nel, nties);
}

int main(int argc, char** argv) {
  if (argc < 6 || std::strcmp(argv[1], "gen")) {
    std::fprintf(stderr, "usage: trace_brick gen <out.v> <seed> <ncases> <hyps>\n");
    return 2;
  }
  const uint64_t seed = std::strtoull(argv[3], nullptr, 10);
  const int n = std::atoi(argv[4]);
  const std::string hy = std::string(",") + argv[5] + ",";
  Trace tr(std::string("Gen") + BEH_TAG);
  try {
#ifdef BRICK_HAG
    if (hy.find(",hag,") != std::string::npos) doit<ModellingHypothesis::AXISYMMETRICALGENERALISEDPLANESTRAIN>(tr, "hag", seed, n);
#endif
#ifdef BRICK_HPE
    if (hy.find(",hpe,") != std::string::npos) doit<ModellingHypothesis::PLANESTRAIN>(tr, "hpe", seed, n);
#endif
#ifdef BRICK_H3D
    if (hy.find(",h3d,") != std::string::npos) doit<ModellingHypothesis::TRIDIMENSIONAL>(tr, "h3d", seed, n);
#endif
  } catch (std::exception& e) {
    std::fprintf(stderr, "trace_brick: %s\n", e.what());
    return 1;
  }
  tr.write(argv[2]);
  return 0;
}

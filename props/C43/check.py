"""C43 -- brick-generated implicit Jacobians are exact.
Engine G+S: brick configurations (props/C43/mfront) are turned into C++ by the mfront of /repo's working tree; the generated
class is instantiated with symv::Sym, computeThermodynamicForces(); computeFdF(false) is traced at symbolic unknowns on the
plastic-loading path, and Coq proves jacobian(i,j) = d fzeros(i)/d zeros(j) entry by entry (auto_derive; field).
The double instantiation is compared with the trace (agreement) and its analytical jacobian with centred differences of
its fzeros (failing-input search; the only check for the configurations / rows that are not proved)."""
import os, sys
C41 = os.path.join(os.path.dirname(os.path.abspath(__file__)), "..", "C41")
sys.path.insert(0, os.path.abspath(C41))
from vlib import guarded_main
import gbeh

HERE = os.path.dirname(os.path.abspath(__file__))
# name -> (tag, tensor state variables other than eel, scalar state variables, proved in Coq?)
BRICKS = {
    "C43NortonMisesLinear": ("bnml", [], ["p"], True),
    "C43PlasticMisesLinearPrager": ("bplp", ["khr_a_0"], ["p"], False),
}
SKIP_PARAMS = {"numerical_jacobian_epsilon", "minimal_time_step_scaling_factor", "maximal_time_step_scaling_factor", "iterMax"}


def main(c):
    from concurrent.futures import ThreadPoolExecutor
    names = list(BRICKS) if not c.quick() else list(BRICKS)
    gdir = os.path.join(c.work, "gen")
    gbeh.mfront_generate(c, [os.path.join(HERE, "mfront", n + ".mfront") for n in names], gdir)
    for n in names:
        if gbeh.mutate_generated(gdir, n):
            c.notes.append("TESTING AID ACTIVE: generated header of %s mutated via VERIF_GEN_MUTATION" % n)
    os.makedirs(os.path.join(c.work, "coq"), exist_ok=True)
    hyps = c.pick("hag", "hag,hpe,h3d")

    def one(n):
        tag, tens, scal, _ = BRICKS[n]
        params = [p for p in gbeh.generated_parameters(gdir, n) if p not in SKIP_PARAMS]
        cfg = os.path.join(gdir, "cfg_%s.hxx" % n)
        with open(cfg, "w") as f:
            f.write('#define BEH %s\n#define BEH_HEADER "TFEL/Material/%s.hxx"\n#define BEH_TAG "%s"\n' % (n, n, tag))
            f.write("#define BEH_PARAMS %s\n" % " ".join("P(%s)" % p for p in params))
            f.write("#define BEH_STENSORS %s\n" % " ".join("T(%s)" % p for p in tens))
            f.write("#define BEH_SCALARS %s\n" % " ".join("S(%s)" % p for p in scal))
        exe = c.cxx("trace_" + tag, [os.path.join(HERE, "trace_brick.cxx"), os.path.join(gdir, "src", n + ".cxx")],
                    gbeh.SUPPORT + ["src/Math/MathException.cxx"],
                    flags=gbeh.include_flags(gdir) + ["-I" + gdir, '-DBRICK_CFG="cfg_%s.hxx"' % n])
        out_v = os.path.join(c.work, "coq", "Gen%s.v" % tag)
        rc, out, err = c.run([exe, "gen", out_v, str(c.seed % 1000003), str(c.pick(300, 3000)), hyps], timeout=900)
        return n, rc, out, err, out_v

    gen = {}
    nag = nnj = 0
    with ThreadPoolExecutor(max_workers=len(names)) as ex:
        results = list(ex.map(one, names))
    for n, rc, out, err, out_v in results:
        tag = BRICKS[n][0]
        if rc != 0:
            c.report("trace:" + n, "tracer of brick program %s failed (generated class no longer instantiates / runs with Sym): %s" % (n, err[-600:]),
                     {"stderr": err[-3000:], "program": n}, False)
            continue
        gen[n] = out_v
        lines = out.splitlines()
        nag += gbeh.agreement(c, lines)
        for l in lines:
            t = l.split()
            if t[0] == "NJ":
                kv = dict(x.split("=") for x in t[3:])
                nnj += int(kv["n"])
                c.count(int(kv["n"]), ("nj", n, t[2], kv["n"]), True)
                if int(kv["n"]) == 0:
                    c.report("nj-none:%s:%s" % (n, t[2]), "no state of %s reached the reference (plastic loading) path" % n, {"line": l}, False)
            elif t[0] == "NJ-FAIL":
                d = gbeh.parse_kv(" ".join(t[2:]))
                key = "nj:%s:%s:%d,%d" % (n, t[2], int(d["i"][0]), int(d["j"][0]))
                c.report(key, "brick program %s (%s): jacobian(%d,%d) = %.10g but centred differences of fzeros give %.10g at state in=%s z=%s" % (
                    n, t[2], int(d["i"][0]), int(d["j"][0]), d["analytical"][0], d["numerical"][0], d["in"], d["z"]),
                    {"program": n, "hypothesis": t[2], "i": d["i"][0], "j": d["j"][0], "analytical": d["analytical"][0],
                     "numerical": d["numerical"][0], "inputs": d["in"], "zeros": d["z"], "how": "props/C43/trace_brick.cxx (double instantiation)"}, True)
            elif t[0] == "LAYOUT":
                c.sample({"program": n, "hypothesis": t[2], "unknowns_and_inputs": " ".join(t[3:])[:400]})
    c.coverage["programs"] = len(gen)
    c.coverage["disagreements_checked"] = nag + nnj
    c.coverage["traces_validated_against_impl"] = nag
    c.coverage["rule"] = ("brick configurations %s x hypotheses %s; seeded plastic-loading and elastic states with the declared material coefficients; "
                          "agreement Sym trace vs double computeFdF on each state's own path; analytical vs centred-difference jacobian on the states of "
                          "the reference path; Coq: rows of the strain-partition residual of C43NortonMisesLinear (3-component tensors)" % (names, hyps))
    c.trusted("mfront built from /repo's working tree and g++ template instantiation of the generated classes with symv::Sym",
              "engine S tracer (cxx/sym/sym.hxx incl. numeric_limits<Sym>::quiet_NaN for the unused bissection members), props/C41/gsym.hxx, props/C43/trace_brick.cxx",
              "path condition bnml_cond_hag (plastic loading, regularisations max(seq, ..), max(seq-R, eps K) inactive) printed in the generated file")
    if "C43NortonMisesLinear" not in gen:
        return
    a = os.path.abspath(os.path.join(C41, "coq"))
    common = [os.path.join(a, "GBehLib.v"), os.path.join(a, "BehSpec.v"), gen["C43NortonMisesLinear"]]
    r = gbeh.coq_parallel(c, common, ["C43Proofs_bnml.v"], ["Properties_C43.v"], timeout=1200)
    if not r.ok:
        if c.violations and any(v[3] for v in c.violations):
            c.notes.append("proof obligations failed: %s; concrete failing inputs reported above" % [f[2] or f[0] for f in r.failed])
        else:
            c.coq_failures(r, None)


guarded_main("C43", main, level="translation_validation")

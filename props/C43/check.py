"""C43 -- brick-generated implicit Jacobians are exact.
Engine G+S: brick configurations (props/C43/mfront) are turned into C++ by the mfront of /repo's working tree; the generated
class is instantiated with symv::Sym, computeThermodynamicForces(); computeFdF(false) is traced at symbolic unknowns on the
plastic-loading path, and Coq proves jacobian(i,j) = d fzeros(i)/d zeros(j) entry by entry (auto_derive; field), for every
entry of every configuration listed in BRICKS with a proof file.
The double instantiation is compared with the trace (agreement) and its analytical jacobian with centred differences of
its fzeros (failing-input search; the only check for the Mohr-Coulomb configuration, whose states cover the rounded corners)."""
import os, re, sys, time
C41 = os.path.join(os.path.dirname(os.path.abspath(__file__)), "..", "C41")
sys.path.insert(0, os.path.abspath(C41))
from vlib import guarded_main
import gbeh

HERE = os.path.dirname(os.path.abspath(__file__))
# name -> tag, tensor state variables other than eel, scalar state variables, hypotheses (quick, thorough),
#         Coq proof files (quick tier: 3-component tensors), Coq proof files added by the thorough tier (Tridimensional), options
BRICKS = {
    # pre: definitions compiled with the generated module; proofs: files checked concurrently (phase 1); post: files compiled in
    # order after them (phase 2: glue lemmas, Properties).  *3d: Tridimensional hypothesis, thorough tier only.
    "C43NortonMisesLinear": dict(tag="bnml", tens=[], scal=["p"], proofs=["C43Proofs_bnml.v"], post=["Properties_C43_bnml.v"],
                                 proofs3d=["C43Proofs_bnml_3d.v"], post3d=["Properties_C43_bnml_3d.v"]),
    "C43PlasticMisesLinearPrager": dict(tag="bplp", tens=["khr_a_0"], scal=["p"], pre=["C43Defs_bplp.v"],
                                        proofs=["C43Proofs_bplp_a.v", "C43Proofs_bplp_b.v"], post=["C43Proofs_bplp.v", "Properties_C43_bplp.v"],
                                        pre3d=["C43Defs_bplp_3d.v"],
                                        proofs3d=["C43Proofs_bplp_3d_a.v", "C43Proofs_bplp_3d_b.v", "C43Proofs_bplp_3d_c.v"],
                                        post3d=["C43Proofs_bplp_3d.v", "Properties_C43_bplp_3d.v"]),
    "C43NortonMisesVoce": dict(tag="bnmv", tens=[], scal=["p"], proofs=["C43Proofs_bnmv.v"], post=["Properties_C43_bnmv.v"],
                               proofs3d=["C43Proofs_bnmv_3d.v"], post3d=["Properties_C43_bnmv_3d.v"]),
    "C43PlasticMisesSwift": dict(tag="bpms", tens=[], scal=["p"], proofs=["C43Proofs_bpms.v"], post=["Properties_C43_bpms.v"],
                                 proofs3d=["C43Proofs_bpms_3d.v"], post3d=["Properties_C43_bpms_3d.v"]),
    "C43NortonMisesAF": dict(tag="bnaf", tens=["khr_a_0"], scal=["p"], pre=["C43Defs_bnaf.v"],
                             proofs=["C43Proofs_bnaf_a.v", "C43Proofs_bnaf_b.v"], post=["C43Proofs_bnaf.v", "Properties_C43_bnaf.v"],
                             pre3d=["C43Defs_bnaf_3d.v"],
                             proofs3d=["C43Proofs_bnaf_3d_a.v", "C43Proofs_bnaf_3d_b.v", "C43Proofs_bnaf_3d_c.v"],
                             post3d=["C43Proofs_bnaf_3d.v", "Properties_C43_bnaf_3d.v"]),
    "C43NortonHill": dict(tag="bnhi", tens=[], scal=["p"], proofs=["C43Proofs_bnhi.v"], post=["Properties_C43_bnhi.v"],
                          proofs3d=["C43Proofs_bnhi_3d.v"], post3d=["Properties_C43_bnhi_3d.v"]),
    "C43Elasticity": dict(tag="bela", tens=[], scal=[], proofs=["C43Proofs_bela.v"], post=["Properties_C43_bela.v"],
                          proofs3d=["C43Proofs_bela_3d.v"], post3d=["Properties_C43_bela_3d.v"]),
    # ---- added in the fourth round (Coq proofs in the thorough tier; the quick tier instantiates, compares Sym vs double and differentiates numerically)
    "C43NortonMisesPower": dict(tag="bnpw", tens=[], scal=["p"], proofs=[]),
    "C43PlasticMisesChaboche2012": dict(tag="bpch", tens=["khr_a_0"], scal=["p"], proofs=[], extra='#define BEH_TENSOR_SCALE 2e-2\n'),
    "C43PlasticMisesBurletCailletaud": dict(tag="bpbc", tens=["khr_a_0"], scal=["p"], proofs=[], extra='#define BEH_TENSOR_SCALE 2e-3\n'),
    "C43HyperbolicSineMisesLinear": dict(tag="bhsl", tens=[], scal=["p"], proofs=[]),
    "C43HyperbolicSineMises": dict(tag="bhsm", tens=[], scal=["p"], proofs=[]),
    "C43UserDefinedMises": dict(tag="budm", tens=[], scal=["p"], proofs=[]),
    "C43TwoFlows": dict(tag="btwo", tens=["khr_a0_0", "khr_a0_1"], scal=["p0", "p1"], proofs=[]),
    "C43PlasticDrucker": dict(tag="bpdr", tens=[], scal=["p"], proofs=[]),
    "C43PlasticCazacu2004Iso": dict(tag="bpci", tens=[], scal=["p"], proofs=[]),
    "C43PlasticCazacu2001": dict(tag="bpc1", tens=[], scal=["p"], proofs=[], hyps=("h3d", "h3d")),
    "C43PlasticCazacu2004Ortho": dict(tag="bpco", tens=[], scal=["p"], proofs=[], hyps=("h3d", "h3d")),
    # eigen-based criteria (eigen_solver: Jacobi): execution only, a part of the states have two equal principal stresses at the iterate
    "C43PlasticHosford": dict(tag="bhos", tens=[], scal=["p"], proofs=[], hyps=("hag,h3d", "hag,hpe,h3d"), double_only=True,
                              extra='#define BEH_EIGEN_TIES\n', min_ties=(30, 60)),
    "C43PlasticBarlat": dict(tag="bbar", tens=[], scal=["p"], proofs=[], hyps=("hag,h3d", "hag,hpe,h3d"), double_only=True,
                             extra='#define BEH_EIGEN_TIES\n', min_ties=(30, 60)),
    # execution only (asin/cos based criterion with a corner rounding: not traced)
    "C43MohrCoulomb": dict(tag="bmc", tens=[], scal=["p"], proofs=[], hyps=("h3d", "h3d"), double_only=True,
                           extra='#define BEH_MC_LODET 0.436332312998582\n', min_corner=(25, 60)),
}
SKIP_PARAMS = {"numerical_jacobian_epsilon", "minimal_time_step_scaling_factor", "maximal_time_step_scaling_factor", "iterMax"}
HYP_FLAG = {"hag": "-DBRICK_HAG", "hpe": "-DBRICK_HPE", "h3d": "-DBRICK_H3D"}


def main(c):
    from concurrent.futures import ThreadPoolExecutor
    names = list(BRICKS)
    only = os.environ.get("VERIF_C43_ONLY", "")
    if only:  # testing aid: restrict the run to some configurations (tags); never set in normal runs
        names = [n for n in names if BRICKS[n]["tag"] in only.split(",")]
        c.notes.append("TESTING AID ACTIVE: VERIF_C43_ONLY=%s" % only)
    gdir = os.path.join(c.work, "gen")
    gbeh.mfront_generate(c, [os.path.join(HERE, "mfront", n + ".mfront") for n in names], gdir)
    c.log("mfront done")
    for n in names:
        if gbeh.mutate_generated(gdir, n):
            c.notes.append("TESTING AID ACTIVE: generated header of %s mutated via VERIF_GEN_MUTATION" % n)
    os.makedirs(os.path.join(c.work, "coq"), exist_ok=True)

    def hyps_of(n):
        q, t = BRICKS[n].get("hyps", ("hag", "hag,hpe,h3d"))
        return c.pick(q, t)

    def one(n):
        b = BRICKS[n]
        tag = b["tag"]
        params = [p for p in gbeh.generated_parameters(gdir, n) if p not in SKIP_PARAMS]
        cfg = os.path.join(gdir, "cfg_%s.hxx" % n)
        with open(cfg, "w") as f:
            f.write('#define BEH %s\n#define BEH_HEADER "TFEL/Material/%s.hxx"\n#define BEH_TAG "%s"\n' % (n, n, tag))
            f.write("#define BEH_PARAMS %s\n" % " ".join("P(%s)" % p for p in params))
            f.write("#define BEH_STENSORS %s\n" % " ".join("T(%s)" % p for p in b["tens"]))
            f.write("#define BEH_SCALARS %s\n" % " ".join("S(%s)" % p for p in b["scal"]))
            if b.get("double_only"):
                f.write("#define BEH_DOUBLE_ONLY\n")
            f.write(b.get("extra", ""))
        hy = hyps_of(n)
        exe = c.cxx("trace_" + tag, [os.path.join(HERE, "trace_brick.cxx"), os.path.join(gdir, "src", n + ".cxx")],
                    gbeh.SUPPORT + ["src/Math/MathException.cxx"],
                    flags=gbeh.include_flags(gdir) + ["-I" + gdir, '-DBRICK_CFG="cfg_%s.hxx"' % n] + [HYP_FLAG[x] for x in hy.split(",")])
        out_v = os.path.join(c.work, "coq", "Gen%s.v" % tag)
        rc, out, err = c.run([exe, "gen", out_v, str(c.seed % 1000003), str(c.pick(300, 3000)), hy], timeout=900)
        return n, rc, out, err, out_v

    gen = {}
    nag = nnj = ncorner = 0
    with ThreadPoolExecutor(max_workers=4) as ex:
        results = list(ex.map(one, names))
    c.log("tracers done")
    for n, rc, out, err, out_v in results:
        b = BRICKS[n]
        if rc != 0:
            c.report("trace:" + n, "tracer of brick program %s failed (generated class no longer instantiates / runs with Sym): %s" % (n, err[-600:]),
                     {"stderr": err[-3000:], "program": n}, False)
            continue
        gen[n] = out_v
        lines = out.splitlines()
        nag += gbeh.agreement(c, lines)
        for l in lines:
            t = l.split()
            if t[0] == "NJ":
                kv = dict(x.split("=") for x in t[3:])
                nnj += int(kv["n"])
                ncorner += int(kv.get("corner", 0))
                c.count(int(kv["n"]), ("nj", n, t[2], kv["n"]), True)
                if int(kv["n"]) == 0:
                    c.report("nj-none:%s:%s" % (n, t[2]), "no state of %s reached the reference (plastic loading) path" % n, {"line": l}, False)
                if "min_corner" in b and int(kv.get("corner", 0)) < c.pick(*b["min_corner"]):
                    c.report("nj-corner:%s:%s" % (n, t[2]), "the sampling of %s does not cover the rounded-corner zones |lode| > lodeT (%s states)" % (
                        n, kv.get("corner")), {"line": l}, False)
            elif t[0] == "NJ-FAIL":
                d = gbeh.parse_kv(" ".join(t[2:]))
                key = "nj:%s:%s:%d,%d" % (n, t[2], int(d["i"][0]), int(d["j"][0]))
                c.report(key, "brick program %s (%s): jacobian(%d,%d) = %.10g but centred differences of fzeros give %.10g at state in=%s z=%s (Lode angle %.4g deg)" % (
                    n, t[2], int(d["i"][0]), int(d["j"][0]), d["analytical"][0], d["numerical"][0], d["in"], d["z"], d.get("lode", [0.0])[0]),
                    {"program": n, "hypothesis": t[2], "i": d["i"][0], "j": d["j"][0], "analytical": d["analytical"][0],
                     "numerical": d["numerical"][0], "inputs": d["in"], "zeros": d["z"], "lode_angle_deg": d.get("lode", [0.0])[0],
                     "how": "props/C43/trace_brick.cxx (double instantiation)"}, True)
            elif t[0] == "LAYOUT":
                c.sample({"program": n, "hypothesis": t[2], "unknowns_and_inputs": " ".join(t[3:])[:400]})
    proved = [n for n in names if BRICKS[n]["proofs"]]
    proved3d = [n for n in names if BRICKS[n].get("proofs3d")] if not c.quick() else []
    c.coverage["programs"] = len(gen)
    c.coverage["disagreements_checked"] = nag + nnj
    c.coverage["traces_validated_against_impl"] = nag
    c.coverage["corner_zone_states"] = ncorner
    c.coverage["rule"] = ("brick configurations %s x hypotheses %s (Mohr-Coulomb: Tridimensional, double only, %d of its states in the rounded-corner zones); "
                          "seeded plastic-loading and elastic states with the declared material coefficients; agreement Sym trace vs double computeFdF on each "
                          "state's own path; analytical vs centred-difference jacobian on the states of the reference path; Coq: every jacobian entry of %s "
                          "(3-component tensors)%s" % (names, c.pick("hag", "hag,hpe,h3d"), ncorner, proved,
                                                      "" if c.quick() else " and of %s (Tridimensional)" % proved3d))
    c.trusted("mfront built from /repo's working tree and g++ template instantiation of the generated classes with symv::Sym",
              "engine S tracer (cxx/sym/sym.hxx incl. numeric_limits<Sym>::quiet_NaN for the unused bissection members), props/C41/gsym.hxx, props/C43/trace_brick.cxx",
              "path conditions <tag>_cond_<h> (plastic loading, regularisations max(seq, ..), max(seq-R, eps K) inactive) printed in the generated files: the traced "
              "definitions are the code's outputs on the states that satisfy them")
    if any(n not in gen for n in proved):
        return
    a = os.path.abspath(os.path.join(C41, "coq"))
    r0 = c.coq([os.path.join(a, "GBehLib.v"), os.path.join(a, "BehSpec.v"), "C43Lib.v"], timeout=600)
    if not r0.ok:
        c.coq_failures(r0, None)
        return
    c.log("coq common done")
    # generated modules and shared definitions first (fast), then the proof files, 4 at a time, then per configuration the
    # glue lemmas and the Properties file (Print Assumptions is slow: also 4 at a time)
    def pre(n):
        return c.coq([gen[n]] + BRICKS[n].get("pre", []) + ([] if c.quick() else BRICKS[n].get("pre3d", [])), timeout=600)

    with ThreadPoolExecutor(max_workers=4) as ex:
        rgs = [r for r in ex.map(pre, proved) if not r.ok]
    if rgs:
        for r in rgs:
            c.coq_failures(r, None)
        return
    c.log("coq generated modules done")
    phase1 = []
    for n in proved:
        b = BRICKS[n]
        phase1 += [(n, f, False) for f in b["proofs"]]
        if not c.quick():
            phase1 += [(n, f, True) for f in b.get("proofs3d", [])]
    phase1.sort(key=lambda j: (0 if j[2] else 1, 0 if re.search(r"_[abc]\.v$", j[1]) else 1))

    def prove(job):
        t0 = time.time()
        r = c.coq([job[1]], timeout=c.pick(600, 1500))
        c.log("coq %s %s %.0fs" % (job[1], "ok" if r.ok else "FAILED", time.time() - t0))
        return job, r

    with ThreadPoolExecutor(max_workers=4) as ex:
        rs = list(ex.map(prove, phase1))
    failed = [r for (job, r) in rs if not r.ok]
    badcfg = {(job[0], job[2]) for (job, r) in rs if not r.ok}
    phase2 = []
    for n in proved:
        b = BRICKS[n]
        for is3d, key in ((False, "post"), (True, "post3d")):
            if is3d and c.quick():
                continue
            files = b.get(key, [])
            if not files:
                continue
            if (n, is3d) in badcfg:
                # the Properties file of this configuration cannot be compiled: its theorems are undischarged obligations
                for f in files:
                    if f.startswith("Properties"):
                        txt = open(os.path.join(c.dir, "coq", f)).read()
                        c.coverage["obligations"] += len(re.findall(r"^\s*(?:Theorem|Lemma|Corollary|Example)\s+", txt, flags=re.M))
                continue
            phase2.append(files)

    def post(files):
        t0 = time.time()
        r = c.coq(files, timeout=900)
        c.log("coq %s %s %.0fs" % (files[-1], "ok" if r.ok else "FAILED", time.time() - t0))
        return r

    with ThreadPoolExecutor(max_workers=4) as ex:
        failed += [r for r in ex.map(post, phase2) if not r.ok]
    if failed:
        r = failed[0]
        for b2 in failed[1:]:
            r.failed += b2.failed
        if c.violations and any(v[3] for v in c.violations):
            c.notes.append("proof obligations failed: %s; concrete failing inputs reported above" % [f[2] or f[0] for f in r.failed])
        else:
            c.coq_failures(r, None)


guarded_main("C43", main, level="translation_validation")

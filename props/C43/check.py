"""C43 -- brick-generated implicit Jacobians are exact.
Engine G+S: brick configurations (props/C43/mfront) are turned into C++ by the mfront of /repo's working tree; the generated
class is instantiated with symv::Sym, computeThermodynamicForces(); computeFdF(false) is traced at symbolic unknowns on the
plastic-loading path, and Coq proves jacobian(i,j) = d fzeros(i)/d zeros(j) entry by entry (auto_derive; field), for every
entry of every configuration listed in BRICKS with a proof file.
The double instantiation is compared with the trace (agreement) and its analytical jacobian with centred differences of
its fzeros (failing-input search; the only check for the Mohr-Coulomb configuration, whose states cover the rounded corners)."""
import os, re, sys, time
C41 = os.path.join(os.path.dirname(os.path.abspath(__file__)), "..", "C41")
sys.path.insert(0, os.path.abspath(C41))
import vlib
from vlib import guarded_main
import gbeh

HERE = os.path.dirname(os.path.abspath(__file__))
# name -> tag, tensor state variables other than eel, scalar state variables, hypotheses (quick, thorough),
#         Coq proof files (quick tier: 3-component tensors), Coq proof files added by the thorough tier (Tridimensional), options
BRICKS = {
    # pre: definitions compiled with the generated module; proofs: files checked concurrently (phase 1); post: files compiled in
    # order after them (phase 2: glue lemmas, Properties).  *3d: Tridimensional hypothesis, thorough tier only.
    "C43NortonMisesLinear": dict(tag="bnml", tens=[], scal=["p"], proofs=["C43Proofs_bnml.v"], post=["Properties_C43_bnml.v"],
                                 proofs3d=["C43Proofs_bnml_3d.v"], post3d=["Properties_C43_bnml_3d.v"]),
    "C43PlasticMisesLinearPrager": dict(tag="bplp", tens=["khr_a_0"], scal=["p"], pre=["C43Defs_bplp.v"],
                                        proofs=["C43Proofs_bplp_a.v", "C43Proofs_bplp_b.v"], post=["C43Proofs_bplp.v", "Properties_C43_bplp.v"],
                                        pre3d=["C43Defs_bplp_3d.v"],
                                        proofs3d=["C43Proofs_bplp_3d_a.v", "C43Proofs_bplp_3d_b.v", "C43Proofs_bplp_3d_c.v"],
                                        post3d=["C43Proofs_bplp_3d.v", "Properties_C43_bplp_3d.v"]),
    "C43NortonMisesVoce": dict(tag="bnmv", tens=[], scal=["p"], proofs=["C43Proofs_bnmv.v"], post=["Properties_C43_bnmv.v"],
                               proofs3d=["C43Proofs_bnmv_3d.v"], post3d=["Properties_C43_bnmv_3d.v"]),
    "C43PlasticMisesSwift": dict(tag="bpms", tens=[], scal=["p"], proofs=["C43Proofs_bpms.v"], post=["Properties_C43_bpms.v"],
                                 proofs3d=["C43Proofs_bpms_3d.v"], post3d=["Properties_C43_bpms_3d.v"]),
    "C43NortonMisesAF": dict(tag="bnaf", tens=["khr_a_0"], scal=["p"], pre=["C43Defs_bnaf.v"],
                             proofs=["C43Proofs_bnaf_a.v", "C43Proofs_bnaf_b.v"], post=["C43Proofs_bnaf.v", "Properties_C43_bnaf.v"],
                             pre3d=["C43Defs_bnaf_3d.v"],
                             proofs3d=["C43Proofs_bnaf_3d_a.v", "C43Proofs_bnaf_3d_b.v", "C43Proofs_bnaf_3d_c.v"],
                             post3d=["C43Proofs_bnaf_3d.v", "Properties_C43_bnaf_3d.v"]),
    "C43NortonHill": dict(tag="bnhi", tens=[], scal=["p"], proofs=["C43Proofs_bnhi.v"], post=["Properties_C43_bnhi.v"],
                          proofs3d=["C43Proofs_bnhi_3d.v"], post3d=["Properties_C43_bnhi_3d.v"]),
    "C43Elasticity": dict(tag="bela", tens=[], scal=[], proofs=["C43Proofs_bela.v"], post=["Properties_C43_bela.v"],
                          proofs3d=["C43Proofs_bela_3d.v"], post3d=["Properties_C43_bela_3d.v"]),
    # ---- added in the fourth round (Coq proofs in the thorough tier; the quick tier instantiates, compares Sym vs double and differentiates numerically)
    # *_t: Coq files of the thorough tier (3-component tensors).  alt_key: while this finding is observed (NJ-FAIL key) the *_alt files
    # (theorem restricted to theta = 1) are checked instead of the general theorem, which is false on such a tree
    "C43NortonMisesPower": dict(tag="bnpw", tens=[], scal=["p"], proofs=[], proofs_t=["C43Proofs_bnpw.v"], post_t=["Properties_C43_bnpw.v"],
                                alt_key="nj:C43NortonMisesPower:hag:3,3", proofs_t_alt=["C43Proofs_bnpw_theta1.v"],
                                post_t_alt=["Properties_C43_bnpw_theta1.v"]),
    "C43PlasticMisesChaboche2012": dict(tag="bpch", tens=["khr_a_0"], scal=["p"], proofs=[], extra='#define BEH_TENSOR_SCALE 2e-2\n',
                                        proofs_t=["C43Proofs_bpch.v"], post_t=["Properties_C43_bpch.v"]),
    # same with the factor Phi(p) (options b, Phi_inf): execution only
    "C43PlasticMisesChaboche2012Phi": dict(tag="bpcp", tens=["khr_a_0"], scal=["p"], proofs=[], extra='#define BEH_TENSOR_SCALE 2e-2\n'),
    "C43PlasticMisesBurletCailletaud": dict(tag="bpbc", tens=["khr_a_0"], scal=["p"], proofs=[], extra='#define BEH_TENSOR_SCALE 2e-3\n',
                                            proofs_t=["C43Proofs_bpbc.v"], post_t=["Properties_C43_bpbc.v"]),
    "C43HyperbolicSineMisesLinear": dict(tag="bhsl", tens=[], scal=["p"], proofs=[], proofs_t=["C43Proofs_bhsl.v"], post_t=["Properties_C43_bhsl.v"]),
    "C43HyperbolicSineMises": dict(tag="bhsm", tens=[], scal=["p"], proofs=[], proofs_t=["C43Proofs_bhsm.v"], post_t=["Properties_C43_bhsm.v"]),
    "C43UserDefinedMises": dict(tag="budm", tens=[], scal=["p"], proofs=[], proofs_t=["C43Proofs_budm.v"], post_t=["Properties_C43_budm.v"]),
    "C43TwoFlows": dict(tag="btwo", tens=["khr_a0_0", "khr_a0_1"], scal=["p0", "p1"], proofs=[], pre_t=["C43Defs_btwo.v"],
                        proofs_t=["C43Proofs_btwo_a.v", "C43Proofs_btwo_b.v", "C43Proofs_btwo_c.v", "C43Proofs_btwo_e.v"],
                        post_t=["C43Proofs_btwo.v", "Properties_C43_btwo.v"]),
    "C43PlasticDrucker": dict(tag="bpdr", tens=[], scal=["p"], proofs=[]),
    "C43PlasticCazacu2004Iso": dict(tag="bpci", tens=[], scal=["p"], proofs=[]),
    "C43PlasticCazacu2001": dict(tag="bpc1", tens=[], scal=["p"], proofs=[], hyps=("h3d", "h3d")),
    "C43PlasticCazacu2004Ortho": dict(tag="bpco", tens=[], scal=["p"], proofs=[], hyps=("h3d", "h3d")),
    # eigen-based criteria (eigen_solver: Jacobi): execution only, a part of the states have two equal principal stresses at the iterate
    "C43PlasticHosford": dict(tag="bhos", tens=[], scal=["p"], proofs=[], hyps=("hag,h3d", "hag,hpe,h3d"), double_only=True,
                              extra='#define BEH_EIGEN_TIES\n', min_ties=(30, 60)),
    "C43PlasticBarlat": dict(tag="bbar", tens=[], scal=["p"], proofs=[], hyps=("hag,h3d", "hag,hpe,h3d"), double_only=True,
                             extra='#define BEH_EIGEN_TIES\n', min_ties=(30, 60)),
    # execution only (asin/cos based criterion with a corner rounding: not traced)
    "C43MohrCoulomb": dict(tag="bmc", tens=[], scal=["p"], proofs=[], hyps=("h3d", "h3d"), double_only=True,
                           extra='#define BEH_MC_LODET 0.436332312998582\n', min_corner=(25, 60)),
}
# proofs that need the generated modules of several configurations: elastic-loading leaf of the configurations of the first rounds (quick tier)
EXTRA = [dict(name="elastic", needs=["C43NortonMisesLinear", "C43PlasticMisesLinearPrager", "C43NortonMisesVoce", "C43PlasticMisesSwift"],
              proofs=["C43Proofs_elastic.v"], post=["Properties_C43_elastic.v"])]
# groups of Coq files of a configuration: (suffix of the BRICKS keys, checked in the quick tier too)
GROUPS = (("", True), ("3d", False), ("_t", False))
SKIP_PARAMS = {"numerical_jacobian_epsilon", "minimal_time_step_scaling_factor", "maximal_time_step_scaling_factor", "iterMax"}
HYP_FLAG = {"hag": "-DBRICK_HAG", "hpe": "-DBRICK_HPE", "h3d": "-DBRICK_H3D"}


def stable_gen_dir(c, gdir, pid, names):
    """copy of the generated sources of the behaviours `names` in a directory named by their content (.cache/gen/<ID>-<hash>): vlib's
    object cache is keyed by the compiler flags, which contain the include path of the generated headers; the per-run scratch
    directory would defeat it"""
    import hashlib, shutil
    files = []
    for n in names:
        files += [os.path.join("include", "TFEL", "Material", n + x + ".hxx") for x in ("", "BehaviourData", "IntegrationData")]
        files += [os.path.join("src", n + ".cxx"), "cfg_%s.hxx" % n]
    files = [f for f in files if os.path.exists(os.path.join(gdir, f))]
    h = hashlib.sha256()
    for f in files:
        h.update(f.encode())
        h.update(open(os.path.join(gdir, f), "rb").read())
    dst = os.path.join(vlib.CACHE, "gen", "%s-%s-%s" % (pid, names[0], h.hexdigest()[:20]))
    if not os.path.isdir(dst):
        tmp = "%s.%d.%d.tmp" % (dst, os.getpid(), __import__("threading").get_ident())
        for f in files:
            os.makedirs(os.path.dirname(os.path.join(tmp, f)), exist_ok=True)
            shutil.copy(os.path.join(gdir, f), os.path.join(tmp, f))
        try:
            os.replace(tmp, dst)
        except OSError:
            shutil.rmtree(tmp, ignore_errors=True)
    return dst


def mfront_generate(c, files, outdir):
    """gbeh.mfront_generate, with the testing aid VERIF_MFRONT=<path of an mfront executable or wrapper named mfront> (a privately rebuilt
    generator, see props/C45/private_build.py: used to verify candidate fixes of mfront/src; never set in normal runs)"""
    alt = os.environ.get("VERIF_MFRONT", "")
    if not alt:
        return gbeh.mfront_generate(c, files, outdir)
    c.notes.append("TESTING AID ACTIVE: VERIF_MFRONT=%s" % alt)
    os.makedirs(outdir, exist_ok=True)
    bad = []
    for f in files:
        rc, out, err = c.run([alt, "--interface=generic", f], cwd=outdir, timeout=300)
        if rc != 0:
            bad.append((f, (out + err)[-1500:]))
    if bad:
        raise vlib.BuildError("mfront failed: %s" % bad)
    return outdir


def main(c):
    from concurrent.futures import ThreadPoolExecutor
    names = list(BRICKS)
    only = os.environ.get("VERIF_C43_ONLY", "")
    if only:  # testing aid: restrict the run to some configurations (tags); never set in normal runs
        names = [n for n in names if BRICKS[n]["tag"] in only.split(",")]
        c.notes.append("TESTING AID ACTIVE: VERIF_C43_ONLY=%s" % only)
    gdir = os.path.join(c.work, "gen")
    mfront_generate(c, [os.path.join(HERE, "mfront", n + ".mfront") for n in names], gdir)
    c.log("mfront done")
    for n in names:
        if gbeh.mutate_generated(gdir, n):
            c.notes.append("TESTING AID ACTIVE: generated header of %s mutated via VERIF_GEN_MUTATION" % n)
    os.makedirs(os.path.join(c.work, "coq"), exist_ok=True)

    def hyps_of(n):
        q, t = BRICKS[n].get("hyps", ("hag", "hag,hpe,h3d"))
        return c.pick(q, t)

    for n in names:
        b = BRICKS[n]
        params = [p for p in gbeh.generated_parameters(gdir, n) if p not in SKIP_PARAMS]
        with open(os.path.join(gdir, "cfg_%s.hxx" % n), "w") as f:
            f.write('#define BEH %s\n#define BEH_HEADER "TFEL/Material/%s.hxx"\n#define BEH_TAG "%s"\n' % (n, n, b["tag"]))
            f.write("#define BEH_PARAMS %s\n" % " ".join("P(%s)" % p for p in params))
            f.write("#define BEH_STENSORS %s\n" % " ".join("T(%s)" % p for p in b["tens"]))
            f.write("#define BEH_SCALARS %s\n" % " ".join("S(%s)" % p for p in b["scal"]))
            if b.get("double_only"):
                f.write("#define BEH_DOUBLE_ONLY\n")
            f.write(b.get("extra", ""))
    sdir = {n: stable_gen_dir(c, gdir, "C43", [n]) for n in names}

    def one(n):
        b = BRICKS[n]
        tag = b["tag"]
        hy = hyps_of(n)
        sd = sdir[n]
        try:
            exe = c.cxx("trace_" + tag, [os.path.join(HERE, "trace_brick.cxx"), os.path.join(sd, "src", n + ".cxx")],
                        gbeh.SUPPORT + ["src/Math/MathException.cxx"],
                        flags=gbeh.include_flags(sd) + ["-I" + sd, '-DBRICK_CFG="cfg_%s.hxx"' % n] + [HYP_FLAG[x] for x in hy.split(",")])
        except vlib.BuildError as e:
            return n, "build", "", str(e), None
        out_v = os.path.join(c.work, "coq", "Gen%s.v" % tag)
        # the configurations added in the fourth round run fewer states in the quick tier (their theorems are in the thorough tier)
        ncases = c.pick(300 if BRICKS[n]["proofs"] or b.get("double_only") else 120, 3000)
        rc, out, err = c.run([exe, "gen", out_v, str(c.seed % 1000003), str(ncases), hy], timeout=900)
        return n, rc, out, err, out_v

    gen = {}
    nag = nnj = ncorner = nties = nelastic = 0
    observed = set()
    with ThreadPoolExecutor(max_workers=4) as ex:
        results = list(ex.map(one, names))
    c.log("tracers done")
    for n, rc, out, err, out_v in results:
        b = BRICKS[n]
        if rc == "build":
            # the C++ emitted by mfront for this configuration does not compile (with double or Sym): the configuration itself is the failing input
            msg = [l for l in err.splitlines() if "error" in l]
            c.report("instantiate:" + n, "the C++ that mfront generates for the brick configuration props/C43/mfront/%s.mfront does not compile: %s" % (
                n, " | ".join(msg[:3])[:600]), {"program": n, "mfront_file": "props/C43/mfront/%s.mfront" % n, "compiler_output": err[-3000:]}, True)
            continue
        if rc != 0:
            c.report("trace:" + n, "tracer of brick program %s failed (generated class no longer instantiates / runs with Sym): %s" % (n, err[-600:]),
                     {"stderr": err[-3000:], "program": n}, False)
            continue
        gen[n] = out_v
        lines = out.splitlines()
        nag += gbeh.agreement(c, lines)
        for l in lines:
            t = l.split()
            if t[0] == "NJ":
                kv = dict(x.split("=") for x in t[3:])
                nnj += int(kv["n"]) + int(kv.get("elastic", 0))
                ncorner += int(kv.get("corner", 0))
                nties += int(kv.get("ties", 0))
                nelastic += int(kv.get("elastic", 0))
                c.count(int(kv["n"]) + int(kv.get("elastic", 0)), ("nj", n, t[2], kv["n"]), True)
                if int(kv["n"]) == 0:
                    c.report("nj-none:%s:%s" % (n, t[2]), "no state of %s reached the reference (plastic loading) path" % n, {"line": l}, False)
                if "min_corner" in b and int(kv.get("corner", 0)) < c.pick(*b["min_corner"]):
                    c.report("nj-corner:%s:%s" % (n, t[2]), "the sampling of %s does not cover the rounded-corner zones |lode| > lodeT (%s states)" % (
                        n, kv.get("corner")), {"line": l}, False)
                if "min_ties" in b and int(kv.get("ties", 0)) < c.pick(*b["min_ties"]):
                    c.report("nj-ties:%s:%s" % (n, t[2]), "the sampling of %s does not cover the states with two equal principal stresses (%s states)" % (
                        n, kv.get("ties")), {"line": l}, False)
            elif t[0] == "NJ-FAIL":
                d = gbeh.parse_kv(" ".join(t[2:]))
                key = "nj:%s:%s:%d,%d" % (n, t[2], int(d["i"][0]), int(d["j"][0]))
                observed.add(key)
                c.report(key, "brick program %s (%s): jacobian(%d,%d) = %.10g but centred differences of fzeros give %.10g at state in=%s z=%s (Lode angle %.4g deg)" % (
                    n, t[2], int(d["i"][0]), int(d["j"][0]), d["analytical"][0], d["numerical"][0], d["in"], d["z"], d.get("lode", [0.0])[0]),
                    {"program": n, "hypothesis": t[2], "i": d["i"][0], "j": d["j"][0], "analytical": d["analytical"][0],
                     "numerical": d["numerical"][0], "inputs": d["in"], "zeros": d["z"], "lode_angle_deg": d.get("lode", [0.0])[0],
                     "how": "props/C43/trace_brick.cxx (double instantiation)"}, True)
            elif t[0] == "LAYOUT":
                c.sample({"program": n, "hypothesis": t[2], "unknowns_and_inputs": " ".join(t[3:])[:400]})

    # ---- Coq files of this run: per configuration and group (see GROUPS); *_alt files while the configuration's finding is observed
    def files_of(n, key, sfx):
        b = BRICKS[n]
        if b.get("alt_key") in observed and (key + sfx + "_alt") in b:
            return b[key + sfx + "_alt"]
        return b.get(key + sfx, [])

    active = [(n, sfx) for n in names for (sfx, inquick) in GROUPS if (inquick or not c.quick()) and files_of(n, "proofs", sfx)]
    extras = [e for e in EXTRA if all(m in names for m in e["needs"])]
    needgen = sorted({n for (n, _) in active} | {m for e in extras for m in e["needs"]}, key=names.index)
    for n in names:
        if BRICKS[n].get("alt_key") in observed:
            c.notes.append("%s: finding %s observed, the theorem restricted to theta = 1 (%s) is checked instead of the general one" % (
                n, BRICKS[n]["alt_key"], BRICKS[n].get("post_t_alt")))
    c.coverage["programs"] = len(gen)
    c.coverage["disagreements_checked"] = nag + nnj
    c.coverage["traces_validated_against_impl"] = nag
    c.coverage["corner_zone_states"] = ncorner
    c.coverage["eigenvalue_tie_states"] = nties
    c.coverage["elastic_leaf_states"] = nelastic
    c.coverage["rule"] = ("brick configurations %s x hypotheses (default %s; Mohr-Coulomb, Cazacu 2001 / orthotropic Cazacu 2004: Tridimensional only); seeded "
                          "plastic-loading and elastic states with the declared material coefficients, theta = 1 or in [0.5, 1]; agreement Sym trace vs double "
                          "computeFdF on each state's own path; analytical vs centred-difference jacobian on the states of the reference path and of the "
                          "elastic-loading path (%d corner-zone states for Mohr-Coulomb, %d states with two equal principal stresses for Hosford/Barlat); "
                          "Coq: every jacobian entry of %s" % (names, c.pick("hag", "hag,hpe,h3d"), ncorner, nties,
                                                               ["%s%s" % (BRICKS[n]["tag"], sfx or "_hag") for (n, sfx) in active] + [e["name"] for e in extras]))
    c.trusted("mfront built from /repo's working tree and g++ template instantiation of the generated classes with symv::Sym",
              "engine S tracer (cxx/sym/sym.hxx incl. numeric_limits<Sym>::quiet_NaN for the unused bissection members), props/C41/gsym.hxx, props/C43/trace_brick.cxx",
              "path conditions <tag>_cond_<h> (plastic loading, regularisations max(seq, ..), max(seq-R, eps K) inactive) and <tag>_econd_<h> (elastic loading) "
              "printed in the generated files: the traced definitions are the code's outputs on the states that satisfy them")
    if any(n not in gen for n in needgen):
        return
    a = os.path.abspath(os.path.join(C41, "coq"))
    r0 = c.coq([os.path.join(a, "GBehLib.v"), os.path.join(a, "BehSpec.v"), "C43Lib.v"], timeout=600)
    if not r0.ok:
        c.coq_failures(r0, None)
        return
    c.log("coq common done")
    # generated modules and shared definitions first (fast), then the proof files, 4 at a time, then per configuration the
    # glue lemmas and the Properties file (Print Assumptions is slow: also 4 at a time)
    def pre(n):
        fs = [gen[n]]
        for (m, sfx) in active:
            if m == n:
                fs += files_of(n, "pre", sfx)
        return c.coq(fs, timeout=600)

    with ThreadPoolExecutor(max_workers=4) as ex:
        rgs = [r for r in ex.map(pre, needgen) if not r.ok]
    if rgs:
        for r in rgs:
            c.coq_failures(r, None)
        return
    c.log("coq generated modules done")
    phase1 = []  # (group id, file, slow first)
    for (n, sfx) in active:
        phase1 += [((n, sfx), f, sfx == "3d") for f in files_of(n, "proofs", sfx)]
    for e in extras:
        phase1 += [((e["name"], ""), f, False) for f in e["proofs"]]
    phase1.sort(key=lambda j: (0 if j[2] else 1, 0 if re.search(r"_[abce]\.v$", j[1]) else 1))

    def prove(job):
        t0 = time.time()
        r = c.coq([job[1]], timeout=c.pick(600, 1500))
        c.log("coq %s %s %.0fs" % (job[1], "ok" if r.ok else "FAILED", time.time() - t0))
        return job, r

    with ThreadPoolExecutor(max_workers=4) as ex:
        rs = list(ex.map(prove, phase1))
    failed = [r for (job, r) in rs if not r.ok]
    badcfg = {job[0] for (job, r) in rs if not r.ok}
    phase2 = []
    for (gid, files) in [((n, sfx), files_of(n, "post", sfx)) for (n, sfx) in active] + [((e["name"], ""), e["post"]) for e in extras]:
        if not files:
            continue
        if gid in badcfg:
            # the Properties file of this configuration cannot be compiled: its theorems are undischarged obligations
            for f in files:
                if f.startswith("Properties"):
                    txt = open(os.path.join(c.dir, "coq", f)).read()
                    c.coverage["obligations"] += len(re.findall(r"^\s*(?:Theorem|Lemma|Corollary|Example)\s+", txt, flags=re.M))
            continue
        phase2.append(files)

    def post(files):
        t0 = time.time()
        r = c.coq(files, timeout=900)
        c.log("coq %s %s %.0fs" % (files[-1], "ok" if r.ok else "FAILED", time.time() - t0))
        return r

    with ThreadPoolExecutor(max_workers=4) as ex:
        failed += [r for r in ex.map(post, phase2) if not r.ok]
    if failed:
        r = failed[0]
        for b2 in failed[1:]:
            r.failed += b2.failed
        if c.violations and any(v[3] for v in c.violations):
            c.notes.append("proof obligations failed: %s; concrete failing inputs reported above" % [f[2] or f[0] for f in r.failed])
        else:
            c.coq_failures(r, None)


guarded_main("C43", main, level="translation_validation")

"""C02 component: invert(st2tost2<1>) traced on every pivoting path of the LU inside TinyMatrixInvert<3> (engine S with path
enumeration, invert1.cxx) and proved, on every path, to return the inverse in index notation (coq/InvertProofs.v,
Properties_C02_invert.v).  N = 2, 3 (4x4, 6x6: thousands of pivoting paths) are executed against exact rational arithmetic by the
operation registry (A_invert, A_invert_rt, A_det, B_det of trace.cxx, double only)."""
import os, re

SUPPORT = ["src/Exception/ContractViolation.cxx", "src/Exception/TFELException.cxx", "src/Math/MathException.cxx", "src/Math/LUException.cxx"]


def run(c):
    exe = c.cxx("invert1", ["invert1.cxx"], SUPPORT, opt="-O0")
    wd = os.path.join(c.work, "coq")
    os.makedirs(wd, exist_ok=True)
    gen = os.path.join(wd, "C02_invert_gen.v")
    rc, so, se = c.run([exe, "gen", gen, str(c.seed + 5)], timeout=600)
    if rc != 0:
        c.report("trace:invert1", "invert(st2tost2<1>) could not be traced on /repo's code: " + se[-600:], {"stderr": se[-3000:]}, False)
        return
    m = re.search(r"LEAVES (\d+)", so)
    a = re.search(r"AGREE cases=(\d+) thrown=(\d+) failures=(\d+)", so)
    for l in so.splitlines():
        if l.startswith("AGREE-FAIL"):
            c.report("agree:A_invert_1", "decision tree of invert(st2tost2<1>) and its double instantiation disagree: " + l, {"line": l}, True)
    if a:
        c.count(int(a.group(1)), ("A_invert_1", c.seed), True)
        c.coverage["traces_validated_against_impl"] = c.coverage.get("traces_validated_against_impl", 0) + int(a.group(1))
        c.notes.append("invert(st2tost2<1>): %s pivoting paths traced; %s seeded matrices (reals, small integers with ties and singular ones): "
                       "same verdict (returned / LUNullPivot, %s times) and same values as the double instantiation" % (m.group(1) if m else "?", a.group(1), a.group(2)))
    res = c.coq([gen, "InvertProofs.v", "Properties_C02_invert.v"], timeout=1800)
    if not res.ok:
        c.coq_failures(res)

// C02: invert(st2tost2<1>) traced on EVERY pivoting path (engine S with path enumeration).
// invert copies the Mandel matrix (3x3 in 1D) into a tmatrix, calls TinyMatrixInvert<3>::exe (LU with partial pivoting,
// default eps = 100 * numeric_limits::min) and copies the result back: the decision tree over the pivot comparisons is
// printed as  A_invert_1 a0..a8 : option (list R)  (None where the code throws LUNullPivot).
//   invert1 gen <out.v> <seed>
#include "symtfel.hxx"
#include "TFEL/Math/st2tost2.hxx"
#include <cstring>
#include <iostream>
using namespace symv;
using tfel::math::st2tost2;

template <typename T>
std::vector<T> run(const std::vector<T>& a) {
  st2tost2<1u, T> A;
  for (unsigned short i = 0; i < 3; ++i)
    for (unsigned short j = 0; j < 3; ++j) A(i, j) = a[3 * i + j];
  const st2tost2<1u, T> X = invert(A);
  std::vector<T> r;
  for (unsigned short i = 0; i < 3; ++i)
    for (unsigned short j = 0; j < 3; ++j) r.push_back(X(i, j));
  return r;
}

int main(int argc, char** argv) {
  if (argc < 4 || std::strcmp(argv[1], "gen")) return 2;
  Trace tr("C02_invert_gen");
  auto a = vars("a", 9);
  auto leaves = tr.def_paths("A_invert_1", a, [&] { return run<Sym>(a); }, 200000);
  std::printf("LEAVES %zu\n", leaves.size());
  tr.write(argv[2]);
  // agreement with the double instantiation: same verdict (returned / LUNullPivot), same values
  Rng rng(std::strtoull(argv[3], nullptr, 10));
  int nfail = 0, nthrow = 0, ncases = 0;
  for (int t = 0; t < 400; ++t) {
    Env env;
    std::vector<double> d;
    for (int k = 0; k < 9; ++k) {
      double v = t % 2 ? double(rng.below(7) - 3) : rng.range(-2., 2.);
      env["a" + std::to_string(k)] = v;
      d.push_back(v);
    }
    std::vector<long double> r;
    std::string err;
    ++ncases;
    if (!eval_leaves(leaves, env, r, &err)) {
      std::printf("AGREE-FAIL no leaf case %d\n", t);
      ++nfail;
      continue;
    }
    bool dthrow = false;
    std::vector<double> dr;
    try {
      dr = run<double>(d);
    } catch (std::exception&) {
      dthrow = true;
    }
    if (dthrow) ++nthrow;
    bool ok = dthrow == !err.empty();
    // an exactly singular integer matrix: the last pivot is a rounding residue in double and exactly 0 in the tree
    long double det = d[0] * (d[4] * d[8] - d[5] * d[7]) - d[1] * (d[3] * d[8] - d[5] * d[6]) + d[2] * (d[3] * d[7] - d[4] * d[6]);
    if (std::fabs(det) < 1e-9L) continue;
    if (ok && !dthrow)
      for (size_t k = 0; ok && k < dr.size(); ++k) ok = close(dr[k], r[k], 1.0L, 1e-7L / std::min<long double>(1, std::fabs(det)));
    if (!ok) {
      ++nfail;
      std::printf("AGREE-FAIL case %d in=", t);
      for (auto v : d) std::printf("%.17g,", v);
      std::printf("\n");
    }
  }
  std::printf("AGREE cases=%d thrown=%d failures=%d\n", ncases, nthrow, nfail);
  return 0;
}

"""Driver shared by C02 and C23 (engine S on the operation registry of tt.hxx):
build the tracers from /repo's working tree (one translation unit per group x dimension, in parallel), trace every
operation with symv::Sym into per-component Coq definitions + obligations, compare the REAL double code on seeded
inputs with (a) the evaluated trace (tie Sym/double) and (b) the independent numerical index-notation specification
(search for a concrete failing input), compile the generated obligations in parallel, then the Properties files."""
import os, re, sys, time
from concurrent.futures import ThreadPoolExecutor

SUPPORT = ["src/Exception/ContractViolation.cxx", "src/Exception/TFELException.cxx", "src/Math/MathException.cxx",
           "src/Math/TensorConcept.cxx"]


def module_name(pid, g, N, p):
    return "%s_g%d_n%d_p%d" % (pid, g, N, p)


def run(c, pid, groups, parts, spec, spec_files, prop_files_quick, prop_files_thorough, conditional=None,
        source="trace.cxx", nsamples=(6, 60), workers=4, extra_support=(), file_timeout=2400):
    """conditional: {op_name: (positive_properties_file, refuted_properties_file_or_None[, tier])} for operations hit by a
    known finding: the positive file is compiled only when no numerical failure of that operation is observed; `tier`
    (default 0) is the tier of the operation in the registry: 1 = traced in the thorough tier only, so neither file is
    compiled in the quick tier."""
    tier = 0 if c.quick() else 1
    try:
        workers = max(1, int(os.environ.get("VERIF_JOBS", workers)))
    except ValueError:
        pass
    ns = nsamples[tier]
    cfgs = [(g, N) for g in groups for N in (1, 2, 3)]
    # ---- 1. build (parallel)
    t0 = time.time()

    def build(cfg):
        g, N = cfg
        return c.cxx("trace_g%d_n%d" % (g, N), [source], SUPPORT + list(extra_support),
                     flags=["-DTT_GROUP=%d" % g, "-DTT_N=%d" % N], opt="-O0")
    with ThreadPoolExecutor(max_workers=workers) as ex:
        exes = dict(zip(cfgs, ex.map(build, cfgs)))
    c.log("tracers built in %.1fs" % (time.time() - t0))
    # ---- 2. trace + run the double code
    wd = os.path.join(c.work, "coq")
    os.makedirs(wd, exist_ok=True)
    jobs = []
    for (g, N) in cfgs:
        for p in range(parts.get((g, N), 1)):
            jobs.append((g, N, p, parts.get((g, N), 1)))

    def trace(job):
        g, N, p, n = job
        out = os.path.join(wd, module_name(pid, g, N, p) + ".v")
        rc, so, se = c.run([exes[(g, N)], "gen", out, "%d/%d" % (p, n), str(tier), str(ns), str(c.seed + 97 * g + N)], timeout=900)
        return job, out, rc, so, se
    with ThreadPoolExecutor(max_workers=workers) as ex:
        traced = list(ex.map(trace, jobs))
    oplist = {}
    for (g, N) in cfgs:
        rc, so, se = c.run([exes[(g, N)], "list"])
        for l in so.splitlines():
            t = l.split()
            if t and t[0] == "OP":
                oplist[(t[1], int(t[2]))] = ("" if t[3] == "-" else t[3], t[4], int(t[5]))
    gen_files, refuted, ntraced, nagree, exec_only, deferred, double_only = [], {}, 0, 0, [], [], []
    for (job, out, rc, so, se) in traced:
        if rc != 0:
            c.report("trace:g%d:n%d" % (job[0], job[1]), "tracer failed on /repo's tensor code: " + se[-600:], {"stderr": se[-3000:]}, False)
            continue
        gen_files.append(out)
        for l in so.splitlines():
            if l.startswith("EXEC-DOUBLE-ONLY"):
                double_only.append(l.split()[1])
            elif l.startswith("TRACED-EXEC-ONLY"):
                exec_only.append(l.split()[1])
            elif l.startswith("TRACED-DEFERRED"):
                deferred.append(l.split()[1])
            elif l.startswith("TRACED"):
                ntraced += 1
            elif l.startswith("TRACE-FAIL"):
                c.report("trace:" + l.split()[1], "operation could not be traced: " + l, {"line": l}, False)
            elif l.startswith("AGREE"):
                t = l.split()
                nm = t[1]
                name, N = nm.rsplit("_", 1)
                N = int(N)
                iin, iout = t.index("IN"), t.index("OUT")
                ins, cur = [], None
                for x in t[iin + 1:iout]:
                    if x == "|":
                        cur = []
                        ins.append(cur)
                    else:
                        cur.append(float(x))
                obs = [float(x) for x in t[iout + 1:]]
                nagree += 1
                kin, kout, _ = oplist[(name, N)]
                c.count(1, (nm, tuple(map(tuple, ins))), True)
                if nagree % 211 == 1:
                    c.sample({"operation": nm, "inputs": ins, "real_code_output": obs[:6]})
                # bound of the intermediate terms (cancellations, e.g. in round trips): product over the inputs of
                # max|component|, to the 4th power for tensors (determinants, inverses, push-forwards)
                bound = 1.0
                for k, v in zip(kin, ins):
                    m = max([1.0] + [abs(x) for x in v])
                    bound *= m ** (4 if k in "tr" else 1)
                exp = spec.evaluate(spec.SPEC, name, N, kin, kout, ins)
                bad = spec.compare(exp, obs, 1e-9, bound)
                if t[0] == "AGREE-FAIL":
                    # the tracer's own tolerance is scaled by the results only; a disagreement counts when the double
                    # code is also away from the specification beyond rounding of the intermediate terms
                    if bad is not None:
                        c.report("agree:" + nm, "traced expression and double instantiation of %s disagree on %s" % (nm, ins),
                                 {"operation": nm, "inputs": ins, "double": obs}, True)
                    else:
                        c.notes.append("agreement of %s within rounding of cancelling terms only (magnitude bound %.3g)" % (nm, bound))
                if bad is not None and nm not in refuted:
                    refuted[nm] = (ins, exp, obs, bad)
    for nm, (ins, exp, obs, bad) in sorted(refuted.items()):
        c.report("spec:" + nm, "%s of /repo (double) differs from its index-notation definition: component %d is %.17g, expected %.17g, on inputs %s" % (
            nm, bad, obs[bad] if bad >= 0 else float("nan"), exp[bad] if bad >= 0 else float("nan"), ins),
            {"operation": nm, "inputs_storage_vectors": ins, "expected": exp, "observed": obs, "component": bad,
             "how": "props/%s/%s gen (real double instantiation) vs props/C02/specnum.py" % (pid, source)}, True)
    c.coverage["traces_validated_against_impl"] = nagree
    if deferred:
        c.coverage["executed_only_in_this_tier"] = len(deferred)
        c.notes.append("%d operation instances are only executed in the quick tier (agreement + numerical specification); their "
                       "obligations are generated and proved in the thorough tier" % len(deferred))
    if exec_only:
        c.coverage["not_proved_execution_only"] = sorted(exec_only)
        c.notes.append("NOT PROVED (execution only: traced, Sym-vs-double agreement and numerical specification on the seeded inputs, "
                       "no Coq obligation, not counted): %s" % sorted(exec_only))
    if double_only:
        c.coverage["not_traced_double_execution_only"] = sorted(double_only)
        c.notes.append("NOT TRACED, NOT PROVED (code that cannot be instantiated with the symbolic scalar: iterative eigen-solver, pivoting LU): the real "
                       "double code is executed on the seeded inputs and compared with the numerical specification only: %s" % sorted(double_only))
    c.trusted("engine S tracer (cxx/sym/sym.hxx: operator overloads, exact folding in Q[sqrt2,sqrt3], printer), g++ template instantiation with symv::Sym",
              "Sym-vs-double agreement of every traced operation on seeded inputs (generic, small integers with zeros/ties, mixed magnitudes): checked, not proved",
              "storage accessors operator[] / operator()(i,j) of the TFEL objects used to fill inputs and read outputs")
    # ---- 3. Coq
    # operations refuted on a concrete input: their obligations are known to be false -> drop the lemmas (keep definitions)
    for f in gen_files:
        txt = open(f).read()
        changed = False
        for nm in refuted:
            # only for operations under a listed known finding; any other refuted operation keeps its obligations,
            # which then fail in Coq as well (the concrete failing input is the one reported above)
            if nm.rsplit("_", 1)[0] in (conditional or {}) and ("Definition %s_c0" % nm) in txt:
                txt = re.sub(r"Lemma %s_c\d+_ok :.*?Qed\.\n" % re.escape(nm), "", txt, flags=re.S)
                txt = re.sub(r"Lemma %s_ok :.*?Qed\.\n" % re.escape(nm), "(* obligation of %s dropped: refuted on a concrete input by this run *)\n" % nm, txt, flags=re.S)
                changed = True
        if changed:
            open(f, "w").write(txt)
    res0 = c.coq(spec_files, timeout=600)
    failed_ops = []
    if not res0.ok:
        c.coq_failures(res0)
        return
    t1 = time.time()
    # vlib's and Coq's timeouts are wall-clock limits and the machine is shared: scale the limit of a file by the load
    # of the machine, and compile a file that ran out of time once more, alone, with twice the limit.  A proof script that
    # still does not END is not a counterexample: it is recorded as inconclusive (nothing depending on it is counted as
    # proved, no alarm); a proof script that FAILS is a broken obligation.
    def limit():
        try:
            return int(file_timeout * max(1.0, os.getloadavg()[0] / (os.cpu_count() or 1)))
        except OSError:
            return file_timeout

    def timed_out(r):
        return bool(r.failed) and all(m == "timeout" or "Timeout!" in m for (_f, _l, _t, m) in r.failed)
    timing = {}

    def compile_gen(f):
        t = time.time()
        r = c.coq([f], timeout=limit())
        timing[os.path.basename(f)] = time.time() - t
        return (f, r)
    # longest first (sizes of the generated files are a good proxy): better packing of the workers
    gen_files.sort(key=lambda f: -os.path.getsize(f))
    with ThreadPoolExecutor(max_workers=workers) as ex:
        results = list(ex.map(compile_gen, gen_files))
    c.log("slowest generated files: " + ", ".join("%s %.0fs" % (k, v) for k, v in sorted(timing.items(), key=lambda kv: -kv[1])[:8]))
    for i, (f, r) in enumerate(results):
        if not r.ok and timed_out(r):
            c.log("%s ran out of time (load %.1f): compiled again, alone" % (os.path.basename(f), os.getloadavg()[0]))
            results[i] = (f, c.coq([f], timeout=2 * limit()))
    c.log("generated obligations compiled in %.1fs" % (time.time() - t1))
    ok_all = True
    ncomp = 0
    inconclusive = []
    for f, r in results:
        txt = open(f).read()
        if r.ok:
            ncomp += len(re.findall(r"^Lemma \w+_c\d+_ok", txt, flags=re.M))
            continue
        ok_all = False
        if timed_out(r):
            inconclusive.append(os.path.basename(f))
            continue
        for (fn, line, thm, msg) in r.failed:
            lem = ""
            for m in re.finditer(r"^Lemma (\w+) :", txt, flags=re.M):
                if txt.count("\n", 0, m.start()) + 1 <= line:
                    lem = m.group(1)
            opn = re.sub(r"(_c\d+)?_ok$", "", lem)
            failed_ops.append(opn)
            if opn in refuted:
                c.notes.append("obligation %s fails in Coq; concrete failing input of %s reported" % (lem, opn))
                continue
            c.report("coq:" + (lem or fn), "generated obligation %s (file %s) no longer checks and no failing input was found among the seeded inputs: %s" % (
                lem, os.path.basename(fn), msg[-500:]), {"lemma": lem, "file": fn, "line": line, "message": msg[-2500:]}, False)
    c.coverage["component_obligations_discharged"] = ncomp
    c.notes.append("%d operations traced, %d component obligations (generated lemmas) checked by coqc before the Properties files" % (ntraced, ncomp))
    if inconclusive:
        msg = ("INCONCLUSIVE: the proof scripts of %s did not end within their time limit, twice (machine load %.1f); no failing "
               "input among the seeded inputs; the theorems of the Properties files are NOT counted as proved in this run" % (
                   inconclusive, os.getloadavg()[0]))
        c.log(msg)
        c.notes.append(msg)
        for pf in list(prop_files_quick) + ([] if c.quick() else list(prop_files_thorough)):
            c.coverage["obligations"] += len(re.findall(r"^Theorem ", open(os.path.join(c.dir, "coq", pf)).read(), flags=re.M))
    if not ok_all:
        if failed_ops:
            c.notes.append("generated obligations failed for: %s" % sorted(set(failed_ops)))
        return
    props = list(prop_files_quick) + ([] if c.quick() else list(prop_files_thorough))
    for opname, cnd in (conditional or {}).items():
        pos, neg = cnd[0], cnd[1]
        if len(cnd) > 2 and cnd[2] > tier:
            continue
        hit = [nm for nm in refuted if nm.rsplit("_", 1)[0] == opname]
        if hit:
            c.notes.append("operation %s refuted on concrete inputs (%s): positive theorems %s not compiled" % (opname, hit, pos))
            if neg:
                props.append(neg)
        else:
            props.append(pos)
    # the Properties files do not depend on one another (Print Assumptions walks every proof term: the slow part)
    with ThreadPoolExecutor(max_workers=workers) as ex:
        for res in list(ex.map(lambda pf: c.coq([pf], timeout=max(1200, limit())), props)):
            if not res.ok:
                c.coq_failures(res)

// C02: tracer/driver of /repo's tensor and fourth-order tensor algebra (see tt.hxx).
// Compiled once per group (-DTT_GROUP=g) and dimension (-DTT_N=n) so that the translation units build in parallel.
#include "tt.hxx"
#include "TFEL/Math/General/MathConstants.hxx"

using namespace tt;

#ifndef TT_N
#define TT_N 3
#endif
#ifndef TT_GROUP
#define TT_GROUP 0
#endif

#define TSC scalar_of<decltype(in)>

#if TT_GROUP == 4
// polar_decomposition calls the eigen-solver of F^T F (iterative / trigonometric: not traceable).  For the symbolic scalar
// ONLY, the eigenvalues are injected as free symbols (hypothesis of the theorems: they are the eigenvalues of F^T F); the
// double instantiation runs the real solver.
namespace c02 {
  inline symv::Sym g_vp[3];
}
namespace tfel::math::internals {
  template <unsigned short N>
  struct StensorEigenSolver<stensor_common::TFELEIGENSOLVER, N, symv::Sym> {
    static void computeEigenValues(symv::Sym& a, symv::Sym& b, symv::Sym& c, const symv::Sym* const, const bool) {
      a = c02::g_vp[0];
      b = c02::g_vp[1];
      c = c02::g_vp[2];
    }
  };
}  // namespace tfel::math::internals
template <typename T>
void inject_vp(const V<T>&) {}
template <>
void inject_vp<Sym>(const V<Sym>& v) {
  for (int i = 0; i < 3; ++i) c02::g_vp[i] = v[i];
}
#endif

template <unsigned short N>
void reg_tensor() {
  // ---- second-order, non symmetric
  reg("t_mul", N, "tt", 't', [](const auto& in) {
    using T = TSC;
    tensor<N, T> r = mk_t<N>(in[0]) * mk_t<N>(in[1]);
    return fl(r);
  });
  reg("t_expr", N, "ttx", 't', [](const auto& in) {  // expression templates: 2*a - b/3 + x*(a*b)
    using T = TSC;
    const auto a = mk_t<N>(in[0]);
    const auto b = mk_t<N>(in[1]);
    tensor<N, T> r = 2 * a - b / 3 + in[2][0] * (a * b);
    return fl(r);
  });
  reg("t_transpose", N, "t", 't', [](const auto& in) {
    using T = TSC;
    const auto a = mk_t<N>(in[0]);
    tensor<N, T> r = transpose(a);
    return fl(r);
  });
  reg("t_trace", N, "t", 'x', [](const auto& in) {
    using T = TSC;
    return V<T>{trace(mk_t<N>(in[0]))};
  });
  reg("t_det", N, "t", 'x', [](const auto& in) {
    using T = TSC;
    return V<T>{det(mk_t<N>(in[0]))};
  });
  reg("t_invert", N, "t", 't', [](const auto& in) {
    using T = TSC;
    tensor<N, T> r = invert(mk_t<N>(in[0]));
    return fl(r);
  }, 0, "det2 (full_t $N a) <> 0");
  reg("t_ddet", N, "t", 't', [](const auto& in) {
    using T = TSC;
    tensor<N, T> r = computeDeterminantDerivative(mk_t<N>(in[0]));
    return fl(r);
  });
  reg("t_change_basis", N, "tr", 't', [](const auto& in) {
    using T = TSC;
    tensor<N, T> r = change_basis(mk_t<N>(in[0]), mk_r(in[1]));
    return fl(r);
  });
  reg("t_changeBasis", N, "tr", 't', [](const auto& in) {  // member function
    using T = TSC;
    tensor<N, T> r = mk_t<N>(in[0]);
    r.changeBasis(mk_r(in[1]));
    return fl(r);
  }, 1);
  reg("t_syme", N, "t", 's', [](const auto& in) {
    using T = TSC;
    stensor<N, T> r = syme(mk_t<N>(in[0]));
    return fl(r);
  });
  reg("t_unsyme", N, "s", 't', [](const auto& in) {
    using T = TSC;
    tensor<N, T> r = unsyme(mk_s<N>(in[0]));
    return fl(r);
  });
  reg("t_Id", N, "", 't', [](const auto& in) {
    using T = TSC;
    tensor<N, T> r = tensor<N, T>::Id();
    return fl(r);
  });
  reg("t_rcg", N, "t", 's', [](const auto& in) {  // F^T F
    using T = TSC;
    stensor<N, T> r = computeRightCauchyGreenTensor(mk_t<N>(in[0]));
    return fl(r);
  });
  reg("t_lcg", N, "t", 's', [](const auto& in) {  // F F^T
    using T = TSC;
    stensor<N, T> r = computeLeftCauchyGreenTensor(mk_t<N>(in[0]));
    return fl(r);
  });
  reg("t_gl", N, "t", 's', [](const auto& in) {  // (F^T F - I)/2
    using T = TSC;
    stensor<N, T> r = computeGreenLagrangeTensor(mk_t<N>(in[0]));
    return fl(r);
  });
  reg("s_push_forward", N, "st", 's', [](const auto& in) {  // F s F^T
    using T = TSC;
    stensor<N, T> r = push_forward(mk_s<N>(in[0]), mk_t<N>(in[1]));
    return fl(r);
  });
  reg("t_matrix_view", N, "t", 'r', [](const auto& in) {  // operator()(i,j) of a tensor
    using T = TSC;
    const auto a = mk_t<N>(in[0]);
    V<T> r;
    for (unsigned short i = 0; i < 3; ++i)
      for (unsigned short j = 0; j < 3; ++j) r.push_back(a(i, j));
    return r;
  });
  reg("t_dot", N, "tt", 'x', [](const auto& in) {  // a | b
    using T = TSC;
    return V<T>{mk_t<N>(in[0]) | mk_t<N>(in[1])};
  });
  reg("t_otimes", N, "tt", 'B', [](const auto& in) {  // a ^ b
    using T = TSC;
    t2tot2<N, T> r = mk_t<N>(in[0]) ^ mk_t<N>(in[1]);
    return fl(r);
  }, 1);
}

template <unsigned short N>
void reg_st2tost2() {
  reg("A_mul", N, "AA", 'A', [](const auto& in) {
    using T = TSC;
    st2tost2<N, T> r = mk_A<N>(in[0]) * mk_A<N>(in[1]);
    return fl(r);
  }, N == 3 ? 1 : 0);  // 3D: executed in the quick tier, proved in the thorough tier
  reg("A_mul3", N, "AAA", 'A', [](const auto& in) {  // nested product expressions
    using T = TSC;
    st2tost2<N, T> r = mk_A<N>(in[0]) * mk_A<N>(in[1]) * mk_A<N>(in[2]);
    return fl(r);
  }, 1);
  reg("A_expr", N, "AAx", 'A', [](const auto& in) {
    using T = TSC;
    const auto a = mk_A<N>(in[0]);
    const auto b = mk_A<N>(in[1]);
    st2tost2<N, T> r = 2 * a - b / 3 + in[2][0] * (a * b);
    return fl(r);
  }, N == 3 ? 1 : 0);  // 3D: executed in the quick tier, proved in the thorough tier
  reg("A_apply", N, "As", 's', [](const auto& in) {  // C * s
    using T = TSC;
    stensor<N, T> r = mk_A<N>(in[0]) * mk_s<N>(in[1]);
    return fl(r);
  });
  reg("A_lapply", N, "sA", 's', [](const auto& in) {  // s * C  (s : C)
    using T = TSC;
    stensor<N, T> r = mk_s<N>(in[0]) * mk_A<N>(in[1]);
    return fl(r);
  });
  reg("s_otimes", N, "ss", 'A', [](const auto& in) {  // a ^ b
    using T = TSC;
    st2tost2<N, T> r = mk_s<N>(in[0]) ^ mk_s<N>(in[1]);
    return fl(r);
  }, N == 3 ? 1 : 0);  // 3D: executed in the quick tier, proved in the thorough tier
  reg("A_transpose", N, "A", 'A', [](const auto& in) {
    using T = TSC;
    const auto a = mk_A<N>(in[0]);
    st2tost2<N, T> r = transpose(a);
    return fl(r);
  }, N == 3 ? 1 : 0);  // 3D: executed in the quick tier, proved in the thorough tier
  reg("A_change_basis", N, "Ar", 'A', [](const auto& in) {
    using T = TSC;
    st2tost2<N, T> r = change_basis(mk_A<N>(in[0]), mk_r(in[1]));
    return fl(r);
  }, N == 3 ? 1 : 0);
  reg("A_push_forward", N, "At", 'A', [](const auto& in) {
    using T = TSC;
    st2tost2<N, T> r = push_forward(mk_A<N>(in[0]), mk_t<N>(in[1]));
    return fl(r);
  }, N == 3 ? 1 : 0);  // 3D: executed in the quick tier, proved in the thorough tier
  reg("A_fromRotationMatrix", N, "r", 'A', [](const auto& in) {
    using T = TSC;
    st2tost2<N, T> r = st2tost2<N, T>::fromRotationMatrix(mk_r(in[0]));
    return fl(r);
  }, N == 3 ? 1 : 0);  // 3D: executed in the quick tier, proved in the thorough tier
  reg("A_Id", N, "", 'A', [](const auto& in) { using T = TSC; return fl(st2tost2<N, T>(st2tost2<N, T>::Id())); });
  reg("A_IxI", N, "", 'A', [](const auto& in) { using T = TSC; return fl(st2tost2<N, T>(st2tost2<N, T>::IxI())); });
  reg("A_J", N, "", 'A', [](const auto& in) { using T = TSC; return fl(st2tost2<N, T>(st2tost2<N, T>::J())); });
  reg("A_K", N, "", 'A', [](const auto& in) { using T = TSC; return fl(st2tost2<N, T>(st2tost2<N, T>::K())); });
  reg("A_M", N, "", 'A', [](const auto& in) { using T = TSC; return fl(st2tost2<N, T>(st2tost2<N, T>::M())); });
  reg("A_convert", N, "C", 'A', [](const auto& in) {  // st2tost2::convert(t2tost2): restriction to symmetric arguments
    using T = TSC;
    st2tost2<N, T> r = st2tost2<N, T>::convert(mk_C<N>(in[0]));
    return fl(r);
  });
  reg("A_getComponent", N, "A", 'A', [](const auto& in) {  // getComponent(i,j,k,l) re-assembled in Mandel storage
    using T = TSC;
    const auto a = mk_A<N>(in[0]);
    static const unsigned short P[6][2] = {{0, 0}, {1, 1}, {2, 2}, {0, 1}, {0, 2}, {1, 2}};
    V<T> r;
    for (int I = 0; I < ssz(N); ++I)
      for (int J = 0; J < ssz(N); ++J) {
        T x = getComponent(a, P[I][0], P[I][1], P[J][0], P[J][1]);
        // the lower representative must give the same value
        T y = getComponent(a, P[I][1], P[I][0], P[J][1], P[J][0]);
        const T w = T((I > 2 ? Cste<T>::sqrt2 : T(1)) * (J > 2 ? Cste<T>::sqrt2 : T(1)));
        r.push_back((x + y) / 2 * w);
      }
    return r;
  }, N == 3 ? 1 : 0);  // 3D: executed in the quick tier, proved in the thorough tier
  reg("A_dsquare", N, "s", 'A', [](const auto& in) {  // d(s.s)/ds
    using T = TSC;
    st2tost2<N, T> r = st2tost2<N, T>::dsquare(mk_s<N>(in[0]));
    return fl(r);
  }, N == 3 ? 1 : 0);  // 3D: executed in the quick tier, proved in the thorough tier
  reg("A_stpd", N, "s", 'A', [](const auto& in) {  // d sym(a.b) / da at b
    using T = TSC;
    st2tost2<N, T> r = st2tost2<N, T>::stpd(mk_s<N>(in[0]));
    return fl(r);
  }, 1);
  reg("A_d2det", N, "s", 'A', [](const auto& in) {  // second derivative of det(s)
    using T = TSC;
    st2tost2<N, T> r = computeDeterminantSecondDerivative(mk_s<N>(in[0]));
    return fl(r);
  }, 1);
}

template <unsigned short N>
void reg_t2tot2() {
  reg("B_mul", N, "BB", 'B', [](const auto& in) {
    using T = TSC;
    t2tot2<N, T> r = mk_B<N>(in[0]) * mk_B<N>(in[1]);
    return fl(r);
  }, N == 3 ? 1 : 0);  // 3D: executed in the quick tier, proved in the thorough tier
  reg("B_expr", N, "BBx", 'B', [](const auto& in) {
    using T = TSC;
    const auto a = mk_B<N>(in[0]);
    const auto b = mk_B<N>(in[1]);
    t2tot2<N, T> r = 2 * a - b / 3 + in[2][0] * (a * b);
    return fl(r);
  }, 1);
  reg("B_apply", N, "Bt", 't', [](const auto& in) {
    using T = TSC;
    tensor<N, T> r = mk_B<N>(in[0]) * mk_t<N>(in[1]);
    return fl(r);
  });
  reg("B_lapply", N, "tB", 't', [](const auto& in) {
    using T = TSC;
    tensor<N, T> r = mk_t<N>(in[0]) * mk_B<N>(in[1]);
    return fl(r);
  });
  reg("B_change_basis", N, "Br", 'B', [](const auto& in) {
    using T = TSC;
    t2tot2<N, T> r = change_basis(mk_B<N>(in[0]), mk_r(in[1]));
    return fl(r);
  }, N == 3 ? 1 : 0);
  reg("B_fromRotationMatrix", N, "r", 'B', [](const auto& in) {
    using T = TSC;
    t2tot2<N, T> r = t2tot2<N, T>::fromRotationMatrix(mk_r(in[0]));
    return fl(r);
  }, N == 3 ? 1 : 0);  // 3D: executed in the quick tier, proved in the thorough tier
  reg("B_tpld", N, "t", 'B', [](const auto& in) {  // d(a.b)/da
    using T = TSC;
    t2tot2<N, T> r = t2tot2<N, T>::tpld(mk_t<N>(in[0]));
    return fl(r);
  }, N == 3 ? 1 : 0);  // 3D: executed in the quick tier, proved in the thorough tier
  reg("B_tprd", N, "t", 'B', [](const auto& in) {  // d(a.b)/db
    using T = TSC;
    t2tot2<N, T> r = t2tot2<N, T>::tprd(mk_t<N>(in[0]));
    return fl(r);
  }, N == 3 ? 1 : 0);  // 3D: executed in the quick tier, proved in the thorough tier
  reg("B_tpld2", N, "tB", 'B', [](const auto& in) {  // d(a.b)/da . C
    using T = TSC;
    t2tot2<N, T> r = t2tot2<N, T>::tpld(mk_t<N>(in[0]), mk_B<N>(in[1]));
    return fl(r);
  }, 1);
  reg("B_tprd2", N, "tB", 'B', [](const auto& in) {
    using T = TSC;
    t2tot2<N, T> r = t2tot2<N, T>::tprd(mk_t<N>(in[0]), mk_B<N>(in[1]));
    return fl(r);
  }, 1);
  reg("B_Id", N, "", 'B', [](const auto& in) { using T = TSC; return fl(t2tot2<N, T>(t2tot2<N, T>::Id())); });
  reg("B_IxI", N, "", 'B', [](const auto& in) { using T = TSC; return fl(t2tot2<N, T>(t2tot2<N, T>::IxI())); });
  reg("B_K", N, "", 'B', [](const auto& in) { using T = TSC; return fl(t2tot2<N, T>(t2tot2<N, T>::K())); });
  reg("B_transpose_derivative", N, "", 'B', [](const auto& in) {
    using T = TSC;
    return fl(t2tot2<N, T>(t2tot2<N, T>::transpose_derivative()));
  });
  reg("B_convert", N, "C", 'B', [](const auto& in) {  // t2tot2(t2tost2): symmetric values seen as tensors
    using T = TSC;
    t2tot2<N, T> r(mk_C<N>(in[0]));
    return fl(r);
  }, N == 3 ? 1 : 0);  // 3D: executed in the quick tier, proved in the thorough tier
  reg("B_d2det", N, "t", 'B', [](const auto& in) {
    using T = TSC;
    t2tot2<N, T> r = computeDeterminantSecondDerivative(mk_t<N>(in[0]));
    return fl(r);
  }, 1);
}

template <unsigned short N>
void reg_mixed() {
  reg("C_apply", N, "Ct", 's', [](const auto& in) {
    using T = TSC;
    stensor<N, T> r = mk_C<N>(in[0]) * mk_t<N>(in[1]);
    return fl(r);
  });
  reg("D_apply", N, "Ds", 't', [](const auto& in) {
    using T = TSC;
    tensor<N, T> r = mk_D<N>(in[0]) * mk_s<N>(in[1]);
    return fl(r);
  });
  reg("AC_mul", N, "AC", 'C', [](const auto& in) {
    using T = TSC;
    t2tost2<N, T> r = mk_A<N>(in[0]) * mk_C<N>(in[1]);
    return fl(r);
  }, N == 3 ? 1 : 0);  // 3D: executed in the quick tier, proved in the thorough tier
  reg("CB_mul", N, "CB", 'C', [](const auto& in) {
    using T = TSC;
    t2tost2<N, T> r = mk_C<N>(in[0]) * mk_B<N>(in[1]);
    return fl(r);
  }, N == 3 ? 1 : 0);  // 3D: executed in the quick tier, proved in the thorough tier
  reg("CD_mul", N, "CD", 'A', [](const auto& in) {
    using T = TSC;
    st2tost2<N, T> r = mk_C<N>(in[0]) * mk_D<N>(in[1]);
    return fl(r);
  }, N == 3 ? 1 : 0);  // 3D: executed in the quick tier, proved in the thorough tier
  reg("DC_mul", N, "DC", 'B', [](const auto& in) {
    using T = TSC;
    t2tot2<N, T> r = mk_D<N>(in[0]) * mk_C<N>(in[1]);
    return fl(r);
  }, N == 3 ? 1 : 0);
  reg("DA_mul", N, "DA", 'D', [](const auto& in) {
    using T = TSC;
    st2tot2<N, T> r = mk_D<N>(in[0]) * mk_A<N>(in[1]);
    return fl(r);
  }, N == 3 ? 1 : 0);  // 3D: executed in the quick tier, proved in the thorough tier
  reg("BD_mul", N, "BD", 'D', [](const auto& in) {
    using T = TSC;
    st2tot2<N, T> r = mk_B<N>(in[0]) * mk_D<N>(in[1]);
    return fl(r);
  }, N == 3 ? 1 : 0);
  reg("C_change_basis", N, "Cr", 'C', [](const auto& in) {
    using T = TSC;
    t2tost2<N, T> r = change_basis(mk_C<N>(in[0]), mk_r(in[1]));
    return fl(r);
  }, 1);
  reg("C_dCdF", N, "t", 'C', [](const auto& in) {  // d(F^T F)/dF
    using T = TSC;
    t2tost2<N, T> r = t2tost2<N, T>::dCdF(mk_t<N>(in[0]));
    return fl(r);
  }, N == 3 ? 1 : 0);  // 3D: executed in the quick tier, proved in the thorough tier
  reg("C_dBdF", N, "t", 'C', [](const auto& in) {  // d(F F^T)/dF
    using T = TSC;
    t2tost2<N, T> r = t2tost2<N, T>::dBdF(mk_t<N>(in[0]));
    return fl(r);
  }, N == 3 ? 1 : 0);  // 3D: executed in the quick tier, proved in the thorough tier
  reg("C_convertToT2toST2", N, "B", 'C', [](const auto& in) {  // symmetric part of the values
    using T = TSC;
    t2tost2<N, T> r = convertToT2toST2(mk_B<N>(in[0]));
    return fl(r);
  }, N == 3 ? 1 : 0);  // 3D: executed in the quick tier, proved in the thorough tier
  reg("D_tpld", N, "s", 'D', [](const auto& in) {  // d(a.b)/da restricted to symmetric a, at symmetric b
    using T = TSC;
    st2tot2<N, T> r = st2tot2<N, T>::tpld(mk_s<N>(in[0]));
    return fl(r);
  }, N == 3 ? 1 : 0);  // 3D: executed in the quick tier, proved in the thorough tier
  reg("D_tprd", N, "s", 'D', [](const auto& in) {
    using T = TSC;
    st2tot2<N, T> r = st2tot2<N, T>::tprd(mk_s<N>(in[0]));
    return fl(r);
  }, N == 3 ? 1 : 0);  // 3D: executed in the quick tier, proved in the thorough tier
}

#if TT_GROUP == 4
// F = R0 U0 with structured stretches; the second input becomes what the REAL eigen-solver returns for F^T F
template <unsigned short N>
void polar_prep(In<double>& in, symv::Rng& rng, int s) {
  auto& f = in[0];
  if constexpr (N == 1) {
    for (int i = 0; i < 3; ++i) f[i] = rng.range(0.05, 3.);
  } else {
    // rotation: about z (2D) or composed (3D)
    tmatrix<3u, 3u, double> r = tmatrix<3u, 3u, double>::Id();
    auto rot = [&](int a, int b, double th) {
      tmatrix<3u, 3u, double> q = tmatrix<3u, 3u, double>::Id();
      q(a, a) = std::cos(th); q(b, b) = std::cos(th); q(a, b) = -std::sin(th); q(b, a) = std::sin(th);
      const tmatrix<3u, 3u, double> t = r * q;  // (no aliasing in the expression templates)
      r = t;
    };
    const int kind = s % 6;
    if (kind != 1) {  // kind 1: F symmetric positive (R = I)
      rot(0, 1, rng.range(-3.1, 3.1));
      if (N == 3) { rot(1, 2, rng.range(-3.1, 3.1)); rot(0, 2, rng.range(-3.1, 3.1)); }
    }
    double u[3] = {rng.range(0.3, 3.), rng.range(0.3, 3.), rng.range(0.3, 3.)};
    if (kind == 0) u[0] = u[1] = u[2] = 1;             // F = rotation
    if (kind == 2) u[rng.below(N == 3 ? 3 : 2)] = 0.02;  // nearly singular stretch
    if (kind == 3) u[1] = u[0];                        // two equal stretches
    // U0 = Q diag(u) Q^T
    tmatrix<3u, 3u, double> q = tmatrix<3u, 3u, double>::Id(), saved = r;
    r = q;
    if (kind != 4) {  // kind 4: U0 diagonal
      rot(0, 1, rng.range(-3.1, 3.1));
      if (N == 3) { rot(0, 2, rng.range(-3.1, 3.1)); rot(1, 2, rng.range(-3.1, 3.1)); }
    }
    q = r;
    r = saved;
    tmatrix<3u, 3u, double> F(0.);
    for (int i = 0; i < 3; ++i)
      for (int j = 0; j < 3; ++j)
        for (int k = 0; k < 3; ++k)
          for (int l = 0; l < 3; ++l) F(i, j) += r(i, k) * q(k, l) * u[l] * q(j, l);
    static const int P[9][2] = {{0, 0}, {1, 1}, {2, 2}, {0, 1}, {1, 0}, {0, 2}, {2, 0}, {1, 2}, {2, 1}};
    for (int k = 0; k < tsz(N); ++k) f[k] = F(P[k][0], P[k][1]);
  }
  const auto C = computeRightCauchyGreenTensor(mk_t<N>(f));
  const auto vp = C.computeEigenValues();
  for (int i = 0; i < 3; ++i) in[1][i] = vp[i];
}

template <unsigned short N>
void reg_ext() {
  // ---- polar decomposition F = R U (eigenvalues of F^T F injected for Sym, see above)
  static const char* HP = "polar_den $N (full_v $N b) <> 0";
  reg("t_polar_U", N, "tv", 's', [](const auto& in) {
    using T = TSC;
    inject_vp<T>(in[1]);
    tensor<N, T> R;
    stensor<N, T> U;
    polar_decomposition(R, U, mk_t<N>(in[0]));
    return fl(U);
  }, 0, HP);
  set_prep(polar_prep<N>);
  reg("t_polar_R", N, "tv", 't', [](const auto& in) {
    using T = TSC;
    inject_vp<T>(in[1]);
    tensor<N, T> R;
    stensor<N, T> U;
    polar_decomposition(R, U, mk_t<N>(in[0]));
    return fl(R);
  }, N == 3 ? 1 : 0, HP);
  set_prep(polar_prep<N>);
  // ---- remaining products / dyadic products / linear combinations of the mixed kinds
  reg("C_lapply", N, "sC", 't', [](const auto& in) {  // s | C  (s : C, a tensor)
    using T = TSC;
    tensor<N, T> r = mk_s<N>(in[0]) | mk_C<N>(in[1]);
    return fl(r);
  });
  reg("D_lapply", N, "tD", 's', [](const auto& in) {  // t | D  (t : D, a symmetric tensor)
    using T = TSC;
    stensor<N, T> r = mk_t<N>(in[0]) | mk_D<N>(in[1]);
    return fl(r);
  });
  reg("st_otimes", N, "st", 'C', [](const auto& in) {  // s ^ t
    using T = TSC;
    t2tost2<N, T> r = mk_s<N>(in[0]) ^ mk_t<N>(in[1]);
    return fl(r);
  }, N == 3 ? 1 : 0);  // 3D: executed in the quick tier, proved in the thorough tier
  reg("ts_otimes", N, "ts", 'D', [](const auto& in) {  // t ^ s
    using T = TSC;
    st2tot2<N, T> r = mk_t<N>(in[0]) ^ mk_s<N>(in[1]);
    return fl(r);
  }, N == 3 ? 1 : 0);  // 3D: executed in the quick tier, proved in the thorough tier
  reg("C_expr", N, "CCx", 'C', [](const auto& in) {
    using T = TSC;
    const auto a = mk_C<N>(in[0]);
    const auto b = mk_C<N>(in[1]);
    t2tost2<N, T> r = 2 * a - b / 3 + in[2][0] * (-a);
    return fl(r);
  }, N == 3 ? 1 : 0);  // 3D: executed in the quick tier, proved in the thorough tier
  reg("D_expr", N, "DDx", 'D', [](const auto& in) {
    using T = TSC;
    const auto a = mk_D<N>(in[0]);
    const auto b = mk_D<N>(in[1]);
    st2tot2<N, T> r = 2 * a - b / 3 + in[2][0] * (-a);
    return fl(r);
  }, N == 3 ? 1 : 0);  // 3D: executed in the quick tier, proved in the thorough tier
  reg("A_dsquare2", N, "sA", 'A', [](const auto& in) {  // d(s.s)/ds . C
    using T = TSC;
    st2tost2<N, T> r = st2tost2<N, T>::dsquare(mk_s<N>(in[0]), mk_A<N>(in[1]));
    return fl(r);
  }, N == 3 ? 1 : 0);
  reg("D_tpld2", N, "sA", 'D', [](const auto& in) {  // d(a.b)/da (symmetric a, at symmetric b) . C
    using T = TSC;
    st2tot2<N, T> r = st2tot2<N, T>::tpld(mk_s<N>(in[0]), mk_A<N>(in[1]));
    return fl(r);
  }, N == 3 ? 1 : 0);
  reg("D_tprd2", N, "sA", 'D', [](const auto& in) {
    using T = TSC;
    st2tot2<N, T> r = st2tot2<N, T>::tprd(mk_s<N>(in[0]), mk_A<N>(in[1]));
    return fl(r);
  }, N == 3 ? 1 : 0);
  reg("A_dev_d2det", N, "s", 'A', [](const auto& in) {  // second derivative of det(dev s) w.r.t. s
    using T = TSC;
    st2tost2<N, T> r = computeDeviatorDeterminantSecondDerivative(mk_s<N>(in[0]));
    return fl(r);
  }, 1);
  reg("A_pull_back", N, "At", 'A', [](const auto& in) {  // push_forward by F^-1
    using T = TSC;
    st2tost2<N, T> r = pull_back(mk_A<N>(in[0]), mk_t<N>(in[1]));
    return fl(r);
  }, 1, "det2 (full_t $N b) <> 0", false);  // execution only (= push_forward of invert, both proved for all N; the generic closing tactic does not end on the composition)
  // ---- invert / det of fourth-order tensors: TinyMatrixInvert / LU with partial pivoting (comparisons: not traceable as one
  // expression; the pivoting paths of TinyMatrixInvert<1,2,3> are proved under C07).  Double only: executed against the
  // exact rational inverse / determinant (specnum.py, fractions) on well-conditioned matrices
  auto shift = [](In<double>& in, symv::Rng& rng, int) {
    const int n = static_cast<int>(std::lround(std::sqrt(double(in[0].size()))));
    double m = 0;
    for (double x : in[0]) m = std::max(m, std::fabs(x));
    for (int i = 0; i < n; ++i) in[0][i * n + i] += (rng.below(2) ? 1 : -1) * (n + 1) * m;  // diagonally dominant
  };
  reg("A_invert", N, "A", 'A', [](const auto& in) {
    using T = TSC;
    if constexpr (std::is_same_v<T, double>) {
      st2tost2<N, T> r = invert(mk_A<N>(in[0]));
      return fl(r);
    } else {
      return V<T>{};
    }
  }, 8, "", false);
  set_prep(shift);
  reg("A_invert_rt", N, "A", 'A', [](const auto& in) {  // A * invert(A) = Id (symmetric identity)
    using T = TSC;
    if constexpr (std::is_same_v<T, double>) {
      const auto a = mk_A<N>(in[0]);
      st2tost2<N, T> r = a * invert(a);
      return fl(r);
    } else {
      return V<T>{};
    }
  }, 8, "", false);
  set_prep(shift);
  reg("A_det", N, "A", 'x', [](const auto& in) {
    using T = TSC;
    if constexpr (std::is_same_v<T, double>) return V<T>{det(mk_A<N>(in[0]))};
    else return V<T>{};
  }, 8, "", false);
  reg("B_det", N, "B", 'x', [](const auto& in) {
    using T = TSC;
    if constexpr (std::is_same_v<T, double>) return V<T>{det(mk_B<N>(in[0]))};
    else return V<T>{};
  }, 8, "", false);
  reg("t_fromFortran", N, "m", 't', [](const auto& in) {  // tensor::buildFromFortranMatrix (column-major 3x3)
    using T = TSC;
    T p[9];
    for (int i = 0; i < 9; ++i) p[i] = in[0][i];
    tensor<N, T> r = tensor<N, T>::buildFromFortranMatrix(p);
    return fl(r);
  });
}
#endif

int main(int argc, char** argv) {
#if TT_GROUP == 0
  reg_tensor<TT_N>();
#elif TT_GROUP == 1
  reg_st2tost2<TT_N>();
#elif TT_GROUP == 2
  reg_t2tot2<TT_N>();
#elif TT_GROUP == 3
  reg_mixed<TT_N>();
#else
  reg_ext<TT_N>();
#endif
  return tracer_main(argc, argv, "Require Import TensorIndex TensorTactics C02Spec.\n");
}

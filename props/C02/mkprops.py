#!/usr/bin/env python3
"""Regenerates the (committed) Properties_*.v files from the operation registry:
   (for every group G, dimension N:  echo GROUP G; ./trace_gG_nN list) | mkprops.py <ID> <imports...>
Each theorem only restates generated lemmas (exact ...).  C02: one file per group for the quick-tier theorems (compiled in
parallel, each importing the generated modules of its group only)."""
import sys, collections
pid = sys.argv[1]
mods = sys.argv[2:]
ops = collections.OrderedDict()
group_of = {}
cur = 0
for l in sys.stdin:
    t = l.split()
    if t and t[0] == "GROUP":
        cur = int(t[1])
    if t and t[0] == "OP":
        ops.setdefault(t[1], []).append((int(t[2]), "" if t[3] == "-" else t[3], t[4], int(t[5]), " ".join(t[6:])))
        group_of[t[1]] = cur
def stmt(name, N, kin, kout, hyp):
    ls = " ".join("abcdefgh"[k] for k in range(len(kin)))
    Ns = "%d%%nat" % N
    s = "flat_%s %s (spec_%s %s%s)" % (kout, Ns, name, Ns, "".join(" (full_%s %s %s)" % (k, Ns, "abcdefgh"[i]) for i, k in enumerate(kin)))
    h = (hyp.replace("$N", Ns) + " -> ") if hyp else ""
    return "(%s%s_%d%s = %s)" % (h, name, N, (" " + ls) if ls else "", s), ls
def emit(fn, sel, title, extra_imports="", mods=mods):
    out = ["(* %s -- %s (statements only; every proof is `exact` of lemmas generated and proved per component).\n   Regenerate with mkprops.py when the operation registry of trace.cxx changes. *)" % (pid, title),
           "From Coq Require Import Reals List.", "Require Import TensorIndex %sSpec %s." % (pid, " ".join(mods)), extra_imports,
           "Import ListNotations.", "Local Open Scope R_scope.", ""]
    n = 0
    for name, insts in ops.items():
        insts = [i for i in insts if sel(name, i)]
        if not insts:
            continue
        parts, proofs = [], []
        ls = ""
        for (N, kin, kout, tier, hyp) in sorted(insts):
            st, ls = stmt(name, N, kin, kout, hyp)
            parts.append(st)
            proofs.append("%s_%d_ok%s" % (name, N, (" " + ls) if ls else ""))
        q = ("forall %s : nat -> R,\n  " % ls) if ls else ""
        thm = "%s_%s" % (pid, name)
        body = " /\\\n  ".join(parts)
        def conj(ps):
            return "(%s)" % ps[0] if len(ps) == 1 else "(conj (%s) %s)" % (ps[0], conj(ps[1:])) if len(ps) > 2 else "(conj (%s) (%s))" % (ps[0], ps[1])
        out.append("Theorem %s : %s%s.\nProof. %sexact %s. Qed.\nPrint Assumptions %s.\n" % (thm + fn[1], q, body, ("intros %s; " % ls) if ls else "", conj(proofs), thm + fn[1]))
        n += 1
    open(fn[0], "w").write("\n".join(out))
    print(fn[0], n, "theorems")
if pid == "C02":
    for g in sorted(set(group_of.values())):
        emit(("coq/Properties_C02_g%d.v" % g, ""), lambda n, i: i[3] == 0 and n != "A_convert" and group_of[n] == g,
             "tensor algebra = index notation, core set (quick and thorough tiers), group %d of trace.cxx" % g,
             mods=[m for m in mods if ("_g%d_" % g) in m])
    for g in sorted(set(group_of.values())):
        emit(("coq/Properties_C02_full_g%d.v" % g, "_full"), lambda n, i: i[3] == 1 and n not in ("A_convert", "B_d2det") and group_of[n] == g,
             "remaining (expensive) instances, thorough tier, group %d of trace.cxx" % g, mods=[m for m in mods if ("_g%d_" % g) in m])
    # (the committed file imports only the three modules that hold B_d2det_N)
    emit(("coq/Properties_C02_d2det.v", "_full"), lambda n, i: n == "B_d2det", "computeDeterminantSecondDerivative(tensor) (thorough tier, used when the finding shared with C06 is absent)",
         mods=[m for m in mods if "_g2_" in m])
    emit(("coq/Properties_C02_convert.v", ""), lambda n, i: n == "A_convert", "st2tost2::convert (used when finding F22 is absent)",
         mods=[m for m in mods if "_g1_" in m])
else:
    F23 = "DS_DF_from_DS_DEGL"
    emit(("coq/Properties_%s.v" % pid, ""), lambda n, i: i[3] == 0 and n != F23, "traced conversions = chain-rule formulas in index notation, core set")
    emit(("coq/Properties_%s_full.v" % pid, "_full"), lambda n, i: i[3] == 1 and n != F23, "remaining (expensive) instances, thorough tier")
    emit(("coq/Properties_%s_dsdf.v" % pid, ""), lambda n, i: n == F23, "DS_DF <- DS_DEGL (used when finding F23 is absent)")

"""Numerical version of the index-notation specification (coq/TensorIndex.v, coq/C02Spec.v, C23's coq/C23Spec.v),
written independently of /repo's code; used only to find a concrete failing input of the REAL double code when a
proof obligation or the tracing breaks (and, on every run, as a cross-check of all traced operations)."""
import math

R3 = range(3)
SQ2 = math.sqrt(2.0)
P9 = [(0, 0), (1, 1), (2, 2), (0, 1), (1, 0), (0, 2), (2, 0), (1, 2), (2, 1)]
P6 = [(0, 0), (1, 1), (2, 2), (0, 1), (0, 2), (1, 2)]
IDX9 = {p: k for k, p in enumerate(P9)}
IDX6 = {}
for k, (i, j) in enumerate(P6):
    IDX6[(i, j)] = k
    IDX6[(j, i)] = k


def tsize(N): return {1: 3, 2: 5, 3: 9}[N]
def ssize(N): return {1: 3, 2: 4, 3: 6}[N]
def w(i, j): return 1.0 if i == j else SQ2
def delta(i, j): return 1.0 if i == j else 0.0


def eps(i, j, k):
    return float((i - j) * (j - k) * (k - i)) / 2.0


def Z2(): return [[0.0] * 3 for _ in R3]
def Z4(): return [[[[0.0] * 3 for _ in R3] for _ in R3] for _ in R3]


def M2(f): return [[f(i, j) for j in R3] for i in R3]
def M4(f): return [[[[f(i, j, k, l) for l in R3] for k in R3] for j in R3] for i in R3]


# ---- meaning of storage vectors
def full(kind, N, v):
    ts, ss = tsize(N), ssize(N)
    if kind == 'x':
        return v[0]
    if kind == 't':
        return M2(lambda i, j: v[IDX9[i, j]] if IDX9[i, j] < ts else 0.0)
    if kind == 's':
        return M2(lambda i, j: v[IDX6[i, j]] / w(i, j) if IDX6[i, j] < ss else 0.0)
    if kind == 'r':
        if N == 1:
            return M2(delta)
        if N == 2:
            return M2(lambda i, j: v[3 * i + j] if (i < 2 and j < 2) else delta(i, j))
        return M2(lambda i, j: v[3 * i + j])
    if kind == 'v':
        return list(v)
    if kind == 'm':
        return M2(lambda i, j: v[3 * i + j])
    if kind == 'A':
        return M4(lambda i, j, k, l: v[IDX6[i, j] * ss + IDX6[k, l]] / (w(i, j) * w(k, l)) if (IDX6[i, j] < ss and IDX6[k, l] < ss) else 0.0)
    if kind == 'B':
        return M4(lambda i, j, k, l: v[IDX9[i, j] * ts + IDX9[k, l]] if (IDX9[i, j] < ts and IDX9[k, l] < ts) else 0.0)
    if kind == 'C':
        return M4(lambda i, j, k, l: v[IDX6[i, j] * ts + IDX9[k, l]] / w(i, j) if (IDX6[i, j] < ss and IDX9[k, l] < ts) else 0.0)
    if kind == 'D':
        return M4(lambda i, j, k, l: v[IDX9[i, j] * ss + IDX6[k, l]] / w(k, l) if (IDX9[i, j] < ts and IDX6[k, l] < ss) else 0.0)
    raise ValueError(kind)


def flat(kind, N, m):
    if isinstance(m, Stored):
        return list(m)
    ts, ss = tsize(N), ssize(N)
    if kind == 'x':
        return [m]
    if kind == 't':
        return [m[i][j] for (i, j) in P9[:ts]]
    if kind == 's':
        return [m[i][j] * w(i, j) for (i, j) in P6[:ss]]
    if kind == 'r':
        return [m[i][j] for i in R3 for j in R3]
    rows, cols, wr, wc = {'A': (P6[:ss], P6[:ss], 1, 1), 'B': (P9[:ts], P9[:ts], 0, 0),
                          'C': (P6[:ss], P9[:ts], 1, 0), 'D': (P9[:ts], P6[:ss], 0, 1)}[kind]
    return [m[i][j][k][l] * (w(i, j) if wr else 1.0) * (w(k, l) if wc else 1.0) for (i, j) in rows for (k, l) in cols]


# ---- index notation, second order
Id2 = M2(delta)
def add2(a, b): return M2(lambda i, j: a[i][j] + b[i][j])
def sub2(a, b): return M2(lambda i, j: a[i][j] - b[i][j])
def scal2(x, a): return M2(lambda i, j: x * a[i][j])
def mul2(a, b): return M2(lambda i, j: sum(a[i][k] * b[k][j] for k in R3))
def tr2(a): return M2(lambda i, j: a[j][i])
def trace2(a): return sum(a[i][i] for i in R3)
def sym2(a): return M2(lambda i, j: (a[i][j] + a[j][i]) / 2)
def dot2(a, b): return sum(a[i][j] * b[i][j] for i in R3 for j in R3)
def det2(a): return sum(eps(i, j, k) * a[0][i] * a[1][j] * a[2][k] for i in R3 for j in R3 for k in R3)
def cof2(a): return M2(lambda i, j: sum(eps(i, p, q) * eps(j, r, s) * a[p][r] * a[q][s] for p in R3 for q in R3 for r in R3 for s in R3) / 2)
def inv2(a):
    d = det2(a); c = cof2(a)
    return M2(lambda i, j: c[j][i] / d)
def rot2(r, a): return M2(lambda i, j: sum(r[m][i] * r[n][j] * a[m][n] for m in R3 for n in R3))
def pf2(F, a): return M2(lambda i, j: sum(F[i][m] * F[j][n] * a[m][n] for m in R3 for n in R3))

# ---- fourth order
def add4(a, b): return M4(lambda i, j, k, l: a[i][j][k][l] + b[i][j][k][l])
def sub4(a, b): return M4(lambda i, j, k, l: a[i][j][k][l] - b[i][j][k][l])
def scal4(x, a): return M4(lambda i, j, k, l: x * a[i][j][k][l])
def mul44(a, b): return M4(lambda i, j, k, l: sum(a[i][j][m][n] * b[m][n][k][l] for m in R3 for n in R3))
def mul42(a, b): return M2(lambda i, j: sum(a[i][j][k][l] * b[k][l] for k in R3 for l in R3))
def mul24(a, b): return M2(lambda k, l: sum(a[i][j] * b[i][j][k][l] for i in R3 for j in R3))
def otimes(a, b): return M4(lambda i, j, k, l: a[i][j] * b[k][l])
def tr4(a): return M4(lambda i, j, k, l: a[k][l][i][j])
Id4 = M4(lambda i, j, k, l: delta(i, k) * delta(j, l))
IdT4 = M4(lambda i, j, k, l: delta(i, l) * delta(j, k))
IdS4 = M4(lambda i, j, k, l: (delta(i, k) * delta(j, l) + delta(i, l) * delta(j, k)) / 2)
IxI4 = M4(lambda i, j, k, l: delta(i, j) * delta(k, l))
def symL(a): return M4(lambda i, j, k, l: (a[i][j][k][l] + a[j][i][k][l]) / 2)
def symR(a): return M4(lambda i, j, k, l: (a[i][j][k][l] + a[i][j][l][k]) / 2)
def Rot4(r): return M4(lambda i, j, k, l: r[k][i] * r[l][j])
def rot4(r, c): return M4(lambda i, j, k, l: sum(r[m][i] * r[n][j] * r[p][k] * r[q][l] * c[m][n][p][q] for m in R3 for n in R3 for p in R3 for q in R3))
def pf4(F, c): return M4(lambda i, j, k, l: sum(F[i][m] * F[j][n] * F[k][p] * F[l][q] * c[m][n][p][q] for m in R3 for n in R3 for p in R3 for q in R3))
def tpld4(b): return M4(lambda i, j, k, l: delta(i, k) * b[l][j])
def tprd4(a): return M4(lambda i, j, k, l: a[i][k] * delta(j, l))
def d2det4(a): return M4(lambda i, j, k, l: sum(eps(i, k, m) * eps(j, l, n) * a[m][n] for m in R3 for n in R3))
def expr2(a, b, x): return add2(sub2(scal2(2, a), scal2(1 / 3, b)), scal2(x, mul2(a, b)))
def expr4(a, b, x): return add4(sub4(scal4(2, a), scal4(1 / 3, b)), scal4(x, mul44(a, b)))
K4S = sub4(IdS4, scal4(1 / 3, IxI4))
def dev2(s): return sub2(s, scal2(trace2(s) / 3, Id2))


def polar(F):
    """polar decomposition F = R U by the Newton iteration R <- (R + R^-T)/2 (no eigen-solver): (R, U = R^T F)"""
    R = [row[:] for row in F]
    for _ in range(200):
        iRt = tr2(inv2(R))
        Rn = M2(lambda i, j: (R[i][j] + iRt[i][j]) / 2)
        d = max(abs(Rn[i][j] - R[i][j]) for i in R3 for j in R3)
        R = Rn
        if d < 1e-15:
            break
    return R, mul2(tr2(R), F)

def _frac_lu(v, n):
    """exact (rational) Gauss-Jordan on the n x n matrix stored row-major in v: (inverse rows, determinant)"""
    from fractions import Fraction
    a = [[Fraction(v[i * n + j]) for j in range(n)] + [Fraction(int(i == j)) for j in range(n)] for i in range(n)]
    d = Fraction(1)
    for c in range(n):
        p = next((r for r in range(c, n) if a[r][c] != 0), None)
        if p is None:
            return None, Fraction(0)
        if p != c:
            a[c], a[p] = a[p], a[c]
            d = -d
        d *= a[c][c]
        piv = a[c][c]
        a[c] = [x / piv for x in a[c]]
        for r in range(n):
            if r != c and a[r][c] != 0:
                f = a[r][c]
                a[r] = [x - f * y for x, y in zip(a[r], a[c])]
    return [row[n:] for row in a], d


class Stored(list):
    """a result given directly as a storage vector (flat() returns it unchanged)"""


def inv_stored(v):
    n = int(round(math.sqrt(len(v))))
    inv, _ = _frac_lu(v, n)
    return Stored(float(x) for row in inv for x in row)


def det_stored(v):
    n = int(round(math.sqrt(len(v))))
    return float(_frac_lu(v, n)[1])


SPEC = {
    't_mul': lambda N, a, b: mul2(a, b),
    't_expr': lambda N, a, b, x: expr2(a, b, x),
    't_transpose': lambda N, a: tr2(a),
    't_trace': lambda N, a: trace2(a),
    't_det': lambda N, a: det2(a),
    't_invert': lambda N, a: inv2(a),
    't_ddet': lambda N, a: cof2(a),
    't_change_basis': lambda N, a, r: rot2(r, a),
    't_changeBasis': lambda N, a, r: rot2(r, a),
    't_syme': lambda N, a: sym2(a),
    't_unsyme': lambda N, s: s,
    't_Id': lambda N: Id2,
    't_rcg': lambda N, F: mul2(tr2(F), F),
    't_lcg': lambda N, F: mul2(F, tr2(F)),
    't_gl': lambda N, F: scal2(0.5, sub2(mul2(tr2(F), F), Id2)),
    's_push_forward': lambda N, s, F: pf2(F, s),
    't_matrix_view': lambda N, a: a,
    't_dot': lambda N, a, b: dot2(a, b),
    't_otimes': lambda N, a, b: otimes(a, b),
    'A_mul': lambda N, a, b: mul44(a, b),
    'A_mul3': lambda N, a, b, c: mul44(mul44(a, b), c),
    'A_expr': lambda N, a, b, x: expr4(a, b, x),
    'A_apply': lambda N, c, s: mul42(c, s),
    'A_lapply': lambda N, s, c: mul24(s, c),
    's_otimes': lambda N, a, b: otimes(a, b),
    'A_transpose': lambda N, a: tr4(a),
    'A_change_basis': lambda N, c, r: rot4(r, c),
    'A_push_forward': lambda N, c, F: pf4(F, c),
    'A_fromRotationMatrix': lambda N, r: symR(Rot4(r)),
    'A_Id': lambda N: IdS4,
    'A_IxI': lambda N: IxI4,
    'A_J': lambda N: scal4(1 / 3, IxI4),
    'A_K': lambda N: K4S,
    'A_M': lambda N: scal4(1.5, K4S),
    'A_convert': lambda N, c: symR(c),
    'A_getComponent': lambda N, a: M4(lambda i, j, k, l: (a[i][j][k][l] + a[j][i][l][k]) / 2),
    'A_dsquare': lambda N, s: symR(add4(tpld4(s), tprd4(s))),
    'A_stpd': lambda N, b: symR(add4(tpld4(b), tprd4(b))),
    'A_d2det': lambda N, s: symL(symR(d2det4(s))),
    'B_mul': lambda N, a, b: mul44(a, b),
    'B_expr': lambda N, a, b, x: expr4(a, b, x),
    'B_apply': lambda N, c, t: mul42(c, t),
    'B_lapply': lambda N, t, c: mul24(t, c),
    'B_change_basis': lambda N, c, r: rot4(r, c),
    'B_fromRotationMatrix': lambda N, r: Rot4(r),
    'B_tpld': lambda N, b: tpld4(b),
    'B_tprd': lambda N, a: tprd4(a),
    'B_tpld2': lambda N, b, c: mul44(tpld4(b), c),
    'B_tprd2': lambda N, a, c: mul44(tprd4(a), c),
    'B_Id': lambda N: Id4,
    'B_IxI': lambda N: IxI4,
    'B_K': lambda N: sub4(Id4, scal4(1 / 3, IxI4)),
    'B_transpose_derivative': lambda N: IdT4,
    'B_convert': lambda N, c: c,
    'B_d2det': lambda N, t: d2det4(t),
    'C_apply': lambda N, c, t: mul42(c, t),
    'D_apply': lambda N, c, s: mul42(c, s),
    'AC_mul': lambda N, a, b: mul44(a, b),
    'CB_mul': lambda N, a, b: mul44(a, b),
    'CD_mul': lambda N, a, b: mul44(a, b),
    'DC_mul': lambda N, a, b: mul44(a, b),
    'DA_mul': lambda N, a, b: mul44(a, b),
    'BD_mul': lambda N, a, b: mul44(a, b),
    'C_change_basis': lambda N, c, r: rot4(r, c),
    'C_dCdF': lambda N, F: M4(lambda i, j, k, l: delta(i, l) * F[k][j] + F[k][i] * delta(j, l)),
    'C_dBdF': lambda N, F: M4(lambda i, j, k, l: delta(i, k) * F[j][l] + F[i][l] * delta(j, k)),
    'C_convertToT2toST2': lambda N, b: symL(b),
    'D_tpld': lambda N, b: symR(tpld4(b)),
    'D_tprd': lambda N, a: symR(tprd4(a)),
    # extensions (round 4)
    'C_lapply': lambda N, s, c: mul24(s, c),
    'D_lapply': lambda N, t, c: mul24(t, c),
    'st_otimes': lambda N, a, b: otimes(a, b),
    'ts_otimes': lambda N, a, b: otimes(a, b),
    'C_expr': lambda N, a, b, x: add4(sub4(scal4(2, a), scal4(1 / 3, b)), scal4(-x, a)),
    'D_expr': lambda N, a, b, x: add4(sub4(scal4(2, a), scal4(1 / 3, b)), scal4(-x, a)),
    'A_dsquare2': lambda N, s, c: mul44(symR(add4(tpld4(s), tprd4(s))), c),
    'D_tpld2': lambda N, b, c: mul44(symR(tpld4(b)), c),
    'D_tprd2': lambda N, a, c: mul44(symR(tprd4(a)), c),
    'A_dev_d2det': lambda N, s: mul44(mul44(K4S, symL(symR(d2det4(dev2(s))))), K4S),  # (Coq: the same through devL/devR)
    'A_pull_back': lambda N, c, F: pf4(inv2(F), c),
    't_fromFortran': lambda N, m: tr2(m),
    # invert / det of fourth-order tensors: the inverse of a linear map on (symmetric) tensors is the inverse of its matrix
    # on the Mandel (resp. 9-component) storage, which is an orthonormal basis: exact rational arithmetic on the inputs
    'A_invert': lambda N, a: inv_stored(flat('A', N, a)),
    'A_invert_rt': lambda N, a: IdS4,
    'A_det': lambda N, a: det_stored(flat('A', N, a)),
    'B_det': lambda N, a: det_stored(flat('B', N, a)),
    # polar decomposition: independent of the eigenvalues handed to the traced expression
    't_polar_U': lambda N, F, vp: polar(F)[1],
    't_polar_R': lambda N, F, vp: polar(F)[0],
}


def evaluate(spec, name, N, kinds_in, kind_out, inputs):
    """expected storage vector of operation `name` on the given storage vectors"""
    fulls = [full(k, N, v) for k, v in zip(kinds_in, inputs)]
    return flat(kind_out, N, spec[name](N, *fulls))


def compare(expected, observed, tol=1e-9, scale0=1.0):
    """index of the first component that differs beyond rounding (scaled by the largest magnitude of results and of
    the intermediate terms, bounded by scale0), or None"""
    if len(expected) != len(observed):
        return -1
    scale = max([1.0, scale0] + [abs(x) for x in expected] + [abs(x) for x in observed])
    for k, (e, o) in enumerate(zip(expected, observed)):
        if not (abs(e - o) <= tol * scale):
            return k
    return None

// Shared tracer infrastructure of C02 / C23 (engine S): a registry of operations of /repo's tensor algebra, each
// written ONCE generically in the scalar type and instantiated with symv::Sym (trace -> Coq definition + obligation)
// and with double (the real code: Sym-vs-double agreement, and the values the independent numerical spec is compared to).
//
// kinds of objects (storage vectors, row-major for matrices):
//   x scalar | t tensor<N> | s stensor<N> | r tmatrix<3,3> (rotation_matrix) |
//   A st2tost2<N> | B t2tot2<N> | C t2tost2<N> | D st2tot2<N>
//   v three scalars (tvector<3>, e.g. eigenvalues) | m plain 3x3 matrix, row-major, the same meaning for every N
#ifndef VERIF_TT_HXX
#define VERIF_TT_HXX
#include "symtfel.hxx"
#include "TFEL/Math/tmatrix.hxx"
#include "TFEL/Math/stensor.hxx"
#include "TFEL/Math/tensor.hxx"
#include "TFEL/Math/st2tost2.hxx"
#include "TFEL/Math/t2tot2.hxx"
#include "TFEL/Math/t2tost2.hxx"
#include "TFEL/Math/st2tot2.hxx"
#include <cstring>
#include <functional>
#include <iostream>
#include <string>
#include <vector>

namespace tt {
  using symv::Sym;
  using namespace tfel::math;
  template <typename T>
  using V = std::vector<T>;
  template <typename T>
  using In = std::vector<std::vector<T>>;
  template <typename I>
  using scalar_of = typename std::decay_t<I>::value_type::value_type;

  constexpr int tsz(int N) { return N == 1 ? 3 : (N == 2 ? 5 : 9); }
  constexpr int ssz(int N) { return N == 1 ? 3 : (N == 2 ? 4 : 6); }
  inline int ksize(char k, int N) {
    switch (k) {
      case 'x': return 1;
      case 't': return tsz(N);
      case 's': return ssz(N);
      case 'r': return 9;
      case 'v': return 3;
      case 'm': return 9;
      case 'A': return ssz(N) * ssz(N);
      case 'B': return tsz(N) * tsz(N);
      case 'C': return ssz(N) * tsz(N);
      case 'D': return tsz(N) * ssz(N);
    }
    throw std::runtime_error("bad kind");
  }

  template <unsigned short N, typename T>
  tensor<N, T> mk_t(const V<T>& v) {
    tensor<N, T> t;
    for (unsigned short i = 0; i < tsz(N); ++i) t[i] = v[i];
    return t;
  }
  template <unsigned short N, typename T>
  stensor<N, T> mk_s(const V<T>& v) {
    stensor<N, T> t;
    for (unsigned short i = 0; i < ssz(N); ++i) t[i] = v[i];
    return t;
  }
  template <typename T>
  tmatrix<3u, 3u, T> mk_r(const V<T>& v) {
    tmatrix<3u, 3u, T> m;
    for (unsigned short i = 0; i < 3; ++i)
      for (unsigned short j = 0; j < 3; ++j) m(i, j) = v[3 * i + j];
    return m;
  }
  template <typename M, typename T>
  M mk_mat(const V<T>& v, int nr, int nc) {
    M m;
    for (unsigned short i = 0; i < nr; ++i)
      for (unsigned short j = 0; j < nc; ++j) m(i, j) = v[i * nc + j];
    return m;
  }
  template <unsigned short N, typename T>
  st2tost2<N, T> mk_A(const V<T>& v) { return mk_mat<st2tost2<N, T>>(v, ssz(N), ssz(N)); }
  template <unsigned short N, typename T>
  t2tot2<N, T> mk_B(const V<T>& v) { return mk_mat<t2tot2<N, T>>(v, tsz(N), tsz(N)); }
  template <unsigned short N, typename T>
  t2tost2<N, T> mk_C(const V<T>& v) { return mk_mat<t2tost2<N, T>>(v, ssz(N), tsz(N)); }
  template <unsigned short N, typename T>
  st2tot2<N, T> mk_D(const V<T>& v) { return mk_mat<st2tot2<N, T>>(v, tsz(N), ssz(N)); }

  // flatten (through the public element accessors)
  template <unsigned short N, typename T>
  V<T> fl(const tensor<N, T>& t) {
    V<T> r;
    for (unsigned short i = 0; i < tsz(N); ++i) r.push_back(t[i]);
    return r;
  }
  template <unsigned short N, typename T>
  V<T> fl(const stensor<N, T>& t) {
    V<T> r;
    for (unsigned short i = 0; i < ssz(N); ++i) r.push_back(t[i]);
    return r;
  }
  template <typename T, typename M>
  V<T> fl_mat(const M& m, int nr, int nc) {
    V<T> r;
    for (unsigned short i = 0; i < nr; ++i)
      for (unsigned short j = 0; j < nc; ++j) r.push_back(m(i, j));
    return r;
  }
  template <unsigned short N, typename T>
  V<T> fl(const st2tost2<N, T>& m) { return fl_mat<T>(m, ssz(N), ssz(N)); }
  template <unsigned short N, typename T>
  V<T> fl(const t2tot2<N, T>& m) { return fl_mat<T>(m, tsz(N), tsz(N)); }
  template <unsigned short N, typename T>
  V<T> fl(const t2tost2<N, T>& m) { return fl_mat<T>(m, ssz(N), tsz(N)); }
  template <unsigned short N, typename T>
  V<T> fl(const st2tot2<N, T>& m) { return fl_mat<T>(m, tsz(N), ssz(N)); }
  template <typename T>
  V<T> fl(const tmatrix<3u, 3u, T>& m) { return fl_mat<T>(m, 3, 3); }

  struct Op {
    std::string name;  // Coq definition <name>_<N>, specification spec_<name> (or `spec`)
    int N;
    std::string in;   // kinds of the inputs
    char out;         // kind of the output
    std::string hyp;  // Coq hypothesis over the inputs a b c ... ("" if none), e.g. "det2 (full_t N a) <> 0"
    int tier;         // tier from which the obligations are generated: 0 quick and thorough, 1 thorough only, 9 never traced,
                      // 8 "double only": code that cannot be instantiated with Sym (iterative solvers, pivoting): the real double
                      // code is executed on the seeded inputs and compared with the numerical specification, nothing is traced
    bool proof;       // false: "execution only" -- traced, compared with the double instantiation and with the numerical
                      // specification on the seeded inputs, but NO Coq obligation is generated (listed as not proved)
    std::function<V<Sym>(const In<Sym>&)> fs;
    std::function<V<double>(const In<double>&)> fd;
    // optional: rewrites the seeded numerical inputs of sample number s (structured inputs, inputs that depend on one
    // another such as the eigenvalues the real solver returns for the tensor of another input)
    std::function<void(In<double>&, symv::Rng&, int)> prep;
  };
  inline std::vector<Op>& ops() {
    static std::vector<Op> o;
    return o;
  }
  template <typename F>
  void reg(const std::string& name, int N, const std::string& in, char out, F f, int tier = 0, const std::string& hyp = "",
           bool proof = true) {
    ops().push_back({name, N, in, out, hyp, tier, proof, [f](const In<Sym>& i) { return f(i); }, [f](const In<double>& i) { return f(i); }, {}});
  }
  // the operation registered last gets a preparation hook for its numerical inputs
  template <typename P>
  void set_prep(P p) { ops().back().prep = p; }

  inline std::string subst_N(std::string s, int N) {
    for (size_t p; (p = s.find("$N")) != std::string::npos;) s.replace(p, 2, std::to_string(N) + "%nat");
    return s;
  }

  // inputs for the tracer: variables named so that they print as applications  (a 3%nat)
  inline In<Sym> sym_inputs(const Op& op) {
    In<Sym> in;
    for (size_t k = 0; k < op.in.size(); ++k) {
      V<Sym> v;
      for (int i = 0; i < ksize(op.in[k], op.N); ++i)
        v.push_back(symv::var(std::string("(") + char('a' + k) + " " + std::to_string(i) + "%nat)"));
      in.push_back(v);
    }
    return in;
  }
  inline std::string letters(const Op& op) {
    std::string s;
    for (size_t k = 0; k < op.in.size(); ++k) s += std::string(k ? " " : "") + char('a' + k);
    return s;
  }

  // print, for every component k,  Definition <name>_<N>_c<k> (a b : nat -> R) : R := ...  with its obligation
  //   <name>_<N>_c<k>_ok : <hyp> -> <name>_<N>_c<k> a b = nth k (flat_<out> N (spec_<name> N (full_.. a) (full_.. b))) 0
  // then the list  <name>_<N> := [c0; c1; ...]  and  <name>_<N>_ok : <hyp> -> <name>_<N> a b = flat_<out> N (spec_<name> ...)
  inline void emit(std::ostream& o, const Op& op, const V<Sym>& outs) {
    const std::string nm = op.name + "_" + std::to_string(op.N);
    const std::string Ns = std::to_string(op.N) + "%nat";
    const std::string ls = letters(op);
    const std::string binder = op.in.empty() ? std::string() : " (" + ls + " : nat -> R)";
    const std::string args = op.in.empty() ? std::string() : " " + ls;
    const std::string hyp = op.hyp.empty() ? std::string() : " " + subst_N(op.hyp, op.N) + " ->";
    std::string spec = "flat_" + std::string(1, op.out) + " " + Ns + " (spec_" + op.name + " " + Ns;
    for (size_t k = 0; k < op.in.size(); ++k) spec += " (full_" + std::string(1, op.in[k]) + " " + Ns + " " + char('a' + k) + ")";
    spec += ")";
    for (size_t i = 0; i < outs.size(); ++i) {
      symv::Printer p;
      std::vector<int> roots{symv::node_of(outs[i])};
      const std::string lets = p.lets(roots);
      o << "Definition " << nm << "_c" << i << binder << " : R :=\n" << lets << "  " << p.expr(roots[0]) << ".\n";
      o << "Lemma " << nm << "_c" << i << "_ok :";
      if (!op.in.empty()) o << " forall " << ls << ",";
      o << hyp << "\n  " << nm << "_c" << i << args << " = nth " << i << " (" << spec << ") 0.\n";
      o << "Proof. prove_comp " << nm << "_c" << i << ". Qed.\n";
    }
    o << "Definition " << nm << binder << " : list R :=\n  [";
    for (size_t i = 0; i < outs.size(); ++i) o << (i ? "; " : "") << nm << "_c" << i << args;
    o << "].\n";
    o << "Lemma " << nm << "_ok :";
    if (!op.in.empty()) o << " forall " << ls << ",";
    o << hyp << "\n  " << nm << args << " = " << spec << ".\n";
    o << "Proof.\n  intros" << args << (op.hyp.empty() ? "" : " Hyp") << ". apply list_eq_nth; [reflexivity|]. intros k Hk.\n";
    for (size_t i = 0; i < outs.size(); ++i)
      o << "  destruct k as [|k]; [exact (" << nm << "_c" << i << "_ok" << args << (op.hyp.empty() ? "" : " Hyp") << ")|].\n";
    o << "  exfalso; simpl in Hk; lia.\nQed.\n\n";
  }

  // seeded inputs for the double instantiation.  mode 0: generic values in [-2,2]; the first tensor input of kind
  // 't' flagged as "F" (deformation gradient: identity + perturbation, det > 0) when op.hyp mentions det.
  inline In<double> num_inputs(const Op& op, symv::Rng& rng, int mode) {
    In<double> in;
    for (size_t k = 0; k < op.in.size(); ++k) {
      V<double> v;
      const int n = ksize(op.in[k], op.N);
      const double fac = std::pow(10., rng.below(7) - 3);
      for (int i = 0; i < n; ++i) {
        double x = rng.range(-2., 2.);
        if (mode == 1) x = double(rng.below(7) - 3);                  // small integers, zeros and ties included
        if (mode == 2) x *= fac;                                      // another magnitude for every input
        if ((op.in[k] == 't' || op.in[k] == 's') && !op.hyp.empty() && op.hyp.find(std::string("$N ") + char('a' + k)) != std::string::npos) {
          // must be invertible: identity + perturbation of size < 1/3 (diagonally dominant => det > 0)
          x = (i < 3 ? 1. + rng.range(-.3, .6) : rng.range(-.3, .3));
        }
        v.push_back(x);
      }
      in.push_back(v);
    }
    return in;
  }

  // main of every tracer:  gen <out.v> <part>/<nparts> <tier> <nsamples> <seed> | list
  inline int tracer_main(int argc, char** argv, const char* header) {
    if (argc >= 2 && !std::strcmp(argv[1], "list")) {
      // tier column: +10 for the "execution only" operations (never part of a Properties file)
      for (auto& op : ops())
        std::printf("OP %s %d %s %c %d %s\n", op.name.c_str(), op.N, op.in.empty() ? "-" : op.in.c_str(), op.out,
                    op.tier + (op.proof ? 0 : 10), op.hyp.c_str());
      return 0;
    }
    if (argc >= 7 && !std::strcmp(argv[1], "gen")) {
      const int tier = std::atoi(argv[4]);
      int part = 0, nparts = 1;
      std::sscanf(argv[3], "%d/%d", &part, &nparts);
      int opidx = -1;
      const int ns = std::atoi(argv[5]);
      symv::Rng rng(std::strtoull(argv[6], nullptr, 10));
      std::ostringstream o;
      o << "(* GENERATED by /verif engine S (symtrace) from /repo's working tree -- do not edit *)\n"
        << "From Coq Require Import Reals List Lia.\nFrom VLib Require Import RealExtra.\n"
        << header << "Import ListNotations.\nLocal Open Scope R_scope.\n\n";
      for (auto& op : ops()) {
        ++opidx;  // placement in parts does not depend on the tier
        // every operation is EXECUTED in every tier (Sym-vs-double agreement + numerical specification on the seeded
        // inputs: cheap); its Coq definitions and obligations are generated in the tiers >= op.tier only, and never for
        // the "execution only" operations.  tier 9: not even traced.
        if (op.tier >= 9) continue;
        const bool prove = op.proof && op.tier <= tier;
        if (opidx % nparts != part) continue;
        if (op.tier == 8) {
          std::printf("EXEC-DOUBLE-ONLY %s_%d\n", op.name.c_str(), op.N);
          for (int s = 0; s < ns; ++s) {
            auto din = num_inputs(op, rng, s % 3);
            if (op.prep) op.prep(din, rng, s);
            std::printf("AGREE %s_%d IN", op.name.c_str(), op.N);
            for (auto& v : din) {
              std::printf(" |");
              for (double x : v) std::printf(" %.17g", x);
            }
            std::printf(" OUT");
            try {
              for (double x : op.fd(din)) std::printf(" %.17g", x);
            } catch (std::exception& e) {
              std::printf(" nan");
            }
            std::printf("\n");
          }
          continue;
        }
        const auto in = sym_inputs(op);
        V<Sym> outs;
        try {
          outs = op.fs(in);
        } catch (std::exception& e) {
          std::printf("TRACE-FAIL %s_%d %s\n", op.name.c_str(), op.N, e.what());
          continue;
        }
        if (prove) {
          emit(o, op, outs);
        } else {
          o << "(* " << op.name << "_" << op.N << ": executed only in this run ("
            << (op.proof ? "its obligations belong to the thorough tier" : "execution only, not proved") << ") *)\n\n";
        }
        std::printf("%s %s_%d %zu\n", prove ? "TRACED" : (op.proof ? "TRACED-DEFERRED" : "TRACED-EXEC-ONLY"), op.name.c_str(), op.N,
                    outs.size());
        // Sym-vs-double agreement, and the values of the real code for the independent numerical specification
        for (int s = 0; s < ns; ++s) {
          auto din = num_inputs(op, rng, s % 3);
          if (op.prep) op.prep(din, rng, s);
          const auto d = op.fd(din);
          symv::Env env;
          long double scale = 1;
          for (size_t k = 0; k < din.size(); ++k)
            for (size_t i = 0; i < din[k].size(); ++i) {
              env[std::string("(") + char('a' + k) + " " + std::to_string(i) + "%nat)"] = din[k][i];
            }
          bool ok = d.size() == outs.size();
          std::vector<long double> ev;
          for (size_t i = 0; ok && i < d.size(); ++i) ev.push_back(symv::eval(outs[i], env));
          for (auto x : ev) scale = std::max(scale, std::fabs(x));
          for (size_t i = 0; ok && i < d.size(); ++i) ok = symv::close(d[i], ev[i], scale, 1e-10L);
          std::printf("%s %s_%d", ok ? "AGREE" : "AGREE-FAIL", op.name.c_str(), op.N);
          std::printf(" IN");
          for (auto& v : din) {
            std::printf(" |");
            for (double x : v) std::printf(" %.17g", x);
          }
          std::printf(" OUT");
          for (double x : d) std::printf(" %.17g", x);
          std::printf("\n");
        }
      }
      FILE* f = std::fopen(argv[2], "w");
      if (!f) return 3;
      const std::string s = o.str();
      std::fwrite(s.data(), 1, s.size(), f);
      std::fclose(f);
      return 0;
    }
    std::fprintf(stderr, "usage: trace gen <out.v> <part>/<nparts> <tier> <nsamples> <seed> | trace list\n");
    return 2;
  }
}  // namespace tt
#endif

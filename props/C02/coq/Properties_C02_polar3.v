(* C02 -- polar decomposition F = R U 3D, thorough tier (statements only; proofs: generated obligations t_polar_{R,U}_N_ok = "the traced
   code is the Hoger-Carlson closed form" + coq/Polar.v = "the closed form is a polar decomposition").
   a: storage vector of F; b: the three values the eigen-solver returns for C = F^T F (injected as free symbols in the
   trace), assumed to be the eigenvalues of C counted with multiplicity; polar_den = (i1 i2 - i3) i3 <> 0 holds as soon
   as they are positive (det F <> 0).  U positive definite is NOT stated (it needs the eigenvectors). *)
From Coq Require Import Reals List.
Require Import TensorIndex C02Spec Polar C02_g4_n3_p0 C02_g4_n3_p1 C02_g4_n3_p2.
Import ListNotations.
Local Open Scope R_scope.

Theorem C02_polar_decomposition_3D : forall a b : nat -> R,
  0 <= b 0%nat -> 0 <= b 1%nat -> 0 <= b 2%nat ->
  eigenvalues3 (mul2 (tr2 (full_t 3%nat a)) (full_t 3%nat a)) (b 0%nat) (b 1%nat) (b 2%nat) ->
  polar_den 3%nat (full_v 3%nat b) <> 0 ->
  exists R U : M2, t_polar_R_3 a b = flat_t 3%nat R /\ t_polar_U_3 a b = flat_s 3%nat U /\
                   is_polar_decomposition (full_t 3%nat a) R U.
Proof.
  exact (fun a b P0 P1 P2 He Hd =>
    ex_intro _ _ (ex_intro _ _ (conj (t_polar_R_3_ok a b Hd) (conj (t_polar_U_3_ok a b Hd)
      (polar_formulas_23 3%nat (full_t 3%nat a) b (or_intror eq_refl) P0 P1 P2 He Hd))))).
Qed.
Print Assumptions C02_polar_decomposition_3D.


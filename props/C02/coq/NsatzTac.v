(* nsatz behind a plain tactic name: importing Nsatz rebinds the notations 0, 1, +, *, =, <> to its type classes,
   which must not leak into files that state things over R. *)
From Coq Require Import Reals Nsatz.
Ltac nsatz_tac := nsatz.
